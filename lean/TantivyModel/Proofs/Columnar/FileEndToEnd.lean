import TantivyModel.Proofs.Columnar.ColumnFile
import TantivyModel.Proofs.Columnar.Writer
import TantivyModel.Proofs.Columnar.Merge
/-!
Operation log → column file → rows, merge → column file → rows, and the Str / Bytes file layout.
-/
namespace TantivyModel.Columnar
open TantivyModel

theorem writer_file_roundtrip (sc vc : Nat) (rows : Column Nat)
    (hv : ∀ r ∈ rows, ∀ v ∈ r, v < 2 ^ 64) (hn : rows.length ≤ 65535 * 65536)
    (hvals : rows.flatten.length < 2 ^ 32) (bytes : Bytes)
    (hibl : ∀ ib, indexEnc sc (writerEncode rows).1 = some ib → ib.length < 2 ^ 32)
    (henc : columnFileEnc sc vc (writerEncode rows).1 (writerEncode rows).2 = some bytes) :
    ∃ f, openColumnFile bytes = some f ∧ f.read = rows := by
  rw [writerEncode_eq] at hibl henc
  exact columnFile_roundtrip sc vc (detectCard rows) rows (detectCard_fits rows) hv hn hvals bytes hibl henc

theorem merge_file_roundtrip (sc vc : Nat) (card : Card) (order : List (Nat × Nat)) (ins : List (MergeInput Nat))
    (hvalid : ∀ a ∈ order, validAddr ins a)
    (hfit : card.fits (order.map (inputRow ins)))
    (hv : ∀ a ∈ order, ∀ v ∈ inputRow ins a, v < 2 ^ 64) (hn : order.length ≤ 65535 * 65536)
    (hvals : (order.map (inputRow ins)).flatten.length < 2 ^ 32) (bytes : Bytes)
    (hibl : ∀ ib, indexEnc sc (mergeShuffledAs card order ins).1 = some ib → ib.length < 2 ^ 32)
    (henc : columnFileEnc sc vc (mergeShuffledAs card order ins).1 (mergeShuffledAs card order ins).2 = some bytes) :
    ∃ f, openColumnFile bytes = some f ∧ f.read = mergeSpec order (ins.map MergeInput.read) := by
  rw [mergeShuffledAs_eq] at hibl henc
  obtain ⟨f, hf, hr⟩ := columnFile_roundtrip sc vc card (order.map (inputRow ins)) hfit
    (by intro r hr v hv'
        obtain ⟨a, ha, rfl⟩ := List.mem_map.mp hr
        exact hv a ha v hv')
    (by simpa using hn) hvals bytes hibl henc
  refine ⟨f, hf, ?_⟩
  rw [hr]
  unfold mergeSpec
  apply List.map_congr_left
  intro a ha
  exact inputRow_eq_rowAt ins a (hvalid a ha)

theorem bytesColumnFile_open (dict colFile : Bytes) (hd : dict.length < 2 ^ 32) (f : ColFile)
    (hf : openColumnFile colFile = some f) :
    openBytesColumnFile (bytesColumnFileEnc dict colFile) = some (dict, f) := by
  unfold openBytesColumnFile bytesColumnFileEnc
  simp [splitByFooter_enc' dict colFile hd, hf]

end TantivyModel.Columnar
