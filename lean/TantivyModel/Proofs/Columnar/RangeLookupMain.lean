import TantivyModel.Proofs.Columnar.RangeLookup
/-!
Main theorem: `docidsForValueRange` on an encoded column = the documents of `s..e` holding a value
in the range.
-/
namespace TantivyModel.Columnar
open TantivyModel

variable {V : Type}

/-- documents of `s..e` with a value in the range -/
def docsWithValue (key : V → Nat) (rows : Column V) (lo hi s e : Nat) : List Nat :=
  (List.range' s (e - s)).filter (fun d => (rows.getD d []).any (inR key lo hi))

theorem docsWithValue_succ (key : V → Nat) (rows : Column V) (lo hi s e : Nat) (hse : s ≤ e) (he : e < rows.length) :
    docsWithValue key rows lo hi s (e + 1)
      = docsWithValue key rows lo hi s e ++ (if rows[e].any (inR key lo hi) then [e] else []) := by
  unfold docsWithValue
  have e1 : e + 1 - s = (e - s) + 1 := by omega
  rw [e1, range'_append_one, List.filter_append]
  have e2 : s + (e - s) = e := by omega
  rw [e2]
  have : rows.getD e [] = rows[e] := by simp [List.getD_eq_getElem?_getD, he]
  simp only [List.filter_cons, List.filter_nil, this]

/-- the matching rows of the flat values for documents `s..e`, one more document -/
def matchRows (key : V → Nat) (rows : Column V) (lo hi : Nat) (a b : Nat) : List Nat :=
  (List.range' a (b - a)).filter (fun r => (rows.flatten[r]?).any (inR key lo hi))

theorem matchRows_succ (key : V → Nat) (rows : Column V) (lo hi s e : Nat) (hse : s ≤ e) (he : e < rows.length) :
    matchRows key rows lo hi (F rows s) (F rows (e + 1))
      = matchRows key rows lo hi (F rows s) (F rows e)
        ++ (List.range' (F rows e) rows[e].length).filter (fun r => (rows.flatten[r]?).any (inR key lo hi)) := by
  unfold matchRows
  have h1 := F_mono rows s e hse
  have h2 := F_succ rows e he
  have e1 : F rows (e + 1) - F rows s = (F rows e - F rows s) + rows[e].length := by omega
  rw [e1, range'_split, List.filter_append]
  have e2 : F rows s + (F rows e - F rows s) = F rows e := by omega
  rw [e2]

theorem rowsInRange_eq (key : V → Nat) (rows : Column V) (lo hi a b : Nat) (hb : b ≤ rows.flatten.length) :
    rowsInRange key rows.flatten lo hi a b = matchRows key rows lo hi a b := by
  unfold rowsInRange matchRows inR
  rw [Nat.min_eq_left hb]

/-! ## Full -/

theorem full_lookup (key : V → Nat) (rows : Column V) (h1 : ∀ r ∈ rows, r.length = 1) (lo hi s e : Nat)
    (he : e ≤ rows.length) :
    docidsForValueRange key (encodeAs .full rows).1 (encodeAs .full rows).2 lo hi s e
      = docsWithValue key rows lo hi s e := by
  have hlen : rows.flatten.length = rows.length := by
    have := all_one_flatten_take rows h1 rows.length (Nat.le_refl _); simpa using this
  unfold docidsForValueRange
  simp only [encodeAs, Index.docRangeToRows, Index.selectBatch]
  rw [rowsInRange_eq key rows lo hi s e (by omega)]
  unfold matchRows docsWithValue
  apply List.filter_congr
  intro d hd
  have hd' : d < rows.length := by have := List.mem_range'_1.mp hd; omega
  have hF : F rows d = d := all_one_flatten_take rows h1 d (by omega)
  have hl := h1 _ (List.getElem_mem hd')
  have := flatten_get? rows d hd' 0 (by omega)
  rw [hF, Nat.add_zero] at this
  rw [this]
  have hg : rows.getD d [] = rows[d] := by simp [List.getD_eq_getElem?_getD, hd']
  rw [hg]
  obtain ⟨v, hv⟩ := List.length_eq_one_iff.mp hl
  rw [hv]; simp

/-! ## Optional -/

theorem optional_lookup (key : V → Nat) (rows : Column V) (h1 : ∀ r ∈ rows, r.length ≤ 1) (lo hi s e : Nat)
    (hse : s ≤ e) (he : e ≤ rows.length) :
    docidsForValueRange key (encodeAs .optional rows).1 (encodeAs .optional rows).2 lo hi s e
      = docsWithValue key rows lo hi s e := by
  unfold docidsForValueRange
  simp only [encodeAs, Index.docRangeToRows, Index.selectBatch, rank_nn]
  have hnzF : ∀ j, nz rows j = F rows j := fun j => le_one_nz rows h1 j
  rw [hnzF s, hnzF e, rowsInRange_eq key rows lo hi _ _ (F_le_total rows e)]
  -- induction on e
  induction e with
  | zero =>
    have : s = 0 := by omega
    subst this; simp [matchRows, docsWithValue]
  | succ e ih =>
    rcases Nat.lt_or_ge s (e + 1) with hlt | hge
    · have he' : e < rows.length := by omega
      rw [matchRows_succ key rows lo hi s e (by omega) he', docsWithValue_succ key rows lo hi s e (by omega) he',
        List.map_append, ih (by omega) (by omega)]
      congr 1
      have hl := h1 _ (List.getElem_mem he')
      cases hr : rows[e] with
      | nil => simp
      | cons v vs =>
        have hvs : vs = [] := by
          cases vs with
          | nil => rfl
          | cons b bs => rw [hr] at hl; simp at hl
        subst hvs
        have hget := flatten_get? rows e he' 0 (by rw [hr]; simp)
        rw [Nat.add_zero, hr] at hget
        have hnn := nn_get rows e he' (by rw [hr]; rfl)
        rw [hnzF e] at hnn
        simp only [List.length_cons, List.length_nil, Nat.zero_add, List.range'_one, List.filter_cons, List.filter_nil,
          hget, List.getElem?_cons_zero, Option.any_some, List.any_cons, List.any_nil, Bool.or_false]
        by_cases hin : inR key lo hi v = true
        · simp only [hin, if_true, List.map_cons, List.map_nil, hnn]
        · simp only [hin, Bool.false_eq_true, if_false, List.map_nil]
    · have : s = e + 1 := by omega
      subst this; simp [matchRows, docsWithValue]

/-! ## Multivalued -/

structure MvInv (key : V → Nat) (rows : Column V) (lo hi s e : Nat) (st : List Nat × Nat × Option Nat) : Prop where
  out : st.1.map (fun k => (nonNullRows rows).getD k 0) = docsWithValue key rows lo hi s e
  cur_le : st.2.1 ≤ nz rows e
  last_lt : ∀ k, st.2.2 = some k → k < nz rows e

theorem multivalued_state (key : V → Nat) (rows : Column V) (lo hi s e : Nat) (hse : s ≤ e) (he : e ≤ rows.length) :
    MvInv key rows lo hi s e
      ((matchRows key rows lo hi (F rows s) (F rows e)).foldl (mvStep (startOffsets (rows.map List.length)))
        ([], nz rows s, none)) := by
  induction e with
  | zero =>
    have : s = 0 := by omega
    subst this
    exact ⟨by simp [matchRows, docsWithValue], by simp [matchRows], by simp [matchRows]⟩
  | succ e ih =>
    rcases Nat.lt_or_ge s (e + 1) with hlt | hge
    · have he' : e < rows.length := by omega
      have inv := ih (by omega) (by omega)
      rw [matchRows_succ key rows lo hi s e (by omega) he', List.foldl_append]
      generalize (matchRows key rows lo hi (F rows s) (F rows e)).foldl (mvStep (startOffsets (rows.map List.length)))
        ([], nz rows s, none) = st at inv ⊢
      obtain ⟨out, cur, last⟩ := st
      obtain ⟨hout, hcur, hlast⟩ := inv
      simp only at hout hcur hlast
      have hsucc := nz_succ rows e he'
      have hdv := docsWithValue_succ key rows lo hi s e (by omega) he'
      by_cases hempty : rows[e].isEmpty = true
      · -- no values: nothing changes
        have hnil : rows[e] = [] := List.isEmpty_iff.mp hempty
        simp only [hempty, if_true, Nat.add_zero] at hsucc
        simp only [hnil, List.length_nil, List.range'_zero, List.filter_nil, List.foldl_nil]
        refine ⟨?_, by simp only; omega, fun k hk => by have := hlast k hk; omega⟩
        rw [hdv]; simp only [hnil, List.any_nil, Bool.false_eq_true, if_false, List.append_nil]; exact hout
      · have hne : rows[e].isEmpty = false := by simpa using hempty
        simp only [hne, Bool.false_eq_true, if_false] at hsucc
        generalize hB : (List.range' (F rows e) rows[e].length).filter
          (fun r => (rows.flatten[r]?).any (inR key lo hi)) = B
        have hBnil := row_matches key lo hi rows e he'
        rw [hB] at hBnil
        by_cases hq : rows[e].any (inR key lo hi) = true
        · -- the row matches: its positions write `nz e` once
          have hBne : B ≠ [] := fun h => by rw [hBnil.mp h] at hq; cases hq
          have hS := starts_sorted rows
          have hk1 : nz rows e + 1 < (startOffsets (rows.map List.length)).length := by
            rw [starts_length]
            have := nz_mono rows (e + 1) rows.length (by omega); omega
          have hBpos : ∀ pos ∈ B, (startOffsets (rows.map List.length)).getD (nz rows e) 0 ≤ pos
              ∧ pos < (startOffsets (rows.map List.length)).getD (nz rows e + 1) 0 := by
            intro pos hp
            rw [← hB] at hp
            have hm := List.mem_range'_1.mp (List.mem_filter.mp hp).1
            rw [startOffsets_nz rows e, ← hsucc, startOffsets_nz rows (e + 1)]
            have := F_succ rows e he'
            unfold F at this hm
            omega
          have hlast' : last ≠ some (nz rows e) := fun h => by have := hlast _ h; omega
          rw [mvStep_block _ hS (nz rows e) hk1 B hBpos hBne out cur last hcur hlast']
          refine ⟨?_, by simp only; omega, fun k hk => by simp only [Option.some.injEq] at hk; omega⟩
          rw [hdv]
          simp only [List.map_append, List.map_cons, List.map_nil, hout, hq, if_true]
          rw [nn_get rows e he' hne]
        · have hq' : rows[e].any (inR key lo hi) = false := by simpa using hq
          have hBe : B = [] := hBnil.mpr hq'
          simp only [hBe, List.foldl_nil]
          refine ⟨?_, by simp only; omega, fun k hk => by have := hlast k hk; omega⟩
          rw [hdv]; simp only [hq', Bool.false_eq_true, if_false, List.append_nil]; exact hout
    · have : s = e + 1 := by omega
      subst this
      have e0 : matchRows key rows lo hi (F rows (e + 1)) (F rows (e + 1)) = [] := by simp [matchRows]
      rw [e0]
      exact ⟨by simp [docsWithValue], by simp, by simp⟩

theorem multivalued_lookup (key : V → Nat) (rows : Column V) (lo hi s e : Nat) (hse : s ≤ e) (he : e ≤ rows.length) :
    docidsForValueRange key (encodeAs .multivalued rows).1 (encodeAs .multivalued rows).2 lo hi s e
      = docsWithValue key rows lo hi s e := by
  unfold docidsForValueRange
  simp only [encodeAs, Index.docRangeToRows, Index.selectBatch, rank_nn, startOffsets_nz]
  have hF : ∀ j, ((rows.take j).flatten).length = F rows j := fun j => rfl
  rw [hF s, hF e, rowsInRange_eq key rows lo hi _ _ (F_le_total rows e)]
  exact (multivalued_state key rows lo hi s e hse he).out

/-- all cardinalities -/
theorem column_range_lookup (key : V → Nat) (card : Card) (rows : Column V) (hfit : card.fits rows)
    (lo hi s e : Nat) (hse : s ≤ e) (he : e ≤ rows.length) :
    docidsForValueRange key (encodeAs card rows).1 (encodeAs card rows).2 lo hi s e
      = docsWithValue key rows lo hi s e := by
  cases card with
  | full => exact full_lookup key rows hfit lo hi s e he
  | optional => exact optional_lookup key rows hfit lo hi s e hse he
  | multivalued => exact multivalued_lookup key rows lo hi s e hse he

end TantivyModel.Columnar
