import TantivyModel.Proofs.Columnar.BitPacker
/-!
`BitUnpacker::get_ids_for_value_range`: the u64 → u32 conversion of the query range (clamp, then
narrow) is exact for stored values below 2^32; the whole lookup returns the positions whose value
lies in the range.
-/
namespace TantivyModel.Columnar
open TantivyModel

theorem tooBig_iff (lo hi : Nat) (hlo : lo < 2 ^ 64) :
    Gen.range_lookup_start_too_big (BitVec.ofNat 64 lo) (BitVec.ofNat 64 hi) = true ↔ 4294967295 < lo := by
  unfold Gen.range_lookup_start_too_big
  simp only [BitVec.ult, decide_eq_true_eq, BitVec.toNat_setWidth, BitVec.toNat_ofNat]
  have : lo % 2 ^ 64 = lo := Nat.mod_eq_of_lt hlo
  rw [this]
  try omega

theorem start_u32_toNat (lo hi : Nat) :
    (Gen.range_lookup_start_u32 (BitVec.ofNat 64 lo) (BitVec.ofNat 64 hi)).toNat = lo % 2 ^ 64 % 2 ^ 32 := by
  unfold Gen.range_lookup_start_u32
  simp only [BitVec.toNat_setWidth, BitVec.toNat_ofNat]

theorem end_u32_toNat (lo hi : Nat) (hhi : hi < 2 ^ 64) :
    (Gen.range_lookup_end_u32 (BitVec.ofNat 64 lo) (BitVec.ofNat 64 hi)).toNat = min hi 4294967295 := by
  unfold Gen.range_lookup_end_u32
  have hm : hi % 2 ^ 64 = hi := Nat.mod_eq_of_lt hhi
  by_cases h : hi ≤ 4294967295
  · have hc : BitVec.ule (BitVec.ofNat 64 hi) (BitVec.setWidth 64 4294967295#32) = true := by
      simp only [BitVec.ule, decide_eq_true_eq, BitVec.toNat_setWidth, BitVec.toNat_ofNat, hm]; omega
    simp only [hc, if_true, BitVec.toNat_setWidth, BitVec.toNat_ofNat, hm]
    omega
  · have hc : BitVec.ule (BitVec.ofNat 64 hi) (BitVec.setWidth 64 4294967295#32) = false := by
      simp only [BitVec.ule, decide_eq_false_iff_not, BitVec.toNat_setWidth, BitVec.toNat_ofNat, hm]; omega
    simp only [hc, Bool.false_eq_true, if_false, BitVec.toNat_setWidth, BitVec.toNat_ofNat]
    omega

/-- clamp-then-narrow is exact: for a stored value `x < 2^32`, either the range start is beyond
u32 (nothing can match), or membership in the u64 range = membership in the converted u32 range -/
theorem range_u32_exact (lo hi x : Nat) (hlo : lo < 2 ^ 64) (hhi : hi < 2 ^ 64) (hx : x < 2 ^ 32) :
    (Gen.range_lookup_start_too_big (BitVec.ofNat 64 lo) (BitVec.ofNat 64 hi) = true → ¬ lo ≤ x) ∧
    (Gen.range_lookup_start_too_big (BitVec.ofNat 64 lo) (BitVec.ofNat 64 hi) = false →
      ((lo ≤ x ∧ x ≤ hi) ↔
        ((Gen.range_lookup_start_u32 (BitVec.ofNat 64 lo) (BitVec.ofNat 64 hi)).toNat ≤ x ∧
          x ≤ (Gen.range_lookup_end_u32 (BitVec.ofNat 64 lo) (BitVec.ofNat 64 hi)).toNat))) := by
  constructor
  · intro h
    have := (tooBig_iff lo hi hlo).mp h
    omega
  · intro h
    have hnb : ¬ 4294967295 < lo := fun hc => by
      have := (tooBig_iff lo hi hlo).mpr hc; rw [this] at h; cases h
    rw [start_u32_toNat, end_u32_toNat lo hi hhi]
    have e1 : lo % 2 ^ 64 % 2 ^ 32 = lo := by omega
    rw [e1]
    omega

/-- the whole lookup on a packed stream (possibly followed by other bytes): exactly the positions in
`s..e` whose value lies in `lo..=hi` -/
theorem unpackRangeIds_spec (w : Nat) (hw : unpackerWidthOk w = true) (vals : List Nat)
    (h : ∀ v ∈ vals, v < 2 ^ w) (rest : Bytes) (hrest : BytesOk rest)
    (lo hi s e : Nat) (hlo : lo < 2 ^ 64) (hhi : hi < 2 ^ 64) (he : e ≤ vals.length) :
    unpackRangeIds w (pack w vals ++ rest) lo hi s e
      = (List.range' s (e - s)).filter (fun i => decide (lo ≤ vals.getD i 0) && decide (vals.getD i 0 ≤ hi)) := by
  have hget : ∀ i, i ∈ List.range' s (e - s) → unpackGet w i (pack w vals ++ rest) = vals.getD i 0 := by
    intro i hmem
    have hi' : i < vals.length := by
      have := List.mem_range'_1.mp hmem; omega
    rw [unpackGet_append_any w hw vals h rest hrest i hi']
    simp [List.getD_eq_getElem?_getD, hi']
  unfold unpackRangeIds
  have h32 : Gen.RANGE_LOOKUP_FAST_MAX_BITS = 32 := rfl
  by_cases hwide : w > Gen.RANGE_LOOKUP_FAST_MAX_BITS
  · simp only [hwide, if_true]
    apply List.filter_congr
    intro i hmem
    rw [hget i hmem]
  · simp only [hwide, if_false]
    have hw32 : w ≤ 32 := by omega
    have hvx : ∀ i, i ∈ List.range' s (e - s) → vals.getD i 0 < 2 ^ 32 := by
      intro i hmem
      have hi' : i < vals.length := by
        have := List.mem_range'_1.mp hmem; omega
      have hv := h vals[i] (List.getElem_mem hi')
      have : (2 : Nat) ^ w ≤ 2 ^ 32 := Nat.pow_le_pow_right (by decide) hw32
      simp only [List.getD_eq_getElem?_getD, List.getElem?_eq_getElem hi', Option.getD_some]
      omega
    by_cases hbig : Gen.range_lookup_start_too_big (BitVec.ofNat 64 lo) (BitVec.ofNat 64 hi) = true
    · simp only [hbig, if_true]
      symm
      apply List.filter_eq_nil_iff.mpr
      intro i hmem
      have := (range_u32_exact lo hi (vals.getD i 0) hlo hhi (hvx i hmem)).1 hbig
      simp only [Bool.and_eq_true, decide_eq_true_eq]
      omega
    · have hbig' : Gen.range_lookup_start_too_big (BitVec.ofNat 64 lo) (BitVec.ofNat 64 hi) = false := by
        cases hb : Gen.range_lookup_start_too_big (BitVec.ofNat 64 lo) (BitVec.ofNat 64 hi) with
        | true => exact absurd hb hbig
        | false => rfl
      simp only [hbig', Bool.false_eq_true, if_false]
      apply List.filter_congr
      intro i hmem
      rw [hget i hmem, Nat.mod_eq_of_lt (hvx i hmem)]
      have key := (range_u32_exact lo hi (vals.getD i 0) hlo hhi (hvx i hmem)).2 hbig'
      generalize vals.getD i 0 = x at *
      rw [Bool.eq_iff_iff]
      simp only [Bool.and_eq_true, decide_eq_true_eq]
      exact key.symm

end TantivyModel.Columnar
