import TantivyModel.Proofs.Columnar.DictColumn
import TantivyModel.Proofs.Columnar.StackMissing
/-!
Stacked merge of a Str / Bytes column: merged dictionary (every term kept) + stacked index +
remapped ordinals.
-/
namespace TantivyModel.Columnar
open TantivyModel

theorem nonNullFrom_map {V W : Type} (f : V → W) (i : Nat) (rows : Column V) :
    nonNullFrom i (rows.map (List.map f)) = nonNullFrom i rows := by
  induction rows generalizing i with
  | nil => rfl
  | cons r rs ih =>
    cases r with
    | nil => simp [nonNullFrom, ih]
    | cons a as => simp [nonNullFrom, ih]

theorem encodeAs_map {V W : Type} (f : V → W) (card : Card) (rows : Column V) :
    encodeAs card (rows.map (List.map f)) = ((encodeAs card rows).1, (encodeAs card rows).2.map f) := by
  have hl : (rows.map (List.map f)).map List.length = rows.map List.length := by
    rw [List.map_map]; apply List.map_congr_left; intro r _; simp
  cases card with
  | full => simp [encodeAs, List.map_flatten]
  | optional => simp [encodeAs, nonNullRows, nonNullFrom_map, List.map_flatten]
  | multivalued => simp only [encodeAs, nonNullRows, nonNullFrom_map, List.map_flatten, hl, List.length_map]

theorem read_map {V W : Type} (f : V → W) (idx : Index) (vals : List V) :
    read idx (vals.map f) = (read idx vals).map (List.map f) := by
  unfold read
  rw [List.length_map, List.map_map]
  apply List.map_congr_left
  intro d _
  simp only [Function.comp, readRow_map]

theorem remapInput_read (dm : DictMerge) (s : Nat) (m : MergeInput Nat) :
    (remapInput dm s m).read = m.read.map (List.map (fun o => (remapOrd dm s o).getD 0)) := by
  unfold remapInput MergeInput.read
  cases m.col with
  | none => simp
  | some c => simp only [Option.map_some]; exact read_map _ c.1 c.2

theorem remapInput_canonOrMissing (dm : DictMerge) (s : Nat) (m : MergeInput Nat) (h : CanonOrMissing m) :
    CanonOrMissing (remapInput dm s m) := by
  rcases h with h | ⟨c, hfit, rfl⟩
  · left; unfold remapInput; rw [h]; rfl
  · right
    refine ⟨(c.1, c.2.map (List.map (fun o => (remapOrd dm s o).getD 0))), ?_, ?_⟩
    · exact fits_map_rows c.1 c.2 _ (by rw [List.map_map]; apply List.map_congr_left; intro r _; simp) hfit
    · unfold remapInput canonInput
      simp only [Option.map_some, encodeAs_map, List.length_map]

theorem mergeDictColumnStacked_spec (ins : List DictInput)
    (hdict : ∀ d ∈ ins, d.dict.Pairwise (· < ·))
    (hcanon : ∀ d ∈ ins, CanonOrMissing d.ords)
    (hords : ∀ d ∈ ins, ∀ r ∈ d.ords.read, ∀ o ∈ r, o < d.dict.length) :
    readTerms (mergeDictColumnStacked ins).1 (mergeDictColumnStacked ins).2.1 (mergeDictColumnStacked ins).2.2
      = stackSpec (ins.map DictInput.readTerms) := by
  unfold mergeDictColumnStacked readTerms
  simp only
  generalize hdm : mergeDicts (fun _ _ => true) (ins.map (·.dict)) = dm
  have hc' : ∀ m ∈ ins.mapIdx (fun s d => remapInput dm s d.ords), CanonOrMissing m := by
    intro m hm
    obtain ⟨s, hs, rfl⟩ := List.mem_mapIdx.mp hm
    exact remapInput_canonOrMissing dm s _ (hcanon _ (List.getElem_mem _))
  rw [read_mergeStacked_any _ hc']
  unfold stackSpec
  rw [List.map_flatten]
  congr 1
  apply List.ext_getElem?
  intro s
  simp only [List.getElem?_map, List.getElem?_mapIdx]
  cases hd : ins[s]? with
  | none => rfl
  | some d =>
    simp only [Option.map_some, Option.some.injEq]
    rw [remapInput_read]
    unfold DictInput.readTerms
    rw [List.map_map]
    apply List.map_congr_left
    intro r hr
    simp only [Function.comp, List.map_map]
    apply List.map_congr_left
    intro o ho
    simp only [Function.comp]
    have hmem : d ∈ ins := List.mem_of_getElem? hd
    have hs : s < (ins.map (·.dict)).length := by
      have := (List.getElem?_eq_some_iff.mp hd).1
      simpa using this
    have hds : ∀ x ∈ ins.map (·.dict), x.Pairwise (· < ·) := by
      intro x hx
      obtain ⟨y, hy, rfl⟩ := List.mem_map.mp hx
      exact hdict y hy
    have hget : (ins.map (·.dict)).getD s [] = d.dict := by
      simp [List.getD_eq_getElem?_getD, hd]
    have ho' : o < ((ins.map (·.dict)).getD s []).length := by rw [hget]; exact hords d hmem r hr o ho
    obtain ⟨n, hn, hm⟩ := remapOrd_spec (fun _ _ => true) (ins.map (·.dict)) hds s o hs ho' rfl
    rw [hdm] at hn hm
    rw [hn, hget] at *
    exact hm

end TantivyModel.Columnar
