import TantivyModel.Model.Columnar.CompactSpace
import TantivyModel.Proofs.Columnar.Codec
/-!
Compact space: value ↔ compact value is exact and order preserving on the covered space; the
covered space is the complement of the blanks; the codec reads back every value.
-/
namespace TantivyModel.Columnar
open TantivyModel

/-- ranges are well formed: non-empty, sorted, disjoint -/
structure ValidRanges (rs : Ranges) : Prop where
  nonempty : ∀ r ∈ rs, r.1 ≤ r.2
  sorted : rs.Pairwise (fun a b => a.2 < b.1)

def Covered (rs : Ranges) (v : Nat) : Prop := ∃ r ∈ rs, r.1 ≤ v ∧ v ≤ r.2

theorem ValidRanges.tail {r : Nat × Nat} {rs : Ranges} (h : ValidRanges (r :: rs)) : ValidRanges rs :=
  ⟨fun x hx => h.nonempty x (by simp [hx]), (List.pairwise_cons.mp h.sorted).2⟩

theorem amplitude_cons (r : Nat × Nat) (rs : Ranges) : amplitude (r :: rs) = rangeLen r + amplitude rs := by
  simp [amplitude]

theorem toCompactFrom_spec (rs : Ranges) (hv : ValidRanges rs) (acc v : Nat) (hc : Covered rs v) :
    ∃ c, toCompactFrom acc rs v = some c ∧ acc ≤ c ∧ c < acc + amplitude rs ∧ fromCompactFrom acc rs c = v := by
  induction rs generalizing acc with
  | nil => obtain ⟨r, hr, _⟩ := hc; simp at hr
  | cons r rest ih =>
    have hne := hv.nonempty r (by simp)
    have hlater : ∀ x ∈ rest, r.2 < x.1 := (List.pairwise_cons.mp hv.sorted).1
    by_cases hin : r.1 ≤ v ∧ v ≤ r.2
    · refine ⟨acc + (v - r.1), by simp [toCompactFrom, hin], by omega, ?_, ?_⟩
      · rw [amplitude_cons]; unfold rangeLen; omega
      · cases rest with
        | nil => simp [fromCompactFrom]; omega
        | cons r2 rs2 =>
          have : acc + (v - r.1) < acc + rangeLen r := by unfold rangeLen; omega
          simp [fromCompactFrom, this]; omega
    · have hc' : Covered rest v := by
        obtain ⟨x, hx, hx1, hx2⟩ := hc
        rcases List.mem_cons.mp hx with rfl | hx'
        · exact absurd ⟨hx1, hx2⟩ hin
        · exact ⟨x, hx', hx1, hx2⟩
      obtain ⟨c, h1, h2, h3, h4⟩ := ih hv.tail (acc + rangeLen r) hc'
      refine ⟨c, by simp [toCompactFrom, hin, h1], by omega, by rw [amplitude_cons]; omega, ?_⟩
      cases rest with
      | nil => obtain ⟨x, hx, _⟩ := hc'; simp at hx
      | cons r2 rs2 =>
        have : ¬ c < acc + rangeLen r := by omega
        simp [fromCompactFrom, this, h4]

theorem toCompactFrom_mono (rs : Ranges) (hv : ValidRanges rs) (acc v1 v2 c1 c2 : Nat) (hlt : v1 < v2)
    (h1 : toCompactFrom acc rs v1 = some c1) (h2 : toCompactFrom acc rs v2 = some c2) : c1 < c2 := by
  induction rs generalizing acc with
  | nil => simp [toCompactFrom] at h1
  | cons r rest ih =>
    have hne := hv.nonempty r (by simp)
    have hlater : ∀ x ∈ rest, r.2 < x.1 := (List.pairwise_cons.mp hv.sorted).1
    -- a value found later is above this range
    have habove : ∀ acc' v c, toCompactFrom acc' rest v = some c → r.2 < v ∧ acc' ≤ c := by
      intro acc' v c h
      have : ∀ (l : Ranges) (a : Nat), (∀ x ∈ l, r.2 < x.1) → toCompactFrom a l v = some c → r.2 < v ∧ a ≤ c := by
        intro l
        induction l with
        | nil => intro a _ h; simp [toCompactFrom] at h
        | cons y ys ihy =>
          intro a hl h
          unfold toCompactFrom at h
          by_cases hy : y.1 ≤ v ∧ v ≤ y.2
          · simp only [hy, and_self, if_true, Option.some.injEq] at h
            have := hl y (by simp); omega
          · simp only [hy, if_false] at h
            have := ihy (a + rangeLen y) (fun x hx => hl x (by simp [hx])) h
            omega
      exact this rest acc' hlater h
    unfold toCompactFrom at h1 h2
    by_cases hin1 : r.1 ≤ v1 ∧ v1 ≤ r.2
    · simp only [hin1, and_self, if_true, Option.some.injEq] at h1
      by_cases hin2 : r.1 ≤ v2 ∧ v2 ≤ r.2
      · simp only [hin2, and_self, if_true, Option.some.injEq] at h2; omega
      · simp only [hin2, if_false] at h2
        have := habove _ _ _ h2
        unfold rangeLen at this; omega
    · simp only [hin1, if_false] at h1
      have hab1 := habove _ _ _ h1
      by_cases hin2 : r.1 ≤ v2 ∧ v2 ≤ r.2
      · omega
      · simp only [hin2, if_false] at h2
        exact ih hv.tail (acc + rangeLen r) h1 h2

/-! ## covered space = complement of the blanks -/

structure ValidBlanks (lo : Nat) (bs : List (Nat × Nat)) : Prop where
  each : ∀ b ∈ bs, b.1 ≤ b.2 ∧ b.2 ≤ U128MAX
  first : ∀ b ∈ bs.head?, lo ≤ b.1
  sep : bs.Pairwise (fun a b => a.2 + 1 < b.1)

theorem ValidBlanks.tail {lo : Nat} {b : Nat × Nat} {bs : List (Nat × Nat)} (h : ValidBlanks lo (b :: bs)) :
    ValidBlanks (b.2 + 1) bs := by
  refine ⟨fun x hx => h.each x (by simp [hx]), ?_, (List.pairwise_cons.mp h.sep).2⟩
  intro x hx
  cases bs with
  | nil => simp at hx
  | cons y ys =>
    simp at hx; subst hx
    have := (List.pairwise_cons.mp h.sep).1 y (by simp); omega

theorem coveredFrom_covers (lo : Nat) (bs : List (Nat × Nat)) (hb : ValidBlanks lo bs) (v : Nat)
    (hlo : lo ≤ v) (hmax : v ≤ U128MAX) (hout : ∀ b ∈ bs, ¬ (b.1 ≤ v ∧ v ≤ b.2)) :
    Covered (coveredFrom lo bs) v := by
  induction bs generalizing lo with
  | nil => exact ⟨(lo, U128MAX), by simp [coveredFrom]; omega, hlo, hmax⟩
  | cons b rest ih =>
    unfold coveredFrom
    by_cases hlt : v < b.1
    · have : lo < b.1 := by omega
      exact ⟨(lo, b.1 - 1), by simp [this], hlo, by simp; omega⟩
    · have hnot := hout b (by simp)
      have hgt : b.2 < v := by omega
      obtain ⟨r, hr, h1, h2⟩ := ih (b.2 + 1) hb.tail (by omega) (fun x hx => hout x (by simp [hx]))
      exact ⟨r, List.mem_append_right _ hr, h1, h2⟩

theorem coveredFrom_ge (lo : Nat) (bs : List (Nat × Nat)) (hb : ValidBlanks lo bs) :
    ∀ r ∈ coveredFrom lo bs, lo ≤ r.1 ∧ r.1 ≤ r.2 := by
  induction bs generalizing lo with
  | nil =>
    intro r hr
    unfold coveredFrom at hr
    split at hr
    · simp at hr; subst hr; simp; omega
    · simp at hr
  | cons b rest ih =>
    intro r hr
    unfold coveredFrom at hr
    have hfirst : lo ≤ b.1 := hb.first b (by simp)
    have hbe := hb.each b (by simp)
    rcases List.mem_append.mp hr with h | h
    · split at h
      · simp at h; subst h; simp; omega
      · simp at h
    · have := ih (b.2 + 1) hb.tail r h
      omega

theorem coveredFrom_valid (lo : Nat) (bs : List (Nat × Nat)) (hb : ValidBlanks lo bs) :
    ValidRanges (coveredFrom lo bs) := by
  induction bs generalizing lo with
  | nil =>
    unfold coveredFrom
    split
    · exact ⟨by intro r hr; simp at hr; subst hr; simpa, by simp⟩
    · exact ⟨by simp, by simp⟩
  | cons b rest ih =>
    have hfirst : lo ≤ b.1 := hb.first b (by simp)
    have hbe := hb.each b (by simp)
    have htail := ih (b.2 + 1) hb.tail
    have hge := coveredFrom_ge (b.2 + 1) rest hb.tail
    unfold coveredFrom
    split
    · refine ⟨?_, ?_⟩
      · intro r hr
        rcases List.mem_append.mp hr with h | h
        · simp at h; subst h; simp; omega
        · exact htail.nonempty r h
      · simp only [List.singleton_append]
        apply List.pairwise_cons.mpr
        refine ⟨?_, htail.sorted⟩
        intro x hx
        have := hge x hx
        simp; omega
    · simpa using htail

theorem coveredFrom_le_max (lo : Nat) (bs : List (Nat × Nat)) (hb : ValidBlanks lo bs) :
    ∀ r ∈ coveredFrom lo bs, r.2 ≤ U128MAX := by
  induction bs generalizing lo with
  | nil =>
    intro r hr
    unfold coveredFrom at hr
    split at hr
    · simp at hr; subst hr; exact Nat.le_refl _
    · simp at hr
  | cons b rest ih =>
    intro r hr
    unfold coveredFrom at hr
    have hbe := hb.each b (by simp)
    rcases List.mem_append.mp hr with h | h
    · split at h
      · simp at h; subst h; simp; omega
      · simp at h
    · exact ih (b.2 + 1) hb.tail r h

/-! ## the codec -/

theorem compact_codec_exact (rs : Ranges) (hv : ValidRanges rs) (hamp : amplitude rs < 2 ^ 64)
    (vals : List Nat) (hcov : ∀ v ∈ vals, Covered rs v) (rest : Bytes) (hrest : BytesOk rest)
    (i : Nat) (hi : i < vals.length) :
    fromCompact rs (unpackGet (computeNumBits (amplitude rs)) i (compactPayload rs vals ++ rest)) = vals[i] := by
  unfold compactPayload
  have hbound : ∀ x ∈ vals.map (fun v => (toCompact rs v).getD 0), x < 2 ^ computeNumBits (amplitude rs) := by
    intro x hx
    obtain ⟨v, hvm, rfl⟩ := List.mem_map.mp hx
    obtain ⟨c, h1, h2, h3, _⟩ := toCompactFrom_spec rs hv 1 v (hcov v hvm)
    unfold toCompact; rw [h1]
    have := lt_two_pow_computeNumBits (amplitude rs) hamp
    simp only [Option.getD_some]; omega
  rw [unpackGet_append_any _ (computeNumBits_ok _) _ hbound rest hrest i (by simpa using hi)]
  simp only [List.getElem_map]
  obtain ⟨c, h1, _, _, h4⟩ := toCompactFrom_spec rs hv 1 vals[i] (hcov _ (List.getElem_mem hi))
  unfold toCompact fromCompact
  rw [h1]; exact h4

end TantivyModel.Columnar
