import TantivyModel.Proofs.Columnar.DictMerge
/-!
The whole dictionary merge: termination state and the remap theorem.
-/
namespace TantivyModel.Columnar
open TantivyModel

theorem dictStep_none (used : Nat → Nat → Bool) (st : DictMerge) (h : dictStep used st = none) :
    minHead st.rem = none := by
  unfold dictStep at h
  cases hm : minHead st.rem with
  | none => rfl
  | some m => rw [hm] at h; cases h

theorem dm_run (used : Nat → Nat → Bool) (ds : List (List Nat)) (hds : ∀ d ∈ ds, d.Pairwise (· < ·)) :
    ∀ fuel st, DMInv used ds st → remTotal st < fuel →
      DMInv used ds (dictRun used fuel st) ∧ dictStep used (dictRun used fuel st) = none := by
  intro fuel
  induction fuel with
  | zero => intro st _ h; omega
  | succ fuel ih =>
    intro st inv hlt
    unfold dictRun
    cases hs : dictStep used st with
    | none => exact ⟨inv, hs⟩
    | some st' =>
      obtain ⟨inv', hdec⟩ := dm_step used ds hds st st' inv hs
      exact ih st' inv' (by omega)

/-- the merged dictionary is strictly increasing; every (segment, old ordinal) used by a surviving
row is registered, and every registered new ordinal holds the same term in the merged dictionary -/
theorem mergeDicts_spec (used : Nat → Nat → Bool) (ds : List (List Nat)) (hds : ∀ d ∈ ds, d.Pairwise (· < ·)) :
    (mergeDicts used ds).merged.Pairwise (· < ·) ∧
    (∀ e ∈ (mergeDicts used ds).map, e.1 < ds.length ∧ e.2.1 < (ds.getD e.1 []).length ∧
        (mergeDicts used ds).merged[e.2.2]? = (ds.getD e.1 [])[e.2.1]?) ∧
    (∀ s o, s < ds.length → o < (ds.getD s []).length → used s o = true →
        ∃ n, (s, o, n) ∈ (mergeDicts used ds).map) := by
  have hinit := dm_init used ds
  have hfuel : remTotal { rem := ds, ords := List.replicate ds.length 0, cur := 0, merged := [], map := [] }
      < (ds.map List.length).sum + 1 := by unfold remTotal; simp
  obtain ⟨inv, hnone⟩ := dm_run used ds hds _ _ hinit hfuel
  unfold mergeDicts
  generalize dictRun used ((ds.map List.length).sum + 1)
    { rem := ds, ords := List.replicate ds.length 0, cur := 0, merged := [], map := [] } = r at inv hnone
  refine ⟨inv.sorted, inv.map_ok, ?_⟩
  intro s o hs ho hu
  have hempty := minHead_none r.rem (dictStep_none used r hnone) s
  rw [inv.rem_eq s hs] at hempty
  have hge : (ds.getD s []).length ≤ r.ords.getD s 0 := List.drop_eq_nil_iff.mp hempty
  exact inv.map_all s o hs (by omega) ho hu

/-- reading a remapped ordinal in the merged dictionary gives the term the old ordinal denoted -/
theorem remapOrd_spec (used : Nat → Nat → Bool) (ds : List (List Nat)) (hds : ∀ d ∈ ds, d.Pairwise (· < ·))
    (s o : Nat) (hs : s < ds.length) (ho : o < (ds.getD s []).length) (hu : used s o = true) :
    ∃ n, remapOrd (mergeDicts used ds) s o = some n ∧ (mergeDicts used ds).merged[n]? = (ds.getD s [])[o]? := by
  obtain ⟨_, hok, hall⟩ := mergeDicts_spec used ds hds
  obtain ⟨n0, hn0⟩ := hall s o hs ho hu
  unfold remapOrd
  cases hf : (mergeDicts used ds).map.find? (fun e => e.1 == s && e.2.1 == o) with
  | none =>
    have := List.find?_eq_none.mp hf (s, o, n0) hn0
    simp at this
  | some e =>
    have hmem := List.mem_of_find?_eq_some hf
    have hp := List.find?_some hf
    simp only [Bool.and_eq_true, beq_iff_eq] at hp
    obtain ⟨_, _, h3⟩ := hok e hmem
    refine ⟨e.2.2, rfl, ?_⟩
    rw [h3, hp.1, hp.2]

/-- in a strictly increasing list positions and elements are ordered alike -/
theorem sorted_idx_lt (l : List Nat) (h : l.Pairwise (· < ·)) (i j a b : Nat)
    (hi : l[i]? = some a) (hj : l[j]? = some b) : a < b ↔ i < j := by
  obtain ⟨hil, hia⟩ := List.getElem?_eq_some_iff.mp hi
  obtain ⟨hjl, hjb⟩ := List.getElem?_eq_some_iff.mp hj
  have hp := List.pairwise_iff_getElem.mp h
  rcases Nat.lt_trichotomy i j with hlt | heq | hgt
  · have := hp i j hil hjl hlt; omega
  · subst heq; have : a = b := by rw [← hia, ← hjb]
    omega
  · have := hp j i hjl hil hgt; omega

end TantivyModel.Columnar
