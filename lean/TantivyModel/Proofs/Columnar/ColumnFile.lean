import TantivyModel.Model.Columnar.ColumnFile
import TantivyModel.Proofs.Columnar.LinearColumn
import TantivyModel.Proofs.Columnar.OptRankSelect
import TantivyModel.Proofs.Columnar.Column
import TantivyModel.Proofs.Columnar.RangeLookup
import TantivyModel.Proofs.Columnar.CompactColumnMain
/-!
`open_column_u64 ∘ serialize_column_mappable_to_u64` on the whole column file.
-/
namespace TantivyModel.Columnar
open TantivyModel

theorem encodeU64Column_roundtrip (vals : List Nat) (hv : ∀ v ∈ vals, v < 2 ^ 64) (hlen : vals.length < 2 ^ 32)
    (codec : Nat) (bytes : Bytes) (henc : encodeU64Column codec vals = some bytes) :
    decodeU64Column bytes = some vals := by
  unfold encodeU64Column at henc
  split at henc
  · cases henc; exact bitpacked_column_roundtrip vals hv hlen
  · cases h : linearEnc vals with
    | none => rw [h] at henc; cases henc
    | some b => rw [h] at henc; cases henc; exact linear_column_roundtrip vals hv hlen b h
  · cases henc; exact blockwise_column_roundtrip vals hv hlen
  · cases henc

theorem splitByFooter_enc (A B : Bytes) (h : A.length < 2 ^ 32) :
    splitByFooter (A ++ B ++ leBytes 4 A.length) = some (A, B) := by
  unfold splitByFooter
  have hC : (leBytes 4 A.length).length = 4 := leBytes_length _ _
  have hl : (A ++ B ++ leBytes 4 A.length).length = A.length + B.length + 4 := by
    simp only [List.length_append, hC]
  have h1 : ¬ (A ++ B ++ leBytes 4 A.length).length < 4 := by omega
  have hd : (A ++ B ++ leBytes 4 A.length).length - 4 = (A ++ B).length := by
    rw [hl]; simp
  simp only [h1, if_false]
  rw [hd, List.drop_left, List.take_left, leNat_leBytes,
    Nat.mod_eq_of_lt (by rw [pow256]; exact h)]
  have h2 : ¬ A.length > (A ++ B).length := by simp
  simp only [h2, if_false, List.take_left, List.drop_left]

theorem splitByFooter_enc' (A B : Bytes) (h : A.length < 2 ^ 32) :
    splitByFooter (A ++ (B ++ leBytes 4 A.length)) = some (A, B) := by
  rw [← List.append_assoc]; exact splitByFooter_enc A B h

/-- what the index builders and merges hand to the serializer -/
def IndexOk : Index → Prop
  | .empty _ => False
  | .full => True
  | .optional nn n => OptOk nn n
  | .multivalued nn n starts => OptOk nn n ∧ (∀ s ∈ starts, s < 2 ^ 64) ∧ starts.length < 2 ^ 32

theorem openIndex_enc (sc : Nat) (idx : Index) (numVals : Nat) (ib : Bytes) (hok : IndexOk idx)
    (hib : indexEnc sc idx = some ib) (hibl : ib.length < 2 ^ 32) :
    ∃ fi, openIndex ib = some fi ∧ fi.numDocs numVals = idx.numDocs numVals ∧
      ∀ d, d < idx.numDocs numVals → fi.valueRowIds d = idx.valueRowIds d := by
  cases idx with
  | empty n => exact absurd hok (by simp [IndexOk])
  | full =>
    simp only [indexEnc, Option.some.injEq] at hib
    subst hib
    exact ⟨.full, by simp [openIndex], rfl, fun d _ => rfl⟩
  | optional nn n =>
    simp only [indexEnc, Option.some.injEq] at hib
    subst hib
    have ok : OptOk nn n := hok
    refine ⟨.optional (openedOf nn n), ?_, rfl, ?_⟩
    · simp [openIndex, optOpen_enc nn n ok]
    · intro d hd
      have hd' : d < n := hd
      simp only [FileIndex.valueRowIds, Index.valueRowIds, rankIfExists, opt_rankIfExists nn n ok d hd']
      by_cases hm : d ∈ nn <;> simp [hm]
  | multivalued nn n starts =>
    obtain ⟨ok, hs, hsl⟩ : OptOk nn n ∧ (∀ s ∈ starts, s < 2 ^ 64) ∧ starts.length < 2 ^ 32 := hok
    simp only [indexEnc, Option.bind_eq_bind] at hib
    cases hsb : encodeU64Column sc starts with
    | none => rw [hsb] at hib; cases hib
    | some sb =>
      rw [hsb] at hib
      simp only [Option.bind_some, Option.some.injEq] at hib
      subst hib
      have hol : (optEnc nn n).length < 2 ^ 32 := by
        simp only [List.length_cons, List.length_append] at hibl; omega
      refine ⟨.multivalued (openedOf nn n) starts, ?_, rfl, ?_⟩
      · simp [openIndex, splitByFooter_enc' _ sb hol, optOpen_enc nn n ok,
          encodeU64Column_roundtrip starts hs hsl sc sb hsb]
      · intro d hd
        have hd' : d < n := hd
        simp only [FileIndex.valueRowIds, Index.valueRowIds, rankIfExists, opt_rankIfExists nn n ok d hd']
        by_cases hm : d ∈ nn <;> simp [hm]

theorem columnFile_open (sc vc : Nat) (idx : Index) (vals : List Nat) (bytes : Bytes)
    (hok : IndexOk idx) (hv : ∀ v ∈ vals, v < 2 ^ 64) (hlen : vals.length < 2 ^ 32)
    (hibl : ∀ ib, indexEnc sc idx = some ib → ib.length < 2 ^ 32)
    (henc : columnFileEnc sc vc idx vals = some bytes) :
    ∃ f, openColumnFile bytes = some f ∧ f.vals = vals ∧
      f.idx.numDocs vals.length = idx.numDocs vals.length ∧
      ∀ d, d < idx.numDocs vals.length → f.idx.valueRowIds d = idx.valueRowIds d := by
  unfold columnFileEnc at henc
  simp only [Option.bind_eq_bind] at henc
  cases hib : indexEnc sc idx with
  | none => rw [hib] at henc; cases henc
  | some ib =>
    rw [hib] at henc
    simp only [Option.bind_some] at henc
    cases hvb : encodeU64Column vc vals with
    | none => rw [hvb] at henc; cases henc
    | some vb =>
      rw [hvb] at henc
      simp only [Option.bind_some, Option.some.injEq] at henc
      subst henc
      obtain ⟨fi, hfi, hnd, hrows⟩ := openIndex_enc sc idx vals.length ib hok hib (hibl ib hib)
      refine ⟨⟨fi, vals⟩, ?_, rfl, hnd, hrows⟩
      unfold openColumnFile
      simp [splitByFooter_enc' ib vb (hibl ib hib), hfi, encodeU64Column_roundtrip vals hv hlen vc vb hvb]

/-- reading every document of the opened file = reading through the abstract index -/
theorem columnFile_read (sc vc : Nat) (idx : Index) (vals : List Nat) (bytes : Bytes)
    (hok : IndexOk idx) (hv : ∀ v ∈ vals, v < 2 ^ 64) (hlen : vals.length < 2 ^ 32)
    (hibl : ∀ ib, indexEnc sc idx = some ib → ib.length < 2 ^ 32)
    (henc : columnFileEnc sc vc idx vals = some bytes) :
    ∃ f, openColumnFile bytes = some f ∧ f.read = read idx vals := by
  obtain ⟨f, hf, hvals, hnd, hrows⟩ := columnFile_open sc vc idx vals bytes hok hv hlen hibl henc
  refine ⟨f, hf, ?_⟩
  unfold ColFile.read read
  rw [hvals, hnd]
  apply List.map_congr_left
  intro d hd
  have hd' : d < idx.numDocs vals.length := List.mem_range.mp hd
  unfold ColFile.readRow readRow
  simp only [hvals, hrows d hd']

theorem colFile_read_eq (f : ColFile) (idx : Index) (vals : List Nat) (hvals : f.vals = vals)
    (hnd : f.idx.numDocs vals.length = idx.numDocs vals.length)
    (hrows : ∀ d, d < idx.numDocs vals.length → f.idx.valueRowIds d = idx.valueRowIds d) :
    f.read = read idx vals := by
  unfold ColFile.read read
  rw [hvals, hnd]
  apply List.map_congr_left
  intro d hd
  have hd' : d < idx.numDocs vals.length := List.mem_range.mp hd
  unfold ColFile.readRow readRow
  simp only [hvals, hrows d hd']

theorem decodeU128Column_enc (rs : Ranges) (hv : ValidRanges rs) (hmax : ∀ r ∈ rs, r.2 ≤ U128MAX)
    (hnr : rs.length ≤ 100000000) (hamp : amplitude rs < 2 ^ 64)
    (vals : List Nat) (hcov : ∀ v ∈ vals, Covered rs v) (hlen : vals.length < 2 ^ 32) :
    decodeU128Column (ipColumnEnc rs vals) = some vals := by
  obtain ⟨c, hc, hn, _, hget⟩ := compact_column_roundtrip rs hv hmax hnr hamp vals hcov hlen
  unfold decodeU128Column
  rw [hc]
  simp only [Option.map_some, Option.some.injEq]
  apply List.ext_getElem
  · simp [hn]
  · intro i h1 h2
    simp only [List.getElem_map, List.getElem_range]
    exact hget i h2

theorem columnFile128_read (sc : Nat) (rs : Ranges) (idx : Index) (vals : List Nat) (bytes : Bytes)
    (hok : IndexOk idx) (hv : ValidRanges rs) (hmax : ∀ r ∈ rs, r.2 ≤ U128MAX)
    (hnr : rs.length ≤ 100000000) (hamp : amplitude rs < 2 ^ 64)
    (hcov : ∀ v ∈ vals, Covered rs v) (hlen : vals.length < 2 ^ 32)
    (hibl : ∀ ib, indexEnc sc idx = some ib → ib.length < 2 ^ 32)
    (henc : columnFileEnc128 sc rs idx vals = some bytes) :
    ∃ f, openColumnFile128 bytes = some f ∧ f.read = read idx vals := by
  unfold columnFileEnc128 at henc
  simp only [Option.bind_eq_bind] at henc
  cases hib : indexEnc sc idx with
  | none => rw [hib] at henc; cases henc
  | some ib =>
    rw [hib] at henc
    simp only [Option.bind_some, Option.some.injEq] at henc
    subst henc
    obtain ⟨fi, hfi, hnd, hrows⟩ := openIndex_enc sc idx vals.length ib hok hib (hibl ib hib)
    refine ⟨⟨fi, vals⟩, ?_, colFile_read_eq ⟨fi, vals⟩ idx vals rfl hnd hrows⟩
    unfold openColumnFile128
    simp [splitByFooter_enc' ib _ (hibl ib hib), hfi, decodeU128Column_enc rs hv hmax hnr hamp vals hcov hlen]

theorem prefixSums_le (l : List Nat) (acc : Nat) : ∀ x ∈ prefixSums l acc, x ≤ acc + l.sum := by
  induction l generalizing acc with
  | nil => intro x hx; simp [prefixSums] at hx; omega
  | cons n ns ih =>
    intro x hx
    simp only [prefixSums, List.mem_cons] at hx
    rcases hx with rfl | hx
    · simp
    · have := ih (acc + n) x hx
      simp only [List.sum_cons]; omega

theorem sum_filter_le (l : List Nat) (p : Nat → Bool) : (l.filter p).sum ≤ l.sum := by
  induction l with
  | nil => simp
  | cons a as ih =>
    simp only [List.filter_cons]
    split <;> simp only [List.sum_cons] <;> omega

/-- what the writer (and every merge) produces for rows is well formed for the serializer -/
theorem encodeAs_indexOk (card : Card) (rows : Column Nat) (hn : rows.length ≤ 65535 * 65536)
    (hvals : rows.flatten.length < 2 ^ 32) : IndexOk (encodeAs card rows).1 := by
  have hopt : OptOk (nonNullRows rows) rows.length := by
    refine ⟨nonNullFrom_sorted 0 rows, ?_, hn⟩
    intro r hr
    have h := (mem_nonNullFrom 0 rows r).mp hr
    rcases Nat.lt_or_ge r rows.length with hlt | hge
    · exact hlt
    · have : rows.getD (r - 0) [] = [] := by simp [List.getD_eq_getElem?_getD, hge]
      rw [this] at h; simp at h
  cases card with
  | full => trivial
  | optional => exact hopt
  | multivalued =>
    refine ⟨hopt, ?_, ?_⟩
    · intro s hs
      have h1 := prefixSums_le _ 0 s hs
      have h2 := sum_filter_le (rows.map List.length) (fun x => decide (x ≠ 0))
      have h3 : (rows.map List.length).sum = rows.flatten.length := by rw [List.length_flatten]
      omega
    · show (startOffsets (rows.map List.length)).length < 2 ^ 32
      unfold startOffsets
      rw [prefixSums_length]
      have := List.length_filter_le (fun x => decide (x ≠ 0)) (rows.map List.length)
      simp only [List.length_map] at this
      omega

theorem columnFile_roundtrip (sc vc : Nat) (card : Card) (rows : Column Nat) (hfit : card.fits rows)
    (hv : ∀ r ∈ rows, ∀ v ∈ r, v < 2 ^ 64) (hn : rows.length ≤ 65535 * 65536)
    (hvals : rows.flatten.length < 2 ^ 32) (bytes : Bytes)
    (hibl : ∀ ib, indexEnc sc (encodeAs card rows).1 = some ib → ib.length < 2 ^ 32)
    (henc : columnFileEnc sc vc (encodeAs card rows).1 (encodeAs card rows).2 = some bytes) :
    ∃ f, openColumnFile bytes = some f ∧ f.read = rows := by
  have hflat : (encodeAs card rows).2 = rows.flatten := by cases card <;> rfl
  have hv' : ∀ v ∈ (encodeAs card rows).2, v < 2 ^ 64 := by
    rw [hflat]; intro v hvm
    obtain ⟨r, hr, hvr⟩ := List.mem_flatten.mp hvm
    exact hv r hr v hvr
  obtain ⟨f, hf, hread⟩ := columnFile_read sc vc _ _ bytes (encodeAs_indexOk card rows hn hvals) hv'
    (by rw [hflat]; exact hvals) hibl henc
  exact ⟨f, hf, by rw [hread]; exact read_encodeAs card rows hfit⟩

end TantivyModel.Columnar
