import TantivyModel.Proofs.Columnar.BitPacker
/-!
Optional index: block decomposition of rank, rank/select on the abstract set, sparse blocks.
-/
namespace TantivyModel.Columnar
open TantivyModel

/-! ## abstract set: select ∘ rank = id, rank counts the members below -/

theorem lt_iff_divmod (E a b : Nat) (hE : 0 < E) :
    a < b ↔ a / E < b / E ∨ (a / E = b / E ∧ a % E < b % E) := by
  have ha := Nat.div_add_mod a E
  have hb := Nat.div_add_mod b E
  constructor
  · intro h
    have hle : a / E ≤ b / E := Nat.div_le_div_right (Nat.le_of_lt h)
    rcases Nat.lt_or_ge (a / E) (b / E) with h1 | h1
    · left; exact h1
    · right
      have he : a / E = b / E := Nat.le_antisymm hle h1
      refine ⟨he, ?_⟩
      rw [he] at ha
      omega
  · rintro (h | ⟨he, hm⟩)
    · have h1 : a < b / E * E := (Nat.div_lt_iff_lt_mul hE).mp h
      have h2 : b / E * E ≤ b := Nat.div_mul_le_self b E
      omega
    · rw [he] at ha
      omega

/-- rank through the 65 536-row blocks = number of members below, for every block size -/
theorem rankBlocks_eq (E : Nat) (hE : 0 < E) (rows : List Nat) (r : Nat) :
    rankBlocks E rows r = rankSpec rows r := by
  unfold rankBlocks rankSpec rowsBefore blockOf
  rw [List.countP_map, List.countP_filter]
  induction rows with
  | nil => simp
  | cons x xs ih =>
    simp only [List.countP_cons]
    have key := lt_iff_divmod E x r hE
    by_cases h1 : x / E < r / E
    · have hx : x < r := key.mpr (Or.inl h1)
      have hne : ¬ x / E = r / E := by omega
      simp [h1, hx, hne] at ih ⊢
      omega
    · by_cases h2 : x / E = r / E ∧ x % E < r % E
      · have hx : x < r := key.mpr (Or.inr h2)
        simp [h1, hx, h2.1, h2.2] at ih ⊢
        omega
      · have hx : ¬ x < r := fun h => by rcases key.mp h with h | h <;> contradiction
        have h3 : ¬ (x % E < r % E ∧ x / E = r / E) := fun h => h2 ⟨h.2, h.1⟩
        simp [h1, hx, h3] at ih ⊢
        omega

/-- in a strictly increasing list the `k`-th member has exactly `k` members below it -/
theorem rankSpec_getElem (rows : List Nat) (hs : rows.Pairwise (· < ·)) (k : Nat) (hk : k < rows.length) :
    rankSpec rows rows[k] = k := by
  unfold rankSpec
  induction rows generalizing k with
  | nil => simp at hk
  | cons x xs ih =>
    have hx : ∀ y ∈ xs, x < y := (List.pairwise_cons.mp hs).1
    have hxs := (List.pairwise_cons.mp hs).2
    cases k with
    | zero =>
      simp only [List.getElem_cons_zero, List.countP_cons, Nat.lt_irrefl, decide_false, Bool.false_eq_true, if_false, Nat.add_zero]
      apply List.countP_eq_zero.mpr
      intro y hy
      have := hx y hy
      simp; omega
    | succ k =>
      simp only [List.getElem_cons_succ, List.countP_cons]
      have hk' : k < xs.length := by simpa using hk
      rw [ih hxs k hk']
      have := hx _ (List.getElem_mem hk')
      simp [this]

/-- `select (rank r) = r` on members (select of the abstract set = k-th member) -/
theorem select_rank (rows : List Nat) (hs : rows.Pairwise (· < ·)) (r : Nat) (hr : r ∈ rows) :
    rows[rankSpec rows r]? = some r := by
  obtain ⟨k, hk, rfl⟩ := List.getElem_of_mem hr
  rw [rankSpec_getElem rows hs k hk]
  simp [hk]

/-- counting the members below a cut point of a strictly increasing list -/
theorem rankSpec_of_cut (rows : List Nat) (t p : Nat) (hp : p ≤ rows.length)
    (hlo : ∀ i (h : i < rows.length), i < p → rows[i] < t)
    (hhi : ∀ i (h : i < rows.length), p ≤ i → t ≤ rows[i]) :
    rankSpec rows t = p := by
  unfold rankSpec
  have e : rows = rows.take p ++ rows.drop p := (List.take_append_drop p rows).symm
  rw [e, List.countP_append]
  have h1 : (rows.take p).countP (· < t) = p := by
    have : (rows.take p).countP (· < t) = (rows.take p).length := by
      apply List.countP_eq_length.mpr
      intro x hx
      obtain ⟨i, hi, rfl⟩ := List.getElem_of_mem hx
      have hi' : i < p := by rw [List.length_take] at hi; omega
      rw [List.getElem_take]
      simpa using hlo i (by omega) hi'
    rw [this]; simp [hp]
  have h2 : (rows.drop p).countP (· < t) = 0 := by
    apply List.countP_eq_zero.mpr
    intro x hx
    obtain ⟨i, hi, rfl⟩ := List.getElem_of_mem hx
    rw [List.getElem_drop]
    have hi' : p + i < rows.length := by simp at hi; omega
    have := hhi (p + i) hi' (by omega)
    simp; omega
  rw [h1, h2]; rfl

/-! ## sparse block: binary search over sorted u16 -/

theorem search_spec (get : Nat → Nat) (n target : Nat)
    (hmono : ∀ i j, i < j → j < n → get i < get j) :
    ∀ fuel left right, left ≤ right → right ≤ n → right - left < fuel →
      (∀ i, i < left → get i < target) → (∀ i, right ≤ i → i < n → target < get i) →
      match sparseSearchAux get target fuel left right (right - left) with
      | .inl p => p < n ∧ get p = target
      | .inr p => p ≤ n ∧ (∀ i, i < p → get i < target) ∧ (∀ i, p ≤ i → i < n → target < get i) := by
  intro fuel
  induction fuel with
  | zero => intro left right _ _ h; omega
  | succ fuel ih =>
    intro left right hlr hrn hfuel hlo hhi
    unfold sparseSearchAux
    by_cases hlt : left < right
    · simp only [hlt, if_true]
      have hmid1 : left ≤ left + (right - left) / 2 := by omega
      have hmid2 : left + (right - left) / 2 < right := by omega
      generalize hm : left + (right - left) / 2 = mid at *
      by_cases h1 : target > get mid
      · simp only [h1, if_true]
        apply ih (mid + 1) right (by omega) hrn (by omega)
        · intro i hi
          rcases Nat.lt_or_ge i mid with h | h
          · exact Nat.lt_trans (hmono i mid h (by omega)) h1
          · have : i = mid := by omega
            subst this; exact h1
        · exact hhi
      · simp only [h1, if_false]
        by_cases h2 : target < get mid
        · simp only [h2, if_true]
          apply ih left mid (by omega) (by omega) (by omega) hlo
          intro i hi hin
          rcases Nat.lt_or_ge mid i with h | h
          · exact Nat.lt_trans h2 (hmono mid i h hin)
          · have : i = mid := by omega
            subst this; exact h2
        · simp only [h2, if_false]
          exact ⟨by omega, by omega⟩
    · simp only [hlt, if_false]
      have : left = right := by omega
      subst this
      exact ⟨hrn, hlo, hhi⟩

theorem sparseValueAt_enc (els : List Nat) (h : ∀ e ∈ els, e < 65536) (i : Nat) (hi : i < els.length) :
    sparseValueAt (sparseEnc els) i = els[i] := by
  unfold sparseValueAt sparseEnc
  induction els generalizing i with
  | nil => simp at hi
  | cons e es ih =>
    have he : e < 65536 := h e (by simp)
    cases i with
    | zero =>
      simp only [List.map_cons, List.flatten_cons, Nat.mul_zero, List.drop_zero, List.getElem_cons_zero]
      have : (leBytes 2 e ++ (es.map (leBytes 2)).flatten).take 2 = leBytes 2 e := by
        rw [List.take_append_of_le_length (by simp [leBytes_length])]
        rw [List.take_of_length_le (by simp [leBytes_length])]
      rw [this, leNat_leBytes]
      exact Nat.mod_eq_of_lt (by simpa using he)
    | succ i =>
      simp only [List.map_cons, List.flatten_cons, List.getElem_cons_succ]
      have : (leBytes 2 e ++ (es.map (leBytes 2)).flatten).drop (2 * (i + 1))
          = ((es.map (leBytes 2)).flatten).drop (2 * i) := by
        have e2 : 2 * (i + 1) = (leBytes 2 e).length + 2 * i := by rw [leBytes_length]; omega
        rw [e2, List.drop_append]
        simp
      rw [this]
      exact ih (fun x hx => h x (by simp [hx])) i (by simpa using hi)

theorem sparseNumVals_enc (els : List Nat) : sparseNumVals (sparseEnc els) = els.length := by
  unfold sparseNumVals sparseEnc
  have : ((els.map (leBytes 2)).flatten).length = 2 * els.length := by
    induction els with
    | nil => simp
    | cons e es ih => simp [leBytes_length, ih]; omega
  rw [this]; omega

/-- sparse block: `rank` counts the members below, `rank_if_exists` is `some` exactly on members,
`select k` is the k-th member -/
theorem sparse_spec (els : List Nat) (hs : els.Pairwise (· < ·)) (h : ∀ e ∈ els, e < 65536) (t : Nat) :
    sparseRank (sparseEnc els) t = rankSpec els t ∧
    sparseRankIfExists (sparseEnc els) t = (if t ∈ els then some (rankSpec els t) else none) ∧
    (∀ k (hk : k < els.length), sparseSelect (sparseEnc els) k = els[k]) := by
  have hget : ∀ i (hi : i < els.length), sparseValueAt (sparseEnc els) i = els[i] :=
    sparseValueAt_enc els h
  have hmono : ∀ i j, i < j → j < els.length →
      sparseValueAt (sparseEnc els) i < sparseValueAt (sparseEnc els) j := by
    intro i j hij hj
    rw [hget i (by omega), hget j hj]
    exact List.pairwise_iff_getElem.mp hs i j (by omega) hj hij
  have hsp := search_spec (sparseValueAt (sparseEnc els)) els.length t hmono (els.length + 1) 0 els.length
    (by omega) (by omega) (by omega) (by intro i hi; omega) (by intro i h1 h2; omega)
  have hsearch : sparseSearch (sparseEnc els) t
      = sparseSearchAux (sparseValueAt (sparseEnc els)) t (els.length + 1) 0 els.length (els.length - 0) := by
    unfold sparseSearch; simp only [sparseNumVals_enc, Nat.sub_zero]
  refine ⟨?_, ?_, fun k hk => by unfold sparseSelect; exact hget k hk⟩
  · unfold sparseRank
    rw [hsearch]
    split at hsp
    · next p hp =>
      rw [hp]
      obtain ⟨hpn, hpt⟩ := hsp
      symm
      apply rankSpec_of_cut els t p (by omega)
      · intro i hi hip
        rw [← hget i hi, ← hpt]; exact hmono i p hip hpn
      · intro i hi hpi
        rw [← hget i hi, ← hpt]
        rcases Nat.lt_or_ge p i with h1 | h1
        · exact Nat.le_of_lt (hmono p i h1 hi)
        · have : i = p := by omega
          subst this; exact Nat.le_refl _
    · next p hp =>
      rw [hp]
      obtain ⟨hpn, hlo, hhi⟩ := hsp
      symm
      apply rankSpec_of_cut els t p hpn
      · intro i hi hip; rw [← hget i hi]; exact hlo i hip
      · intro i hi hpi; rw [← hget i hi]; exact Nat.le_of_lt (hhi i hpi hi)
  · unfold sparseRankIfExists
    rw [hsearch]
    split at hsp
    · next p hp =>
      rw [hp]
      obtain ⟨hpn, hpt⟩ := hsp
      have hmem : t ∈ els := by rw [← hpt, hget p hpn]; exact List.getElem_mem hpn
      simp only [hmem, if_true]
      congr 1
      symm
      apply rankSpec_of_cut els t p (by omega)
      · intro i hi hip
        rw [← hget i hi, ← hpt]; exact hmono i p hip hpn
      · intro i hi hpi
        rw [← hget i hi, ← hpt]
        rcases Nat.lt_or_ge p i with h1 | h1
        · exact Nat.le_of_lt (hmono p i h1 hi)
        · have : i = p := by omega
          subst this; exact Nat.le_refl _
    · next p hp =>
      rw [hp]
      obtain ⟨hpn, hlo, hhi⟩ := hsp
      have hnot : t ∉ els := by
        intro hmem
        obtain ⟨i, hi, hit⟩ := List.getElem_of_mem hmem
        rcases Nat.lt_or_ge i p with h1 | h1
        · have := hlo i h1; rw [hget i hi, hit] at this; omega
        · have := hhi i h1 hi; rw [hget i hi, hit] at this; omega
      simp [hnot]

end TantivyModel.Columnar
