import TantivyModel.Proofs.Columnar.OptOpen
/-!
rank / rank_if_exists / select (non-cursor and cursor start) of the opened optional index.
-/
namespace TantivyModel.Columnar
open TantivyModel

theorem opened_meta (rows : List Nat) (numRows b : Nat) (hb : b < numBlocksOf numRows) :
    (openedOf rows numRows).metas[b]? = some (metaOf rows b) := by
  simp [openedOf, hb]

theorem opened_blockData (rows : List Nat) (numRows b : Nat) (hb : b < numBlocksOf numRows) :
    (openedOf rows numRows).blockData (metaOf rows b) = blockBytesOf rows b := by
  unfold OptIdx.blockData openedOf metaOf
  exact blockData_enc rows (numBlocksOf numRows) b hb

theorem blockOf_lt65536 (rows : List Nat) (b : Nat) : ∀ e ∈ blockOf EPB rows b, e < 65536 :=
  fun e he => blockOf_lt EPB (by decide) rows b e he

/-- in-block rank, both variants -/
theorem block_rank (rows : List Nat) (hs : rows.Pairwise (· < ·)) (b t : Nat) (ht : t < 65536) :
    blockRank (variantOfLen (blockOf EPB rows b).length) (blockBytesOf rows b) t = rankSpec (blockOf EPB rows b) t := by
  have hbs := blockOf_sorted EPB (by decide) rows hs b
  unfold variantOfLen blockBytesOf
  by_cases h : Gen.is_sparse (blockOf EPB rows b).length = true
  · simp only [h, if_true, blockRank]
    exact (sparse_spec _ hbs (blockOf_lt65536 rows b) t).1
  · have h' : Gen.is_sparse (blockOf EPB rows b).length = false := by simpa using h
    simp only [h', Bool.false_eq_true, if_false, blockRank]
    exact dense_rank _ hbs t ht

theorem block_rankIfExists (rows : List Nat) (hs : rows.Pairwise (· < ·)) (b t : Nat) (ht : t < 65536) :
    blockRankIfExists (variantOfLen (blockOf EPB rows b).length) (blockBytesOf rows b) t
      = if t ∈ blockOf EPB rows b then some (rankSpec (blockOf EPB rows b) t) else none := by
  have hbs := blockOf_sorted EPB (by decide) rows hs b
  unfold variantOfLen blockBytesOf
  by_cases h : Gen.is_sparse (blockOf EPB rows b).length = true
  · simp only [h, if_true, blockRankIfExists]
    exact (sparse_spec _ hbs (blockOf_lt65536 rows b) t).2.1
  · have h' : Gen.is_sparse (blockOf EPB rows b).length = false := by simpa using h
    simp only [h', Bool.false_eq_true, if_false, blockRankIfExists]
    exact dense_rankIfExists _ hbs t ht

theorem block_select (rows : List Nat) (hs : rows.Pairwise (· < ·)) (b k : Nat) (hk : k < (blockOf EPB rows b).length) :
    blockSelect (variantOfLen (blockOf EPB rows b).length) (blockBytesOf rows b) k = some (blockOf EPB rows b)[k] := by
  have hbs := blockOf_sorted EPB (by decide) rows hs b
  unfold variantOfLen blockBytesOf
  by_cases h : Gen.is_sparse (blockOf EPB rows b).length = true
  · simp only [h, if_true, blockSelect, hk]
    rw [(sparse_spec _ hbs (blockOf_lt65536 rows b) 0).2.2 k hk]
  · have h' : Gen.is_sparse (blockOf EPB rows b).length = false := by simpa using h
    simp only [h', Bool.false_eq_true, if_false, blockSelect]
    exact dense_select _ hbs (blockOf_lt65536 rows b) k hk

/-- `OptionalIndex::rank` on the opened bytes counts the members below, for every doc id -/
theorem opt_rank (rows : List Nat) (numRows : Nat) (ok : OptOk rows numRows) (doc : Nat) :
    (openedOf rows numRows).rank doc = some (rankSpec rows doc) := by
  unfold OptIdx.rank
  by_cases hd : doc ≥ (openedOf rows numRows).numDocs
  · simp only [hd, if_true]
    congr 1
    unfold rankSpec
    symm
    apply List.countP_eq_length.mpr
    intro r hr
    have := ok.below r hr
    have hd' : doc ≥ numRows := hd
    simp; omega
  · simp only [hd, if_false]
    have hd' : doc < numRows := by have : (openedOf rows numRows).numDocs = numRows := rfl; omega
    have hb := block_lt_numBlocks hd'
    rw [opened_meta rows numRows _ hb]
    simp only [Option.bind_eq_bind, Option.bind_some, opened_blockData rows numRows _ hb]
    have ht : doc % EPB < 65536 := by rw [epb_eq]; omega
    have := block_rank rows ok.sorted (doc / EPB) (doc % EPB) ht
    simp only [metaOf] at this ⊢
    rw [this]
    congr 1
    exact rankBlocks_eq EPB (by decide) rows doc

theorem mem_blockOf_iff (rows : List Nat) (doc : Nat) : doc % EPB ∈ blockOf EPB rows (doc / EPB) ↔ doc ∈ rows := by
  rw [blockOf_mem]
  constructor
  · rintro ⟨e, he, h1, h2⟩
    have : e = doc := by
      have := Nat.div_add_mod e EPB; have := Nat.div_add_mod doc EPB
      rw [h1, h2] at *; omega
    rw [← this]; exact he
  · intro h; exact ⟨doc, h, rfl, rfl⟩

/-- `rank_if_exists` on the opened bytes -/
theorem opt_rankIfExists (rows : List Nat) (numRows : Nat) (ok : OptOk rows numRows) (doc : Nat) (hd : doc < numRows) :
    (openedOf rows numRows).rankIfExists doc = if doc ∈ rows then some (rankSpec rows doc) else none := by
  unfold OptIdx.rankIfExists
  have hb := block_lt_numBlocks hd
  rw [opened_meta rows numRows _ hb]
  simp only [Option.bind_eq_bind, Option.bind_some, opened_blockData rows numRows _ hb]
  have ht : doc % EPB < 65536 := by rw [epb_eq]; omega
  have := block_rankIfExists rows ok.sorted (doc / EPB) (doc % EPB) ht
  simp only [metaOf] at this ⊢
  rw [this]
  by_cases hm : doc ∈ rows
  · have hm' := (mem_blockOf_iff rows doc).mpr hm
    simp only [hm, hm', if_true, Option.bind_some]
    congr 1
    exact rankBlocks_eq EPB (by decide) rows doc
  · have hm' : ¬ doc % EPB ∈ blockOf EPB rows (doc / EPB) := fun h => hm ((mem_blockOf_iff rows doc).mp h)
    simp [hm, hm']

theorem findBlockAux_spec (offsets : List Nat) (k bs : Nat) (hbs : bs < offsets.length)
    (hmono : ∀ a b, a ≤ b → b < offsets.length → offsets.getD a 0 ≤ offsets.getD b 0)
    (h1 : offsets.getD bs 0 ≤ k) (h2 : bs + 1 = offsets.length ∨ k < offsets.getD (bs + 1) 0) :
    ∀ fuel pos, pos ≤ bs + 1 → pos + fuel = offsets.length →
      (pos = bs + 1 → fuel = 0 ∨ k < offsets.getD pos 0) →
      findBlockAux offsets k fuel pos = bs := by
  intro fuel
  induction fuel with
  | zero => intro pos h3 h4 _; unfold findBlockAux; omega
  | succ fuel ih =>
    intro pos h3 h4 h5
    unfold findBlockAux
    rcases Nat.lt_or_ge pos (bs + 1) with hlt | hge
    · have : ¬ offsets.getD pos 0 > k := by
        have := hmono pos bs (by omega) hbs; omega
      simp only [this, if_false]
      apply ih (pos + 1) (by omega) (by omega)
      intro hp
      rcases h2 with h2 | h2
      · left; omega
      · right; rw [hp]; exact h2
    · have hp : pos = bs + 1 := by omega
      rcases h5 hp with h | h
      · omega
      · simp only [gt_iff_lt, h, if_true]; omega

/-- `find_block` from any cursor start `≤` the block of the k-th member finds that block -/
theorem opt_findBlock (rows : List Nat) (numRows : Nat) (ok : OptOk rows numRows) (k : Nat) (hk : k < rows.length)
    (start : Nat) (hstart : start ≤ rows[k] / EPB) :
    findBlock ((openedOf rows numRows).metas.map (·.before)) k start = rows[k] / EPB := by
  have hr : rows[k] < numRows := ok.below _ (List.getElem_mem hk)
  have hb := block_lt_numBlocks hr
  obtain ⟨h1, h2, _⟩ := select_decomp EPB (by decide) rows ok.sorted k hk
  have hoffs : (openedOf rows numRows).metas.map (·.before)
      = (List.range (numBlocksOf numRows)).map (rowsBefore EPB rows) := by
    simp [openedOf, metaOf, List.map_map, Function.comp_def]
  have hget : ∀ a, a < numBlocksOf numRows →
      ((List.range (numBlocksOf numRows)).map (rowsBefore EPB rows)).getD a 0 = rowsBefore EPB rows a := by
    intro a ha; simp [List.getD_eq_getElem?_getD, ha]
  rw [hoffs]
  unfold findBlock
  apply findBlockAux_spec _ k (rows[k] / EPB) (by simpa using hb)
  · intro a b hab hbl
    have hbl' : b < numBlocksOf numRows := by simpa using hbl
    rw [hget a (by omega), hget b hbl']
    exact rowsBefore_mono EPB rows a b hab
  · rw [hget _ hb]; exact h1
  · rcases Nat.lt_or_ge (rows[k] / EPB + 1) (numBlocksOf numRows) with h | h
    · right; rw [hget _ h]; exact h2
    · left; simp; omega
  · omega
  · simp; omega
  · intro h0; omega

/-- `OptionalIndex::select`, from the start (`select`) or from any cursor block `≤` the answer's
block (`OptionalIndexSelectCursor`), returns the k-th member -/
theorem opt_selectFrom (rows : List Nat) (numRows : Nat) (ok : OptOk rows numRows) (k : Nat) (hk : k < rows.length)
    (start : Nat) (hstart : start ≤ rows[k] / EPB) :
    (openedOf rows numRows).selectFrom start k = some rows[k] := by
  have hr : rows[k] < numRows := ok.below _ (List.getElem_mem hk)
  have hb := block_lt_numBlocks hr
  obtain ⟨h1, h2, h3⟩ := select_decomp EPB (by decide) rows ok.sorted k hk
  have hfind := opt_findBlock rows numRows ok k hk start hstart
  unfold OptIdx.selectFrom
  simp only [hfind, Option.bind_eq_bind]
  rw [opened_meta rows numRows _ hb]
  simp only [Option.bind_some, opened_blockData rows numRows _ hb]
  have hidx : k - rowsBefore EPB rows (rows[k] / EPB) < (blockOf EPB rows (rows[k] / EPB)).length := by
    rcases Nat.lt_or_ge (k - rowsBefore EPB rows (rows[k] / EPB)) (blockOf EPB rows (rows[k] / EPB)).length with h | h
    · exact h
    · rw [List.getElem?_eq_none h] at h3; cases h3
  have hval : (blockOf EPB rows (rows[k] / EPB))[k - rowsBefore EPB rows (rows[k] / EPB)] = rows[k] % EPB := by
    rw [List.getElem?_eq_getElem hidx] at h3; exact Option.some.inj h3
  have hsel := block_select rows ok.sorted (rows[k] / EPB) _ hidx
  simp only [metaOf] at hsel ⊢
  rw [hsel, hval]
  simp only [Option.bind_some]
  congr 1
  have := Nat.div_add_mod rows[k] EPB
  rw [Nat.mul_comm]; exact this

theorem opt_select (rows : List Nat) (numRows : Nat) (ok : OptOk rows numRows) (k : Nat) (hk : k < rows.length) :
    (openedOf rows numRows).select k = some rows[k] :=
  opt_selectFrom rows numRows ok k hk 0 (Nat.zero_le _)

end TantivyModel.Columnar
