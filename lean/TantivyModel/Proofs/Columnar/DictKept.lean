import TantivyModel.Proofs.Columnar.DictMergeMain
/-!
The merged dictionary holds exactly the terms some segment holds at a used ordinal: nothing else is
emitted, nothing used is dropped.
-/
namespace TantivyModel.Columnar
open TantivyModel

def FromUsed (used : Nat → Nat → Bool) (ds : List (List Nat)) (st : DictMerge) : Prop :=
  ∀ x ∈ st.merged, ∃ s o, s < ds.length ∧ (ds.getD s [])[o]? = some x ∧ used s o = true

theorem fromUsed_step (used : Nat → Nat → Bool) (ds : List (List Nat)) (st st' : DictMerge)
    (inv : DMInv used ds st) (hf : FromUsed used ds st) (hst : dictStep used st = some st') :
    FromUsed used ds st' := by
  unfold dictStep at hst
  cases hm : minHead st.rem with
  | none => rw [hm] at hst; cases hst
  | some m =>
    rw [hm] at hst
    simp only [Option.some.injEq] at hst
    by_cases hkeep : ((List.range st.rem.length).filter (onKey st.rem m)).any (fun s => used s (st.ords.getD s 0)) = true
    · simp only [hkeep, if_true] at hst
      subst hst
      intro x hx
      simp only at hx
      rcases List.mem_append.mp hx with hx' | hx'
      · exact hf x hx'
      · simp at hx'; subst hx'
        obtain ⟨s, hsm, hu⟩ := List.any_eq_true.mp hkeep
        have hsf := List.mem_filter.mp hsm
        have hs : s < ds.length := by
          have h1 := List.mem_range.mp hsf.1
          have h2 := inv.len_rem
          omega
        have hk : (st.rem.getD s []).head? = some x := by
          have := hsf.2; unfold onKey at this; simpa using this
        rw [inv.rem_eq s hs, List.head?_drop] at hk
        exact ⟨s, st.ords.getD s 0, hs, hk, hu⟩
    · have hkeep' : ((List.range st.rem.length).filter (onKey st.rem m)).any (fun s => used s (st.ords.getD s 0)) = false := by
        simpa using hkeep
      simp only [hkeep', Bool.false_eq_true, if_false] at hst
      subst hst
      exact hf

theorem fromUsed_run (used : Nat → Nat → Bool) (ds : List (List Nat)) (hds : ∀ d ∈ ds, d.Pairwise (· < ·)) :
    ∀ fuel st, DMInv used ds st → FromUsed used ds st → FromUsed used ds (dictRun used fuel st) := by
  intro fuel
  induction fuel with
  | zero => intro st _ hf; unfold dictRun; exact hf
  | succ fuel ih =>
    intro st inv hf
    unfold dictRun
    cases hs : dictStep used st with
    | none => exact hf
    | some st' =>
      exact ih st' (dm_step used ds hds st st' inv hs).1 (fromUsed_step used ds st st' inv hf hs)

/-- the merged dictionary = exactly the terms held at a used ordinal of some segment -/
theorem mergeDicts_mem (used : Nat → Nat → Bool) (ds : List (List Nat)) (hds : ∀ d ∈ ds, d.Pairwise (· < ·))
    (x : Nat) :
    x ∈ (mergeDicts used ds).merged ↔
      ∃ s o, s < ds.length ∧ (ds.getD s [])[o]? = some x ∧ used s o = true := by
  constructor
  · intro hx
    have h := fromUsed_run used ds hds ((ds.map List.length).sum + 1)
      { rem := ds, ords := List.replicate ds.length 0, cur := 0, merged := [], map := [] }
      (dm_init used ds) (by intro y hy; simp at hy)
    exact h x hx
  · rintro ⟨s, o, hs, hget, hu⟩
    have ho : o < (ds.getD s []).length := (List.getElem?_eq_some_iff.mp hget).1
    obtain ⟨n, _, hm⟩ := remapOrd_spec used ds hds s o hs ho hu
    rw [hget] at hm
    exact List.mem_of_getElem? hm

end TantivyModel.Columnar
