import TantivyModel.Proofs.Columnar.OptBytes
/-!
`open_optional_index ∘ serialize_optional_index`, and rank / rank_if_exists / select on the bytes.
-/
namespace TantivyModel.Columnar
open TantivyModel

/-! ## open ∘ serialize -/

/-- hypotheses on a serialized set: strictly increasing rows below `numRows`; `numRows` small enough
that the number of blocks fits the trailing u16 -/
structure OptOk (rows : List Nat) (numRows : Nat) : Prop where
  sorted : rows.Pairwise (· < ·)
  below : ∀ r ∈ rows, r < numRows
  small : numRows ≤ 65535 * 65536

theorem numBlocks_le {numRows : Nat} (h : numRows ≤ 65535 * 65536) : numBlocksOf numRows ≤ 65535 := by
  unfold numBlocksOf; rw [epb_eq]; omega

theorem block_lt_numBlocks {r numRows : Nat} (h : r < numRows) : r / EPB < numBlocksOf numRows := by
  unfold numBlocksOf; rw [epb_eq]; omega

theorem blockOf_length_le (rows : List Nat) (hs : rows.Pairwise (· < ·)) (b : Nat) :
    (blockOf EPB rows b).length ≤ 65536 :=
  sorted_length_le _ (blockOf_sorted EPB (by decide) rows hs b) 65536
    (fun x hx => blockOf_lt EPB (by decide) rows b x hx)

theorem rowsBefore_all (rows : List Nat) (numRows : Nat) (h : ∀ r ∈ rows, r < numRows) :
    rowsBefore EPB rows (numBlocksOf numRows) = rows.length := by
  unfold rowsBefore
  apply List.countP_eq_length.mpr
  intro r hr
  simpa using block_lt_numBlocks (h r hr)

/-- what `open_optional_index` makes of the bytes `serialize_optional_index` wrote -/
def openedOf (rows : List Nat) (numRows : Nat) : OptIdx :=
  { numDocs := numRows, numNonNull := rows.length,
    data := ((List.range (numBlocksOf numRows)).map (blockBytesOf rows)).flatten,
    metas := (List.range (numBlocksOf numRows)).map (metaOf rows) }

theorem optOpen_enc (rows : List Nat) (numRows : Nat) (ok : OptOk rows numRows) :
    optOpen (optEnc rows numRows) = some (openedOf rows numRows) := by
  have hN := numBlocks_le ok.small
  have hnr64 : numRows < 2 ^ 64 := by have := ok.small; omega
  have hnr32 : numRows % 2 ^ 32 = numRows := Nat.mod_eq_of_lt (by have := ok.small; omega)
  -- the entries are well formed
  have hes : ∀ e ∈ optEntries rows numRows, e.1 < 65536 ∧ 1 ≤ e.2 ∧ e.2 ≤ 65536 := by
    intro e he
    unfold optEntries at he
    obtain ⟨b, hb, rfl⟩ := List.mem_map.mp he
    have hb' := List.mem_filter.mp hb
    have h1 : b < numBlocksOf numRows := List.mem_range.mp hb'.1
    have h2 : (blockOf EPB rows b).length ≠ 0 := by
      intro h0; have := hb'.2; simp [List.length_eq_zero_iff.mp h0] at this
    exact ⟨by omega, by omega, blockOf_length_le rows ok.sorted b⟩
  have hesl : (optEntries rows numRows).length ≤ 65535 := by
    unfold optEntries
    rw [List.length_map]
    exact Nat.le_trans (List.length_filter_le _ _) (by simpa using hN)
  generalize hD : ((List.range (numBlocksOf numRows)).map (blockBytesOf rows)).flatten = D
  generalize hM : ((optEntries rows numRows).map metaEntryBytes).flatten = M
  have hMlen : M.length = (optEntries rows numRows).length * 4 := by rw [← hM]; exact metaBytes_length _
  have hC : (leBytes 2 (optEntries rows numRows).length).length = 2 := leBytes_length _ _
  unfold optOpen optEnc
  rw [hD, hM]
  have hbytes : vintEnc numRows ++ D ++ M ++ leBytes 2 (optEntries rows numRows).length
      = (vintEnc numRows ++ (D ++ M)) ++ leBytes 2 (optEntries rows numRows).length := by
    simp [List.append_assoc]
  rw [hbytes]
  have hlen2 : ¬ ((vintEnc numRows ++ (D ++ M)) ++ leBytes 2 (optEntries rows numRows).length).length < 2 := by
    rw [List.length_append, hC]; omega
  have hsub : ((vintEnc numRows ++ (D ++ M)) ++ leBytes 2 (optEntries rows numRows).length).length - 2
      = (vintEnc numRows ++ (D ++ M)).length := by rw [List.length_append, hC]; omega
  simp only [hlen2, if_false, hsub, List.drop_left, List.take_left, Option.bind_eq_bind]
  rw [vint_roundtrip numRows hnr64, leNat_leBytes]
  have hnb : (optEntries rows numRows).length % 256 ^ 2 = (optEntries rows numRows).length :=
    Nat.mod_eq_of_lt (by
      have : (256 : Nat) ^ 2 = 65536 := by decide
      omega)
  have h4 : Gen.SERIALIZED_BLOCK_META_NUM_BYTES = 4 := rfl
  simp only [Option.bind_some, hnb, h4]
  have hnot : ¬ (optEntries rows numRows).length * 4 > (D ++ M).length := by
    rw [List.length_append, hMlen]; omega
  have hsub2 : (D ++ M).length - (optEntries rows numRows).length * 4 = D.length := by
    rw [List.length_append, hMlen]; omega
  simp only [hnot, if_false, hsub2, List.drop_left, List.take_left, hnr32]
  rw [← hM, parseMetas_enc _ hes]
  have e1 : ((optEntries rows numRows).map (·.2)).sum = rows.length := by
    rw [optEntries_eq]
    have := entries_sum rows (numBlocksOf numRows) 0
    simp only [Nat.zero_add] at this
    have h0 : rowsBefore EPB rows 0 = 0 := by unfold rowsBefore; simp
    rw [h0, rowsBefore_all rows numRows ok.below] at this
    simpa using this
  have e3 : buildMetas (numBlocksOf numRows) 0 0 0 (optEntries rows numRows)
      = (List.range (numBlocksOf numRows)).map (metaOf rows) := by
    rw [optEntries_eq]
    have := buildMetas_spec rows (numBlocksOf numRows) 0
    have h0 : rowsBefore EPB rows 0 = 0 := by unfold rowsBefore; simp
    rw [h0] at this
    rw [List.range_eq_range']
    exact this
  rw [e1, e3, ← hD]
  rfl

end TantivyModel.Columnar
