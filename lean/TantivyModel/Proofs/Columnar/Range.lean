import TantivyModel.Proofs.Columnar.Linear
/-!
Range transformation of the bitpacked reader; one block of the blockwise-linear codec.
-/
namespace TantivyModel.Columnar
open TantivyModel

theorem transformRange_exact (s : Stats) (hg : s.gcd ≠ 0) (lo hi v : Nat)
    (hv : s.min ≤ v) (hd : s.gcd ∣ v - s.min) (hHi : s.min ≤ hi) :
    (lo ≤ v ∧ v ≤ hi) ↔
      ((transformRange s lo hi).1 ≤ (v - s.min) / s.gcd ∧ (v - s.min) / s.gcd ≤ (transformRange s lo hi).2) := by
  have hgpos : 0 < s.gcd := Nat.pos_of_ne_zero hg
  unfold transformRange
  simp only
  generalize hk : (v - s.min) / s.gcd = k
  have hx : k * s.gcd = v - s.min := by rw [← hk]; exact Nat.div_mul_cancel hd
  generalize ha : lo - s.min = a
  have h1 : lo ≤ v ↔ a ≤ k * s.gcd := by omega
  have h2 : v ≤ hi ↔ k * s.gcd ≤ hi - s.min := by omega
  rw [h1, h2, Nat.le_div_iff_mul_le hgpos]
  apply and_congr_left'
  by_cases hm : a % s.gcd > 0
  · simp only [hm, if_true]
    have hne : a ≠ k * s.gcd := by
      intro h; rw [h, Nat.mul_mod_left] at hm; omega
    have : a / s.gcd + 1 ≤ k ↔ a < k * s.gcd := by
      rw [Nat.succ_le_iff, Nat.div_lt_iff_lt_mul hgpos]
    rw [this]; omega
  · simp only [hm, if_false]
    have hdv : s.gcd ∣ a := Nat.dvd_of_mod_eq_zero (by omega)
    have : a = a / s.gcd * s.gcd := (Nat.div_mul_cancel hdv).symm
    conv => lhs; rw [this]
    exact Nat.mul_le_mul_right_iff hgpos

/-- with the guard, the rows reported for any query range are exactly the rows whose value lies
in the range -/
theorem rangeRows_guarded_exact (s : Stats) (hg : s.gcd ≠ 0) (vals : List Nat)
    (hv : ∀ v ∈ vals, s.min ≤ v ∧ s.gcd ∣ v - s.min) (lo hi : Nat) :
    rangeRowsWith true s (vals.map (fun v => (v - s.min) / s.gcd)) lo hi
      = (List.range vals.length).filter (fun i => decide (lo ≤ vals.getD i 0) && decide (vals.getD i 0 ≤ hi)) := by
  unfold rangeRowsWith transformRangeWith
  by_cases h1 : lo > hi
  · simp only [h1, if_true]
    symm
    apply List.filter_eq_nil_iff.mpr
    intro i _
    simp only [Bool.and_eq_true, decide_eq_true_eq]
    omega
  · simp only [h1, if_false, Bool.true_and]
    by_cases h2 : hi < s.min
    · simp only [h2, decide_true, if_true]
      symm
      apply List.filter_eq_nil_iff.mpr
      intro i hi'
      have hlt : i < vals.length := List.mem_range.mp hi'
      have := (hv vals[i] (List.getElem_mem hlt)).1
      simp only [Bool.and_eq_true, decide_eq_true_eq, List.getD_eq_getElem?_getD, List.getElem?_eq_getElem hlt, Option.getD_some]
      omega
    · simp only [h2, decide_false, Bool.false_eq_true, if_false, List.length_map]
      apply List.filter_congr
      intro i hi'
      have hlt : i < vals.length := List.mem_range.mp hi'
      have hvi := hv vals[i] (List.getElem_mem hlt)
      have key := transformRange_exact s hg lo hi vals[i] hvi.1 hvi.2 (by omega)
      simp only [List.getD_eq_getElem?_getD, List.getElem?_map, List.getElem?_eq_getElem hlt, Option.map_some,
        Option.getD_some]
      by_cases hc : lo ≤ vals[i] ∧ vals[i] ≤ hi
      · have := key.mp hc
        simp [hc.1, hc.2, this.1, this.2]
      · have hn : ¬ ((transformRange s lo hi).1 ≤ (vals[i] - s.min) / s.gcd ∧ (vals[i] - s.min) / s.gcd ≤ (transformRange s lo hi).2) :=
          fun h => hc (key.mpr h)
        have e1 : (decide (lo ≤ vals[i]) && decide (vals[i] ≤ hi)) = false := by
          simp only [Bool.and_eq_false_iff, decide_eq_false_iff_not]; omega
        have e2 : (decide ((transformRange s lo hi).1 ≤ (vals[i] - s.min) / s.gcd) && decide ((vals[i] - s.min) / s.gcd ≤ (transformRange s lo hi).2)) = false := by
          simp only [Bool.and_eq_false_iff, decide_eq_false_iff_not]
          by_cases h : (transformRange s lo hi).1 ≤ (vals[i] - s.min) / s.gcd
          · right; exact fun h' => hn ⟨h, h'⟩
          · left; exact h
        rw [e1, e2]

theorem rangeRowsWith_guard_irrelevant (g : Bool) (s : Stats) (norm : List Nat) (lo hi : Nat)
    (h : s.min ≤ hi ∨ lo > hi) : rangeRowsWith g s norm lo hi = rangeRowsWith true s norm lo hi := by
  unfold rangeRowsWith transformRangeWith
  by_cases h1 : lo > hi
  · simp [h1]
  · have h2 : ¬ hi < s.min := by omega
    simp [h1, h2]

/-! ## blockwise-linear: one block -/

theorem foldl_max_widthOk (l : List Nat) (a : Nat) (ha : unpackerWidthOk a = true)
    (hl : ∀ x ∈ l, unpackerWidthOk x = true) : unpackerWidthOk (l.foldl Nat.max a) = true := by
  induction l generalizing a with
  | nil => simpa using ha
  | cons x xs ih =>
    simp only [List.foldl_cons]
    apply ih
    · have hx := hl x (by simp)
      rw [widthOk_iff] at *
      rcases Nat.le_total a x with h | h
      · rw [show Nat.max a x = x from Nat.max_eq_right h]; exact hx
      · rw [show Nat.max a x = a from Nat.max_eq_left h]; exact ha
    · intro y hy; exact hl y (by simp [hy])

theorem blockwise_block_exact (s : Stats) (_hg : s.gcd ≠ 0) (block : List Nat) (rest : Bytes)
    (hrest : ∀ b ∈ rest, b < 256)
    (hv : ∀ v ∈ block, s.min ≤ v ∧ v < 2 ^ 64 ∧ s.gcd ∣ v - s.min)
    (hfull : 8 ∣ (bwBlockEnc s block).1.width * block.length ∨ rest = [])
    (i : Nat) (hi : i < block.length) :
    s.min + (BitVec.ofNat 64 s.gcd * ((bwBlockEnc s block).1.line.eval i + BitVec.ofNat 64
        (unpackGet (bwBlockEnc s block).1.width i
          (pack (bwBlockEnc s block).1.width (bwBlockEnc s block).2 ++ rest)))).toNat = block[i] := by
  unfold bwBlockEnc at *
  simp only at *
  generalize hnorm : block.map (fun v => (v - s.min) / s.gcd) = norm at *
  generalize hline : Line.train norm = line at *
  generalize hoffs : linearOffsets line norm = offs at *
  generalize hw : (offs.map computeNumBits).foldl Nat.max 0 = w at *
  have hnl : norm.length = block.length := by rw [← hnorm]; simp
  have hol : offs.length = block.length := by rw [← hoffs, linearOffsets_length, hnl]
  have hwok : unpackerWidthOk w = true := by
    rw [← hw]
    apply foldl_max_widthOk
    · decide
    · intro x hx
      obtain ⟨o, _, rfl⟩ := List.mem_map.mp hx
      exact computeNumBits_ok o
  have hoget : ∀ j (hj : j < block.length),
      offs[j]'(by omega) = (BitVec.ofNat 64 (norm[j]'(by omega)) - line.eval j).toNat := by
    intro j hj; subst hoffs; exact linearOffsets_get line norm j (by omega)
  have hbound : ∀ x ∈ offs, x < 2 ^ w := by
    intro x hx
    obtain ⟨j, hj, rfl⟩ := List.getElem_of_mem hx
    have h64 : offs[j] < 2 ^ 64 := by rw [hoget j (by omega)]; exact BitVec.isLt _
    have h1 := lt_two_pow_computeNumBits _ h64
    have h2 : computeNumBits offs[j] ≤ w := by
      rw [← hw]
      exact (foldl_max_ge (offs.map computeNumBits) 0).2 _ (List.mem_map.mpr ⟨_, List.getElem_mem hj, rfl⟩)
    exact Nat.lt_of_lt_of_le h1 (Nat.pow_le_pow_right (by decide) h2)
  have hget : unpackGet w i (pack w offs ++ rest) = offs[i]'(by omega) := by
    rcases hfull with hfull | hnil
    · have hfull' : 8 ∣ w * offs.length := by rw [hol]; exact hfull
      exact unpackGet_append w hwok offs hbound rest hrest hfull' i (by omega)
    · subst hnil
      rw [List.append_nil]
      exact unpack_pack w hwok offs hbound i (by omega)
  rw [hget, hoget i hi]
  rw [BitVec.ofNat_toNat, BitVec.setWidth_eq]
  have e : line.eval i + (BitVec.ofNat 64 (norm[i]'(by omega)) - line.eval i) = BitVec.ofNat 64 (norm[i]'(by omega)) := by
    bv_omega
  rw [e, ← BitVec.ofNat_mul, BitVec.toNat_ofNat]
  have hvi := hv block[i] (List.getElem_mem hi)
  have hn : norm[i]'(by omega) = (block[i] - s.min) / s.gcd := by subst hnorm; simp
  rw [hn, Nat.mul_div_cancel' hvi.2.2, Nat.mod_eq_of_lt (by omega)]
  omega

end TantivyModel.Columnar
