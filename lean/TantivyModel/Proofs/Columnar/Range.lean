import TantivyModel.Proofs.Columnar.Linear
/-!
Range transformation of the bitpacked reader; one block of the blockwise-linear codec.
-/
namespace TantivyModel.Columnar
open TantivyModel

theorem transformRange_exact (s : Stats) (hg : s.gcd ≠ 0) (lo hi v : Nat)
    (hv : s.min ≤ v) (hd : s.gcd ∣ v - s.min) (hHi : s.min ≤ hi) :
    (lo ≤ v ∧ v ≤ hi) ↔
      ((transformRange s lo hi).1 ≤ (v - s.min) / s.gcd ∧ (v - s.min) / s.gcd ≤ (transformRange s lo hi).2) := by
  have hgpos : 0 < s.gcd := Nat.pos_of_ne_zero hg
  unfold transformRange
  simp only
  generalize hk : (v - s.min) / s.gcd = k
  have hx : k * s.gcd = v - s.min := by rw [← hk]; exact Nat.div_mul_cancel hd
  generalize ha : lo - s.min = a
  have h1 : lo ≤ v ↔ a ≤ k * s.gcd := by omega
  have h2 : v ≤ hi ↔ k * s.gcd ≤ hi - s.min := by omega
  rw [h1, h2, Nat.le_div_iff_mul_le hgpos]
  apply and_congr_left'
  by_cases hm : a % s.gcd > 0
  · simp only [hm, if_true]
    have hne : a ≠ k * s.gcd := by
      intro h; rw [h, Nat.mul_mod_left] at hm; omega
    have : a / s.gcd + 1 ≤ k ↔ a < k * s.gcd := by
      rw [Nat.succ_le_iff, Nat.div_lt_iff_lt_mul hgpos]
    rw [this]; omega
  · simp only [hm, if_false]
    have hdv : s.gcd ∣ a := Nat.dvd_of_mod_eq_zero (by omega)
    have : a = a / s.gcd * s.gcd := (Nat.div_mul_cancel hdv).symm
    conv => lhs; rw [this]
    exact Nat.mul_le_mul_right_iff hgpos

/-! ## blockwise-linear: one block -/

theorem foldl_max_widthOk (l : List Nat) (a : Nat) (ha : unpackerWidthOk a = true)
    (hl : ∀ x ∈ l, unpackerWidthOk x = true) : unpackerWidthOk (l.foldl Nat.max a) = true := by
  induction l generalizing a with
  | nil => simpa using ha
  | cons x xs ih =>
    simp only [List.foldl_cons]
    apply ih
    · have hx := hl x (by simp)
      rw [widthOk_iff] at *
      rcases Nat.le_total a x with h | h
      · rw [show Nat.max a x = x from Nat.max_eq_right h]; exact hx
      · rw [show Nat.max a x = a from Nat.max_eq_left h]; exact ha
    · intro y hy; exact hl y (by simp [hy])

theorem blockwise_block_exact (s : Stats) (_hg : s.gcd ≠ 0) (block : List Nat) (rest : Bytes)
    (hrest : ∀ b ∈ rest, b < 256)
    (hv : ∀ v ∈ block, s.min ≤ v ∧ v < 2 ^ 64 ∧ s.gcd ∣ v - s.min)
    (hfull : 8 ∣ (bwBlockEnc s block).1.width * block.length)
    (i : Nat) (hi : i < block.length) :
    s.min + (BitVec.ofNat 64 s.gcd * ((bwBlockEnc s block).1.line.eval i + BitVec.ofNat 64
        (unpackGet (bwBlockEnc s block).1.width i
          (pack (bwBlockEnc s block).1.width (bwBlockEnc s block).2 ++ rest)))).toNat = block[i] := by
  unfold bwBlockEnc at *
  simp only at *
  generalize hnorm : block.map (fun v => (v - s.min) / s.gcd) = norm at *
  generalize hline : Line.train norm = line at *
  generalize hoffs : linearOffsets line norm = offs at *
  generalize hw : (offs.map computeNumBits).foldl Nat.max 0 = w at *
  have hnl : norm.length = block.length := by rw [← hnorm]; simp
  have hol : offs.length = block.length := by rw [← hoffs, linearOffsets_length, hnl]
  have hwok : unpackerWidthOk w = true := by
    rw [← hw]
    apply foldl_max_widthOk
    · decide
    · intro x hx
      obtain ⟨o, _, rfl⟩ := List.mem_map.mp hx
      exact computeNumBits_ok o
  have hoget : ∀ j (hj : j < block.length),
      offs[j]'(by omega) = (BitVec.ofNat 64 (norm[j]'(by omega)) - line.eval j).toNat := by
    intro j hj; subst hoffs; exact linearOffsets_get line norm j (by omega)
  have hbound : ∀ x ∈ offs, x < 2 ^ w := by
    intro x hx
    obtain ⟨j, hj, rfl⟩ := List.getElem_of_mem hx
    have h64 : offs[j] < 2 ^ 64 := by rw [hoget j (by omega)]; exact BitVec.isLt _
    have h1 := lt_two_pow_computeNumBits _ h64
    have h2 : computeNumBits offs[j] ≤ w := by
      rw [← hw]
      exact (foldl_max_ge (offs.map computeNumBits) 0).2 _ (List.mem_map.mpr ⟨_, List.getElem_mem hj, rfl⟩)
    exact Nat.lt_of_lt_of_le h1 (Nat.pow_le_pow_right (by decide) h2)
  have hfull' : 8 ∣ w * offs.length := by rw [hol]; exact hfull
  rw [unpackGet_append w hwok offs hbound rest hrest hfull' i (by omega), hoget i hi]
  rw [BitVec.ofNat_toNat, BitVec.setWidth_eq]
  have e : line.eval i + (BitVec.ofNat 64 (norm[i]'(by omega)) - line.eval i) = BitVec.ofNat 64 (norm[i]'(by omega)) := by
    bv_omega
  rw [e, ← BitVec.ofNat_mul, BitVec.toNat_ofNat]
  have hvi := hv block[i] (List.getElem_mem hi)
  have hn : norm[i]'(by omega) = (block[i] - s.min) / s.gcd := by subst hnorm; simp
  rw [hn, Nat.mul_div_cancel' hvi.2.2, Nat.mod_eq_of_lt (by omega)]
  omega

end TantivyModel.Columnar
