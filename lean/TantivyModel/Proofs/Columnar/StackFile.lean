import TantivyModel.Proofs.Columnar.ColumnFile
import TantivyModel.Proofs.Columnar.StackMissing
/-!
Stacked merge → column file → rows.
-/
namespace TantivyModel.Columnar
open TantivyModel

variable {V : Type}

/-- the canonical description of every input of a stacked merge -/
theorem stacked_canon_cols (ins : List (MergeInput V)) (h : ∀ m ∈ ins, CanonOrMissing m) :
    ∃ cols : List (Card × Column V), (∀ c ∈ cols, c.1.fits c.2) ∧ ins.map normInput = cols.map canonInput
      ∧ cols.map (·.2) = ins.map MergeInput.read := by
  induction ins with
  | nil => exact ⟨[], by simp, rfl, rfl⟩
  | cons m ms ih =>
    obtain ⟨cols, hf, hn, hr⟩ := ih (fun x hx => h x (by simp [hx]))
    rcases h m (by simp) with hm | ⟨c, hc, rfl⟩
    · refine ⟨(missingCard m.numDocs, List.replicate m.numDocs []) :: cols, ?_, ?_, ?_⟩
      · intro c hc
        rcases List.mem_cons.mp hc with rfl | hc
        · exact missing_fits _
        · exact hf c hc
      · simp only [List.map_cons, hn]
        congr 1
        unfold normInput; simp [hm]
      · simp only [List.map_cons, hr]
        congr 1
        simp [MergeInput.read, hm]
    · refine ⟨c :: cols, ?_, ?_, ?_⟩
      · intro x hx
        rcases List.mem_cons.mp hx with rfl | hx
        · exact hc
        · exact hf x hx
      · simp only [List.map_cons, hn]
        congr 1
      · simp only [List.map_cons, hr]
        congr 1
        simp only [MergeInput.read, canonInput]
        exact (read_encodeAs c.1 c.2 hc).symm

/-- a stacked merge writes the canonical form of the concatenated rows -/
theorem mergeStacked_eq_encodeAs (ins : List (MergeInput V)) (h : ∀ m ∈ ins, CanonOrMissing m) :
    ∃ card, mergeStacked ins = encodeAs card (stackSpec (ins.map MergeInput.read)) := by
  obtain ⟨cols, hf, hn, hr⟩ := stacked_canon_cols ins h
  refine ⟨(cols.map (·.1)).foldl Card.max .full, ?_⟩
  rw [← mergeStacked_norm ins, hn, mergeStacked_canon cols hf, hr]
  rfl

theorem stack_file_roundtrip (sc vc : Nat) (ins : List (MergeInput Nat)) (h : ∀ m ∈ ins, CanonOrMissing m)
    (hv : ∀ v ∈ (mergeStacked ins).2, v < 2 ^ 64)
    (hn : (stackSpec (ins.map MergeInput.read)).length ≤ 65535 * 65536)
    (hvals : (stackSpec (ins.map MergeInput.read)).flatten.length < 2 ^ 32) (bytes : Bytes)
    (hibl : ∀ ib, indexEnc sc (mergeStacked ins).1 = some ib → ib.length < 2 ^ 32)
    (henc : columnFileEnc sc vc (mergeStacked ins).1 (mergeStacked ins).2 = some bytes) :
    ∃ f, openColumnFile bytes = some f ∧ f.read = stackSpec (ins.map MergeInput.read) := by
  obtain ⟨card, heq⟩ := mergeStacked_eq_encodeAs ins h
  have hok : IndexOk (mergeStacked ins).1 := by
    rw [heq]; exact encodeAs_indexOk card _ hn hvals
  have hflat : (encodeAs card (stackSpec (ins.map MergeInput.read))).2
      = (stackSpec (ins.map MergeInput.read)).flatten := by cases card <;> rfl
  have hlen : (mergeStacked ins).2.length < 2 ^ 32 := by
    rw [heq, hflat]; exact hvals
  obtain ⟨f, hf, hread⟩ := columnFile_read sc vc _ _ bytes hok hv hlen hibl henc
  exact ⟨f, hf, by rw [hread]; exact read_mergeStacked_any ins h⟩

end TantivyModel.Columnar
