import TantivyModel.Proofs.Columnar.CompactSpace
/-!
Whatever blanks the cost heuristic of `get_compact_space` selects among the gaps of the sorted,
deduplicated values (plus the space below the minimum and above the maximum), every value stays
covered, and the selected blanks (sorted by start in `finish`) are a valid blank list.
-/
namespace TantivyModel.Columnar
open TantivyModel

/-- mirrors: build_compact_space.rs::get_blanks — `first+1 ..= second−1` between consecutive values
(an empty range is not a blank) -/
def gapsBetween : List Nat → List (Nat × Nat)
  | [] => []
  | [_] => []
  | a :: b :: rest => (if a + 1 ≤ b - 1 then [(a + 1, b - 1)] else []) ++ gapsBetween (b :: rest)

/-- the last element of `a :: l` -/
def lastOf : Nat → List Nat → Nat
  | a, [] => a
  | _, b :: l => lastOf b l

theorem lastOf_mem (a : Nat) (l : List Nat) : lastOf a l ∈ a :: l := by
  induction l generalizing a with
  | nil => simp [lastOf]
  | cons b l ih => simp only [lastOf]; exact List.mem_cons_of_mem _ (ih b)

theorem lastOf_getLast? (a : Nat) (l : List Nat) : (a :: l).getLast? = some (lastOf a l) := by
  induction l generalizing a with
  | nil => simp [lastOf]
  | cons b l ih => rw [List.getLast?_cons_cons, ih b]; rfl

theorem lastOf_ge (a : Nat) (l : List Nat) (hs : (a :: l).Pairwise (· < ·)) : ∀ v ∈ a :: l, v ≤ lastOf a l := by
  induction l generalizing a with
  | nil => intro v hv; simp at hv; subst hv; simp [lastOf]
  | cons b l ih =>
    intro v hv
    have hs' := (List.pairwise_cons.mp hs).2
    have hab : a < b := (List.pairwise_cons.mp hs).1 b (by simp)
    simp only [lastOf]
    rcases List.mem_cons.mp hv with rfl | hv'
    · have := ih b hs' b (by simp); omega
    · exact ih b hs' v hv'

/-- all candidate blanks in increasing order: below the minimum, between values, above the maximum -/
def allGaps (vals : List Nat) : List (Nat × Nat) :=
  match vals with
  | [] => []
  | mn :: rest =>
    (if mn ≠ 0 then [(0, mn - 1)] else []) ++ gapsBetween (mn :: rest)
      ++ (if lastOf mn rest ≠ U128MAX then [(lastOf mn rest + 1, U128MAX)] else [])

/-- facts about the gaps between the values of a strictly increasing list starting at `a` -/
theorem gapsBetween_spec (l : List Nat) (hs : l.Pairwise (· < ·)) :
    (∀ g ∈ gapsBetween l, g.1 ≤ g.2 ∧ (∀ a ∈ l.head?, a < g.1) ∧ (∀ z ∈ l.getLast?, g.2 < z) ∧ ∀ v ∈ l, ¬ (g.1 ≤ v ∧ v ≤ g.2)) ∧
    (gapsBetween l).Pairwise (fun x y => x.2 + 1 < y.1) := by
  induction l with
  | nil => simp [gapsBetween]
  | cons a rest ih =>
    cases rest with
    | nil => simp [gapsBetween]
    | cons b rest2 =>
      have hab : a < b := (List.pairwise_cons.mp hs).1 b (by simp)
      have ha_all : ∀ x ∈ b :: rest2, a < x := (List.pairwise_cons.mp hs).1
      have hs' : (b :: rest2).Pairwise (· < ·) := (List.pairwise_cons.mp hs).2
      have hb_all : ∀ x ∈ rest2, b < x := (List.pairwise_cons.mp hs').1
      obtain ⟨ih1, ih2⟩ := ih hs'
      have hlast : ∀ z ∈ (a :: b :: rest2).getLast?, b ≤ z := by
        intro z hz
        have hz' : z ∈ (b :: rest2).getLast? := by simpa [List.getLast?_cons_cons] using hz
        have hzm : z ∈ b :: rest2 := List.mem_of_getLast? hz'
        rcases List.mem_cons.mp hzm with rfl | h
        · omega
        · have := hb_all z h; omega
      unfold gapsBetween
      refine ⟨?_, ?_⟩
      · intro g hg
        rcases List.mem_append.mp hg with h | h
        · split at h
          · simp at h; subst h
            refine ⟨by simpa, by simp, ?_, ?_⟩
            · intro z hz; have := hlast z hz; simp; omega
            · intro v hv
              rcases List.mem_cons.mp hv with rfl | hv'
              · intro h; simp at h; omega
              · have := ha_all v hv'
                rcases List.mem_cons.mp hv' with rfl | hv''
                · simp; omega
                · have := hb_all v hv''; simp; omega
          · simp at h
        · obtain ⟨g1, g2, g3, g4⟩ := ih1 g h
          have hbg : b < g.1 := g2 b (by simp)
          refine ⟨g1, by intro x hx; simp at hx; subst hx; omega, ?_, ?_⟩
          · intro z hz
            exact g3 z (by simpa [List.getLast?_cons_cons] using hz)
          · intro v hv
            rcases List.mem_cons.mp hv with rfl | hv'
            · omega
            · exact g4 v hv'
      · apply List.pairwise_append.mpr
        refine ⟨?_, ih2, ?_⟩
        · split <;> simp
        · intro x hx y hy
          split at hx
          · simp at hx; subst hx
            have := (ih1 y hy).2.1 b (by simp)
            simp; omega
          · simp at hx

/-- every value lies outside every candidate blank, and the candidates in their order form a valid
blank list; hence so does every selection of them -/
theorem allGaps_spec (vals : List Nat) (hs : vals.Pairwise (· < ·)) (hmax : ∀ v ∈ vals, v ≤ U128MAX) :
    (∀ g ∈ allGaps vals, ∀ v ∈ vals, ¬ (g.1 ≤ v ∧ v ≤ g.2)) ∧ ValidBlanks 0 (allGaps vals) := by
  cases vals with
  | nil => exact ⟨by simp [allGaps], ⟨by simp [allGaps], by simp [allGaps], by simp [allGaps]⟩⟩
  | cons mn rest =>
    obtain ⟨g1, g2⟩ := gapsBetween_spec (mn :: rest) hs
    have hmn_all : ∀ x ∈ rest, mn < x := (List.pairwise_cons.mp hs).1
    have hlast_mem : lastOf mn rest ∈ mn :: rest := lastOf_mem mn rest
    have hlast_ge : ∀ v ∈ mn :: rest, v ≤ lastOf mn rest := lastOf_ge mn rest hs
    have hlast_opt : (mn :: rest).getLast? = some (lastOf mn rest) := lastOf_getLast? mn rest
    generalize hL : lastOf mn rest = L at *
    have hLmax : L ≤ U128MAX := hmax L hlast_mem
    unfold allGaps
    simp only
    refine ⟨?_, ?_⟩
    · intro g hg v hv
      rcases List.mem_append.mp hg with h | h
      · rcases List.mem_append.mp h with h | h
        · split at h
          · simp at h; subst h
            rcases List.mem_cons.mp hv with rfl | hv'
            · simp; omega
            · have := hmn_all v hv'; simp; omega
          · simp at h
        · exact (g1 g h).2.2.2 v hv
      · split at h
        · simp at h; subst h
          have := hlast_ge v hv; simp; omega
        · simp at h
    · have hmid_first : ∀ g ∈ gapsBetween (mn :: rest), mn < g.1 := fun g hg => (g1 g hg).2.1 mn (by simp)
      have hmid_last : ∀ g ∈ gapsBetween (mn :: rest), g.2 < L := fun g hg => (g1 g hg).2.2.1 L (by rw [hlast_opt]; simp)
      refine ⟨?_, by intro b _; omega, ?_⟩
      · intro b hb
        rcases List.mem_append.mp hb with h | h
        · rcases List.mem_append.mp h with h | h
          · split at h
            · simp at h; subst h
              have := hmax mn (by simp); simp; omega
            · simp at h
          · have := hmid_last b h
            exact ⟨(g1 b h).1, by omega⟩
        · split at h
          · simp at h; subst h; simp; omega
          · simp at h
      · apply List.pairwise_append.mpr
        refine ⟨?_, by split <;> simp, ?_⟩
        · apply List.pairwise_append.mpr
          refine ⟨by split <;> simp, g2, ?_⟩
          intro x hx y hy
          split at hx
          · simp at hx; subst hx
            have := hmid_first y hy; simp; omega
          · simp at hx
        · intro x hx y hy
          split at hy
          · simp at hy; subst hy
            rcases List.mem_append.mp hx with h | h
            · split at h
              · simp at h; subst h
                have : mn ≤ L := hlast_ge mn (by simp)
                simp; omega
              · simp at h
            · have := hmid_last x h; simp; omega
          · simp at hy

theorem validBlanks_sublist {sel all : List (Nat × Nat)} (hsub : sel.Sublist all) (h : ValidBlanks 0 all) :
    ValidBlanks 0 sel :=
  ⟨fun b hb => h.each b (hsub.subset hb), by intro b _; omega, h.sep.sublist hsub⟩

end TantivyModel.Columnar
