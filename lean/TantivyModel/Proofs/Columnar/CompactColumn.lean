import TantivyModel.Proofs.Columnar.CompactSpace
import TantivyModel.Proofs.Columnar.Header
import TantivyModel.Proofs.Columnar.Blockwise
/-!
`open_u128_mapped ∘ serialize_column_values_u128` through the real byte layout, for a given
compact space.
-/
namespace TantivyModel.Columnar
open TantivyModel

theorem vint128DecAux_enc (fuel n shift acc : Nat) (rest : Bytes) (hn : n < 2 ^ (7 * (fuel + 1))) :
    vint128DecAux (vintEncAux fuel n ++ rest) shift acc = some ((acc + n * 2 ^ shift) % 2 ^ 128, rest) := by
  induction fuel generalizing n shift acc with
  | zero =>
    have h128 : n < 128 := by simpa using hn
    simp only [vintEncAux, List.cons_append, List.nil_append, vint128DecAux]
    have h1 : n % 128 + 128 ≥ 128 := by omega
    have h2 : (n % 128 + 128) % 128 = n := by omega
    simp only [h1, if_true, h2]
  | succ fuel ih =>
    unfold vintEncAux
    by_cases h : n < 128
    · simp only [h, if_true, List.cons_append, List.nil_append, vint128DecAux]
      have h1 : n + 128 ≥ 128 := by omega
      have h2 : (n + 128) % 128 = n := by omega
      simp only [h1, if_true, h2]
    · simp only [h, if_false, List.cons_append, vint128DecAux]
      have hb : ¬ (n % 128 ≥ 128) := by omega
      have hmm : n % 128 % 128 = n % 128 := by omega
      simp only [hb, if_false, hmm]
      have hdiv : n / 128 < 2 ^ (7 * (fuel + 1)) := by
        apply Nat.div_lt_of_lt_mul
        have : 128 * 2 ^ (7 * (fuel + 1)) = 2 ^ (7 * (fuel + 1 + 1)) := by
          rw [show 7 * (fuel + 1 + 1) = 7 + 7 * (fuel + 1) by omega, Nat.pow_add]
        rw [this]; exact hn
      rw [ih (n / 128) (shift + 7) _ hdiv, Nat.mod_add_mod]
      congr 2
      have e : n = n % 128 + 128 * (n / 128) := (Nat.mod_add_div n 128).symm
      have p : 2 ^ (shift + 7) = 2 ^ shift * 128 := by rw [Nat.pow_add]
      rw [p]
      generalize 2 ^ shift = S
      generalize n / 128 = q at *
      generalize n % 128 = r at *
      subst e
      grind

theorem vint128_roundtrip (n : Nat) (hn : n < 2 ^ 128) (rest : Bytes) :
    vint128Dec (vint128Enc n ++ rest) = some (n, rest) := by
  unfold vint128Dec vint128Enc
  rw [vint128DecAux_enc 18 n 0 0 rest (Nat.lt_of_lt_of_le hn (by decide))]
  simp only [Nat.pow_zero, Nat.mul_one, Nat.zero_add]
  rw [Nat.mod_eq_of_lt hn]

theorem vintEncAux_ok (fuel n : Nat) : BytesOk (vintEncAux fuel n) := by
  induction fuel generalizing n with
  | zero => intro b hb; simp [vintEncAux] at hb; omega
  | succ f ih =>
    unfold vintEncAux
    split
    · intro b hb; simp at hb; omega
    · intro b hb
      rcases List.mem_cons.mp hb with rfl | hb'
      · omega
      · exact ih _ b hb'

/-- ranges within u128, sorted, the first one not below `prev` -/
theorem rangesDec_enc (rs : Ranges) (hv : ValidRanges rs) (hmax : ∀ r ∈ rs, r.2 ≤ U128MAX) (prev : Nat)
    (hprev : ∀ r ∈ rs.head?, prev ≤ r.1) (rest : Bytes) :
    rangesDec rs.length prev (rangesEnc prev rs ++ rest) = some (rs, rest) := by
  induction rs generalizing prev with
  | nil => simp [rangesDec, rangesEnc]
  | cons r rs ih =>
    have hr1 : prev ≤ r.1 := hprev r (by simp)
    have hr2 : r.1 ≤ r.2 := hv.nonempty r (by simp)
    have hr3 : r.2 ≤ U128MAX := hmax r (by simp)
    have hU : U128MAX = 2 ^ 128 - 1 := rfl
    simp only [List.length_cons, rangesDec, rangesEnc, List.append_assoc, Option.bind_eq_bind]
    rw [vint128_roundtrip (r.1 - prev) (by omega)]
    simp only [Option.bind_some]
    rw [vint128_roundtrip (r.2 - r.1) (by omega)]
    simp only [Option.bind_some]
    have e1 : prev + (r.1 - prev) = r.1 := by omega
    have e2 : r.1 + (r.2 - r.1) = r.2 := by omega
    rw [e1, e2]
    have hnext : ∀ x ∈ rs.head?, r.2 ≤ x.1 := by
      intro x hx
      have hxm : x ∈ rs := List.mem_of_mem_head? hx
      have := (List.pairwise_cons.mp hv.sorted).1 x hxm
      omega
    rw [ih hv.tail (fun x hx => hmax x (by simp [hx])) r.2 hnext]
    simp

theorem rangesEnc_ok (prev : Nat) (rs : Ranges) : BytesOk (rangesEnc prev rs) := by
  induction rs generalizing prev with
  | nil => intro b hb; simp [rangesEnc] at hb
  | cons r rs ih =>
    unfold rangesEnc vint128Enc
    exact ((vintEncAux_ok _ _).append (vintEncAux_ok _ _)).append (ih _)

theorem rangesEnc_length (prev : Nat) (rs : Ranges) : (rangesEnc prev rs).length ≤ 38 * rs.length := by
  induction rs generalizing prev with
  | nil => simp [rangesEnc]
  | cons r rs ih =>
    unfold rangesEnc vint128Enc
    have h1 := vintEncAux_length 18 (r.1 - prev)
    have h2 := vintEncAux_length 18 (r.2 - r.1)
    have h3 := ih r.2
    simp only [List.length_append, List.length_cons]
    omega

end TantivyModel.Columnar
