import TantivyModel.Model.Columnar.Column
/-!
Column index ↔ rows: reading back what the writer / the merge wrote gives the rows.
-/
namespace TantivyModel.Columnar
open TantivyModel

variable {V : Type}

/-- number of non-empty rows among the first `j` -/
def nz (rows : Column V) (j : Nat) : Nat := (rows.take j).countP (fun r => !r.isEmpty)

theorem nonNullFrom_ge (i : Nat) (rows : Column V) : ∀ x ∈ nonNullFrom i rows, i ≤ x := by
  induction rows generalizing i with
  | nil => intro x hx; simp [nonNullFrom] at hx
  | cons r rs ih =>
    intro x hx
    unfold nonNullFrom at hx
    split at hx
    · have := ih (i + 1) x hx; omega
    · rcases List.mem_cons.mp hx with rfl | hx
      · exact Nat.le_refl _
      · have := ih (i + 1) x hx; omega

theorem mem_nonNullFrom (i : Nat) (rows : Column V) (x : Nat) :
    x ∈ nonNullFrom i rows ↔ i ≤ x ∧ (rows.getD (x - i) []).isEmpty = false := by
  induction rows generalizing i with
  | nil => simp [nonNullFrom]
  | cons r rs ih =>
    unfold nonNullFrom
    by_cases hx : x = i
    · subst hx
      have hno : x ∉ nonNullFrom (x + 1) rs := fun h => by have := nonNullFrom_ge _ _ _ h; omega
      by_cases hr : r.isEmpty <;> simp [hr, hno]
    · by_cases hlt : x < i
      · have hno : x ∉ nonNullFrom (i + 1) rs := fun h => by have := nonNullFrom_ge _ _ _ h; omega
        have : ¬ i ≤ x := by omega
        by_cases hr : r.isEmpty <;> simp [hr, hno, this, hx]
      · have e : x - i = (x - (i + 1)) + 1 := by omega
        have h1 := ih (i + 1)
        by_cases hr : r.isEmpty
        · simp only [hr, if_true, h1, e, List.getD_cons_succ]
          constructor
          · intro h; exact ⟨by omega, h.2⟩
          · intro h; exact ⟨by omega, h.2⟩
        · simp only [hr, Bool.false_eq_true, if_false, List.mem_cons, h1, e, List.getD_cons_succ]
          constructor
          · rintro (h | h)
            · exact absurd h hx
            · exact ⟨by omega, h.2⟩
          · intro h; right; exact ⟨by omega, h.2⟩

/-- rank of row `i + j` in the non-null list = number of non-empty rows before it -/
theorem rank_nonNullFrom (i : Nat) (rows : Column V) (j : Nat) :
    rankSpec (nonNullFrom i rows) (i + j) = nz rows j := by
  unfold rankSpec nz
  induction rows generalizing i j with
  | nil => simp [nonNullFrom]
  | cons r rs ih =>
    cases j with
    | zero =>
      simp only [Nat.add_zero, List.take_zero, List.countP_nil]
      apply List.countP_eq_zero.mpr
      intro x hx
      have := nonNullFrom_ge _ _ _ hx
      simp; omega
    | succ j =>
      have e : i + (j + 1) = (i + 1) + j := by omega
      unfold nonNullFrom
      by_cases hr : r.isEmpty
      · simp only [hr, if_true, List.take_succ_cons, List.countP_cons, Bool.not_true, Bool.false_eq_true, if_false, Nat.add_zero]
        rw [e]; exact ih (i + 1) j
      · simp only [hr, Bool.false_eq_true, if_false, List.take_succ_cons, List.countP_cons, Bool.not_false, if_true]
        rw [e, ih (i + 1) j]
        have : decide (i < i + 1 + j) = true := by simp; omega
        simp [this]

/-! ## prefix sums -/

theorem prefixSums_getD (l : List Nat) (acc k : Nat) (hk : k ≤ l.length) :
    (prefixSums l acc).getD k 0 = acc + (l.take k).sum := by
  induction l generalizing acc k with
  | nil => simp at hk; subst hk; simp [prefixSums]
  | cons n ns ih =>
    cases k with
    | zero => simp [prefixSums]
    | succ k =>
      simp only [prefixSums, List.getD_cons_succ, List.take_succ_cons, List.sum_cons]
      rw [ih (acc + n) k (by simpa using hk)]
      omega

theorem sum_take_filter (p : Nat → Bool) (hp : ∀ n, p n = false → n = 0) (lens : List Nat) (j : Nat) :
    ((lens.filter p).take ((lens.take j).countP p)).sum = (lens.take j).sum := by
  induction lens generalizing j with
  | nil => simp
  | cons n ns ih =>
    cases j with
    | zero => simp
    | succ j =>
      cases h : p n with
      | false =>
        have := hp n h; subst this
        simp only [List.take_succ_cons, List.countP_cons, h, List.filter_cons, Bool.false_eq_true, if_false,
          Nat.add_zero, List.sum_cons, Nat.zero_add]
        exact ih j
      | true =>
        simp only [List.take_succ_cons, List.countP_cons, h, List.filter_cons, if_true, List.sum_cons]
        rw [ih j]

theorem countP_take_le_filter (p : Nat → Bool) (lens : List Nat) (j : Nat) :
    (lens.take j).countP p ≤ (lens.filter p).length := by
  rw [← List.countP_eq_length_filter]
  have h : (lens.take j).Sublist lens := List.take_sublist j lens
  exact h.countP_le

theorem nz_eq_count_lens (rows : Column V) (j : Nat) :
    nz rows j = ((rows.map List.length).take j).countP (· ≠ 0) := by
  unfold nz
  rw [← List.map_take, List.countP_map]
  congr 1
  funext r
  cases r <;> simp

theorem flatten_take_length (rows : Column V) (j : Nat) :
    ((rows.take j).flatten).length = ((rows.map List.length).take j).sum := by
  rw [List.length_flatten, List.map_take]

/-- the start offset stored for the `nz j`-th row with values = number of values before row `j` -/
theorem startOffsets_nz (rows : Column V) (j : Nat) :
    (startOffsets (rows.map List.length)).getD (nz rows j) 0 = ((rows.take j).flatten).length := by
  unfold startOffsets
  rw [nz_eq_count_lens, prefixSums_getD _ _ _ (countP_take_le_filter _ _ _),
    sum_take_filter _ (by intro n h; simpa using h), flatten_take_length]
  simp

theorem nz_succ (rows : Column V) (j : Nat) (hj : j < rows.length) :
    nz rows (j + 1) = nz rows j + (if rows[j].isEmpty then 0 else 1) := by
  unfold nz
  rw [List.take_succ_eq_append_getElem hj, List.countP_append]
  by_cases h : rows[j].isEmpty <;> simp [h]

/-- the slice of the flat values that belongs to row `j` -/
theorem flatten_slice (rows : Column V) (j : Nat) (hj : j < rows.length) :
    (rows.flatten.drop ((rows.take j).flatten).length).take rows[j].length = rows[j] := by
  have e : rows = rows.take j ++ rows[j] :: rows.drop (j + 1) := by
    rw [List.getElem_cons_drop, List.take_append_drop]
  have hflat : rows.flatten = (rows.take j).flatten ++ (rows[j] ++ (rows.drop (j + 1)).flatten) := by
    conv => lhs; rw [e]
    rw [List.flatten_append, List.flatten_cons]
  rw [hflat, List.drop_left, List.take_left]

/-! ## reading back an encoded column -/

theorem all_one_flatten_take (rows : Column V) (h : ∀ r ∈ rows, r.length = 1) (j : Nat) (hj : j ≤ rows.length) :
    ((rows.take j).flatten).length = j := by
  induction rows generalizing j with
  | nil => simp at hj; subst hj; simp
  | cons r rs ih =>
    cases j with
    | zero => simp
    | succ j =>
      simp only [List.take_succ_cons, List.flatten_cons, List.length_append]
      rw [ih (fun x hx => h x (by simp [hx])) j (by simpa using hj), h r (by simp)]
      omega

theorem le_one_nz (rows : Column V) (h : ∀ r ∈ rows, r.length ≤ 1) (j : Nat) :
    nz rows j = ((rows.take j).flatten).length := by
  unfold nz
  induction rows generalizing j with
  | nil => simp
  | cons r rs ih =>
    cases j with
    | zero => simp
    | succ j =>
      have hr := h r (by simp)
      simp only [List.take_succ_cons, List.countP_cons, List.flatten_cons, List.length_append]
      rw [ih (fun x hx => h x (by simp [hx])) j]
      cases r with
      | nil => simp
      | cons a as =>
        have : as = [] := by cases as with | nil => rfl | cons b bs => simp at hr
        subst this; simp; omega

theorem readRow_encodeAs (card : Card) (rows : Column V) (hfit : card.fits rows) (j : Nat) (hj : j < rows.length) :
    readRow (encodeAs card rows).1 (encodeAs card rows).2 j = rows[j] := by
  have hmem : ∀ d, d ∈ nonNullRows rows ↔ (rows.getD d []).isEmpty = false := by
    intro d; unfold nonNullRows; rw [mem_nonNullFrom]; simp
  have hgetD : rows.getD j [] = rows[j] := by simp [List.getD_eq_getElem?_getD, hj]
  have hrank : rankSpec (nonNullRows rows) j = nz rows j := by
    have := rank_nonNullFrom 0 rows j; simpa [nonNullRows] using this
  cases card with
  | full =>
    have h1 : ∀ r ∈ rows, r.length = 1 := hfit
    unfold readRow encodeAs Index.valueRowIds
    simp only
    have := flatten_slice rows j hj
    rw [all_one_flatten_take rows h1 j (by omega), h1 _ (List.getElem_mem hj)] at this
    simpa using this
  | optional =>
    have h1 : ∀ r ∈ rows, r.length ≤ 1 := hfit
    unfold readRow encodeAs Index.valueRowIds rankIfExists
    simp only
    by_cases he : rows[j].isEmpty
    · have : j ∉ nonNullRows rows := by rw [hmem, hgetD, he]; simp
      simp only [this, if_false]
      simp [List.isEmpty_iff.mp he]
    · have hin : j ∈ nonNullRows rows := by rw [hmem, hgetD]; simpa using he
      simp only [hin, if_true, hrank]
      have hlen : rows[j].length = 1 := by
        have := h1 _ (List.getElem_mem hj)
        have : rows[j].length ≠ 0 := by intro h0; exact he (by simpa [List.isEmpty_iff] using List.length_eq_zero_iff.mp h0)
        omega
      have := flatten_slice rows j hj
      rw [← le_one_nz rows h1 j, hlen] at this
      simpa using this
  | multivalued =>
    unfold readRow encodeAs Index.valueRowIds rankIfExists
    simp only
    by_cases he : rows[j].isEmpty
    · have : j ∉ nonNullRows rows := by rw [hmem, hgetD, he]; simp
      simp only [this, if_false]
      simp [List.isEmpty_iff.mp he]
    · have hin : j ∈ nonNullRows rows := by rw [hmem, hgetD]; simpa using he
      simp only [hin, if_true, hrank]
      have hs := nz_succ rows j hj
      simp only [he, Bool.false_eq_true, if_false] at hs
      rw [← hs, startOffsets_nz rows j, startOffsets_nz rows (j + 1)]
      have e : ((rows.take (j + 1)).flatten).length = ((rows.take j).flatten).length + rows[j].length := by
        rw [List.take_succ_eq_append_getElem hj]
        simp only [List.flatten_append, List.flatten_cons, List.flatten_nil, List.append_nil, List.length_append]
      rw [e, Nat.add_sub_cancel_left]
      exact flatten_slice rows j hj

/-- reading back what was encoded under any cardinality that fits gives exactly the rows -/
theorem read_encodeAs (card : Card) (rows : Column V) (hfit : card.fits rows) :
    read (encodeAs card rows).1 (encodeAs card rows).2 = rows := by
  have hn : (encodeAs card rows).1.numDocs (encodeAs card rows).2.length = rows.length := by
    cases card with
    | full =>
      have h1 : ∀ r ∈ rows, r.length = 1 := hfit
      simp only [encodeAs, Index.numDocs]
      have := all_one_flatten_take rows h1 rows.length (Nat.le_refl _)
      simpa using this
    | optional => rfl
    | multivalued => rfl
  apply List.ext_getElem
  · simp [read, hn]
  · intro j h1 h2
    simp only [read, List.getElem_map, List.getElem_range]
    exact readRow_encodeAs card rows hfit j h2

theorem detectCard_fits (rows : Column V) : (detectCard rows).fits rows := by
  unfold detectCard
  split
  · next h =>
    intro r hr
    have := List.all_eq_true.mp h r hr
    simpa using this
  · split
    · next h =>
      intro r hr
      have := List.all_eq_true.mp h r hr
      simpa using this
    · trivial

end TantivyModel.Columnar
