import TantivyModel.Proofs.Columnar.Codec
/-!
VInt and stats header round trip; whole bitpacked column: bytes → values.
-/
namespace TantivyModel.Columnar
open TantivyModel

theorem vintDecAux_enc (fuel n shift acc : Nat) (rest : Bytes) (hn : n < 2 ^ (7 * (fuel + 1))) :
    vintDecAux (vintEncAux fuel n ++ rest) shift acc = some ((acc + n * 2 ^ shift) % U64, rest) := by
  induction fuel generalizing n shift acc with
  | zero =>
    have h128 : n < 128 := by simpa using hn
    simp only [vintEncAux, List.cons_append, List.nil_append, vintDecAux]
    have h1 : n % 128 + 128 ≥ 128 := by omega
    have h2 : (n % 128 + 128) % 128 = n := by omega
    simp only [h1, if_true, h2]
  | succ fuel ih =>
    unfold vintEncAux
    by_cases h : n < 128
    · simp only [h, if_true, List.cons_append, List.nil_append, vintDecAux]
      have h1 : n + 128 ≥ 128 := by omega
      have h2 : (n + 128) % 128 = n := by omega
      simp only [h1, if_true, h2]
    · simp only [h, if_false, List.cons_append, vintDecAux]
      have hb : ¬ (n % 128 ≥ 128) := by omega
      have hmm : n % 128 % 128 = n % 128 := by omega
      simp only [hb, if_false, hmm]
      have hdiv : n / 128 < 2 ^ (7 * (fuel + 1)) := by
        apply Nat.div_lt_of_lt_mul
        have : 128 * 2 ^ (7 * (fuel + 1)) = 2 ^ (7 * (fuel + 1 + 1)) := by
          rw [show 7 * (fuel + 1 + 1) = 7 + 7 * (fuel + 1) by omega, Nat.pow_add]
        rw [this]; exact hn
      rw [ih (n / 128) (shift + 7) _ hdiv, Nat.mod_add_mod]
      congr 2
      have e : n = n % 128 + 128 * (n / 128) := (Nat.mod_add_div n 128).symm
      have p : 2 ^ (shift + 7) = 2 ^ shift * 128 := by rw [Nat.pow_add]
      rw [p]
      generalize 2 ^ shift = S
      generalize n / 128 = q at *
      generalize n % 128 = r at *
      subst e
      grind

/-- `VInt::deserialize ∘ VInt::serialize = id` on u64, whatever follows -/
theorem vint_roundtrip (n : Nat) (hn : n < 2 ^ 64) (rest : Bytes) :
    vintDec (vintEnc n ++ rest) = some (n, rest) := by
  unfold vintDec vintEnc
  rw [vintDecAux_enc 9 n 0 0 rest (Nat.lt_of_lt_of_le hn (by decide))]
  simp only [Nat.pow_zero, Nat.mul_one, Nat.zero_add]
  rw [Nat.mod_eq_of_lt (by unfold U64; exact hn)]

theorem foldl_gcd_zero (f : Nat) (l : List Nat) (h : ∀ v ∈ l, absDiff v f = 0) :
    l.foldl (fun g v => Nat.gcd g (absDiff v f)) 0 = 0 := by
  induction l with
  | nil => rfl
  | cons x xs ih =>
    simp only [List.foldl_cons, h x (by simp), Nat.gcd_zero_left]
    exact ih (fun v hv => h v (by simp [hv]))

theorem absDiff_lt {a b : Nat} (ha : a < 2 ^ 64) (hb : b < 2 ^ 64) : absDiff a b < 2 ^ 64 := by
  unfold absDiff; split <;> omega

theorem collectStats_gcd_lt (vals : List Nat) (hv : ∀ v ∈ vals, v < 2 ^ 64) : (collectStats vals).gcd < 2 ^ 64 := by
  cases vals with
  | nil => decide
  | cons first rest =>
    simp only [collectStats]
    have hfun : (fun g v => Nat.gcd g (if v ≥ first then v - first else first - v))
        = (fun g v => Nat.gcd g (absDiff v first)) := by funext g v; rfl
    rw [hfun]
    generalize hG : rest.foldl (fun g v => Nat.gcd g (absDiff v first)) 0 = G
    split
    · decide
    · next hne =>
      -- some difference is non-zero, G divides it
      have : ¬ ∀ v ∈ rest, absDiff v first = 0 := fun h => hne (by rw [← hG]; exact foldl_gcd_zero first rest h)
      have hex : ∃ v ∈ rest, absDiff v first ≠ 0 := by
        apply Classical.byContradiction
        intro hno
        apply this
        intro v hvm
        apply Classical.byContradiction
        intro h0
        exact hno ⟨v, hvm, h0⟩
      obtain ⟨v, hvm, hv0⟩ := hex
      have hd := (foldl_gcd_dvd first rest 0).2 v hvm
      rw [hG] at hd
      have hle := Nat.le_of_dvd (Nat.pos_of_ne_zero hv0) hd
      have := absDiff_lt (hv v (by simp [hvm])) (hv first (by simp))
      omega

/-- stats header round trip for the statistics the collector computes -/
theorem stats_roundtrip (vals : List Nat) (hv : ∀ v ∈ vals, v < 2 ^ 64) (hlen : vals.length < 2 ^ 32)
    (rest : Bytes) :
    Stats.dec ((collectStats vals).enc ++ rest) = some (collectStats vals, rest) := by
  have hgl := collectStats_gcd_lt vals hv
  obtain ⟨hrows, hg0, hall, hmem⟩ := collectStats_spec vals
  have hb : (collectStats vals).min < 2 ^ 64 ∧ (collectStats vals).min ≤ (collectStats vals).max
      ∧ (collectStats vals).max < 2 ^ 64 ∧ (collectStats vals).gcd ∣ (collectStats vals).max - (collectStats vals).min := by
    cases hvals : vals with
    | nil => decide
    | cons x xs =>
      have hne : vals ≠ [] := by rw [hvals]; simp
      rw [← hvals]
      have hm := hmem hne
      have h1 := hall _ hm.2
      exact ⟨hv _ hm.1, h1.1, hv _ hm.2, h1.2.2⟩
  generalize collectStats vals = s at *
  obtain ⟨hmin, hle, hmax, hdvd⟩ := hb
  have hamp : (s.max - s.min) / s.gcd < 2 ^ 64 := Nat.lt_of_le_of_lt (Nat.div_le_self _ _) (by omega)
  have hnr : s.numRows < 2 ^ 64 := by rw [hrows]; exact Nat.lt_trans hlen (by decide)
  unfold Stats.dec Stats.enc
  simp only [List.append_assoc]
  rw [vint_roundtrip s.min hmin]
  simp only [Option.bind_eq_bind, Option.bind_some]
  rw [vint_roundtrip s.gcd hgl]
  simp only [Option.bind_some, hg0, if_false]
  rw [vint_roundtrip _ hamp]
  simp only [Option.bind_some]
  rw [vint_roundtrip s.numRows hnr]
  simp only [Option.bind_some]
  have e1 : s.min + (s.max - s.min) / s.gcd * s.gcd = s.max := by
    rw [Nat.div_mul_cancel hdvd]; omega
  have e2 : s.numRows % 2 ^ 32 = s.numRows := Nat.mod_eq_of_lt (by rw [hrows]; exact hlen)
  rw [e1, e2]

/-- a whole bitpacked column, through its real byte layout (codec byte, VInt stats header,
bit-packed payload): decoding the encoded bytes gives exactly the values -/
theorem bitpacked_column_roundtrip (vals : List Nat) (hv : ∀ v ∈ vals, v < 2 ^ 64) (hlen : vals.length < 2 ^ 32) :
    decodeU64Column (0 :: bitpackedEnc vals) = some vals := by
  unfold decodeU64Column openU64Column bitpackedEnc
  simp only
  rw [stats_roundtrip vals hv hlen]
  have hok : unpackerWidthOk (bitpackedNumBits (collectStats vals)) = true := computeNumBits_ok _
  simp only [Option.bind_eq_bind, Option.bind_some, hok, Bool.not_true, Bool.false_eq_true, if_false, Option.map_some]
  congr 1
  have hn : (collectStats vals).numRows = vals.length := (collectStats_spec vals).1
  rw [hn]
  apply List.ext_getElem
  · simp
  · intro i h1 h2
    simp only [List.getElem_map, List.getElem_range]
    exact bitpacked_exact vals hv i h2

end TantivyModel.Columnar
