import TantivyModel.Model.Columnar.Writer
import TantivyModel.Proofs.Columnar.Column
/-!
Writer pipeline: operation log → detected cardinality → index builders = `encodeAs`.
-/
namespace TantivyModel.Columnar
open TantivyModel

variable {V : Type}

/-! ## cardinality as a maximum -/

def rowCard (n : Nat) : Card := if n = 0 then .optional else if n = 1 then .full else .multivalued

def cardOfRows (rows : Column V) : Card := rows.foldl (fun c r => c.max (rowCard r.length)) .full

theorem card_max_full (c : Card) : c.max .full = c := by cases c <;> rfl
theorem card_max_idem (c : Card) : c.max c = c := by cases c <;> rfl
theorem card_max_assoc (a b c : Card) : (a.max b).max c = a.max (b.max c) := by
  cases a <;> cases b <;> cases c <;> rfl
theorem card_max_multi (c : Card) : c.max .multivalued = .multivalued := by cases c <;> rfl

theorem foldl_cardmax (rows : Column V) (c : Card) :
    rows.foldl (fun c r => c.max (rowCard r.length)) c = c.max (cardOfRows rows) := by
  unfold cardOfRows
  induction rows generalizing c with
  | nil => simp [card_max_full]
  | cons r rs ih =>
    simp only [List.foldl_cons]
    rw [ih, ih (Card.full.max _), ← card_max_assoc]
    congr 1
    cases c <;> cases (rowCard r.length) <;> rfl

theorem cardOfRows_append (a b : Column V) : cardOfRows (a ++ b) = (cardOfRows a).max (cardOfRows b) := by
  unfold cardOfRows
  rw [List.foldl_append, foldl_cardmax]
  rfl

theorem cardOfRows_single (r : List V) : cardOfRows [r] = rowCard r.length := by
  unfold cardOfRows; simp only [List.foldl_cons, List.foldl_nil]; cases rowCard r.length <;> rfl

theorem card_full_max (c : Card) : Card.full.max c = c := by cases c <;> rfl

theorem cardOfRows_cons (r : List V) (rs : Column V) :
    cardOfRows (r :: rs) = (rowCard r.length).max (cardOfRows rs) := by
  have := cardOfRows_append [r] rs
  rw [cardOfRows_single] at this
  exact this

theorem cardOfRows_eq_detect (rows : Column V) : cardOfRows rows = detectCard rows := by
  induction rows with
  | nil => rfl
  | cons r rs ih =>
    rw [cardOfRows_cons, ih]
    unfold detectCard rowCard
    simp only [List.all_cons]
    have himp : (rs.all (fun r => r.length == 1)) = true → (rs.all (fun r => decide (r.length ≤ 1))) = true := by
      intro h
      rw [List.all_eq_true] at h ⊢
      intro x hx
      have := h x hx
      simp at this ⊢; omega
    by_cases h1 : rs.all (fun r => r.length == 1)
    · have h2 := himp h1
      by_cases h0 : r.length = 0
      · simp [h0, h1, h2]; rfl
      · by_cases h1' : r.length = 1
        · simp [h1', h1, h2]; rfl
        · have h2' : ¬ r.length ≤ 1 := by omega
          simp [h0, h1', h2', h1, h2]; rfl
    · by_cases h2 : rs.all (fun r => decide (r.length ≤ 1))
      · by_cases h0 : r.length = 0
        · simp [h0, h1, h2]; rfl
        · by_cases h1' : r.length = 1
          · simp [h1', h1, h2]; rfl
          · have h2' : ¬ r.length ≤ 1 := by omega
            simp [h0, h1', h2', h1, h2]; rfl
      · by_cases h0 : r.length = 0
        · simp [h0, h1, h2]; rfl
        · by_cases h1' : r.length = 1
          · simp [h1', h1, h2]; rfl
          · have h2' : ¬ r.length ≤ 1 := by omega
            simp [h0, h1', h2', h1, h2]; rfl

/-! ## the canonical operation log -/

/-- `NewDoc d, Value v₀, Value v₁, …` for every document with values -/
def opsOf : Nat → Column V → List (Op V)
  | _, [] => []
  | i, r :: rs => (if r.isEmpty then [] else Op.newDoc i :: r.map Op.value) ++ opsOf (i + 1) rs

theorem opsOf_append (i : Nat) (a b : Column V) : opsOf i (a ++ b) = opsOf i a ++ opsOf (i + a.length) b := by
  induction a generalizing i with
  | nil => simp [opsOf]
  | cons r rs ih =>
    have e : i + 1 + rs.length = i + (rs.length + 1) := by omega
    simp only [List.cons_append, opsOf, ih (i + 1), e, List.length_cons, List.append_assoc]

/-- later values of the same document: `Same` -/
theorem recordRow_same (w : ColWriter V) (doc : Nat) (vs : List V) (h : w.last = some doc) :
    recordRow w doc vs = if vs.isEmpty then w else
      { card := .multivalued, last := some doc, ops := w.ops ++ vs.map Op.value } := by
  unfold recordRow
  induction vs generalizing w with
  | nil => rfl
  | cons v rest ih =>
    simp only [List.foldl_cons, List.isEmpty_cons, Bool.false_eq_true, if_false]
    have hstep : w.record doc v = { card := .multivalued, last := some doc, ops := w.ops ++ [Op.value v] } := by
      unfold ColWriter.record deltaWithLastDoc expectedNext
      rw [h]
      have : doc < doc + 1 := by omega
      simp [this, h]
    rw [hstep, ih _ rfl]
    cases rest with
    | nil => simp
    | cons v2 r2 => simp [List.append_assoc]

structure WInv (w : ColWriter V) (A : Column V) : Prop where
  exp_le : expectedNext w.last ≤ A.length
  card : w.getCardinality A.length = cardOfRows A
  ops : w.ops = opsOf 0 A

theorem getCard_eq (w : ColWriter V) (n : Nat) (h : expectedNext w.last ≤ n) :
    w.getCardinality n = if n = expectedNext w.last then w.card else w.card.max .optional := by
  unfold ColWriter.getCardinality deltaWithLastDoc
  have h1 : ¬ n < expectedNext w.last := by omega
  by_cases h2 : n = expectedNext w.last <;> simp [h1, h2]

theorem winv_row (w : ColWriter V) (A : Column V) (r : List V) (inv : WInv w A) :
    WInv (recordRow w A.length r) (A ++ [r]) := by
  obtain ⟨hexp, hcard, hops⟩ := inv
  cases r with
  | nil =>
    refine ⟨by simp [recordRow]; omega, ?_, ?_⟩
    · simp only [recordRow, List.foldl_nil, List.length_append, List.length_cons, List.length_nil]
      rw [cardOfRows_append, cardOfRows_single, ← hcard, getCard_eq w _ (by omega), getCard_eq w _ hexp]
      have : ¬ A.length + (0 + 1) = expectedNext w.last := by omega
      simp only [this, if_false]
      by_cases h : A.length = expectedNext w.last
      · simp [h, rowCard]
      · simp only [h, if_false, rowCard, if_true, List.length_nil]
        rw [card_max_assoc]; rfl
    · simp [recordRow, hops, opsOf_append, opsOf]
  | cons v vs =>
    -- first value: Next or Skipped
    have hfirst : w.record A.length v
        = { card := w.getCardinality A.length, last := some A.length,
            ops := w.ops ++ [Op.newDoc A.length, Op.value v] } := by
      rw [getCard_eq w _ hexp]
      unfold ColWriter.record deltaWithLastDoc
      have h1 : ¬ A.length < expectedNext w.last := by omega
      by_cases h2 : A.length = expectedNext w.last <;> simp [h1, h2]
    have hrow : recordRow w A.length (v :: vs) = recordRow (w.record A.length v) A.length vs := rfl
    rw [hrow, hfirst, recordRow_same _ _ vs rfl]
    cases vs with
    | nil =>
      refine ⟨by simp [expectedNext], ?_, ?_⟩
      · simp only [List.isEmpty_nil, if_true, List.length_append, List.length_cons, List.length_nil]
        rw [getCard_eq _ _ (by simp [expectedNext])]
        simp only [expectedNext, if_true, Nat.zero_add]
        rw [cardOfRows_append, cardOfRows_single, hcard]
        simp [rowCard, card_max_full]
      · simp [hops, opsOf_append, opsOf]
    | cons v2 rest =>
      refine ⟨by simp [expectedNext], ?_, ?_⟩
      · simp only [List.isEmpty_cons, Bool.false_eq_true, if_false, List.length_append, List.length_cons,
          List.length_nil]
        rw [getCard_eq _ _ (by simp [expectedNext])]
        simp only [expectedNext, if_true, Nat.zero_add]
        rw [cardOfRows_append, cardOfRows_single]
        have : rowCard (v :: v2 :: rest).length = .multivalued := by simp [rowCard]
        rw [this, card_max_multi]
      · simp [hops, opsOf_append, opsOf, List.append_assoc]

theorem winv_rows (w : ColWriter V) (A rows : Column V) (inv : WInv w A) :
    WInv (recordRows w A.length rows) (A ++ rows) := by
  induction rows generalizing w A with
  | nil => simpa [recordRows] using inv
  | cons r rs ih =>
    have := ih (recordRow w A.length r) (A ++ [r]) (winv_row w A r inv)
    simp only [List.length_append, List.length_cons, List.length_nil, Nat.zero_add, List.append_assoc,
      List.cons_append, List.nil_append] at this
    simpa [recordRows] using this

theorem winv_init : WInv (ColWriter.init : ColWriter V) [] :=
  ⟨by simp [ColWriter.init, expectedNext], by simp [ColWriter.getCardinality, ColWriter.init, deltaWithLastDoc, expectedNext, cardOfRows],
   by simp [ColWriter.init, opsOf]⟩

/-! ## replaying the log into the index builders -/

theorem fm_values (vs : List V) : (vs.map Op.value).filterMap opValue? = vs := by
  induction vs with
  | nil => rfl
  | cons x xs ih => simp only [List.map_cons, List.filterMap_cons, opValue?, ih]

theorem fm_docs (vs : List V) : (vs.map Op.value).filterMap (opDoc? (V := V)) = [] := by
  induction vs with
  | nil => rfl
  | cons x xs ih => simp only [List.map_cons, List.filterMap_cons, opDoc?, ih]

theorem opsOf_values (i : Nat) (rows : Column V) : (opsOf i rows).filterMap opValue? = rows.flatten := by
  induction rows generalizing i with
  | nil => rfl
  | cons r rs ih =>
    simp only [opsOf, List.filterMap_append, ih, List.flatten_cons]
    congr 1
    cases r with
    | nil => rfl
    | cons v vs =>
      simp only [List.isEmpty_cons, Bool.false_eq_true, if_false, List.filterMap_cons, opValue?]
      exact fm_values (v :: vs)

theorem opsOf_docs (i : Nat) (rows : Column V) : (opsOf i rows).filterMap opDoc? = nonNullFrom i rows := by
  induction rows generalizing i with
  | nil => rfl
  | cons r rs ih =>
    simp only [opsOf, List.filterMap_append, ih, nonNullFrom]
    cases r with
    | nil => simp
    | cons v vs =>
      simp only [List.isEmpty_cons, Bool.false_eq_true, if_false, List.filterMap_cons, opDoc?, fm_docs (v :: vs)]
      rfl

theorem mv_values (b : MvBuilder) (vs : List V) (h : b.hasValue = true) :
    (vs.map Op.value).foldl MvBuilder.op b
      = ⟨b.docWithValues, b.startOffsets, b.total + vs.length, b.currentRow, true⟩ := by
  induction vs generalizing b with
  | nil => cases b; simp_all
  | cons v rest ih =>
    simp only [List.map_cons, List.foldl_cons]
    have e : MvBuilder.op b (Op.value v) = ⟨b.docWithValues, b.startOffsets, b.total + 1, b.currentRow, true⟩ := by
      cases b; simp_all [MvBuilder.op]
    rw [e, ih _ rfl]
    simp only [List.length_cons, MvBuilder.mk.injEq, true_and, and_true]
    omega

theorem mv_ops (i : Nat) (rows : Column V) (b : MvBuilder) :
    ((opsOf i rows).foldl MvBuilder.op b).docWithValues = b.docWithValues ++ nonNullFrom i rows ∧
    ((opsOf i rows).foldl MvBuilder.op b).startOffsets ++ [((opsOf i rows).foldl MvBuilder.op b).total]
      = b.startOffsets ++ prefixSums ((rows.map List.length).filter (· ≠ 0)) b.total := by
  induction rows generalizing i b with
  | nil => simp [opsOf, nonNullFrom, prefixSums]
  | cons r rs ih =>
    cases r with
    | nil =>
      have := ih (i + 1) b
      simpa [opsOf, nonNullFrom] using this
    | cons v vs =>
      simp only [opsOf, List.isEmpty_cons, Bool.false_eq_true, if_false, List.cons_append, List.foldl_cons,
        List.foldl_append, List.map_cons]
      have h1 : (MvBuilder.op (MvBuilder.op b (Op.newDoc i : Op V)) (Op.value v))
          = ⟨b.docWithValues ++ [i], b.startOffsets ++ [b.total], b.total + 1, i, true⟩ := by
        simp [MvBuilder.op]
      rw [h1, mv_values _ vs rfl]
      obtain ⟨h2, h3⟩ := ih (i + 1) ⟨b.docWithValues ++ [i], b.startOffsets ++ [b.total], b.total + 1 + vs.length, i, true⟩
      refine ⟨?_, ?_⟩
      · rw [h2]; simp [nonNullFrom]
      · rw [h3]
        have e : b.total + 1 + vs.length = b.total + (vs.length + 1) := by omega
        simp [prefixSums, e, List.filter_cons]

/-- the whole pipeline writes what `encodeAs` describes, under the detected cardinality -/
theorem writerEncode_eq (rows : Column V) : writerEncode rows = encodeAs (detectCard rows) rows := by
  have inv := winv_rows (ColWriter.init : ColWriter V) [] rows winv_init
  simp only [List.nil_append, List.length_nil] at inv
  obtain ⟨_, hcard, hops⟩ := inv
  unfold writerEncode
  simp only
  rw [hcard, hops, cardOfRows_eq_detect]
  unfold consumeOps encodeAs
  cases detectCard rows with
  | full => simp [opsOf_values]
  | optional => simp [opsOf_values, opsOf_docs, nonNullRows]
  | multivalued =>
    obtain ⟨h1, h2⟩ := mv_ops 0 rows MvBuilder.init
    simp only [opsOf_values]
    rw [h1, h2]
    simp [MvBuilder.init, nonNullRows, startOffsets]

/-! ## numeric coercion -/

theorem compat_fold_i64 (vals : List NumVal) (c : Compat) :
    (vals.foldl Compat.accept c).allI64 = true →
      c.allI64 = true ∧ ∀ v ∈ vals, (∃ x, v = .i64 x) ∨ (∃ x, v = .u64 x ∧ x.toNat < 2 ^ 63 - 1) := by
  induction vals generalizing c with
  | nil => intro h; exact ⟨h, by simp⟩
  | cons v rest ih =>
    intro h
    simp only [List.foldl_cons] at h
    obtain ⟨h1, h2⟩ := ih _ h
    cases v with
    | i64 x =>
      simp only [Compat.accept] at h1
      refine ⟨h1, ?_⟩
      intro y hy
      rcases List.mem_cons.mp hy with rfl | hy
      · exact Or.inl ⟨x, rfl⟩
      · exact h2 y hy
    | u64 x =>
      simp only [Compat.accept, Bool.and_eq_true, decide_eq_true_eq] at h1
      refine ⟨h1.1, ?_⟩
      intro y hy
      rcases List.mem_cons.mp hy with rfl | hy
      · exact Or.inr ⟨x, rfl, h1.2⟩
      · exact h2 y hy
    | f64 x => simp [Compat.accept] at h1

theorem compat_fold_u64 (vals : List NumVal) (c : Compat) :
    (vals.foldl Compat.accept c).allU64 = true →
      c.allU64 = true ∧ ∀ v ∈ vals, (∃ x, v = .u64 x) ∨ (∃ x, v = .i64 x ∧ 0 ≤ x.toInt) := by
  induction vals generalizing c with
  | nil => intro h; exact ⟨h, by simp⟩
  | cons v rest ih =>
    intro h
    simp only [List.foldl_cons] at h
    obtain ⟨h1, h2⟩ := ih _ h
    cases v with
    | i64 x =>
      simp only [Compat.accept, Bool.and_eq_true, decide_eq_true_eq] at h1
      refine ⟨h1.1, ?_⟩
      intro y hy
      rcases List.mem_cons.mp hy with rfl | hy
      · exact Or.inr ⟨x, rfl, h1.2⟩
      · exact h2 y hy
    | u64 x =>
      simp only [Compat.accept] at h1
      refine ⟨h1, ?_⟩
      intro y hy
      rcases List.mem_cons.mp hy with rfl | hy
      · exact Or.inl ⟨x, rfl⟩
      · exact h2 y hy
    | f64 x => simp [Compat.accept] at h1

/-- when the detected column type is an integer type, every recorded value is an integer, it is
coerced (never `unreachable!()`), and the stored pattern denotes the same number — so coercion is
injective and order preserving on the values present -/
theorem coercion_exact (vals : List NumVal) (ht : numTypeOf vals ≠ .f64) :
    ∀ v ∈ vals, ∃ x n, coerceInt (numTypeOf vals) v = some x ∧ v.intValue = some n ∧ storedInt (numTypeOf vals) x = n := by
  unfold numTypeOf at *
  unfold Compat.toType at *
  by_cases hi : (vals.foldl Compat.accept Compat.init).allI64 = true
  · simp only [hi, if_true] at ht ⊢
    obtain ⟨_, hall⟩ := compat_fold_i64 vals Compat.init hi
    intro v hv
    rcases hall v hv with ⟨x, rfl⟩ | ⟨x, rfl, hx⟩
    · exact ⟨x, x.toInt, by simp [coerceInt], rfl, rfl⟩
    · refine ⟨x, x.toNat, by simp [coerceInt], rfl, ?_⟩
      simp only [storedInt]
      rw [BitVec.toInt_eq_toNat_of_lt (by omega)]
  · simp only [hi, Bool.false_eq_true, if_false] at ht ⊢
    by_cases hu : (vals.foldl Compat.accept Compat.init).allU64 = true
    · simp only [hu, if_true] at ht ⊢
      obtain ⟨_, hall⟩ := compat_fold_u64 vals Compat.init hu
      intro v hv
      rcases hall v hv with ⟨x, rfl⟩ | ⟨x, rfl, hx⟩
      · exact ⟨x, x.toNat, by simp [coerceInt], rfl, rfl⟩
      · refine ⟨x, x.toInt, by simp [coerceInt], rfl, ?_⟩
        simp only [storedInt]
        have := BitVec.toInt_eq_msb_cond x
        split at this
        · have hlt := x.isLt; omega
        · omega
    · simp [hu] at ht

end TantivyModel.Columnar
