import TantivyModel.Proofs.Columnar.PackStream
import TantivyModel.Proofs.Columnar.Range
import TantivyModel.Proofs.Columnar.Header
/-!
Blockwise-linear codec across blocks, with its footer: `load (serialize vals) = vals`.
-/
namespace TantivyModel.Columnar
open TantivyModel

theorem h512 : Gen.BLOCKWISE_LINEAR_BLOCK_SIZE = 512 := rfl

/-! ## chunks -/

theorem chunk_length (l : List Nat) (b : Nat) : (chunk 512 l b).length = min 512 (l.length - b * 512) := by
  unfold chunk; simp

theorem chunk_get (l : List Nat) (b j : Nat) (hj : j < (chunk 512 l b).length) :
    (chunk 512 l b)[j]? = l[b * 512 + j]? := by
  have hj' := hj
  rw [chunk_length] at hj'
  unfold chunk
  rw [List.getElem?_take_of_lt (by omega), List.getElem?_drop]

theorem chunk_mem (l : List Nat) (b : Nat) : ∀ x ∈ chunk 512 l b, x ∈ l := by
  intro x hx
  unfold chunk at hx
  exact List.mem_of_mem_drop (List.mem_of_mem_take hx)

/-! ## one block -/

theorem bwBlock_facts (s : Stats) (block : List Nat) :
    unpackerWidthOk (bwBlockEnc s block).1.width = true ∧
    (∀ x ∈ (bwBlockEnc s block).2, x < 2 ^ (bwBlockEnc s block).1.width) ∧
    (bwBlockEnc s block).2.length = block.length := by
  unfold bwBlockEnc
  simp only
  generalize hnorm : block.map (fun v => (v - s.min) / s.gcd) = norm
  generalize hline : Line.train norm = line
  generalize hoffs : linearOffsets line norm = offs
  generalize hw : (offs.map computeNumBits).foldl Nat.max 0 = w
  have hnl : norm.length = block.length := by rw [← hnorm]; simp
  have hol : offs.length = block.length := by rw [← hoffs, linearOffsets_length, hnl]
  refine ⟨?_, ?_, hol⟩
  · rw [← hw]
    apply foldl_max_widthOk
    · decide
    · intro x hx
      obtain ⟨o, _, rfl⟩ := List.mem_map.mp hx
      exact computeNumBits_ok o
  · intro x hx
    obtain ⟨j, hj, rfl⟩ := List.getElem_of_mem hx
    have h64 : offs[j] < 2 ^ 64 := by
      have : offs[j] = (BitVec.ofNat 64 (norm[j]'(by omega)) - line.eval j).toNat := by
        subst hoffs; exact linearOffsets_get line norm j (by omega)
      rw [this]; exact BitVec.isLt _
    have h1 := lt_two_pow_computeNumBits _ h64
    have h2 : computeNumBits offs[j] ≤ w := by
      rw [← hw]
      exact (foldl_max_ge (offs.map computeNumBits) 0).2 _ (List.mem_map.mpr ⟨_, List.getElem_mem hj, rfl⟩)
    exact Nat.lt_of_lt_of_le h1 (Nat.pow_le_pow_right (by decide) h2)

theorem widthOk_le64 {w : Nat} (h : unpackerWidthOk w = true) : w ≤ 64 := by
  have := (widthOk_iff w).mp h; omega

/-! ## footer -/

theorem vintEncAux_length (fuel n : Nat) : (vintEncAux fuel n).length ≤ fuel + 1 := by
  induction fuel generalizing n with
  | zero => simp [vintEncAux]
  | succ f ih =>
    unfold vintEncAux
    split
    · simp
    · simp only [List.length_cons]; have := ih (n / 128); omega

theorem vintEnc_length (n : Nat) : (vintEnc n).length ≤ 10 := vintEncAux_length 9 n

theorem lineDec_enc (l : Line) (rest : Bytes) : Line.dec (l.enc ++ rest) = some (l, rest) := by
  unfold Line.dec Line.enc
  simp only [List.append_assoc, Option.bind_eq_bind]
  rw [vint_roundtrip _ l.slope.isLt]
  simp only [Option.bind_some]
  rw [vint_roundtrip _ l.intercept.isLt]
  simp only [Option.bind_some, BitVec.ofNat_toNat, BitVec.setWidth_eq]

def footerEntry (b : BwBlock) : Bytes := b.line.enc ++ [b.width]

theorem footerEntry_length (b : BwBlock) : (footerEntry b).length ≤ 21 := by
  unfold footerEntry Line.enc
  have h1 := vintEnc_length b.line.slope.toNat
  have h2 := vintEnc_length b.line.intercept.toNat
  simp only [List.length_append, List.length_cons, List.length_nil]
  omega

theorem footer_length (bs : List BwBlock) : ((bs.map footerEntry).flatten).length ≤ 21 * bs.length := by
  induction bs with
  | nil => simp
  | cons b rest ih =>
    have := footerEntry_length b
    simp only [List.map_cons, List.flatten_cons, List.length_append, List.length_cons]
    omega

theorem bwBlocksDec_enc (bs : List BwBlock) : bwBlocksDec bs.length ((bs.map footerEntry).flatten) = some bs := by
  induction bs with
  | nil => rfl
  | cons b rest ih =>
    simp only [List.length_cons, List.map_cons, List.flatten_cons, bwBlocksDec, footerEntry, List.append_assoc,
      Option.bind_eq_bind]
    rw [lineDec_enc]
    simp only [Option.bind_some, List.cons_append, List.nil_append]
    rw [ih]
    simp only [Option.bind_some]

/-! ## offsets and the shared stream -/

theorem flatten_drop_split {α : Type} (L : List (List α)) (b : Nat) (hb : b < L.length) :
    L.flatten.drop ((L.take b).flatten).length = L[b] ++ (L.drop (b + 1)).flatten := by
  have e : L = L.take b ++ L[b] :: L.drop (b + 1) := by
    rw [List.getElem_cons_drop, List.take_append_drop]
  have hflat : L.flatten = (L.take b).flatten ++ (L[b] ++ (L.drop (b + 1)).flatten) := by
    conv => lhs; rw [e]
    rw [List.flatten_append, List.flatten_cons]
  rw [hflat, List.drop_left]

theorem bwOffsets_get (bs : List (BwBlock × List Nat)) (acc i : Nat) (hi : i < bs.length)
    (hfull : ∀ j (hj : j < bs.length), j < i →
      (pack bs[j].1.width bs[j].2).length = bs[j].1.width * Gen.BLOCKWISE_LINEAR_BLOCK_SIZE / 8) :
    (bwOffsetsFrom acc (bs.map (·.1)))[i]?
      = some (acc + (((bs.map (fun b => pack b.1.width b.2)).take i).flatten).length) := by
  induction bs generalizing acc i with
  | nil => simp at hi
  | cons b rest ih =>
    cases i with
    | zero => simp [bwOffsetsFrom]
    | succ i =>
      have h0 := hfull 0 (by simp) (by omega)
      simp only [List.getElem_cons_zero] at h0
      simp only [List.map_cons, bwOffsetsFrom, List.getElem?_cons_succ, List.take_succ_cons, List.flatten_cons,
        List.length_append]
      rw [ih (acc + b.1.width * Gen.BLOCKWISE_LINEAR_BLOCK_SIZE / 8) i (by simpa using hi)
        (fun j hj hji => by
          have := hfull (j + 1) (by simp; omega) (by omega)
          simpa using this)]
      rw [h0]; congr 1; omega

end TantivyModel.Columnar
