import TantivyModel.Proofs.Columnar.CompactColumn
/-!
The whole compact-space column: open (serialize vals) reads back every value.
-/
namespace TantivyModel.Columnar
open TantivyModel

theorem foldl_min_bound (l : List Nat) (a B : Nat) (ha : a ≤ B) : l.foldl Nat.min a ≤ B :=
  Nat.le_trans (foldl_min_le l a).1 ha

theorem foldl_max_bound (l : List Nat) (a B : Nat) (ha : a ≤ B) (hl : ∀ x ∈ l, x ≤ B) : l.foldl Nat.max a ≤ B := by
  rcases foldl_max_mem l a with h | h
  · rw [h]; exact ha
  · exact hl _ h

theorem compact_column_roundtrip (rs : Ranges) (hv : ValidRanges rs) (hmax : ∀ r ∈ rs, r.2 ≤ U128MAX)
    (hnr : rs.length ≤ 100000000) (hamp : amplitude rs < 2 ^ 64)
    (vals : List Nat) (hcov : ∀ v ∈ vals, Covered rs v) (hlen : vals.length < 2 ^ 32) :
    ∃ c, openU128Column (ipColumnEnc rs vals) = some c ∧ c.numVals = vals.length ∧ c.ranges = rs ∧
      ∀ i (hi : i < vals.length), c.get i = vals[i] := by
  have hU : U128MAX = 2 ^ 128 - 1 := rfl
  have hvmax : ∀ v ∈ vals, v ≤ U128MAX := by
    intro v hvm
    obtain ⟨r, hr, _, h2⟩ := hcov v hvm
    have := hmax r hr; omega
  have hhead : vals.headD 0 ≤ U128MAX := by
    cases vals with
    | nil => simp
    | cons a as => exact hvmax a (by simp)
  have hmn := foldl_min_bound vals (vals.headD 0) U128MAX hhead
  have hmx := foldl_max_bound vals (vals.headD 0) U128MAX hhead hvmax
  generalize hMn : vals.foldl Nat.min (vals.headD 0) = mn at hmn
  generalize hMx : vals.foldl Nat.max (vals.headD 0) = mx at hmx
  have hnb : unpackerWidthOk (computeNumBits (amplitude rs)) = true := computeNumBits_ok _
  generalize hNb : computeNumBits (amplitude rs) = nb at hnb
  -- the footer
  generalize hFo : ipFooter mn mx vals.length nb rs = Fo
  have hFoOk : BytesOk Fo := by
    rw [← hFo]; unfold ipFooter vint128Enc vintEnc
    have hnb256 : nb < 256 := by have := (widthOk_iff nb).mp hnb; omega
    exact ((((((leBytes_ok 8 0).append (vintEncAux_ok _ _)).append (vintEncAux_ok _ _)).append (vintEncAux_ok _ _)).append
      (by intro b hb; simp at hb; omega)).append (vintEncAux_ok _ _)).append (rangesEnc_ok 0 rs)
  have hFoLen : Fo.length < 2 ^ 32 ∧ 8 ≤ Fo.length := by
    rw [← hFo]; unfold ipFooter vint128Enc vintEnc
    have h1 := vintEncAux_length 18 mn
    have h2 := vintEncAux_length 18 mx
    have h3 := vintEncAux_length 18 vals.length
    have h4 := vintEncAux_length 9 rs.length
    have h5 := rangesEnc_length 0 rs
    simp only [List.length_append, leBytes_length, List.length_cons, List.length_nil]
    omega
  generalize hP : compactPayload rs vals = P
  have henc : ipColumnEnc rs vals = vintEnc vals.length ++ [1] ++ (P ++ Fo ++ leBytes 4 Fo.length) := by
    unfold ipColumnEnc
    simp only [hMn, hMx, hNb, hFo, hP]
  -- parsing
  have hC : (leBytes 4 Fo.length).length = 4 := leBytes_length _ _
  have hdl : (P ++ Fo ++ leBytes 4 Fo.length).length = P.length + Fo.length + 4 := by
    simp only [List.length_append, hC]
  have hfl : leNat ((P ++ Fo ++ leBytes 4 Fo.length).drop ((P ++ Fo ++ leBytes 4 Fo.length).length - 4)) = Fo.length := by
    have : (P ++ Fo ++ leBytes 4 Fo.length).length - 4 = (P ++ Fo).length := by rw [hdl]; simp
    rw [this, List.drop_left, leNat_leBytes]
    exact Nat.mod_eq_of_lt (by rw [pow256]; exact hFoLen.1)
  have hfoot : ((P ++ Fo ++ leBytes 4 Fo.length).drop ((P ++ Fo ++ leBytes 4 Fo.length).length - 4 - Fo.length)).take Fo.length = Fo := by
    have : (P ++ Fo ++ leBytes 4 Fo.length).length - 4 - Fo.length = P.length := by omega
    rw [this, List.append_assoc, List.drop_left, List.take_left]
  have hparse : (do
      let (mn', f) ← vint128Dec (Fo.drop 8)
      let (mx', f) ← vint128Dec f
      let (nv, f) ← vint128Dec f
      match f with
      | [] => none
      | nb' :: f =>
        let (nr, f) ← vintDec f
        let (ranges, _) ← rangesDec nr 0 f
        if !unpackerWidthOk nb' then none
        some ({ numVals := nv % 2 ^ 32, minValue := mn', maxValue := mx', numBits := nb', ranges := ranges,
                data := P ++ Fo ++ leBytes 4 Fo.length } : IpColumn))
      = some { numVals := vals.length, minValue := mn, maxValue := mx, numBits := nb, ranges := rs,
               data := P ++ Fo ++ leBytes 4 Fo.length } := by
    rw [← hFo]
    unfold ipFooter
    simp only [List.append_assoc]
    rw [List.drop_left' (leBytes_length 8 0)]
    rw [vint128_roundtrip mn (by omega)]
    simp only [Option.bind_eq_bind, Option.bind_some]
    rw [vint128_roundtrip mx (by omega)]
    simp only [Option.bind_some]
    rw [vint128_roundtrip vals.length (by omega)]
    simp only [Option.bind_some, List.cons_append, List.nil_append]
    rw [vint_roundtrip rs.length (by omega)]
    simp only [Option.bind_some]
    have := rangesDec_enc rs hv hmax 0 (fun r _ => Nat.zero_le _) []
    rw [List.append_nil] at this
    rw [this]
    simp only [Option.bind_some, hnb, Bool.not_true, Bool.false_eq_true, if_false]
    rw [Nat.mod_eq_of_lt hlen]
  refine ⟨{ numVals := vals.length, minValue := mn, maxValue := mx, numBits := nb, ranges := rs,
            data := P ++ Fo ++ leBytes 4 Fo.length }, ?_, rfl, rfl, ?_⟩
  · rw [henc]
    unfold openU128Column
    simp only [List.append_assoc, Option.bind_eq_bind]
    rw [vint_roundtrip vals.length (by omega)]
    simp only [Option.bind_some, List.cons_append, List.nil_append]
    have hne1 : ¬ ((1 : Nat) ≠ 1) := by simp
    have hl4 : ¬ (P ++ (Fo ++ leBytes 4 Fo.length)).length < 4 := by
      simp only [List.length_append, hC]; omega
    have hassoc : P ++ (Fo ++ leBytes 4 Fo.length) = P ++ Fo ++ leBytes 4 Fo.length := by simp
    rw [hassoc] at hl4 ⊢
    simp only [hne1, if_false, hl4, hfl]
    have h2 : ¬ Fo.length + 4 > (P ++ Fo ++ leBytes 4 Fo.length).length := by omega
    simp only [h2, if_false, hfoot]
    have h8 : ¬ Fo.length < 8 := by omega
    simp only [h8, if_false]
    exact hparse
  · intro i hi
    unfold IpColumn.get
    simp only
    rw [← hP, ← hNb, List.append_assoc]
    exact compact_codec_exact rs hv hamp vals hcov (Fo ++ leBytes 4 Fo.length)
      (hFoOk.append (leBytes_ok _ _)) i hi

end TantivyModel.Columnar
