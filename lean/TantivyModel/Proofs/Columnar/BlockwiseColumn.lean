import TantivyModel.Proofs.Columnar.Blockwise
/-!
`load_u64_based_column_values ∘ serialize` for the blockwise-linear codec.
-/
namespace TantivyModel.Columnar
open TantivyModel

/-- the blocks the serializer produces: (line, width) and the offsets that are bit-packed -/
def bwBlocksOf (vals : List Nat) : List (BwBlock × List Nat) :=
  (chunks Gen.BLOCKWISE_LINEAR_BLOCK_SIZE vals).map (bwBlockEnc (collectStats vals))

def packOf (b : BwBlock × List Nat) : Bytes := pack b.1.width b.2

theorem bwBlocksOf_length (vals : List Nat) : (bwBlocksOf vals).length = (vals.length + 511) / 512 := by
  unfold bwBlocksOf chunks numChunks; simp [h512]

theorem bwBlocksOf_get (vals : List Nat) (b : Nat) (hb : b < (bwBlocksOf vals).length) :
    (bwBlocksOf vals)[b] = bwBlockEnc (collectStats vals) (chunk 512 vals b) := by
  unfold bwBlocksOf chunks; simp [h512]

theorem chunk_full (vals : List Nat) (b : Nat) (hb : b + 1 < (vals.length + 511) / 512) :
    (chunk 512 vals b).length = 512 := by
  rw [chunk_length]; omega

theorem packOf_ok (vals : List Nat) (b : Nat) (hb : b < (bwBlocksOf vals).length) :
    BytesOk (packOf (bwBlocksOf vals)[b]) ∧
    (packOf (bwBlocksOf vals)[b]).length = ((bwBlocksOf vals)[b].1.width * (chunk 512 vals b).length + 7) / 8 := by
  rw [bwBlocksOf_get vals b hb]
  obtain ⟨hw, hbound, hlen⟩ := bwBlock_facts (collectStats vals) (chunk 512 vals b)
  obtain ⟨_, hok, hl⟩ := pack_spec _ (widthOk_le64 hw) _ hbound
  unfold packOf
  exact ⟨hok, by rw [hl, hlen]⟩

/-- the shared packer's closed stream = concatenation of the blocks' own streams -/
theorem blockwise_stream (vals : List Nat) :
    ((bwBlocksOf vals).foldl (fun p (b : BwBlock × List Nat) => p.writeAll b.1.width b.2) Packer.new).close
      = ((bwBlocksOf vals).map packOf).flatten := by
  have key := shared_packer_stream ((bwBlocksOf vals).map (fun b => (b.1.width, b.2)))
    (by
      intro x hx
      obtain ⟨b, hb, rfl⟩ := List.mem_map.mp hx
      obtain ⟨i, hi, rfl⟩ := List.getElem_of_mem hb
      rw [bwBlocksOf_get vals i hi]
      obtain ⟨hw, hbound, _⟩ := bwBlock_facts (collectStats vals) (chunk 512 vals i)
      exact ⟨widthOk_le64 hw, hbound⟩)
    (by
      intro i hi
      have hi' : i + 1 < (bwBlocksOf vals).length := by simpa using hi
      have hi'' : i < (bwBlocksOf vals).length := by omega
      simp only [List.getElem_map]
      rw [bwBlocksOf_get vals i hi'']
      obtain ⟨_, _, hlen⟩ := bwBlock_facts (collectStats vals) (chunk 512 vals i)
      rw [hlen, chunk_full vals i (by rw [← bwBlocksOf_length]; exact hi')]
      generalize (bwBlockEnc (collectStats vals) (chunk 512 vals i)).1.width = w
      exact ⟨w * 8, by omega⟩)
    []
  rw [withPre_nil, List.foldl_map, List.nil_append, List.map_map] at key
  exact key

/-- the byte offset the reader computes for block `b` is where the block's stream starts -/
theorem blockwise_offset (vals : List Nat) (b : Nat) (hb : b < (bwBlocksOf vals).length) :
    (bwOffsets ((bwBlocksOf vals).map (·.1)))[b]?
      = some ((((bwBlocksOf vals).map packOf).take b).flatten).length := by
  have := bwOffsets_get (bwBlocksOf vals) 0 b hb (by
    intro j hj hjb
    have h1 := (packOf_ok vals j hj).2
    unfold packOf at h1
    rw [h1, chunk_full vals j (by rw [← bwBlocksOf_length]; omega), h512]
    omega)
  have hp : packOf = fun (b : BwBlock × List Nat) => pack b.1.width b.2 := rfl
  rw [hp]
  simpa [bwOffsets] using this

/-- reading row `i` of the serialized column -/
theorem blockwise_get (vals : List Nat) (hv : ∀ v ∈ vals, v < 2 ^ 64) (i : Nat) (hi : i < vals.length) :
    blockwiseGet (collectStats vals) ((bwBlocksOf vals).map (·.1)) (bwOffsets ((bwBlocksOf vals).map (·.1)))
      (((bwBlocksOf vals).map packOf).flatten) i = vals[i] := by
  obtain ⟨_, hg0, hall, _⟩ := collectStats_spec vals
  have hnb := bwBlocksOf_length vals
  have hbid : i / 512 < (bwBlocksOf vals).length := by rw [hnb]; omega
  have hjlt : i % 512 < (chunk 512 vals (i / 512)).length := by rw [chunk_length]; omega
  unfold blockwiseGet
  simp only [h512]
  have e1 : ((bwBlocksOf vals).map (·.1))[i / 512]? = some (bwBlocksOf vals)[i / 512].1 := by
    simp [hbid]
  rw [e1, blockwise_offset vals (i / 512) hbid]
  simp only
  have hsplit := flatten_drop_split ((bwBlocksOf vals).map packOf) (i / 512) (by simpa using hbid)
  rw [hsplit]
  simp only [List.getElem_map]
  -- the bytes after the block are bytes
  have hrest : BytesOk ((((bwBlocksOf vals).map packOf).drop (i / 512 + 1)).flatten) := by
    intro x hx
    obtain ⟨l, hl, hxl⟩ := List.mem_flatten.mp hx
    have hl' := List.mem_of_mem_drop hl
    obtain ⟨b, hb, rfl⟩ := List.mem_map.mp hl'
    obtain ⟨k, hk, rfl⟩ := List.getElem_of_mem hb
    exact (packOf_ok vals k hk).1 x hxl
  have hblock := bwBlocksOf_get vals (i / 512) hbid
  unfold packOf
  rw [hblock]
  have hchunk : ∀ v ∈ chunk 512 vals (i / 512),
      (collectStats vals).min ≤ v ∧ v < 2 ^ 64 ∧ (collectStats vals).gcd ∣ v - (collectStats vals).min := by
    intro v hvm
    have hm := chunk_mem vals _ v hvm
    have := hall v hm
    exact ⟨this.1, hv v hm, this.2.2⟩
  have hfull : 8 ∣ (bwBlockEnc (collectStats vals) (chunk 512 vals (i / 512))).1.width * (chunk 512 vals (i / 512)).length
      ∨ (((bwBlocksOf vals).map (fun b => pack b.1.width b.2)).drop (i / 512 + 1)).flatten = [] := by
    rcases Nat.lt_or_ge (i / 512 + 1) (bwBlocksOf vals).length with h | h
    · left
      rw [chunk_full vals _ (by rw [← hnb]; exact h)]
      generalize (bwBlockEnc (collectStats vals) (chunk 512 vals (i / 512))).1.width = w
      exact ⟨w * 64, by omega⟩
    · right
      rw [List.drop_eq_nil_of_le (by simpa using h)]; rfl
  have hrest' : ∀ b ∈ (((bwBlocksOf vals).map (fun b => pack b.1.width b.2)).drop (i / 512 + 1)).flatten, b < 256 := hrest
  have key := blockwise_block_exact (collectStats vals) hg0 (chunk 512 vals (i / 512)) _ hrest' hchunk hfull (i % 512) hjlt
  rw [key]
  have := chunk_get vals (i / 512) (i % 512) hjlt
  rw [List.getElem?_eq_getElem hjlt, List.getElem?_eq_getElem (by omega)] at this
  have e : i / 512 * 512 + i % 512 = i := by omega
  simp only [e] at this
  exact Option.some.inj this

theorem stats_dec_any (vals : List Nat) (hv : ∀ v ∈ vals, v < 2 ^ 64) (hlen : vals.length < 2 ^ 32) (X : Bytes) :
    Stats.dec ((collectStats vals).enc ++ X) = some (collectStats vals, X) :=
  stats_roundtrip vals hv hlen X

/-- a whole blockwise-linear column through its real byte layout -/
theorem blockwise_column_roundtrip (vals : List Nat) (hv : ∀ v ∈ vals, v < 2 ^ 64) (hlen : vals.length < 2 ^ 32) :
    decodeU64Column (2 :: blockwiseEnc vals) = some vals := by
  have hnb := bwBlocksOf_length vals
  have hrows : (collectStats vals).numRows = vals.length := (collectStats_spec vals).1
  -- the serialized bytes in terms of the blocks
  have henc : blockwiseEnc vals = (collectStats vals).enc
      ++ (((bwBlocksOf vals).map packOf).flatten
        ++ (((bwBlocksOf vals).map (·.1)).map footerEntry).flatten
        ++ leBytes 4 ((((bwBlocksOf vals).map (·.1)).map footerEntry).flatten).length) := by
    unfold blockwiseEnc
    simp only
    have hs := blockwise_stream vals
    unfold bwBlocksOf at hs
    rw [hs]
    simp only [bwBlocksOf, List.map_map, List.append_assoc, footerEntry, Function.comp_def]
  generalize hD : ((bwBlocksOf vals).map packOf).flatten = D at henc
  generalize hF : (((bwBlocksOf vals).map (·.1)).map footerEntry).flatten = F at henc
  have hFlen : F.length < 2 ^ 32 := by
    have := footer_length ((bwBlocksOf vals).map (·.1))
    rw [hF] at this
    simp only [List.length_map, hnb] at this
    omega
  have hdec : bwBlocksDec (((collectStats vals).numRows + Gen.BLOCKWISE_LINEAR_BLOCK_SIZE - 1) / Gen.BLOCKWISE_LINEAR_BLOCK_SIZE) F
      = some ((bwBlocksOf vals).map (·.1)) := by
    have := bwBlocksDec_enc ((bwBlocksOf vals).map (·.1))
    rw [hF] at this
    simp only [List.length_map, hnb] at this
    rw [hrows, h512]
    exact this
  have hwok : ((bwBlocksOf vals).map (·.1)).any (fun b => !unpackerWidthOk b.width) = false := by
    rw [List.any_eq_false]
    intro b hb
    obtain ⟨x, hx, rfl⟩ := List.mem_map.mp hb
    obtain ⟨k, hk, rfl⟩ := List.getElem_of_mem hx
    rw [bwBlocksOf_get vals k hk]
    simp [(bwBlock_facts (collectStats vals) (chunk 512 vals k)).1]
  unfold decodeU64Column openU64Column
  rw [henc]
  simp only
  rw [stats_dec_any vals hv hlen]
  simp only [Option.bind_eq_bind, Option.bind_some]
  have hC : (leBytes 4 F.length).length = 4 := leBytes_length _ _
  have hbl : (D ++ F ++ leBytes 4 F.length).length = D.length + F.length + 4 := by
    simp only [List.length_append, hC]
  have h1 : ¬ (D ++ F ++ leBytes 4 F.length).length < 4 := by omega
  have hfl : leNat ((D ++ F ++ leBytes 4 F.length).drop ((D ++ F ++ leBytes 4 F.length).length - 4)) = F.length := by
    have : (D ++ F ++ leBytes 4 F.length).length - 4 = (D ++ F).length := by rw [hbl]; simp
    rw [this, List.drop_left, leNat_leBytes]
    exact Nat.mod_eq_of_lt (by rw [pow256]; exact hFlen)
  simp only [h1, if_false, hfl]
  have h2 : ¬ F.length + 4 > (D ++ F ++ leBytes 4 F.length).length := by omega
  simp only [h2, if_false]
  have h3 : (D ++ F ++ leBytes 4 F.length).length - 4 - F.length = D.length := by omega
  rw [h3]
  have hdata : (D ++ F ++ leBytes 4 F.length).take D.length = D := by
    rw [List.append_assoc, List.take_left]
  have hfoot : ((D ++ F ++ leBytes 4 F.length).drop D.length).take F.length = F := by
    rw [List.append_assoc, List.drop_left, List.take_left]
  rw [hdata, hfoot, hdec]
  simp only [Option.bind_some, hwok, Bool.false_eq_true, if_false, Option.map_some]
  congr 1
  rw [hrows]
  apply List.ext_getElem
  · simp
  · intro i h1 h2
    simp only [List.getElem_map, List.getElem_range]
    rw [← hD]
    exact blockwise_get vals hv i h2

end TantivyModel.Columnar
