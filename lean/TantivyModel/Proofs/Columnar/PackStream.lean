import TantivyModel.Proofs.Columnar.BitPacker
/-!
One bit packer shared by several blocks of different widths (blockwise-linear codec): after a
block of `64 ∣ width·len` bits the packer is empty, so the closed stream is the concatenation of
the per-block streams.
-/
namespace TantivyModel.Columnar
open TantivyModel

/-- the same packer with bytes already written before it -/
def Packer.withPre (pre : Bytes) (q : Packer) : Packer := { q with out := pre ++ q.out }

theorem write_withPre (pre : Bytes) (q : Packer) (v w : Nat) :
    (q.withPre pre).write v w = (q.write v w).withPre pre := by
  unfold Packer.write Packer.withPre
  simp only
  split
  · simp [List.append_assoc]
  · split <;> simp [List.append_assoc]

theorem writeAll_withPre (pre : Bytes) (q : Packer) (w : Nat) (vals : List Nat) :
    (q.withPre pre).writeAll w vals = (q.writeAll w vals).withPre pre := by
  unfold Packer.writeAll
  induction vals generalizing q with
  | nil => rfl
  | cons v vs ih => simp only [List.foldl_cons, write_withPre, ih]

theorem close_withPre (pre : Bytes) (q : Packer) : (q.withPre pre).close = pre ++ q.close := by
  unfold Packer.close Packer.withPre
  simp only
  split <;> simp [List.append_assoc]

theorem write_out_len (p : Packer) (v w : Nat) (h : p.out.length % 8 = 0) : (p.write v w).out.length % 8 = 0 := by
  unfold Packer.write
  split
  · simp [leBytes_length]; omega
  · simp only
    split
    · simp [leBytes_length]; omega
    · exact h

theorem writeAll_out_len (p : Packer) (w : Nat) (vals : List Nat) (h : p.out.length % 8 = 0) :
    (p.writeAll w vals).out.length % 8 = 0 := by
  unfold Packer.writeAll
  induction vals generalizing p with
  | nil => exact h
  | cons v vs ih => simp only [List.foldl_cons]; exact ih _ (write_out_len p v w h)

/-- a block of `64 ∣ w·n` bits leaves the packer empty; everything is in `out` -/
theorem writeAll_aligned (w : Nat) (hw : w ≤ 64) (vals : List Nat) (h : ∀ v ∈ vals, v < 2 ^ w)
    (hal : 64 ∣ w * vals.length) :
    Packer.new.writeAll w vals = { mini := 0, written := 0, out := pack w vals } := by
  have inv := packInv_writeAll w hw vals h Packer.new [] (packInv_new w)
  simp only [List.nil_append] at inv
  have hlen := writeAll_out_len Packer.new w vals (by simp [Packer.new])
  obtain ⟨hwr, hmini, _, hbits, _⟩ := inv
  unfold pack Packer.close
  generalize Packer.new.writeAll w vals = p at *
  obtain ⟨k, hk⟩ := hal
  have hwr0 : p.written = 0 := by omega
  have hm0 : p.mini = 0 := by rw [hwr0] at hmini; simpa using hmini
  cases p with
  | mk mini written out =>
    simp only at hwr0 hm0
    subst hwr0 hm0
    simp

/-- several blocks through one packer: the closed stream is the concatenation of the blocks'
own streams, provided every block but the last fills whole 64-bit words -/
theorem shared_packer_stream (blocks : List (Nat × List Nat))
    (hok : ∀ b ∈ blocks, b.1 ≤ 64 ∧ ∀ x ∈ b.2, x < 2 ^ b.1)
    (hal : ∀ i (h : i + 1 < blocks.length), 64 ∣ (blocks[i]'(by omega)).1 * (blocks[i]'(by omega)).2.length)
    (pre : Bytes) :
    (blocks.foldl (fun p (b : Nat × List Nat) => p.writeAll b.1 b.2) (Packer.new.withPre pre)).close
      = pre ++ (blocks.map (fun b => pack b.1 b.2)).flatten := by
  induction blocks generalizing pre with
  | nil => simp [Packer.close, Packer.withPre, Packer.new]
  | cons b rest ih =>
    cases rest with
    | nil =>
      simp only [List.foldl_cons, List.foldl_nil, List.map_cons, List.map_nil, List.flatten_cons, List.flatten_nil,
        List.append_nil]
      rw [writeAll_withPre, close_withPre]; rfl
    | cons b2 rest2 =>
      have hb := hok b (by simp)
      have hbal : 64 ∣ b.1 * b.2.length := hal 0 (by simp)
      simp only [List.foldl_cons, List.map_cons, List.flatten_cons]
      rw [writeAll_withPre, writeAll_aligned b.1 hb.1 b.2 hb.2 hbal]
      have e : ({ mini := 0, written := 0, out := pack b.1 b.2 } : Packer).withPre pre
          = Packer.new.withPre (pre ++ pack b.1 b.2) := by
        simp [Packer.withPre, Packer.new]
      rw [e]
      have := ih (fun x hx => hok x (by simp [hx]))
        (fun i h => by
          have := hal (i + 1) (by simp at h ⊢; omega)
          simpa using this) (pre ++ pack b.1 b.2)
      simp only [List.foldl_cons, List.map_cons, List.flatten_cons] at this
      rw [this, List.append_assoc]

theorem withPre_nil (q : Packer) : q.withPre [] = q := by
  cases q; simp [Packer.withPre]

end TantivyModel.Columnar
