import TantivyModel.Proofs.Columnar.Merge
/-!
Stacked merge of canonical inputs (every input = `encodeAs card rows` with a fitting cardinality,
which is what the writer and every earlier merge produce): the merged (index, values) is
`encodeAs (max card) (all rows)`, hence reads back as the concatenation.
-/
namespace TantivyModel.Columnar
open TantivyModel

variable {V : Type}

/-- a canonical merge input -/
def canonInput (c : Card × Column V) : MergeInput V := ⟨c.2.length, some (encodeAs c.1 c.2)⟩

theorem nonNullFrom_append (i : Nat) (a b : Column V) :
    nonNullFrom i (a ++ b) = nonNullFrom i a ++ nonNullFrom (i + a.length) b := by
  induction a generalizing i with
  | nil => simp [nonNullFrom]
  | cons r rs ih =>
    have e : i + 1 + rs.length = i + (rs.length + 1) := by omega
    simp only [List.cons_append, nonNullFrom, ih (i + 1), e, List.length_cons]
    split <;> simp

theorem nonNullFrom_shift (i : Nat) (rows : Column V) :
    nonNullFrom i rows = (nonNullFrom 0 rows).map (· + i) := by
  induction rows generalizing i with
  | nil => simp [nonNullFrom]
  | cons r rs ih =>
    simp only [nonNullFrom]
    rw [ih (i + 1), ih (0 + 1)]
    split
    · simp only [List.map_map]; congr 1; funext x; simp; omega
    · simp only [List.map_cons, List.map_map, Nat.zero_add]; congr 1; congr 1; funext x; simp; omega

theorem nonNullFrom_all_one (rows : Column V) (h : ∀ r ∈ rows, r.length = 1) (i : Nat) :
    nonNullFrom i rows = (List.range rows.length).map (· + i) := by
  induction rows generalizing i with
  | nil => simp [nonNullFrom]
  | cons r rs ih =>
    have hr : r.isEmpty = false := by
      have := h r (by simp); cases r <;> simp at this ⊢
    simp only [nonNullFrom, hr, Bool.false_eq_true, if_false, List.length_cons, List.range_succ_eq_map,
      List.map_cons, List.map_map, Nat.zero_add]
    rw [ih (fun x hx => h x (by simp [hx])) (i + 1)]
    congr 1; congr 1; funext x; simp; omega

theorem prefixSums_cons_head (l : List Nat) (acc : Nat) : ∃ t, prefixSums l acc = acc :: t := by
  cases l <;> simp [prefixSums]

theorem prefixSums_diffs (l : List Nat) (acc : Nat) :
    (prefixSums l acc).zipWith (fun a b => b - a) ((prefixSums l acc).drop 1) = l := by
  induction l generalizing acc with
  | nil => simp [prefixSums]
  | cons n ns ih =>
    obtain ⟨t, ht⟩ := prefixSums_cons_head ns (acc + n)
    have := ih (acc + n)
    simp only [prefixSums, List.drop_succ_cons, List.drop_zero]
    rw [ht] at this ⊢
    simp only [List.zipWith_cons_cons, List.drop_succ_cons, List.drop_zero] at this ⊢
    rw [this]; simp

theorem lens_filter_all_one (p : Nat → Bool) (hp1 : p 1 = true) (rows : Column V) (h : ∀ r ∈ rows, r.length = 1) :
    (rows.map List.length).filter p = List.replicate rows.length 1 := by
  induction rows with
  | nil => simp
  | cons r rs ih =>
    have := h r (by simp)
    simp only [List.map_cons, this, List.filter_cons, hp1, if_true, List.length_cons, List.replicate_succ]
    rw [ih (fun x hx => h x (by simp [hx]))]

theorem lens_filter_le_one (p : Nat → Bool) (hp1 : p 1 = true) (hp0 : p 0 = false) (rows : Column V)
    (h : ∀ r ∈ rows, r.length ≤ 1) (i : Nat) :
    (rows.map List.length).filter p = List.replicate (nonNullFrom i rows).length 1 := by
  induction rows generalizing i with
  | nil => simp [nonNullFrom]
  | cons r rs ih =>
    have hr := h r (by simp)
    have ih' := ih (fun x hx => h x (by simp [hx])) (i + 1)
    cases r with
    | nil =>
      simp only [List.map_cons, List.length_nil, List.filter_cons, hp0, Bool.false_eq_true, if_false, nonNullFrom,
        List.isEmpty_nil, if_true]
      exact ih'
    | cons a as =>
      have : as = [] := by cases as with | nil => rfl | cons b bs => simp at hr
      subst this
      simp only [List.map_cons, List.length_cons, List.length_nil, Nat.zero_add, List.filter_cons, hp1, if_true,
        nonNullFrom, List.isEmpty_cons, Bool.false_eq_true, if_false, List.replicate_succ]
      rw [ih']

/-! ## per-input facts -/

theorem canon_numDocs (c : Card × Column V) (hfit : c.1.fits c.2) :
    (canonInput c).index.numDocs (canonInput c).vals.length = c.2.length := by
  obtain ⟨card, rows⟩ := c
  cases card with
  | full =>
    have h1 : ∀ r ∈ rows, r.length = 1 := hfit
    simp only [canonInput, MergeInput.index, MergeInput.vals, encodeAs, Index.numDocs]
    have := all_one_flatten_take rows h1 rows.length (Nat.le_refl _)
    simpa using this
  | optional => rfl
  | multivalued => rfl

theorem canon_card (c : Card × Column V) (hne : c.2 ≠ [] ∨ c.1 ≠ .full → True) :
    (canonInput c).index.card = c.1 := by
  obtain ⟨card, rows⟩ := c
  cases card <;> rfl

def Card.le (a b : Card) : Prop := a.toNat ≤ b.toNat

theorem fits_mono {a b : Card} (h : Card.le a b) (rows : Column V) (hf : a.fits rows) : b.fits rows := by
  cases a <;> cases b <;> simp [Card.le, Card.toNat] at h <;> try exact hf
  · intro r hr; have := hf r hr; omega
  · trivial
  · trivial

theorem max_ge_left (a b : Card) : Card.le a (a.max b) := by
  unfold Card.max Card.le; split <;> omega

theorem max_ge_right (a b : Card) : Card.le b (a.max b) := by
  unfold Card.max Card.le; split <;> omega

theorem foldl_max_ge_init (l : List Card) (c : Card) : Card.le c (l.foldl Card.max c) := by
  induction l generalizing c with
  | nil => exact Nat.le_refl _
  | cons x xs ih => exact Nat.le_trans (max_ge_left c x) (ih (c.max x))

theorem foldl_max_ge_mem (l : List Card) (c : Card) : ∀ x ∈ l, Card.le x (l.foldl Card.max c) := by
  induction l generalizing c with
  | nil => intro x hx; simp at hx
  | cons y ys ih =>
    intro x hx
    rcases List.mem_cons.mp hx with rfl | hx
    · exact Nat.le_trans (max_ge_right c x) (foldl_max_ge_init ys (c.max x))
    · exact ih (c.max y) x hx

theorem stackedCard_canon (cols : List (Card × Column V)) :
    stackedCard (cols.map canonInput) = (cols.map (·.1)).foldl Card.max .full := by
  unfold stackedCard
  generalize Card.full = c0
  induction cols generalizing c0 with
  | nil => rfl
  | cons c cs ih =>
    simp only [List.map_cons, List.foldl_cons]
    rw [canon_card c (fun _ => trivial)]
    exact ih _

/-! ## the stacked index of canonical inputs -/

theorem stackedStep_canon (acc : List Nat × Nat) (c : Card × Column V) (hfit : c.1.fits c.2) :
    stackedStep acc (canonInput c) = (acc.1 ++ nonNullFrom acc.2 c.2, acc.2 + c.2.length) := by
  obtain ⟨card, rows⟩ := c
  rw [nonNullFrom_shift acc.2 rows]
  cases card with
  | full =>
    have h1 : ∀ r ∈ rows, r.length = 1 := hfit
    have hlen : rows.flatten.length = rows.length := by
      have := all_one_flatten_take rows h1 rows.length (Nat.le_refl _)
      simpa using this
    simp only [stackedStep, canonInput, MergeInput.index, MergeInput.vals, encodeAs, Index.numDocs, hlen]
    rw [nonNullFrom_all_one rows h1 0]; simp
  | optional => rfl
  | multivalued => rfl

theorem stackedNonNull_canon (cols : List (Card × Column V)) (hfit : ∀ c ∈ cols, c.1.fits c.2)
    (L : List Nat) (off : Nat) :
    (cols.map canonInput).foldl stackedStep (L, off)
      = (L ++ nonNullFrom off (cols.map (·.2)).flatten, off + (cols.map (·.2)).flatten.length) := by
  induction cols generalizing L off with
  | nil => simp [nonNullFrom]
  | cons c cs ih =>
    simp only [List.map_cons, List.foldl_cons, List.flatten_cons]
    rw [stackedStep_canon (L, off) c (hfit c (by simp)), ih (fun x hx => hfit x (by simp [hx]))]
    rw [nonNullFrom_append, List.length_append]
    simp [List.append_assoc, Nat.add_assoc]

theorem stackedNumVals_canon (cols : List (Card × Column V)) (hfit : ∀ c ∈ cols, c.1.fits c.2) :
    stackedNumVals (cols.map canonInput) = (((cols.map (·.2)).flatten).map List.length).filter (· ≠ 0) := by
  unfold stackedNumVals
  induction cols with
  | nil => rfl
  | cons c cs ih =>
    simp only [List.map_cons, List.flatMap_cons, List.flatten_cons, List.map_append, List.filter_append]
    rw [ih (fun x hx => hfit x (by simp [hx]))]
    congr 1
    have hn := canon_numDocs c (hfit c (by simp))
    obtain ⟨card, rows⟩ := c
    cases card with
    | full =>
      have h1 : ∀ r ∈ rows, r.length = 1 := hfit (Card.full, rows) (by simp)
      have hn' : (canonInput (Card.full, rows)).index.numDocs (canonInput (Card.full, rows)).vals.length = rows.length := hn
      simp only [canonInput, MergeInput.index, MergeInput.vals, encodeAs] at hn' ⊢
      rw [hn', lens_filter_all_one _ (by decide) rows h1]
    | optional =>
      have h1 : ∀ r ∈ rows, r.length ≤ 1 := hfit (Card.optional, rows) (by simp)
      simp only [canonInput, MergeInput.index, encodeAs, nonNullRows]
      rw [lens_filter_le_one _ (by decide) (by decide) rows h1 0]
    | multivalued =>
      simp only [canonInput, MergeInput.index, encodeAs, startOffsets]
      exact prefixSums_diffs _ 0

theorem total_canon (cols : List (Card × Column V)) (hfit : ∀ c ∈ cols, c.1.fits c.2) (a : Nat) :
    ((cols.map canonInput).map (fun m => m.index.numDocs m.vals.length)).foldl (· + ·) a
      = a + ((cols.map (·.2)).flatten).length := by
  induction cols generalizing a with
  | nil => simp
  | cons c cs ih =>
    simp only [List.map_cons, List.foldl_cons, List.flatten_cons, List.length_append]
    rw [canon_numDocs c (hfit c (by simp)), ih (fun x hx => hfit x (by simp [hx]))]
    omega

theorem vals_canon (cols : List (Card × Column V)) :
    (cols.map canonInput).flatMap (·.vals) = ((cols.map (·.2)).flatten).flatten := by
  induction cols with
  | nil => rfl
  | cons c cs ih =>
    simp only [List.map_cons, List.flatMap_cons, List.flatten_cons, List.flatten_append, ih]
    congr 1
    obtain ⟨card, rows⟩ := c
    cases card <;> rfl

/-- stacking canonical inputs writes `encodeAs (max card) (all rows)` -/
theorem mergeStacked_canon (cols : List (Card × Column V)) (hfit : ∀ c ∈ cols, c.1.fits c.2) :
    mergeStacked (cols.map canonInput)
      = encodeAs ((cols.map (·.1)).foldl Card.max .full) ((cols.map (·.2)).flatten) := by
  unfold mergeStacked
  simp only
  rw [stackedCard_canon, vals_canon, total_canon cols hfit 0]
  have hnn : stackedNonNull (cols.map canonInput) = nonNullRows ((cols.map (·.2)).flatten) := by
    unfold stackedNonNull nonNullRows
    rw [stackedNonNull_canon cols hfit [] 0]; simp
  rw [hnn, stackedNumVals_canon cols hfit]
  cases (cols.map (·.1)).foldl Card.max .full <;> simp [encodeAs, startOffsets]

theorem read_mergeStacked (cols : List (Card × Column V)) (hfit : ∀ c ∈ cols, c.1.fits c.2) :
    read (mergeStacked (cols.map canonInput)).1 (mergeStacked (cols.map canonInput)).2
      = stackSpec (cols.map (·.2)) := by
  rw [mergeStacked_canon cols hfit]
  unfold stackSpec
  apply read_encodeAs
  -- the maximal cardinality fits every row of every input
  have hall : ∀ c ∈ cols, ((cols.map (·.1)).foldl Card.max .full).fits c.2 := by
    intro c hc
    exact fits_mono (foldl_max_ge_mem _ _ c.1 (List.mem_map.mpr ⟨c, hc, rfl⟩)) c.2 (hfit c hc)
  generalize (cols.map (·.1)).foldl Card.max .full = C at *
  cases C with
  | full =>
    intro r hr
    obtain ⟨rows, hrows, hr2⟩ := List.mem_flatten.mp hr
    obtain ⟨c, hc, rfl⟩ := List.mem_map.mp hrows
    exact hall c hc r hr2
  | optional =>
    intro r hr
    obtain ⟨rows, hrows, hr2⟩ := List.mem_flatten.mp hr
    obtain ⟨c, hc, rfl⟩ := List.mem_map.mp hrows
    exact hall c hc r hr2
  | multivalued => trivial

end TantivyModel.Columnar
