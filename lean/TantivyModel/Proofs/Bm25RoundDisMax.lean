import TantivyModel.Proofs.Bm25Round
import TantivyModel.Proofs.Bm25Tree
/-!
A rounding bound for the dis-max expression `max + (sum − max) · tie`: the maximum is exact, the
sum carries the error of `n` additions, then one subtraction, one multiplication, one addition.
-/
namespace TantivyModel.Bm25
open Arith

variable {F : Type} [Arith F]

/-- `RoundLaws` plus: subtraction is exact up to `u`, `max` is exact -/
structure RoundLawsMax (val : F → ℚ) (u : ℚ) : Prop extends RoundLaws val u where
  sub_err : ∀ x y : F, |val (sub x y) - (val x - val y)| ≤ u * |val x - val y|
  max_exact : ∀ x y : F, val (Arith.max x y) = Max.max (val x) (val y)

theorem foldl_max_val {val : F → ℚ} (hmax : ∀ x y : F, val (Arith.max x y) = Max.max (val x) (val y)) :
    ∀ (xs : List F) (acc : F),
      val (xs.foldl (fun a x => Arith.max x a) acc) = (xs.map val).foldl (fun a x => Max.max x a) (val acc)
  | [], _ => rfl
  | x :: xs, acc => by
    simp only [List.foldl_cons, List.map_cons]
    rw [foldl_max_val hmax xs, hmax]

theorem foldl_max_bounds : ∀ (vs : List ℚ) (a : ℚ), 0 ≤ a → (∀ v, v ∈ vs → 0 ≤ v) →
    a ≤ vs.foldl (fun a x => Max.max x a) a ∧ vs.foldl (fun a x => Max.max x a) a ≤ a + vs.sum
  | [], a, _, _ => by simp
  | v :: vs, a, ha, hv => by
    have hv0 := hv v (by simp)
    have hrest : ∀ w, w ∈ vs → 0 ≤ w := fun w hw => hv w (by simp [hw])
    obtain ⟨h1, h2⟩ := foldl_max_bounds vs (Max.max v a) (le_trans ha (le_max_right _ _)) hrest
    simp only [List.foldl_cons, List.sum_cons]
    refine ⟨le_trans (le_max_right _ _) h1, le_trans h2 ?_⟩
    have : Max.max v a ≤ a + v := max_le (by linarith) (by linarith)
    linarith

theorem pow_sum_ge_two (u : ℚ) (h0 : 0 ≤ u) (h1 : u ≤ 1) : ∀ n : Nat, 2 ≤ (1 + u) ^ n + (1 - u) ^ n ∧ (1 - u) ^ n ≤ (1 + u) ^ n
  | 0 => by norm_num
  | n + 1 => by
    obtain ⟨i1, i2⟩ := pow_sum_ge_two u h0 h1 n
    have hp : 0 ≤ (1 - u) ^ n := pow_nonneg (by linarith) _
    have hq : 0 ≤ (1 + u) ^ n := pow_nonneg (by linarith) _
    rw [pow_succ, pow_succ]
    constructor
    · nlinarith
    · nlinarith

/-- the error of the float sum, in absolute form: `|s̃ − SS| ≤ ((1+u)ⁿ − 1) · SS` -/
theorem foldl_add_abs {val : F → ℚ} {u : ℚ} (h : RoundLaws val u) (xs : List F) (hx : ∀ x, x ∈ xs → 0 ≤ val x) :
    |val (xs.foldl add zero) - (xs.map val).sum| ≤ ((1 + u) ^ xs.length - 1) * (xs.map val).sum := by
  obtain ⟨a1, a2⟩ := foldl_add_bounds h xs zero (by rw [h.zero]) hx
  rw [h.zero, zero_add] at a1 a2
  have hS : 0 ≤ (xs.map val).sum := List.sum_nonneg (by
    intro a ha
    obtain ⟨y, hy, rfl⟩ := List.mem_map.mp ha
    exact hx y hy)
  obtain ⟨p1, _⟩ := pow_sum_ge_two u h.u_nonneg h.u_le_one xs.length
  rw [abs_le]
  constructor <;> nlinarith

/-- the dis-max value under rounding: with `E = (1+u)ⁿ − 1`, `a = u(1+E) + E`, `b = u(1+a) + a`,
`c = u(1+b) + b` (so `c ≈ (n + 3)·u`), a tie breaker in `[0, 1]` and non-negative clause scores,
`|computed − (max + (SS − max)·tie)| ≤ c · SS` -/
theorem dismax_round_bound {val : F → ℚ} {u : ℚ} (h : RoundLawsMax val u) (xs : List F) (tie : F)
    (hx : ∀ x, x ∈ xs → 0 ≤ val x) (ht0 : 0 ≤ val tie) (ht1 : val tie ≤ 1) :
    let M := (xs.map val).foldl (fun a x => Max.max x a) 0
    let SS := (xs.map val).sum
    let E := (1 + u) ^ xs.length - 1
    let a := u * (1 + E) + E
    let b := u * (1 + a) + a
    let c := u * (1 + b) + b
    |val (add (xs.foldl (fun a x => Arith.max x a) zero)
          (mul (sub (xs.foldl add zero) (xs.foldl (fun a x => Arith.max x a) zero)) tie))
        - (M + (SS - M) * val tie)| ≤ c * SS := by
  intro M SS E a b c
  have hu := h.u_nonneg
  have hu1 := h.u_le_one
  have hvals : ∀ v, v ∈ xs.map val → 0 ≤ v := by
    intro v hv
    obtain ⟨y, hy, rfl⟩ := List.mem_map.mp hv
    exact hx y hy
  have hS : 0 ≤ SS := List.sum_nonneg hvals
  -- the maximum is exact
  have hm : val (xs.foldl (fun a x => Arith.max x a) zero) = M := by
    rw [foldl_max_val h.max_exact, h.zero]
  obtain ⟨hM0, hMS⟩ := foldl_max_bounds (xs.map val) 0 (le_refl _) hvals
  rw [zero_add] at hMS
  have hM0' : 0 ≤ M := hM0
  have hMS' : M ≤ SS := hMS
  -- the sum
  have hs := foldl_add_abs h.toRoundLaws xs hx
  have hE : 0 ≤ E := by
    have : (1 : ℚ) ≤ (1 + u) ^ xs.length := one_le_pow₀ (by linarith)
    show 0 ≤ (1 + u) ^ xs.length - 1
    linarith
  generalize hmm : xs.foldl (fun a x => Arith.max x a) zero = mF at hm
  generalize hss : xs.foldl add zero = sF at *
  have hs' : |val sF - SS| ≤ E * SS := hs
  -- the subtraction
  have hd := h.sub_err sF mF
  rw [hm] at hd
  have hsm : |val sF - M| ≤ (SS - M) + E * SS := by
    have : val sF - M = (val sF - SS) + (SS - M) := by ring
    rw [this]
    refine le_trans (abs_add_le _ _) ?_
    rw [abs_of_nonneg (by linarith : 0 ≤ SS - M)]
    linarith
  have hdS : |val (sub sF mF) - (SS - M)| ≤ a * SS := by
    have : val (sub sF mF) - (SS - M) = (val (sub sF mF) - (val sF - M)) + (val sF - SS) := by ring
    rw [this]
    refine le_trans (abs_add_le _ _) ?_
    have h1 : u * |val sF - M| ≤ u * ((SS - M) + E * SS) := mul_le_mul_of_nonneg_left hsm hu
    have h2 : u * ((SS - M) + E * SS) ≤ u * (SS + E * SS) := mul_le_mul_of_nonneg_left (by linarith) hu
    show _ ≤ (u * (1 + E) + E) * SS
    nlinarith
  have ha0 : 0 ≤ a := by show 0 ≤ u * (1 + E) + E; positivity
  generalize hdd : sub sF mF = dF at hdS
  have hdabs : |val dF| ≤ SS + a * SS := by
    have : val dF = (val dF - (SS - M)) + (SS - M) := by ring
    rw [this]
    refine le_trans (abs_add_le _ _) ?_
    rw [abs_of_nonneg (by linarith : 0 ≤ SS - M)]
    linarith
  -- the multiplication by the tie breaker
  have hp := h.mul_err dF tie
  have hpS : |val (mul dF tie) - (SS - M) * val tie| ≤ b * SS := by
    have : val (mul dF tie) - (SS - M) * val tie
        = (val (mul dF tie) - val dF * val tie) + (val dF - (SS - M)) * val tie := by ring
    rw [this]
    refine le_trans (abs_add_le _ _) ?_
    rw [abs_mul, abs_of_nonneg ht0] at *
    have h1 : u * (|val dF| * val tie) ≤ u * ((SS + a * SS) * 1) :=
      mul_le_mul_of_nonneg_left (mul_le_mul hdabs ht1 ht0 (by nlinarith)) hu
    have h2 : |val dF - (SS - M)| * val tie ≤ (a * SS) * 1 :=
      mul_le_mul hdS ht1 ht0 (by nlinarith)
    show _ ≤ (u * (1 + a) + a) * SS
    nlinarith
  have hb0 : 0 ≤ b := by show 0 ≤ u * (1 + a) + a; positivity
  generalize hpp : mul dF tie = pF at hpS
  have hpabs : |M + val pF| ≤ SS + b * SS := by
    have : M + val pF = (val pF - (SS - M) * val tie) + (M + (SS - M) * val tie) := by ring
    rw [this]
    refine le_trans (abs_add_le _ _) ?_
    have hnn : 0 ≤ M + (SS - M) * val tie := by nlinarith
    have hle : M + (SS - M) * val tie ≤ SS := by nlinarith
    rw [abs_of_nonneg hnn]
    linarith
  -- the final addition
  have hr := h.add_err mF pF
  rw [hm] at hr
  have : val (add mF pF) - (M + (SS - M) * val tie)
      = (val (add mF pF) - (M + val pF)) + (val pF - (SS - M) * val tie) := by ring
  rw [this]
  refine le_trans (abs_add_le _ _) ?_
  have h1 : u * |M + val pF| ≤ u * (SS + b * SS) := mul_le_mul_of_nonneg_left hpabs hu
  show _ ≤ (u * (1 + b) + b) * SS
  nlinarith

end TantivyModel.Bm25
