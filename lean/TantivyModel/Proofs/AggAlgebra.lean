import TantivyModel.Model.AggMerge
/-!
C14 helper lemmas: the merge algebra (options with min/max, hulls, key maps with pointwise
merge, metric tuples, whole trees by induction on the request), folds over commutative monoids,
merge trees.
-/
namespace TantivyModel.Agg

/-! ### min / max / hull -/

theorem optMin_comm (a b : Option Int) : optMin a b = optMin b a := by
  cases a <;> cases b <;> simp [optMin]
  rename_i a b; by_cases h : a ≤ b <;> by_cases h' : b ≤ a <;> simp [h, h'] <;> omega

theorem optMin_assoc (a b c : Option Int) : optMin (optMin a b) c = optMin a (optMin b c) := by
  cases a <;> cases b <;> cases c <;> simp [optMin]
  rename_i a b c
  by_cases h1 : a ≤ b <;> by_cases h2 : b ≤ c <;> by_cases h3 : a ≤ c <;> simp [h1, h2, h3] <;> omega

theorem optMax_comm (a b : Option Int) : optMax a b = optMax b a := by
  cases a <;> cases b <;> simp [optMax]
  rename_i a b; by_cases h : a ≤ b <;> by_cases h' : b ≤ a <;> simp [h, h'] <;> omega

theorem optMax_assoc (a b c : Option Int) : optMax (optMax a b) c = optMax a (optMax b c) := by
  cases a <;> cases b <;> cases c <;> simp [optMax]
  rename_i a b c
  by_cases h1 : a ≤ b <;> by_cases h2 : b ≤ c <;> by_cases h3 : a ≤ c <;> simp [h1, h2, h3] <;> omega

theorem optMin_none (a : Option Int) : optMin Option.none a = a := by cases a <;> rfl
theorem optMax_none (a : Option Int) : optMax Option.none a = a := by cases a <;> rfl

theorem hullMerge_comm (a b : Option (Int × Int)) : hullMerge a b = hullMerge b a := by
  cases a <;> cases b <;> simp [hullMerge]
  rename_i a b; obtain ⟨a1, a2⟩ := a; obtain ⟨b1, b2⟩ := b
  simp only [hullMerge, Option.some.injEq, Prod.mk.injEq]
  constructor
  · by_cases h : a1 ≤ b1 <;> by_cases h' : b1 ≤ a1 <;> simp [h, h'] <;> omega
  · by_cases h : a2 ≤ b2 <;> by_cases h' : b2 ≤ a2 <;> simp [h, h'] <;> omega

theorem hullMerge_assoc (a b c : Option (Int × Int)) :
    hullMerge (hullMerge a b) c = hullMerge a (hullMerge b c) := by
  cases a <;> cases b <;> cases c <;> simp [hullMerge]
  rename_i a b c; obtain ⟨a1, a2⟩ := a; obtain ⟨b1, b2⟩ := b; obtain ⟨c1, c2⟩ := c
  simp only [hullMerge, Option.some.injEq, Prod.mk.injEq]
  constructor
  · by_cases h1 : a1 ≤ b1 <;> by_cases h2 : b1 ≤ c1 <;> by_cases h3 : a1 ≤ c1 <;>
      simp [h1, h2, h3] <;> omega
  · by_cases h1 : a2 ≤ b2 <;> by_cases h2 : b2 ≤ c2 <;> by_cases h3 : a2 ≤ c2 <;>
      simp [h1, h2, h3] <;> omega

theorem hullMerge_none (a : Option (Int × Int)) : hullMerge Option.none a = a := by
  cases a <;> rfl

/-! ### metric tuples -/

section acc
variable {M : Type} [AddOp M] [LawfulAddOp M]

theorem Acc.merge_comm (a b : Acc M) : Acc.merge a b = Acc.merge b a := by
  simp only [Acc.merge, Nat.add_comm a.count, LawfulAddOp.add_comm a.sum,
    LawfulAddOp.add_comm a.sumsq, optMin_comm a.min, optMax_comm a.max]

theorem Acc.merge_assoc (a b c : Acc M) :
    Acc.merge (Acc.merge a b) c = Acc.merge a (Acc.merge b c) := by
  simp only [Acc.merge, Nat.add_assoc, LawfulAddOp.add_assoc, optMin_assoc, optMax_assoc]

theorem Acc.empty_merge (a : Acc M) : Acc.merge Acc.empty a = a := by
  cases a
  simp [Acc.merge, Acc.empty, LawfulAddOp.zero_add, optMin_none, optMax_none]

end acc

/-! ### key maps with pointwise merge -/

section kmap
variable {V : Type}

theorem optMerge_comm (f : V → V → V) (hf : ∀ a b, f a b = f b a) (a b : Option V) :
    optMerge f a b = optMerge f b a := by
  cases a <;> cases b <;> simp [optMerge, hf]

theorem optMerge_assoc (f : V → V → V) (hf : ∀ a b c, f (f a b) c = f a (f b c))
    (a b c : Option V) : optMerge f (optMerge f a b) c = optMerge f a (optMerge f b c) := by
  cases a <;> cases b <;> cases c <;> simp [optMerge, hf]

theorem optMerge_none (f : V → V → V) (a : Option V) : optMerge f Option.none a = a := by
  cases a <;> rfl

theorem KMap.merge_comm (f : V → V → V) (hf : ∀ a b, f a b = f b a) (a b : KMap V) :
    KMap.merge f a b = KMap.merge f b a := by
  simp only [KMap.merge, hullMerge_comm a.hull, KMap.mk.injEq, true_and]
  funext k; exact optMerge_comm f hf _ _

theorem KMap.merge_assoc (f : V → V → V) (hf : ∀ a b c, f (f a b) c = f a (f b c))
    (a b c : KMap V) : KMap.merge f (KMap.merge f a b) c = KMap.merge f a (KMap.merge f b c) := by
  simp only [KMap.merge, hullMerge_assoc, KMap.mk.injEq, true_and]
  funext k; exact optMerge_assoc f hf _ _ _

theorem KMap.empty_merge (f : V → V → V) (a : KMap V) : KMap.merge f KMap.empty a = a := by
  cases a
  simp only [KMap.merge, KMap.empty, hullMerge_none, KMap.mk.injEq, true_and]
  funext k; exact optMerge_none f _

theorem entryMerge_comm (f : V → V → V) (hf : ∀ a b, f a b = f b a) (a b : Nat × V) :
    entryMerge f a b = entryMerge f b a := by
  simp [entryMerge, Nat.add_comm a.1, hf a.2]

theorem entryMerge_assoc (f : V → V → V) (hf : ∀ a b c, f (f a b) c = f a (f b c))
    (a b c : Nat × V) : entryMerge f (entryMerge f a b) c = entryMerge f a (entryMerge f b c) := by
  simp [entryMerge, Nat.add_assoc, hf]

end kmap

/-! ### top hits -/

section hits
variable {desc : Bool} {k : Nat}

theorem Hits.merge_comm (a b : Hits desc k) : Hits.merge a b = Hits.merge b a := by
  apply Hits.ext'
  show (isort (hitLe desc) (a.list ++ b.list)).take k = (isort (hitLe desc) (b.list ++ a.list)).take k
  rw [isort_eq_of_perm (hitLe desc) (hitLe_total desc) (hitLe_trans desc) (hitLe_antisymm desc)
    (List.perm_append_comm (l₁ := a.list) (l₂ := b.list))]

theorem Hits.merge_assoc (a b c : Hits desc k) :
    Hits.merge (Hits.merge a b) c = Hits.merge a (Hits.merge b c) := by
  apply Hits.ext'
  show (isort (hitLe desc) ((isort (hitLe desc) (a.list ++ b.list)).take k ++ c.list)).take k
    = (isort (hitLe desc) (a.list ++ (isort (hitLe desc) (b.list ++ c.list)).take k)).take k
  rw [topk_topk_append (hitLe desc) (hitLe_total desc) (hitLe_trans desc) (hitLe_antisymm desc),
    topk_append_topk (hitLe desc) (hitLe_total desc) (hitLe_trans desc) (hitLe_antisymm desc),
    List.append_assoc]

theorem Hits.empty_merge (a : Hits desc k) : Hits.merge Hits.empty a = a := by
  apply Hits.ext'
  show (isort (hitLe desc) ([] ++ a.list)).take k = a.list
  rw [List.nil_append,
    isort_of_sorted (hitLe desc) (hitLe_total desc) (hitLe_trans desc) (hitLe_antisymm desc) a.sorted,
    List.take_of_length_le a.short]

/-- the best `k` of a concatenation from the best `k` of the parts -/
theorem Hits.ofList_append (x y : List HitE) :
    (Hits.ofList (x ++ y) : Hits desc k) = Hits.merge (Hits.ofList x) (Hits.ofList y) := by
  apply Hits.ext'
  show (isort (hitLe desc) (x ++ y)).take k
    = (isort (hitLe desc) ((isort (hitLe desc) x).take k ++ (isort (hitLe desc) y).take k)).take k
  rw [topk_topk_append (hitLe desc) (hitLe_total desc) (hitLe_trans desc) (hitLe_antisymm desc),
    topk_append_topk (hitLe desc) (hitLe_total desc) (hitLe_trans desc) (hitLe_antisymm desc)]

end hits

/-! ### whole trees -/

section tree
variable {M : Type} [AddOp M] [LawfulAddOp M]

theorem merge_comm : ∀ (r : Req) (x y : Inter M r), merge r x y = merge r y x
  | .none, _, _ => rfl
  | .both a b, x, y => by
    show (merge a x.1 y.1, merge b x.2 y.2) = (merge a y.1 x.1, merge b y.2 x.2)
    rw [merge_comm a, merge_comm b]
  | .metric _ _, x, y => Acc.merge_comm x y
  | .terms _ sub, x, y => by
    show TermsI.mk _ _ _ = TermsI.mk _ _ _
    rw [KMap.merge_comm _ (entryMerge_comm _ (merge_comm sub)), Nat.add_comm x.other,
      Nat.add_comm x.err]
  | .hist _ sub, x, y => KMap.merge_comm _ (entryMerge_comm _ (merge_comm sub)) x y
  | .range _ _ sub, x, y => KMap.merge_comm _ (entryMerge_comm _ (merge_comm sub)) x y
  | .filter _ _ sub, x, y => by
    show (x.1 + y.1, merge sub x.2 y.2) = (y.1 + x.1, merge sub y.2 x.2)
    rw [merge_comm sub, Nat.add_comm]
  | .topHits _ _ _ _, x, y => Hits.merge_comm x y
  | .composite _ _ _ sub, x, y => KMap.merge_comm _ (entryMerge_comm _ (merge_comm sub)) x y

theorem merge_assoc : ∀ (r : Req) (x y z : Inter M r),
    merge r (merge r x y) z = merge r x (merge r y z)
  | .none, _, _, _ => rfl
  | .both a b, x, y, z => by
    show (merge a (merge a x.1 y.1) z.1, merge b (merge b x.2 y.2) z.2)
      = (merge a x.1 (merge a y.1 z.1), merge b x.2 (merge b y.2 z.2))
    rw [merge_assoc a, merge_assoc b]
  | .metric _ _, x, y, z => Acc.merge_assoc x y z
  | .terms _ sub, x, y, z => by
    show TermsI.mk _ _ _ = TermsI.mk _ _ _
    congr 1
    · exact KMap.merge_assoc _ (entryMerge_assoc _ (merge_assoc sub)) _ _ _
    · exact Nat.add_assoc _ _ _
    · exact Nat.add_assoc _ _ _
  | .hist _ sub, x, y, z => KMap.merge_assoc _ (entryMerge_assoc _ (merge_assoc sub)) x y z
  | .range _ _ sub, x, y, z => KMap.merge_assoc _ (entryMerge_assoc _ (merge_assoc sub)) x y z
  | .filter _ _ sub, x, y, z => by
    show ((x.1 + y.1) + z.1, merge sub (merge sub x.2 y.2) z.2)
      = (x.1 + (y.1 + z.1), merge sub x.2 (merge sub y.2 z.2))
    rw [merge_assoc sub, Nat.add_assoc]
  | .topHits _ _ _ _, x, y, z => Hits.merge_assoc x y z
  | .composite _ _ _ sub, x, y, z => KMap.merge_assoc _ (entryMerge_assoc _ (merge_assoc sub)) x y z

theorem empty_merge : ∀ (r : Req) (x : Inter M r), merge r (empty r) x = x
  | .none, _ => rfl
  | .both a b, x => by
    show (merge a (empty a) x.1, merge b (empty b) x.2) = x
    rw [empty_merge a, empty_merge b]
  | .metric _ _, x => Acc.empty_merge x
  | .terms _ sub, x => by
    show TermsI.mk _ _ _ = x
    cases x
    simp only [empty, KMap.empty_merge, Nat.zero_add]
  | .hist _ _, x => KMap.empty_merge _ x
  | .range _ _ _, x => KMap.empty_merge _ x
  | .filter _ _ sub, x => by
    show (0 + x.1, merge sub (empty sub) x.2) = x
    rw [empty_merge sub, Nat.zero_add]
  | .topHits _ _ _ _, x => Hits.empty_merge x
  | .composite _ _ _ _, x => KMap.empty_merge _ x

theorem merge_empty (r : Req) (x : Inter M r) : merge r x (empty r) = x := by
  rw [merge_comm, empty_merge]

end tree

/-! ### range buckets -/

theorem range_split (cuts : List Int) (hs : cuts.Pairwise (· < ·)) (v : Int) :
    cuts.take (rangeIdx cuts v) = cuts.filter (· ≤ v) ∧ ∀ c ∈ cuts.drop (rangeIdx cuts v), v < c := by
  induction cuts with
  | nil => simp [rangeIdx]
  | cons c cs ih =>
    obtain ⟨hc, hcs⟩ := List.pairwise_cons.1 hs
    obtain ⟨ih1, ih2⟩ := ih hcs
    by_cases h : c ≤ v
    · have : rangeIdx (c :: cs) v = rangeIdx cs v + 1 := by simp [rangeIdx, h]
      rw [this]
      simp only [List.take_succ_cons, List.drop_succ_cons, List.filter_cons, h, decide_true, if_true]
      exact ⟨by rw [ih1], ih2⟩
    · have hnil : cs.filter (· ≤ v) = [] := by
        rw [List.filter_eq_nil_iff]; intro a ha; have := hc a ha; simp; omega
      have : rangeIdx (c :: cs) v = 0 := by simp [rangeIdx, h, hnil]
      rw [this]
      simp only [List.take_zero, List.drop_zero, List.filter_cons, h, decide_false]
      refine ⟨by simp [hnil], ?_⟩
      intro a ha
      rcases List.mem_cons.1 ha with rfl | ha
      · omega
      · have := hc a ha; omega

/-! ### folds over a commutative monoid, merge trees -/

/-- a merge schedule: which fruits are merged with which, in what grouping -/
inductive MTree (α : Type)
  | nil
  | leaf (x : α)
  | node (l r : MTree α)

def MTree.eval {α : Type} (op : α → α → α) (e : α) : MTree α → α
  | .nil => e
  | .leaf x => x
  | .node l r => op (l.eval op e) (r.eval op e)

def MTree.leaves {α : Type} : MTree α → List α
  | .nil => []
  | .leaf x => [x]
  | .node l r => l.leaves ++ r.leaves

section fold
variable {α : Type} (op : α → α → α) (e : α)
  (hassoc : ∀ a b c, op (op a b) c = op a (op b c)) (hcomm : ∀ a b, op a b = op b a)
  (hunit : ∀ a, op e a = a)
include hassoc hcomm hunit

theorem foldl_op_init (x : α) (l : List α) : l.foldl op x = op x (l.foldl op e) := by
  induction l generalizing x with
  | nil => simp only [List.foldl]; rw [hcomm, hunit]
  | cons a l ih =>
    simp only [List.foldl]
    rw [ih (op x a), ih (op e a), hunit, hassoc]

theorem foldl_op_append (a b : List α) :
    (a ++ b).foldl op e = op (a.foldl op e) (b.foldl op e) := by
  rw [List.foldl_append, foldl_op_init op e hassoc hcomm hunit]

theorem foldl_op_perm {l₁ l₂ : List α} (h : l₁.Perm l₂) (x : α) :
    l₁.foldl op x = l₂.foldl op x := by
  induction h generalizing x with
  | nil => rfl
  | cons a _ ih => simp only [List.foldl]; exact ih _
  | swap a b l =>
    simp only [List.foldl]
    rw [hassoc x b a, hcomm b a, ← hassoc x a b]
  | trans _ _ ih₁ ih₂ => rw [ih₁, ih₂]

theorem MTree.eval_eq_fold (t : MTree α) : t.eval op e = t.leaves.foldl op e := by
  induction t with
  | nil => rfl
  | leaf x => simp only [MTree.eval, MTree.leaves, List.foldl, hunit]
  | node l r ihl ihr =>
    simp only [MTree.eval, MTree.leaves]
    rw [foldl_op_append op e hassoc hcomm hunit, ihl, ihr]

/-- folding the images of the parts = the image of the concatenation, for a monoid
homomorphism `g` from lists -/
theorem fold_parts (g : List β → α) (hnil : g [] = e)
    (happ : ∀ a b, g (a ++ b) = op (g a) (g b)) (parts : List (List β)) :
    (parts.map g).foldl op e = g parts.flatten := by
  induction parts with
  | nil => simp [hnil]
  | cons p ps ih =>
    simp only [List.map_cons, List.foldl, List.flatten_cons]
    rw [foldl_op_init op e hassoc hcomm hunit, hunit, ih, happ]

end fold

section collect
variable {M : Type} [AddOp M] [LawfulAddOp M]

theorem collect_nil (r : Req) : collect (M := M) r [] = empty r := rfl

theorem collect_append (r : Req) (a b : List Doc) :
    collect (M := M) r (a ++ b) = merge r (collect r a) (collect r b) := by
  unfold collect
  rw [List.foldl_append]
  induction b generalizing a with
  | nil => simp only [List.foldl]; rw [merge_empty]
  | cons d ds ih =>
    simp only [List.foldl]
    have h1 := ih (a ++ [d])
    simp only [List.foldl_append, List.foldl] at h1
    rw [h1]
    have h2 := ih ([d] : List Doc)
    simp only [List.foldl] at h2
    rw [empty_merge] at h2 ⊢
    rw [h2, merge_assoc]

end collect

end TantivyModel.Agg
