import TantivyModel.Proofs.GrammarCharsEsc
namespace TantivyModel.Grammar.Chars
open TantivyModel.Grammar

/-! ## `*`, `name:*`, and the elastic ranges `>=a`, `<=a`, `<a`, `>a` -/

theorem allAhead_rem (t : Str) (ht : Rem t) : allAhead t = true := by
  rcases ht with rfl | ⟨t', rfl, _⟩ | ⟨t', rfl⟩
  · rfl
  · simp [allAhead, isNomSpace]
  · simp [allAhead]

theorem existsAhead_rem (t : Str) (ht : Rem t) : existsAhead t = true := by
  rcases ht with rfl | ⟨t', rfl, _⟩ | ⟨t', rfl⟩
  · rfl
  · have : isUniSpace ' ' = true := by decide
    simp [existsAhead, this]
  · simp [existsAhead, escapeInWord]

/-- `*` (all documents) is a good operand -/
theorem goodOpd_all (g : Bool) : GoodOpd g allOpd := by
  refine ⟨⟨'*', [], rfl, by decide, by decide, by decide, by decide, by decide⟩, ?_, ?_, ?_⟩
  · intro t _
    simp [allOpd, binaryOperand, tag, List.isPrefixOf]
  · intro t ht f hf
    obtain ⟨f', rfl⟩ : ∃ f', f = f' + 1 := ⟨f - 1, by simp [allOpd] at hf; omega⟩
    have ha := allAhead_rem t ht
    show pLeaf g (f' + 1) ('*' :: t) = .ok (.leaf .all) t
    unfold pLeaf
    simp [R.orElse, ha]
  · simp [allOpd]

theorem leafAlt_star (t : Str) (ht : Rem t) : leafAlt ('*' :: t) = some (.exists [], t) := by
  have h2 : range ('*' :: t) = none := by
    simp [range, skip0, List.dropWhile, isNomSpace, tag, List.isPrefixOf]
  have h3 : set ('*' :: t) = none := by
    simp [set, skip0, List.dropWhile, isNomSpace, tag, List.isPrefixOf]
  have h4 : exists_ ('*' :: t) = some t := by
    simp [exists_, skip0, List.dropWhile, isNomSpace, existsAhead_rem t ht]
  simp [leafAlt, h2, h3, h4]

/-- `name:*` (the field exists) is a good operand -/
theorem goodOpd_exists (g : Bool) (f : Str) (hf : PlainWord f) : GoodOpd g (existsOpd f) := by
  obtain ⟨c, r, rfl⟩ := List.exists_cons_of_ne_nil hf.ne
  have hc : plain c = true := hf.all c (by simp)
  refine ⟨⟨c, r ++ [':', '*'], rfl, (plain_not_space c hc).2, plain_ne c ':' hc (by decide),
    plain_ne c '+' hc (by decide), plain_ne c '-' hc (by decide), plain_ne c ')' hc (by decide)⟩, ?_, ?_, ?_⟩
  · intro t _
    have e : (existsOpd (c :: r)).text ++ t = (c :: r) ++ ':' :: ('*' :: t) := by simp [existsOpd]
    rw [e]
    exact binaryOperand_field (c :: r) _ hf
  · intro t ht fu hfu
    obtain ⟨f', rfl⟩ : ∃ f', fu = f' + 1 := ⟨fu - 1, by simp [existsOpd] at hfu; omega⟩
    have e : (existsOpd (c :: r)).text ++ t = c :: (r ++ ':' :: ('*' :: t)) := by simp [existsOpd]
    rw [e]
    refine pLeaf_field g f' c r _ hf _ t ?_
    rw [plainLiteral_eq, fieldName_field c r ('*' :: t) hf (by simp [skip0, List.dropWhile, isNomSpace])]
    simp [leafAlt_star t ht, setField, existsOpd]
  · simp [existsOpd]; omega

theorem relStop_rem (t : Str) (ht : Rem t) : RelStop t := by
  intro d x' h
  rcases ht with rfl | ⟨t', rfl, _⟩ | ⟨t', rfl⟩
  · cases h
  · rw [← (List.cons.inj h).1]; decide
  · rw [← (List.cons.inj h).1]; decide

theorem fieldRest_eq_plain_rem (w t : Str) (hw : ∀ d ∈ w, plain d = true) (ht : Rem t) :
    fieldRest ('=' :: (w ++ t)) = ('=' :: w, t) := by
  have ih' := fieldRest_plain_rem w t hw ht
  unfold fieldRest
  split
  · rename_i heq; cases heq
  · rename_i heq; exact absurd (List.cons.inj heq).1 (by decide)
  · rename_i heq; exact absurd (List.cons.inj heq).1 (by decide)
  · rename_i heq
    obtain ⟨rfl, rfl⟩ := List.cons.inj heq
    simp [specialChars, ih']

theorem no_colon_rem (t : Str) (ht : Rem t) : ∀ r', skip0 t ≠ ':' :: r' := by
  intro r' h
  rcases ht with rfl | ⟨t', rfl, hcol⟩ | ⟨t', rfl⟩
  · simp [skip0] at h
  · have e : skip0 (' ' :: t') = skip0 t' := by simp [skip0, List.dropWhile, isNomSpace]
    rw [e] at h
    exact hcol r' h
  · simp [skip0, List.dropWhile, isNomSpace] at h

theorem fieldName_elastic (k : Nat) (c : Char) (r t : Str) (hw : ∀ d ∈ c :: r, plain d = true) (ht : Rem t) :
    fieldName (signText k ++ c :: (r ++ t)) = none := by
  have hnc := no_colon_rem t ht
  have h1 := fieldRest_plain_rem (c :: r) t hw ht
  have h2 := fieldRest_eq_plain_rem (c :: r) t hw ht
  simp only [List.cons_append] at h1 h2
  have fin : ∀ n, (match skip0 t with | ':' :: r' => some (n, skip0 r') | _ => (none : Option (Str × Str))) = none := by
    intro n
    cases hsk : skip0 t with
    | nil => rfl
    | cons d rest =>
      have hd : d ≠ ':' := fun e => hnc rest (by rw [hsk, e])
      split
      · rename_i heq; exact absurd (List.cons.inj heq).1 hd
      · rfl
  match k with
  | 0 => simp [signText, fieldName, specialChars, h2, fin]
  | 1 => simp [signText, fieldName, specialChars, h2, fin]
  | 2 => simp [signText, fieldName, specialChars, h1, fin]
  | _ + 3 => simp [signText, fieldName, specialChars, h1, fin]

theorem range_elastic (k : Nat) (c : Char) (r t : Str) (hw : ∀ d ∈ c :: r, plain d = true) (ht : Rem t) :
    range (signText k ++ c :: (r ++ t)) = some (.range none (signBounds k (c :: r)).1 (signBounds k (c :: r)).2, t) := by
  have hc := hw c (by simp)
  have hv := rangeTermVal_plain c r t hw (relStop_rem t ht)
  have hsk : skip0 (c :: (r ++ t)) = c :: (r ++ t) := by simp [skip0, List.dropWhile, (plain_not_space c hc).2]
  have hne : c ≠ '=' := plain_ne c '=' hc (by decide)
  generalize hY : c :: (r ++ t) = Y at hv hsk
  have hne' : ∀ Z, Y ≠ '=' :: Z := by
    intro Z h; rw [← hY] at h; exact hne (List.cons.inj h).1
  have hpre : ['='].isPrefixOf Y = false := by
    rw [← hY]; simp [List.isPrefixOf, Ne.symm hne]
  simp only [skip0] at hsk
  match k with
  | 0 => simp [signText, signBounds, range, skip0, List.dropWhile, isNomSpace, tag, List.isPrefixOf, hsk, hv]
  | 1 => simp [signText, signBounds, range, skip0, List.dropWhile, isNomSpace, tag, List.isPrefixOf, hsk, hv]
  | 2 => simp [signText, signBounds, range, skip0, List.dropWhile, isNomSpace, tag, List.isPrefixOf, hpre, hsk, hv]
  | _ + 3 => simp [signText, signBounds, range, skip0, List.dropWhile, isNomSpace, tag, List.isPrefixOf, hpre, hsk, hv]

theorem signText_head (k : Nat) : ∃ s rest, signText k = s :: rest ∧ (s = '>' ∨ s = '<') := by
  match k with
  | 0 => exact ⟨'>', ['='], rfl, Or.inl rfl⟩
  | 1 => exact ⟨'<', ['='], rfl, Or.inr rfl⟩
  | 2 => exact ⟨'<', [], rfl, Or.inr rfl⟩
  | _ + 3 => exact ⟨'>', [], rfl, Or.inl rfl⟩

theorem plainLiteral_elastic (g : Bool) (k : Nat) (c : Char) (r t : Str) (hw : ∀ d ∈ c :: r, plain d = true) (ht : Rem t) :
    plainLiteral g (signText k ++ c :: (r ++ t))
      = .ok (.leaf (.range none (signBounds k (c :: r)).1 (signBounds k (c :: r)).2)) t := by
  simp [plainLiteral, fieldName_elastic k c r t hw ht, range_elastic k c r t hw ht, setField]

theorem pLeaf_sign (g : Bool) (f' : Nat) (k : Nat) (x : Str) (a : Ast CLeaf) (t : Str)
    (hp : plainLiteral g (signText k ++ x) = .ok a t) :
    pLeaf g (f' + 1) (signText k ++ x) = .ok a t := by
  obtain ⟨s, rest, hs, hsv⟩ := signText_head k
  rw [hs] at hp ⊢
  simp only [List.cons_append] at hp ⊢
  unfold pLeaf
  rcases hsv with rfl | rfl
  · simp [R.orElse, tag, List.isPrefixOf, hp]
  · simp [R.orElse, tag, List.isPrefixOf, hp]

/-- an elastic range is a good operand -/
theorem goodOpd_elastic (g : Bool) (k : Nat) (w : Str) (hw : PlainBound w) : GoodOpd g (elasticOpd k w) := by
  obtain ⟨c, r, rfl⟩ := List.exists_cons_of_ne_nil hw.1
  obtain ⟨s, rest, hs, hsv⟩ := signText_head k
  refine ⟨⟨s, rest ++ c :: r, by simp [elasticOpd, hs], ?_⟩, ?_, ?_, ?_⟩
  · rcases hsv with rfl | rfl <;> decide
  · intro t _
    have e : (elasticOpd k (c :: r)).text ++ t = s :: (rest ++ c :: (r ++ t)) := by simp [elasticOpd, hs]
    rw [e]
    rcases hsv with rfl | rfl <;> simp [binaryOperand, tag, List.isPrefixOf]
  · intro t ht f hf
    obtain ⟨f', rfl⟩ : ∃ f', f = f' + 1 := ⟨f - 1, by simp [elasticOpd] at hf; omega⟩
    have e : (elasticOpd k (c :: r)).text ++ t = signText k ++ c :: (r ++ t) := by simp [elasticOpd]
    rw [e]
    exact pLeaf_sign g f' k _ _ t (plainLiteral_elastic g k c r t hw.2 ht)
  · simp [elasticOpd]; omega

/-- `name:>=a` etc. is a good operand -/
theorem goodOpd_fieldElastic (g : Bool) (f : Str) (k : Nat) (w : Str) (hf : PlainWord f) (hw : PlainBound w) :
    GoodOpd g (fieldElasticOpd f k w) := by
  obtain ⟨c, r, rfl⟩ := List.exists_cons_of_ne_nil hw.1
  obtain ⟨cf, rf, rfl⟩ := List.exists_cons_of_ne_nil hf.ne
  have hc : plain cf = true := hf.all cf (by simp)
  refine ⟨⟨cf, _, rfl, (plain_not_space cf hc).2, plain_ne cf ':' hc (by decide),
    plain_ne cf '+' hc (by decide), plain_ne cf '-' hc (by decide), plain_ne cf ')' hc (by decide)⟩, ?_, ?_, ?_⟩
  · intro t _
    have e : (fieldElasticOpd (cf :: rf) k (c :: r)).text ++ t = (cf :: rf) ++ ':' :: (signText k ++ c :: (r ++ t)) := by
      simp [fieldElasticOpd]
    rw [e]
    exact binaryOperand_field (cf :: rf) _ hf
  · intro t ht fu hfu
    obtain ⟨f', rfl⟩ : ∃ f', fu = f' + 1 := ⟨fu - 1, by simp [fieldElasticOpd] at hfu; omega⟩
    have e : (fieldElasticOpd (cf :: rf) k (c :: r)).text ++ t = cf :: (rf ++ ':' :: (signText k ++ c :: (r ++ t))) := by
      simp [fieldElasticOpd]
    rw [e]
    have hp := plainLiteral_elastic g k c r t hw.2 ht
    have hfn := fieldName_elastic k c r t hw.2 ht
    obtain ⟨s, rest, hs, hsv⟩ := signText_head k
    have hsk : skip0 (signText k ++ c :: (r ++ t)) = signText k ++ c :: (r ++ t) := by
      rw [hs]
      rcases hsv with rfl | rfl <;> simp [skip0, List.dropWhile, isNomSpace]
    generalize signText k ++ c :: (r ++ t) = y at hp hfn hsk
    exact pLeaf_field g f' cf rf _ hf _ t (plainLiteral_field_range g cf rf _ hf hsk hfn _ _ t hp)
  · simp [fieldElasticOpd]; omega

end TantivyModel.Grammar.Chars
