import TantivyModel.Model.FastRange
set_option linter.unusedSimpArgs false
set_option linter.unusedVariables false
namespace TantivyModel.FastRange
open TantivyModel.QuerySem

theorem u64max : U64MAX = 18446744073709551615 := by decide

def lowerHolds (b : BndN) (x : Nat) : Bool :=
  match b with
  | .incl n => decide (n ≤ x)
  | .excl n => decide (n < x)
  | .unb => true

def upperHolds (b : BndN) (x : Nat) : Bool :=
  match b with
  | .incl n => decide (x ≤ n)
  | .excl n => decide (x < n)
  | .unb => true

theorem inRangeN_eq (lo hi : BndN) (x : Nat) : inRangeN lo hi x = (lowerHolds lo x && upperHolds hi x) := by
  cases lo <;> cases hi <;> rfl

theorem startOf_spec (lo : BndN) (colMin v : Nat) (hmin : colMin ≤ v) (hv : v ≤ U64MAX) :
    match startOf lo colMin with
    | none => lowerHolds lo v = false
    | some st => (lowerHolds lo v = true ↔ st ≤ v) ∧ colMin ≤ st := by
  have hU := u64max
  cases lo with
  | unb => simp [startOf, lowerHolds, hmin]
  | incl x =>
    simp only [startOf, Option.map_some, lowerHolds, decide_eq_true_eq]
    split <;> constructor <;> omega
  | excl x =>
    simp only [startOf]
    by_cases hx : x < U64MAX
    · simp only [hx, if_true, Option.map_some, lowerHolds, decide_eq_true_eq]
      split <;> constructor <;> omega
    · simp only [hx, if_false, Option.map_none, lowerHolds, decide_eq_false_iff_not]
      omega

theorem stopOf_spec (hi : BndN) (colMax v : Nat) (hmax : v ≤ colMax) :
    match stopOf hi colMax with
    | none => upperHolds hi v = false
    | some en => (upperHolds hi v = true ↔ v ≤ en) ∧ (hi = .unb → en = colMax) := by
  cases hi with
  | unb => simp [stopOf, upperHolds, hmax]
  | incl x => simp [stopOf, upperHolds]
  | excl x =>
    simp only [stopOf]
    by_cases hx : 0 < x
    · simp only [hx, if_true, upperHolds, decide_eq_true_eq]
      constructor
      · omega
      · intro h; cases h
    · simp only [hx, if_false, upperHolds, decide_eq_false_iff_not]
      omega

/-- the min/max pruning of `search_on_u64_ff` never changes the answer: whatever scorer is chosen,
it selects a value of the column iff the value lies within the bounds -/
theorem classify_sound (lo hi : BndN) (colMin colMax : Nat) (full : Bool) (v : Nat)
    (hmin : colMin ≤ v) (hmax : v ≤ colMax) (hv : v ≤ U64MAX) :
    (classify lo hi colMin colMax full).selects v = inRangeN lo hi v := by
  have hs := startOf_spec lo colMin v hmin hv
  have he := stopOf_spec hi colMax v hmax
  rw [inRangeN_eq]
  unfold classify valueRange
  cases h1 : startOf lo colMin with
  | none =>
    rw [h1] at hs
    simp [Kind.selects, hs]
  | some st =>
    rw [h1] at hs
    cases h2 : stopOf hi colMax with
    | none =>
      rw [h2] at he
      simp [Kind.selects, he]
    | some en =>
      rw [h2] at he
      simp only []
      have hl : lowerHolds lo v = decide (st ≤ v) := by
        rw [Bool.eq_iff_iff, decide_eq_true_eq]; exact hs.1
      have hu : upperHolds hi v = decide (v ≤ en) := by
        rw [Bool.eq_iff_iff, decide_eq_true_eq]; exact he.1
      rw [hl, hu]
      by_cases hem : en < st
      · simp only [hem, if_true, Kind.selects]
        rw [Bool.eq_iff_iff]; simp; omega
      · simp only [hem, if_false]
        by_cases hall : (decide (st ≤ colMin) && decide (colMax ≤ en) && full) = true
        · rw [if_pos hall]
          simp only [Kind.selects]
          simp only [Bool.and_eq_true, decide_eq_true_eq] at hall
          rw [Bool.eq_iff_iff]; simp; omega
        · rw [if_neg hall]
          rfl

/-- `AllScorer` is chosen only for a range that contains every value of the column, and
`EmptyScorer` only for one that contains none -/
theorem classify_all_empty (lo hi : BndN) (colMin colMax : Nat) (full : Bool) :
    (classify lo hi colMin colMax full = .all →
        full = true ∧ ∀ v, colMin ≤ v → v ≤ colMax → v ≤ U64MAX → inRangeN lo hi v = true)
      ∧ (classify lo hi colMin colMax full = .empty →
        ∀ v, colMin ≤ v → v ≤ colMax → v ≤ U64MAX → inRangeN lo hi v = false) := by
  constructor
  · intro h
    refine ⟨?_, ?_⟩
    · unfold classify at h
      split at h
      · cases h
      · split at h
        · cases h
        · split at h
          · rename_i hc; simp only [Bool.and_eq_true] at hc; exact hc.2
          · cases h
    · intro v h1 h2 h3
      rw [← classify_sound lo hi colMin colMax full v h1 h2 h3, h]; rfl
  · intro h v h1 h2 h3
    rw [← classify_sound lo hi colMin colMax full v h1 h2 h3, h]; rfl

/-! ### document level -/

theorem any_congr' (vs : List Nat) (f g : Nat → Bool) (h : ∀ v ∈ vs, f v = g v) :
    vs.any f = vs.any g := by
  induction vs with
  | nil => rfl
  | cons a t ih =>
    simp only [List.any_cons]
    rw [h a (List.mem_cons_self ..), ih (fun v hv => h v (List.mem_cons_of_mem _ hv))]

theorem selectsDoc_eq (k : Kind) (vs : List Nat) (h : k = .all → vs ≠ []) :
    k.selectsDoc vs = vs.any k.selects := by
  cases k with
  | empty =>
    simp only [Kind.selectsDoc]
    clear h
    induction vs with
    | nil => rfl
    | cons a t ih => simp only [List.any_cons, Kind.selects, Bool.false_or]; exact ih
  | all =>
    cases vs with
    | nil => exact absurd rfl (h rfl)
    | cons a t => simp [Kind.selectsDoc, Kind.selects]
  | range st en => rfl

/-- with the shortcut restricted to Full columns, whatever scorer `search_on_u64_ff` builds selects
a document iff one of the document's own values lies within the bounds — in particular a document
without a value is never selected -/
theorem classifyC_doc_sound (sc : Shortcut) (hO : sc.onOptional = false) (hM : sc.onMultivalued = false)
    (lo hi : BndN) (colMin colMax : Nat) (card : Card) (vs : List Nat)
    (hcard : card.admits vs) (hvs : ∀ v ∈ vs, colMin ≤ v ∧ v ≤ colMax ∧ v ≤ U64MAX) :
    (classifyC sc lo hi colMin colMax card).selectsDoc vs = vs.any (inRangeN lo hi) := by
  unfold classifyC
  have hall : classify lo hi colMin colMax (sc.on card) = .all → vs ≠ [] := by
    intro h
    have hb := ((classify_all_empty lo hi colMin colMax (sc.on card)).1 h).1
    cases card with
    | full =>
      intro hnil
      rw [hnil] at hcard
      simp [Card.admits] at hcard
    | optional => simp only [Shortcut.on] at hb; rw [hO] at hb; cases hb
    | multivalued => simp only [Shortcut.on] at hb; rw [hM] at hb; cases hb
  rw [selectsDoc_eq _ vs hall]
  apply any_congr'
  intro v hv
  have h := hvs v hv
  exact classify_sound lo hi colMin colMax (sc.on card) v h.1 h.2.1 h.2.2

end TantivyModel.FastRange
