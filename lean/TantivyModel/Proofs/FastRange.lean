import TantivyModel.Model.FastRange
set_option linter.unusedSimpArgs false
set_option linter.unusedVariables false
namespace TantivyModel.FastRange
open TantivyModel.QuerySem

theorem u64max : U64MAX = 18446744073709551615 := by decide

def lowerHolds (b : BndN) (x : Nat) : Bool :=
  match b with
  | .incl n => decide (n ≤ x)
  | .excl n => decide (n < x)
  | .unb => true

def upperHolds (b : BndN) (x : Nat) : Bool :=
  match b with
  | .incl n => decide (x ≤ n)
  | .excl n => decide (x < n)
  | .unb => true

theorem inRangeN_eq (lo hi : BndN) (x : Nat) : inRangeN lo hi x = (lowerHolds lo x && upperHolds hi x) := by
  cases lo <;> cases hi <;> rfl

theorem startOf_spec (lo : BndN) (colMin v : Nat) (hmin : colMin ≤ v) (hv : v ≤ U64MAX) :
    match startOf lo colMin with
    | none => lowerHolds lo v = false
    | some st => (lowerHolds lo v = true ↔ st ≤ v) ∧ colMin ≤ st := by
  have hU := u64max
  cases lo with
  | unb => simp [startOf, lowerHolds, hmin]
  | incl x =>
    simp only [startOf, Option.map_some, lowerHolds, decide_eq_true_eq]
    split <;> constructor <;> omega
  | excl x =>
    simp only [startOf]
    by_cases hx : x < U64MAX
    · simp only [hx, if_true, Option.map_some, lowerHolds, decide_eq_true_eq]
      split <;> constructor <;> omega
    · simp only [hx, if_false, Option.map_none, lowerHolds, decide_eq_false_iff_not]
      omega

theorem stopOf_spec (hi : BndN) (colMax v : Nat) (hmax : v ≤ colMax) :
    match stopOf hi colMax with
    | none => upperHolds hi v = false
    | some en => (upperHolds hi v = true ↔ v ≤ en) ∧ (hi = .unb → en = colMax) := by
  cases hi with
  | unb => simp [stopOf, upperHolds, hmax]
  | incl x => simp [stopOf, upperHolds]
  | excl x =>
    simp only [stopOf]
    by_cases hx : 0 < x
    · simp only [hx, if_true, upperHolds, decide_eq_true_eq]
      constructor
      · omega
      · intro h; cases h
    · simp only [hx, if_false, upperHolds, decide_eq_false_iff_not]
      omega

/-- the min/max pruning of `search_on_u64_ff` never changes the answer: whatever scorer is chosen,
it selects a value of the column iff the value lies within the bounds -/
theorem classify_sound (lo hi : BndN) (colMin colMax : Nat) (full : Bool) (v : Nat)
    (hmin : colMin ≤ v) (hmax : v ≤ colMax) (hv : v ≤ U64MAX) :
    (classify lo hi colMin colMax full).selects v = inRangeN lo hi v := by
  have hs := startOf_spec lo colMin v hmin hv
  have he := stopOf_spec hi colMax v hmax
  rw [inRangeN_eq]
  unfold classify valueRange
  cases h1 : startOf lo colMin with
  | none =>
    rw [h1] at hs
    simp [Kind.selects, hs]
  | some st =>
    rw [h1] at hs
    cases h2 : stopOf hi colMax with
    | none =>
      rw [h2] at he
      simp [Kind.selects, he]
    | some en =>
      rw [h2] at he
      simp only []
      have hl : lowerHolds lo v = decide (st ≤ v) := by
        rw [Bool.eq_iff_iff, decide_eq_true_eq]; exact hs.1
      have hu : upperHolds hi v = decide (v ≤ en) := by
        rw [Bool.eq_iff_iff, decide_eq_true_eq]; exact he.1
      rw [hl, hu]
      by_cases hem : en < st
      · simp only [hem, if_true, Kind.selects]
        rw [Bool.eq_iff_iff]; simp; omega
      · simp only [hem, if_false]
        by_cases hall : (decide (st ≤ colMin) && decide (colMax ≤ en) && full) = true
        · rw [if_pos hall]
          simp only [Kind.selects]
          simp only [Bool.and_eq_true, decide_eq_true_eq] at hall
          rw [Bool.eq_iff_iff]; simp; omega
        · rw [if_neg hall]
          rfl

/-- `AllScorer` is chosen only for a range that contains every value of the column, and
`EmptyScorer` only for one that contains none -/
theorem classify_all_empty (lo hi : BndN) (colMin colMax : Nat) (full : Bool) :
    (classify lo hi colMin colMax full = .all →
        full = true ∧ ∀ v, colMin ≤ v → v ≤ colMax → v ≤ U64MAX → inRangeN lo hi v = true)
      ∧ (classify lo hi colMin colMax full = .empty →
        ∀ v, colMin ≤ v → v ≤ colMax → v ≤ U64MAX → inRangeN lo hi v = false) := by
  constructor
  · intro h
    refine ⟨?_, ?_⟩
    · unfold classify at h
      split at h
      · cases h
      · split at h
        · cases h
        · split at h
          · rename_i hc; simp only [Bool.and_eq_true] at hc; exact hc.2
          · cases h
    · intro v h1 h2 h3
      rw [← classify_sound lo hi colMin colMax full v h1 h2 h3, h]; rfl
  · intro h v h1 h2 h3
    rw [← classify_sound lo hi colMin colMax full v h1 h2 h3, h]; rfl

end TantivyModel.FastRange
