import TantivyModel.Proofs.AggKeyOrder
/-!
C14 helper lemmas: terms ordered by `_key` DESCENDING are exact under the per-segment cut as well.
The cut keeps the LAST `segment_size` keys; negating all keys (`KMap.neg`) turns that into the
ascending case of `AggKeyOrder.lean`.  No Mathlib.
-/
namespace TantivyModel.Agg

/-! ### negated enumeration -/

theorem intRange_snoc : ∀ (n : Nat) (a : Int), intRange a (n + 1) = intRange a n ++ [a + n]
  | 0, a => by simp [intRange]
  | n + 1, a => by
    show a :: intRange (a + 1) (n + 1) = (a :: intRange (a + 1) n) ++ [a + (n + 1 : Nat)]
    rw [intRange_snoc n (a + 1)]
    have : a + 1 + (n : Int) = a + ((n + 1 : Nat) : Int) := by omega
    rw [this]
    rfl

theorem intRange_neg : ∀ (n : Nat) (lo a : Int), a = -(lo + n) + 1 →
    intRange a n = (intRange lo n).reverse.map (fun k => -k)
  | 0, _, _, _ => rfl
  | n + 1, lo, a, h => by
    rw [intRange_snoc n a]
    show _ = ((lo :: intRange (lo + 1) n).reverse).map (fun k => -k)
    rw [List.reverse_cons, List.map_append, ← intRange_neg n (lo + 1) a (by omega)]
    have : a + (n : Int) = -lo := by omega
    rw [this]
    rfl

def negHull : Option (Int × Int) → Option (Int × Int)
  | Option.none => Option.none
  | some (lo, hi) => some (-hi, -lo)

theorem spanOf_negHull (h : Option (Int × Int)) : spanOf (negHull h) = (spanOf h).reverse.map (fun k => -k) := by
  cases h with
  | none => rfl
  | some lh =>
    obtain ⟨lo, hi⟩ := lh
    show intRange (-hi) (-lo + 1 - -hi).toNat = (intRange lo (hi + 1 - lo).toNat).reverse.map (fun k => -k)
    have e : (-lo + 1 - -hi).toNat = (hi + 1 - lo).toNat := by congr 1; omega
    rw [e]
    by_cases hle : lo ≤ hi + 1
    · apply intRange_neg
      have : ((hi + 1 - lo).toNat : Int) = hi + 1 - lo := Int.toNat_of_nonneg (by omega)
      omega
    · have : (hi + 1 - lo).toNat = 0 := by omega
      rw [this]; rfl

theorem negHull_merge (a b : Option (Int × Int)) : negHull (hullMerge a b) = hullMerge (negHull a) (negHull b) := by
  cases a with
  | none => cases b <;> rfl
  | some x =>
    cases b with
    | none => rfl
    | some y =>
      obtain ⟨a1, a2⟩ := x; obtain ⟨b1, b2⟩ := y
      show some (-(if a2 ≤ b2 then b2 else a2), -(if a1 ≤ b1 then a1 else b1))
        = some (if -a2 ≤ -b2 then -a2 else -b2, if -a1 ≤ -b1 then -b1 else -a1)
      congr 2
      · by_cases h : a2 ≤ b2 <;> by_cases h' : -a2 ≤ -b2 <;> simp only [h, h', if_true, if_false] <;> omega
      · by_cases h : a1 ≤ b1 <;> by_cases h' : -a1 ≤ -b1 <;> simp only [h, h', if_true, if_false] <;> omega

theorem inHull_neg {h : Option (Int × Int)} {k : Int} (hk : inHull h (-k)) : inHull (negHull h) k := by
  cases h with
  | none => exact hk
  | some lh =>
    obtain ⟨lo, hi⟩ := lh
    have h2 : lo ≤ -k ∧ -k ≤ hi := hk
    show -hi ≤ k ∧ k ≤ -lo
    omega

theorem map_inj_of_inj {α β : Type} (f : α → β) (hf : ∀ x y, f x = f y → x = y) :
    ∀ l l' : List α, l.map f = l'.map f → l = l'
  | [], [], _ => rfl
  | [], _ :: _, h => by simp at h
  | _ :: _, [], h => by simp at h
  | a :: l, b :: l', h => by
    simp only [List.map_cons, List.cons.injEq] at h
    rw [hf a b h.1, map_inj_of_inj f hf l l' h.2]

section neg
variable {V : Type}

def KMap.neg (m : KMap V) : KMap V := ⟨negHull m.hull, fun k => m.get (-k)⟩

theorem neg_merge (f : V → V → V) (a b : KMap V) : (KMap.merge f a b).neg = KMap.merge f a.neg b.neg := by
  show KMap.mk (negHull (hullMerge a.hull b.hull)) _ = KMap.mk (hullMerge (negHull a.hull) (negHull b.hull)) _
  rw [negHull_merge]
  rfl

theorem neg_empty : (KMap.empty : KMap V).neg = KMap.empty := rfl

theorem neg_foldl (f : V → V → V) : ∀ (ms : List (KMap V)) (acc : KMap V),
    (ms.foldl (KMap.merge f) acc).neg = (ms.map KMap.neg).foldl (KMap.merge f) acc.neg
  | [], _ => rfl
  | m :: ms, acc => by
    simp only [List.foldl_cons, List.map_cons]
    rw [neg_foldl f ms, neg_merge]

theorem supp_neg {m : KMap (Nat × V)} (hs : Supp m) : Supp m.neg := by
  intro k e hg
  exact inHull_neg (hs (-k) e hg)

/-- the entries of the negated map: reversed, keys negated -/
theorem entries_neg (m : KMap V) : m.neg.entries = m.entries.reverse.map (fun e => (-e.1, e.2)) := by
  unfold KMap.entries
  show (spanOf (negHull m.hull)).filterMap (fun k => (m.get (-k)).map (fun v => (k, v))) = _
  rw [spanOf_negHull, List.filterMap_map, ← List.filterMap_reverse, List.map_filterMap]
  congr 1
  funext j
  show (m.get (- -j)).map (fun v => (-j, v)) = ((m.get j).map (fun v => (j, v))).map (fun e => (-e.1, e.2))
  rw [Int.neg_neg]
  cases m.get j <;> rfl

theorem contains_neg (K : List Int) (k : Int) : K.contains (-k) = (K.map (fun j => -j)).contains k := by
  induction K with
  | nil => rfl
  | cons x xs ih =>
    simp only [List.map_cons, List.contains_cons, ih]
    congr 1
    apply Bool.eq_iff_iff.2
    simp only [beq_iff_eq]
    constructor <;> intro h <;> omega

/-- the map `termsCut` keeps for `_key` descending: the last `seg` keys -/
def cutDesc (seg : Nat) (m : KMap (Nat × V)) : KMap (Nat × V) :=
  if m.entries.length ≤ seg then m else m.restrict ((m.entries.reverse.take seg).map (·.1))

theorem neg_cutDesc (seg : Nat) (m : KMap (Nat × V)) : (cutDesc seg m).neg = cutAsc seg m.neg := by
  unfold cutDesc cutAsc
  have hlen : m.neg.entries.length = m.entries.length := by
    rw [entries_neg, List.length_map, List.length_reverse]
  rw [hlen]
  by_cases h : m.entries.length ≤ seg
  · rw [if_pos h, if_pos h]
  · rw [if_neg h, if_neg h]
    show KMap.mk (negHull m.hull) _ = (m.neg).restrict (pageKeys seg Option.none m.neg)
    rw [pageKeys_none_eq, entries_neg]
    show KMap.mk (negHull m.hull) _ = KMap.mk (negHull m.hull) _
    congr 1
    funext k
    show (if ((m.entries.reverse.take seg).map (·.1)).contains (-k) then m.get (-k) else Option.none)
      = (if (((m.entries.reverse.map (fun e => (-e.1, e.2))).take seg).map (·.1)).contains k then m.get (-k) else Option.none)
    rw [contains_neg, ← List.map_take, List.map_map, List.map_map]
    rfl

/-- **the last `size` keys**: cutting every fruit to its last `seg ≥ size` keys is invisible in
the last `size` entries of the fold -/
theorem cutDesc_fold (f : (Nat × V) → (Nat × V) → (Nat × V)) {size seg : Nat} (hle : size ≤ seg)
    (ms : List (KMap (Nat × V))) (hms : ∀ m ∈ ms, Supp m) :
    (((ms.map (cutDesc seg)).foldl (KMap.merge f) KMap.empty).entries.reverse).take size
      = ((ms.foldl (KMap.merge f) KMap.empty).entries.reverse).take size := by
  have h := trim_fold_gen f size Option.none (cutAsc seg)
    (fun m _ => cutAsc_trim hle m) (fun m hm => cutAsc_supp seg hm)
    (ms.map KMap.neg) KMap.empty KMap.empty
    (by
      intro m hm
      obtain ⟨q, hq, rfl⟩ := List.mem_map.1 hm
      exact supp_neg (hms q hq))
    supp_empty supp_empty rfl
  have e1 : ((ms.map KMap.neg).map (cutAsc seg)) = ((ms.map (cutDesc seg)).map KMap.neg) := by
    rw [List.map_map, List.map_map]
    apply List.map_congr_left
    intro m _
    exact (neg_cutDesc seg m).symm
  rw [e1, ← neg_empty, ← neg_foldl, ← neg_foldl] at h
  have h' := congrArg (fun x : KMap (Nat × V) => x.entries.take size) h
  simp only [take_entries_of_trim, entries_neg] at h'
  rw [← List.map_take, ← List.map_take] at h'
  have hinj : ∀ a b : Int × Nat × V, ((-a.1, a.2) : Int × Nat × V) = (-b.1, b.2) → a = b := by
    intro a b hab
    obtain ⟨a1, a2⟩ := a; obtain ⟨b1, b2⟩ := b
    simp only [Prod.mk.injEq] at hab
    obtain ⟨h1, h2⟩ := hab
    have : a1 = b1 := by omega
    rw [this, h2]
  exact map_inj_of_inj _ hinj _ _ h'

theorem sortBuckets_keyDesc_of_sorted {W : Type} (l : List (Int × Nat × W)) (h : l.Pairwise (fun a b => a.1 < b.1)) :
    sortBuckets .keyDesc l = l.reverse := by
  have hperm : (sortBuckets .keyDesc l).Perm l.reverse := (sortBuckets_perm _ l).trans (List.reverse_perm l).symm
  have hs : l.reverse.Pairwise (fun a b => bLe .keyDesc a b = true) := by
    rw [List.pairwise_reverse]
    refine List.Pairwise.imp ?_ h
    intro a b hab
    show decide (a.1 ≤ b.1) = true
    exact decide_eq_true (Int.le_of_lt hab)
  have hndk : (l.map (·.1)).Nodup := by
    have : (l.map (·.1)).Pairwise (· < ·) := List.pairwise_map.2 h
    exact this.imp (fun hab => Int.ne_of_lt hab)
  apply eq_of_perm_of_sorted_on (bLe .keyDesc) (sortBuckets .keyDesc l) l.reverse
  · intro a ha b hb h1 h2
    have hk := bLe_antisymm_key .keyDesc a b h1 h2
    have ha' : a ∈ l := (sortBuckets_perm _ l).mem_iff.1 ha
    have hb' : b ∈ l := (sortBuckets_perm _ l).mem_iff.1 hb
    exact eq_of_key_eq l hndk a ha' b hb' hk
  · exact hperm
  · exact isort_pairwise (bLe .keyDesc) (bLe_total .keyDesc) (bLe_trans .keyDesc) _
  · exact hs

theorem termsCut_keyDesc_map (p : TermsP) (ho : p.order = .keyDesc) (t : TermsI V) :
    (termsCut p t).map = cutDesc p.segSize t.map := by
  unfold cutDesc
  by_cases h : t.map.entries.length ≤ p.segSize
  · rw [termsCut_small p t h, if_pos h]
  · rw [termsCut_big p t h, if_neg h, ho, sortBuckets_keyDesc_of_sorted _ (entries_pairwise_key t.map)]

theorem shown_keyDesc_of_pos {W : Type} (p : TermsP) (ho : p.order = .keyDesc) (hmdc : p.minDocCount ≤ 1)
    (m : KMap (Nat × V)) (hp : Pos m) (g : V → W) (other err : Nat) :
    (termsFinal p (m.entries.map fun e => (e.1, e.2.1, g e.2.2)) other err).1
      = (m.entries.reverse.take p.size).map (fun e => (e.1, e.2.1, g e.2.2))
    ∧ (termsFinal p (m.entries.map fun e => (e.1, e.2.1, g e.2.2)) other err).2.1
      = other + sumCounts (m.entries.reverse.drop p.size) := by
  have hf : (m.entries.map fun e => (e.1, e.2.1, g e.2.2)).filter (fun b => decide (p.minDocCount ≤ b.2.1))
      = m.entries.map fun e => (e.1, e.2.1, g e.2.2) := by
    apply List.filter_eq_self.2
    intro b hb
    obtain ⟨e, he, rfl⟩ := List.mem_map.1 hb
    have := hp e.1 e.2 (mem_entries.1 he).2
    exact decide_eq_true (Nat.le_trans hmdc this)
  have hpw : (m.entries.map fun e => ((e.1, e.2.1, g e.2.2) : Int × Nat × W)).Pairwise (fun a b => a.1 < b.1) :=
    List.pairwise_map.2 (entries_pairwise_key m)
  constructor
  · show (sortBuckets p.order ((m.entries.map fun e => (e.1, e.2.1, g e.2.2)).filter
      (fun b => decide (p.minDocCount ≤ b.2.1)))).take p.size = _
    rw [hf, ho, sortBuckets_keyDesc_of_sorted _ hpw, ← List.map_reverse, List.map_take]
  · show other + sumCounts ((sortBuckets p.order ((m.entries.map fun e => (e.1, e.2.1, g e.2.2)).filter
      (fun b => decide (p.minDocCount ≤ b.2.1)))).drop p.size) = _
    rw [hf, ho, sortBuckets_keyDesc_of_sorted _ hpw, ← List.map_reverse, ← List.map_drop, sumCounts_map_keep]

end neg

section termsKeyDesc
variable {M : Type} [AddOp M] [LawfulAddOp M]

theorem terms_keyDesc_cut_exact (p : TermsP) (sub : Req) (ho : p.order = .keyDesc) (hsz : p.size ≤ p.segSize)
    (hsub : ∀ x : Inter M sub, harvest sub x = x) (parts : List (List Doc)) :
    (mergedTerms (M := M) p sub parts).map.entries.reverse.take p.size
      = (collect (M := M) (.terms p sub) parts.flatten).map.entries.reverse.take p.size := by
  have h2 : (parts.map (collect (M := M) (.terms p sub))).foldl (merge (.terms p sub)) (empty (.terms p sub))
      = collect (.terms p sub) parts.flatten :=
    fold_parts (merge (.terms p sub)) (empty (.terms p sub)) (merge_assoc _)
      (merge_comm _) (empty_merge _) (collect (.terms p sub)) (collect_nil _) (collect_append _) parts
  rw [← h2, mergedTerms_map_eq p sub hsub, foldl_terms_map]
  have e1 : (fun m : KMap (Nat × Inter M sub) => (termsCut p (⟨m, 0, 0⟩ : TermsI (Inter M sub))).map) = cutDesc p.segSize := by
    funext m
    exact termsCut_keyDesc_map p ho ⟨m, 0, 0⟩
  have e2 : ((parts.map (collect (M := M) (.terms p sub))).map (fun t : TermsI (Inter M sub) => t.map))
      = parts.map (collectB (M := M) sub (termKeys p)) := by
    rw [List.map_map]
    apply List.map_congr_left
    intro part _
    show (collect (M := M) (.terms p sub) part).map = _
    rw [collect_terms]
  rw [e1, e2]
  exact cutDesc_fold (entryMerge (merge (M := M) sub)) hsz (parts.map (collectB (M := M) sub (termKeys p)))
    (by
      intro m hm
      obtain ⟨q, _, rfl⟩ := List.mem_map.1 hm
      exact collectB_Supp_pv sub (termKeys p) q)

/-- **terms ordered by `_key` descending are exact under the per-segment cut** (buckets and
`sum_other_doc_count`) -/
theorem terms_keyDesc_exact (p : TermsP) (sub : Req) (ho : p.order = .keyDesc) (hsz : p.size ≤ p.segSize)
    (hmdc : p.minDocCount ≤ 1) (hsub : ∀ x : Inter M sub, harvest sub x = x) (parts : List (List Doc)) :
    (finalize (M := M) (.terms p sub) (mergedTerms (M := M) p sub parts)).1
      = (finalize (M := M) (.terms p sub) (collect (M := M) (.terms p sub) parts.flatten)).1
    ∧ (finalize (M := M) (.terms p sub) (mergedTerms (M := M) p sub parts)).2.1
      = (finalize (M := M) (.terms p sub) (collect (M := M) (.terms p sub) parts.flatten)).2.1 := by
  have hpos1 := mergedTerms_pos (M := M) p sub hsub parts
  have hsupp1 := mergedTerms_supp (M := M) p sub hsub parts
  have hX' : collect (M := M) (.terms p sub) parts.flatten = ⟨collectB sub (termKeys p) parts.flatten, 0, 0⟩ :=
    collect_terms p sub parts.flatten
  have hpos2 : Pos (collect (M := M) (.terms p sub) parts.flatten).map := by
    rw [hX']; exact pos_collectB sub (termKeys p) parts.flatten
  have htot := terms_conservation_total (M := M) p sub parts hpos1 hsupp1
  have hk1 := terms_keyDesc_cut_exact (M := M) p sub ho hsz hsub parts
  have r1 := perm_sumCounts (List.reverse_perm (mergedTerms (M := M) p sub parts).map.entries)
  have r2 := perm_sumCounts (List.reverse_perm (collect (M := M) (.terms p sub) parts.flatten).map.entries)
  have s1 := sumCounts_append ((mergedTerms (M := M) p sub parts).map.entries.reverse.take p.size)
    ((mergedTerms (M := M) p sub parts).map.entries.reverse.drop p.size)
  have s2 := sumCounts_append ((collect (M := M) (.terms p sub) parts.flatten).map.entries.reverse.take p.size)
    ((collect (M := M) (.terms p sub) parts.flatten).map.entries.reverse.drop p.size)
  rw [List.take_append_drop] at s1 s2
  rw [hk1] at s1
  have hoth : (collect (M := M) (.terms p sub) parts.flatten).other = 0 := by rw [hX']
  obtain ⟨a1, a2⟩ := shown_keyDesc_of_pos p ho hmdc _ hpos1 (fun x => finalize (M := M) sub x)
    (mergedTerms (M := M) p sub parts).other (mergedTerms (M := M) p sub parts).err
  obtain ⟨c1, c2⟩ := shown_keyDesc_of_pos p ho hmdc _ hpos2 (fun x => finalize (M := M) sub x)
    (collect (M := M) (.terms p sub) parts.flatten).other (collect (M := M) (.terms p sub) parts.flatten).err
  constructor
  · show (termsFinal p ((mergedTerms (M := M) p sub parts).map.entries.map fun e => (e.1, e.2.1, finalize sub e.2.2)) _ _).1
      = (termsFinal p ((collect (M := M) (.terms p sub) parts.flatten).map.entries.map fun e => (e.1, e.2.1, finalize sub e.2.2)) _ _).1
    rw [a1, c1, hk1]
  · show (termsFinal p ((mergedTerms (M := M) p sub parts).map.entries.map fun e => (e.1, e.2.1, finalize sub e.2.2)) _ _).2.1
      = (termsFinal p ((collect (M := M) (.terms p sub) parts.flatten).map.entries.map fun e => (e.1, e.2.1, finalize sub e.2.2)) _ _).2.1
    rw [a2, c2, hoth]
    omega

end termsKeyDesc

end TantivyModel.Agg
