import TantivyModel.Model.Grammar.CharsLenient
import TantivyModel.Proofs.GrammarChars
namespace TantivyModel.Grammar.Chars
open TantivyModel.Grammar

/-! ## with the progress guard in `set_infallible`, no part of the lenient grammar loops -/

theorem J.bind_ne_div {α β : Type} (j : J α) (f : α → Nat → Str → J β)
    (hj : j ≠ .diverges) (hf : ∀ a e r, f a e r ≠ .diverges) : j.bind f ≠ .diverges := by
  cases j with
  | ok a e r => exact hf a e r
  | diverges => exact absurd rfl hj

theorem setLoop_guarded (fuel : Nat) : ∀ first s, setLoop true fuel first s ≠ .diverges := by
  induction fuel with
  | zero => intro first s; simp [setLoop]
  | succ f ih =>
    intro first s
    unfold setLoop
    simp only
    split
    · simp
    · simp
    · simp only [Bool.not_true, Bool.and_false, Bool.false_eq_true, if_false]
      split
      · rename_i h; exact absurd h (ih _ _)
      · simp

theorem literalNoGroupInf_guarded (s : Str) : literalNoGroupInf true s ≠ .diverges := by
  unfold literalNoGroupInf
  simp only
  split
  · split
    · rename_i h; exact absurd h (setLoop_guarded _ _ _)
    · first | (simp; done) | (split <;> simp)
  · split
    · split
      · first | (simp; done) | (split <;> simp)
      · split
        · first | (simp; done) | (split <;> simp)
        · first | (simp; done) | (split <;> simp)
    · first | (simp; done) | (split <;> simp)

/-- with the guard, no part of the lenient grammar returns the endless loop -/
theorem noDiverge (fuel : Nat) :
    (∀ s, astInf true fuel s ≠ .diverges) ∧ (∀ s, sepLoop true fuel s ≠ .diverges)
    ∧ (∀ s, operandInf true fuel s ≠ .diverges) ∧ (∀ s, leafInf true fuel s ≠ .diverges) := by
  induction fuel with
  | zero => simp [astInf, sepLoop, operandInf, leafInf]
  | succ f ih =>
    obtain ⟨hA, hS, hO, hL⟩ := ih
    refine ⟨?_, ?_, ?_, ?_⟩
    · intro s
      unfold astInf
      apply J.bind_ne_div _ _ (hO _)
      intro first e1 r1
      apply J.bind_ne_div _ _ (hS _)
      intro more e2 r2
      simp
    · intro s
      unfold sepLoop
      simp only
      apply J.bind_ne_div _ _ (hO _)
      intro item eItem rest
      split
      · simp
      · apply J.bind_ne_div _ _ (hS _)
        intro more eMore r
        simp
    · intro s
      unfold operandInf
      simp only
      apply J.bind_ne_div _ _ (hL _)
      intro leaf e r
      simp
    · intro s
      unfold leafInf
      split
      · apply J.bind_ne_div _ _ (hA _)
        intro a e r1
        split <;> simp
      · simp only
        split
        · simp
        · split
          · apply J.bind_ne_div _ _ (hL _)
            intro a e r'
            simp
          · split
            · apply J.bind_ne_div _ _ (hA _)
              intro a e r1
              split <;> simp
            · split
              · simp
              · exact literalNoGroupInf_guarded s

theorem parseLenientWith_guarded_ne_diverges (s : Str) : parseLenientWith true s ≠ .diverges := by
  unfold parseLenientWith
  split
  · simp
  · have := (noDiverge (8 * s.length + 16)).1 s
    split
    · rename_i h; exact absurd h this
    · simp

/-- the strict model of the source at hand (guard read by the extractor) never panics -/
theorem parseStrict_ne_panic (s : Str) : parseStrict s ≠ .panic := by
  have hg : (Gen.GRAMMAR_LITERAL_GUARDS_FIELDLESS_EXISTS == 1) = true := by decide
  unfold parseStrict
  rw [hg]
  exact parseStrictWith_guarded_ne_panic s

/-- the lenient model of the source at hand (guard read by the extractor) never loops -/
theorem parseLenient_ne_diverges (s : Str) : parseLenient s ≠ .diverges := by
  have hg : (Gen.GRAMMAR_SET_LOOP_GUARD == 1) = true := by decide
  unfold parseLenient
  rw [hg]
  exact parseLenientWith_guarded_ne_diverges s

end TantivyModel.Grammar.Chars
