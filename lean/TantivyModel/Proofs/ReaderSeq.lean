import TantivyModel.Proofs.Reader
/-!
Non-overlapping reloads of one reader publish non-decreasing commit numbers
(helper invariant for `C05_sequential_reloads_monotone`).
-/
namespace TantivyModel.Reader

/-- a reload that has started and not yet published -/
def active (s : St) (r : Rid) : Prop := (s.rs r).phase ≠ .idle ∧ (s.rs r).phase ≠ .published

structure SeqInv (ρ : Nat) (s : St) : Prop where
  startedAll : ∀ r, (s.rs r).phase ≠ .idle → r ∈ s.started
  lockedNoJ : ∀ r, (s.rs r).phase = .locked → (s.rs r).j = none
  oneActive : ∀ r r', r.1 = ρ → r'.1 = ρ → active s r → active s r' → r = r'
  bound : ∀ r, r.1 = ρ → ((s.rs r).phase = .loaded ∨ (s.rs r).phase = .released) →
    ∀ j, (s.rs r).j = some j → ∀ r' j', (r', j') ∈ s.pubs → r'.1 = ρ → j' ≤ j
  sorted : List.Pairwise (· ≤ ·) (pubsOf ρ s)

theorem seqInv_init (ρ : Nat) : SeqInv ρ init := by
  constructor <;> simp [init, active, pubsOf]

theorem pubsOf_append (ρ : Nat) (s s' : St) (r : Rid) (j : Nat)
    (hp : s'.pubs = s.pubs ++ [(r, j)]) :
    pubsOf ρ s' = pubsOf ρ s ++ (if r.1 = ρ then [j] else []) := by
  unfold pubsOf
  rw [hp]
  by_cases h : r.1 = ρ <;> simp [List.filter_append, h]

theorem mem_pubsOf {ρ : Nat} {s : St} {a : Nat} (h : a ∈ pubsOf ρ s) :
    ∃ r, (r, a) ∈ s.pubs ∧ r.1 = ρ := by
  unfold pubsOf at h
  simp only [List.mem_map, List.mem_filter, beq_iff_eq] at h
  obtain ⟨⟨r, a'⟩, ⟨hm, hr⟩, ha⟩ := h
  simp only at ha hr
  subst ha
  exact ⟨r, hm, hr⟩

/-- events that change neither a reload's phase or `j`, nor publications, nor the started list -/
theorem seq_same (ρ : Nat) (s s' : St) (hS : SeqInv ρ s)
    (hph : ∀ x, (s'.rs x).phase = (s.rs x).phase) (hj : ∀ x, (s'.rs x).j = (s.rs x).j)
    (h2 : s'.pubs = s.pubs) (h3 : s'.started = s.started) : SeqInv ρ s' := by
  refine ⟨?_, ?_, ?_, ?_, ?_⟩
  · intro r; rw [hph, h3]; exact hS.startedAll r
  · intro r; rw [hph, hj]; exact hS.lockedNoJ r
  · intro r r'; unfold active; rw [hph, hph]; exact hS.oneActive r r'
  · intro r; rw [hph, hj, h2]; exact hS.bound r
  · unfold pubsOf; rw [h2]; exact hS.sorted

theorem seq_writer (ρ : Nat) (s s' : St) (hS : SeqInv ρ s) (h1 : s'.rs = s.rs)
    (h2 : s'.pubs = s.pubs) (h3 : s'.started = s.started) : SeqInv ρ s' :=
  seq_same ρ s s' hS (fun x => by rw [h1]) (fun x => by rw [h1]) h2 h3

theorem seq_acquire (ρ : Nat) (s : St) (r : Rid) (hS : SeqInv ρ s)
    (hok : ok full s (.acquire r) = true) (hq : seqOk ρ s (.acquire r) = true) :
    SeqInv ρ (step s (.acquire r)) := by
  simp only [ok, Bool.and_eq_true, decide_eq_true_eq] at hok
  simp only [seqOk, Bool.or_eq_true, bne_iff_ne, ne_eq, List.all_eq_true,
    decide_eq_true_eq] at hq
  have key : ∀ x, x ≠ r → x.1 = ρ → r.1 = ρ → active s x → False := by
    intro x _ hx hr ha
    rcases hq with hq | hq
    · exact hq hr
    · have hm := hS.startedAll x ha.1
      rcases hq x hm with h | h
      · exact h hx
      · exact ha.2 h
  refine ⟨?_, ?_, ?_, ?_, hS.sorted⟩
  · intro r' hp
    by_cases h : r' = r
    · subst h; simp [step]
    · simp only [step, upd, h, if_false] at hp
      simp only [step, List.mem_cons]
      exact Or.inr (hS.startedAll r' hp)
  · intro r' hp
    by_cases h : r' = r
    · subst h; simp [step, upd]
    · simp only [step, upd, h, if_false] at hp ⊢; exact hS.lockedNoJ r' hp
  · intro r1 r2 h1 h2 a1 a2
    by_cases e1 : r1 = r
    · by_cases e2 : r2 = r
      · rw [e1, e2]
      · exfalso
        have a2' : active s r2 := by
          simpa only [active, step, upd, e2, if_false] using a2
        exact key r2 e2 h2 (e1 ▸ h1) a2'
    · by_cases e2 : r2 = r
      · exfalso
        have a1' : active s r1 := by
          simpa only [active, step, upd, e1, if_false] using a1
        exact key r1 e1 h1 (e2 ▸ h2) a1'
      · have a1' : active s r1 := by
          simpa only [active, step, upd, e1, if_false] using a1
        have a2' : active s r2 := by
          simpa only [active, step, upd, e2, if_false] using a2
        exact hS.oneActive r1 r2 h1 h2 a1' a2'
  · intro r' hr hp
    by_cases h : r' = r
    · subst h; simp [step, upd] at hp
    · simp only [step, upd, h, if_false] at hp ⊢; exact hS.bound r' hr hp

theorem seq_loadMeta (ρ : Nat) (s : St) (r : Rid) (hI : Inv s) (hS : SeqInv ρ s)
    (hok : ok full s (.loadMeta r) = true) : SeqInv ρ (step s (.loadMeta r)) := by
  simp only [ok, full, if_true, Bool.and_eq_true, decide_eq_true_eq] at hok
  obtain ⟨hph, _⟩ := hok
  have hact : ∀ x, active (step s (.loadMeta r)) x ↔ active s x := by
    intro x
    by_cases h : x = r
    · subst h; simp [active, step, upd, hph]
    · simp [active, step, upd, h]
  refine ⟨?_, ?_, ?_, ?_, hS.sorted⟩
  · intro r' hp
    by_cases h : r' = r
    · subst h; exact hS.startedAll r' (by rw [hph]; decide)
    · simp only [step, upd, h, if_false] at hp; exact hS.startedAll r' hp
  · intro r' hp
    by_cases h : r' = r
    · subst h; simp [step, upd] at hp
    · simp only [step, upd, h, if_false] at hp ⊢; exact hS.lockedNoJ r' hp
  · intro r1 r2 h1 h2 a1 a2
    exact hS.oneActive r1 r2 h1 h2 ((hact r1).mp a1) ((hact r2).mp a2)
  · intro r' hr hp j hj r'' j' hm hr''
    by_cases h : r' = r
    · subst h
      simp only [step, upd, if_true, Option.some.injEq] at hj
      have hm' : (r'', j') ∈ s.pubs := hm
      obtain ⟨_, hj', _⟩ := hI.pubOk r'' j' hm'
      have := hI.jlt r'' j' hj'
      omega
    · simp only [step, upd, h, if_false] at hp hj
      exact hS.bound r' hr hp j hj r'' j' hm hr''

theorem seq_openFile (ρ : Nat) (s : St) (r : Rid) (p : Path) (hI : Inv s) (hS : SeqInv ρ s)
    (hok : ok full s (.openFile r p) = true) : SeqInv ρ (step s (.openFile r p)) := by
  obtain ⟨b, j, hb, _, _, _, _⟩ := open_finds s r p hI hok
  rw [step_open_some s r p b hb]
  refine seq_same ρ s _ hS ?_ ?_ rfl rfl
  · intro x
    by_cases h : x = r
    · subst h; simp [upd]
    · simp [upd, h]
  · intro x
    by_cases h : x = r
    · subst h; simp [upd]
    · simp [upd, h]

theorem seq_release (ρ : Nat) (s : St) (r : Rid) (hS : SeqInv ρ s)
    (hok : ok full s (.release r) = true) : SeqInv ρ (step s (.release r)) := by
  simp only [ok, full, if_true, Bool.and_eq_true, Bool.or_eq_true, decide_eq_true_eq] at hok
  obtain ⟨_, hph⟩ := hok
  have hact : ∀ x, active (step s (.release r)) x ↔ active s x := by
    intro x
    by_cases h : x = r
    · subst h
      rcases hph with hph | hph <;> simp [active, step, upd, hph]
    · simp [active, step, upd, h]
  refine ⟨?_, ?_, ?_, ?_, hS.sorted⟩
  · intro r' hp
    by_cases h : r' = r
    · subst h
      exact hS.startedAll r' (by rcases hph with h | h <;> rw [h] <;> decide)
    · simp only [step, upd, h, if_false] at hp; exact hS.startedAll r' hp
  · intro r' hp
    by_cases h : r' = r
    · subst h; simp [step, upd] at hp
    · simp only [step, upd, h, if_false] at hp ⊢; exact hS.lockedNoJ r' hp
  · intro r1 r2 h1 h2 a1 a2
    exact hS.oneActive r1 r2 h1 h2 ((hact r1).mp a1) ((hact r2).mp a2)
  · intro r' hr hp j hj
    by_cases h : r' = r
    · subst h
      simp only [step, upd, if_true] at hj
      rcases hph with hph | hph
      · rw [hS.lockedNoJ r' hph] at hj; cases hj
      · exact hS.bound r' hr (Or.inl hph) j hj
    · simp only [step, upd, h, if_false] at hp hj
      exact hS.bound r' hr hp j hj

theorem seq_publish (ρ : Nat) (s : St) (r : Rid) (hS : SeqInv ρ s)
    (hok : ok full s (.publish r) = true) : SeqInv ρ (step s (.publish r)) := by
  simp only [ok, Bool.and_eq_true, decide_eq_true_eq, Bool.not_eq_true'] at hok
  obtain ⟨⟨hph, _⟩, hall⟩ := hok
  cases hj : (s.rs r).j with
  | none => rw [hj] at hall; cases hall
  | some j =>
    have hs : step s (.publish r) =
        { s with pubs := s.pubs ++ [(r, j)],
                 rs := upd s.rs r { s.rs r with phase := .published } } := by
      simp [step, hj]
    rw [hs]
    have hra : active s r := by unfold active; rw [hph]; exact ⟨by decide, by decide⟩
    refine ⟨?_, ?_, ?_, ?_, ?_⟩
    · intro r' hp
      by_cases h : r' = r
      · subst h; exact hS.startedAll r' hra.1
      · simp only [upd, h, if_false] at hp; exact hS.startedAll r' hp
    · intro r' hp
      by_cases h : r' = r
      · subst h; simp [upd] at hp
      · simp only [upd, h, if_false] at hp ⊢; exact hS.lockedNoJ r' hp
    · intro r1 r2 h1 h2 a1 a2
      by_cases e1 : r1 = r
      · subst e1; simp [active, upd] at a1
      · by_cases e2 : r2 = r
        · subst e2; simp [active, upd] at a2
        · have a1' : active s r1 := by simpa only [active, upd, e1, if_false] using a1
          have a2' : active s r2 := by simpa only [active, upd, e2, if_false] using a2
          exact hS.oneActive r1 r2 h1 h2 a1' a2'
    · intro r' hr hp j1 hj1 r'' j' hm hr''
      by_cases h : r' = r
      · subst h; simp [upd] at hp
      · simp only [upd, h, if_false] at hp hj1
        simp only [List.mem_append, List.mem_singleton, Prod.mk.injEq] at hm
        rcases hm with hm | ⟨hm, _⟩
        · exact hS.bound r' hr hp j1 hj1 r'' j' hm hr''
        · exfalso
          subst hm
          have ha' : active s r' := by
            unfold active
            rcases hp with hp | hp <;> rw [hp] <;> exact ⟨by decide, by decide⟩
          exact h (hS.oneActive r' r'' hr hr'' ha' hra)
    · rw [pubsOf_append ρ s _ r j rfl]
      by_cases hr : r.1 = ρ
      · simp only [hr, if_true]
        rw [List.pairwise_append]
        refine ⟨hS.sorted, by simp, ?_⟩
        intro a ha b hb
        simp only [List.mem_singleton] at hb
        subst hb
        obtain ⟨r', hm, hr'⟩ := mem_pubsOf ha
        exact hS.bound r hr (Or.inr hph) b hj r' a hm hr'
      · simp only [hr, if_false, List.append_nil]; exact hS.sorted

theorem seq_step (ρ : Nat) (s : St) (e : Ev) (hI : Inv s) (hS : SeqInv ρ s)
    (hok : ok full s e = true) (hq : seqOk ρ s e = true) : SeqInv ρ (step s e) := by
  cases e with
  | acquire r => exact seq_acquire ρ s r hS hok hq
  | loadMeta r => exact seq_loadMeta ρ s r hI hS hok
  | openFile r p => exact seq_openFile ρ s r p hI hS hok
  | release r => exact seq_release ρ s r hS hok
  | warm r => exact seq_same ρ s _ hS (fun x => (rs_warm s r x).1) (fun x => (rs_warm s r x).2.1) rfl rfl
  | publish r => exact seq_publish ρ s r hS hok
  | create p b => exact seq_writer ρ s _ hS rfl rfl rfl
  | saveMeta f => exact seq_writer ρ s _ hS rfl rfl rfl
  | gcAcquire => exact seq_writer ρ s _ hS rfl rfl rfl
  | gcList l => exact seq_writer ρ s _ hS rfl rfl rfl
  | gcRelease => exact seq_writer ρ s _ hS rfl rfl rfl
  | gcDelete p => exact seq_writer ρ s _ hS rfl rfl rfl
  | mLock r => exact seq_writer ρ s _ hS rfl rfl rfl
  | mUnlock r => exact seq_writer ρ s _ hS rfl rfl rfl

theorem seq_run (ρ : Nat) (s : St) (t : List Ev) (hI : Inv s) (hS : SeqInv ρ s)
    (hv : validFrom full s t = true) (hq : check (seqOk ρ) s t = true) :
    Inv (run s t) ∧ SeqInv ρ (run s t) := by
  induction t generalizing s with
  | nil => exact ⟨hI, hS⟩
  | cons e t ih =>
    simp only [validFrom, check, Bool.and_eq_true] at hv hq
    exact ih (step s e) (inv_step s e hI hv.1) (seq_step ρ s e hI hS hv.1 hq.1) hv.2 hq.2

end TantivyModel.Reader
