import TantivyModel.Proofs.Snippet
/-! C19: invariants of `search_fragments` / `select_best_fragment_combination` / `Snippet` -/
namespace TantivyModel.Snip
open TantivyModel.Tok

/-- the token contract as the snippet generator sees it (offsets only) -/
structure SContract (s : Text) (ts : List STok) : Prop where
  inb : ∀ t ∈ ts, t.from_ ≤ t.to ∧ t.to ≤ byteLen s ∧ IsBoundary s t.from_ ∧ IsBoundary s t.to
  mono : ts.Pairwise (fun a b => a.from_ ≤ b.from_)

theorem SContract.tail {s : Text} {t : STok} {ts : List STok} (h : SContract s (t :: ts)) :
    SContract s ts :=
  ⟨fun x hx => h.inb x (List.mem_cons_of_mem _ hx), (List.pairwise_cons.mp h.mono).2⟩

/-- fragment invariant: bounds and boundaries of the fragment and of its highlights -/
def FI (s : Text) (f : Frag) : Prop :=
  f.start ≤ f.stop ∧ f.stop ≤ byteLen s ∧ IsBoundary s f.start ∧ IsBoundary s f.stop ∧
  ∀ h ∈ f.hl, f.start ≤ h.1 ∧ h.1 ≤ h.2 ∧ h.2 ≤ byteLen s ∧ IsBoundary s h.1 ∧ IsBoundary s h.2

def P1 (s : Text) (f : Frag) (ts : List STok) : Prop :=
  FI s f ∧ SContract s ts ∧ ∀ t ∈ ts, f.start ≤ t.from_

theorem stopAfter_zero (a b : Nat) : stopAfter 0 a b = b := by simp [stopAfter]

theorem stopAfter_pos {mode : Nat} (hm : mode ≠ 0) (a b : Nat) : stopAfter mode a b = max a b := by
  simp [stopAfter, hm]

theorem stopAfter_ge (mode a b : Nat) : b ≤ stopAfter mode a b := by
  unfold stopAfter; split <;> omega

theorem stopAfter_le (mode a b : Nat) : stopAfter mode a b ≤ max a b := by
  unfold stopAfter; split <;> omega

theorem stopAfter_cases (mode a b : Nat) :
    stopAfter mode a b = b ∨ (stopAfter mode a b = a ∧ b ≤ a) := by
  unfold stopAfter; split
  · left; rfl
  · by_cases h : a ≤ b
    · left; omega
    · right; omega

theorem add_start (mode : Nat) (f : Frag) (t : STok) : (f.add mode t).start = f.start := by
  unfold Frag.add; cases t.score <;> rfl

theorem add_stop (mode : Nat) (f : Frag) (t : STok) :
    (f.add mode t).stop = stopAfter mode f.stop t.to := by
  unfold Frag.add; cases t.score <;> rfl

/-- the first token of a new fragment: the stop offset is its end whatever the mode -/
theorem add_stop_cut (mode : Nat) (t : STok) (h : t.from_ ≤ t.to) :
    ((Frag.new t.from_).add mode t).stop = t.to := by
  rw [add_stop]
  have h1 := stopAfter_ge mode (Frag.new t.from_).stop t.to
  have h2 := stopAfter_le mode (Frag.new t.from_).stop t.to
  simp only [Frag.new] at *
  omega

theorem add_hl (mode : Nat) (f : Frag) (t : STok) :
    ∀ h ∈ (f.add mode t).hl, h ∈ f.hl ∨ h = (t.from_, t.to) := by
  intro h hh
  unfold Frag.add at hh
  cases hs : t.score with
  | none => rw [hs] at hh; left; exact hh
  | some sc =>
    rw [hs] at hh
    simp only [List.mem_append, List.mem_singleton] at hh
    exact hh

theorem P1_safe (s : Text) (f : Frag) (t : STok) (ts : List STok) (h : P1 s f (t :: ts)) :
    ¬ t.to < f.start := by
  obtain ⟨_, hc, hs⟩ := h
  have := hc.inb t List.mem_cons_self
  have := hs t List.mem_cons_self
  omega

theorem P1_add (mode : Nat) (s : Text) (f : Frag) (t : STok) (ts : List STok)
    (h : P1 s f (t :: ts)) : P1 s (f.add mode t) ts := by
  obtain ⟨hf, hc, hs⟩ := h
  obtain ⟨t1, t2, t3, t4⟩ := hc.inb t List.mem_cons_self
  have hst := hs t List.mem_cons_self
  obtain ⟨f1, f2, f3, f4, f5⟩ := hf
  have hge := stopAfter_ge mode f.stop t.to
  have hle := stopAfter_le mode f.stop t.to
  refine ⟨⟨?_, ?_, ?_, ?_, ?_⟩, hc.tail, ?_⟩
  · rw [add_start, add_stop]; omega
  · rw [add_stop]; omega
  · rw [add_start]; exact f3
  · rw [add_stop]
    rcases stopAfter_cases mode f.stop t.to with e | ⟨e, _⟩
    · rw [e]; exact t4
    · rw [e]; exact f4
  · intro h hh
    rw [add_start]
    rcases add_hl mode f t h hh with hh | hh
    · exact f5 h hh
    · subst hh; exact ⟨hst, t1, t2, t3, t4⟩
  · intro x hx; rw [add_start]; exact hs x (List.mem_cons_of_mem _ hx)

theorem P1_cut (mode : Nat) (s : Text) (f : Frag) (t : STok) (ts : List STok)
    (h : P1 s f (t :: ts)) : P1 s ((Frag.new t.from_).add mode t) ts := by
  obtain ⟨_, hc, _⟩ := h
  obtain ⟨t1, t2, t3, t4⟩ := hc.inb t List.mem_cons_self
  refine ⟨⟨?_, ?_, ?_, ?_, ?_⟩, hc.tail, ?_⟩
  · rw [add_start, add_stop_cut mode t t1]; exact t1
  · rw [add_stop_cut mode t t1]; exact t2
  · rw [add_start]; exact t3
  · rw [add_stop_cut mode t t1]; exact t4
  · intro h hh
    rw [add_start]
    rcases add_hl mode _ t h hh with hh | hh
    · simp [Frag.new] at hh
    · subst hh; exact ⟨Nat.le_refl _, t1, t2, t3, t4⟩
  · intro x hx
    rw [add_start]
    exact (List.pairwise_cons.mp hc.mono).1 x hx

theorem P1_init (s : Text) (ts : List STok) (h : SContract s ts) : P1 s (Frag.new 0) ts :=
  ⟨⟨Nat.le_refl _, Nat.zero_le _, isBoundary_zero s, isBoundary_zero s, by simp [Frag.new]⟩, h,
    fun _ _ => Nat.zero_le _⟩

/-- with end offsets that never decrease, every highlight ends before the fragment's stop -/
def P2 (s : Text) (f : Frag) (ts : List STok) : Prop :=
  P1 s f ts ∧ (∀ h ∈ f.hl, h.2 ≤ f.stop) ∧ (∀ t ∈ ts, f.stop ≤ t.to) ∧
  ts.Pairwise (fun a b => a.to ≤ b.to)

theorem P2_step (mode : Nat) (s : Text) (g f : Frag) (t : STok) (ts : List STok)
    (h : P2 s f (t :: ts)) (hg : ∀ h ∈ g.hl, h.2 ≤ t.to) (hgs : g.stop ≤ t.to)
    (h1 : P1 s (g.add mode t) ts) : P2 s (g.add mode t) ts := by
  obtain ⟨_, _, _, hp⟩ := h
  rw [List.pairwise_cons] at hp
  have hge := stopAfter_ge mode g.stop t.to
  have hle := stopAfter_le mode g.stop t.to
  refine ⟨h1, ?_, ?_, hp.2⟩
  · intro x hx
    rw [add_stop]
    rcases add_hl mode g t x hx with hx | hx
    · have := hg x hx; omega
    · subst hx; exact hge
  · intro x hx; rw [add_stop]; have := hp.1 x hx; omega

/-- when no token is longer than `M`, no fragment is -/
def P3 (M : Nat) (s : Text) (f : Frag) (ts : List STok) : Prop :=
  P1 s f ts ∧ f.stop - f.start ≤ M ∧ ∀ t ∈ ts, t.to - t.from_ ≤ M

theorem search_P1 (mode : Nat) (s : Text) (M : Nat) (ts : List STok) (h : SContract s ts) :
    ∃ frags, searchFragments mode M ts = some frags ∧ ∀ g ∈ frags, FI s g := by
  obtain ⟨frags, e, hf⟩ := searchAux_inv mode M (P1 s) (P1_safe s)
    (fun f t ts h _ => P1_add mode s f t ts h)
    (fun f t ts h _ => P1_cut mode s f t ts h) ts (Frag.new 0) (P1_init s ts h)
  exact ⟨frags, e, fun g hg => by obtain ⟨_, h⟩ := hf g hg; exact h.1⟩

theorem search_P2 (mode : Nat) (s : Text) (M : Nat) (ts : List STok) (h : SContract s ts)
    (hto : ts.Pairwise (fun a b => a.to ≤ b.to)) :
    ∃ frags, searchFragments mode M ts = some frags ∧
      ∀ g ∈ frags, FI s g ∧ ∀ h ∈ g.hl, h.2 ≤ g.stop := by
  obtain ⟨frags, e, hf⟩ := searchAux_inv mode M (P2 s) (fun f t ts h => P1_safe s f t ts h.1)
    (fun f t ts h _ => P2_step mode s f f t ts h
      (fun x hx => Nat.le_trans (h.2.1 x hx) (h.2.2.1 t List.mem_cons_self))
      (h.2.2.1 t List.mem_cons_self) (P1_add mode s f t ts h.1))
    (fun f t ts h _ => P2_step mode s (Frag.new t.from_) f t ts h (by simp [Frag.new])
      (by simp only [Frag.new]; exact (h.1.2.1.inb t List.mem_cons_self).1) (P1_cut mode s f t ts h.1))
    ts (Frag.new 0)
    ⟨P1_init s ts h, by simp [Frag.new], fun _ _ => by simp [Frag.new], hto⟩
  exact ⟨frags, e, fun g hg => by obtain ⟨_, h⟩ := hf g hg; exact ⟨h.1.1, h.2.1⟩⟩

theorem search_P3 (mode : Nat) (s : Text) (M : Nat) (ts : List STok) (h : SContract s ts)
    (hlen : ∀ t ∈ ts, t.to - t.from_ ≤ M) :
    ∃ frags, searchFragments mode M ts = some frags ∧
      ∀ g ∈ frags, FI s g ∧ g.stop - g.start ≤ M := by
  obtain ⟨frags, e, hf⟩ := searchAux_inv mode M (P3 M s) (fun f t ts h => P1_safe s f t ts h.1)
    (fun f t ts h hc => ⟨P1_add mode s f t ts h.1, by
      rw [add_start, add_stop]
      have := stopAfter_le mode f.stop t.to
      have := h.2.1
      omega,
      fun x hx => h.2.2 x (List.mem_cons_of_mem _ hx)⟩)
    (fun f t ts h _ => ⟨P1_cut mode s f t ts h.1, by
      rw [add_start, add_stop_cut mode t (h.1.2.1.inb t List.mem_cons_self).1]
      exact h.2.2 t List.mem_cons_self,
      fun x hx => h.2.2 x (List.mem_cons_of_mem _ hx)⟩)
    ts (Frag.new 0) ⟨P1_init s ts h, by simp [Frag.new], hlen⟩
  exact ⟨frags, e, fun g hg => by obtain ⟨_, h⟩ := hf g hg; exact ⟨h.1.1, h.2.1⟩⟩

/-- with the running maximum (`mode ≠ 0`, the repaired `try_add_token`) every highlight ends
before the fragment's stop offset, for **every** token stream satisfying the contract -/
def P7 (s : Text) (f : Frag) (ts : List STok) : Prop :=
  P1 s f ts ∧ ∀ h ∈ f.hl, h.2 ≤ f.stop

theorem P7_step {mode : Nat} (hm : mode ≠ 0) (s : Text) (g : Frag) (t : STok) (ts : List STok)
    (hg : ∀ h ∈ g.hl, h.2 ≤ g.stop) (h1 : P1 s (g.add mode t) ts) : P7 s (g.add mode t) ts := by
  refine ⟨h1, ?_⟩
  intro x hx
  rw [add_stop, stopAfter_pos hm]
  rcases add_hl mode g t x hx with hx | hx
  · have := hg x hx; omega
  · subst hx; simp only; omega

theorem search_P7 {mode : Nat} (hm : mode ≠ 0) (s : Text) (M : Nat) (ts : List STok)
    (h : SContract s ts) :
    ∃ frags, searchFragments mode M ts = some frags ∧
      ∀ g ∈ frags, FI s g ∧ ∀ h ∈ g.hl, h.2 ≤ g.stop := by
  obtain ⟨frags, e, hf⟩ := searchAux_inv mode M (P7 s) (fun f t ts h => P1_safe s f t ts h.1)
    (fun f t ts h _ => P7_step hm s f t ts h.2 (P1_add mode s f t ts h.1))
    (fun f t ts h _ => P7_step hm s (Frag.new t.from_) t ts (by simp [Frag.new])
      (P1_cut mode s f t ts h.1))
    ts (Frag.new 0) ⟨P1_init s ts h, by simp [Frag.new]⟩
  exact ⟨frags, e, fun g hg => by obtain ⟨_, h⟩ := hf g hg; exact ⟨h.1.1, h.2⟩⟩

/-- `select_best_fragment_combination` on a fragment satisfying the invariant does not panic -/
theorem mkSnippet_of_FI (s : Text) (f : Frag) (h : FI s f) :
    mkSnippet s f = some ⟨sliceFrom 0 s f.start f.stop,
      f.hl.map (fun h => (h.1 - f.start, h.2 - f.start))⟩ := by
  obtain ⟨f1, _, f3, f4, f5⟩ := h
  have hall : (f.hl.all fun h => decide (f.start ≤ h.1) && decide (f.start ≤ h.2)) = true := by
    rw [List.all_eq_true]
    intro x hx
    have := f5 x hx
    simp only [Bool.and_eq_true, decide_eq_true_eq]; omega
  simp [mkSnippet, sliceB, f1, f3, f4, hall]

theorem length_le_byteLen (t : Text) : t.length ≤ byteLen t := by
  induction t with
  | nil => simp [byteLen]
  | cons c t ih => have := c.w_pos; simp only [List.length_cons, byteLen]; omega

end TantivyModel.Snip

namespace TantivyModel.Snip
open TantivyModel.Tok

/-! ### what the highlights are: exactly the term tokens of the fragment, in stream order -/

theorem add_hl_eq (mode : Nat) (f : Frag) (t : STok) :
    (f.add mode t).hl = f.hl ++ (if t.score.isSome then [(t.from_, t.to)] else []) := by
  unfold Frag.add
  cases t.score <;> simp

/-- every highlight is the range of a token that is a query term -/
def P4 (all : List STok) (s : Text) (f : Frag) (ts : List STok) : Prop :=
  P1 s f ts ∧ (∀ t ∈ ts, t ∈ all) ∧
  ∀ h ∈ f.hl, ∃ t ∈ all, t.score.isSome = true ∧ h = (t.from_, t.to)

theorem P4_step (mode : Nat) (all : List STok) (s : Text) (g f : Frag) (t : STok) (ts : List STok)
    (h : P4 all s f (t :: ts)) (hg : ∀ h ∈ g.hl, ∃ t ∈ all, t.score.isSome = true ∧ h = (t.from_, t.to))
    (h1 : P1 s (g.add mode t) ts) : P4 all s (g.add mode t) ts := by
  refine ⟨h1, fun x hx => h.2.1 x (List.mem_cons_of_mem _ hx), ?_⟩
  intro x hx
  rw [add_hl_eq, List.mem_append] at hx
  rcases hx with hx | hx
  · exact hg x hx
  · split at hx
    · rename_i hs
      simp only [List.mem_singleton] at hx
      exact ⟨t, h.2.1 t List.mem_cons_self, hs, hx⟩
    · simp at hx

theorem search_P4 (mode : Nat) (s : Text) (M : Nat) (ts : List STok) (h : SContract s ts) :
    ∃ frags, searchFragments mode M ts = some frags ∧
      ∀ g ∈ frags, FI s g ∧ ∀ h ∈ g.hl, ∃ t ∈ ts, t.score.isSome = true ∧ h = (t.from_, t.to) := by
  obtain ⟨frags, e, hf⟩ := searchAux_inv mode M (P4 ts s) (fun f t r h => P1_safe s f t r h.1)
    (fun f t r h _ => P4_step mode ts s f f t r h h.2.2 (P1_add mode s f t r h.1))
    (fun f t r h _ => P4_step mode ts s (Frag.new t.from_) f t r h (by simp [Frag.new])
      (P1_cut mode s f t r h.1))
    ts (Frag.new 0) ⟨P1_init s ts h, fun _ h => h, by simp [Frag.new]⟩
  exact ⟨frags, e, fun g hg => by obtain ⟨_, h⟩ := hf g hg; exact ⟨h.1.1, h.2.2⟩⟩

/-- with tokens that do not overlap (`a.to ≤ b.from` in stream order) the raw highlights are
sorted and pairwise disjoint -/
def P5 (s : Text) (f : Frag) (ts : List STok) : Prop :=
  P1 s f ts ∧ f.hl.Pairwise (fun a b => a.2 ≤ b.1) ∧ (∀ h ∈ f.hl, ∀ t ∈ ts, h.2 ≤ t.from_) ∧
  ts.Pairwise (fun a b => a.to ≤ b.from_)

theorem P5_step (mode : Nat) (s : Text) (g f : Frag) (t : STok) (ts : List STok)
    (h : P5 s f (t :: ts))
    (hg1 : g.hl.Pairwise (fun a b => a.2 ≤ b.1)) (hg2 : ∀ h ∈ g.hl, ∀ t' ∈ t :: ts, h.2 ≤ t'.from_)
    (h1 : P1 s (g.add mode t) ts) : P5 s (g.add mode t) ts := by
  obtain ⟨_, _, _, hp⟩ := h
  rw [List.pairwise_cons] at hp
  refine ⟨h1, ?_, ?_, hp.2⟩
  · rw [add_hl_eq, List.pairwise_append]
    refine ⟨hg1, by split <;> simp, ?_⟩
    intro a ha b hb
    split at hb
    · simp only [List.mem_singleton] at hb; subst hb
      exact hg2 a ha t List.mem_cons_self
    · simp at hb
  · intro x hx t' ht'
    rw [add_hl_eq, List.mem_append] at hx
    rcases hx with hx | hx
    · exact hg2 x hx t' (List.mem_cons_of_mem _ ht')
    · split at hx
      · simp only [List.mem_singleton] at hx; subst hx; exact hp.1 t' ht'
      · simp at hx

theorem search_P5 (mode : Nat) (s : Text) (M : Nat) (ts : List STok) (h : SContract s ts)
    (hd : ts.Pairwise (fun a b => a.to ≤ b.from_)) :
    ∃ frags, searchFragments mode M ts = some frags ∧
      ∀ g ∈ frags, FI s g ∧ g.hl.Pairwise (fun a b => a.2 ≤ b.1) := by
  obtain ⟨frags, e, hf⟩ := searchAux_inv mode M (P5 s) (fun f t r h => P1_safe s f t r h.1)
    (fun f t r h _ => P5_step mode s f f t r h h.2.1 h.2.2.1 (P1_add mode s f t r h.1))
    (fun f t r h _ => P5_step mode s (Frag.new t.from_) f t r h (by simp [Frag.new]) (by simp [Frag.new])
      (P1_cut mode s f t r h.1))
    ts (Frag.new 0) ⟨P1_init s ts h, by simp [Frag.new], by simp [Frag.new], hd⟩
  exact ⟨frags, e, fun g hg => by obtain ⟨_, h⟩ := hf g hg; exact ⟨h.1.1, h.2.1⟩⟩

end TantivyModel.Snip

namespace TantivyModel.Tok

/-- a filter keeps any per-token key that it does not assign non-decreasing -/
theorem apply_key_mono (f : Filter) (key : Token → Nat)
    (hkey : ∀ t, ∀ t' ∈ f.onToken t, key t' = key t) : ∀ ts : List Token,
    ts.Pairwise (fun a b => key a ≤ key b) → (f.apply ts).Pairwise (fun a b => key a ≤ key b) := by
  intro ts
  induction ts with
  | nil => intro _; simp [Filter.apply]
  | cons a l ih =>
    intro h
    rw [List.pairwise_cons] at h
    obtain ⟨h1, h2⟩ := h
    simp only [Filter.apply, List.flatMap_cons]
    rw [List.pairwise_append]
    refine ⟨?_, ih h2, ?_⟩
    · apply pairwise_of_forall_mem
      intro x hx y hy
      rw [hkey a x hx, hkey a y hy]; exact Nat.le_refl _
    · intro x hx y hy
      simp only [List.mem_flatMap] at hy
      obtain ⟨b, hb, hy⟩ := hy
      rw [hkey a x hx, hkey b y hy]
      exact h1 b hb

theorem chain_to_mono (fs : List Filter) : ∀ ts : List Token,
    ts.Pairwise (fun a b => a.to ≤ b.to) → (applyChain fs ts).Pairwise (fun a b => a.to ≤ b.to) := by
  induction fs with
  | nil => intro ts h; exact h
  | cons f fs ih =>
    intro ts h
    exact ih _ (apply_key_mono f (fun t => t.to) (fun t t' ht' => (onToken_offsets f t t' ht').2.1) ts h)

end TantivyModel.Tok

namespace TantivyModel.Snip
open TantivyModel.Tok

/-- from fragments whose highlights end before the stop offset to the rendered snippet -/
theorem snippet_inside (mode : Nat) (s : Text) (M : Nat) (ts : List STok) (frags : List Frag)
    (e : searchFragments mode M ts = some frags)
    (hf : ∀ g ∈ frags, FI s g ∧ ∀ h ∈ g.hl, h.2 ≤ g.stop) :
    ∃ sn, snippet mode s M ts = some sn ∧
      (∀ h ∈ sn.hl, h.1 ≤ h.2 ∧ h.2 ≤ byteLen sn.fragment ∧
        IsBoundary sn.fragment h.1 ∧ IsBoundary sn.fragment h.2) ∧
      ∃ out, toHtml sn = some out := by
  have fin : ∀ sn : Snippet, (∀ h ∈ sn.hl, h.1 ≤ h.2 ∧ h.2 ≤ byteLen sn.fragment ∧
      IsBoundary sn.fragment h.1 ∧ IsBoundary sn.fragment h.2) → ∃ out, toHtml sn = some out := by
    intro sn hall
    obtain ⟨c1, c2⟩ := collapse_disjoint sn.hl (fun r hr => (hall r hr).1)
    apply toHtmlAux_some sn.fragment (collapse sn.hl) 0 (isBoundary_zero _) _ c2
    intro o ho
    obtain ⟨⟨a, ha, ea⟩, ⟨b, hb, eb⟩⟩ := collapse_endpoints sn.hl o ho
    have := c1 o ho
    exact ⟨Nat.zero_le _, this, by rw [ea]; exact (hall a ha).2.2.1, by rw [eb]; exact (hall b hb).2.2.2⟩
  simp only [snippet, e]
  cases hb : selectBest frags with
  | none => exact ⟨⟨[], []⟩, rfl, by simp, fin _ (by simp)⟩
  | some f =>
    obtain ⟨hfi, hin⟩ := hf f (selectBest_mem frags f hb)
    simp only [mkSnippet_of_FI s f hfi]
    obtain ⟨f1, f2, f3, f4, f5⟩ := hfi
    have hall : ∀ h ∈ (f.hl.map fun h => (h.1 - f.start, h.2 - f.start)),
        h.1 ≤ h.2 ∧ h.2 ≤ byteLen (sliceFrom 0 s f.start f.stop) ∧
        IsBoundary (sliceFrom 0 s f.start f.stop) h.1 ∧ IsBoundary (sliceFrom 0 s f.start f.stop) h.2 := by
      intro h hh
      simp only [List.mem_map] at hh
      obtain ⟨x, hx, rfl⟩ := hh
      obtain ⟨q1, q2, q3, q4, q5⟩ := f5 x hx
      have q6 := hin x hx
      rw [byteLen_slice (Nat.zero_le _) f3 f4 f1]
      exact ⟨by simp only; omega, by simp only; omega,
        isBoundary_slice f3 q4 q1 (by omega), isBoundary_slice f3 q5 (by omega) q6⟩
    exact ⟨_, rfl, hall, fin _ hall⟩


/-! ### end offsets that dip and recover (n-grams): a new record of `offset_to` is always
immediately preceded by a token that holds the previous record, and the last token holds the
record. `R` = record so far, `last` = end offset of the previous token. -/

def RecOkN : Nat → Nat → List Nat → Prop
  | R, last, [] => last = R
  | R, last, x :: xs => (x > R → last = R) ∧ RecOkN (max R x) x xs

/-- the current fragment while the records are respected and no token is longer than `M` -/
def P6 (M : Nat) (s : Text) (f : Frag) (ts : List STok) : Prop :=
  P1 s f ts ∧ (∀ t ∈ ts, t.to - t.from_ ≤ M) ∧
  ∃ R, RecOkN R f.stop (ts.map (·.to)) ∧ (∀ h ∈ f.hl, h.2 ≤ R) ∧ R ≤ f.start + M

theorem P6_next (M : Nat) (s : Text) (g f : Frag) (t : STok) (ts : List STok) (R : Nat)
    (hlen : ∀ x ∈ t :: ts, x.to - x.from_ ≤ M)
    (hrec : RecOkN R f.stop ((t :: ts).map (·.to))) (hg : ∀ h ∈ g.hl, h.2 ≤ max R t.to)
    (hfit : max R t.to ≤ g.start + M) (h1 : P1 s (g.add 0 t) ts) : P6 M s (g.add 0 t) ts := by
  refine ⟨h1, fun x hx => hlen x (List.mem_cons_of_mem _ hx), max R t.to, ?_, ?_, ?_⟩
  · rw [add_stop, stopAfter_zero]
    simp only [List.map_cons, RecOkN] at hrec
    exact hrec.2
  · intro x hx
    rw [add_hl_eq, List.mem_append] at hx
    rcases hx with hx | hx
    · exact hg x hx
    · split at hx
      · simp only [List.mem_singleton] at hx; subst hx; simp only; omega
      · simp at hx
  · rw [add_start]; exact hfit

theorem search_P6 (s : Text) (M : Nat) (ts : List STok) (h : SContract s ts)
    (hlen : ∀ t ∈ ts, t.to - t.from_ ≤ M) (hrec : RecOkN 0 0 (ts.map (·.to))) :
    ∃ frags, searchFragments 0 M ts = some frags ∧
      ∀ g ∈ frags, FI s g ∧ ∀ h ∈ g.hl, h.2 ≤ g.stop := by
  obtain ⟨frags, e, hf⟩ := searchAux_inv' 0 M (P6 M s) (fun f t r h => P1_safe s f t r h.1)
    (fun f t r h hc => by
      obtain ⟨h1, h2, R, h3, h4, h5⟩ := h
      have := P1_safe s f t r h1
      exact P6_next M s f f t r R h2 h3 (fun x hx => by have := h4 x hx; omega) (by omega)
        (P1_add 0 s f t r h1))
    (fun f t r h hc => by
      obtain ⟨h1, h2, R, h3, h4, h5⟩ := h
      have hl := h2 t List.mem_cons_self
      have hft := (h1.2.1.inb t List.mem_cons_self).1
      exact P6_next M s (Frag.new t.from_) f t r R h2 h3 (by simp [Frag.new])
        (by simp only [Frag.new]; omega) (P1_cut 0 s f t r h1))
    ts (Frag.new 0) ⟨P1_init s ts h, hlen, 0, hrec, by simp [Frag.new], by simp [Frag.new]⟩
  refine ⟨frags, e, ?_⟩
  intro g hg
  rcases hf g hg with hend | ⟨t, rest, hP, hc⟩
  · obtain ⟨h1, _, R, h3, h4, _⟩ := hend
    simp only [List.map_nil, RecOkN] at h3
    exact ⟨h1.1, fun x hx => by have := h4 x hx; omega⟩
  · obtain ⟨h1, _, R, h3, h4, h5⟩ := hP
    simp only [List.map_cons, RecOkN] at h3
    have := P1_safe s g t rest h1
    have hlast := h3.1 (by omega)
    exact ⟨h1.1, fun x hx => by have := h4 x hx; omega⟩

/-- in either mode: the record discipline (needed with the plain assignment) or nothing at all
(with the running maximum) -/
theorem search_records (mode : Nat) (s : Text) (M : Nat) (ts : List STok) (h : SContract s ts)
    (hlen : ∀ t ∈ ts, t.to - t.from_ ≤ M) (hrec : RecOkN 0 0 (ts.map (·.to))) :
    ∃ frags, searchFragments mode M ts = some frags ∧
      ∀ g ∈ frags, FI s g ∧ ∀ h ∈ g.hl, h.2 ≤ g.stop := by
  by_cases hm : mode = 0
  · subst hm; exact search_P6 s M ts h hlen hrec
  · exact search_P7 hm s M ts h

/-- a run of consecutive values satisfies the record discipline once its first element does -/
theorem recOk_run : ∀ (n a R last : Nat) (rest : List Nat), (a > R → last = R) →
    RecOkN (max R (a + n)) (a + n) rest → RecOkN R last (List.range' a (n + 1) ++ rest) := by
  intro n
  induction n with
  | zero =>
    intro a R last rest h1 h2
    simp only [List.range'_succ, List.range'_zero, List.cons_append, List.nil_append, RecOkN]
    exact ⟨h1, by simpa using h2⟩
  | succ n ih =>
    intro a R last rest h1 h2
    rw [List.range'_succ, List.cons_append]
    simp only [RecOkN]
    refine ⟨h1, ih (a + 1) (max R a) a rest (by omega) ?_⟩
    have e1 : a + 1 + n = a + (n + 1) := by omega
    have e2 : max (max R a) (a + (n + 1)) = max R (a + (n + 1)) := by omega
    rw [e1, e2]; exact h2

/-- the record discipline is invariant under strictly monotone relabelling -/
theorem recOk_map (f : Nat → Nat) (L : Nat) (hf : ∀ a b, a < L → b < L → (a < b ↔ f a < f b)) :
    ∀ (xs : List Nat) (R last : Nat), R < L → last < L → (∀ x ∈ xs, x < L) →
      RecOkN R last xs → RecOkN (f R) (f last) (xs.map f) := by
  intro xs
  induction xs with
  | nil =>
    intro R last _ _ _ h
    simp only [RecOkN] at h
    simp only [List.map_nil, RecOkN]; rw [h]
  | cons x xs ih =>
    intro R last hR hl hx h
    simp only [RecOkN] at h
    have hxL := hx x List.mem_cons_self
    simp only [List.map_cons, RecOkN]
    constructor
    · intro hgt
      have : x > R := (hf R x hR hxL).mpr hgt
      rw [h.1 this]
    · have hmax : max (f R) (f x) = f (max R x) := by
        by_cases hc : R < x
        · have := (hf R x hR hxL).mp hc
          rw [Nat.max_eq_right (by omega), Nat.max_eq_right (by omega)]
        · have hle : x ≤ R := by omega
          rw [Nat.max_eq_left hle]
          by_cases he : x = R
          · subst he; simp
          · have := (hf x R hxL hR).mp (by omega)
            rw [Nat.max_eq_left (by omega)]
      rw [hmax]
      exact ih (max R x) x (by omega) hxL (fun y hy => hx y (List.mem_cons_of_mem _ hy)) h.2

end TantivyModel.Snip

namespace TantivyModel.Snip
open TantivyModel.Tok

/-- a fragment is within the limit or is spanned by a single token of the stream (the token that
opened it): the exact shape of the S7 finding -/
def P8 (all : List STok) (M : Nat) (s : Text) (f : Frag) (ts : List STok) : Prop :=
  P1 s f ts ∧ (∀ t ∈ ts, t ∈ all) ∧
  (f.stop - f.start ≤ M ∨ ∃ t ∈ all, t.from_ = f.start ∧ t.to = f.stop)

theorem search_P8 (mode : Nat) (s : Text) (M : Nat) (ts : List STok) (h : SContract s ts) :
    ∃ frags, searchFragments mode M ts = some frags ∧
      ∀ g ∈ frags, FI s g ∧
        (g.stop - g.start ≤ M ∨ ∃ t ∈ ts, t.from_ = g.start ∧ t.to = g.stop) := by
  obtain ⟨frags, e, hf⟩ := searchAux_inv mode M (P8 ts M s) (fun f t r h => P1_safe s f t r h.1)
    (fun f t r h hc => by
      obtain ⟨h1, h2, h3⟩ := h
      refine ⟨P1_add mode s f t r h1, fun x hx => h2 x (List.mem_cons_of_mem _ hx), ?_⟩
      rw [add_start, add_stop]
      have hsafe := P1_safe s f t r h1
      rcases stopAfter_cases mode f.stop t.to with e | ⟨e, hle⟩
      · left; rw [e]; omega
      · rw [e]; exact h3)
    (fun f t r h hc => by
      obtain ⟨h1, h2, _⟩ := h
      have ht := (h1.2.1.inb t List.mem_cons_self).1
      refine ⟨P1_cut mode s f t r h1, fun x hx => h2 x (List.mem_cons_of_mem _ hx), ?_⟩
      right
      refine ⟨t, h2 t List.mem_cons_self, ?_, ?_⟩
      · rw [add_start]; rfl
      · rw [add_stop_cut mode t ht])
    ts (Frag.new 0) ⟨P1_init s ts h, fun _ h => h, by left; simp [Frag.new]⟩
  exact ⟨frags, e, fun g hg => by obtain ⟨_, h⟩ := hf g hg; exact ⟨h.1.1, h.2.2⟩⟩

end TantivyModel.Snip

namespace TantivyModel.Snip
open TantivyModel.Tok

/-- the raw highlights are always ordered by their start (the unconditional part of "sorted") -/
def P9 (s : Text) (f : Frag) (ts : List STok) : Prop :=
  P1 s f ts ∧ f.hl.Pairwise (fun a b => a.1 ≤ b.1) ∧ (∀ h ∈ f.hl, ∀ t ∈ ts, h.1 ≤ t.from_)

theorem P9_step (mode : Nat) (s : Text) (g f : Frag) (t : STok) (ts : List STok)
    (h : P9 s f (t :: ts))
    (hg1 : g.hl.Pairwise (fun a b => a.1 ≤ b.1)) (hg2 : ∀ h ∈ g.hl, ∀ t' ∈ t :: ts, h.1 ≤ t'.from_)
    (h1 : P1 s (g.add mode t) ts) : P9 s (g.add mode t) ts := by
  have hmono := (List.pairwise_cons.mp h.1.2.1.mono).1
  refine ⟨h1, ?_, ?_⟩
  · rw [add_hl_eq, List.pairwise_append]
    refine ⟨hg1, by split <;> simp, ?_⟩
    intro a ha b hb
    split at hb
    · simp only [List.mem_singleton] at hb; subst hb
      exact hg2 a ha t List.mem_cons_self
    · simp at hb
  · intro x hx t' ht'
    rw [add_hl_eq, List.mem_append] at hx
    rcases hx with hx | hx
    · exact hg2 x hx t' (List.mem_cons_of_mem _ ht')
    · split at hx
      · simp only [List.mem_singleton] at hx; subst hx; exact hmono t' ht'
      · simp at hx

theorem search_P9 (mode : Nat) (s : Text) (M : Nat) (ts : List STok) (h : SContract s ts) :
    ∃ frags, searchFragments mode M ts = some frags ∧
      ∀ g ∈ frags, FI s g ∧ g.hl.Pairwise (fun a b => a.1 ≤ b.1) := by
  obtain ⟨frags, e, hf⟩ := searchAux_inv mode M (P9 s) (fun f t r h => P1_safe s f t r h.1)
    (fun f t r h _ => P9_step mode s f f t r h h.2.1 h.2.2 (P1_add mode s f t r h.1))
    (fun f t r h _ => P9_step mode s (Frag.new t.from_) f t r h (by simp [Frag.new]) (by simp [Frag.new])
      (P1_cut mode s f t r h.1))
    ts (Frag.new 0) ⟨P1_init s ts h, by simp [Frag.new], by simp [Frag.new]⟩
  exact ⟨frags, e, fun g hg => by obtain ⟨_, h⟩ := hf g hg; exact ⟨h.1.1, h.2.1⟩⟩

end TantivyModel.Snip
