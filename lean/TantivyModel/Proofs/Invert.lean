import TantivyModel.Model.Invert
/-! helper lemmas about the `invert` specification -/
namespace TantivyModel.Invert

theorem term_lt_trans {a b c : Term} (h1 : a < b) (h2 : b < c) : a < c := List.lt_trans h1 h2

theorem term_tricho {a t : Term} (h1 : ¬ t < a) (h2 : t ≠ a) : a < t := by
  have := List.not_lt.mp h1
  rcases List.le_iff_lt_or_eq.mp this with h | h
  · exact h
  · exact absurd h.symm h2

theorem mem_ins (t x : Term) (l : List Term) : x ∈ ins t l ↔ x = t ∨ x ∈ l := by
  induction l with
  | nil => simp [ins]
  | cons a r ih =>
    unfold ins
    split
    · simp
    · split
      · rename_i h; subst h; simp
      · simp [ih]; grind

theorem ins_sorted (t : Term) (l : List Term) (h : l.Pairwise (· < ·)) :
    (ins t l).Pairwise (· < ·) := by
  induction l with
  | nil => simp [ins]
  | cons a r ih =>
    have hp := List.pairwise_cons.mp h
    unfold ins
    split
    · rename_i hta
      apply List.pairwise_cons.mpr
      refine ⟨?_, h⟩
      intro x hx
      rcases List.mem_cons.mp hx with rfl | hx
      · exact hta
      · exact term_lt_trans hta (hp.1 x hx)
    · split
      · exact h
      · rename_i h1 h2
        apply List.pairwise_cons.mpr
        refine ⟨?_, ih hp.2⟩
        intro x hx
        rcases (mem_ins t x r).mp hx with rfl | hx
        · exact term_tricho h1 h2
        · exact hp.1 x hx

theorem foldr_ins_sorted (ts : List Term) : (ts.foldr ins []).Pairwise (· < ·) := by
  induction ts with
  | nil => simp
  | cons t ts ih => exact ins_sorted t _ ih

theorem mem_foldr_ins (ts : List Term) (x : Term) : x ∈ ts.foldr ins [] ↔ x ∈ ts := by
  induction ts with
  | nil => simp
  | cons t ts ih => simp [mem_ins, ih]

theorem termsOf_sorted (gap : Nat) (c : Corpus) : (termsOf gap c).Pairwise (· < ·) :=
  foldr_ins_sorted _

/-- the listed terms are exactly the terms occurring in some document -/
theorem mem_termsOf (gap : Nat) (c : Corpus) (t : Term) :
    t ∈ termsOf gap c ↔ ∃ d ∈ c, ∃ o ∈ docOccs gap d, o.1 = t := by
  unfold termsOf
  rw [mem_foldr_ins]
  simp [List.mem_flatMap]

theorem postingsFrom_spec (gap : Nat) (t : Term) (base : Nat) (c : Corpus) :
    ((postingsFrom gap t base c).map (·.doc)).Pairwise (· < ·) ∧
    (∀ p ∈ postingsFrom gap t base c, base ≤ p.doc ∧ p.doc < base + c.length ∧
      p.tf = p.positions.length ∧ 0 < p.tf ∧
      p.positions = ((docOccs gap (c.getD (p.doc - base) [])).filter (fun o => o.1 = t)).map (·.2)) := by
  induction c generalizing base with
  | nil => simp [postingsFrom]
  | cons d ds ih =>
    have ih := ih (base + 1)
    have hshift : ∀ p : Posting, base + 1 ≤ p.doc →
        (d :: ds).getD (p.doc - base) [] = ds.getD (p.doc - (base + 1)) [] := by
      intro p hp
      have : p.doc - base = (p.doc - (base + 1)) + 1 := by omega
      rw [this, List.getD_cons_succ]
    unfold postingsFrom
    simp only
    split
    · refine ⟨ih.1, ?_⟩
      intro p hp
      have := ih.2 p hp
      refine ⟨by omega, by simp; omega, this.2.2.1, this.2.2.2.1, ?_⟩
      rw [hshift p this.1]; exact this.2.2.2.2
    · rename_i hne
      constructor
      · simp only [List.map_cons]
        apply List.pairwise_cons.mpr
        refine ⟨?_, ih.1⟩
        intro x hx
        obtain ⟨p, hp, rfl⟩ := List.mem_map.mp hx
        have := (ih.2 p hp).1
        omega
      · intro p hp
        rcases List.mem_cons.mp hp with rfl | hp
        · simp only [List.length_cons, Nat.sub_self, List.getD_cons_zero, List.length_map]
          refine ⟨by omega, by omega, trivial, ?_, trivial⟩
          simp only [List.isEmpty_iff, List.map_eq_nil_iff] at hne
          exact List.length_pos_iff.mpr hne
        · have := ih.2 p hp
          refine ⟨by omega, by simp; omega, this.2.2.1, this.2.2.2.1, ?_⟩
          rw [hshift p this.1]; exact this.2.2.2.2

end TantivyModel.Invert
