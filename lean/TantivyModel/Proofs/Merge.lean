import TantivyModel.Model.Merge
/-! helper lemmas for C04 (merge translation and updater reconciliation) -/
namespace TantivyModel.Merge

end TantivyModel.Merge
