import TantivyModel.Model.Merge
/-! helper lemmas for C04 (merge translation and updater reconciliation) -/
namespace TantivyModel.Merge

/-- lexicographic order on `(segment_ord, doc_id)` addresses -/
def addrLt (a b : Nat × Nat) : Prop := a.1 < b.1 ∨ (a.1 = b.1 ∧ a.2 < b.2)

/-- number of live docs in the sources before ordinal `s` -/
def liveBase {α} (segs : List (Segment α)) (s : Nat) : Nat :=
  ((segs.take s).map fun x => x.alive.count true).sum

theorem isAlive_nil (d : Nat) : isAlive [] d = false := by simp [isAlive]

theorem isAlive_cons_zero (a : Bool) (as : List Bool) : isAlive (a :: as) 0 = a := by
  simp [isAlive]

theorem isAlive_cons_succ (a : Bool) (as : List Bool) (d : Nat) :
    isAlive (a :: as) (d + 1) = isAlive as d := by
  simp [isAlive]

theorem isAlive_lt {al : List Bool} {d : Nat} (h : isAlive al d = true) : d < al.length := by
  unfold isAlive at h
  by_cases hd : d < al.length
  · exact hd
  · simp [List.getD, List.getElem?_eq_none (Nat.le_of_not_lt hd)] at h

/-! ### `doc_ids_alive` -/

theorem liveIdsFrom_mem (al : List Bool) (i d : Nat) :
    d ∈ liveIdsFrom i al ↔ i ≤ d ∧ isAlive al (d - i) = true := by
  induction al generalizing i with
  | nil => simp [liveIdsFrom, isAlive_nil]
  | cons a as ih =>
    unfold liveIdsFrom
    by_cases hdi : d = i
    · subst hdi
      cases a <;> simp [ih, isAlive_cons_zero] <;> omega
    · by_cases hlt : i < d
      · have e : d - i = (d - (i + 1)) + 1 := by omega
        cases a <;> simp [ih, e, isAlive_cons_succ, hdi] <;> omega
      · cases a <;> simp [ih, hdi] <;> omega

theorem liveIdsFrom_sorted (al : List Bool) (i : Nat) :
    (liveIdsFrom i al).Pairwise (· < ·) := by
  induction al generalizing i with
  | nil => simp [liveIdsFrom]
  | cons a as ih =>
    unfold liveIdsFrom
    cases a
    · simpa using ih (i + 1)
    · simp only [if_true, List.pairwise_cons]
      refine ⟨?_, ih (i + 1)⟩
      intro d hd
      have := (liveIdsFrom_mem as (i + 1) d).1 hd
      omega

theorem liveIds_mem (al : List Bool) (d : Nat) : d ∈ liveIds al ↔ isAlive al d = true := by
  simp [liveIds, liveIdsFrom_mem]

theorem liveIdsFrom_length (al : List Bool) (i : Nat) :
    (liveIdsFrom i al).length = al.count true := by
  induction al generalizing i with
  | nil => simp [liveIdsFrom]
  | cons a as ih => cases a <;> simp [liveIdsFrom, ih]

/-! ### the new→old table -/

theorem newToOldFrom_mem {α} (segs : List (Segment α)) (i s d : Nat) :
    (s, d) ∈ newToOldFrom i segs ↔
      i ≤ s ∧ ∃ seg, segs[s - i]? = some seg ∧ isAlive seg.alive d = true := by
  induction segs generalizing i with
  | nil => simp [newToOldFrom]
  | cons x rest ih =>
    simp only [newToOldFrom, List.mem_append, List.mem_map, Prod.mk.injEq, ih]
    constructor
    · rintro (⟨d', hd', rfl, rfl⟩ | ⟨hle, seg, hseg, hal⟩)
      · exact ⟨Nat.le_refl _, x, by simp, (liveIds_mem _ _).1 hd'⟩
      · refine ⟨by omega, seg, ?_, hal⟩
        have e : s - i = (s - (i + 1)) + 1 := by omega
        rw [e]; simpa using hseg
    · rintro ⟨hle, seg, hseg, hal⟩
      by_cases hs : s = i
      · subst hs
        left
        simp at hseg
        subst hseg
        exact ⟨d, (liveIds_mem _ _).2 hal, rfl, rfl⟩
      · right
        refine ⟨by omega, seg, ?_, hal⟩
        have e : s - i = (s - (i + 1)) + 1 := by omega
        rw [e] at hseg; simpa using hseg

theorem newToOldFrom_sorted {α} (segs : List (Segment α)) (i : Nat) :
    (newToOldFrom i segs).Pairwise addrLt := by
  induction segs generalizing i with
  | nil => simp [newToOldFrom]
  | cons x rest ih =>
    simp only [newToOldFrom]
    rw [List.pairwise_append]
    refine ⟨?_, ih (i + 1), ?_⟩
    · rw [List.pairwise_map]
      exact (liveIdsFrom_sorted x.alive 0).imp (fun h => Or.inr ⟨rfl, h⟩)
    · intro a ha b hb
      simp only [List.mem_map] at ha
      obtain ⟨d, _, rfl⟩ := ha
      obtain ⟨s, d'⟩ := b
      have := (newToOldFrom_mem rest (i + 1) s d').1 hb
      left
      show i < s
      omega

theorem newToOldFrom_length {α} (segs : List (Segment α)) (i : Nat) :
    (newToOldFrom i segs).length = (segs.map fun x => x.alive.count true).sum := by
  induction segs generalizing i with
  | nil => simp [newToOldFrom]
  | cons x rest ih => simp [newToOldFrom, ih, liveIds, liveIdsFrom_length]

theorem addrLt_irrefl (a : Nat × Nat) : ¬ addrLt a a := by
  unfold addrLt; omega

theorem newToOld_nodup {α} (segs : List (Segment α)) : (newToOld segs).Nodup := by
  have h := newToOldFrom_sorted segs 0
  exact h.imp (fun {a b} hab heq => by subst heq; exact addrLt_irrefl _ hab)

/-! ### filling the old→new tables -/

/-- address `(s, d)` is inside the table shape -/
def inB (m : Tables) (s d : Nat) : Prop := ∃ row, m[s]? = some row ∧ d < row.length

theorem getAddr_setAddr_same (m : Tables) (a : Nat × Nat) (n : Nat) (h : inB m a.1 a.2) :
    getAddr (setAddr m a n) a.1 a.2 = some n := by
  obtain ⟨row, hrow, hlt⟩ := h
  simp [getAddr, setAddr, hrow, hlt]

theorem getAddr_setAddr_other (m : Tables) (a : Nat × Nat) (n s d : Nat) (h : (s, d) ≠ a) :
    getAddr (setAddr m a n) s d = getAddr m s d := by
  obtain ⟨a1, a2⟩ := a
  simp only [getAddr, setAddr, List.getElem?_modify]
  by_cases hs : a1 = s
  · subst hs
    have hd : a2 ≠ d := by intro e; subst e; exact h rfl
    cases hm : m[a1]? with
    | none => simp
    | some row => simp [hd]
  · simp [hs]

theorem inB_setAddr (m : Tables) (a : Nat × Nat) (n s d : Nat) :
    inB (setAddr m a n) s d ↔ inB m s d := by
  obtain ⟨a1, a2⟩ := a
  simp only [inB, setAddr, List.getElem?_modify]
  by_cases hs : a1 = s
  · subst hs
    cases hm : m[a1]? with
    | none => simp
    | some row => simp
  · simp [hs]

theorem getAddr_fillFrom_notMem (l : List (Nat × Nat)) (m : Tables) (k s d : Nat)
    (h : (s, d) ∉ l) : getAddr (fillFrom m k l) s d = getAddr m s d := by
  induction l generalizing m k with
  | nil => rfl
  | cons a rest ih =>
    simp only [List.mem_cons, not_or] at h
    simp only [fillFrom]
    rw [ih _ _ h.2, getAddr_setAddr_other _ _ _ _ _ h.1]

theorem getAddr_fillFrom_mem (l : List (Nat × Nat)) (m : Tables) (k s d j : Nat)
    (hnd : l.Nodup) (hb : ∀ a ∈ l, inB m a.1 a.2) (hj : l[j]? = some (s, d)) :
    getAddr (fillFrom m k l) s d = some (k + j) := by
  induction l generalizing m k j with
  | nil => simp at hj
  | cons a rest ih =>
    simp only [fillFrom]
    rw [List.nodup_cons] at hnd
    cases j with
    | zero =>
      simp at hj
      subst hj
      rw [getAddr_fillFrom_notMem _ _ _ _ _ hnd.1]
      simpa using getAddr_setAddr_same m (s, d) k (hb _ (by simp))
    | succ j' =>
      simp at hj
      have := ih (setAddr m a k) (k + 1) j' hnd.2
        (fun b hbm => (inB_setAddr m a k b.1 b.2).2 (hb b (by simp [hbm]))) hj
      rw [this]; congr 1; omega

theorem getAddr_emptyTables {α} (segs : List (Segment α)) (s d : Nat) :
    getAddr (emptyTables segs) s d = none := by
  simp only [getAddr, emptyTables, List.getElem?_map]
  cases segs[s]? with
  | none => simp
  | some seg =>
    simp only [Option.map_some]
    cases h : (List.replicate seg.alive.length (none : Option Nat))[d]? with
    | none => rfl
    | some v =>
      rw [List.getElem?_eq_some_iff] at h
      obtain ⟨_, h⟩ := h
      simp at h
      simp [← h]

theorem newToOld_inB {α} (segs : List (Segment α)) :
    ∀ a ∈ newToOld segs, inB (emptyTables segs) a.1 a.2 := by
  rintro ⟨s, d⟩ ha
  obtain ⟨_, seg, hseg, hal⟩ := (newToOldFrom_mem segs 0 s d).1 ha
  refine ⟨List.replicate seg.alive.length none, ?_, ?_⟩
  · simp only [emptyTables, List.getElem?_map]
    simp at hseg
    simp [hseg]
  · simpa using isAlive_lt hal

/-- the filled tables are the partial inverse of the new→old table -/
theorem oldToNew_inverse {α} (segs : List (Segment α)) (s d n : Nat) :
    getAddr (oldToNew segs) s d = some n ↔ (newToOld segs)[n]? = some (s, d) := by
  unfold oldToNew
  constructor
  · intro h
    by_cases hm : (s, d) ∈ newToOld segs
    · obtain ⟨j, hj⟩ := List.getElem?_of_mem hm
      have := getAddr_fillFrom_mem _ (emptyTables segs) 0 s d j (newToOld_nodup segs)
        (newToOld_inB segs) hj
      rw [this] at h
      simp at h
      subst h
      exact hj
    · rw [getAddr_fillFrom_notMem _ _ _ _ _ hm, getAddr_emptyTables] at h
      cases h
  · intro h
    have := getAddr_fillFrom_mem _ (emptyTables segs) 0 s d n (newToOld_nodup segs)
      (newToOld_inB segs) h
    simpa using this

/-- deleted documents (and out-of-range addresses) have no new id -/
theorem oldToNew_none {α} (segs : List (Segment α)) (s d : Nat)
    (h : ∀ seg, segs[s]? = some seg → isAlive seg.alive d = false) :
    getAddr (oldToNew segs) s d = none := by
  unfold oldToNew
  have hm : (s, d) ∉ newToOld segs := by
    intro hm
    obtain ⟨_, seg, hseg, hal⟩ := (newToOldFrom_mem segs 0 s d).1 hm
    simp at hseg
    rw [h seg hseg] at hal
    cases hal
  rw [getAddr_fillFrom_notMem _ _ _ _ _ hm, getAddr_emptyTables]

/-! ### closed form of the old→new tables -/

theorem rank_cons_succ (a : Bool) (as : List Bool) (d : Nat) :
    rank (a :: as) (d + 1) = (if a then 1 else 0) + rank as d := by
  cases a <;> simp [rank, List.take_succ_cons] <;> omega

theorem liveIdsFrom_getElem?_rank (al : List Bool) (k d : Nat) (h : isAlive al d = true) :
    (liveIdsFrom k al)[rank al d]? = some (k + d) := by
  induction al generalizing k d with
  | nil => simp [isAlive_nil] at h
  | cons a as ih =>
    cases d with
    | zero =>
      rw [isAlive_cons_zero] at h
      subst h
      simp [liveIdsFrom, rank]
    | succ d' =>
      rw [isAlive_cons_succ] at h
      rw [rank_cons_succ]
      cases a
      · simp only [liveIdsFrom, Bool.false_eq_true, if_false, Nat.zero_add]
        rw [ih (k + 1) d' h]; congr 1; omega
      · simp only [liveIdsFrom, if_true]
        rw [Nat.add_comm 1, List.getElem?_cons_succ, ih (k + 1) d' h]; congr 1; omega

theorem newToOldFrom_getElem? {α} (segs : List (Segment α)) (i s d : Nat) (seg : Segment α)
    (hs : segs[s]? = some seg) (h : isAlive seg.alive d = true) :
    (newToOldFrom i segs)[liveBase segs s + rank seg.alive d]? = some (i + s, d) := by
  induction segs generalizing i s with
  | nil => simp at hs
  | cons x rest ih =>
    cases s with
    | zero =>
      simp at hs
      subst hs
      have h1 := liveIdsFrom_getElem?_rank x.alive 0 d h
      have hlt : rank x.alive d < ((liveIds x.alive).map fun d => (i, d)).length := by
        have := (List.getElem?_eq_some_iff.1 h1).1
        simpa [liveIds] using this
      simp only [newToOldFrom, liveBase, List.take_zero, List.map_nil, List.sum_nil, Nat.zero_add]
      rw [List.getElem?_append_left hlt, List.getElem?_map]
      simp only [liveIds]
      rw [h1]
      simp
    | succ s' =>
      simp at hs
      have hb : liveBase (x :: rest) (s' + 1) = x.alive.count true + liveBase rest s' := by
        simp [liveBase, List.take_succ_cons]
      have hlen : ((liveIds x.alive).map fun d => (i, d)).length = x.alive.count true := by
        simp [liveIds, liveIdsFrom_length]
      simp only [newToOldFrom]
      rw [hb, List.getElem?_append_right (by rw [hlen]; omega), hlen]
      have e : x.alive.count true + liveBase rest s' + rank seg.alive d - x.alive.count true
          = liveBase rest s' + rank seg.alive d := by omega
      rw [e, ih (i + 1) s' hs]
      congr 2; omega

/-- closed form: a live doc `d` of source `s` gets the number of live docs before it -/
theorem oldToNew_closed {α} (segs : List (Segment α)) (s d : Nat) (seg : Segment α)
    (hs : segs[s]? = some seg) :
    getAddr (oldToNew segs) s d =
      if isAlive seg.alive d then some (liveBase segs s + rank seg.alive d) else none := by
  by_cases h : isAlive seg.alive d = true
  · rw [if_pos h]
    apply (oldToNew_inverse segs s d _).2
    have := newToOldFrom_getElem? segs 0 s d seg hs h
    simpa [newToOld] using this
  · rw [if_neg h]
    apply oldToNew_none
    intro seg' hs'
    rw [hs] at hs'
    cases hs'
    simpa using h

/-- the postings of one source, remapped through its filled table, are exactly its live
postings (renumbered by rank) shifted by the number of live docs of the earlier sources -/
theorem remapPostings_closed {α} (segs : List (Segment α)) (s : Nat) (seg : Segment α)
    (hs : segs[s]? = some seg) (ps : List Posting) :
    remapPostings (oldToNew segs) s ps = shift (liveBase segs s) (livePostings seg.alive ps) := by
  induction ps with
  | nil => rfl
  | cons p rest ih =>
    simp only [remapPostings, livePostings, shift, List.filterMap_cons] at ih ⊢
    rw [oldToNew_closed segs s p.doc seg hs]
    by_cases h : isAlive seg.alive p.doc = true
    · simp only [h, if_true, List.map_cons]
      rw [ih]
      congr 2
      omega
    · simp only [h]
      exact ih

/-! ### per-document data -/

theorem liveDocs_replicate_true {α} (l : List α) :
    liveDocs l (List.replicate l.length true) = l := by
  induction l with
  | nil => rfl
  | cons a as ih => simp [List.replicate_succ, liveDocs, ih]

theorem liveDocs_length {α} (docs : List α) (al : List Bool) (h : docs.length = al.length) :
    (liveDocs docs al).length = al.count true := by
  induction docs generalizing al with
  | nil => cases al <;> simp_all [liveDocs]
  | cons d ds ih =>
    cases al with
    | nil => simp at h
    | cons a as =>
      simp at h
      cases a <;> simp [liveDocs, ih as h]

theorem liveDocs_append {α} (d1 d2 : List α) (a1 a2 : List Bool) (h : d1.length = a1.length) :
    liveDocs (d1 ++ d2) (a1 ++ a2) = liveDocs d1 a1 ++ liveDocs d2 a2 := by
  induction d1 generalizing a1 with
  | nil => cases a1 <;> simp_all [liveDocs]
  | cons d ds ih =>
    cases a1 with
    | nil => simp at h
    | cons a as =>
      simp at h
      cases a <;> simp [liveDocs, ih as h]

theorem liveDocs_flatten {α} (segs : List (Segment α))
    (hlen : ∀ s ∈ segs, s.docs.length = s.alive.length) :
    liveDocs (segs.map (·.docs)).flatten (segs.map (·.alive)).flatten
      = (segs.map fun s => liveDocs s.docs s.alive).flatten := by
  induction segs with
  | nil => rfl
  | cons x rest ih =>
    simp only [List.map_cons, List.flatten_cons]
    rw [liveDocs_append _ _ _ _ (hlen x (by simp)), ih (fun s hs => hlen s (by simp [hs]))]

theorem filterMap_congr' {α β} (f g : α → Option β) (l : List α) (h : ∀ x ∈ l, f x = g x) :
    l.filterMap f = l.filterMap g := by
  induction l with
  | nil => rfl
  | cons a as ih =>
    simp only [List.filterMap_cons, h a (by simp)]
    rw [ih (fun x hx => h x (by simp [hx]))]

theorem liveIdsFrom_filterMap {α} (docs : List α) (al : List Bool) (k : Nat)
    (h : docs.length = al.length) :
    (liveIdsFrom k al).filterMap (fun d => docs[d - k]?) = liveDocs docs al := by
  induction al generalizing docs k with
  | nil => cases docs <;> simp_all [liveIdsFrom, liveDocs]
  | cons a as ih =>
    cases docs with
    | nil => simp at h
    | cons d ds =>
      simp at h
      have step : (liveIdsFrom (k + 1) as).filterMap (fun x => (d :: ds)[x - k]?) = liveDocs ds as := by
        rw [← ih ds (k + 1) h]
        apply filterMap_congr'
        intro x hx
        have := ((liveIdsFrom_mem as (k + 1) x).1 hx).1
        have e : x - k = (x - (k + 1)) + 1 := by omega
        rw [e]; simp
      cases a
      · simpa [liveIdsFrom, liveDocs] using step
      · simp only [liveIdsFrom, if_true, List.filterMap_cons, Nat.sub_self, List.getElem?_cons_zero,
          liveDocs]
        rw [step]

theorem copyDocs_newToOldFrom {α} (pre rest : List (Segment α))
    (hlen : ∀ s ∈ rest, s.docs.length = s.alive.length) :
    copyDocs (pre ++ rest) (newToOldFrom pre.length rest)
      = (rest.map fun s => liveDocs s.docs s.alive).flatten := by
  induction rest generalizing pre with
  | nil => simp [newToOldFrom, copyDocs]
  | cons x rest' ih =>
    simp only [newToOldFrom, copyDocs, List.filterMap_append, List.map_cons, List.flatten_cons]
    congr 1
    · rw [List.filterMap_map]
      have := liveIdsFrom_filterMap x.docs x.alive 0 (hlen x (by simp))
      rw [← this]
      apply filterMap_congr'
      intro d _
      simp [Function.comp]
    · have := ih (pre ++ [x]) (fun s hs => hlen s (by simp [hs]))
      simp only [copyDocs, List.length_append, List.length_singleton, List.append_assoc,
        List.singleton_append] at this
      exact this

/-- per-document data of the merged segment = live docs of the sources in source order -/
theorem mergeModel_docs {α} (segs : List (Segment α))
    (hlen : ∀ s ∈ segs, s.docs.length = s.alive.length) :
    (dump (mergeModel segs)).docs = (mergeSpec segs).docs := by
  have h := copyDocs_newToOldFrom [] segs hlen
  simp only [List.nil_append, List.length_nil] at h
  have hl : (copyDocs segs (newToOld segs)).length = (newToOld segs).length := by
    rw [newToOld, h, newToOldFrom_length, List.length_flatten, List.map_map]
    congr 1
    apply List.map_congr_left
    intro s hs
    exact liveDocs_length s.docs s.alive (hlen s hs)
  show liveDocs (copyDocs segs (newToOld segs)) (List.replicate (newToOld segs).length true)
    = liveDocs (segs.map (·.docs)).flatten (segs.map (·.alive)).flatten
  rw [← hl, liveDocs_replicate_true, liveDocs_flatten segs hlen]
  exact h

/-- stacking whole stores of delete-free sources = copying their live docs one by one -/
theorem mergedStore_eq {α} (stackable : Nat → Bool) (i : Nat) (segs : List (Segment α))
    (hlen : ∀ s ∈ segs, s.docs.length = s.alive.length) :
    mergedStore stackable i segs = (segs.map fun s => liveDocs s.docs s.alive).flatten := by
  induction segs generalizing i with
  | nil => rfl
  | cons x rest ih =>
    simp only [mergedStore, List.map_cons, List.flatten_cons]
    rw [ih (i + 1) (fun s hs => hlen s (by simp [hs]))]
    congr 1
    by_cases hd : hasDeletes x.alive = true
    · simp [hd]
    · have hall : x.alive = List.replicate x.alive.length true := by
        apply List.eq_replicate_iff.2 ⟨rfl, ?_⟩
        intro b hb
        cases b
        · exfalso; apply hd; simp [hasDeletes]; exact hb
        · rfl
      by_cases hst : stackable i = true
      · simp only [hd, hst, Bool.not_true, Bool.or_self, Bool.false_eq_true, if_false]
        rw [hall, ← hlen x (by simp), liveDocs_replicate_true]
      · simp [hst]

/-! ### postings of the concatenation -/

theorem postingsOk_bound (n : Nat) (ps : List Posting) (h : postingsOk n ps = true) :
    ∀ p ∈ ps, p.doc < n := by
  induction ps with
  | nil => simp
  | cons p rest ih =>
    cases rest with
    | nil => simpa [postingsOk] using h
    | cons q rest' =>
      simp only [postingsOk, Bool.and_eq_true, decide_eq_true_eq] at h
      have hq := ih h.2
      intro x hx
      rw [List.mem_cons] at hx
      rcases hx with rfl | hx
      · have := hq q (by simp); omega
      · exact hq x hx

theorem isAlive_append_mid (A al B : List Bool) (d : Nat) (hd : d < al.length) :
    isAlive (A ++ (al ++ B)) (d + A.length) = isAlive al d := by
  unfold isAlive
  simp only [List.getD_eq_getElem?_getD]
  rw [List.getElem?_append_right (by omega), Nat.add_sub_cancel, List.getElem?_append_left hd]

theorem rank_append_mid (A al B : List Bool) (d : Nat) (hd : d < al.length) :
    rank (A ++ (al ++ B)) (d + A.length) = A.count true + rank al d := by
  unfold rank
  rw [Nat.add_comm d, List.take_length_add_append, List.count_append,
    List.take_append_of_le_length (by omega)]

theorem livePostings_shift_mid (A al B : List Bool) (ps : List Posting)
    (h : ∀ p ∈ ps, p.doc < al.length) :
    livePostings (A ++ (al ++ B)) (shift A.length ps) = shift (A.count true) (livePostings al ps) := by
  induction ps with
  | nil => rfl
  | cons p rest ih =>
    have hp := h p (by simp)
    have ih' := ih (fun q hq => h q (by simp [hq]))
    simp only [livePostings, shift, List.map_cons, List.filterMap_cons] at ih' ⊢
    rw [isAlive_append_mid A al B p.doc hp, rank_append_mid A al B p.doc hp]
    by_cases ha : isAlive al p.doc = true
    · simp only [ha, if_true, List.map_cons]
      rw [ih']
      congr 2
      omega
    · simp only [ha]
      exact ih'

theorem livePostings_append (al : List Bool) (p1 p2 : List Posting) :
    livePostings al (p1 ++ p2) = livePostings al p1 ++ livePostings al p2 := by
  simp [livePostings]

theorem livePostings_length (al : List Bool) (ps : List Posting) :
    (livePostings al ps).length = docFreqGivenDeletes al ps := by
  induction ps with
  | nil => rfl
  | cons p rest ih =>
    simp only [livePostings, docFreqGivenDeletes] at ih ⊢
    by_cases hp : isAlive al p.doc = true
    · simp [hp, ih]
    · simp [hp, ih]

theorem liveBase_append {α} (pre : List (Segment α)) (x : Segment α) (rest : List (Segment α)) :
    liveBase (pre ++ x :: rest) pre.length = ((pre.map (·.alive)).flatten).count true := by
  simp [liveBase, List.count_flatten, List.map_map]
  rfl

/-- for every key: the merged posting list (sources with live doc_freq 0 skipped, others
remapped through their tables) is the live posting list of the concatenation, renumbered; the
accumulated `total_doc_freq` is its length -/
theorem mergedTermFrom_eq {α} (k : Key) (pre rest : List (Segment α))
    (hpost : ∀ s ∈ rest, ∀ t ∈ s.terms, postingsOk s.alive.length t.2 = true) :
    (mergedTermFrom (oldToNew (pre ++ rest)) k pre.length rest).2
      = livePostings (((pre ++ rest).map (·.alive)).flatten)
          (concatPostings k rest ((pre.map (·.alive)).flatten).length) ∧
    (mergedTermFrom (oldToNew (pre ++ rest)) k pre.length rest).1
      = (mergedTermFrom (oldToNew (pre ++ rest)) k pre.length rest).2.length := by
  induction rest generalizing pre with
  | nil => simp [mergedTermFrom, concatPostings, livePostings]
  | cons x rest' ih =>
    have hx : (pre ++ x :: rest')[pre.length]? = some x := by simp
    have hb : ∀ p ∈ postingsOf x.terms k, p.doc < x.alive.length := by
      unfold postingsOf
      cases hl : x.terms.lookup k with
      | none => simp
      | some ps =>
        have hm : (k, ps) ∈ x.terms := by
          have := List.lookup_eq_some_iff.1 hl
          obtain ⟨l1, l2, he, _⟩ := this
          rw [he]; simp
        exact postingsOk_bound _ _ (hpost x (by simp) (k, ps) hm)
    have hrem := remapPostings_closed (pre ++ x :: rest') pre.length x hx (postingsOf x.terms k)
    have ih' := ih (pre ++ [x]) (fun s hs => hpost s (by simp [hs]))
    simp only [List.append_assoc, List.singleton_append, List.length_append, List.length_singleton,
      List.map_append, List.map_cons, List.map_nil, List.flatten_append, List.flatten_cons,
      List.flatten_nil, List.append_nil] at ih'
    have hall : ((pre ++ x :: rest').map (·.alive)).flatten
        = (pre.map (·.alive)).flatten ++ (x.alive ++ (rest'.map (·.alive)).flatten) := by simp
    rw [← hall] at ih'
    have hspec : livePostings (((pre ++ x :: rest').map (·.alive)).flatten)
        (shift ((pre.map (·.alive)).flatten).length (postingsOf x.terms k))
        = remapPostings (oldToNew (pre ++ x :: rest')) pre.length (postingsOf x.terms k) := by
      rw [hrem, liveBase_append, hall]
      exact livePostings_shift_mid _ _ _ _ hb
    have hdf : (remapPostings (oldToNew (pre ++ x :: rest')) pre.length (postingsOf x.terms k)).length
        = docFreqGivenDeletes x.alive (postingsOf x.terms k) := by
      rw [hrem]; simp [shift, livePostings_length]
    simp only [mergedTermFrom, concatPostings]
    rw [livePostings_append, hspec]
    by_cases hpos : docFreqGivenDeletes x.alive (postingsOf x.terms k) > 0
    · simp only [hpos, if_true]
      refine ⟨by rw [ih'.1], ?_⟩
      rw [List.length_append, hdf, ih'.2]
    · have hz : docFreqGivenDeletes x.alive (postingsOf x.terms k) = 0 := by omega
      have hnil : remapPostings (oldToNew (pre ++ x :: rest')) pre.length (postingsOf x.terms k) = [] :=
        List.eq_nil_of_length_eq_zero (hdf.trans hz)
      simp only [hpos, if_false, hnil, List.nil_append]
      exact ⟨ih'.1, ih'.2⟩

/-! ### assembling the translation theorem -/

theorem rank_lt_count (al : List Bool) (d : Nat) (h : isAlive al d = true) :
    rank al d < al.count true := by
  have h1 := liveIdsFrom_getElem?_rank al 0 d h
  have := (List.getElem?_eq_some_iff.1 h1).1
  rwa [liveIdsFrom_length] at this

theorem livePostings_bound (al : List Bool) (ps : List Posting) :
    ∀ q ∈ livePostings al ps, q.doc < al.count true := by
  intro q hq
  simp only [livePostings, List.mem_filterMap] at hq
  obtain ⟨p, _, hp⟩ := hq
  by_cases ha : isAlive al p.doc = true
  · simp only [ha, if_true, Option.some.injEq] at hp
    subst hp
    exact rank_lt_count al p.doc ha
  · simp [ha] at hp

theorem isAlive_replicate_true (n d : Nat) (h : d < n) : isAlive (List.replicate n true) d = true := by
  simp [isAlive, List.getD_eq_getElem?_getD, h]

theorem rank_replicate_true (n d : Nat) (h : d ≤ n) : rank (List.replicate n true) d = d := by
  simp [rank, List.take_replicate, Nat.min_eq_left h]

/-- `dump` does not renumber an all-alive segment -/
theorem livePostings_replicate_true (n : Nat) (ps : List Posting) (h : ∀ p ∈ ps, p.doc < n) :
    livePostings (List.replicate n true) ps = ps := by
  induction ps with
  | nil => rfl
  | cons p rest ih =>
    have hp := h p (by simp)
    have ih' := ih (fun q hq => h q (by simp [hq]))
    simp only [livePostings, List.filterMap_cons] at ih' ⊢
    rw [isAlive_replicate_true n p.doc hp, rank_replicate_true n p.doc (by omega)]
    simp only [if_true]
    rw [ih']

theorem terms_glue (keys : List Key) (F : Key → Nat × List Posting) (G : Key → List Posting)
    (n : Nat) (h : ∀ k, (F k).2 = G k ∧ (F k).1 = (G k).length)
    (hb : ∀ k, ∀ p ∈ G k, p.doc < n) :
    dropEmpty ((((keys.map fun k => (k, (F k).1, (F k).2)).filter fun t => t.2.1 > 0).map
        fun t => (t.1, t.2.2)).map fun t => (t.1, livePostings (List.replicate n true) t.2))
      = dropEmpty (keys.map fun k => (k, G k)) := by
  induction keys with
  | nil => rfl
  | cons k rest ih =>
    obtain ⟨h2, h1⟩ := h k
    simp only [List.map_cons, List.filter_cons, dropEmpty] at ih ⊢
    by_cases hpos : (F k).1 > 0
    · have hne : (G k).isEmpty = false := by
        cases hg : G k with
        | nil => rw [hg] at h1; simp at h1; omega
        | cons a as => rfl
      simp only [hpos, decide_true, if_true, List.map_cons, List.filter_cons]
      rw [h2, livePostings_replicate_true n (G k) (hb k)]
      simp only [hne, Bool.not_false, if_true]
      rw [ih]
    · have he : (G k).isEmpty = true := by
        cases hg : G k with
        | nil => rfl
        | cons a as => rw [hg] at h1; simp at h1; omega
      simp only [hpos, decide_false, Bool.false_eq_true, if_false, he, Bool.not_true]
      exact ih

theorem mergeModel_terms {α} (segs : List (Segment α))
    (hpost : ∀ s ∈ segs, ∀ t ∈ s.terms, postingsOk s.alive.length t.2 = true) :
    (dump (mergeModel segs)).terms = (mergeSpec segs).terms := by
  have hn : (newToOld segs).length = ((segs.map (·.alive)).flatten).count true := by
    rw [newToOld, newToOldFrom_length, List.count_flatten, List.map_map]
    rfl
  have key := terms_glue (allKeys segs) (fun k => mergedTermFrom (oldToNew segs) k 0 segs)
    (fun k => livePostings ((segs.map (·.alive)).flatten) (concatPostings k segs 0))
    (newToOld segs).length
    (fun k => by
      have h := mergedTermFrom_eq k [] segs hpost
      simp only [List.nil_append, List.length_nil, List.map_nil, List.flatten_nil] at h
      exact ⟨h.1, by rw [h.2, h.1]⟩)
    (fun k p hp => by rw [hn]; exact livePostings_bound _ _ p hp)
  simp only [dump, mergeModel, mergedTerms, mergeSpec, concat, List.map_map]
  simp only [List.map_map] at key
  exact key

/-! ### updater -/

theorem endMergeWith_discard_epoch (b : Bool) (st : State) (r : Running) (h : r.epoch ≠ st.epoch) :
    endMergeWith b st r = st := by
  simp [endMergeWith, h]

theorem endMergeWith_discard_missing (b : Bool) (st : State) (r : Running)
    (hu : containsAll st.uncommitted r.sources = false)
    (hc : containsAll st.committed r.sources = false) :
    endMergeWith b st r = st := by
  unfold endMergeWith
  split
  · rfl
  · simp [hu, hc]

/-! ### updater: `advance_deletes` algebra -/

/-- a doc is hit by one of the operations -/
def killedBy (ops : List DelOp) (d : DocRec) : Bool := ops.any fun op => hits op d

theorem applyOp_length (docs : List DocRec) (al : List Bool) (op : DelOp)
    (h : docs.length = al.length) : (applyOp docs al op).length = docs.length := by
  simp [applyOp, h]

theorem liveDocs_applyOp (docs : List DocRec) (al : List Bool) (op : DelOp)
    (h : docs.length = al.length) :
    liveDocs docs (applyOp docs al op) = (liveDocs docs al).filter fun d => !hits op d := by
  induction docs generalizing al with
  | nil => cases al <;> simp [liveDocs]
  | cons d ds ih =>
    cases al with
    | nil => simp at h
    | cons a as =>
      simp at h
      have ih' := ih as h
      simp only [applyOp, List.zip_cons_cons, List.map_cons] at ih' ⊢
      cases a <;> cases hh : hits op d <;> simp [liveDocs, ih', hh]

theorem liveDocs_foldl_applyOp (ops : List DelOp) (docs : List DocRec) (al : List Bool)
    (h : docs.length = al.length) :
    liveDocs docs (ops.foldl (applyOp docs) al) = (liveDocs docs al).filter fun d => !killedBy ops d := by
  induction ops generalizing al with
  | nil =>
    simp only [List.foldl_nil, killedBy, List.any_nil, Bool.not_false]
    exact (List.filter_eq_self.2 (fun _ _ => rfl)).symm
  | cons op rest ih =>
    simp only [List.foldl_cons]
    rw [ih _ (by rw [applyOp_length docs al op h]), liveDocs_applyOp docs al op h, List.filter_filter]
    congr 1
    funext d
    simp [killedBy, List.any_cons, Bool.and_comm]

theorem liveDocs_advance (q : List DelOp) (e : Entry) (t : Nat) (h : e.docs.length = e.alive.length) :
    liveDocs (advance q e t).docs (advance q e t).alive
      = (liveDocs e.docs e.alive).filter fun d => !killedBy (consumed q e.cursor t) d := by
  simp only [advance]
  exact liveDocs_foldl_applyOp _ _ _ h

theorem advance_wf (q : List DelOp) (e : Entry) (t : Nat) (h : e.docs.length = e.alive.length) :
    (advance q e t).docs.length = (advance q e t).alive.length := by
  simp only [advance]
  generalize consumed q e.cursor t = ops
  induction ops generalizing e with
  | nil => simpa using h
  | cons op rest ih =>
    simp only [List.foldl_cons]
    have := ih { e with alive := applyOp e.docs e.alive op } (by simp [applyOp, h])
    simpa using this

theorem takeWhile_weaken {α} (p1 p2 : α → Bool) (l : List α) (h : ∀ x, p1 x = true → p2 x = true) :
    l.takeWhile p2 = l.takeWhile p1 ++ (l.dropWhile p1).takeWhile p2 := by
  induction l with
  | nil => rfl
  | cons a as ih =>
    by_cases h1 : p1 a = true
    · simp [h1, h a h1, ih]
    · simp [h1]

theorem drop_takeWhile_length {α} (p : α → Bool) (l : List α) :
    l.drop (l.takeWhile p).length = l.dropWhile p := by
  induction l with
  | nil => rfl
  | cons a as ih =>
    by_cases h : p a = true <;> simp [h, ih]

/-- consuming up to `t1` and then up to `t2 ≥ t1` is consuming up to `t2` -/
theorem consumed_split (q : List DelOp) (c t1 t2 : Nat) (h : t1 ≤ t2) :
    consumed q c t2 = consumed q c t1 ++ consumed q (c + (consumed q c t1).length) t2 := by
  unfold consumed
  rw [takeWhile_weaken (fun op => decide (op.opstamp ≤ t1)) (fun op => decide (op.opstamp ≤ t2))
    (q.drop c) (fun x hx => by simp at hx ⊢; omega)]
  congr 2
  rw [← List.drop_drop, drop_takeWhile_length]

theorem killedBy_append (a b : List DelOp) (d : DocRec) :
    killedBy (a ++ b) d = (killedBy a d || killedBy b d) := by
  simp [killedBy, List.any_append]

/-- `advance_deletes` composes: advancing to `t1` and later to `t2 ≥ t1` = advancing to `t2` -/
theorem liveDocs_advance_advance (q : List DelOp) (e : Entry) (t1 t2 : Nat) (h : t1 ≤ t2)
    (hwf : e.docs.length = e.alive.length) :
    liveDocs (advance q (advance q e t1) t2).docs (advance q (advance q e t1) t2).alive
      = liveDocs (advance q e t2).docs (advance q e t2).alive := by
  rw [liveDocs_advance q (advance q e t1) t2 (advance_wf q e t1 hwf), liveDocs_advance q e t1 hwf,
    liveDocs_advance q e t2 hwf, List.filter_filter, consumed_split q e.cursor t1 t2 h]
  congr 1
  funext d
  have : (advance q e t1).cursor = e.cursor + (consumed q e.cursor t1).length := rfl
  rw [this, killedBy_append]
  cases killedBy (consumed q e.cursor t1) d <;> simp

theorem advance_cursor (q : List DelOp) (e : Entry) (t : Nat) :
    (advance q e t).cursor = e.cursor + (consumed q e.cursor t).length := rfl

theorem advance_docs (q : List DelOp) (e : Entry) (t : Nat) : (advance q e t).docs = e.docs := rfl

/-- all sources sit at the same queue position after advancing to the target -/
def SameCursor (q : List DelOp) (srcs : List Entry) (target c0 : Nat) : Prop :=
  ∀ e ∈ srcs, (advance q e target).cursor = c0

theorem filter_flatten {α} (p : α → Bool) (ls : List (List α)) :
    ls.flatten.filter p = (ls.map (List.filter p)).flatten := by
  induction ls with
  | nil => rfl
  | cons l rest ih => simp [List.filter_append, ih]

/-- KEY LEMMA. The merged entry (live docs of the sources advanced to the target, all alive,
cursor `c0`) advanced to any later opstamp `T` holds exactly the documents the sources hold when
advanced to `T` themselves — provided the sources share the cursor `c0`. -/
theorem merged_covers (q : List DelOp) (srcs : List Entry) (target newId c0 T : Nat) (m : Entry)
    (hm : mergeEntries q srcs target newId = some m)
    (hwf : ∀ e ∈ srcs, e.docs.length = e.alive.length)
    (hsame : SameCursor q srcs target c0) (hT : target ≤ T) :
    liveUids (advance q m T) = (srcs.map fun e => liveUids (advance q e T)).flatten := by
  unfold mergeEntries at hm
  split at hm
  · cases hm
  · rename_i hne
    simp only [Option.some.injEq] at hm
    have hcur : m.cursor = c0 := by
      rw [← hm]
      cases srcs with
      | nil => simp at hne
      | cons e rest => simpa using hsame e (by simp)
    have hdocs : m.docs = ((srcs.map fun e => advance q e target).map fun e => liveDocs e.docs e.alive).flatten := by
      rw [← hm]
    have halive : m.alive = List.replicate m.docs.length true := by rw [← hm]
    have hmwf : m.docs.length = m.alive.length := by rw [halive]; simp
    unfold liveUids
    rw [liveDocs_advance q m T hmwf, halive, liveDocs_replicate_true, hdocs, filter_flatten,
      List.map_flatten, hcur]
    congr 1
    simp only [List.map_map]
    apply List.map_congr_left
    intro e he
    simp only [Function.comp]
    rw [← liveDocs_advance_advance q e target T hT (hwf e he),
      liveDocs_advance q (advance q e target) T (advance_wf q e target (hwf e he)), hsame e he]

theorem advance_of_consumed_nil (q : List DelOp) (e : Entry) (t : Nat)
    (h : consumed q e.cursor t = []) : advance q e t = e := by
  cases e
  simp_all [advance]

/-- the reconciliation branch is `advance_deletes` to the committed opstamp (opstamps are unique:
no delete carries the commit's own opstamp) -/
theorem reconcile_eq_advance (st : State) (m : Entry)
    (hne : ∀ op ∈ st.queue, op.opstamp ≠ st.committedOpstamp) :
    reconcile st m = advance st.queue m st.committedOpstamp := by
  unfold reconcile
  cases hq : st.queue[m.cursor]? with
  | none =>
    simp only
    symm
    apply advance_of_consumed_nil
    have : st.queue.length ≤ m.cursor := by
      rcases Nat.lt_or_ge m.cursor st.queue.length with h | h
      · rw [List.getElem?_eq_getElem h] at hq; cases hq
      · exact h
    simp [consumed, List.drop_eq_nil_of_le this]
  | some op =>
    simp only
    by_cases hlt : op.opstamp < st.committedOpstamp
    · simp [hlt]
    · simp only [hlt, if_false]
      symm
      apply advance_of_consumed_nil
      have hmem : op ∈ st.queue := List.mem_of_getElem? hq
      have hgt : ¬ op.opstamp ≤ st.committedOpstamp := by
        have := hne op hmem; omega
      have hd : st.queue.drop m.cursor = op :: st.queue.drop (m.cursor + 1) := by
        have hl : m.cursor < st.queue.length := (List.getElem?_eq_some_iff.1 hq).1
        rw [List.drop_eq_getElem_cons hl, (List.getElem?_eq_some_iff.1 hq).2]
      simp [consumed, hd, hgt]

theorem liveUids_advance_of_empty (q : List DelOp) (e : Entry) (t : Nat)
    (hwf : e.docs.length = e.alive.length) (h : (liveUids e).length = 0) :
    liveUids (advance q e t) = [] := by
  unfold liveUids at h ⊢
  rw [liveDocs_advance q e t hwf]
  have : liveDocs e.docs e.alive = [] := by
    simpa using h
  simp [this]

theorem sum_eq_zero_mem (l : List Nat) (h : l.sum = 0) : ∀ x ∈ l, x = 0 := by
  induction l with
  | nil => simp
  | cons a as ih =>
    simp only [List.sum_cons] at h
    intro x hx
    rw [List.mem_cons] at hx
    rcases hx with rfl | hx
    · omega
    · exact ih (by omega) x hx

theorem flatten_filter_split {α β} (f : α → List β) (p : α → Bool) (l : List α) :
    (((l.filter fun x => !p x).map f).flatten ++ ((l.filter p).map f).flatten).Perm (l.map f).flatten := by
  induction l with
  | nil => simp
  | cons a as ih =>
    cases hp : p a
    · simp only [List.filter_cons, hp, Bool.not_false, if_true, Bool.false_eq_true, if_false,
        List.map_cons, List.flatten_cons, List.append_assoc]
      exact List.Perm.append_left (f a) ih
    · simp only [List.filter_cons, hp, Bool.not_true, Bool.false_eq_true, if_false, if_true,
        List.map_cons, List.flatten_cons]
      refine List.Perm.trans ?_ (List.Perm.append_left (f a) ih)
      rw [← List.append_assoc, ← List.append_assoc]
      exact List.Perm.append_right _ List.perm_append_comm

/-- content of a merged entry after reconciliation = content of its sources advanced to the
committed opstamp (`none`: the sources held no live doc) -/
theorem merged_content (st : State) (srcs : List Entry) (target newId c0 : Nat)
    (hwf : ∀ e ∈ srcs, e.docs.length = e.alive.length)
    (hsame : SameCursor st.queue srcs target c0) (htc : target ≤ st.committedOpstamp)
    (hne : ∀ op ∈ st.queue, op.opstamp ≠ st.committedOpstamp) :
    ((((mergeEntries st.queue srcs target newId).map (reconcile st)).toList).map liveUids).flatten
      = (srcs.map fun e => liveUids (advance st.queue e st.committedOpstamp)).flatten := by
  cases hm : mergeEntries st.queue srcs target newId with
  | none =>
    simp only [Option.map_none, Option.toList_none, List.map_nil, List.flatten_nil]
    unfold mergeEntries at hm
    split at hm
    · rename_i hz
      symm
      rw [List.flatten_eq_nil_iff]
      intro l hl
      simp only [List.mem_map] at hl
      obtain ⟨e, he, rfl⟩ := hl
      apply liveUids_advance_of_empty _ _ _ (hwf e he)
      exact sum_eq_zero_mem _ hz _ (List.mem_map.2 ⟨e, he, rfl⟩)
    · cases hm
  | some m =>
    simp only [Option.map_some, Option.toList_some, List.map_cons, List.map_nil, List.flatten_cons,
      List.flatten_nil, List.append_nil]
    rw [reconcile_eq_advance st m hne]
    exact merged_covers st.queue srcs target newId c0 st.committedOpstamp m hm hwf hsame htc

theorem mergeEntries_wf (q : List DelOp) (srcs : List Entry) (target newId : Nat) (m : Entry)
    (hm : mergeEntries q srcs target newId = some m) : m.docs.length = m.alive.length := by
  unfold mergeEntries at hm
  split at hm
  · cases hm
  · simp only [Option.some.injEq] at hm
    rw [← hm]; simp

/-- what a commit at `T` would publish from a merged entry (after the reconciliation step) =
what it would publish from the sources -/
theorem merged_pending (st : State) (srcs : List Entry) (target newId c0 T : Nat)
    (hwf : ∀ e ∈ srcs, e.docs.length = e.alive.length)
    (hsame : SameCursor st.queue srcs target c0) (hT : target ≤ T) (hcT : st.committedOpstamp ≤ T)
    (hne : ∀ op ∈ st.queue, op.opstamp ≠ st.committedOpstamp) :
    ((((mergeEntries st.queue srcs target newId).map (reconcile st)).toList).map
        fun e => liveUids (advance st.queue e T)).flatten
      = (srcs.map fun e => liveUids (advance st.queue e T)).flatten := by
  cases hm : mergeEntries st.queue srcs target newId with
  | none =>
    simp only [Option.map_none, Option.toList_none, List.map_nil, List.flatten_nil]
    unfold mergeEntries at hm
    split at hm
    · rename_i hz
      symm
      rw [List.flatten_eq_nil_iff]
      intro l hl
      simp only [List.mem_map] at hl
      obtain ⟨e, he, rfl⟩ := hl
      apply liveUids_advance_of_empty _ _ _ (hwf e he)
      exact sum_eq_zero_mem _ hz _ (List.mem_map.2 ⟨e, he, rfl⟩)
    · cases hm
  | some m =>
    simp only [Option.map_some, Option.toList_some, List.map_cons, List.map_nil, List.flatten_cons,
      List.flatten_nil, List.append_nil]
    rw [reconcile_eq_advance st m hne]
    have hmwf := mergeEntries_wf st.queue srcs target newId m hm
    unfold liveUids
    rw [liveDocs_advance_advance st.queue m st.committedOpstamp T hcT hmwf]
    exact merged_covers st.queue srcs target newId c0 T m hm hwf hsame hT

end TantivyModel.Merge
