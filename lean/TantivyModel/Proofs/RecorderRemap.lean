import TantivyModel.Proofs.Pipeline
/-! the `doc_id_map` branch of `Recorder::serialize`: remap, sort by the new id, serialize, read back -/
namespace TantivyModel.Recorder
open TantivyModel.Invert (Term RecOpt Posting project)

/-- the same on postings: the expected outcome -/
def insertPosting (p : Posting) : List Posting → List Posting
  | [] => [p]
  | a :: r => if p.doc ≤ a.doc then p :: a :: r else a :: insertPosting p r

def sortPostings (l : List Posting) : List Posting := l.foldr insertPosting []

def remapPosting (newId : Nat → Nat) (p : Posting) : Posting := { p with doc := newId p.doc }

theorem callOf_doc (o : RecOpt) (p : Posting) : (callOf o p).doc = p.doc := by cases o <;> rfl

theorem insertCall_map (o : RecOpt) (p : Posting) (l : List Posting) :
    insertCall (callOf o p) (l.map (callOf o)) = (insertPosting p l).map (callOf o) := by
  induction l with
  | nil => rfl
  | cons a r ih =>
    simp only [List.map_cons, insertCall, insertPosting, callOf_doc]
    split
    · rfl
    · simp only [List.map_cons, ih]

theorem sortCalls_map (o : RecOpt) (l : List Posting) :
    sortCalls (l.map (callOf o)) = (sortPostings l).map (callOf o) := by
  induction l with
  | nil => rfl
  | cons a r ih =>
    simp only [List.map_cons, sortCalls, List.foldr_cons] at ih ⊢
    rw [ih]
    exact insertCall_map o a _

theorem mem_insertPosting (p x : Posting) (l : List Posting) : x ∈ insertPosting p l ↔ x = p ∨ x ∈ l := by
  induction l with
  | nil => simp [insertPosting]
  | cons a r ih =>
    unfold insertPosting
    split
    · simp
    · simp [ih]; grind

theorem mem_sortPostings (x : Posting) (l : List Posting) : x ∈ sortPostings l ↔ x ∈ l := by
  induction l with
  | nil => simp [sortPostings]
  | cons a r ih =>
    simp only [sortPostings, List.foldr_cons] at ih ⊢
    rw [mem_insertPosting, ih]; simp

theorem length_insertPosting (p : Posting) (l : List Posting) : (insertPosting p l).length = l.length + 1 := by
  induction l with
  | nil => rfl
  | cons a r ih =>
    unfold insertPosting
    split
    · simp
    · simp [ih]

theorem length_sortPostings (l : List Posting) : (sortPostings l).length = l.length := by
  induction l with
  | nil => rfl
  | cons a r ih =>
    simp only [sortPostings, List.foldr_cons] at ih ⊢
    rw [length_insertPosting, ih]; simp

/-- inserting a fresh doc id keeps the list strictly sorted -/
theorem insertPosting_sorted (p : Posting) (l : List Posting)
    (hs : (l.map (·.doc)).Pairwise (· < ·)) (hfresh : ∀ q ∈ l, q.doc ≠ p.doc) :
    ((insertPosting p l).map (·.doc)).Pairwise (· < ·) := by
  induction l with
  | nil => simp [insertPosting]
  | cons a r ih =>
    have hs' : ((a :: r).map (·.doc)).Pairwise (· < ·) := hs
    rw [List.map_cons, List.pairwise_cons] at hs'
    have ha := hfresh a (by simp)
    unfold insertPosting
    by_cases hle : p.doc ≤ a.doc
    · simp only [hle, if_true, List.map_cons]
      apply List.pairwise_cons.mpr
      refine ⟨?_, List.pairwise_cons.mpr hs'⟩
      intro x hx
      rcases List.mem_cons.mp hx with hx | hx
      · omega
      · have := hs'.1 x hx; omega
    · simp only [hle, if_false, List.map_cons]
      apply List.pairwise_cons.mpr
      refine ⟨?_, ih hs'.2 (fun q hq => hfresh q (by simp [hq]))⟩
      intro x hx
      obtain ⟨q, hq, hqx⟩ := List.mem_map.mp hx
      rcases (mem_insertPosting p q r).mp hq with hqp | hq
      · rw [← hqx, hqp]; omega
      · rw [← hqx]; exact hs'.1 q.doc (List.mem_map.mpr ⟨q, hq, rfl⟩)

theorem sortPostings_sorted (l : List Posting) (hnd : (l.map (·.doc)).Nodup) :
    ((sortPostings l).map (·.doc)).Pairwise (· < ·) := by
  induction l with
  | nil => simp [sortPostings]
  | cons a r ih =>
    have hn : a.doc ∉ r.map (·.doc) ∧ (r.map (·.doc)).Nodup := by
      have hnd' : ((a :: r).map (·.doc)).Nodup := hnd
      rw [List.map_cons, List.nodup_cons] at hnd'
      exact hnd'
    simp only [sortPostings, List.foldr_cons] at ih ⊢
    apply insertPosting_sorted a _ (ih hn.2)
    intro q hq heq
    have hq' := (mem_sortPostings q r).mp hq
    exact hn.1 (heq ▸ List.mem_map.mpr ⟨q, hq', rfl⟩)

/-- **remapped branch**: the calls handed to the serializer are the postings with their doc id
mapped into the new id space (tf and positions staying with their document), sorted by the new
id; and what is read back from the serialized bytes is exactly that list -/
theorem remapped_pipeline (o : RecOpt) (ps : List Posting) (newId : Nat → Nat) (hne : ps ≠ [])
    (hok : TermOK ps)
    (hinj : ((ps.map (remapPosting newId)).map (·.doc)).Nodup)
    (hbelow : ∀ p ∈ ps, newId p.doc < Gen.Postings.TERMINATED) :
    ∃ r, recOf o ps = some r ∧
      callsRemapped o r (readVals (logBytes r).length (logBytes r)) newId =
        (sortPostings (ps.map (remapPosting newId))).map (callOf o) ∧
      readBack o (serializeTermRemapped o r newId) =
        some ((sortPostings (ps.map (remapPosting newId))).map (project o)) ∧
      ((sortPostings (ps.map (remapPosting newId))).map (·.doc)).Pairwise (· < ·) ∧
      (∀ x, x ∈ sortPostings (ps.map (remapPosting newId)) ↔ ∃ p ∈ ps, x = remapPosting newId p) := by
  obtain ⟨r, h1, h2⟩ := calls_of_recorder o ps hne hok.good hok.bounded
  have hcalls : callsRemapped o r (readVals (logBytes r).length (logBytes r)) newId =
      (sortPostings (ps.map (remapPosting newId))).map (callOf o) := by
    unfold callsRemapped
    rw [h2, ← sortCalls_map]
    congr 1
    simp only [List.map_map]
    apply List.map_congr_left
    intro p _
    cases o <;> rfl
  have hsorted := sortPostings_sorted _ hinj
  have hmem : ∀ x, x ∈ sortPostings (ps.map (remapPosting newId)) ↔ ∃ p ∈ ps, x = remapPosting newId p := by
    intro x
    rw [mem_sortPostings, List.mem_map]
    constructor
    · rintro ⟨p, hp, rfl⟩; exact ⟨p, hp, rfl⟩
    · rintro ⟨p, hp, rfl⟩; exact ⟨p, hp, rfl⟩
  have hT : Gen.Postings.TERMINATED < 2 ^ 31 := by decide
  have hok' : TermOK (sortPostings (ps.map (remapPosting newId))) := by
    refine ⟨⟨hsorted, fun _ _ => Nat.zero_le _, ?_, ?_⟩, ⟨?_, ?_, ?_⟩, ?_⟩
    · intro x hx; obtain ⟨p, hp, rfl⟩ := (hmem x).mp hx; exact hok.good.tf p hp
    · intro x hx; obtain ⟨p, hp, rfl⟩ := (hmem x).mp hx; exact hok.good.mono p hp
    · intro x hx; obtain ⟨p, hp, rfl⟩ := (hmem x).mp hx; exact hok.bounded.pos p hp
    · intro x hx; obtain ⟨p, hp, rfl⟩ := (hmem x).mp hx; exact hok.bounded.tf p hp
    · intro x hx; obtain ⟨p, hp, rfl⟩ := (hmem x).mp hx
      have := hbelow p hp
      simp only [remapPosting]; omega
    · intro x hx; obtain ⟨p, hp, rfl⟩ := (hmem x).mp hx; exact hbelow p hp
  refine ⟨r, h1, hcalls, ?_, hsorted, hmem⟩
  simp only [serializeTermRemapped, hcalls]
  exact readBack_serializeCalls o _ hok'

end TantivyModel.Recorder
