import TantivyModel.Proofs.PostingsRoundtrip
import TantivyModel.Proofs.BlockSearch
/-! the cursor over the decoded blocks refines the sorted-list specification under every program -/
namespace TantivyModel.Postings
open TantivyModel.Invert (RecOpt)

/-- what the frequency buffer shows: the stored frequencies, or nothing (read as 1) -/
def obsTfs (o : RecOpt) (tfs : List Nat) : List Nat := if hasFreq o then tfs else []

/-- the `u32` `tf_sum` of a skip entry does not wrap: every window of `B` consecutive term
frequencies sums to less than `2^32` (the code computes the sum with `u32` arithmetic) -/
def BlockSumsFit (c : Cfg) (tfs : List Nat) : Prop := ∀ m, ((tfs.drop m).take c.B).sum < 2 ^ 32

def posP (o : RecOpt) (x : Nat) : Nat := if o = .positions then x else 0

/-! ### list facts -/

theorem getD_drop' (l : List Nat) (m i d : Nat) : (l.drop m).getD i d = l.getD (m + i) d := by
  simp [List.getD_eq_getElem?_getD, List.getElem?_drop]

theorem getD_take' (l : List Nat) (n i d : Nat) (h : i < n) : (l.take n).getD i d = l.getD i d := by
  simp [List.getD_eq_getElem?_getD, List.getElem?_take, h]

theorem getD_append_replicate (D : List Nat) (k i T : Nat) :
    (D ++ List.replicate k T).getD i T = D.getD i T := by
  simp only [List.getD_eq_getElem?_getD]
  by_cases h : i < D.length
  · rw [List.getElem?_append_left h]
  · rw [List.getElem?_append_right (by omega)]
    have : D[i]? = none := List.getElem?_eq_none (by omega)
    rw [this]
    by_cases h2 : i - D.length < k
    · simp [List.getElem?_replicate, h2]
    · simp [List.getElem?_replicate, h2]

theorem getD_of_le (l : List Nat) (i d : Nat) (h : l.length ≤ i) : l.getD i d = d := by
  simp [List.getD_eq_getElem?_getD, List.getElem?_eq_none h]

theorem getD_mem (l : List Nat) (i d : Nat) (h : i < l.length) : l.getD i d ∈ l := by
  simp [List.getD_eq_getElem?_getD, List.getElem?_eq_getElem h]

theorem getD_default_irrel (l : List Nat) (i d d' : Nat) (h : i < l.length) : l.getD i d = l.getD i d' := by
  simp [List.getD_eq_getElem?_getD, List.getElem?_eq_getElem h]

theorem sorted_getD_lt (l : List Nat) (hs : l.Pairwise (· < ·)) (i j d : Nat) (hij : i < j)
    (hj : j < l.length) : l.getD i d < l.getD j d := by
  have hi : i < l.length := by omega
  have := (List.pairwise_iff_getElem.mp hs) i j hi hj hij
  simpa [List.getD_eq_getElem?_getD, List.getElem?_eq_getElem hi, List.getElem?_eq_getElem hj] using this

theorem sorted_le_of_lt (l : List Nat) (hs : l.Pairwise (· < ·)) : l.Pairwise (· ≤ ·) :=
  hs.imp (fun h => Nat.le_of_lt h)

theorem take_add_sum (l : List Nat) (m k : Nat) :
    (l.take (m + k)).sum = (l.take m).sum + ((l.drop m).take k).sum := by
  rw [List.take_add, List.sum_append]

theorem getLastD_take (D : List Nat) (B : Nat) (hB : 0 < B) (h : B ≤ D.length) :
    (D.take B).getLastD 0 = D.getD (B - 1) 0 := by
  rw [List.getLastD_eq_getLast?, List.getLast?_eq_getElem?]
  simp only [List.length_take, Nat.min_eq_left h, List.getD_eq_getElem?_getD]
  rw [List.getElem?_take]
  simp [show B - 1 < B by omega]

theorem countP_eq_range (l : List Nat) (p : Nat → Bool) (d : Nat) :
    l.countP p = (List.range l.length).countP (fun i => p (l.getD i d)) := by
  induction l with
  | nil => simp
  | cons a t ih =>
    rw [List.length_cons, List.range_succ_eq_map, List.countP_cons, List.countP_cons, List.countP_map, ih]
    simp [Function.comp_def]

/-! ### the invariant -/

structure Hyp (c : Cfg) (docs tfs : List Nat) : Prop where
  hB : 0 < c.B
  hv : ValidList docs tfs
  hT : ∀ d ∈ docs, d < c.T
  hsearch : ∀ arr t, arr.length = c.B → arr.Pairwise (· ≤ ·) → searchBlock c arr t = arr.countP (· < t)

structure Inv (c : Cfg) (o : RecOpt) (docs tfs : List Nat) (s : Cursor) (m : Nat) : Prop where
  blocks : s.blocks = chunkBlocks c o ((docs.length - m) / c.B) (docs.drop m) (tfs.drop m)
  le : m ≤ docs.length
  cur : s.cur < c.B
  pos : m < docs.length → s.posOffset = posP o (tfs.take m).sum

def tailB (c : Cfg) (o : RecOpt) (D F : List Nat) : Block :=
  { lastDoc := c.T, docs := D, tfs := if hasFreq o then F else [], tfSum := 0, full := false }

def fullB (c : Cfg) (o : RecOpt) (D F : List Nat) : Block :=
  { lastDoc := (D.take c.B).getLastD 0, docs := D.take c.B,
    tfs := if hasFreq o then F.take c.B else [],
    tfSum := if o = .positions then (F.take c.B).sum % 2 ^ 32 else 0, full := true }

theorem chunk_cases (c : Cfg) (o : RecOpt) (hB : 0 < c.B) (docs tfs : List Nat) (m : Nat) :
    (docs.length - m < c.B ∧
      chunkBlocks c o ((docs.length - m) / c.B) (docs.drop m) (tfs.drop m) =
        [tailB c o (docs.drop m) (tfs.drop m)]) ∨
    (c.B ≤ docs.length - m ∧
      chunkBlocks c o ((docs.length - m) / c.B) (docs.drop m) (tfs.drop m) =
        fullB c o (docs.drop m) (tfs.drop m) ::
          chunkBlocks c o ((docs.length - (m + c.B)) / c.B) (docs.drop (m + c.B)) (tfs.drop (m + c.B))) := by
  rcases Nat.lt_or_ge (docs.length - m) c.B with h | h
  · left
    refine ⟨h, ?_⟩
    rw [Nat.div_eq_of_lt h]; rfl
  · right
    refine ⟨h, ?_⟩
    have e : (docs.length - m) / c.B = (docs.length - (m + c.B)) / c.B + 1 := by
      have e1 : docs.length - m = (docs.length - (m + c.B)) + c.B := by omega
      rw [e1, Nat.add_div_right _ hB]
    rw [e]
    simp only [chunkBlocks, fullB, List.drop_drop]

/-- the decoded doc buffer under the cursor shows `docs[m ..]`, padded with TERMINATED -/
theorem curDocs_getD (c : Cfg) (o : RecOpt) (docs tfs : List Nat) (H : Hyp c docs tfs)
    (s : Cursor) (m : Nat) (I : Inv c o docs tfs s m) (i : Nat) (hi : i < c.B) :
    (curDocs c s).getD i c.T = docs.getD (m + i) c.T := by
  unfold curDocs
  rcases chunk_cases c o H.hB docs tfs m with ⟨_, h⟩ | ⟨hlen, h⟩
  · rw [I.blocks, h]
    simp only [padded, tailB]
    rw [getD_append_replicate, getD_drop']
  · rw [I.blocks, h]
    simp only [padded, fullB]
    rw [getD_append_replicate, getD_take' _ _ _ _ hi, getD_drop']

theorem curDocs_length (c : Cfg) (o : RecOpt) (docs tfs : List Nat) (H : Hyp c docs tfs)
    (s : Cursor) (m : Nat) (I : Inv c o docs tfs s m) : (curDocs c s).length = c.B := by
  unfold curDocs
  rcases chunk_cases c o H.hB docs tfs m with ⟨hlt, h⟩ | ⟨hlen, h⟩
  · rw [I.blocks, h]
    simp only [padded, tailB, List.length_append, List.length_replicate, List.length_drop]
    omega
  · rw [I.blocks, h]
    simp only [padded, fullB, List.length_append, List.length_replicate, List.length_take, List.length_drop]
    omega

theorem doc_eq (c : Cfg) (o : RecOpt) (docs tfs : List Nat) (H : Hyp c docs tfs)
    (s : Cursor) (m : Nat) (I : Inv c o docs tfs s m) : doc c s = docs.getD (m + s.cur) c.T :=
  curDocs_getD c o docs tfs H s m I s.cur I.cur

theorem getD_T_lt (c : Cfg) (docs tfs : List Nat) (H : Hyp c docs tfs) (j : Nat) :
    docs.getD j c.T ≠ c.T ↔ j < docs.length := by
  constructor
  · intro h
    rcases Nat.lt_or_ge j docs.length with h1 | h1
    · exact h1
    · exact absurd (getD_of_le docs j c.T h1) h
  · intro h
    have := H.hT _ (getD_mem docs j c.T h)
    omega

/-- observation at a cursor = observation of the specification at index `min (m + cur) n` -/
theorem observe_eq (c : Cfg) (o : RecOpt) (docs tfs : List Nat) (H : Hyp c docs tfs)
    (s : Cursor) (m : Nat) (I : Inv c o docs tfs s m) :
    observe c o s = specObserve c.T o docs (obsTfs o tfs) ⟨min (m + s.cur) docs.length⟩ := by
  unfold observe specObserve specDoc
  rw [doc_eq c o docs tfs H s m I]
  by_cases hlt : m + s.cur < docs.length
  · have hmin : min (m + s.cur) docs.length = m + s.cur := by omega
    have hne := (getD_T_lt c docs tfs H (m + s.cur)).mpr hlt
    simp only [hmin, hne, if_false]
    have hm : m < docs.length := by omega
    -- term frequency and read offset of the head block
    have htf : termFreq s = (obsTfs o tfs).getD (m + s.cur) 1 ∧
        (o = .positions → readOffset s = ((obsTfs o tfs).take (m + s.cur)).sum) := by
      unfold termFreq readOffset obsTfs
      rcases chunk_cases c o H.hB docs tfs m with ⟨_, h⟩ | ⟨hlen, h⟩
      · rw [I.blocks, h]
        simp only [tailB]
        constructor
        · cases hasFreq o
          · simp
          · simp only [if_true]; rw [getD_drop']
        · intro ho
          subst ho
          simp only [hasFreq, if_true]
          rw [I.pos hm, take_add_sum]; simp [posP]
      · rw [I.blocks, h]
        simp only [fullB]
        constructor
        · cases hasFreq o
          · simp
          · simp only [if_true]; rw [getD_take' _ _ _ _ I.cur, getD_drop']
        · intro ho
          subst ho
          simp only [hasFreq, if_true]
          rw [I.pos hm, take_add_sum, List.take_take, Nat.min_eq_left (Nat.le_of_lt I.cur)]; simp [posP]
    rw [htf.1]
    by_cases ho : o = .positions
    · simp [ho, htf.2 ho]
    · simp [ho]
  · have hmin : min (m + s.cur) docs.length = docs.length := by omega
    have e1 : docs.getD (m + s.cur) c.T = c.T := getD_of_le _ _ _ (by omega)
    have e2 : docs.getD docs.length c.T = c.T := getD_of_le _ _ _ (Nat.le_refl _)
    simp only [hmin, e1, e2, if_true]

end TantivyModel.Postings
