import TantivyModel.Proofs.TopNSort
/-!
Tuple sort keys: the comparator of `(k1, k2)` is `c1.compare(..).then_with(|| c2.compare(..))`
(`order.rs`, `impl Comparator<(Head, Tail)> for (LeftComparator, RightComparator)`; 3- and 4-tuples
are the chains `(k1, (k2, k3))`, `(k1, (k2, (k3, k4)))`). If the component comparators are strict
weak orders so is the tuple's — hence every C06 theorem applies to tuple keys of any nesting.
-/
namespace TantivyModel.TopN

variable {α β : Type}

/-- mirrors: src/collector/sort_key/order.rs::compare for pairs — `Greater` iff the heads are
`Greater`, or the heads are `Equal` and the tails are `Greater` -/
def lexGt (g₁ : α → α → Bool) (g₂ : β → β → Bool) (a b : α × β) : Bool :=
  g₁ a.1 b.1 || (!g₁ b.1 a.1 && g₂ a.2 b.2)

theorem StrictWeak.lex {g₁ : α → α → Bool} {g₂ : β → β → Bool} (h₁ : StrictWeak g₁) (h₂ : StrictWeak g₂) :
    StrictWeak (lexGt g₁ g₂) where
  asymm a b h := by
    unfold lexGt at h ⊢
    cases hab : g₁ a.1 b.1 with
    | true =>
      have := h₁.asymm _ _ hab
      simp [this, hab]
    | false =>
      rw [hab] at h
      simp only [Bool.false_or, Bool.and_eq_true, Bool.not_eq_true'] at h
      have := h₂.asymm _ _ h.2
      simp [h.1, hab, this]
  negTrans a b c hab hbc := by
    unfold lexGt at hab hbc ⊢
    simp only [Bool.or_eq_false_iff, Bool.and_eq_false_iff, Bool.not_eq_false'] at hab hbc ⊢
    obtain ⟨hab1, hab2⟩ := hab
    obtain ⟨hbc1, hbc2⟩ := hbc
    refine ⟨h₁.negTrans _ _ _ hab1 hbc1, ?_⟩
    rcases hab2 with hba | hab2
    · left
      cases hca : g₁ c.1 a.1 with
      | true => rfl
      | false =>
        have := h₁.negTrans _ _ _ hbc1 hca
        rw [hba] at this; cases this
    · rcases hbc2 with hcb | hbc2
      · left
        cases hca : g₁ c.1 a.1 with
        | true => rfl
        | false =>
          have := h₁.negTrans _ _ _ hca hab1
          rw [hcb] at this; cases this
      · right
        exact h₂.negTrans _ _ _ hab2 hbc2

end TantivyModel.TopN
