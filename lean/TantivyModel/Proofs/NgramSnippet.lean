import TantivyModel.Proofs.Ngram
import TantivyModel.Proofs.Fragments
/-! C19: the n-gram enumeration respects the record discipline of end offsets (`RecOkN`), so the
snippet generator keeps every highlight inside the fragment when no token is longer than the
limit -/
namespace TantivyModel.Tok
open TantivyModel.Snip

theorem map_shift_range' (g : Nat → Nat) (i : Nat) : ∀ (n a : Nat),
    (List.range' a n).map (fun k => g (i + k)) = (List.range' (i + a) n).map g := by
  intro n
  induction n with
  | zero => intro a; rfl
  | succ n ih =>
    intro a
    rw [List.range'_succ, List.range'_succ, List.map_cons, List.map_cons, ih (a + 1)]
    rfl

/-- end-offset *indices* of the enumeration: row `i` is the run `i+min … i+cm(i)` -/
def idxRow (L minG maxG i : Nat) : List Nat :=
  List.range' (i + minG) (min maxG (L - 1 - i) + 1 - minG)

theorem spec_tos (F : List Nat) (minG maxG : Nat) :
    (ngramSpec F minG maxG).map (·.2) =
      ((List.range F.length).flatMap (idxRow F.length minG maxG)).map (fun e => F.getD e 0) := by
  unfold ngramSpec
  rw [List.map_flatMap, List.map_flatMap]
  congr 1
  funext i
  unfold ngramRow idxRow
  rw [List.map_map]
  exact map_shift_range' (fun e => F.getD e 0) i _ minG

theorem idx_recOk (L minG maxG : Nat) (hmin : 0 < minG) : ∀ (n i R : Nat), i + n = L →
    (1 ≤ n → R ≤ i + min maxG (L - 1 - i)) →
    RecOkN R R ((List.range' i n).flatMap (idxRow L minG maxG)) := by
  intro n
  induction n with
  | zero => intro i R _ _; simp [RecOkN]
  | succ n ih =>
    intro i R hL hR
    have hR' := hR (by omega)
    rw [List.range'_succ, List.flatMap_cons]
    by_cases hc : min maxG (L - 1 - i) + 1 - minG = 0
    · have : idxRow L minG maxG i = [] := by unfold idxRow; rw [hc]; rfl
      rw [this, List.nil_append]
      exact ih (i + 1) R (by omega) (fun _ => by omega)
    · obtain ⟨c, hcnt⟩ : ∃ c, min maxG (L - 1 - i) + 1 - minG = c + 1 := ⟨_, (Nat.succ_pred_eq_of_ne_zero hc).symm⟩
      have hrow : idxRow L minG maxG i = List.range' (i + minG) (c + 1) := by unfold idxRow; rw [hcnt]
      rw [hrow]
      apply recOk_run c (i + minG) R R _ (fun _ => rfl)
      have e : max R (i + minG + c) = i + minG + c := by omega
      rw [e]
      exact ih (i + 1) (i + minG + c) (by omega) (fun _ => by omega)

theorem idx_lt (L minG maxG : Nat) :
    ∀ x ∈ (List.range L).flatMap (idxRow L minG maxG), x < L := by
  intro x hx
  simp only [List.mem_flatMap, List.mem_range, idxRow, List.mem_range'_1] at hx
  obtain ⟨i, hi, h1, h2⟩ := hx
  omega

/-- the end offsets of the full n-gram token stream respect the record discipline -/
theorem ngram_recOk (s : Text) (hv : ∀ c ∈ s, c.code < 0x110000) (minG maxG : Nat)
    (hmin : 0 < minG) (hle : minG ≤ maxG) :
    RecOkN 0 0 ((ngramOffsets s minG maxG false).map (·.2)) := by
  have hne : boundariesFrom 0 s ≠ [] := by cases s <;> simp [boundariesFrom]
  have hL : 0 < (boundariesFrom 0 s).length := List.length_pos_iff.mpr hne
  have hall : ngramOffsets s minG maxG false = ngramSpec (boundariesFrom 0 s) minG maxG := by
    unfold ngramOffsets
    simp only [Bool.false_eq_true, if_false]
    rw [frontiers_eq_boundaries s hv]
    exact stutterAll_eq_spec _ minG maxG hmin hle hne
  rw [hall, spec_tos]
  generalize hF : boundariesFrom 0 s = F at *
  have hs : F.Pairwise (· < ·) := by rw [← hF]; exact boundaries_sorted 0 s
  have hget : ∀ a b, a < F.length → b < F.length → (a < b ↔ F.getD a 0 < F.getD b 0) := by
    intro a b ha hb
    rw [List.getD_eq_getElem?_getD, List.getD_eq_getElem?_getD,
      List.getElem?_eq_getElem ha, List.getElem?_eq_getElem hb]
    simp only [Option.getD_some]
    constructor
    · intro h; exact List.pairwise_iff_getElem.mp hs a b ha hb h
    · intro h
      by_cases hab : a < b
      · exact hab
      · exfalso
        by_cases he : a = b
        · subst he; omega
        · have := List.pairwise_iff_getElem.mp hs b a hb ha (by omega)
          omega
  have h0 : F.getD 0 0 = 0 := by
    rw [← hF]; cases s <;> simp [boundariesFrom]
  have key := recOk_map (fun e => F.getD e 0) F.length hget _ 0 0 hL hL (idx_lt F.length minG maxG)
    (by
      have := idx_recOk F.length minG maxG hmin F.length 0 0 (by omega) (fun _ => by omega)
      rwa [← List.range_eq_range'] at this)
  simp only [h0] at key
  exact key

end TantivyModel.Tok

namespace TantivyModel.Tok

/-- a code point is at most 4 bytes: `k` code points further is at most `4k` bytes further -/
theorem boundaries_getD_le (s : Text) : ∀ (o k : Nat), k < (boundariesFrom o s).length →
    (boundariesFrom o s).getD k 0 ≤ o + 4 * k := by
  induction s with
  | nil =>
    intro o k hk
    simp only [boundariesFrom, List.length_cons, List.length_nil] at hk
    have : k = 0 := by omega
    subst this; simp [boundariesFrom]
  | cons c s ih =>
    intro o k hk
    cases k with
    | zero => simp [boundariesFrom]
    | succ k =>
      simp only [boundariesFrom, List.length_cons] at hk
      simp only [boundariesFrom, List.getD_cons_succ]
      have := ih (o + c.w) k (by omega)
      have hw : c.w ≤ 4 := utf8Len_le _
      omega

theorem boundaries_gap_le (s : Text) : ∀ (o i k : Nat), i + k < (boundariesFrom o s).length →
    (boundariesFrom o s).getD (i + k) 0 ≤ (boundariesFrom o s).getD i 0 + 4 * k := by
  induction s with
  | nil =>
    intro o i k hk
    simp only [boundariesFrom, List.length_cons, List.length_nil] at hk
    have : i = 0 ∧ k = 0 := by omega
    obtain ⟨rfl, rfl⟩ := this; simp
  | cons c s ih =>
    intro o i k hk
    cases i with
    | zero =>
      have := boundaries_getD_le (c :: s) o k (by simpa using hk)
      simpa [boundariesFrom] using this
    | succ i =>
      simp only [boundariesFrom, List.length_cons] at hk
      have e : i + 1 + k = (i + k) + 1 := by omega
      simp only [boundariesFrom, e, List.getD_cons_succ]
      exact ih (o + c.w) i k (by omega)

/-- no n-gram is longer than `4 · max_gram` bytes -/
theorem ngram_token_len (s : Text) (hv : ∀ c ∈ s, c.code < 0x110000) (minG maxG : Nat)
    (hmin : 0 < minG) (hle : minG ≤ maxG) (prefixOnly : Bool) :
    ∀ t ∈ ngramTokens s minG maxG prefixOnly, t.to - t.from_ ≤ 4 * maxG := by
  have hne : boundariesFrom 0 s ≠ [] := by cases s <;> simp [boundariesFrom]
  have hall : stutterAll (frontiers s) minG maxG = ngramSpec (boundariesFrom 0 s) minG maxG := by
    rw [frontiers_eq_boundaries s hv]
    exact stutterAll_eq_spec _ minG maxG hmin hle hne
  have hsub : (ngramOffsets s minG maxG prefixOnly).Sublist (ngramSpec (boundariesFrom 0 s) minG maxG) := by
    unfold ngramOffsets
    simp only [hall]
    split
    · exact List.takeWhile_sublist _
    · exact List.Sublist.refl _
  intro t ht
  simp only [ngramTokens, List.mem_map] at ht
  obtain ⟨p, hp, rfl⟩ := ht
  have hp' := hsub.subset hp
  unfold ngramSpec ngramRow at hp'
  simp only [List.mem_flatMap, List.mem_range, List.mem_map, List.mem_range'_1] at hp'
  obtain ⟨i, hi, k, ⟨hk1, hk2⟩, rfl⟩ := hp'
  have := boundaries_gap_le s 0 i k (by omega)
  simp only [mkToken]
  have hk : k ≤ maxG := by omega
  omega

end TantivyModel.Tok
