import TantivyModel.Proofs.GrammarFold
namespace TantivyModel.Grammar
variable {L T : Type}

/-! ## chains whose operands may carry a `-` marker (covers `a OR -b AND c`, the C16-D case) -/

def negOcc (n : Bool) : Option Occur := if n then some .mustNot else none

def chainFromN (p : Option BinOp) (n0 : Bool) (a0 : Ast L) (rest : List (BinOp × Bool × Ast L)) :
    List (Item L) :=
  (p, negOcc n0, a0) :: rest.map (fun x => (some x.1, negOcc x.2.1, x.2.2))

/-- truth of an operand with its marker -/
def litv (n b : Bool) : Bool := if n then !b else b

/-- OR over the maximal AND-runs; a run holds when it has an unmarked operand, all its unmarked
    operands hold and none of its `-` operands holds. `pos`/`ok` describe the run read so far. -/
def runsN (pos ok : Bool) : List (BinOp × Bool × Bool) → Bool
  | [] => pos && ok
  | (.and, n, b) :: r => runsN (pos || !n) (ok && litv n b) r
  | (.or, n, b) :: r => (pos && ok) || runsN (!n) (litv n b) r

def hdPos : List (BinOp × Bool × Bool) → Bool
  | [] => false
  | (.and, n, _) :: r => !n || hdPos r
  | (.or, _, _) :: _ => false

def hdOk : List (BinOp × Bool × Bool) → Bool
  | [] => true
  | (.and, n, b) :: r => litv n b && hdOk r
  | (.or, _, _) :: _ => true

def tlN : List (BinOp × Bool × Bool) → Bool
  | [] => false
  | (.and, _, _) :: r => tlN r
  | (.or, n, b) :: r => runsN (!n) (litv n b) r

theorem runsN_split (pos ok : Bool) (l : List (BinOp × Bool × Bool)) :
    runsN pos ok l = (((pos || hdPos l) && (ok && hdOk l)) || tlN l) := by
  induction l generalizing pos ok with
  | nil => simp [runsN, hdPos, hdOk, tlN]
  | cons x r ih =>
    obtain ⟨op, n, b⟩ := x
    cases op with
    | and =>
      simp only [runsN, hdPos, hdOk, tlN, ih]
      cases pos <;> cases ok <;> cases n <;> cases (hdPos r) <;> cases (litv _ b) <;> cases (hdOk r) <;> simp
    | or => simp [runsN, hdPos, hdOk, tlN]

/-- the entry of a chain element with an optional `-` marker -/
theorem entryOf_neg (p nx : Option BinOp) (n : Bool) (a : Ast L) :
    entryOf p (negOcc n) a nx =
      if p = some .and ∨ nx = some .and then (some (if n then Occur.mustNot else Occur.must), a)
      else if n then
        (if p = none ∧ nx = none then (some Occur.mustNot, a) else (some Occur.should, a.unary .mustNot))
      else (chainOcc p nx, a) := by
  cases n
  · -- unmarked
    simp only [negOcc, Bool.false_eq_true, if_false]
    rw [entryOf_none_eq]
    cases p with
    | none => cases nx with
      | none => simp [chainOcc]
      | some x => cases x <;> simp [chainOcc]
    | some q => cases q <;> (cases nx with
      | none => simp [chainOcc]
      | some x => cases x <;> simp [chainOcc])
  · simp only [negOcc, if_true]
    cases p with
    | none => cases nx with
      | none => simp [entryOf, occOr]
      | some x => cases x <;> simp [entryOf, occOr]
    | some q => cases q <;> (cases nx with
      | none => simp [entryOf, occOr]
      | some x => cases x <;> simp [entryOf, occOr])

variable (m : Mode) (res : L → LAst T) (v : T → Bool)

/-- entries of a run of ≥ 1 operands bound by AND: `+x` (MUST) or `-x` (MUST_NOT) -/
def isHard (g : List (Entry L)) : Bool :=
  g.all fun e => e.1 == some .must || e.1 == some .mustNot

def hardP (g : List (Entry L)) : Bool := g.any fun e => e.1 == some .must

def hardK (g : List (Entry L)) : Bool :=
  g.all fun e => if e.1 == some .must then semAst m res v e.2 else !semAst m res v e.2

/-- what a group contributes to the OR of the assembled tree -/
def gv (g : List (Entry L)) : Bool :=
  match g with
  | [(o, a)] => if o = some .mustNot then false else semAst m res v a
  | _ => boolSem (g.map fun e => (e.1.getD m.occ, semAst m res v e.2))

theorem boolSem_hard_parts (g : List (Entry L)) (h : isHard g = true) :
    let l := g.map fun e => (e.1.getD m.occ, semAst m res v e.2)
    (l.all (fun e => e.1 != .must || e.2) && l.all (fun e => e.1 != .mustNot || !e.2)) = hardK m res v g
    ∧ l.any (fun e => e.1 == .must) = hardP g
    ∧ l.any (fun e => e.1 == .should && e.2) = false := by
  induction g with
  | nil => simp [hardP, hardK]
  | cons e r ih =>
    obtain ⟨o, a⟩ := e
    simp only [isHard, List.all_cons, Bool.and_eq_true] at h
    obtain ⟨i1, i2, i3⟩ := ih (by simpa [isHard] using h.2)
    simp only [List.map_cons, List.all_cons, List.any_cons, hardK, hardP] at i1 i2 i3 ⊢
    generalize (List.map (fun e => (e.1.getD m.occ, semAst m res v e.2)) r).all (fun e => e.1 != Occur.must || e.2) = R1 at *
    generalize (List.map (fun e => (e.1.getD m.occ, semAst m res v e.2)) r).all (fun e => e.1 != Occur.mustNot || !e.2) = R2 at *
    rcases Bool.or_eq_true _ _ |>.mp h.1 with ho | ho
    · have : o = some .must := by simpa using ho
      subst this
      refine ⟨?_, by simp [i2], by simp [i3]⟩
      rw [← i1]
      cases semAst m res v a <;> cases R1 <;> cases R2 <;> simp
    · have : o = some .mustNot := by simpa using ho
      subst this
      refine ⟨?_, by simp [i2], by simp [i3]⟩
      rw [← i1]
      cases semAst m res v a <;> cases R1 <;> cases R2 <;> simp

theorem boolSem_hard (g : List (Entry L)) (h : isHard g = true) :
    boolSem (g.map fun e => (e.1.getD m.occ, semAst m res v e.2)) = (hardP g && hardK m res v g) := by
  obtain ⟨h1, h2, h3⟩ := boolSem_hard_parts m res v g h
  unfold boolSem
  rw [h1, h2, h3]
  cases hardP g <;> cases hardK m res v g <;> rfl

theorem gv_hard (g : List (Entry L)) (hne : g ≠ []) (h : isHard g = true) :
    gv m res v g = (hardP g && hardK m res v g) := by
  match g, hne, h with
  | [(o, a)], _, h =>
    simp only [isHard, List.all_cons, List.all_nil, Bool.and_true] at h
    rcases Bool.or_eq_true _ _ |>.mp h with ho | ho
    · have : o = some .must := by simpa using ho
      subst this
      simp [gv, hardP, hardK]
    · have : o = some .mustNot := by simpa using ho
      subst this
      simp [gv, hardP, hardK]
  | e1 :: e2 :: r, _, h =>
    simp only [gv]
    exact boolSem_hard m res v _ h

def valsN (rest : List (BinOp × Bool × Ast L)) : List (BinOp × Bool × Bool) :=
  rest.map fun x => (x.1, x.2.1, semAst m res v x.2.2)

def okTailN (g : List (Entry L)) : Bool :=
  match g with
  | [] => false
  | [(o, _)] => o == some .should
  | _ => true

def nextIsAnd (rest : List (BinOp × Bool × Ast L)) : Bool :=
  match rest with
  | (.and, _, _) :: _ => true
  | _ => false

theorem hd_of_not_and (rest : List (BinOp × Bool × Ast L)) (h : nextIsAnd rest = false) :
    hdPos (valsN m res v rest) = false ∧ hdOk (valsN m res v rest) = true := by
  match rest, h with
  | [], _ => simp [valsN, hdPos, hdOk]
  | (.or, _, _) :: _, _ => simp [valsN, hdPos, hdOk]
  | (.and, _, _) :: _, h => simp [nextIsAnd] at h

theorem semAst_unary_not (a : Ast L) (ha : isDead (toLogical m res a) = false) :
    semAst m res v (a.unary .mustNot) = false
    ∧ isDead (toLogical m res (a.unary .mustNot)) = false := by
  simp [Ast.unary, semAst, toLogical, toLogicalL, semL, semLs, isDead, allDead, ha, boolSem]

/-- the shape and the value of the groups of a chain whose operands may carry `-` -/
theorem chainN_groups (p : Option BinOp) (n0 : Bool) (a0 : Ast L) (rest : List (BinOp × Bool × Ast L))
    (hd0 : isDead (toLogical m res a0) = false)
    (hdr : ∀ x ∈ rest, isDead (toLogical m res x.2.2) = false) :
    ∃ g gs, groups (chainFromN p n0 a0 rest) = g :: gs
      ∧ gs.any (gv m res v) = tlN (valsN m res v rest)
      ∧ gs.all okTailN = true
      ∧ (∀ g' ∈ g :: gs, NoDead m res g')
      ∧ (if p = some .and ∨ nextIsAnd rest = true then
            isHard g = true ∧ g ≠ []
            ∧ hardP g = (!n0 || hdPos (valsN m res v rest))
            ∧ hardK m res v g = (litv n0 (semAst m res v a0) && hdOk (valsN m res v rest))
            ∧ (p ≠ some .and → 2 ≤ g.length)
          else ∃ e, g = [e] ∧ gv m res v [e] = (!n0 && semAst m res v a0)
            ∧ (e.1 = some .should ∨ (p = none ∧ rest = []))) := by
  induction rest generalizing p n0 a0 with
  | nil =>
    have hg : groups (chainFromN p n0 a0 []) = [[entryOf p (negOcc n0) a0 none]] := by
      simp [chainFromN, groups, nextOp]
    refine ⟨[entryOf p (negOcc n0) a0 none], [], hg, by simp [valsN, tlN], rfl, ?_, ?_⟩
    · intro g' hg' e he
      simp only [List.mem_singleton] at hg'
      subst hg'
      simp only [List.mem_singleton] at he
      subst he
      rw [entryOf_neg]
      split
      · exact hd0
      · split
        · split
          · exact hd0
          · exact (semAst_unary_not m res v a0 hd0).2
        · exact hd0
    · rw [entryOf_neg]
      by_cases hp : p = some .and
      · subst hp
        simp [isHard, hardP, hardK, nextIsAnd, valsN, hdPos, hdOk, litv]
        cases n0 <;> simp
      · have hflag : ¬ (p = some BinOp.and ∨ nextIsAnd ([] : List (BinOp × Bool × Ast L)) = true) := by
          simp [hp, nextIsAnd]
        have hflag2 : ¬ (p = some BinOp.and ∨ (none : Option BinOp) = some BinOp.and) := by simp [hp]
        rw [if_neg hflag, if_neg hflag2]
        cases n0
        · refine ⟨_, rfl, ?_, ?_⟩
          · cases p with
            | none => simp [gv, chainOcc]
            | some q => cases q <;> simp_all [gv, chainOcc]
          · cases p with
            | none => exact Or.inr ⟨rfl, rfl⟩
            | some q => cases q <;> simp_all [chainOcc]
        · cases p with
          | none =>
            refine ⟨_, rfl, ?_, Or.inr ⟨rfl, rfl⟩⟩
            simp [gv]
          | some q =>
            cases q with
            | and => exact absurd rfl hp
            | or =>
              have e1 : (if (some BinOp.or : Option BinOp) = none ∧ (none : Option BinOp) = none
                  then ((some Occur.mustNot, a0) : Entry L) else (some Occur.should, a0.unary .mustNot))
                  = (some Occur.should, a0.unary .mustNot) := by simp
              simp only [if_true, e1]
              exact ⟨_, rfl, by simp [gv, (semAst_unary_not m res v a0 hd0).1], Or.inl rfl⟩
  | cons x r ih =>
    obtain ⟨op, n, a⟩ := x
    have hda : isDead (toLogical m res a) = false := hdr (op, n, a) (by simp)
    have hdr' : ∀ y ∈ r, isDead (toLogical m res y.2.2) = false := fun y hy => hdr y (by simp [hy])
    obtain ⟨g0, gs0, hg, hany, htail, hnd, hhead⟩ := ih (some op) n a hda hdr'
    have hchain : chainFromN p n0 a0 ((op, n, a) :: r) = (p, negOcc n0, a0) :: chainFromN (some op) n a r := rfl
    have hnext : nextOp (chainFromN (some op) n a r) = some op := rfl
    cases op with
    | and =>
      -- the element joins the group of its successor; both are bound by AND
      have he : entryOf p (negOcc n0) a0 (some .and) = (some (if n0 then Occur.mustNot else Occur.must), a0) := by
        rw [entryOf_neg]; simp
      have hflag0 : (some BinOp.and = some BinOp.and ∨ nextIsAnd r = true) := Or.inl rfl
      rw [if_pos hflag0] at hhead
      obtain ⟨hh, hne, hP, hK, _⟩ := hhead
      refine ⟨(some (if n0 then Occur.mustNot else Occur.must), a0) :: g0, gs0, ?_, ?_, htail, ?_, ?_⟩
      · rw [hchain]
        simp only [groups, hnext, if_true, hg, he]
      · simpa [valsN, tlN] using hany
      · intro g' hg' e he'
        simp only [List.mem_cons] at hg'
        rcases hg' with rfl | hg'
        · simp only [List.mem_cons] at he'
          rcases he' with rfl | he'
          · exact hd0
          · exact hnd g0 (by simp) e he'
        · exact hnd g' (by simp [hg']) e he'
      · have hflag : (p = some BinOp.and ∨ nextIsAnd ((BinOp.and, n, a) :: r) = true) := Or.inr rfl
        rw [if_pos hflag]
        refine ⟨?_, by simp, ?_, ?_, ?_⟩
        · simp only [isHard, List.all_cons] at hh ⊢
          cases n0 <;> simp [hh]
        · simp only [hardP, List.any_cons] at hP ⊢
          rw [hP]
          cases n0 <;> simp [valsN, hdPos]
        · simp only [hardK, List.all_cons] at hK ⊢
          rw [hK]
          cases n0 <;> simp [valsN, hdOk, litv]
        · intro _
          cases g0 with
          | nil => exact absurd rfl hne
          | cons _ _ => simp
    | or =>
      have hflagc : (p = some BinOp.and ∨ nextIsAnd ((BinOp.or, n, a) :: r) = true) ↔ p = some .and := by
        simp [nextIsAnd]
      -- value and shape of the successor's group, which is complete now
      have hg0 : gv m res v g0 = ((!n || hdPos (valsN m res v r)) && (litv n (semAst m res v a) && hdOk (valsN m res v r)))
          ∧ okTailN g0 = true := by
        by_cases hf : (some BinOp.or = some BinOp.and ∨ nextIsAnd r = true)
        · rw [if_pos hf] at hhead
          obtain ⟨hh, hne, hP, hK, hlen⟩ := hhead
          have h2 := hlen (by simp)
          refine ⟨by rw [gv_hard m res v g0 hne hh, hP, hK], ?_⟩
          match g0, h2 with
          | _ :: _ :: _, _ => rfl
        · rw [if_neg hf] at hhead
          obtain ⟨e, rfl, hgv, hocc⟩ := hhead
          have hna : nextIsAnd r = false := by simpa using hf
          obtain ⟨h1, h2⟩ := hd_of_not_and m res v r hna
          refine ⟨by rw [hgv, h1, h2]; cases n <;> simp [litv], ?_⟩
          obtain ⟨o, x⟩ := e
          rcases hocc with ho | ⟨hp', _⟩
          · simp only at ho; subst ho; rfl
          · cases hp'
      have he : entryOf p (negOcc n0) a0 (some .or) =
          if p = some .and then (some (if n0 then Occur.mustNot else Occur.must), a0)
          else if n0 then (some Occur.should, a0.unary .mustNot) else (some Occur.should, a0) := by
        rw [entryOf_neg]
        cases p with
        | none => cases n0 <;> simp [chainOcc]
        | some q => cases q <;> cases n0 <;> simp [chainOcc]
      refine ⟨[entryOf p (negOcc n0) a0 (some .or)], g0 :: gs0, ?_, ?_, ?_, ?_, ?_⟩
      · rw [hchain]
        simp [groups, hnext, hg]
      · simp only [List.any_cons, hg0.1, hany]
        simp [valsN, tlN, runsN_split]
      · simp [hg0.2, htail]
      · intro g' hg' e he'
        simp only [List.mem_cons] at hg'
        rcases hg' with rfl | hg'
        · simp only [List.mem_singleton] at he'
          subst he'
          rw [he]
          split
          · exact hd0
          · split
            · exact (semAst_unary_not m res v a0 hd0).2
            · exact hd0
        · exact hnd g' (by simpa using hg') e he'
      · by_cases hp : p = some .and
        · rw [if_pos (hflagc.mpr hp), he, if_pos hp]
          subst hp
          simp [isHard, hardP, hardK, valsN, hdPos, hdOk, litv]
          cases n0 <;> simp
        · rw [if_neg (fun h => hp (hflagc.mp h)), he, if_neg hp]
          cases n0
          · exact ⟨_, rfl, by simp [gv], Or.inl rfl⟩
          · exact ⟨_, rfl, by simp [gv, (semAst_unary_not m res v a0 hd0).1], Or.inl rfl⟩

theorem assemble_single_gv (g : List (Entry L)) (hne : g ≠ []) (hnd : NoDead m res g) :
    semAst m res v (assemble [g]) = gv m res v g := by
  match g, hne, hnd with
  | [(o, a)], _, hnd =>
    by_cases ho : o = some .mustNot
    · subst ho
      have : assemble [[(some Occur.mustNot, a)]] = .clause [(some .mustNot, a)] := by simp [assemble]
      rw [this, semAst_clause, semLs_noDead m res v _ hnd]
      simp [gv, boolSem]
    · have : assemble [[(o, a)]] = a := by simp [assemble, ho]
      rw [this]
      simp [gv, ho]
  | e1 :: e2 :: r, _, hnd =>
    have : assemble [e1 :: e2 :: r] = .clause (e1 :: e2 :: r) := rfl
    rw [this, semAst_clause, semLs_noDead m res v _ hnd]
    rfl

theorem topN_ok (g : List (Entry L)) (h : okTailN g = true) (hd : NoDead m res g) :
    (top g).1 = some .should ∧ isDead (toLogical m res (top g).2) = false
      ∧ semAst m res v (top g).2 = gv m res v g := by
  match g, h, hd with
  | [], h, _ => simp [okTailN] at h
  | [(o, a)], h, hd =>
    simp [okTailN] at h
    subst h
    have ht : top [(some Occur.should, a)] = (some Occur.should, a) := rfl
    rw [ht]
    exact ⟨rfl, hd (some Occur.should, a) (by simp), by simp [gv]⟩
  | e1 :: e2 :: g', _, hd =>
    refine ⟨rfl, ?_, ?_⟩
    · simp only [top, toLogical, isDead]
      exact allDead_noDead m res _ hd (by simp)
    · simp only [top]
      rw [semAst_clause, semLs_noDead m res v _ hd]
      rfl

theorem assemble_multi_gv (g1 g2 : List (Entry L)) (gs : List (List (Entry L)))
    (hok : ∀ g ∈ g1 :: g2 :: gs, okTailN g = true) (hnd : ∀ g ∈ g1 :: g2 :: gs, NoDead m res g) :
    semAst m res v (assemble (g1 :: g2 :: gs)) = (g1 :: g2 :: gs).any (gv m res v) := by
  rw [assemble_multi, semAst_clause]
  have hnd' : NoDead m res ((g1 :: g2 :: gs).map top) := by
    intro e he
    obtain ⟨g', hg', rfl⟩ := List.mem_map.mp he
    exact (topN_ok m res v g' (hok g' hg') (hnd g' hg')).2.1
  rw [semLs_noDead m res v _ hnd']
  have : ((g1 :: g2 :: gs).map top).map (fun e => (e.1.getD m.occ, semAst m res v e.2))
      = ((g1 :: g2 :: gs).map (gv m res v)).map (fun b => (Occur.should, b)) := by
    rw [List.map_map, List.map_map]
    apply List.map_congr_left
    intro g' hg'
    obtain ⟨h1, _, h3⟩ := topN_ok m res v g' (hok g' hg') (hnd g' hg')
    simp [h1, h3]
  rw [this, boolSem_all_should]
  simp [List.any_map]

/-- meaning of the fold of a chain whose operands may carry `-` -/
theorem precedenceN_sem (n0 : Bool) (a0 : Ast L) (rest : List (BinOp × Bool × Ast L))
    (hd0 : isDead (toLogical m res a0) = false)
    (hdr : ∀ x ∈ rest, isDead (toLogical m res x.2.2) = false) :
    semAst m res v (assemble (groups (chainFromN none n0 a0 rest)))
      = runsN (!n0) (litv n0 (semAst m res v a0)) (valsN m res v rest) := by
  obtain ⟨g, gs, hg, hany, htail, hnd, hhead⟩ := chainN_groups m res v none n0 a0 rest hd0 hdr
  rw [hg, runsN_split, ← hany]
  -- value of the first group
  have hgv : gv m res v g = ((!n0 || hdPos (valsN m res v rest))
      && (litv n0 (semAst m res v a0) && hdOk (valsN m res v rest))) ∧ g ≠ []
      ∧ (gs ≠ [] → okTailN g = true) := by
    by_cases hf : ((none : Option BinOp) = some BinOp.and ∨ nextIsAnd rest = true)
    · rw [if_pos hf] at hhead
      obtain ⟨hh, hne, hP, hK, hlen⟩ := hhead
      refine ⟨by rw [gv_hard m res v g hne hh, hP, hK], hne, fun _ => ?_⟩
      have h2 := hlen (by simp)
      match g, h2 with
      | _ :: _ :: _, _ => rfl
    · rw [if_neg hf] at hhead
      obtain ⟨e, rfl, hgv, hocc⟩ := hhead
      have hna : nextIsAnd rest = false := by simpa using hf
      obtain ⟨h1, h2⟩ := hd_of_not_and m res v rest hna
      refine ⟨by rw [hgv, h1, h2]; cases n0 <;> simp [litv], by simp, fun hne => ?_⟩
      obtain ⟨o, x⟩ := e
      rcases hocc with ho | ⟨_, hr⟩
      · simp only at ho; subst ho; rfl
      · -- the chain is a single element: then there is no other group
        subst hr
        simp [chainFromN, groups, nextOp] at hg
        exact absurd hg.2 hne
  match gs, hany, htail, hnd, hgv with
  | [], _, _, hnd, hgv =>
    rw [assemble_single_gv m res v g hgv.2.1 (hnd g (by simp)), hgv.1]
    simp
  | g2 :: gs', _, htail, hnd, hgv =>
    rw [assemble_multi_gv m res v g g2 gs' ?_ hnd]
    · simp only [List.any_cons, hgv.1]
    · intro g' hg'
      simp only [List.mem_cons] at hg'
      rcases hg' with rfl | hg'
      · exact hgv.2.2 (by simp)
      · exact List.all_eq_true.mp htail g' (by simpa using hg')

end TantivyModel.Grammar
