import TantivyModel.Proofs.GrammarCharsBoost
import TantivyModel.Proofs.GrammarFold
import TantivyModel.Proofs.GrammarFoldNeg
namespace TantivyModel.Grammar.Chars
open TantivyModel.Grammar

/-! ## from printed operator chains to the fold-layer chains of `C16_precedence` -/

theorem opItems_chain (o : Opd) (ops : List (BinOp × Opd × Nat × Nat)) :
    (none, (none : Option Occur), some o.leaf) :: ((opItems ops).map itemOf).map rawOf
      = (chainFrom none o.leaf (ops.map fun x => (x.1, x.2.1.leaf))).map rawOf := by
  simp [opItems, chainFrom, rawOf, itemOf, normOcc, List.map_map, Function.comp_def]

theorem listTree_chain (o : Opd) (ops : List (BinOp × Opd × Nat × Nat)) (hne : ops ≠ []) :
    listTree none o (opItems ops)
      = (lenientFold ((chainFrom none o.leaf (ops.map fun x => (x.1, x.2.1.leaf))).map rawOf)).1 := by
  obtain ⟨t, ht⟩ := strictFold_ok (none, o.leaf) ((opItems ops).map itemOf)
  have hl := lenient_of_strict (none, o.leaf) ((opItems ops).map itemOf) t ht
  simp only [] at hl
  rw [opItems_chain] at hl
  have hs : strictAst (normOcc none, o.leaf) ((opItems ops).map itemOf) = .ok t := by
    obtain ⟨x, xs, rfl⟩ := List.exists_cons_of_ne_nil hne
    simpa [strictAst, opItems, normOcc] using ht
  simp [listTree, hs, hl]

theorem markItems_raw (occ : Option Occur) (o : Opd) (ms : List (Option Occur × Opd × Nat)) :
    ((none : Option BinOp), normOcc occ, some o.leaf) :: ((markItems ms).map itemOf).map rawOf
      = (marksItems (markEntries occ o ms)).map rawOf := by
  simp [markItems, markEntries, marksItems, rawOf, itemOf, List.map_map, Function.comp_def]

theorem listTree_marks (occ : Option Occur) (o : Opd) (ms : List (Option Occur × Opd × Nat)) (hne : ms ≠ []) :
    listTree occ o (markItems ms) = (lenientFold ((marksItems (markEntries occ o ms)).map rawOf)).1 := by
  obtain ⟨t, ht⟩ := strictFold_ok (normOcc occ, o.leaf) ((markItems ms).map itemOf)
  have hl := lenient_of_strict (normOcc occ, o.leaf) ((markItems ms).map itemOf) t ht
  simp only [] at hl
  rw [markItems_raw] at hl
  have hs : strictAst (normOcc occ, o.leaf) ((markItems ms).map itemOf) = .ok t := by
    obtain ⟨x, xs, rfl⟩ := List.exists_cons_of_ne_nil hne
    simpa [strictAst, markItems] using ht
  simp [listTree, hs, hl]

theorem negMark_eq (n : Bool) : negMark n = negOcc n := rfl

theorem normOcc_negMark (n : Bool) : normOcc (negMark n) = negMark n := by cases n <;> rfl

theorem normOcc_negOcc (n : Bool) : normOcc (negOcc n) = negOcc n := by cases n <;> rfl

theorem nopItems_raw (n0 : Bool) (o : Opd) (nops : List (BinOp × Bool × Opd × Nat × Nat)) :
    ((none : Option BinOp), normOcc (negMark n0), some o.leaf) :: ((nopItems nops).map itemOf).map rawOf
      = (chainFromN none n0 o.leaf (nops.map fun x => (x.1, x.2.1, x.2.2.1.leaf))).map rawOf := by
  simp [nopItems, chainFromN, rawOf, itemOf, normOcc_negOcc, negMark_eq, List.map_map, Function.comp_def]

theorem listTree_chainN (n0 : Bool) (o : Opd) (nops : List (BinOp × Bool × Opd × Nat × Nat)) (hne : nops ≠ []) :
    listTree (negMark n0) o (nopItems nops)
      = (lenientFold ((chainFromN none n0 o.leaf (nops.map fun x => (x.1, x.2.1, x.2.2.1.leaf))).map rawOf)).1 := by
  obtain ⟨t, ht⟩ := strictFold_ok (normOcc (negMark n0), o.leaf) ((nopItems nops).map itemOf)
  have hl := lenient_of_strict (normOcc (negMark n0), o.leaf) ((nopItems nops).map itemOf) t ht
  simp only [] at hl
  rw [nopItems_raw] at hl
  have hs : strictAst (normOcc (negMark n0), o.leaf) ((nopItems nops).map itemOf) = .ok t := by
    obtain ⟨x, xs, rfl⟩ := List.exists_cons_of_ne_nil hne
    simpa [strictAst, nopItems] using ht
  simp [listTree, hs, hl]

end TantivyModel.Grammar.Chars
