import TantivyModel.Proofs.BlockWandTotalF
/-!
Part G: the mirrored `block_wand` loop COMPLETES — the `is_sorted` assertion never fires, no skip
reader is ever ahead of the pivot's block, and every iteration drops a posting — and so
`C06_wand_union_skipsBelow` holds unconditionally on fresh scorers with enough fuel.
-/
namespace TantivyModel.BlockWand
open List TantivyModel.Wand

theorem mem_take_of_getElem? {β : Type} {l : List β} {k n : Nat} {x : β} (hk : k < n) (h : l[k]? = some x) :
    x ∈ l.take n := by
  have hlt : k < l.length := getElem?_lt_length h
  rw [mem_take_iff_getElem]
  refine ⟨k, by omega, ?_⟩
  rw [getElem?_eq_getElem hlt] at h
  exact Option.some.inj h

/-- after a successful alignment the first `pl` scorers sit on the pivot -/
theorem align_true_on_pivot {θ : Nat} {arr : List S} {bl pl pd : Nat} (hshape : PivotShape θ arr bl pl pd)
    {arr2 : List S}
    (hb : arr2.length = (shallow arr pl pd).length ∧ (∀ k, k < bl → ∃ s, arr2[k]? = some s ∧ s.doc = pd) ∧
      arr2.drop bl = (shallow arr pl pd).drop bl) :
    arr2.length = (shallow arr pl pd).length ∧ ∀ x, x ∈ arr2.take pl → x.doc = pd := by
  obtain ⟨pre, s, mid, suf, hl, hbl, hpl, hsd, hmid, hsuf, _, _⟩ := hshape.split
  obtain ⟨hlen, hprefix, hdrop⟩ := hb
  refine ⟨hlen, ?_⟩
  have harr1 : shallow arr pl pd = pre.map (·.seekBlock pd) ++ ((s :: mid).map (·.seekBlock pd) ++ suf) := by
    unfold shallow
    have e1 : arr.take pl = pre ++ s :: mid := by
      rw [hl]
      have : pre ++ s :: (mid ++ suf) = (pre ++ s :: mid) ++ suf := by simp
      rw [this, take_left' (by simp; omega)]
    have e2 : arr.drop pl = suf := by
      rw [hl]
      have : pre ++ s :: (mid ++ suf) = (pre ++ s :: mid) ++ suf := by simp
      rw [this, drop_left' (by simp; omega)]
    rw [e1, e2]; simp
  have hdrop1 : (shallow arr pl pd).drop bl = (s :: mid).map (·.seekBlock pd) ++ suf := by
    rw [harr1, drop_left' (by simp; omega)]
  intro x hx
  obtain ⟨k, hk, hxk⟩ := mem_take_getElem? hx
  rcases Nat.lt_or_ge k bl with hkb | hkb
  · obtain ⟨y, hy, hyd⟩ := hprefix k hkb
    rw [hxk] at hy; cases hy; exact hyd
  · have h1 : arr2[k]? = (arr2.drop bl)[k - bl]? := by
      rw [getElem?_drop]; congr 1; omega
    rw [h1, hdrop, hdrop1, getElem?_append_left (by simp; omega)] at hxk
    have hxm : x ∈ (s :: mid).map (·.seekBlock pd) := mem_of_getElem? hxk
    obtain ⟨y, hy, rfl⟩ := mem_map.mp hxm
    rw [seekBlock_doc]
    rcases mem_cons.mp hy with rfl | hy
    · exact hsd
    · exact hmid y hy

theorem wandLoop_completes {σ : Type} {cb : σ → Nat → Nat → σ × Nat} {R : σ → Nat → Prop} (hcb : MonoCb cb R) :
    ∀ (fuel : Nat) (s : σ) (θ : Nat) (arr : List S) (P : Nat), R s θ → TInv P θ arr → lenSum arr < fuel →
      ∃ out, wandLoop cb fuel (s, θ) arr = .ok out
  | 0, _, _, _, _, _, _, h => by omega
  | fuel + 1, s, θ, arr, P, hR, hinv, hfuel => by
    unfold wandLoop
    rw [isSorted_of_sorted arr hinv.sorted]
    simp only [Bool.not_true, Bool.false_eq_true, if_false]
    cases hp : findPivotDoc θ arr with
    | none => exact ⟨_, rfl⟩
    | some r =>
      obtain ⟨bl, pl, pd⟩ := r
      simp only
      have hshape := findPivotDoc_some_lt hinv.sorted (fun x hx => (hinv.wf x hx).lt) hp
      have hP := pivot_ge hinv hp
      have hpd := hshape.lt
      obtain ⟨hinv1, hpre1, hsuf1⟩ := shallow_tinv hinv hshape hP
      have hlen1 : lenSum (shallow arr pl pd) = lenSum arr := shallow_lenSum arr pl pd
      have hpl : 0 < pl ∧ pl ≤ (shallow arr pl pd).length := by
        obtain ⟨pre, s0, mid, suf, hl, hbl, hpl, _⟩ := hshape.split
        unfold shallow
        rw [length_append, length_map, length_take, length_drop, hl]
        simp; omega
      change ∃ out, (if (!Sc.gt (sumBy TS.blockMax ((shallow arr pl pd).take pl)) θ) = true then _ else _) = Outcome.ok out
      split
      · -- block-max sum too low
        rw [show (map (fun x => x.seekBlock pd) (take pl arr) ++ drop pl arr) = shallow arr pl pd from rfl]
        split
        · obtain ⟨hinv2, hlt2⟩ := tooLow_total hinv1 hpd hpl.1 hpl.2 hpre1 hsuf1
          exact wandLoop_completes hcb fuel s θ _ pd hR hinv2 (by omega)
        · rename_i hbad
          exfalso; apply hbad
          rw [all_eq_true]
          intro x hx
          simpa using (hpre1 x hx).1
      · -- align, then score
        rw [show (map (fun x => x.seekBlock pd) (take pl arr) ++ drop pl arr) = shallow arr pl pd from rfl]
        cases halign : alignScorers (shallow arr pl pd) pd bl with
        | mk arr2 b =>
          have hbl : bl ≤ (shallow arr pl pd).length := by
            obtain ⟨pre, s0, mid, suf, hl, hbl, hpl', _⟩ := hshape.split
            omega
          have htk : ∀ y, y ∈ (shallow arr pl pd).take bl → y.doc ≤ pd := by
            intro y hy
            have hblpl : bl ≤ pl := by
              obtain ⟨pre, s0, mid, suf, hl, hbl, hpl', _⟩ := hshape.split
              omega
            exact (hpre1 y ((take_sublist_take_left hblpl).subset hy)).2
          have hdr : ∀ y, y ∈ (shallow arr pl pd).drop bl → pd ≤ y.doc := by
            intro y hy
            obtain ⟨pre, s0, mid, suf, hl, hbl', hpl', hsd, hmid, hsuf, _, _⟩ := hshape.split
            have e1 : arr.take pl = pre ++ s0 :: mid := by
              rw [hl]
              have : pre ++ s0 :: (mid ++ suf) = (pre ++ s0 :: mid) ++ suf := by simp
              rw [this, take_left' (by simp; omega)]
            have e2 : arr.drop pl = suf := by
              rw [hl]
              have : pre ++ s0 :: (mid ++ suf) = (pre ++ s0 :: mid) ++ suf := by simp
              rw [this, drop_left' (by simp; omega)]
            have harr1 : shallow arr pl pd = pre.map (·.seekBlock pd) ++ ((s0 :: mid).map (·.seekBlock pd) ++ suf) := by
              unfold shallow; rw [e1, e2]; simp
            rw [harr1, drop_left' (by simp; omega)] at hy
            rcases mem_append.mp hy with hy | hy
            · obtain ⟨z, hz, rfl⟩ := mem_map.mp hy
              rw [seekBlock_doc]
              rcases mem_cons.mp hz with rfl | hz
              · omega
              · have := hmid z hz; omega
            · have := hsuf y hy; omega
          obtain ⟨a1, a2, a3, a4, a5, a6⟩ := align_total pd hpd bl (shallow arr pl pd) hbl hinv1.sorted hinv1.wf hinv1.j
            htk hdr arr2 b halign
          cases b with
          | false =>
            simp only
            obtain ⟨q1, q2⟩ := a5 rfl
            exact wandLoop_completes hcb fuel s θ arr2 pd hR
              ⟨q1, a1, a2, fun d hd => Nat.le_trans (a3 d) (hinv1.dead d hd)⟩ (by omega)
          | true =>
            simp only
            obtain ⟨hl2, hon⟩ := align_true_on_pivot hshape (a6 rfl)
            -- the state after the callback: thresholds never decrease
            have hst : ∃ s' θ', (if Sc.gt (sumBy TS.score (arr2.take pl)) θ = true then cb s pd (sumBy TS.score (arr2.take pl)) else (s, θ)) = (s', θ')
                ∧ R s' θ' ∧ θ ≤ θ' := by
              by_cases hg : Sc.gt (sumBy TS.score (arr2.take pl)) θ = true
              · rw [if_pos hg]
                have hlt : θ < sumBy TS.score (arr2.take pl) := by simpa [sc_gt] using hg
                obtain ⟨h1, h2⟩ := hcb.step s θ pd _ hR hlt
                exact ⟨_, _, rfl, h1, h2⟩
              · rw [if_neg hg]; exact ⟨s, θ, rfl, hR, Nat.le_refl _⟩
            obtain ⟨s', θ', hst', hR', hθ⟩ := hst
            rw [hst']
            obtain ⟨hinv3, hlt3⟩ := advance_total (θ := θ') hpd hpl.1 (by omega) a1 a2
              (fun d hd => Nat.le_trans (Nat.le_trans (a3 d) (hinv1.dead d hd)) hθ) hon
            exact wandLoop_completes hcb fuel s' θ' _ pd hR' hinv3 (by omega)

theorem lenSum_filter_le (q : S → Bool) : ∀ (l : List S), lenSum (l.filter q) ≤ lenSum l
  | [] => Nat.le_refl _
  | x :: xs => by
    have ih := lenSum_filter_le q xs
    by_cases hx : q x = true
    · rw [filter_cons_of_pos hx, lenSum_cons, lenSum_cons]; omega
    · rw [filter_cons_of_neg hx, lenSum_cons]; omega

/-- `block_wand` (mirrored) COMPLETES — no bound hypothesis needed: on fresh scorers (skip readers on
their first block) with ascending postings and full blocks below `TERMINATED`, and a fuel larger
than the number of postings, the loop ends with `.ok` for every callback with non-decreasing
thresholds -/
theorem blockWand_completes {σ : Type} {cb : σ → Nat → Nat → σ × Nat} {R : σ → Nat → Prop}
    (hcb : MonoCb cb R) (fuel : Nat) (s : σ) (θ : Nat) (hR : R s θ) (scorers : List S)
    (hwf : ∀ x, x ∈ scorers → WFC x) (hfresh : ∀ x, x ∈ scorers → x.skip = 0)
    (hfuel : lenSum scorers < fuel) : ∃ out, blockWand cb fuel (s, θ) scorers = .ok out := by
  have hsub : ∀ x, x ∈ sortByDoc (scorers.filter (fun s => decide (s.doc < T))) → x ∈ scorers :=
    fun x hx => (mem_filter.mp ((sortByDoc_perm _).subset hx)).1
  have hinv : TInv 0 θ (sortByDoc (scorers.filter (fun s => decide (s.doc < T)))) :=
    ⟨sortByDoc_sorted _, fun x hx => hwf x (hsub x hx),
      fun x hx => by unfold JOK; rw [hfresh x (hsub x hx)]; exact Nat.zero_le _,
      fun d hd => by omega⟩
  have hlen : lenSum (sortByDoc (scorers.filter (fun s => decide (s.doc < T)))) ≤ lenSum scorers := by
    rw [lenSum_perm (sortByDoc_perm _)]
    exact lenSum_filter_le _ scorers
  unfold blockWand
  exact wandLoop_completes hcb fuel s θ _ 0 hR hinv (by omega)

/-- `WF` plus: the full blocks end below `TERMINATED` -/
structure WFT (x : S) : Prop where
  wf : WF x
  blocksLt : ∀ b, b ∈ x.blocks → b.1 < T

theorem WFT.wfc {x : S} (h : WFT x) : WFC x := ⟨h.wf.asc, h.wf.lt, h.blocksLt⟩

/-- … and, given the bound hypotheses, it is right: the state of the exhaustive loop -/
theorem blockWand_total {σ : Type} {cb : σ → Nat → Nat → σ × Nat} {R : σ → Nat → Prop}
    (hcb : MonoCb cb R) (fuel : Nat) (s : σ) (θ : Nat) (hR : R s θ) (scorers : List S)
    (hwf : ∀ x, x ∈ scorers → WFT x) (hfresh : ∀ x, x ∈ scorers → x.skip = 0)
    (hfuel : lenSum scorers < fuel) :
    blockWand cb fuel (s, θ) scorers = .ok (exhRange cb (tot scorers) 0 T (s, θ)) := by
  obtain ⟨out, hout⟩ := blockWand_completes hcb fuel s θ hR scorers (fun x hx => (hwf x hx).wfc) hfresh hfuel
  rw [hout, blockWand_eq_exhaustive hcb fuel s θ hR scorers (fun x hx => (hwf x hx).wf) out hout]

end TantivyModel.BlockWand
