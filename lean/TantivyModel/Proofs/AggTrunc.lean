import TantivyModel.Proofs.AggSpecEq
import TantivyModel.Proofs.AggSort
/-!
C14 helper lemmas for the error bound of terms aggregations under segment truncation:
insertion sort, integer spans and hulls, sums over key lists, what `termsCut` removes.
-/
namespace TantivyModel.Agg


theorem countDesc_total (a b : Int × Nat) :
    Order.le .countDesc a b = true ∨ Order.le .countDesc b a = true := by
  simp only [Order.le, Bool.or_eq_true, Bool.and_eq_true, decide_eq_true_eq, beq_iff_eq]
  omega

theorem countDesc_trans (a b c : Int × Nat) (h1 : Order.le .countDesc a b = true)
    (h2 : Order.le .countDesc b c = true) : Order.le .countDesc a c = true := by
  simp only [Order.le, Bool.or_eq_true, Bool.and_eq_true, decide_eq_true_eq, beq_iff_eq] at *
  omega

theorem countDesc_le_count (a b : Int × Nat) (h : Order.le .countDesc a b = true) : b.2 ≤ a.2 := by
  simp only [Order.le, Bool.or_eq_true, Bool.and_eq_true, decide_eq_true_eq, beq_iff_eq] at h
  omega

/-! ### integer spans and hulls -/

theorem mem_intRange {k : Int} : ∀ {n : Nat} {lo : Int}, k ∈ intRange lo n ↔ lo ≤ k ∧ k < lo + n
  | 0, lo => by simp [intRange]
  | n + 1, lo => by
    simp only [intRange, List.mem_cons, mem_intRange (n := n) (lo := lo + 1)]
    omega

theorem mem_intSpan {k lo hi : Int} : k ∈ intSpan lo hi ↔ lo ≤ k ∧ k ≤ hi := by
  unfold intSpan
  rw [mem_intRange]
  omega

theorem nodup_intRange : ∀ (n : Nat) (lo : Int), (intRange lo n).Nodup
  | 0, _ => by simp [intRange]
  | n + 1, lo => by
    simp only [intRange]
    refine List.nodup_cons.2 ⟨?_, nodup_intRange n (lo + 1)⟩
    rw [mem_intRange]; omega

theorem nodup_spanOf (h : Option (Int × Int)) : (spanOf h).Nodup := by
  unfold spanOf
  cases h with
  | none => simp
  | some p => exact nodup_intRange _ _

/-- `k` lies inside the hull -/
def inHull : Option (Int × Int) → Int → Prop
  | some (lo, hi), k => lo ≤ k ∧ k ≤ hi
  | Option.none, _ => False

theorem mem_spanOf {h : Option (Int × Int)} {k : Int} : k ∈ spanOf h ↔ inHull h k := by
  cases h with
  | none => simp [spanOf, inHull]
  | some p => obtain ⟨lo, hi⟩ := p; simp [spanOf, inHull, mem_intSpan]

theorem inHull_merge_left {a b : Option (Int × Int)} {k : Int} (h : inHull a k) : inHull (hullMerge a b) k := by
  cases a with
  | none => exact absurd h (by simp [inHull])
  | some p =>
    obtain ⟨a1, a2⟩ := p
    cases b with
    | none => exact h
    | some q =>
      obtain ⟨b1, b2⟩ := q
      simp only [inHull, hullMerge] at h ⊢
      constructor
      · by_cases hc : a1 ≤ b1 <;> simp only [hc, if_true, if_false] <;> omega
      · by_cases hc : a2 ≤ b2 <;> simp only [hc, if_true, if_false] <;> omega

theorem inHull_merge_right {a b : Option (Int × Int)} {k : Int} (h : inHull b k) : inHull (hullMerge a b) k := by
  rw [hullMerge_comm]; exact inHull_merge_left h

theorem inHull_hullOfList {l : List Int} {k : Int} (h : k ∈ l) : inHull (hullOfList l) k := by
  induction l with
  | nil => exact absurd h (by simp)
  | cons x xs ih =>
    have e : hullOfList (x :: xs) = hullMerge (hullOfList [x]) (hullOfList xs) := hullOfList_append [x] xs
    rw [e]
    rcases List.mem_cons.1 h with rfl | h
    · apply inHull_merge_left
      simp [hullOfList, hullMerge, inHull]
    · exact inHull_merge_right (ih h)

/-! ### counts as functions of the key, sums over a universe of keys -/

section cnt
variable {V : Type}

/-- doc count recorded under key `k` (0 when absent) -/
def cnt (m : KMap (Nat × V)) (k : Int) : Nat :=
  match m.get k with
  | some e => e.1
  | Option.none => 0

def sumOver (U : List Int) (f : Int → Nat) : Nat := (U.map f).sum

theorem cnt_merge (f : V → V → V) (a b : KMap (Nat × V)) (k : Int) :
    cnt (KMap.merge (entryMerge f) a b) k = cnt a k + cnt b k := by
  unfold cnt
  simp only [KMap.merge]
  cases ha : a.get k <;> cases hb : b.get k <;> simp [optMerge, entryMerge]

theorem cnt_mapVals (g : V → V) (m : KMap (Nat × V)) (k : Int) : cnt (m.mapVals g) k = cnt m k := by
  unfold cnt KMap.mapVals
  simp only []
  cases m.get k <;> rfl

theorem cnt_restrict (m : KMap (Nat × V)) (keep : List Int) (k : Int) :
    cnt (m.restrict keep) k = if keep.contains k then cnt m k else 0 := by
  unfold cnt KMap.restrict
  simp only []
  by_cases h : keep.contains k
  · simp only [h, if_true]
  · simp only [h, Bool.false_eq_true, if_false]

theorem cnt_empty (k : Int) : cnt (KMap.empty : KMap (Nat × V)) k = 0 := rfl

theorem sumOver_add (U : List Int) (f g : Int → Nat) :
    sumOver U (fun k => f k + g k) = sumOver U f + sumOver U g := by
  unfold sumOver
  induction U with
  | nil => rfl
  | cons u us ih => simp only [List.map_cons, List.sum_cons, ih]; omega

theorem sumOver_congr (U : List Int) (f g : Int → Nat) (h : ∀ k ∈ U, f k = g k) :
    sumOver U f = sumOver U g := by
  unfold sumOver
  rw [List.map_congr_left h]

theorem sumOver_indicator (U : List Int) (hU : U.Nodup) (k0 : Int) (c : Nat) (h : k0 ∈ U) :
    sumOver U (fun k => if k = k0 then c else 0) = c := by
  unfold sumOver
  induction U with
  | nil => exact absurd h (by simp)
  | cons u us ih =>
    obtain ⟨hnot, hus⟩ := List.nodup_cons.1 hU
    simp only [List.map_cons, List.sum_cons]
    rcases List.mem_cons.1 h with rfl | h
    · have : (us.map (fun k => if k = k0 then c else 0)).sum = 0 := by
        have e : us.map (fun k => if k = k0 then c else 0) = us.map (fun _ => 0) :=
          List.map_congr_left (fun k hk => by
            have : k ≠ k0 := fun e => hnot (e ▸ hk)
            simp [this])
        rw [e]
        clear ih hus hnot hU h e
        induction us with
        | nil => rfl
        | cons _ _ ih2 => simp [ih2]
      simp [this]
    · have hne : u ≠ k0 := fun e => hnot (e ▸ h)
      simp only [hne, if_false, Nat.zero_add]
      exact ih hus h

theorem perm_sumCounts {l₁ l₂ : List (Int × Nat × V)} (h : l₁.Perm l₂) : sumCounts l₁ = sumCounts l₂ := by
  unfold sumCounts
  induction h with
  | nil => rfl
  | cons a _ ih => simp only [List.map_cons, List.sum_cons, ih]
  | swap a b l => simp only [List.map_cons, List.sum_cons]; omega
  | trans _ _ ih₁ ih₂ => rw [ih₁, ih₂]

theorem sumCounts_append (a b : List (Int × Nat × V)) : sumCounts (a ++ b) = sumCounts a + sumCounts b := by
  unfold sumCounts
  rw [List.map_append, List.sum_append]

/-- (L) a function on keys that is given by an association list with distinct keys inside the
universe sums to the list's counts -/
theorem sumOver_eq_sumCounts (U : List Int) (hU : U.Nodup) :
    ∀ (es : List (Int × Nat × V)) (g : Int → Nat), (es.map (·.1)).Nodup → (∀ e ∈ es, e.1 ∈ U) →
      (∀ e ∈ es, g e.1 = e.2.1) → (∀ k, k ∉ es.map (·.1) → g k = 0) → sumOver U g = sumCounts es
  | [], g, _, _, _, h0 => by
    have : sumOver U g = sumOver U (fun _ => 0) := sumOver_congr U g _ (fun k _ => h0 k (by simp))
    rw [this]
    unfold sumOver sumCounts
    clear this h0 hU
    induction U with
    | nil => rfl
    | cons _ _ ih => simp [ih]
  | e :: es, g, hnd, hin, hg, h0 => by
    have hnd2 : (e.1 :: es.map (·.1)).Nodup := hnd
    obtain ⟨hnot, hnd'⟩ := List.nodup_cons.1 hnd2
    have key : ∀ k, g k = (if k = e.1 then 0 else g k) + (if k = e.1 then e.2.1 else 0) := by
      intro k
      by_cases hk : k = e.1
      · subst hk; simp [hg e (List.mem_cons_self)]
      · simp [hk]
    have e1 : sumOver U g = sumOver U (fun k => (if k = e.1 then 0 else g k) + (if k = e.1 then e.2.1 else 0)) :=
      sumOver_congr U g _ (fun k _ => key k)
    rw [e1, sumOver_add, sumOver_indicator U hU e.1 e.2.1 (hin e (List.mem_cons_self))]
    rw [sumOver_eq_sumCounts U hU es (fun k => if k = e.1 then 0 else g k) hnd'
      (fun x hx => hin x (List.mem_cons_of_mem _ hx))]
    · unfold sumCounts; simp only [List.map_cons, List.sum_cons]; omega
    · intro x hx
      have hne : x.1 ≠ e.1 := fun h => hnot (h ▸ List.mem_map_of_mem (f := (·.1)) hx)
      simp only [hne, if_false]
      exact hg x (List.mem_cons_of_mem _ hx)
    · intro k hk
      by_cases hke : k = e.1
      · simp [hke]
      · simp only [hke, if_false]
        apply h0 k
        simp only [List.map_cons, List.mem_cons, not_or]
        exact ⟨hke, hk⟩

/-! ### entries of a key map -/

/-- every present key lies inside the hull (so that `entries` sees it) -/
def Supp (m : KMap (Nat × V)) : Prop := ∀ k e, m.get k = some e → inHull m.hull k

theorem mem_entries {m : KMap (Nat × V)} {e : Int × Nat × V} :
    e ∈ m.entries ↔ e.1 ∈ spanOf m.hull ∧ m.get e.1 = some e.2 := by
  unfold KMap.entries
  rw [List.mem_filterMap]
  constructor
  · rintro ⟨a, ha, h⟩
    cases hg : m.get a with
    | none => simp [hg] at h
    | some v =>
      simp only [hg, Option.map_some, Option.some.injEq] at h
      subst h
      exact ⟨ha, hg⟩
  · rintro ⟨h1, h2⟩
    exact ⟨e.1, h1, by simp [h2]⟩

theorem filterMap_keys (m : KMap (Nat × V)) (l : List Int) :
    (l.filterMap (fun k => (m.get k).map (fun v => (k, v)))).map (·.1) = l.filter (fun k => (m.get k).isSome) := by
  induction l with
  | nil => rfl
  | cons k l ih =>
    cases hg : m.get k <;> simp [List.filterMap_cons, List.filter_cons, hg, ih]

theorem entries_keys_nodup (m : KMap (Nat × V)) : (m.entries.map (·.1)).Nodup := by
  unfold KMap.entries
  rw [filterMap_keys]
  exact List.Pairwise.filter _ (nodup_spanOf m.hull)

theorem mem_entries_of_get {m : KMap (Nat × V)} (hs : Supp m) {k : Int} {e : Nat × V}
    (h : m.get k = some e) : (k, e) ∈ m.entries :=
  mem_entries.2 ⟨mem_spanOf.2 (hs k e h), h⟩

/-! ### what `termsCut` removes -/

theorem sortBuckets_perm (o : Order) (l : List (Int × Nat × V)) : (sortBuckets o l).Perm l :=
  isort_perm _ l

theorem sortBuckets_countDesc_pairwise (l : List (Int × Nat × V)) :
    (sortBuckets .countDesc l).Pairwise (fun a b => b.2.1 ≤ a.2.1) := by
  have h := isort_pairwise (fun a b : Int × Nat × V => Order.le .countDesc (a.1, a.2.1) (b.1, b.2.1))
    (fun a b => countDesc_total _ _) (fun a b c => countDesc_trans _ _ _) l
  exact List.Pairwise.imp (fun {a b} hab => countDesc_le_count (a.1, a.2.1) (b.1, b.2.1) hab) h

theorem termsCut_small (p : TermsP) (t : TermsI V) (h : t.map.entries.length ≤ p.segSize) :
    termsCut p t = t := by
  unfold termsCut; simp [h]

theorem termsCut_big (p : TermsP) (t : TermsI V) (h : ¬ t.map.entries.length ≤ p.segSize) :
    termsCut p t = ⟨t.map.restrict (((sortBuckets p.order t.map.entries).take p.segSize).map (·.1)),
      t.other + sumCounts ((sortBuckets p.order t.map.entries).drop p.segSize),
      t.err + (match (sortBuckets p.order t.map.entries).drop p.segSize with | [] => 0 | c :: _ => c.2.1)⟩ := by
  unfold termsCut
  simp only [h, if_false]
  rfl

theorem termsCut_supp (p : TermsP) (t : TermsI V) (hs : Supp t.map) : Supp (termsCut p t).map := by
  by_cases h : t.map.entries.length ≤ p.segSize
  · rw [termsCut_small p t h]; exact hs
  · rw [termsCut_big p t h]
    intro k e hg
    simp only [KMap.restrict] at hg ⊢
    split at hg
    · exact hs k e hg
    · cases hg

theorem termsCut_cnt_le (p : TermsP) (t : TermsI V) (k : Int) :
    cnt (termsCut p t).map k ≤ cnt t.map k := by
  by_cases h : t.map.entries.length ≤ p.segSize
  · rw [termsCut_small p t h]; exact Nat.le_refl _
  · rw [termsCut_big p t h]
    simp only [cnt_restrict]
    split
    · exact Nat.le_refl _
    · exact Nat.zero_le _

/-- where a present entry ends up: among the kept ones or among the cut ones -/
theorem sorted_split (p : TermsP) (t : TermsI V) (hs : Supp t.map) {k : Int} {e : Nat × V}
    (hg : t.map.get k = some e) :
    (k, e) ∈ (sortBuckets p.order t.map.entries).take p.segSize
      ∨ (k, e) ∈ (sortBuckets p.order t.map.entries).drop p.segSize := by
  have h1 : (k, e) ∈ sortBuckets p.order t.map.entries :=
    (sortBuckets_perm p.order _).mem_iff.2 (mem_entries_of_get hs hg)
  rw [← List.take_append_drop p.segSize (sortBuckets p.order t.map.entries)] at h1
  exact List.mem_append.1 h1

theorem termsCut_err_bound (p : TermsP) (t : TermsI V) (hs : Supp t.map) (ho : p.order = .countDesc)
    (k : Int) : cnt t.map k + t.err ≤ cnt (termsCut p t).map k + (termsCut p t).err := by
  by_cases h : t.map.entries.length ≤ p.segSize
  · rw [termsCut_small p t h]; exact Nat.le_refl _
  · rw [termsCut_big p t h]
    simp only [cnt_restrict]
    by_cases hc : (((sortBuckets p.order t.map.entries).take p.segSize).map (·.1)).contains k
    · simp only [hc, if_true]; omega
    · simp only [hc, Bool.false_eq_true, if_false, Nat.zero_add]
      cases hg : t.map.get k with
      | none => simp only [cnt, hg]; omega
      | some e =>
        have hcnt : cnt t.map k = e.1 := by simp only [cnt, hg]
        rw [hcnt]
        rcases sorted_split p t hs hg with hin | hin
        · exfalso
          apply hc
          have : k ∈ ((sortBuckets p.order t.map.entries).take p.segSize).map (·.1) :=
            List.mem_map_of_mem (f := (·.1)) hin
          simpa using this
        · have hpw : ((sortBuckets p.order t.map.entries).drop p.segSize).Pairwise (fun a b => b.2.1 ≤ a.2.1) := by
            rw [ho]
            exact List.Pairwise.sublist (List.drop_sublist _ _) (sortBuckets_countDesc_pairwise _)
          generalize (sortBuckets p.order t.map.entries).drop p.segSize = cut at hin hpw
          cases cut with
          | nil => exact absurd hin (by simp)
          | cons c cs =>
            simp only []
            obtain ⟨hc1, _⟩ := List.pairwise_cons.1 hpw
            rcases List.mem_cons.1 hin with heq | hin2
            · subst heq; dsimp only; omega
            · have := hc1 _ hin2
              simp only [] at this
              omega

theorem termsCut_conservation (p : TermsP) (t : TermsI V) (hs : Supp t.map) (U : List Int)
    (hU : U.Nodup) (hcov : ∀ k e, t.map.get k = some e → k ∈ U) :
    sumOver U (cnt (termsCut p t).map) + (termsCut p t).other = sumOver U (cnt t.map) + t.other := by
  by_cases h : t.map.entries.length ≤ p.segSize
  · rw [termsCut_small p t h]
  · rw [termsCut_big p t h]
    simp only []
    have hperm := sortBuckets_perm p.order t.map.entries
    generalize hsorted : sortBuckets p.order t.map.entries = sorted at hperm
    have hnd : (sorted.map (·.1)).Nodup :=
      (List.Perm.nodup_iff (hperm.map (·.1))).2 (entries_keys_nodup t.map)
    have hsplit : (sorted.take p.segSize).map (·.1) ++ (sorted.drop p.segSize).map (·.1) = sorted.map (·.1) := by
      rw [← List.map_append, List.take_append_drop]
    have hdisj := (List.nodup_append.1 (hsplit ▸ hnd))
    have hmem : ∀ x, x ∈ sorted → t.map.get x.1 = some x.2 := fun x hx =>
      (mem_entries.1 (hperm.mem_iff.1 hx)).2
    have hwhere : ∀ k e, t.map.get k = some e → (k, e) ∈ sorted.take p.segSize ∨ (k, e) ∈ sorted.drop p.segSize := by
      intro k e hg
      have := sorted_split p t hs hg
      rw [hsorted] at this
      exact this
    -- split the true counts into kept and cut
    have e1 : sumOver U (cnt t.map) =
        sumOver U (cnt (t.map.restrict ((sorted.take p.segSize).map (·.1))))
          + sumOver U (fun k => if ((sorted.take p.segSize).map (·.1)).contains k then 0 else cnt t.map k) := by
      rw [← sumOver_add]
      apply sumOver_congr
      intro k _
      rw [cnt_restrict]
      by_cases hc : ((sorted.take p.segSize).map (·.1)).contains k
      · simp only [hc, if_true, Nat.add_zero]
      · simp only [hc, Bool.false_eq_true, if_false, Nat.zero_add]
    have e2 : sumOver U (fun k => if ((sorted.take p.segSize).map (·.1)).contains k then 0 else cnt t.map k)
        = sumCounts (sorted.drop p.segSize) := by
      apply sumOver_eq_sumCounts U hU
      · exact hdisj.2.1
      · intro x hx
        exact hcov x.1 x.2 (hmem x (List.mem_of_mem_drop hx))
      · intro x hx
        have hnk : ¬ ((sorted.take p.segSize).map (·.1)).contains x.1 = true := by
          intro hk
          have hk' : x.1 ∈ (sorted.take p.segSize).map (·.1) := by simpa using hk
          exact hdisj.2.2 x.1 hk' x.1 (List.mem_map_of_mem (f := (·.1)) hx) rfl
        simp only [hnk, Bool.false_eq_true, if_false]
        simp only [cnt, hmem x (List.mem_of_mem_drop hx)]
      · intro k hk
        by_cases hc : ((sorted.take p.segSize).map (·.1)).contains k
        · simp only [hc, if_true]
        · simp only [hc, Bool.false_eq_true, if_false]
          cases hg : t.map.get k with
          | none => simp only [cnt, hg]
          | some e =>
            exfalso
            rcases hwhere k e hg with hin | hin
            · apply hc
              have : k ∈ (sorted.take p.segSize).map (·.1) := List.mem_map_of_mem (f := (·.1)) hin
              simpa using this
            · exact hk (List.mem_map_of_mem (f := (·.1)) hin)
    rw [e1, e2]
    omega

end cnt

/-! ### the merged, truncated tree against the exact tree -/

section global
variable {M : Type} [AddOp M] [LawfulAddOp M]

theorem collectB_supp (sub : Req) (keysOf : Doc → List Int) (docs : List Doc)
    (hnd : ∀ d ∈ docs, (keysOf d).Nodup) {k : Int} {e : Nat × Inter M sub}
    (hg : (collectB (M := M) sub keysOf docs).get k = some e) :
    ∃ d ∈ docs, k ∈ keysOf d := by
  rw [(collectB_spec sub keysOf docs hnd).2 k] at hg
  by_cases he : (docs.filter (fun d => (keysOf d).contains k)).isEmpty
  · simp only [he, if_true] at hg
    cases hg
  · have hne : docs.filter (fun d => (keysOf d).contains k) ≠ [] := by simpa using he
    obtain ⟨d, hd⟩ := List.exists_mem_of_ne_nil _ hne
    obtain ⟨h1, h2⟩ := List.mem_filter.1 hd
    exact ⟨d, h1, by simpa using h2⟩

theorem collectB_Supp (sub : Req) (keysOf : Doc → List Int) (docs : List Doc)
    (hnd : ∀ d ∈ docs, (keysOf d).Nodup) : Supp (collectB (M := M) sub keysOf docs) := by
  intro k e hg
  obtain ⟨d, hd, hk⟩ := collectB_supp sub keysOf docs hnd hg
  rw [(collectB_spec sub keysOf docs hnd).1]
  exact inHull_hullOfList (List.mem_flatMap.2 ⟨d, hd, hk⟩)

theorem collectB_cnt (sub : Req) (keysOf : Doc → List Int) (docs : List Doc)
    (hnd : ∀ d ∈ docs, (keysOf d).Nodup) (k : Int) :
    cnt (collectB (M := M) sub keysOf docs) k = (docs.filter (fun d => (keysOf d).contains k)).length := by
  unfold cnt
  rw [(collectB_spec sub keysOf docs hnd).2 k]
  by_cases he : (docs.filter (fun d => (keysOf d).contains k)).isEmpty
  · have : docs.filter (fun d => (keysOf d).contains k) = [] := by simpa using he
    simp only [he, if_true]
    rw [this]; rfl
  · simp only [he, Bool.false_eq_true, if_false]

/-- the tree the collector returns for the partition `parts` (segment truncation applied) -/
def mergedTerms (p : TermsP) (sub : Req) (parts : List (List Doc)) : TermsI (Inter M sub) :=
  (parts.map (collectSeg (.terms p sub))).foldl (merge (.terms p sub)) (empty (.terms p sub))

theorem mergedTerms_cons (p : TermsP) (sub : Req) (part : List Doc) (parts : List (List Doc)) :
    mergedTerms (M := M) p sub (part :: parts)
      = merge (.terms p sub) (collectSeg (.terms p sub) part) (mergedTerms p sub parts) := by
  unfold mergedTerms
  simp only [List.map_cons, List.foldl_cons]
  rw [foldl_op_init (merge (.terms p sub)) (empty (.terms p sub)) (merge_assoc _) (merge_comm _) (empty_merge _),
    empty_merge]

theorem terms_error_bound (p : TermsP) (sub : Req) (parts : List (List Doc)) (U : List Int)
    (hU : U.Nodup) (hcov : ∀ part ∈ parts, ∀ d ∈ part, ∀ k ∈ termKeys p d, k ∈ U) :
    (∀ k, cnt (mergedTerms (M := M) p sub parts).map k
        ≤ (parts.flatten.filter (fun d => (termKeys p d).contains k)).length)
    ∧ (p.order = .countDesc → ∀ k, (parts.flatten.filter (fun d => (termKeys p d).contains k)).length
        ≤ cnt (mergedTerms (M := M) p sub parts).map k + (mergedTerms (M := M) p sub parts).err)
    ∧ sumOver U (cnt (mergedTerms (M := M) p sub parts).map) + (mergedTerms (M := M) p sub parts).other
        = sumOver U (fun k => (parts.flatten.filter (fun d => (termKeys p d).contains k)).length) := by
  induction parts with
  | nil =>
    refine ⟨fun k => Nat.le_refl _, fun _ k => Nat.le_refl _, ?_⟩
    show sumOver U (fun _ => 0) + 0 = sumOver U (fun _ => 0)
    rfl
  | cons part parts ih =>
    obtain ⟨i1, i2, i3⟩ := ih (fun q hq => hcov q (List.mem_cons_of_mem _ hq))
    have hnd : ∀ d ∈ part, (termKeys p d).Nodup := fun d _ => termKeys_nodup p d
    -- the segment: exact tree x, truncated tree (its counts are those of termsCut p x)
    have hx : collect (M := M) (.terms p sub) part = ⟨collectB sub (termKeys p) part, 0, 0⟩ := collect_terms p sub part
    have hsupp : Supp (collectB (M := M) sub (termKeys p) part) := collectB_Supp sub (termKeys p) part hnd
    have hcovx : ∀ k e, (collectB (M := M) sub (termKeys p) part).get k = some e → k ∈ U := by
      intro k e hg
      obtain ⟨d, hd, hk⟩ := collectB_supp sub (termKeys p) part hnd hg
      exact hcov part (List.mem_cons_self) d hd k hk
    have hseg : collectSeg (M := M) (.terms p sub) part
        = ⟨(termsCut p (⟨collectB sub (termKeys p) part, 0, 0⟩ : TermsI (Inter M sub))).map.mapVals (harvest sub),
           (termsCut p (⟨collectB sub (termKeys p) part, 0, 0⟩ : TermsI (Inter M sub))).other,
           (termsCut p (⟨collectB sub (termKeys p) part, 0, 0⟩ : TermsI (Inter M sub))).err⟩ := by
      unfold collectSeg
      rw [hx]
      rfl
    have htrue : ∀ k, ((part :: parts).flatten.filter (fun d => (termKeys p d).contains k)).length
        = cnt (collectB (M := M) sub (termKeys p) part) k
          + (parts.flatten.filter (fun d => (termKeys p d).contains k)).length := by
      intro k
      rw [List.flatten_cons, List.filter_append, List.length_append, collectB_cnt sub (termKeys p) part hnd]
    have hcntH : ∀ k, cnt (mergedTerms (M := M) p sub (part :: parts)).map k
        = cnt (termsCut p (⟨collectB sub (termKeys p) part, 0, 0⟩ : TermsI (Inter M sub))).map k
          + cnt (mergedTerms (M := M) p sub parts).map k := by
      intro k
      rw [mergedTerms_cons, hseg]
      show cnt (KMap.merge (entryMerge (merge sub)) _ _) k = _
      rw [cnt_merge, cnt_mapVals]
    have herrH : (mergedTerms (M := M) p sub (part :: parts)).err
        = (termsCut p (⟨collectB sub (termKeys p) part, 0, 0⟩ : TermsI (Inter M sub))).err
          + (mergedTerms (M := M) p sub parts).err := by
      rw [mergedTerms_cons, hseg]; rfl
    have hothH : (mergedTerms (M := M) p sub (part :: parts)).other
        = (termsCut p (⟨collectB sub (termKeys p) part, 0, 0⟩ : TermsI (Inter M sub))).other
          + (mergedTerms (M := M) p sub parts).other := by
      rw [mergedTerms_cons, hseg]; rfl
    refine ⟨?_, ?_, ?_⟩
    · intro k
      rw [hcntH, htrue]
      have := termsCut_cnt_le p (⟨collectB sub (termKeys p) part, 0, 0⟩ : TermsI (Inter M sub)) k
      have := i1 k
      simp only [] at *
      omega
    · intro ho k
      rw [hcntH, htrue, herrH]
      have h1 := termsCut_err_bound p (⟨collectB sub (termKeys p) part, 0, 0⟩ : TermsI (Inter M sub)) hsupp ho k
      have h2 := i2 ho k
      simp only [Nat.add_zero] at h1
      omega
    · rw [hothH]
      have hc := termsCut_conservation p (⟨collectB sub (termKeys p) part, 0, 0⟩ : TermsI (Inter M sub)) hsupp U hU hcovx
      simp only [Nat.add_zero] at hc
      have e1 : sumOver U (cnt (mergedTerms (M := M) p sub (part :: parts)).map)
          = sumOver U (cnt (termsCut p (⟨collectB sub (termKeys p) part, 0, 0⟩ : TermsI (Inter M sub))).map)
            + sumOver U (cnt (mergedTerms (M := M) p sub parts).map) := by
        rw [← sumOver_add]
        exact sumOver_congr U _ _ (fun k _ => hcntH k)
      have e2 : sumOver U (fun k => ((part :: parts).flatten.filter (fun d => (termKeys p d).contains k)).length)
          = sumOver U (cnt (collectB (M := M) sub (termKeys p) part))
            + sumOver U (fun k => (parts.flatten.filter (fun d => (termKeys p d).contains k)).length) := by
        rw [← sumOver_add]
        exact sumOver_congr U _ _ (fun k _ => htrue k)
      rw [e1, e2]
      omega

end global

end TantivyModel.Agg
