import Mathlib.Tactic.Linarith
import Mathlib.Tactic.Positivity
import Mathlib.Tactic.FieldSimp
import Mathlib.Tactic.NormNum
import TantivyModel.Gen.Bm25
/-!
The BM25 formula of `src/query/bm25.rs` over `ℚ` (exact arithmetic): monotonicity facts that
the block-max / max-score bounds rely on, and the refutation of "`Bm25Weight::max_score` is an
upper bound" (DESIGN §8 F5). `Float32` evaluation is in `Model/Bm25.lean`; nothing here is
about rounding.
-/
namespace TantivyModel.Bm25Q

/-- mirrors: bm25.rs::cached_tf_component — `K1 * (1 - B + B * fieldnorm / average_fieldnorm)` -/
def normOf (k1 b fieldnorm avg : ℚ) : ℚ := k1 * (1 - b + b * fieldnorm / avg)

/-- mirrors: bm25.rs::Bm25Weight::tf_factor — `tf / (tf + norm)` -/
def tfFactor (tf norm : ℚ) : ℚ := tf / (tf + norm)

/-- the argument of `ln` in bm25.rs::idf — `1 + (N - n + 0.5) / (n + 0.5)` -/
def idfArg (n N : ℚ) : ℚ := 1 + (N - n + 1 / 2) / (n + 1 / 2)

/-- `idf > 0`: the argument of the logarithm exceeds 1 whenever `0 ≤ n ≤ N` -/
theorem idf_pos (n N : ℚ) (h0 : 0 ≤ n) (h : n ≤ N) : 1 < idfArg n N := by
  unfold idfArg
  have : 0 < (N - n + 1 / 2) / (n + 1 / 2) := by
    apply div_pos <;> linarith
  linarith

theorem normOf_pos (k1 b fieldnorm avg : ℚ) (hk : 0 < k1) (hb0 : 0 ≤ b) (hb1 : b < 1)
    (hf : 0 ≤ fieldnorm) (ha : 0 < avg) : 0 < normOf k1 b fieldnorm avg := by
  unfold normOf
  have : 0 ≤ b * fieldnorm / avg := by positivity
  have : 0 < 1 - b + b * fieldnorm / avg := by linarith
  positivity

/-- longer documents have a larger normaliser -/
theorem normOf_mono_fieldnorm (k1 b avg f₁ f₂ : ℚ) (hk : 0 < k1) (hb0 : 0 ≤ b) (ha : 0 < avg)
    (h : f₁ ≤ f₂) : normOf k1 b f₁ avg ≤ normOf k1 b f₂ avg := by
  unfold normOf
  have : b * f₁ / avg ≤ b * f₂ / avg := by
    apply div_le_div_of_nonneg_right _ (le_of_lt ha)
    exact mul_le_mul_of_nonneg_left h hb0
  have : 1 - b + b * f₁ / avg ≤ 1 - b + b * f₂ / avg := by linarith
  exact mul_le_mul_of_nonneg_left this (le_of_lt hk)

/-- the tf factor grows with the term frequency -/
theorem tf_factor_mono_tf (norm tf₁ tf₂ : ℚ) (hn : 0 < norm) (h0 : 0 ≤ tf₁) (h : tf₁ ≤ tf₂) :
    tfFactor tf₁ norm ≤ tfFactor tf₂ norm := by
  unfold tfFactor
  rw [div_le_div_iff₀ (by linarith) (by linarith)]
  nlinarith

/-- the tf factor shrinks when the normaliser (document length) grows -/
theorem tf_factor_anti_norm (tf n₁ n₂ : ℚ) (h0 : 0 ≤ tf) (hn : 0 < n₁) (h : n₁ ≤ n₂) :
    tfFactor tf n₂ ≤ tfFactor tf n₁ := by
  unfold tfFactor
  rw [div_le_div_iff₀ (by linarith) (by linarith)]
  nlinarith

/-- `0 ≤ tf_factor < 1` -/
theorem tf_factor_lt_one (tf norm : ℚ) (h0 : 0 ≤ tf) (hn : 0 < norm) :
    0 ≤ tfFactor tf norm ∧ tfFactor tf norm < 1 := by
  unfold tfFactor
  constructor
  · positivity
  · rw [div_lt_one (by linarith)]; linarith

/-- the extracted constants as rationals -/
def K1 : ℚ := (Gen.K1_NUM : ℚ) / Gen.K1_DEN
def B : ℚ := (Gen.B_NUM : ℚ) / Gen.B_DEN

/-- `Bm25Weight::max_score` = `weight * tf_factor(255, MAX_SCORE_TF)`: the tf factor it uses -/
def maxScoreFactor (avg : ℚ) : ℚ :=
  tfFactor Gen.MAX_SCORE_TF
    (normOf K1 B ((Gen.FIELD_NORMS_TABLE.getD Gen.MAX_SCORE_FIELDNORM_ID 0 : Nat) : ℚ) avg)

end TantivyModel.Bm25Q
