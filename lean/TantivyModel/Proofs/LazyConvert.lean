import TantivyModel.Proofs.LazyKey
/-!
`convert_segment_sort_key`: the per-segment collection compares SEGMENT sort keys; the fruit is
converted to the final sort keys, which `merge_top_k` compares with the collector's comparator.
If every component's conversion preserves its comparator so does the tuple's, and sorting commutes
with the conversion.
-/
namespace TantivyModel.TopN
open List

variable {β γ : Type}

theorem ins_map (le : β → β → Bool) (le' : γ → γ → Bool) (f : β → γ) (hle : ∀ a b, le' (f a) (f b) = le a b)
    (e : β) : ∀ (l : List β), (ins le e l).map f = ins le' (f e) (l.map f)
  | [] => rfl
  | x :: xs => by
    simp only [ins, map_cons, hle]
    split
    · simp only [map_cons, ins_map le le' f hle e xs]
    · rfl

theorem isort_map (le : β → β → Bool) (le' : γ → γ → Bool) (f : β → γ) (hle : ∀ a b, le' (f a) (f b) = le a b) :
    ∀ (l : List β), (isort le l).map f = isort le' (l.map f)
  | [] => rfl
  | x :: xs => by
    show (ins le x (isort le xs)).map f = ins le' (f x) (isort le' (xs.map f))
    rw [ins_map le le' f hle, isort_map le le' f hle xs]

theorem topK_map (le : β → β → Bool) (le' : γ → γ → Bool) (f : β → γ) (hle : ∀ a b, le' (f a) (f b) = le a b)
    (K O : Nat) (l : List β) : (topK le K O l).map f = topK le' K O (l.map f) := by
  unfold topK
  rw [map_take, map_drop, isort_map le le' f hle]

variable {κ κ₁ κ₂ ν ν₁ ν₂ : Type}

/-- the conversion preserves the comparator: `compare(convert a, convert b) = compare_segment(a, b)`
("This method must be consistent with the `SortKey` ordering") -/
def OrderEmb (cmpSeg : κ → κ → Ordering) (cmp : ν → ν → Ordering) (conv : κ → ν) : Prop :=
  ∀ a b, cmp (conv a) (conv b) = cmpSeg a b

/-- mirrors: src/collector/sort_key/sort_key_computer.rs::convert_segment_sort_key of `(Head, Tail)` -/
def convertPair (c₁ : κ₁ → ν₁) (c₂ : κ₂ → ν₂) (k : κ₁ × κ₂) : ν₁ × ν₂ := (c₁ k.1, c₂ k.2)

theorem convertPair_emb {s₁ : κ₁ → κ₁ → Ordering} {s₂ : κ₂ → κ₂ → Ordering} {c₁ : ν₁ → ν₁ → Ordering}
    {c₂ : ν₂ → ν₂ → Ordering} {f₁ : κ₁ → ν₁} {f₂ : κ₂ → ν₂} (h₁ : OrderEmb s₁ c₁ f₁) (h₂ : OrderEmb s₂ c₂ f₂) :
    OrderEmb (lexCmp s₁ s₂) (lexCmp c₁ c₂) (convertPair f₁ f₂) := by
  intro a b
  unfold lexCmp convertPair
  rw [h₁, h₂]

/-- the comparator of a 3-tuple `(C1, C2, C3)` on `(a, b, c)` (order.rs) -/
def tripleCmp {α₁ α₂ α₃ : Type} (c₁ : α₁ → α₁ → Ordering) (c₂ : α₂ → α₂ → Ordering) (c₃ : α₃ → α₃ → Ordering)
    (x y : α₁ × α₂ × α₃) : Ordering := (c₁ x.1 y.1).then ((c₂ x.2.1 y.2.1).then (c₃ x.2.2 y.2.2))

/-- the 3-tuple adapter (`MappedSegmentSortKeyComputer` with `map = |(a, (b, c))| (a, b, c)`):
re-associating the chain preserves the order -/
theorem triple_adapter_emb {α₁ α₂ α₃ : Type} (c₁ : α₁ → α₁ → Ordering) (c₂ : α₂ → α₂ → Ordering) (c₃ : α₃ → α₃ → Ordering) :
    OrderEmb (lexCmp c₁ (lexCmp c₂ c₃)) (tripleCmp c₁ c₂ c₃) (fun k : α₁ × (α₂ × α₃) => (k.1, k.2.1, k.2.2)) := by
  intro a b; rfl

/-- converting the keys of the entries -/
def convEntry (conv : κ → ν) (e : Entry κ) : Entry ν := ⟨conv e.key, e.addr⟩

theorem le_convEntry {cmpSeg : κ → κ → Ordering} {cmp : ν → ν → Ordering} {conv : κ → ν}
    (h : OrderEmb cmpSeg cmp conv) (a b : Entry κ) :
    le (gtOf cmp) (convEntry conv a) (convEntry conv b) = le (gtOf cmpSeg) a b := by
  unfold le gtOf convEntry
  simp only
  rw [h a.key b.key, h b.key a.key]

theorem mergeTopK_map {cmpSeg : κ → κ → Ordering} {cmp : ν → ν → Ordering} {conv : κ → ν}
    (h : OrderEmb cmpSeg cmp conv) (K O : Nat) (fruits : List (List (Entry κ))) :
    mergeTopK (gtOf cmp) K O (fruits.map (List.map (convEntry conv)))
      = (mergeTopK (gtOf cmpSeg) K O fruits).map (convEntry conv) := by
  unfold mergeTopK
  split
  · rfl
  · have hfl : (fruits.map (List.map (convEntry conv))).flatten = fruits.flatten.map (convEntry conv) := by
      induction fruits with
      | nil => rfl
      | cons f fs ih => simp only [map_cons, flatten_cons, map_append, ih]
    rw [hfl, ← isort_map (le (gtOf cmpSeg)) (le (gtOf cmp)) (convEntry conv) (le_convEntry h), map_take, map_drop]

end TantivyModel.TopN
