import TantivyModel.Proofs.RecorderRemap
import TantivyModel.Proofs.Invert
/-! what the `doc_id_map` branch hands the serializer is the inverted index of the corpus in its
new document order -/
namespace TantivyModel.Recorder
open TantivyModel.Invert

/-- two lists strictly sorted by the same order with the same members are equal -/
theorem sorted_ext {α : Type} (R : α → α → Prop) (irr : ∀ a, ¬ R a a)
    (tr : ∀ a b c, R a b → R b c → R a c) :
    ∀ L1 L2 : List α, L1.Pairwise R → L2.Pairwise R → (∀ x, x ∈ L1 ↔ x ∈ L2) → L1 = L2 := by
  intro L1
  induction L1 with
  | nil =>
    intro L2 _ _ h
    cases L2 with
    | nil => rfl
    | cons b s => exact absurd ((h b).mpr (by simp)) (by simp)
  | cons a r ih =>
    intro L2 h1 h2 h
    cases L2 with
    | nil => exact absurd ((h a).mp (by simp)) (by simp)
    | cons b s =>
      have h1' := List.pairwise_cons.mp h1
      have h2' := List.pairwise_cons.mp h2
      have hab : a = b := by
        rcases List.mem_cons.mp ((h a).mp (by simp)) with e | ha
        · exact e
        · rcases List.mem_cons.mp ((h b).mpr (by simp)) with e | hb
          · exact e.symm
          · exact absurd (tr _ _ _ (h1'.1 b hb) (h2'.1 a ha)) (irr a)
      subst hab
      have hrs : ∀ x, x ∈ r ↔ x ∈ s := by
        intro x
        constructor
        · intro hx
          rcases List.mem_cons.mp ((h x).mp (List.mem_cons_of_mem _ hx)) with e | hx'
          · subst e; exact absurd (h1'.1 x hx) (irr x)
          · exact hx'
        · intro hx
          rcases List.mem_cons.mp ((h x).mpr (List.mem_cons_of_mem _ hx)) with e | hx'
          · subst e; exact absurd (h2'.1 x hx) (irr x)
          · exact hx'
      rw [ih s h1'.2 h2'.2 hrs]

/-- the positions of term `t` in document `d` -/
def docPositions (gap : Nat) (t : Term) (d : Doc) : List Nat :=
  ((docOccs gap d).filter (fun o => o.1 = t)).map (·.2)

/-- `postingsFrom` lists exactly the documents in which the term occurs -/
theorem mem_postingsFrom (gap : Nat) (t : Term) (c : Corpus) :
    ∀ (base : Nat) (x : Posting), x ∈ postingsFrom gap t base c ↔
      ∃ i, i < c.length ∧ docPositions gap t (c.getD i []) ≠ [] ∧
        x = { doc := base + i, tf := (docPositions gap t (c.getD i [])).length,
              positions := docPositions gap t (c.getD i []) } := by
  induction c with
  | nil => intro base x; simp [postingsFrom]
  | cons d ds ih =>
    intro base x
    have ih' := ih (base + 1) x
    unfold postingsFrom
    simp only
    have hd : ((docOccs gap d).filter (fun o => o.1 = t)).map (·.2) = docPositions gap t d := rfl
    rw [hd]
    split
    · rename_i hemp
      rw [List.isEmpty_iff] at hemp
      rw [ih']
      constructor
      · rintro ⟨i, hi, hne, hx⟩
        exact ⟨i + 1, by simp; omega, by simpa using hne, by
          simp only [List.getD_cons_succ]; rw [hx]; congr 1; omega⟩
      · rintro ⟨i, hi, hne, hx⟩
        cases i with
        | zero => simp [hemp] at hne
        | succ j =>
          simp only [List.getD_cons_succ] at hne hx
          exact ⟨j, by simpa using hi, hne, by rw [hx]; congr 1; omega⟩
    · rename_i hemp
      rw [List.isEmpty_iff] at hemp
      rw [List.mem_cons, ih']
      constructor
      · rintro (hx | ⟨i, hi, hne, hx⟩)
        · exact ⟨0, by simp, by simpa using hemp, by simpa using hx⟩
        · exact ⟨i + 1, by simp; omega, by simpa using hne, by
            simp only [List.getD_cons_succ]; rw [hx]; congr 1; omega⟩
      · rintro ⟨i, hi, hne, hx⟩
        cases i with
        | zero => left; simpa using hx
        | succ j =>
          right
          simp only [List.getD_cons_succ] at hne hx
          exact ⟨j, by simpa using hi, hne, by rw [hx]; congr 1; omega⟩

/-- the corpus in its new document order: document `j` is the old document `oldId j` -/
def permuted (c : Corpus) (oldId : Nat → Nat) : Corpus :=
  (List.range c.length).map (fun j => c.getD (oldId j) [])

theorem permuted_getD (c : Corpus) (oldId : Nat → Nat) (j : Nat) (hj : j < c.length) :
    (permuted c oldId).getD j [] = c.getD (oldId j) [] := by
  simp [permuted, List.getD_eq_getElem?_getD, hj]

/-- the new ids of a term's documents are distinct -/
theorem remap_nodup (gap : Nat) (t : Term) (c : Corpus) (newId oldId : Nat → Nat)
    (h1 : ∀ i, i < c.length → newId i < c.length ∧ oldId (newId i) = i) :
    (((postingsOf gap c t).map (remapPosting newId)).map (·.doc)).Nodup := by
  have hspec := postingsFrom_spec gap t 0 c
  have hs : (postingsOf gap c t).Pairwise (fun a b => a.doc < b.doc) := List.pairwise_map.mp hspec.1
  simp only [List.map_map]
  rw [List.nodup_iff_pairwise_ne, List.pairwise_map]
  refine hs.imp_of_mem ?_
  intro a b ha hb hab heq
  simp only [Function.comp, remapPosting] at heq
  have ha' := (hspec.2 a ha).2.1
  have hb' := (hspec.2 b hb).2.1
  have e1 := (h1 a.doc (by omega)).2
  have e2 := (h1 b.doc (by omega)).2
  rw [heq] at e1
  omega

/-- **the remapped, re-sorted postings are the postings of the permuted corpus** -/
theorem remap_eq_permuted (gap : Nat) (t : Term) (c : Corpus) (newId oldId : Nat → Nat)
    (h1 : ∀ i, i < c.length → newId i < c.length ∧ oldId (newId i) = i)
    (h2 : ∀ j, j < c.length → oldId j < c.length ∧ newId (oldId j) = j) :
    sortPostings ((postingsOf gap c t).map (remapPosting newId)) = postingsOf gap (permuted c oldId) t := by
  have hspec := postingsFrom_spec gap t 0 c
  have hlen : (permuted c oldId).length = c.length := by simp [permuted]
  have hnd := remap_nodup gap t c newId oldId h1
  apply sorted_ext (fun a b : Posting => a.doc < b.doc) (fun a => Nat.lt_irrefl _)
    (fun a b c h h' => Nat.lt_trans h h')
  · exact List.pairwise_map.mp (sortPostings_sorted _ hnd)
  · exact List.pairwise_map.mp (postingsFrom_spec gap t 0 (permuted c oldId)).1
  · intro x
    rw [mem_sortPostings, List.mem_map]
    unfold postingsOf
    constructor
    · rintro ⟨p, hp, rfl⟩
      obtain ⟨i, hi, hne, rfl⟩ := (mem_postingsFrom gap t c 0 p).mp hp
      have hh := h1 i hi
      rw [mem_postingsFrom]
      refine ⟨newId i, by rw [hlen]; exact hh.1, ?_, ?_⟩
      · rw [permuted_getD c oldId _ hh.1, hh.2]; exact hne
      · rw [permuted_getD c oldId _ hh.1, hh.2]; simp [remapPosting]
    · intro hx
      obtain ⟨j, hj, hne, rfl⟩ := (mem_postingsFrom gap t _ 0 x).mp hx
      rw [hlen] at hj
      have hh := h2 j hj
      rw [permuted_getD c oldId j hj] at hne ⊢
      refine ⟨{ doc := 0 + oldId j, tf := (docPositions gap t (c.getD (oldId j) [])).length,
                positions := docPositions gap t (c.getD (oldId j) []) }, ?_, ?_⟩
      · rw [mem_postingsFrom]; exact ⟨oldId j, hh.1, hne, rfl⟩
      · simp [remapPosting, hh.2]

theorem mem_permuted (c : Corpus) (newId oldId : Nat → Nat)
    (h1 : ∀ i, i < c.length → newId i < c.length ∧ oldId (newId i) = i)
    (h2 : ∀ j, j < c.length → oldId j < c.length ∧ newId (oldId j) = j) (d : Doc) :
    d ∈ permuted c oldId ↔ d ∈ c := by
  simp only [permuted, List.mem_map, List.mem_range]
  constructor
  · rintro ⟨j, hj, rfl⟩
    have := (h2 j hj).1
    rw [List.getD_eq_getElem?_getD, List.getElem?_eq_getElem this]
    simp
  · intro hd
    obtain ⟨i, hi, rfl⟩ := List.getElem_of_mem hd
    refine ⟨newId i, (h1 i hi).1, ?_⟩
    rw [(h1 i hi).2, List.getD_eq_getElem?_getD, List.getElem?_eq_getElem hi]
    simp

/-- the permuted corpus has the same terms -/
theorem termsOf_permuted (gap : Nat) (c : Corpus) (newId oldId : Nat → Nat)
    (h1 : ∀ i, i < c.length → newId i < c.length ∧ oldId (newId i) = i)
    (h2 : ∀ j, j < c.length → oldId j < c.length ∧ newId (oldId j) = j) :
    termsOf gap (permuted c oldId) = termsOf gap c := by
  apply sorted_ext (fun a b : Term => a < b) (fun a => List.lt_irrefl a) (fun a b c h h' => term_lt_trans h h')
  · exact termsOf_sorted gap _
  · exact termsOf_sorted gap _
  · intro t
    rw [mem_termsOf, mem_termsOf]
    constructor
    · rintro ⟨d, hd, h⟩; exact ⟨d, (mem_permuted c newId oldId h1 h2 d).mp hd, h⟩
    · rintro ⟨d, hd, h⟩; exact ⟨d, (mem_permuted c newId oldId h1 h2 d).mpr hd, h⟩

end TantivyModel.Recorder
