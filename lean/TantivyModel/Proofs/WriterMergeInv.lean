import TantivyModel.Proofs.WriterMergeSeg
/-!
The invariant of the writer model that concerns merges: segment ids are unique and fresh, a
merge in flight holds exactly the live documents of its sources, committed segments sit exactly
at the last commit.
-/
namespace TantivyModel.Writer
open TantivyModel.WriterSpec

variable {α : Type} [DecidableEq α]

def workerIds (w : Worker α) : List Nat :=
  match w.seg with
  | none => []
  | some sg => [sg.id]

def mergeResultId (m : Merge α) : List Nat :=
  match m.result with
  | none => []
  | some M => [M.id]

def resultIds (ms : List (Merge α)) : List Nat := ms.flatMap mergeResultId

/-- ids of the segments that are not (yet) in a register: under construction, finished, merged -/
def pipeIds (s : WState α) : List Nat :=
  s.workers.flatMap workerIds ++ segIds s.inflight ++ resultIds s.merges

def regs (s : WState α) : List (Seg α) := s.uncommitted ++ s.committed

def allIds (s : WState α) : List Nat := pipeIds s ++ segIds (regs s)

/-- what is known of a merge in flight while all its sources are still registered: its result is
a finished segment holding exactly the source documents that the deletes before its cursor
leave alive (no result: no such document); once the sources are committed, the deletes before
its cursor are older than the commit -/
def MergeGood (log : List (DelOp α)) (U C : List (Seg α)) (B : Nat) (m : Merge α) : Prop :=
  present m.ids (U ++ C) →
    ∃ c, c ≤ log.length ∧ (present m.ids C → ∀ del ∈ log.take c, del.op < B) ∧
      match m.result with
      | some M => M.cursor = c ∧ SegOK log M ∧ (∀ d ∈ M.docs, d.alive = true)
          ∧ List.Perm (segPairs M)
              (((srcsOf m.ids (U ++ C)).flatMap segPairs).filter (fun p => !dead (log.take c) p))
      | none => ∀ p ∈ (srcsOf m.ids (U ++ C)).flatMap segPairs, dead (log.take c) p = true

structure MInv (s : WState α) : Prop where
  nodup : (allIds s).Nodup
  idLt : ∀ i ∈ allIds s, i < s.nextId
  idsNe : ∀ m ∈ s.merges, m.ids ≠ []
  srcLt : ∀ m ∈ s.merges, ∀ i ∈ m.ids, i < s.nextId
  srcFresh : ∀ m ∈ s.merges, ∀ i ∈ m.ids, i ∉ pipeIds s
  metaNodup : (segIds s.metas.segs).Nodup
  metaIdLt : ∀ sg ∈ s.metas.segs, sg.id < s.nextId
  good : ∀ m ∈ s.merges, MergeGood s.log s.uncommitted s.committed s.metas.opstamp m
  cis : ∀ sg ∈ s.committed, CommittedAt s.log s.metas.opstamp sg
  clt : ∀ sg ∈ s.committed, ∀ d ∈ sg.docs, d.op < s.metas.opstamp
  pubInv : s.committed = [] ∨ List.Perm (s.committed.flatMap aliveDocs) (published s)

/-! ### small facts -/

theorem dead_mono (l1 l2 : List (DelOp α)) (p : α × Nat) (h : dead l1 p = true) : dead (l1 ++ l2) p = true := by
  rw [dead_append, h]; rfl

theorem dead_take_mono (log : List (DelOp α)) (c : Nat) (p : α × Nat) (h : dead (log.take c) p = true) :
    dead log p = true := by
  rw [← List.take_append_drop c log]
  exact dead_mono _ _ p h

theorem regs_pairs_sub (s : WState α) : ∀ p ∈ (regs s).flatMap segPairs, p ∈ allPairs s := by
  intro p hp
  simp only [regs, List.flatMap_append, List.mem_append] at hp
  simp only [allPairs, List.mem_append]
  rcases hp with h | h
  · exact Or.inl (Or.inl (Or.inr h))
  · exact Or.inl (Or.inr h)

theorem flatMap_set_same {β γ : Type} (f : β → List γ) (l : List β) (i : Nat) (a x : β)
    (h : l[i]? = some a) (hf : f x = f a) : (l.set i x).flatMap f = l.flatMap f := by
  induction l generalizing i with
  | nil => simp at h
  | cons b l ih =>
    cases i with
    | zero => simp at h; subst h; simp [List.flatMap_cons, hf]
    | succ i => simp at h; simp [List.flatMap_cons, ih i h]

/-- a step that leaves segment ids, registers, merges, meta and the queue alone -/
theorem minv_frame (s s' : WState α) (h : MInv s)
    (hw : s'.workers.flatMap workerIds = s.workers.flatMap workerIds)
    (hi : s'.inflight = s.inflight) (hu : s'.uncommitted = s.uncommitted) (hc : s'.committed = s.committed)
    (hm : s'.merges = s.merges) (hmeta : s'.metas = s.metas) (hn : s'.nextId = s.nextId) (hl : s'.log = s.log) :
    MInv s' := by
  have hp : pipeIds s' = pipeIds s := by simp only [pipeIds, hw, hi, hm]
  have hr : regs s' = regs s := by simp only [regs, hu, hc]
  have ha : allIds s' = allIds s := by simp only [allIds, hp, hr]
  obtain ⟨h1, h2, h3, h4, h5, h6, h7, h8, h9, h10, h11⟩ := h
  refine ⟨by rw [ha]; exact h1, by rw [ha, hn]; exact h2, by rw [hm]; exact h3, by rw [hm, hn]; exact h4,
    by rw [hm, hp]; exact h5, by rw [hmeta]; exact h6, by rw [hmeta, hn]; exact h7,
    by rw [hm, hl, hu, hc, hmeta]; exact h8, by rw [hc, hl, hmeta]; exact h9, by rw [hc, hmeta]; exact h10, ?_⟩
  rw [hc]
  simpa [published, hmeta] using h11

end TantivyModel.Writer
