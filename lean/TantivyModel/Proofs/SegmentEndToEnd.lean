import TantivyModel.Proofs.FieldSerializer
import TantivyModel.Proofs.Pipeline
import TantivyModel.Proofs.BlockCursorDrain
import TantivyModel.Proofs.BitPacker4x
/-! from the corpus to the segment files and back through the term ordinal -/
namespace TantivyModel.FieldSerializer
open TantivyModel.Invert TantivyModel.Recorder TantivyModel.Postings

theorem postingsFrom_length_le (gap : Nat) (t : Term) (c : Corpus) :
    ∀ base, (postingsFrom gap t base c).length ≤ c.length := by
  induction c with
  | nil => intro _; simp [postingsFrom]
  | cons d ds ih =>
    intro base
    unfold postingsFrom
    simp only
    split
    · have := ih (base + 1); simp only [List.length_cons]; omega
    · have := ih (base + 1); simp only [List.length_cons]; omega

theorem segmentTerms_length (o : RecOpt) (c : Corpus) :
    (segmentTerms o c).length = (invert c).terms.length := by
  simp [segmentTerms, invert, invertWith]

/-- the `n`-th serialized term is the serialization of the recorder of the `n`-th term -/
theorem segmentTerms_get (o : RecOpt) (c : Corpus) (G : GoodCorpus c) (n : Nat)
    (hn : n < (termsOf Gen.Postings.POSITION_GAP c).length) :
    ∃ r, (indexCorpus o c).table ((termsOf Gen.Postings.POSITION_GAP c)[n]) = some r ∧
      (segmentTerms o c)[n]'(by simpa [segmentTerms] using hn) = serializeTerm o r ∧
      (serializeTerm o r).docFreq =
        (postingsOf Gen.Postings.POSITION_GAP c ((termsOf Gen.Postings.POSITION_GAP c)[n])).length ∧
      readBack o (serializeTerm o r) =
        some ((postingsOf Gen.Postings.POSITION_GAP c ((termsOf Gen.Postings.POSITION_GAP c)[n])).map (project o)) := by
  obtain ⟨r, h1, h2, h3⟩ := pipeline_term o c G _ (List.getElem_mem hn)
  refine ⟨r, h1, ?_, h2, h3⟩
  simp only [segmentTerms, List.getElem_map, h1]

theorem segmentTerms_docFreq (o : RecOpt) (c : Corpus) (G : GoodCorpus c) :
    ∀ t ∈ segmentTerms o c, t.docFreq < 2 ^ 56 := by
  intro t ht
  obtain ⟨n, hn, rfl⟩ := List.getElem_of_mem ht
  have hn' : n < (termsOf Gen.Postings.POSITION_GAP c).length := by simpa [segmentTerms] using hn
  obtain ⟨r, _, h2, h3, _⟩ := segmentTerms_get o c G n hn'
  rw [h2, h3]
  have := postingsFrom_length_le Gen.Postings.POSITION_GAP ((termsOf Gen.Postings.POSITION_GAP c)[n]) c 0
  have := G.docs
  have hT : Gen.Postings.TERMINATED < 2 ^ 56 := by decide
  unfold postingsOf
  omega

/-- the postings bytes of a serialized term are the encoding of a valid list with the term's docs -/
theorem serializeCalls_valid (o : RecOpt) (ps : List Posting) (h : TermOK ps) :
    ∃ tfs, ValidList (ps.map (·.doc)) tfs ∧
      (serializeCalls o (ps.map (callOf o))).postings = encodeTerm cfg o (ps.map (·.doc)) tfs := by
  have hsorted : (ps.map (·.doc)).Pairwise (· < ·) := h.good.sorted
  have hdocs : (ps.map (callOf o)).map (·.doc) = ps.map (·.doc) := by
    simp only [List.map_map]; congr 1; funext p; cases o <;> rfl
  have hbound : ∀ d ∈ ps.map (·.doc), d < 2 ^ 31 := by
    intro d hd
    obtain ⟨p, hp, rfl⟩ := List.mem_map.mp hd
    exact Nat.lt_trans (h.below p hp) (by decide)
  have hv1 : ValidList (ps.map (·.doc)) ((ps.map (·.doc)).map (fun _ => 1)) :=
    ⟨hsorted, hbound, by simp, by intro t ht; simp at ht; omega⟩
  have hv2 : ValidList (ps.map (·.doc)) (ps.map (·.tf)) :=
    ⟨hsorted, hbound, by simp, by
      intro t ht; obtain ⟨p, hp, rfl⟩ := List.mem_map.mp ht; exact (h.good.tf p hp).2⟩
  simp only [serializeCalls, hdocs]
  cases o with
  | basic => exact ⟨_, hv1, encodeTerm_basic_irrel cfg _ _ _⟩
  | freqs =>
    refine ⟨_, hv2, ?_⟩
    congr 1
    simp only [List.map_map]; congr 1
  | positions =>
    refine ⟨_, hv2, ?_⟩
    congr 1
    simp only [List.map_map]; congr 1

/-- the lazy block cursor opened on a serialized term's postings bytes drains to the term's docs -/
theorem segment_term_lazy (o : RecOpt) (c : Corpus) (G : GoodCorpus c) (t : Term)
    (ht : t ∈ termsOf Gen.Postings.POSITION_GAP c) :
    ∃ r, (indexCorpus o c).table t = some r ∧
      (BlockPostings.drain cfg ((serializeTerm o r).docFreq / cfg.B + 2)
        (BlockPostings.open cfg o o (serializeTerm o r).docFreq (serializeTerm o r).postings)).1 =
        (postingsOf Gen.Postings.POSITION_GAP c t).map (·.doc) := by
  have hne : postingsOf Gen.Postings.POSITION_GAP c t ≠ [] :=
    (postingsFrom_ne_nil_iff _ t c 0).mpr ((Invert.mem_termsOf _ c t).mp ht)
  have hok := termOK_of_goodCorpus c G t
  obtain ⟨r, h1, h2⟩ := calls_of_recorder o _ hne hok.good hok.bounded
  refine ⟨r, by rw [indexCorpus_table, h1], ?_⟩
  have hs : serializeTerm o r =
      serializeCalls o ((postingsOf Gen.Postings.POSITION_GAP c t).map (callOf o)) := by
    simp only [serializeTerm, h2]
  obtain ⟨tfs, hv, hb⟩ := serializeCalls_valid o _ hok
  have hdf : (serializeCalls o ((postingsOf Gen.Postings.POSITION_GAP c t).map (callOf o))).docFreq =
      ((postingsOf Gen.Postings.POSITION_GAP c t).map (·.doc)).length := by
    simp [serializeCalls]
  rw [hs, hb, hdf]
  exact drain_open_encode cfg o (by decide) (by decide) (by decide) bp4x_good _ tfs hv

/-- with frequencies, the serialized term's postings bytes encode the docs with their term frequencies -/
theorem serializeCalls_freqs (o : RecOpt) (ho : Postings.hasFreq o = true) (ps : List Posting) (h : TermOK ps) :
    ValidList (ps.map (·.doc)) (ps.map (·.tf)) ∧
      (serializeCalls o (ps.map (callOf o))).postings = encodeTerm cfg o (ps.map (·.doc)) (ps.map (·.tf)) := by
  have hsorted : (ps.map (·.doc)).Pairwise (· < ·) := h.good.sorted
  have hdocs : (ps.map (callOf o)).map (·.doc) = ps.map (·.doc) := by
    simp only [List.map_map]; congr 1; funext p; cases o <;> rfl
  have hbound : ∀ d ∈ ps.map (·.doc), d < 2 ^ 31 := by
    intro d hd
    obtain ⟨p, hp, rfl⟩ := List.mem_map.mp hd
    exact Nat.lt_trans (h.below p hp) (by decide)
  have hv2 : ValidList (ps.map (·.doc)) (ps.map (·.tf)) :=
    ⟨hsorted, hbound, by simp, by
      intro t ht; obtain ⟨p, hp, rfl⟩ := List.mem_map.mp ht; exact (h.good.tf p hp).2⟩
  refine ⟨hv2, ?_⟩
  simp only [serializeCalls, hdocs]
  cases o with
  | basic => simp [Postings.hasFreq] at ho
  | freqs => congr 1; simp only [List.map_map]; congr 1
  | positions => congr 1; simp only [List.map_map]; congr 1

/-- … and the lazy cursor's frequency buffers drain to the term's frequencies -/
theorem segment_term_lazy_tf (o : RecOpt) (ho : Postings.hasFreq o = true) (c : Corpus) (G : GoodCorpus c)
    (t : Term) (ht : t ∈ termsOf Gen.Postings.POSITION_GAP c) :
    ∃ r, (indexCorpus o c).table t = some r ∧
      (BlockPostings.drain cfg ((serializeTerm o r).docFreq / cfg.B + 2)
        (BlockPostings.open cfg o o (serializeTerm o r).docFreq (serializeTerm o r).postings)).2 =
        (postingsOf Gen.Postings.POSITION_GAP c t).map (·.tf) := by
  have hne : postingsOf Gen.Postings.POSITION_GAP c t ≠ [] :=
    (postingsFrom_ne_nil_iff _ t c 0).mpr ((Invert.mem_termsOf _ c t).mp ht)
  have hok := termOK_of_goodCorpus c G t
  obtain ⟨r, h1, h2⟩ := calls_of_recorder o _ hne hok.good hok.bounded
  refine ⟨r, by rw [indexCorpus_table, h1], ?_⟩
  have hs : serializeTerm o r =
      serializeCalls o ((postingsOf Gen.Postings.POSITION_GAP c t).map (callOf o)) := by
    simp only [serializeTerm, h2]
  obtain ⟨hv, hb⟩ := serializeCalls_freqs o ho _ hok
  have hdf : (serializeCalls o ((postingsOf Gen.Postings.POSITION_GAP c t).map (callOf o))).docFreq =
      ((postingsOf Gen.Postings.POSITION_GAP c t).map (·.doc)).length := by
    simp [serializeCalls]
  rw [hs, hb, hdf]
  exact drain_open_encode_tfs cfg o ho (by decide) (by decide) (by decide) bp4x_good _ _ hv

end TantivyModel.FieldSerializer
