import TantivyModel.Proofs.WriterSeg
/-!
The global invariant of the implementation-level writer model and its preservation by every
event except merges (many workers, segments cut at any time, finished segments registered at
any time, stamps drawn at any time, rollback, clean `delete_all_documents`).
-/
namespace TantivyModel.Writer
open TantivyModel.WriterSpec

variable {α : Type} [DecidableEq α]

def segPairs (sg : Seg α) : List (α × Nat) := sg.docs.map (fun d => (d.doc, d.op))

def workerPairs (w : Worker α) : List (α × Nat) :=
  match w.seg with
  | none => []
  | some sg => segPairs sg

def chanPairs (s : WState α) : List (α × Nat) := s.channel.flatten

/-- every document of the system with its opstamp, wherever it currently sits -/
def allPairs (s : WState α) : List (α × Nat) :=
  s.workers.flatMap workerPairs ++ s.inflight.flatMap segPairs ++ s.uncommitted.flatMap segPairs
    ++ s.committed.flatMap segPairs ++ chanPairs s

/-- the documents the next commit would publish, by the opstamp rule -/
def live (s : WState α) : List α := ((allPairs s).filter (fun p => !dead s.log p)).map (·.1)

structure WInv (s : WState α) (pending committed : List α) : Prop where
  pend : List.Perm (live s) pending
  pub : List.Perm (published s) committed
  pairsLt : ∀ p ∈ allPairs s, p.2 < s.stamper
  logLt : ∀ del ∈ s.log, del.op < s.stamper
  sorted : SortedLog s.log
  chanSorted : (chanPairs s).Pairwise (fun a b => a.2 < b.2)
  flushedLe : s.flushed ≤ s.log.length
  workers : ∀ w ∈ s.workers, w.cur ≤ s.log.length
    ∧ (∀ del ∈ s.log.take w.cur, ∀ p ∈ chanPairs s, del.op < p.2)
    ∧ (∀ sg, w.seg = some sg → BuildOK s.log sg ∧ sg.cursor = w.cur)
  segs : ∀ sg ∈ s.inflight ++ s.uncommitted ++ s.committed, SegOK s.log sg
  metaLt : ∀ sg ∈ s.metas.segs, ∀ d ∈ sg.docs, d.op < s.metas.opstamp

/-! ### generic list facts -/

theorem count_flatMap_set {β γ : Type} [BEq γ] [LawfulBEq γ] (f : β → List γ) (l : List β) (i : Nat) (a x : β)
    (h : l[i]? = some a) (p : γ) :
    ((l.set i x).flatMap f).count p + (f a).count p = (l.flatMap f).count p + (f x).count p := by
  induction l generalizing i with
  | nil => simp at h
  | cons b l ih =>
    cases i with
    | zero =>
      simp at h; subst h
      simp [List.flatMap_cons, List.count_append]; omega
    | succ i =>
      simp at h
      have := ih i h
      simp [List.flatMap_cons, List.count_append]; omega

theorem filter_flatMap' {β γ : Type} (f : β → List γ) (p : γ → Bool) (l : List β) :
    (l.flatMap f).filter p = l.flatMap (fun x => (f x).filter p) := by
  induction l with
  | nil => rfl
  | cons a l ih => simp [List.flatMap_cons, List.filter_append, ih]

theorem flatMap_nil_of {β γ : Type} (f : β → List γ) (l : List β) (h : ∀ x ∈ l, f x = []) :
    l.flatMap f = [] := by
  induction l with
  | nil => rfl
  | cons a l ih => simp [List.flatMap_cons, h a (by simp), ih (fun x hx => h x (by simp [hx]))]

theorem perm_foldl_applyItem (items : List (Item α)) (a b : List α) (h : List.Perm a b) :
    List.Perm (items.foldl applyItem a) (items.foldl applyItem b) := by
  induction items generalizing a b with
  | nil => exact h
  | cons it rest ih =>
    cases it with
    | add d => exact ih _ _ (List.Perm.append_right _ h)
    | del q => exact ih _ _ (List.Perm.filter _ h)

/-! ### segments: pairs are untouched by the delete machinery; invariants under queue growth -/

theorem segPairs_consume (withMap : Bool) (target : Nat) (rest : List (DelOp α)) (docs : List (SDoc α)) (c : Nat) :
    (consume withMap target rest docs c).1.map (fun d => (d.doc, d.op)) = docs.map (fun d => (d.doc, d.op)) := by
  rw [consume_spec]; simp [List.map_map, Function.comp_def]

theorem segPairs_finalize (log : List (DelOp α)) (sg : Seg α) : segPairs (finalize log sg) = segPairs sg := by
  simp [segPairs, finalize, segPairs_consume]

theorem segPairs_advance (log : List (DelOp α)) (t : Nat) (sg : Seg α) : segPairs (advance log t sg) = segPairs sg := by
  simp [segPairs, advance, segPairs_consume]

theorem buildOK_append (log l : List (DelOp α)) (sg : Seg α) (h : BuildOK log sg) : BuildOK (log ++ l) sg := by
  obtain ⟨hc, ha, ho⟩ := h
  refine ⟨by simp; omega, ha, ?_⟩
  rw [List.take_append_of_le_length hc]
  exact ho

theorem segOK_append (log l : List (DelOp α)) (sg : Seg α) (h : SegOK log sg)
    (hy : ∀ del ∈ l, ∀ d ∈ sg.docs, d.op < del.op) : SegOK (log ++ l) sg := by
  obtain ⟨hc, hb, hyo⟩ := h
  refine ⟨by simp; omega, ?_, ?_⟩
  · rw [List.take_append_of_le_length hc]; exact hb
  · rw [List.drop_append_of_le_length hc]
    intro d hd x hx
    rcases List.mem_append.mp hd with h | h
    · exact hyo d h x hx
    · exact hy d h x hx

theorem mem_segPairs {sg : Seg α} {d : SDoc α} (h : d ∈ sg.docs) : (d.doc, d.op) ∈ segPairs sg :=
  List.mem_map.mpr ⟨d, h, rfl⟩

/-! ### stamps of a batch -/

theorem batchDels_bounds (items : List (Item α)) (st : Nat) :
    ∀ del ∈ batchDels (stampItems st items), st ≤ del.op ∧ del.op < st + items.length := by
  induction items generalizing st with
  | nil => simp [stampItems, batchDels]
  | cons it rest ih =>
    intro del hdel
    cases it with
    | add d =>
      simp only [stampItems, batchDels, List.filterMap_cons] at hdel
      have := ih (st + 1) del hdel
      simp; omega
    | del q =>
      simp only [stampItems, batchDels, List.filterMap_cons] at hdel
      rcases List.mem_cons.mp hdel with rfl | h
      · simp
      · have := ih (st + 1) del h; simp; omega

theorem batchAdds_bounds (items : List (Item α)) (st : Nat) :
    ∀ p ∈ batchAdds (stampItems st items), st ≤ p.2 ∧ p.2 < st + items.length := by
  induction items generalizing st with
  | nil => simp [stampItems, batchAdds]
  | cons it rest ih =>
    intro p hp
    cases it with
    | add d =>
      simp only [stampItems, batchAdds, List.filterMap_cons] at hp
      rcases List.mem_cons.mp hp with rfl | h
      · simp
      · have := ih (st + 1) p h; simp; omega
    | del q =>
      simp only [stampItems, batchAdds, List.filterMap_cons] at hp
      have := ih (st + 1) p hp
      simp; omega

theorem batchDels_sorted (items : List (Item α)) (st : Nat) :
    SortedLog (batchDels (stampItems st items)) := by
  induction items generalizing st with
  | nil => simp [stampItems, batchDels, SortedLog]
  | cons it rest ih =>
    cases it with
    | add d => simpa [stampItems, batchDels] using ih (st + 1)
    | del q =>
      simp only [stampItems, batchDels, List.filterMap_cons, SortedLog, List.pairwise_cons]
      refine ⟨?_, ih (st + 1)⟩
      intro del hdel
      have := (batchDels_bounds rest (st + 1) del hdel).1
      simp; omega

theorem batchAdds_sorted (items : List (Item α)) (st : Nat) :
    (batchAdds (stampItems st items)).Pairwise (fun a b => a.2 < b.2) := by
  induction items generalizing st with
  | nil => simp [stampItems, batchAdds]
  | cons it rest ih =>
    cases it with
    | del q => simpa [stampItems, batchAdds] using ih (st + 1)
    | add d =>
      simp only [stampItems, batchAdds, List.filterMap_cons, List.pairwise_cons]
      refine ⟨?_, ih (st + 1)⟩
      intro p hp
      have := (batchAdds_bounds rest (st + 1) p hp).1
      simp; omega

end TantivyModel.Writer
