import TantivyModel.Proofs.TopNSort
/-!
`TopNComputer` refines `topK`: invariant over every push sequence in ascending address order and
every `select_nth` behaviour satisfying its contract.
-/
namespace TantivyModel.TopN
open List

variable {α : Type}

/-- contract of `slice::select_nth_unstable_by(K, compare_for_top_k)`: a rearrangement such that
the element at index `K` is in its sorted position, everything before it is not after it and
everything behind it is not before it. Only required when `K < len` (otherwise Rust panics). -/
structure SelectNth (gt : α → α → Bool) (K : Nat) (sel : List (Entry α) → List (Entry α)) : Prop where
  perm : ∀ buf, sel buf ~ buf
  part : ∀ buf, K < buf.length → ∃ front m back, sel buf = front ++ m :: back ∧ front.length = K ∧
    (∀ a ∈ front, le gt a m = true) ∧ (∀ b ∈ back, le gt m b = true)

/-- the invariant of `TopNComputer` after the pushes `xs` -/
structure Inv (gt : α → α → Bool) (K : Nat) (xs : List (Entry α)) (c : Computer α) : Prop where
  topN : c.topN = K
  noPanic : c.panicked = false
  len : c.buffer.length ≤ c.cap
  sub : ∀ b, b ∈ c.buffer → b ∈ xs
  nodup : AddrNodup c.buffer
  best : (isort (le gt) c.buffer).take K = (isort (le gt) xs).take K
  thr : ∀ t, c.threshold = some t →
    ∃ d, d ∈ xs ∧ d.key = t ∧ K ≤ c.buffer.countP (fun x => le gt x d)

theorem topK_snoc {gt : α → α → Bool} (hgt : StrictWeak gt) {A : List (Entry α)} {e : Entry α}
    (hn : AddrNodup (A ++ [e])) (K : Nat) :
    (isort (le gt) (A ++ [e])).take K = (ins (le gt) e ((isort (le gt) A).take K)).take K := by
  have h1 : isort (le gt) (A ++ [e]) = isort (le gt) ([e] ++ A) :=
    isort_eq_of_perm (le_totalPreorder hgt) (hn.antisym hgt) perm_append_comm
  have h2 : isort (le gt) ([e] ++ A) = ins (le gt) e (isort (le gt) A) := rfl
  rw [h1, h2, take_ins]

theorem addrNodup_snoc {xs : List (Entry α)} {e : Entry α} (hasc : AddrAsc (xs ++ [e]))
    {buf : List (Entry α)} (hsub : ∀ b, b ∈ buf → b ∈ xs) (hn : AddrNodup buf) :
    AddrNodup (buf ++ [e]) := by
  unfold AddrNodup
  rw [pairwise_append]
  refine ⟨hn, by simp, ?_⟩
  intro a ha b hb
  simp at hb; subst hb
  unfold AddrAsc at hasc
  rw [pairwise_append] at hasc
  exact Nat.ne_of_lt (hasc.2.2 a (hsub a ha) b (by simp))

/-- what a truncation does, given the `select_nth` contract -/
theorem truncate_spec {gt : α → α → Bool} (hgt : StrictWeak gt) {K : Nat}
    {sel : List (Entry α) → List (Entry α)} (hsel : SelectNth gt K sel) {c : Computer α}
    (hK : c.topN = K) (hlen : K < c.buffer.length) (hn : AddrNodup c.buffer) :
    ∃ front m, truncateTopN sel c = some (m.key, front) ∧ front.length = K ∧
      (∀ a, a ∈ front → a ∈ c.buffer) ∧ m ∈ c.buffer ∧ AddrNodup front ∧
      (∀ a ∈ front, le gt a m = true) ∧
      isort (le gt) front = (isort (le gt) c.buffer).take K := by
  obtain ⟨front, m, back, hs, hfl, hf, hb⟩ := hsel.part c.buffer hlen
  have hperm := hsel.perm c.buffer
  have hdrop : (sel c.buffer).drop c.topN = m :: back := by
    rw [hs, hK, ← hfl]; simp
  have htake : (sel c.buffer).take c.topN = front := by
    rw [hs, hK, ← hfl]; simp
  refine ⟨front, m, ?_, hfl, ?_, ?_, ?_, hf, ?_⟩
  · simp [truncateTopN, hdrop, htake]
  · intro a ha
    exact hperm.subset (by rw [hs]; exact mem_append_left _ ha)
  · exact hperm.subset (by rw [hs]; simp)
  · have : AddrNodup (sel c.buffer) := hn.perm hperm.symm
    rw [hs] at this
    exact this.sublist (sublist_append_left _ _)
  · have hle := le_totalPreorder hgt
    have hn' : AddrNodup (front ++ m :: back) := by rw [← hs]; exact hn.perm hperm.symm
    have h1 : isort (le gt) c.buffer = isort (le gt) (front ++ m :: back) := by
      rw [← hs]
      exact isort_eq_of_perm hle (hn.antisym hgt) hperm.symm
    have h2 : isort (le gt) (front ++ m :: back)
        = isort (le gt) front ++ isort (le gt) (m :: back) := by
      apply isort_append_of_le hle (hn'.antisym hgt)
      intro a ha b hb'
      rcases mem_cons.mp hb' with rfl | hb'
      · exact hf a ha
      · exact hle.trans _ _ _ (hf a ha) (hb b hb')
    rw [h1, h2, take_left' (by rw [length_isort, hfl])]

theorem inv_new (gt : α → α → Bool) (K : Nat) : Inv gt K [] (Computer.new K : Computer α) where
  topN := rfl
  noPanic := rfl
  len := by simp [Computer.new]
  sub := by simp [Computer.new]
  nodup := by simp [Computer.new, AddrNodup]
  best := by simp [Computer.new]
  thr := by simp [Computer.new]

/-- the only facts about the extracted capacity constants the mechanism needs:
`top_n.max(MIN) * FACTOR > top_n` -/
theorem cap_gt (c : Computer α) : c.topN < c.cap := by
  unfold Computer.cap
  have h1 : 1 ≤ Gen.TOPN_CAP_MIN := by decide
  have h2 : 2 ≤ Gen.TOPN_CAP_FACTOR := by decide
  have h3 : c.topN ≤ Nat.max c.topN Gen.TOPN_CAP_MIN := Nat.le_max_left _ _
  have h4 : Gen.TOPN_CAP_MIN ≤ Nat.max c.topN Gen.TOPN_CAP_MIN := Nat.le_max_right _ _
  have h5 : Nat.max c.topN Gen.TOPN_CAP_MIN * 2 ≤ Nat.max c.topN Gen.TOPN_CAP_MIN * Gen.TOPN_CAP_FACTOR :=
    Nat.mul_le_mul_left _ h2
  omega

theorem inv_appendDoc {gt : α → α → Bool} (hgt : StrictWeak gt) {K : Nat}
    {sel : List (Entry α) → List (Entry α)} (hsel : SelectNth gt K sel)
    {xs : List (Entry α)} {c : Computer α} {e : Entry α} (h : Inv gt K xs c)
    (hasc : AddrAsc (xs ++ [e])) : Inv gt K (xs ++ [e]) (appendDoc sel c e) := by
  have hle := le_totalPreorder hgt
  unfold appendDoc
  split
  · -- buffer full: truncate, then append
    rename_i hfull
    have hlen : K < c.buffer.length := by rw [hfull, ← h.topN]; exact cap_gt c
    obtain ⟨front, m, htr, hfl, hfsub, hm, hfn, hfm, hfs⟩ :=
      truncate_spec hgt hsel h.topN hlen h.nodup
    rw [htr]
    have hfsub' : ∀ b, b ∈ front → b ∈ xs := fun b hb => h.sub b (hfsub b hb)
    have hnd : AddrNodup (front ++ [e]) := addrNodup_snoc hasc hfsub' hfn
    refine ⟨h.topN, h.noPanic, ?_, ?_, hnd, ?_, ?_⟩
    · have := cap_gt c
      show (front ++ [e]).length ≤ c.cap
      simp only [length_append, length_cons, length_nil, hfl]
      rw [h.topN] at this
      omega
    · intro b hb
      rcases mem_append.mp hb with hb | hb
      · exact mem_append_left _ (hfsub' b hb)
      · exact mem_append_right _ hb
    · show (isort (le gt) (front ++ [e])).take K = _
      have hfK : (isort (le gt) front).take K = isort (le gt) front :=
        take_of_length_le (by rw [length_isort, hfl]; exact Nat.le_refl _)
      rw [topK_snoc hgt hnd, topK_snoc hgt hasc.nodup, ← h.best, ← hfs, hfK]
    · intro t ht
      simp at ht
      refine ⟨m, mem_append_left _ (h.sub m hm), ht, ?_⟩
      show K ≤ (front ++ [e]).countP _
      rw [countP_append]
      have : front.countP (fun x => le gt x m) = front.length := by
        rw [countP_eq_length]; intro a ha; exact hfm a ha
      omega
  · -- room left
    rename_i hroom
    have hnd : AddrNodup (c.buffer ++ [e]) := addrNodup_snoc hasc h.sub h.nodup
    refine ⟨h.topN, h.noPanic, ?_, ?_, hnd, ?_, ?_⟩
    · have := h.len
      show (c.buffer ++ [e]).length ≤ c.cap
      simp only [length_append, length_cons, length_nil]
      omega
    · intro b hb
      rcases mem_append.mp hb with hb | hb
      · exact mem_append_left _ (h.sub b hb)
      · exact mem_append_right _ hb
    · show (isort (le gt) (c.buffer ++ [e])).take K = _
      rw [topK_snoc hgt hnd, topK_snoc hgt hasc.nodup, h.best]
    · intro t ht
      obtain ⟨d, hd, hk, hc⟩ := h.thr t ht
      refine ⟨d, mem_append_left _ hd, hk, ?_⟩
      show K ≤ (c.buffer ++ [e]).countP _
      rw [countP_append]; omega

theorem inv_push {gt : α → α → Bool} (hgt : StrictWeak gt) {K : Nat}
    {sel : List (Entry α) → List (Entry α)} (hsel : SelectNth gt K sel)
    {xs : List (Entry α)} {c : Computer α} {e : Entry α} (h : Inv gt K xs c)
    (hasc : AddrAsc (xs ++ [e])) : Inv gt K (xs ++ [e]) (push gt sel c e) := by
  have hle := le_totalPreorder hgt
  unfold push
  split
  · rename_i t ht
    split
    · exact inv_appendDoc hgt hsel h hasc
    · -- rejected by the strict threshold
      rename_i hrej
      obtain ⟨d, hd, hk, hc⟩ := h.thr t ht
      have hde : le gt d e = true := by
        unfold AddrAsc at hasc
        rw [pairwise_append] at hasc
        have hlt : d.addr < e.addr := hasc.2.2 d hd e (by simp)
        unfold le
        rw [hk]
        simp only [Bool.not_eq_true] at hrej
        simp [hrej]
        right; omega
      have hcount : K ≤ (isort (le gt) c.buffer).countP (fun x => le gt x e) := by
        rw [(isort_perm c.buffer).countP_eq]
        refine Nat.le_trans hc (countP_mono_left ?_)
        intro x _ hx
        exact hle.trans _ _ _ hx hde
      refine ⟨h.topN, h.noPanic, h.len, fun b hb => mem_append_left _ (h.sub b hb), h.nodup, ?_, ?_⟩
      · rw [topK_snoc hgt hasc.nodup, ← h.best, ← take_ins,
          take_ins_of_count hle e (isort_sorted hle _) hcount]
      · intro t' ht'
        obtain ⟨d', hd', hk', hc'⟩ := h.thr t' ht'
        exact ⟨d', mem_append_left _ hd', hk', hc'⟩
  · exact inv_appendDoc hgt hsel h hasc

theorem inv_pushAll {gt : α → α → Bool} (hgt : StrictWeak gt) {K : Nat}
    {sel : List (Entry α) → List (Entry α)} (hsel : SelectNth gt K sel)
    (es xs : List (Entry α)) (c : Computer α) (h : Inv gt K xs c)
    (hasc : AddrAsc (xs ++ es)) : Inv gt K (xs ++ es) (pushAll gt sel c es) := by
  induction es generalizing xs c with
  | nil => simpa [pushAll] using h
  | cons e es ih =>
    have hasc' : AddrAsc ((xs ++ [e]) ++ es) := by simpa using hasc
    have hpre : AddrAsc (xs ++ [e]) := by
      unfold AddrAsc at hasc' ⊢
      exact (pairwise_append.mp hasc').1
    have := ih (xs ++ [e]) (push gt sel c e) (inv_push hgt hsel h hpre) hasc'
    simpa [pushAll] using this

/-- `into_vec` holds exactly the best `K`, in some order -/
theorem intoVec_spec {gt : α → α → Bool} (hgt : StrictWeak gt) {K : Nat}
    {sel : List (Entry α) → List (Entry α)} (hsel : SelectNth gt K sel)
    {xs : List (Entry α)} {c : Computer α} (h : Inv gt K xs c) :
    isort (le gt) (intoVec sel c) = (isort (le gt) xs).take K ∧
      (∀ b, b ∈ intoVec sel c → b ∈ xs) ∧ AddrNodup (intoVec sel c) := by
  unfold intoVec
  split
  · rename_i hlt
    rw [h.topN] at hlt
    obtain ⟨front, m, htr, hfl, hfsub, hm, hfn, hfm, hfs⟩ :=
      truncate_spec hgt hsel h.topN hlt h.nodup
    rw [htr]
    exact ⟨by rw [hfs, h.best], fun b hb => h.sub b (hfsub b hb), hfn⟩
  · rename_i hge
    rw [h.topN] at hge
    refine ⟨?_, h.sub, h.nodup⟩
    rw [← h.best, take_of_length_le (by rw [length_isort]; omega)]

end TantivyModel.TopN
