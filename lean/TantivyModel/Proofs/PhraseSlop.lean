import TantivyModel.Model.PhraseSlop
/-
The two-pointer walks of `PhraseScorer` over two sorted position lists decide exactly
"some pair of positions is within `slop`".
-/
set_option linter.unusedSimpArgs false
set_option linter.unusedVariables false
namespace TantivyModel.PhraseSlop
open TantivyModel.QuerySem

theorem dist_comm (a b : Nat) : dist a b = dist b a := by
  unfold dist; split <;> split <;> omega

def PairWithin (l r : List Nat) (s : Nat) : Prop := ∃ a, a ∈ l ∧ ∃ b, b ∈ r ∧ dist a b ≤ s

theorem existsWithSlopF_iff (s : Nat) : ∀ (fuel : Nat) (l r : List Nat), l.length + r.length ≤ fuel →
    l.Pairwise (· ≤ ·) → r.Pairwise (· ≤ ·) →
    (existsWithSlopF s fuel l r = true ↔ PairWithin l r s) := by
  intro fuel
  induction fuel with
  | zero =>
    intro l r h _ _
    have hl : l = [] := List.eq_nil_of_length_eq_zero (by omega)
    subst hl
    simp [existsWithSlopF, PairWithin]
  | succ fuel ih =>
    intro l r h hl hr
    match l, r with
    | [], r => simp [existsWithSlopF, PairWithin]
    | a :: l, [] => simp [existsWithSlopF, PairWithin]
    | a :: l, b :: r =>
      simp only [existsWithSlopF]
      by_cases h1 : dist a b ≤ s
      · simp only [h1, if_true, true_iff]
        exact ⟨a, by simp, b, by simp, h1⟩
      · simp only [h1, if_false]
        have hla := List.pairwise_cons.mp hl
        have hrb := List.pairwise_cons.mp hr
        by_cases h2 : a < b
        · simp only [h2, if_true]
          rw [ih l (b :: r) (by simp only [List.length_cons] at h ⊢; omega) hla.2 hr]
          constructor
          · rintro ⟨x, hx, y, hy, hd⟩
            exact ⟨x, List.mem_cons_of_mem _ hx, y, hy, hd⟩
          · rintro ⟨x, hx, y, hy, hd⟩
            rcases List.mem_cons.mp hx with rfl | hx
            · exfalso
              have hby : b ≤ y := by
                rcases List.mem_cons.mp hy with rfl | hy
                · exact Nat.le_refl _
                · exact hrb.1 y hy
              unfold dist at h1 hd
              split at h1 <;> split at hd <;> omega
            · exact ⟨x, hx, y, hy, hd⟩
        · simp only [h2, if_false]
          rw [ih (a :: l) r (by simp only [List.length_cons] at h ⊢; omega) hl hrb.2]
          constructor
          · rintro ⟨x, hx, y, hy, hd⟩
            exact ⟨x, hx, y, List.mem_cons_of_mem _ hy, hd⟩
          · rintro ⟨x, hx, y, hy, hd⟩
            rcases List.mem_cons.mp hy with rfl | hy
            · exfalso
              have hax : a ≤ x := by
                rcases List.mem_cons.mp hx with rfl | hx
                · exact Nat.le_refl _
                · exact hla.1 x hx
              unfold dist at h1 hd
              split at h1 <;> split at hd <;> omega
            · exact ⟨x, hx, y, hy, hd⟩

/-- the counting walk finds a match iff the existence walk does (same moves until the first hit) -/
theorem countWithSlopF_pos (s : Nat) : ∀ (fuel : Nat) (l r : List Nat),
    (0 < countWithSlopF s fuel l r ↔ existsWithSlopF s fuel l r = true) := by
  intro fuel
  induction fuel with
  | zero => intro l r; simp [countWithSlopF, existsWithSlopF]
  | succ fuel ih =>
    intro l r
    match l, r with
    | [], r => simp [countWithSlopF, existsWithSlopF]
    | a :: l, [] => simp [countWithSlopF, existsWithSlopF]
    | a :: l, b :: r =>
      simp only [countWithSlopF, existsWithSlopF]
      by_cases h1 : dist a b ≤ s
      · simp only [h1, if_true, iff_true]; omega
      · simp only [h1, if_false]
        by_cases h2 : a < b
        · simp only [h2, if_true]; exact ih _ _
        · simp only [h2, if_false]; exact ih _ _

theorem existsWithSlop_iff (l r : List Nat) (s : Nat) (hl : l.Pairwise (· ≤ ·)) (hr : r.Pairwise (· ≤ ·)) :
    existsWithSlop l r s = true ↔ PairWithin l r s :=
  existsWithSlopF_iff s _ l r (Nat.le_refl _) hl hr

theorem phraseSlop_two (a b : List Nat) (s : Nat) : phraseSlop [a, b] s = true ↔ PairWithin a b s := by
  simp only [phraseSlop, slopChain, List.any_eq_true, Bool.and_eq_true, decide_eq_true_eq, and_true,
    PairWithin]

theorem pairWithin_comm (a b : List Nat) (s : Nat) : PairWithin a b s ↔ PairWithin b a s := by
  constructor <;>
  · rintro ⟨x, hx, y, hy, hd⟩
    exact ⟨y, hy, x, hx, by rw [dist_comm]; exact hd⟩

theorem bool_eq_of_iff {x y : Bool} (h : x = true ↔ y = true) : x = y := by
  cases x <;> cases y <;> simp_all

/-- both real paths on two terms = the specification, in either processing order -/
theorem phrase_two_terms (a b : List Nat) (s : Nat) (ha : a.Pairwise (· ≤ ·)) (hb : b.Pairwise (· ≤ ·)) :
    phraseOff [a, b] s = phraseSlop [a, b] s ∧ phraseOn [a, b] s = phraseSlop [a, b] s
      ∧ phraseOff [b, a] s = phraseSlop [a, b] s ∧ phraseOn [b, a] s = phraseSlop [a, b] s := by
  have e1 : phraseOff [a, b] s = existsWithSlop a b s := rfl
  have e2 : phraseOff [b, a] s = existsWithSlop b a s := rfl
  have e3 : phraseOn [a, b] s = decide (0 < countWithSlop a b s) := rfl
  have e4 : phraseOn [b, a] s = decide (0 < countWithSlop b a s) := rfl
  have c1 := countWithSlopF_pos s (a.length + b.length) a b
  have c2 := countWithSlopF_pos s (b.length + a.length) b a
  have x1 := existsWithSlop_iff a b s ha hb
  have x2 := existsWithSlop_iff b a s hb ha
  have sp := phraseSlop_two a b s
  have cm := pairWithin_comm a b s
  refine ⟨?_, ?_, ?_, ?_⟩
  · rw [e1]; exact bool_eq_of_iff (x1.trans sp.symm)
  · rw [e3]; apply bool_eq_of_iff; rw [decide_eq_true_eq]; exact (c1.trans x1).trans sp.symm
  · rw [e2]; exact bool_eq_of_iff ((x2.trans cm.symm).trans sp.symm)
  · rw [e4]; apply bool_eq_of_iff; rw [decide_eq_true_eq]
    exact ((c2.trans x2).trans cm.symm).trans sp.symm

theorem offStep_reset (slop : Nat) (st : List Nat) (adjs : List (List Nat)) :
    (offStep true slop st adjs).1 = phraseOff adjs slop := by
  cases adjs <;> rfl

theorem onStep_reset (slop : Nat) (st : List Nat) (adjs : List (List Nat)) :
    (onStep true slop st adjs).1 = phraseOn adjs slop := by
  cases adjs with
  | nil => rfl
  | cons first rest =>
    simp only [onStep, phraseOn, if_true]

/-- with the reset, what the scorer answers for a document does not depend on the documents it
evaluated before -/
theorem runSteps_reset (slop : Nat) : ∀ (docs : List (List (List Nat))) (st : List Nat),
    runSteps (offStep true slop) st docs = docs.map (phraseOff · slop)
      ∧ runSteps (onStep true slop) st docs = docs.map (phraseOn · slop) := by
  intro docs
  induction docs with
  | nil => intro st; exact ⟨rfl, rfl⟩
  | cons d ds ih =>
    intro st
    simp only [runSteps, List.map_cons, offStep_reset, onStep_reset]
    exact ⟨by rw [(ih _).1], by rw [(ih _).2]⟩

end TantivyModel.PhraseSlop
