import TantivyModel.Proofs.ReaderMutex
/-!
Freshness (a reload reflects every commit completed before it started) and the trace-level form of
"a held searcher never changes".
-/
namespace TantivyModel.Reader

/-- the list of metas only grows -/
theorem metas_length_step (s : St) (e : Ev) : s.metas.length ≤ (step s e).metas.length := by
  cases e with
  | saveMeta f => simp [step]
  | openFile r p => simp only [step]; split <;> exact Nat.le_refl _
  | publish r => simp only [step]; split <;> exact Nat.le_refl _
  | acquire r => exact Nat.le_refl _
  | loadMeta r => exact Nat.le_refl _
  | release r => exact Nat.le_refl _
  | warm r => exact Nat.le_refl _
  | create p b => exact Nat.le_refl _
  | gcAcquire => exact Nat.le_refl _
  | gcList l => exact Nat.le_refl _
  | gcRelease => exact Nat.le_refl _
  | gcDelete p => exact Nat.le_refl _
  | mLock r => exact Nat.le_refl _
  | mUnlock r => exact Nat.le_refl _

/-- reload `r` has started when meta `k` was the newest, and whatever it has loaded is ≥ `k` -/
structure Fresh (r : Rid) (k : Nat) (s : St) : Prop where
  notIdle : (s.rs r).phase ≠ .idle
  bound : k < s.metas.length
  loaded : ∀ j, (s.rs r).j = some j → k ≤ j

theorem fresh_step (r : Rid) (k : Nat) (s : St) (e : Ev) (hF : Fresh r k s)
    (hok : ok full s e = true) : Fresh r k (step s e) := by
  refine ⟨not_idle_step s e r hF.notIdle hok, Nat.lt_of_lt_of_le hF.bound (metas_length_step s e), ?_⟩
  intro j hj
  cases e with
  | acquire r' =>
    have hne : r ≠ r' := by
      intro h; subst h
      simp only [ok, Bool.and_eq_true, decide_eq_true_eq] at hok
      exact hF.notIdle hok.2
    simp only [step, upd, hne, if_false] at hj
    exact hF.loaded j hj
  | loadMeta r' =>
    by_cases h : r = r'
    · subst h
      simp only [step, upd, if_true, Option.some.injEq] at hj
      have := hF.bound
      omega
    · simp only [step, upd, h, if_false] at hj; exact hF.loaded j hj
  | openFile r' p =>
    simp only [step] at hj
    split at hj <;>
      (by_cases h : r = r'
       · subst h; simp only [upd, if_true] at hj; exact hF.loaded j hj
       · simp only [upd, h, if_false] at hj; exact hF.loaded j hj)
  | release r' =>
    by_cases h : r = r'
    · subst h; simp only [step, upd, if_true] at hj; exact hF.loaded j hj
    · simp only [step, upd, h, if_false] at hj; exact hF.loaded j hj
  | warm r' =>
    by_cases h : r = r'
    · subst h; simp only [step, upd, if_true] at hj; exact hF.loaded j hj
    · simp only [step, upd, h, if_false] at hj; exact hF.loaded j hj
  | publish r' =>
    simp only [step] at hj
    split at hj
    · by_cases h : r = r'
      · subst h; simp only [upd, if_true] at hj; exact hF.loaded j hj
      · simp only [upd, h, if_false] at hj; exact hF.loaded j hj
    · exact hF.loaded j hj
  | create p b => exact hF.loaded j hj
  | saveMeta f => exact hF.loaded j hj
  | gcAcquire => exact hF.loaded j hj
  | gcList l => exact hF.loaded j hj
  | gcRelease => exact hF.loaded j hj
  | gcDelete p => exact hF.loaded j hj
  | mLock r' => exact hF.loaded j hj
  | mUnlock r' => exact hF.loaded j hj

theorem fresh_run (r : Rid) (k : Nat) (s : St) (t : List Ev) (hF : Fresh r k s)
    (hv : validFrom full s t = true) : Fresh r k (run s t) := by
  induction t generalizing s with
  | nil => exact hF
  | cons e t ih =>
    simp only [validFrom, check, Bool.and_eq_true] at hv
    exact ih (step s e) (fresh_step r k s e hF hv.1) hv.2

theorem fresh_after_acquire (s : St) (r : Rid) (hI : Inv s) :
    Fresh r (s.metas.length - 1) (step s (.acquire r)) := by
  have := hI.klt
  refine ⟨by simp [step, upd], ?_, ?_⟩
  · show s.metas.length - 1 < s.metas.length
    omega
  · intro j hj; simp [step, upd] at hj

/-- handles of a published reload: unchanged along any further events (any discipline) -/
theorem held_fixed_run (d : Disc) (s : St) (u : List Ev) (r : Rid)
    (hstep : ∀ s e, (s.rs r).phase = .published → ok d s e = true →
      ((step s e).rs r).handles = (s.rs r).handles ∧ ((step s e).rs r).phase = .published)
    (hp : (s.rs r).phase = .published) (hv : validFrom d s u = true) :
    ((run s u).rs r).handles = (s.rs r).handles ∧ ((run s u).rs r).phase = .published := by
  induction u generalizing s with
  | nil => exact ⟨rfl, hp⟩
  | cons e u ih =>
    simp only [validFrom, check, Bool.and_eq_true] at hv
    obtain ⟨h1, h2⟩ := hstep s e hp hv.1
    obtain ⟨h3, h4⟩ := ih (step s e) h2 hv.2
    exact ⟨h3.trans h1, h4⟩

/-- in a sorted list every element is below the last one -/
theorem le_getLast_of_pairwise (l : List Nat) (hp : List.Pairwise (· ≤ ·) l) (a b : Nat)
    (ha : a ∈ l) (hb : l.getLast? = some b) : a ≤ b := by
  obtain ⟨ys, hl⟩ := List.getLast?_eq_some_iff.mp hb
  subst hl
  rw [List.mem_append, List.mem_singleton] at ha
  rcases ha with ha | ha
  · exact (List.pairwise_append.mp hp).2.2 a ha b (List.mem_singleton.mpr rfl)
  · rw [ha]; exact Nat.le_refl _

theorem mem_pubsOf_of_mem (ρ : Nat) (s : St) (r : Rid) (j : Nat) (hm : (r, j) ∈ s.pubs)
    (hr : r.1 = ρ) : j ∈ pubsOf ρ s := by
  unfold pubsOf
  simp only [List.mem_map, List.mem_filter, beq_iff_eq]
  exact ⟨(r, j), ⟨hm, hr⟩, rfl⟩

end TantivyModel.Reader
