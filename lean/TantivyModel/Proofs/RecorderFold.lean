import TantivyModel.Proofs.RecorderLog
import TantivyModel.Proofs.Invert
/-! the term table after indexing a corpus: per term, the fold of `addPosting` over the spec's
postings; and the value stream that fold writes -/
namespace TantivyModel.Recorder
open TantivyModel.Invert (Term RecOpt Posting Corpus Doc docOccs postingsFrom postingsOf)

/-- what the occurrences of one term in one document do to its recorder -/
def addPosting (o : RecOpt) (r : Option Rec) (p : Posting) : Rec :=
  p.positions.foldl (recordPosition o)
    (match r with
     | some r => if r.currentDoc ≠ p.doc then newDoc o (closeDoc o r) p.doc else r
     | none => newDoc o Rec.empty p.doc)

def recOf (o : RecOpt) (ps : List Posting) : Option Rec :=
  ps.foldl (fun acc p => some (addPosting o acc p)) none

/-! ### table independence -/

theorem recordPosition_currentDoc (o : RecOpt) (r : Rec) (pos : Nat) :
    (recordPosition o r pos).currentDoc = r.currentDoc := by
  cases o <;> rfl

theorem foldl_subscribe_table (o : RecOpt) (doc : Nat) (t : Term) (occs : List (Term × Nat)) :
    ∀ ix : Indexer, (occs.foldl (fun ix occ => subscribe o ix doc occ) ix).table t =
      ((occs.filter (fun occ => occ.1 = t)).map (·.2)).foldl
        (fun r pos => some (subscribeRec o r doc pos)) (ix.table t) := by
  induction occs with
  | nil => intro ix; rfl
  | cons occ rest ih =>
    intro ix
    rw [List.foldl_cons, ih]
    obtain ⟨ot, op⟩ := occ
    by_cases h : ot = t
    · subst h
      simp [subscribe]
    · have h' : ¬ t = ot := fun e => h e.symm
      simp [h, subscribe, h']

theorem foldl_subscribe_total (o : RecOpt) (doc : Nat) (occs : List (Term × Nat)) :
    ∀ ix : Indexer, (occs.foldl (fun ix occ => subscribe o ix doc occ) ix).totalNumTokens =
      ix.totalNumTokens + occs.length := by
  induction occs with
  | nil => intro ix; rfl
  | cons occ rest ih => intro ix; rw [List.foldl_cons, ih]; simp [subscribe]; omega

/-- once the recorder is on `doc`, further occurrences only record positions -/
theorem foldl_subscribeRec_same (o : RecOpt) (doc : Nat) (poss : List Nat) :
    ∀ r : Rec, r.currentDoc = doc →
      poss.foldl (fun r pos => some (subscribeRec o r doc pos)) (some r) =
        some (poss.foldl (recordPosition o) r) := by
  induction poss with
  | nil => intro r _; rfl
  | cons pos rest ih =>
    intro r hr
    rw [List.foldl_cons, List.foldl_cons]
    have : subscribeRec o (some r) doc pos = recordPosition o r pos := by
      simp [subscribeRec, hr]
    rw [this, ih _ (by rw [recordPosition_currentDoc, hr])]

theorem foldl_subscribeRec (o : RecOpt) (doc : Nat) (poss : List Nat) (hne : poss ≠ []) (r0 : Option Rec) :
    poss.foldl (fun r pos => some (subscribeRec o r doc pos)) r0 =
      some (addPosting o r0 { doc := doc, tf := poss.length, positions := poss }) := by
  cases poss with
  | nil => exact absurd rfl hne
  | cons pos rest =>
    rw [List.foldl_cons]
    unfold addPosting
    simp only [List.foldl_cons]
    cases r0 with
    | none =>
      simp only [subscribeRec]
      exact foldl_subscribeRec_same o doc rest _ (by rw [recordPosition_currentDoc]; rfl)
    | some r =>
      simp only [subscribeRec]
      apply foldl_subscribeRec_same
      rw [recordPosition_currentDoc]
      by_cases h : r.currentDoc = doc
      · simp [h]
      · simp [h, newDoc]

theorem indexDocs_table (o : RecOpt) (gap : Nat) (t : Term) (c : Corpus) :
    ∀ (ix : Indexer) (base : Nat), (indexDocs o gap ix base c).table t =
      (postingsFrom gap t base c).foldl (fun acc p => some (addPosting o acc p)) (ix.table t) := by
  induction c with
  | nil => intro ix base; rfl
  | cons d ds ih =>
    intro ix base
    simp only [indexDocs, postingsFrom]
    rw [ih, indexDoc, foldl_subscribe_table]
    split
    · rename_i hemp
      have : ((docOccs gap d).filter (fun o => o.1 = t)).map (·.2) = [] := List.isEmpty_iff.mp hemp
      rw [this]; rfl
    · rename_i hne
      have hne' : ((docOccs gap d).filter (fun o => o.1 = t)).map (·.2) ≠ [] := by
        intro h; rw [h] at hne; simp at hne
      rw [foldl_subscribeRec o base _ hne', List.foldl_cons]

theorem indexDocs_total (o : RecOpt) (gap : Nat) (c : Corpus) :
    ∀ (ix : Indexer) (base : Nat), (indexDocs o gap ix base c).totalNumTokens =
      ix.totalNumTokens + (c.map (fun d => (docOccs gap d).length)).sum := by
  induction c with
  | nil => intro ix base; simp [indexDocs]
  | cons d ds ih =>
    intro ix base
    simp only [indexDocs, ih, indexDoc, foldl_subscribe_total, List.map_cons, List.sum_cons]
    omega

/-- **the table**: after indexing, the recorder of `t` is the fold over the spec's postings of `t` -/
theorem indexCorpus_table (o : RecOpt) (c : Corpus) (t : Term) :
    (indexCorpus o c).table t = recOf o (postingsOf Gen.Postings.POSITION_GAP c t) := by
  unfold indexCorpus recOf postingsOf
  rw [indexDocs_table]; rfl

theorem indexCorpus_total (o : RecOpt) (c : Corpus) :
    (indexCorpus o c).totalNumTokens = (Invert.invert c).totalNumTokens := by
  unfold indexCorpus
  rw [indexDocs_total]
  simp [Indexer.init, Invert.invert, Invert.invertWith]

end TantivyModel.Recorder
