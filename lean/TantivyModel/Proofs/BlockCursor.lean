import TantivyModel.Model.BlockCursor
/-! a recycled block cursor is indistinguishable from a freshly opened one -/
namespace TantivyModel.Postings
open TantivyModel.Invert (RecOpt)

/-- `SkipReader::reset` re-initialises exactly like `SkipReader::new` (with the record option kept) -/
theorem SkipReader.reset_eq_new (c : Cfg) (s : SkipReader) (data : List Nat) (docFreq : Nat) :
    s.reset c data docFreq = SkipReader.new c data docFreq s.skipInfo := by
  cases s
  simp only [SkipReader.reset, SkipReader.new]

/-- the part of the state `load_block` reads -/
def BlockPostings.core (p : BlockPostings) : FreqOpt × Nat × List Nat × SkipReader :=
  (p.freqOpt, p.docFreq, p.data, p.skip)

theorem eraseTf_eq_iff (p q : BlockPostings) :
    p.eraseTf = q.eraseTf ↔ p.docBuf = q.docBuf ∧ p.docLen = q.docLen ∧ p.loaded = q.loaded ∧ p.core = q.core := by
  cases p; cases q
  simp [BlockPostings.eraseTf, BlockPostings.core]

/-- `load_block` on an unloaded cursor overwrites the doc buffer from (skip reader, data) alone -/
theorem loadBlock_congr (c : Cfg) (p q : BlockPostings) (hp : p.loaded = false) (hq : q.loaded = false)
    (h : p.core = q.core) : (p.loadBlock c).eraseTf = (q.loadBlock c).eraseTf := by
  cases p with
  | mk pd pl pt ptl ploaded pf pdf pdata pskip =>
  cases q with
  | mk qd ql qt qtl qloaded qf qdf qdata qskip =>
  simp only [BlockPostings.core, Prod.mk.injEq] at h
  obtain ⟨rfl, rfl, rfl, rfl⟩ := h
  simp only at hp hq
  subst hp hq
  unfold BlockPostings.loadBlock
  simp only [Bool.false_eq_true, if_false]
  split
  · split <;> simp [BlockPostings.eraseTf]
  · split
    · simp [BlockPostings.eraseTf]
    · split
      · split <;> simp [BlockPostings.eraseTf]
      · simp [BlockPostings.eraseTf]

/-- **reset ≡ open** (what seeded mutant B broke): whatever the recycled cursor had read before,
after `reset(doc_freq, bytes)` it is — doc buffer, block length, skip reader state (in particular
`last_doc_in_previous_block = 0`), byte offset, remaining docs, position offset — the cursor a
fresh `open` of the same bytes gives.  Hypotheses: what `reset` does *not* re-establish, the
frequency reading option and the skip reader's record option, already fit the new term (inside one
field they do, except for the JSON number/text mix that `open` special-cases). -/
theorem reset_eq_open (c : Cfg) (o req : RecOpt) (p : BlockPostings) (docFreq : Nat) (bytes : List Nat)
    (hskip : p.skip.skipInfo = effectiveOpt c o docFreq (splitSkips c docFreq bytes).1)
    (hfreq : p.freqOpt = freqOptOf (effectiveOpt c o docFreq (splitSkips c docFreq bytes).1) req) :
    (p.reset c docFreq bytes).eraseTf = (BlockPostings.open c o req docFreq bytes).eraseTf := by
  unfold BlockPostings.reset BlockPostings.open
  apply loadBlock_congr
  · rfl
  · rfl
  · simp only [BlockPostings.core, SkipReader.reset_eq_new, hskip, hfreq]

theorem advance_congr (c : Cfg) (p q : BlockPostings) (h : p.eraseTf = q.eraseTf) :
    (p.advance c).eraseTf = (q.advance c).eraseTf := by
  have h' := (eraseTf_eq_iff p q).mp h
  unfold BlockPostings.advance
  apply loadBlock_congr
  · rfl
  · rfl
  · have := h'.2.2.2
    simp only [BlockPostings.core, Prod.mk.injEq] at this ⊢
    obtain ⟨h1, h2, h3, h4⟩ := this
    exact ⟨h1, h2, h3, by rw [h4]⟩

theorem docs_congr (p q : BlockPostings) (h : p.eraseTf = q.eraseTf) : p.docs = q.docs := by
  have h' := (eraseTf_eq_iff p q).mp h
  unfold BlockPostings.docs
  rw [h'.1, h'.2.1]

/-- every later block read agrees as well -/
theorem drain_docs_congr (c : Cfg) (fuel : Nat) (p q : BlockPostings) (h : p.eraseTf = q.eraseTf) :
    (BlockPostings.drain c fuel p).1 = (BlockPostings.drain c fuel q).1 := by
  induction fuel generalizing p q with
  | zero => rfl
  | succ n ih =>
    unfold BlockPostings.drain
    rw [docs_congr p q h]
    split
    · rfl
    · simp only
      rw [ih _ _ (advance_congr c p q h)]

end TantivyModel.Postings
