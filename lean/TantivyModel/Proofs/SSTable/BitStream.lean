import TantivyModel.Proofs.SSTable.AddrStoreProofs
/-! `extract_bits` reads back the fields of a little-endian bit-packed stream -/
namespace TantivyModel.SSTable
open TantivyModel

/-- the number a byte string denotes as a little-endian bit stream -/
def streamNat (bs : List UInt8) : Nat := bs.foldr (fun b acc => b.toNat + 256 * acc) 0

theorem streamNat_cons (b : UInt8) (bs : List UInt8) : streamNat (b :: bs) = b.toNat + 256 * streamNat bs := rfl

theorem leNat_eq (n : Nat) (bs : List UInt8) : leNat n bs = streamNat (bs.take n) := rfl

theorem streamNat_lt (bs : List UInt8) : streamNat bs < 256 ^ bs.length := by
  induction bs with
  | nil => simp [streamNat]
  | cons b r ih =>
    rw [streamNat_cons, List.length_cons, Nat.pow_succ]
    have := b.toNat_lt
    omega

theorem streamNat_split (bs : List UInt8) (n : Nat) :
    streamNat bs = streamNat (bs.take n) + 256 ^ (bs.take n).length * streamNat (bs.drop n) := by
  induction bs generalizing n with
  | nil => simp [streamNat]
  | cons b r ih =>
    cases n with
    | zero => simp [streamNat]
    | succ m =>
      simp only [List.take_succ_cons, List.drop_succ_cons, streamNat_cons, List.length_cons, Nat.pow_succ]
      have e : 256 * (256 ^ (List.take m r).length * streamNat (List.drop m r))
          = 256 ^ (List.take m r).length * 256 * streamNat (List.drop m r) := by
        rw [Nat.mul_left_comm, Nat.mul_assoc]
      conv => lhs; rw [ih m, Nat.mul_add, e]
      rw [Nat.add_assoc]

/-- dropping `k` bytes divides by `256^k` -/
theorem streamNat_drop (bs : List UInt8) (k : Nat) : streamNat (bs.drop k) = streamNat bs / 256 ^ k := by
  by_cases hk : k ≤ bs.length
  · have h := streamNat_split bs k
    have hl : (bs.take k).length = k := by simp [hk]
    rw [hl] at h
    have hlt := streamNat_lt (bs.take k)
    rw [hl] at hlt
    rw [h, Nat.add_mul_div_left _ _ (Nat.pos_of_neZero _), Nat.div_eq_of_lt hlt, Nat.zero_add]
  · have hk' : bs.length ≤ k := by omega
    rw [List.drop_eq_nil_of_le hk']
    have hlt := streamNat_lt bs
    have : 256 ^ bs.length ≤ 256 ^ k := Nat.pow_le_pow_right (by decide) hk'
    rw [Nat.div_eq_of_lt (by omega)]; rfl

/-- the first 8 bytes are the stream modulo 2^64 -/
theorem streamNat_take8 (bs : List UInt8) : streamNat (bs.take 8) = streamNat bs % 2 ^ 64 := by
  by_cases hk : 8 ≤ bs.length
  · have h := streamNat_split bs 8
    have hl : (bs.take 8).length = 8 := by simp [hk]
    rw [hl] at h
    have hlt := streamNat_lt (bs.take 8)
    rw [hl] at hlt
    have e : (256 : Nat) ^ 8 = 2 ^ 64 := by decide
    rw [e] at h hlt
    rw [h, Nat.add_mul_mod_self_left, Nat.mod_eq_of_lt hlt]
  · have hk' : bs.length ≤ 8 := by omega
    rw [List.take_of_length_le hk']
    have hlt := streamNat_lt bs
    have : 256 ^ bs.length ≤ 256 ^ 8 := Nat.pow_le_pow_right (by decide) hk'
    have e : (256 : Nat) ^ 8 = 2 ^ 64 := by decide
    rw [Nat.mod_eq_of_lt (by omega)]

/-- window lemma: shifting and masking the low 64 bits = shifting and masking the whole number,
as long as the field lies inside the window -/
theorem window (X s n : Nat) (h : s + n ≤ 64) : ((X % 2 ^ 64) / 2 ^ s) % 2 ^ n = (X / 2 ^ s) % 2 ^ n := by
  rw [← Nat.mod_mul_right_div_self, ← Nat.mod_mul_right_div_self]
  congr 1
  rw [← Nat.pow_add]
  apply Nat.mod_mod_of_dvd
  exact Nat.pow_dvd_pow 2 h

/-- `extract_bits(data, addr, nbits)` = bits `[addr, addr + nbits)` of the little-endian bit stream,
for every field of at most 57 bits (the code asserts ≤ 56) -/
theorem extractBits_spec (data : List UInt8) (addr nbits : Nat) (h : nbits ≤ 57) :
    extractBits data addr nbits = (streamNat data / 2 ^ addr) % 2 ^ nbits := by
  unfold extractBits
  rw [leNat_eq, streamNat_take8, streamNat_drop, Nat.shiftRight_eq_div_pow]
  have hs : addr % 8 < 8 := Nat.mod_lt _ (by decide)
  rw [window _ _ _ (by omega)]
  congr 1
  have e : (256 : Nat) ^ (addr / 8) = 2 ^ (8 * (addr / 8)) := by
    rw [Nat.pow_mul]
  rw [e, Nat.div_div_eq_div_mul, ← Nat.pow_add]
  congr 2
  omega

/-- the number denoted by a sequence of `(value, width)` fields packed from bit 0 upwards -/
def packNat : List (Nat × Nat) → Nat
  | [] => 0
  | f :: rest => f.1 + 2 ^ f.2 * packNat rest

def bitPos (fs : List (Nat × Nat)) (j : Nat) : Nat := ((fs.take j).map (·.2)).sum

/-- field `j` of a packed sequence (every value below `2^width`) sits at its bit position -/
theorem packNat_field (fs : List (Nat × Nat)) (hfit : ∀ f ∈ fs, f.1 < 2 ^ f.2) (j : Nat) (f : Nat × Nat)
    (hj : fs[j]? = some f) (above : Nat) :
    ((packNat fs + 2 ^ bitPos fs fs.length * above) / 2 ^ bitPos fs j) % 2 ^ f.2 = f.1 := by
  induction fs generalizing j with
  | nil => simp at hj
  | cons g rest ih =>
    have hg := hfit g (by simp)
    cases j with
    | zero =>
      simp at hj; subst hj
      simp only [bitPos, List.take_zero, List.map_nil, List.sum_nil, Nat.pow_zero, Nat.div_one, packNat,
        List.length_cons, List.take_succ_cons, List.map_cons, List.sum_cons]
      rw [Nat.pow_add, Nat.mul_assoc, Nat.add_assoc, ← Nat.mul_add, Nat.add_mul_mod_self_left,
        Nat.mod_eq_of_lt hg]
    | succ i =>
      simp only [List.getElem?_cons_succ] at hj
      have := ih (fun x hx => hfit x (List.mem_cons_of_mem _ hx)) i hj
      simp only [bitPos, List.take_succ_cons, List.map_cons, List.sum_cons, packNat, List.length_cons] at this ⊢
      have e1 : g.1 + 2 ^ g.2 * packNat rest + 2 ^ (g.2 + ((rest.take rest.length).map (·.2)).sum) * above
          = g.1 + 2 ^ g.2 * (packNat rest + 2 ^ ((rest.take rest.length).map (·.2)).sum * above) := by
        rw [Nat.pow_add, Nat.mul_assoc, Nat.mul_add, Nat.add_assoc]
      have e2 : ∀ Y, (g.1 + 2 ^ g.2 * Y) / 2 ^ g.2 = Y := by
        intro Y
        rw [Nat.add_mul_div_left _ _ (Nat.pos_of_neZero _), Nat.div_eq_of_lt hg, Nat.zero_add]
      rw [e1, Nat.pow_add, ← Nat.div_div_eq_div_mul, e2]
      exact this

end TantivyModel.SSTable
