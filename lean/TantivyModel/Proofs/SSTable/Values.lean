import TantivyModel.Proofs.SSTable.Delta
/-! value blocks: monotonic u64 and range codecs round-trip -/
namespace TantivyModel.SSTable
open TantivyModel

theorem readVints_ser (ds : List Nat) (rest : List UInt8) :
    readVints ds.length ((ds.map vintSer).flatten ++ rest) = (ds, rest) := by
  induction ds with
  | nil => simp [readVints]
  | cons d r ih =>
    simp only [List.map_cons, List.flatten_cons, List.append_assoc, List.length_cons, readVints]
    rw [vint_roundtrip d ((r.map vintSer).flatten ++ rest)]
    simp only [List.drop_left']
    rw [ih]

/-- non-decreasing from `prev` on -/
def MonoFrom : Nat → List Nat → Prop
  | _, [] => True
  | prev, v :: vs => prev ≤ v ∧ MonoFrom v vs

theorem prefixSums_deltas (prev : Nat) (vals : List Nat) (h : MonoFrom prev vals) :
    prefixSums prev (deltasOf prev vals) = vals := by
  induction vals generalizing prev with
  | nil => rfl
  | cons v vs ih =>
    obtain ⟨h1, h2⟩ := h
    simp only [deltasOf, prefixSums]
    have : prev + (v - prev) = v := by omega
    rw [this, ih v h2]

theorem deltasOf_length (prev : Nat) (vals : List Nat) : (deltasOf prev vals).length = vals.length := by
  induction vals generalizing prev with
  | nil => rfl
  | cons v vs ih => simp [deltasOf, ih]

/-- `U64MonotonicValueReader::load ∘ U64MonotonicValueWriter::serialize_block = id` on every
non-decreasing value block, returning exactly the bytes that follow (the key entries) -/
theorem loadU64Mono_ser (vals : List Nat) (rest : List UInt8) (h : MonoFrom 0 vals) :
    loadU64Mono (serU64Mono vals ++ rest) = (vals, rest) := by
  unfold loadU64Mono serU64Mono
  simp only [List.append_assoc]
  rw [vint_roundtrip vals.length _]
  simp only [List.drop_left']
  have := readVints_ser (deltasOf 0 vals) rest
  rw [deltasOf_length] at this
  rw [this]
  simp [prefixSums_deltas 0 vals h]

theorem zip_bounds (a : Nat) (rs : List (Nat × Nat)) (h : Contig ((0, a) :: rs)) :
    (a :: rs.map (·.2)).zip (rs.map (·.2)) = rs := by
  induction rs generalizing a with
  | nil => rfl
  | cons r rest ih =>
    obtain ⟨h1, h2⟩ := h
    simp only [List.map_cons, List.zip_cons_cons]
    have hr : (a, r.2) = r := by
      cases r; simp at h1 ⊢; exact h1
    rw [hr]
    congr 1
    apply ih r.2
    cases rest with
    | nil => trivial
    | cons r2 rest2 => exact ⟨h2.1, h2.2⟩

theorem contig_tail {a b : Nat × Nat} {rest : List (Nat × Nat)} (h : Contig (a :: b :: rest)) :
    Contig (b :: rest) := h.2

/-- `RangeValueReader::load ∘ RangeValueWriter::serialize_block = id` on every block of
consecutive ranges with `start ≤ end` -/
theorem loadRange_ser (rs : List (Nat × Nat)) (rest : List UInt8) (hc : Contig rs)
    (hm : MonoFrom 0 (rangeBounds rs)) : loadRange (serRange rs ++ rest) = (rs, rest) := by
  have hl := loadU64Mono_ser (rangeBounds rs) rest hm
  unfold loadU64Mono at hl
  unfold loadRange serRange
  simp only [Prod.mk.injEq] at hl
  obtain ⟨h1, h2⟩ := hl
  simp only [h1, h2, Prod.mk.injEq, and_true]
  cases rs with
  | nil => rfl
  | cons r rest' =>
    simp only [rangeBounds, List.drop_succ_cons, List.drop_zero, List.zip_cons_cons]
    have hr : (r.1, r.2) = r := by cases r; rfl
    rw [hr]
    congr 1
    apply zip_bounds r.2 rest'
    cases rest' with
    | nil => trivial
    | cons r2 rest2 => exact ⟨hc.1, hc.2⟩

end TantivyModel.SSTable
