import TantivyModel.Proofs.SSTable.Ops
/-! the dictionary built by the writer: routing + scan = specification -/
namespace TantivyModel.SSTable
open TantivyModel

theorem findIdx?_lt {α} (p : α → Bool) (l : List α) (i : Nat) (h : l.findIdx? p = some i) :
    i < l.length := by
  induction l generalizing i with
  | nil => simp at h
  | cons a rest ih =>
    rw [List.findIdx?_cons] at h
    split at h
    · cases h; simp
    · cases hr : rest.findIdx? p with
      | none => simp [hr] at h
      | some j =>
        simp only [hr, Option.map_some, Option.some.injEq] at h
        subst h
        have := ih j hr
        simp; omega

theorem mkBlocks_length {V} (bs : List (Assoc V)) (ord : Nat) :
    (mkBlocks ord bs (sepsOf bs)).length = bs.length := by
  have := congrArg List.length (mkBlocks_entries bs ord)
  simpa using this

theorem build_good {V} (L : Nat) (m : Assoc V) (hs : SortedMap m) :
    GoodBlocks (blocksOf (fun e : Key × V => e.1) L m) :=
  ⟨cutBlocks_nonempty _ L [] 0 [] m, by rw [blocksOf_flatten]; exact hs⟩

/-- the block a key is routed to, with everything before it below the key and everything after
it above: the whole content of `C15_block_routing` in the form the operations use -/
theorem dict_split {V} (L : Nat) (m : Assoc V) (hs : SortedMap m) (k : Key) (b : Block V)
    (h : ((build L m).locateKey k).bind (build L m).blockAt = some b) :
    ∃ pre post, Around m pre b.entries post k ∧ b.firstOrd = pre.length := by
  have hg := build_good L m hs
  have hfl : (blocksOf (fun e : Key × V => e.1) L m).flatten = m := blocksOf_flatten _ L m
  unfold Dict.locateKey Dict.blockAt at h
  by_cases hsingle : (build L m).single = true
  · simp only [hsingle, if_true, Option.bind_some, Option.some.injEq] at h
    -- zero or one block: the pseudo block is the whole map
    unfold Dict.single build at hsingle
    simp only [decide_eq_true_eq] at hsingle
    rw [mkBlocks_length] at hsingle
    unfold build at h
    generalize blocksOf (fun e : Key × V => e.1) L m = bs at *
    match bs, hsingle with
    | [], _ =>
      simp [mkBlocks, sepsOf] at h
      subst h
      simp at hfl
      exact ⟨[], [], ⟨by simp [← hfl], by simp, by simp⟩, rfl⟩
    | [b0], _ =>
      simp [mkBlocks, sepsOf] at h
      subst h
      simp at hfl
      exact ⟨[], [], ⟨by simp [← hfl], by simp, by simp⟩, rfl⟩
  · simp only [hsingle, Bool.false_eq_true, if_false] at h
    unfold build at h
    simp only at h
    cases hi : (mkBlocks 0 (blocksOf (fun e : Key × V => e.1) L m)
        (sepsOf (blocksOf (fun e : Key × V => e.1) L m))).findIdx? (fun b => lexLe k b.sep) with
    | none => simp [hi] at h
    | some i =>
      simp only [hi, Option.bind_some] at h
      obtain ⟨pre, post, h1, h2, h3, h4, _⟩ := locate_split _ 0 k hg i b hi h
      exact ⟨pre, post, ⟨by rw [← hfl, h1], h3, h4⟩, by simpa using h2⟩

/-- routed nowhere (key above the last separator of a multi-block dictionary): all keys are below -/
theorem dict_none {V} (L : Nat) (m : Assoc V) (hs : SortedMap m) (k : Key)
    (h : ((build L m).locateKey k).bind (build L m).blockAt = none) :
    ∀ e ∈ m, lexLt e.1 k = true := by
  have hg := build_good L m hs
  have hfl : (blocksOf (fun e : Key × V => e.1) L m).flatten = m := blocksOf_flatten _ L m
  unfold Dict.locateKey Dict.blockAt at h
  by_cases hsingle : (build L m).single = true
  · simp [hsingle] at h
  · simp only [hsingle, Bool.false_eq_true, if_false] at h
    unfold build at h
    simp only at h
    cases hi : (mkBlocks 0 (blocksOf (fun e : Key × V => e.1) L m)
        (sepsOf (blocksOf (fun e : Key × V => e.1) L m))).findIdx? (fun b => lexLe k b.sep) with
    | none =>
      have := locate_none _ 0 k hg hi
      rwa [hfl] at this
    | some i =>
      simp only [hi, Option.bind_some] at h
      have := findIdx?_lt _ _ i hi
      rw [List.getElem?_eq_none_iff] at h
      omega

/-- all keys below `k`: the spec answers "next = number of terms" -/
theorem specHit_all_below (ks : List Key) (k : Key) (h : ∀ a ∈ ks, lexLt a k = true) :
    specHit ks k = .next ks.length := by
  unfold specHit
  have : ks.filter (fun a => lexLt a k) = ks := by
    rw [List.filter_eq_self]; exact h
  rw [this]
  simp

end TantivyModel.SSTable
