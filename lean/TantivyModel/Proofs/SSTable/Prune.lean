import TantivyModel.Proofs.SSTable.DeltaScan
import TantivyModel.Proofs.SSTable.Stream
/-! soundness of `can_block_match_automaton`: a block that is pruned holds no accepted key -/
namespace TantivyModel.SSTable
open TantivyModel

variable {σ : Type}

theorem run_append (A : Automaton σ) (s : σ) (p w : Key) : A.run s (p ++ w) = A.run (A.run s p) w := by
  simp [Automaton.run, List.foldl_append]

theorem run_cons (A : Automaton σ) (s : σ) (b : UInt8) (w : Key) :
    A.run s (b :: w) = A.run (A.step s b) w := rfl

/-- a state from which something is accepted can match -/
theorem canMatch_of_accept (A : Automaton σ) (hA : A.CanMatchSound) (s : σ) (w : Key)
    (h : A.accept (A.run s w) = true) : A.canMatch s = true := by
  cases hc : A.canMatch s with
  | true => rfl
  | false => rw [hA s hc w] at h; cases h

theorem mem_allBytes (b : UInt8) : b ∈ allBytes := by
  unfold allBytes
  refine List.mem_map.mpr ⟨b.toNat, List.mem_range.mpr b.toNat_lt, ?_⟩
  exact UInt8.toNat_inj.mp (by simp [UInt8.toNat_ofNat', Nat.mod_eq_of_lt b.toNat_lt])

theorem anyByte_of (A : Automaton σ) (s : σ) (lo hi : Nat) (b : UInt8) (h1 : lo ≤ b.toNat)
    (h2 : b.toNat < hi) (h3 : A.canMatch (A.step s b) = true) : anyByteCanMatch A s lo hi = true := by
  unfold anyByteCanMatch
  rw [List.any_eq_true]
  exact ⟨b, mem_allBytes b, by simp [h1, h2, h3]⟩

/-! order facts on cons cells -/

theorem lexLt_cons_iff (a b : UInt8) (as bs : Key) :
    lexLt (a :: as) (b :: bs) = true ↔ a.toNat < b.toNat ∨ (a = b ∧ lexLt as bs = true) := by
  simp only [lexLt]
  by_cases h : a.toNat < b.toNat
  · simp [h]
  · by_cases e : a = b
    · subst e; simp
    · simp [h, e]

theorem lexLe_cons_iff (a b : UInt8) (as bs : Key) :
    lexLe (a :: as) (b :: bs) = true ↔ a.toNat < b.toNat ∨ (a = b ∧ lexLe as bs = true) := by
  rw [lexLe_iff, lexLt_cons_iff, lexLe_iff]
  constructor
  · rintro ((h | ⟨e, h⟩) | h)
    · exact Or.inl h
    · exact Or.inr ⟨e, Or.inl h⟩
    · cases h; exact Or.inr ⟨rfl, Or.inr rfl⟩
  · rintro (h | ⟨e, h | h⟩)
    · exact Or.inl (Or.inl h)
    · exact Or.inl (Or.inr ⟨e, h⟩)
    · subst e; subst h; exact Or.inr rfl

/-- keys strictly above `start` (relative to state `s`) -/
theorem matchRangeStart_sound (A : Automaton σ) (hA : A.CanMatchSound) (start : Key) (s : σ) (w : Key)
    (hacc : A.accept (A.run s w) = true) (hgt : lexLt start w = true) :
    matchRangeStart A start s = true := by
  induction start generalizing s w with
  | nil =>
    cases w with
    | nil => simp [lexLt] at hgt
    | cons b w' =>
      simp only [matchRangeStart, canMatch_of_accept A hA s _ hacc, Bool.true_and]
      exact anyByte_of A s 0 256 b (Nat.zero_le _) b.toNat_lt (canMatch_of_accept A hA _ w' hacc)
  | cons kb rest ih =>
    cases w with
    | nil => simp [lexLt] at hgt
    | cons b w' =>
      simp only [matchRangeStart, canMatch_of_accept A hA s _ hacc, Bool.not_true, Bool.false_eq_true,
        if_false]
      rcases (lexLt_cons_iff kb b rest w').mp hgt with h | ⟨e, h⟩
      · rw [anyByte_of A s (kb.toNat + 1) 256 b (by omega) b.toNat_lt (canMatch_of_accept A hA _ w' hacc)]
        simp
      · subst e
        split
        · rfl
        · exact ih (A.step s kb) w' hacc h

/-- non-empty keys at or below `end` (relative to state `s`) -/
theorem matchRangeEnd_sound (A : Automaton σ) (hA : A.CanMatchSound) (endK : Key) (s : σ) (w : Key)
    (hacc : A.accept (A.run s w) = true) (hne : w ≠ []) (hle : lexLe w endK = true) :
    matchRangeEnd A endK s = true := by
  induction endK generalizing s w with
  | nil =>
    cases w with
    | nil => exact absurd rfl hne
    | cons b w' => simp [lexLe, lexLt] at hle
  | cons kb rest ih =>
    cases w with
    | nil => exact absurd rfl hne
    | cons b w' =>
      simp only [matchRangeEnd, canMatch_of_accept A hA s _ hacc, Bool.not_true, Bool.false_eq_true,
        if_false]
      rcases (lexLe_cons_iff b kb w' rest).mp hle with h | ⟨e, h⟩
      · rw [anyByte_of A s 0 kb.toNat b (Nat.zero_le _) h (canMatch_of_accept A hA _ w' hacc)]
        simp
      · subst e
        split
        · rfl
        · split
          · rfl
          · rename_i hnacc
            apply ih (A.step s b) w' hacc ?_ h
            intro e; subst e
            exact hnacc hacc

/-- a key between two keys shares their common prefix -/
theorem sandwich_take (start key endK : Key) (h1 : lexLe start key = true) (h2 : lexLe key endK = true) :
    key.take (cpl start endK) = start.take (cpl start endK) := by
  induction start generalizing key endK with
  | nil => simp [cpl]
  | cons a as ih =>
    cases endK with
    | nil => simp [cpl]
    | cons e es =>
      by_cases hae : a = e
      · subst hae
        cases key with
        | nil => simp [lexLe, lexLt] at h1
        | cons k ks =>
          have hc : cpl (a :: as) (a :: es) = cpl as es + 1 := by simp [cpl]
          rcases (lexLe_cons_iff a k as ks).mp h1 with h | ⟨e1, h1'⟩
          · rcases (lexLe_cons_iff k a ks es).mp h2 with h' | ⟨e2, _⟩
            · omega
            · subst e2; omega
          · subst e1
            rcases (lexLe_cons_iff a a ks es).mp h2 with h' | ⟨_, h2'⟩
            · omega
            · rw [hc]; simp [ih ks es h1' h2']
      · simp [cpl, hae]

theorem lexLe_append_left (p a b : Key) : lexLe (p ++ a) (p ++ b) = lexLe a b := by
  simp [lexLe, lexLt_append_left]

/-- mirrors the claim of can_block_match_automaton_with_start: an accepted key in `(start, end]`
makes the test succeed -/
theorem withStart_sound (A : Automaton σ) (hA : A.CanMatchSound) (start endK key : Key)
    (h1 : lexLt start key = true) (h2 : lexLe key endK = true) (hacc : A.accepts key = true) :
    canBlockMatchWithStart A start endK = true := by
  have hse : lexLt start endK = true := lexLt_of_lt_of_le h1 h2
  have hsand := sandwich_take start key endK (lexLe_of_lt h1) h2
  have hkey : key = start.take (cpl start endK) ++ key.drop (cpl start endK) := by
    rw [← hsand]; simp
  have hstart : start = start.take (cpl start endK) ++ start.drop (cpl start endK) := by simp
  have hend : endK = start.take (cpl start endK) ++ endK.drop (cpl start endK) := by
    rw [cpl_take]; simp
  have hacc' : A.accept (A.run (A.run A.start (start.take (cpl start endK))) (key.drop (cpl start endK))) = true := by
    rw [← run_append, ← hkey]; exact hacc
  have hlt' : lexLt (start.drop (cpl start endK)) (key.drop (cpl start endK)) = true := by
    have := h1
    rw [hstart, hkey, lexLt_append_left] at this
    simpa using this
  have hle' : lexLe (key.drop (cpl start endK)) (endK.drop (cpl start endK)) = true := by
    rw [← lexLe_append_left (start.take (cpl start endK)), ← hkey, ← hend]
    exact h2
  unfold canBlockMatchWithStart
  simp only [hse, Bool.not_true, Bool.false_eq_true, if_false,
    canMatch_of_accept A hA _ _ hacc']
  generalize hw : key.drop (cpl start endK) = w at hacc' hlt' hle'
  generalize hbase : A.run A.start (start.take (cpl start endK)) = base at hacc'
  cases hs : start[cpl start endK]? with
  | none =>
    simp only
    have hd : start.drop (cpl start endK) = [] := by
      rw [List.drop_eq_nil_iff]; exact List.getElem?_eq_none_iff.mp hs
    rw [hd] at hlt'
    have hne : w ≠ [] := (lexLt_nil_iff w).mp hlt'
    exact matchRangeEnd_sound A hA _ base w hacc' hne hle'
  | some sr =>
    have hslt : cpl start endK < start.length := (List.getElem?_eq_some_iff.mp hs).1
    have hsr : start[cpl start endK] = sr := (List.getElem?_eq_some_iff.mp hs).2
    rcases (lexLt_iff_cpl start endK).mp hse with ⟨e, _⟩ | ⟨_, helt, hbyte⟩
    · omega
    · have he : endK[cpl start endK]? = some endK[cpl start endK] := List.getElem?_eq_getElem helt
      simp only [he]
      have hds : start.drop (cpl start endK) = sr :: start.drop (cpl start endK + 1) := by
        rw [List.drop_eq_getElem_cons hslt, hsr]
      have hde : endK.drop (cpl start endK) = endK[cpl start endK] :: endK.drop (cpl start endK + 1) :=
        List.drop_eq_getElem_cons helt
      rw [hds] at hlt'
      rw [hde] at hle'
      rw [hsr] at hbyte
      generalize endK[cpl start endK] = er at hle' hbyte
      cases w with
      | nil => simp [lexLt] at hlt'
      | cons b w' =>
        rw [run_cons] at hacc'
        have hcb : A.canMatch (A.step base b) = true := canMatch_of_accept A hA _ w' hacc'
        rcases (lexLt_cons_iff sr b _ w').mp hlt' with hsb | ⟨esb, hsw⟩
        · rcases (lexLe_cons_iff b er w' _).mp hle' with hbe | ⟨ebe, hwe⟩
          · rw [anyByte_of A base (sr.toNat + 1) er.toNat b (by omega) hbe hcb]; simp
          · subst ebe
            split
            · rfl
            · split
              · rfl
              · split
                · rfl
                · rename_i hnacc
                  apply matchRangeEnd_sound A hA _ _ w' hacc' ?_ hwe
                  intro e; subst e; exact hnacc hacc'
        · subst esb
          rcases (lexLe_cons_iff sr er w' _).mp hle' with hbe | ⟨ebe, _⟩
          · split
            · rfl
            · rw [matchRangeStart_sound A hA _ _ w' hacc' hsw]; simp
          · subst ebe; omega

/-- soundness of `can_block_match_automaton`: if a key of the block — above the previous
separator (if any) and at most the block's separator — is accepted, the block is kept -/
theorem canBlockMatch_sound (A : Automaton σ) (hA : A.CanMatchSound) (start : Option Key)
    (endK key : Key) (h1 : ∀ s, start = some s → lexLt s key = true) (h2 : lexLe key endK = true)
    (hacc : A.accepts key = true) : canBlockMatch A start endK = true := by
  unfold canBlockMatch
  cases start with
  | some s => exact withStart_sound A hA s endK key (h1 s rfl) h2 hacc
  | none =>
    simp only
    split
    · rfl
    · rename_i hn
      apply withStart_sound A hA [] endK key ?_ h2 hacc
      apply (lexLt_nil_iff key).mpr
      intro e; subst e
      exact hn hacc

end TantivyModel.SSTable
