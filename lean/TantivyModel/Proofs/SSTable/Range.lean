import TantivyModel.Proofs.SSTable.View
/-! range streams: the streamer over the loaded blocks = specification range (list level) -/
namespace TantivyModel.SSTable
open TantivyModel

/-- the automaton of `AlwaysMatch` -/
def allAut : Automaton Unit := ⟨(), fun _ _ => (), fun _ => true, fun _ => true⟩

theorem allAut_accepts (k : Key) : allAut.accepts k = true := by
  simp [Automaton.accepts, allAut]

/-- the specification range with the true ordinals -/
def fullStream {V} (m : Assoc V) (lo hi : Bound) : List (Nat × Key × V) := streamSpec allAut lo hi 0 m

theorem fullStream_range {V} (m : Assoc V) (lo hi : Bound) :
    (fullStream m lo hi).map (fun p => (p.2.1, p.2.2)) = range m lo hi := by
  unfold fullStream
  rw [streamSpec_map_snd]
  unfold range passes
  congr 1; funext e; simp [allAut_accepts]

variable {σ V : Type}

theorem streamSpec_append (A : Automaton σ) (lo hi : Bound) (o : Nat) (xs ys : Assoc V) :
    streamSpec A lo hi o (xs ++ ys) = streamSpec A lo hi o xs ++ streamSpec A lo hi (o + xs.length) ys := by
  induction xs generalizing o with
  | nil => simp [streamSpec]
  | cons e rest ih =>
    rw [List.cons_append, streamSpec_cons, streamSpec_cons, ih (o + 1)]
    simp [Nat.add_assoc, Nat.add_comm 1]

theorem streamSpec_nil_of_lo (A : Automaton σ) (lo hi : Bound) (o : Nat) (xs : Assoc V)
    (h : ∀ e ∈ xs, matchLo lo e.1 = false) : streamSpec A lo hi o xs = [] := by
  induction xs generalizing o with
  | nil => rfl
  | cons e rest ih =>
    rw [streamSpec_cons, ih (o + 1) (fun x hx => h x (List.mem_cons_of_mem _ hx))]
    simp [h e (by simp)]

theorem streamSpec_length (A : Automaton σ) (lo hi : Bound) (o : Nat) (xs : Assoc V) :
    (streamSpec A lo hi o xs).length = (xs.filter (fun e => passes A lo hi e.1)).length := by
  rw [← streamSpec_map_snd A lo hi o xs, List.length_map]

theorem streamSpec_length_all (lo hi : Bound) (o : Nat) (xs : Assoc V)
    (h1 : ∀ e ∈ xs, matchLo lo e.1 = true) (h2 : ∀ e ∈ xs, matchHi hi e.1 = true) :
    (streamSpec allAut lo hi o xs).length = xs.length := by
  rw [streamSpec_length]
  congr 1
  rw [List.filter_eq_self]
  intro e he
  simp [passes, h1 e he, h2 e he, allAut_accepts]

/-- the stream over the loaded part `S` of `m = A ++ S ++ C` (everything in `A` below the lower
bound) is the specification stream minus what `C` would add -/
theorem range_core (lo hi : Bound) (A S C : Assoc V) (hs : StrictInc (keys (A ++ S ++ C)))
    (hA : ∀ e ∈ A, matchLo lo e.1 = false) :
    fullStream (A ++ S ++ C) lo hi
      = scanStream lo hi false A.length S ++ streamSpec allAut lo hi (A.length + S.length) C := by
  have hS : StrictInc (keys S) := (sorted_append_lt (sorted_append_lt hs).1).2.1
  unfold fullStream
  rw [streamSpec_append, streamSpec_append, streamSpec_nil_of_lo allAut lo hi 0 A hA]
  rw [scanStream_eq_scanSearch allAut allAut_accepts, scanSearch_filter allAut lo hi _ S hS]
  simp

/-- enough entries for a limit: if the tail `S2` of the loaded part passes the lower bound and has
at least `l` entries, either the stream already holds `l` entries or nothing was cut off -/
theorem range_enough (lo hi : Bound) (A S1 S2 C : Assoc V) (l : Nat)
    (hs : StrictInc (keys (A ++ (S1 ++ S2) ++ C)))
    (h2 : ∀ e ∈ S2, matchLo lo e.1 = true) (hl : l ≤ S2.length) :
    streamSpec allAut lo hi (A.length + (S1 ++ S2).length) C = [] ∨
      l ≤ (scanStream lo hi false A.length (S1 ++ S2)).length := by
  have hS : StrictInc (keys (S1 ++ S2)) := (sorted_append_lt (sorted_append_lt hs).1).2.1
  by_cases hallb : S2.all (fun e => matchHi hi e.1) = true
  · right
    have hall : ∀ e ∈ S2, matchHi hi e.1 = true := by simpa [List.all_eq_true] using hallb
    rw [scanStream_eq_scanSearch allAut allAut_accepts, scanSearch_filter allAut lo hi _ _ hS,
      streamSpec_append, List.length_append, streamSpec_length_all lo hi _ S2 h2 hall]
    omega
  · left
    have : ∃ e ∈ S2, matchHi hi e.1 = false := by
      have hf : S2.all (fun e => matchHi hi e.1) = false := by simpa using hallb
      rw [List.all_eq_false] at hf
      obtain ⟨e, he, hne⟩ := hf
      exact ⟨e, he, by simpa using hne⟩
    obtain ⟨e, he, hfail⟩ := this
    apply streamSpec_nil_of_hi
    intro c hc
    have hlt : lexLt e.1 c.1 = true :=
      (sorted_append_lt hs).2.2 e (by simp [he]) c hc
    exact matchHi_anti hfail hlt

theorem matchLo_false_of_lt {lo : Bound} {k a : Key} (hk : lo.key? = some k) (h : lexLt a k = true) :
    matchLo lo a = false := by
  cases lo with
  | unbounded => simp [Bound.key?] at hk
  | incl b => simp [Bound.key?] at hk; subst hk; simp [matchLo, lexLe, h]
  | excl b => simp [Bound.key?] at hk; subst hk; simp [matchLo, lexLt_asymm h]

theorem matchLo_true_of_gt {lo : Bound} {k a : Key} (hk : lo.key? = some k) (h : lexLt k a = true) :
    matchLo lo a = true := by
  cases lo with
  | unbounded => rfl
  | incl b => simp [Bound.key?] at hk; subst hk; exact lexLe_of_lt h
  | excl b => simp [Bound.key?] at hk; subst hk; exact h

theorem matchHi_false_of_gt {hi : Bound} {k a : Key} (hk : hi.key? = some k) (h : lexLt k a = true) :
    matchHi hi a = false := by
  cases hi with
  | unbounded => simp [Bound.key?] at hk
  | incl b => simp [Bound.key?] at hk; subst hk; simp [matchHi, lexLe, h]
  | excl b => simp [Bound.key?] at hk; subst hk; simp [matchHi, lexLt_asymm h]

theorem matchLo_unbounded {lo : Bound} (hk : lo.key? = none) (a : Key) : matchLo lo a = true := by
  cases lo <;> simp [Bound.key?] at hk; rfl

/-! ### list algebra on block lists -/

theorem flatE_take_drop {V} (bl : List (Block V)) (f c : Nat) :
    flatE bl = flatE (bl.take f) ++ flatE ((bl.drop f).take c) ++ flatE (bl.drop (f + c)) := by
  conv => lhs; rw [← List.take_append_drop f bl, ← List.take_append_drop c (bl.drop f)]
  rw [flatE_append, flatE_append, List.drop_drop, List.append_assoc]

theorem flatE_take_mono {V} (bl : List (Block V)) (i j : Nat) (h : i ≤ j) :
    (flatE (bl.take i)).length ≤ (flatE (bl.take j)).length := by
  have : bl.take j = bl.take i ++ (bl.drop i).take (j - i) := by
    rw [← List.take_add]; congr 1; omega
  rw [this, flatE_append, List.length_append]; omega

theorem flatE_drop_len {V} (bl : List (Block V)) (n : Nat) (h : bl.length ≤ n) : flatE (bl.drop n) = [] := by
  rw [List.drop_eq_nil_of_le h]; rfl

end TantivyModel.SSTable
