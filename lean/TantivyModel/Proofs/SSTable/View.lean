import TantivyModel.Proofs.SSTable.OrdToTerm
import TantivyModel.Proofs.SSTable.Stream
/-! the facts about the addressable block list that range streams use -/
namespace TantivyModel.SSTable
open TantivyModel

def flatE {V} (bs : List (Block V)) : Assoc V := (bs.map (·.entries)).flatten

theorem flatE_append {V} (a b : List (Block V)) : flatE (a ++ b) = flatE a ++ flatE b := by
  simp [flatE]

theorem flatE_cons {V} (a : Block V) (b : List (Block V)) : flatE (a :: b) = a.entries ++ flatE b := by
  simp [flatE]

theorem split_at_index {α} (l : List α) (i : Nat) (b : α) (h : l[i]? = some b) :
    l = l.take i ++ b :: l.drop (i + 1) := by
  have hi : i < l.length := (List.getElem?_eq_some_iff.mp h).1
  have hb : l[i] = b := (List.getElem?_eq_some_iff.mp h).2
  conv => lhs; rw [← List.take_append_drop i l, List.drop_eq_getElem_cons hi, hb]

theorem mkBlocks_firstOrd_take {V} (o : Nat) (bs : List (Assoc V)) (i : Nat) (b : Block V)
    (h : (mkBlocks o bs (sepsOf bs))[i]? = some b) :
    b.firstOrd = o + (flatE ((mkBlocks o bs (sepsOf bs)).take i)).length := by
  induction bs generalizing o i with
  | nil => simp [mkBlocks] at h
  | cons b0 rest ih =>
    obtain ⟨s, hs⟩ := mkBlocks_cons o b0 rest
    rw [hs] at h ⊢
    cases i with
    | zero => simp at h; subst h; simp [flatE]
    | succ j =>
      simp only [List.getElem?_cons_succ] at h
      rw [ih (o + b0.length) j h]
      simp [flatE_cons, List.take_succ_cons]; omega

/-- everything a range stream needs to know about the dictionary built from `m` -/
structure BlockView {V} (d : Dict V) (m : Assoc V) : Prop where
  flat : flatE d.blockList = m
  firstOrd : ∀ i b, d.blockList[i]? = some b → b.firstOrd = (flatE (d.blockList.take i)).length
  at_ : ∀ i, d.blockAt i = d.blockList[i]?
  nbLen : d.nb = d.blockList.length
  nbPos : 0 < d.nb
  below : ∀ k f, d.locateKey k = some f → ∀ e ∈ flatE (d.blockList.take f), lexLt e.1 k = true
  above : ∀ k l, d.locateKey k = some l → ∀ e ∈ flatE (d.blockList.drop (l + 1)), lexLt k e.1 = true
  noneBelow : ∀ k, d.locateKey k = none → ∀ e ∈ m, lexLt e.1 k = true
  locLt : ∀ k f, d.locateKey k = some f → f < d.nb
  nonempty : d.single = false → ∀ b ∈ d.blockList, b.entries ≠ []
  locOrd : ∀ o, d.locateOrd o < d.nb ∧
    (∀ b, d.blockList[d.locateOrd o]? = some b → b.firstOrd ≤ o) ∧
    (∀ b', d.blockList[d.locateOrd o + 1]? = some b' → o < b'.firstOrd)

theorem build_blocks_eq {V} (L : Nat) (m : Assoc V) :
    (build L m).blocks = mkBlocks 0 (blocksOf (fun e : Key × V => e.1) L m)
      (sepsOf (blocksOf (fun e : Key × V => e.1) L m)) := rfl

theorem build_locOrd {V} (L : Nat) (m : Assoc V)
    (hat : ∀ i, (build L m).blockAt i = (build L m).blockList[i]?)
    (hnb : (build L m).nb = (build L m).blockList.length) (o : Nat) :
    (build L m).locateOrd o < (build L m).nb ∧
    (∀ b, (build L m).blockList[(build L m).locateOrd o]? = some b → b.firstOrd ≤ o) ∧
    (∀ b', (build L m).blockList[(build L m).locateOrd o + 1]? = some b' → o < b'.firstOrd) := by
  obtain ⟨h1, _, h3, h4⟩ := openForOrd_spec L m o
  rw [hat] at h4
  refine ⟨?_, ?_, ?_⟩
  · rw [hnb]; exact (List.getElem?_eq_some_iff.mp h4).1
  · intro b hb; rw [h4] at hb; cases hb; exact h1
  · intro b' hb'
    have hs : ((build L m).blockAt ((build L m).locateOrd o + 1)).isSome = true := by rw [hat, hb']; rfl
    have := h3 hs
    simpa [Dict.openForOrd, hat, hb'] using this

theorem build_view {V} (L : Nat) (m : Assoc V) (hs : SortedMap m) : BlockView (build L m) m := by
  have hfl : (blocksOf (fun e : Key × V => e.1) L m).flatten = m := blocksOf_flatten _ L m
  have hent := mkBlocks_entries (blocksOf (fun e : Key × V => e.1) L m) 0
  have hflatAll : flatE (build L m).blocks = m := by
    unfold flatE; rw [build_blocks_eq, hent, hfl]
  have hatG : ∀ i, (build L m).blockAt i = (build L m).blockList[i]? := by
    intro i
    unfold Dict.blockAt Dict.blockList
    by_cases h : (build L m).single = true
    · simp only [h, if_true]; cases i <;> simp
    · simp [h]
  have hnbG : (build L m).nb = (build L m).blockList.length := by
    unfold Dict.nb Dict.blockList
    by_cases h : (build L m).single = true <;> simp [h]
  by_cases hsingle : (build L m).single = true
  · -- zero or one block
    have hlen : (build L m).blocks.length ≤ 1 := by simpa [Dict.single] using hsingle
    have hBL : (build L m).blockList = [(build L m).blocks.headD ⟨[], 0, []⟩] := by
      simp [Dict.blockList, hsingle]
    have hhead : ((build L m).blocks.headD ⟨[], 0, []⟩).entries = m ∧
        ((build L m).blocks.headD ⟨[], 0, []⟩).firstOrd = 0 := by
      rw [build_blocks_eq] at hlen hflatAll ⊢
      rw [mkBlocks_length] at hlen
      generalize blocksOf (fun e : Key × V => e.1) L m = bs at *
      match bs, hlen with
      | [], _ => simp [mkBlocks, flatE] at hflatAll ⊢; exact hflatAll
      | [b0], _ => simp [mkBlocks, sepsOf, flatE] at hflatAll ⊢; exact hflatAll
      | _ :: _ :: _, h => simp at h
    refine ⟨?_, ?_, ?_, ?_, ?_, ?_, ?_, ?_, ?_, ?_, build_locOrd L m hatG hnbG⟩
    · rw [hBL]; simpa [flatE] using hhead.1
    · intro i b hb
      rw [hBL] at hb ⊢
      cases i with
      | zero => simp at hb; subst hb; simpa [flatE] using hhead.2
      | succ j => simp at hb
    · intro i
      rw [hBL]
      unfold Dict.blockAt
      simp only [hsingle, if_true]
      cases i <;> simp
    · simp [Dict.nb, hsingle, hBL]
    · simp [Dict.nb, hsingle]
    · intro k f hf
      have : f = 0 := by simpa [Dict.locateKey, hsingle] using hf.symm
      subst this; simp [flatE]
    · intro k l hl
      have : l = 0 := by simpa [Dict.locateKey, hsingle] using hl.symm
      subst this; rw [hBL]; simp [flatE]
    · intro k hk; simp [Dict.locateKey, hsingle] at hk
    · intro k f hf
      have : f = 0 := by simpa [Dict.locateKey, hsingle] using hf.symm
      subst this; simp [Dict.nb, hsingle]
    · intro h; rw [h] at hsingle; cases hsingle
  · have hsingle' : (build L m).single = false := by simpa using hsingle
    have hBL : (build L m).blockList = (build L m).blocks := by simp [Dict.blockList, hsingle']
    have hat : ∀ i, (build L m).blockAt i = (build L m).blocks[i]? := by
      intro i; simp [Dict.blockAt, hsingle']
    have hloc : ∀ k f, (build L m).locateKey k = some f → f < (build L m).blocks.length := by
      intro k f hf
      simp only [Dict.locateKey, hsingle', Bool.false_eq_true, if_false] at hf
      exact findIdx?_lt _ _ f hf
    refine ⟨by rw [hBL]; exact hflatAll, ?_, by rw [hBL]; exact hat, by simp [Dict.nb, hsingle', hBL],
      ?_, ?_, ?_, ?_, ?_, ?_, build_locOrd L m hatG hnbG⟩
    · intro i b hb
      rw [hBL] at hb ⊢
      rw [build_blocks_eq] at hb ⊢
      simpa using mkBlocks_firstOrd_take 0 _ i b hb
    · have : ¬ (build L m).blocks.length ≤ 1 := by simpa [Dict.single] using hsingle'
      simp [Dict.nb, hsingle']; omega
    · intro k f hf e he
      have hlt := hloc k f hf
      obtain ⟨b, hb⟩ : ∃ b, (build L m).blocks[f]? = some b := ⟨_, List.getElem?_eq_getElem hlt⟩
      have hbind : ((build L m).locateKey k).bind (build L m).blockAt = some b := by
        rw [hf]; simp [hat, hb]
      obtain ⟨pre, post, ha, hfo⟩ := dict_split L m hs k b hbind
      rw [hBL] at he
      have hdec := split_at_index _ f b hb
      have hm : m = flatE ((build L m).blocks.take f) ++ (b.entries ++ flatE ((build L m).blocks.drop (f + 1))) := by
        conv => lhs; rw [← hflatAll, hdec, flatE_append, flatE_cons]
      have hfo' : b.firstOrd = (flatE ((build L m).blocks.take f)).length := by
        have := mkBlocks_firstOrd_take 0 _ f b (by rw [← build_blocks_eq]; exact hb)
        rw [← build_blocks_eq] at this; simpa using this
      have heq : pre = flatE ((build L m).blocks.take f) := by
        have h1 : pre ++ (b.entries ++ post) = flatE ((build L m).blocks.take f) ++ (b.entries ++ flatE ((build L m).blocks.drop (f + 1))) := by
          rw [← hm, ha.eq]; simp
        exact List.append_inj_left h1 (by omega)
      rw [← heq] at he
      exact ha.below e he
    · intro k l hl e he
      have hlt := hloc k l hl
      obtain ⟨b, hb⟩ : ∃ b, (build L m).blocks[l]? = some b := ⟨_, List.getElem?_eq_getElem hlt⟩
      have hbind : ((build L m).locateKey k).bind (build L m).blockAt = some b := by
        rw [hl]; simp [hat, hb]
      obtain ⟨pre, post, ha, hfo⟩ := dict_split L m hs k b hbind
      rw [hBL] at he
      have hdec := split_at_index _ l b hb
      have hm : m = flatE ((build L m).blocks.take l) ++ (b.entries ++ flatE ((build L m).blocks.drop (l + 1))) := by
        conv => lhs; rw [← hflatAll, hdec, flatE_append, flatE_cons]
      have hfo' : b.firstOrd = (flatE ((build L m).blocks.take l)).length := by
        have := mkBlocks_firstOrd_take 0 _ l b (by rw [← build_blocks_eq]; exact hb)
        rw [← build_blocks_eq] at this; simpa using this
      have h1 : pre ++ (b.entries ++ post) = flatE ((build L m).blocks.take l) ++ (b.entries ++ flatE ((build L m).blocks.drop (l + 1))) := by
        rw [← hm, ha.eq]; simp
      have hpre : pre = flatE ((build L m).blocks.take l) := List.append_inj_left h1 (by omega)
      have hpost : post = flatE ((build L m).blocks.drop (l + 1)) := by
        rw [hpre] at h1
        have := List.append_cancel_left h1
        exact List.append_cancel_left this
      rw [← hpost] at he
      exact ha.above e he
    · intro k hk
      apply dict_none L m hs k
      rw [hk]; rfl
    · intro k f hf
      have := hloc k f hf
      simp [Dict.nb, hsingle']; exact this
    · intro _ b hb
      rw [hBL] at hb
      have hg := build_good L m hs
      have : b.entries ∈ (build L m).blocks.map (·.entries) := List.mem_map_of_mem hb
      rw [build_blocks_eq, hent] at this
      exact hg.nonempty _ this

end TantivyModel.SSTable
