import TantivyModel.Proofs.SSTable.WriterStore
/-! the 56-bit cut-off of `compute_num_bits` is never reached for offsets and ordinals below 2^55:
the written store is lossless under plain size bounds -/
namespace TantivyModel.SSTable
open TantivyModel

theorem deviation_lt (slope i v : Nat) (hs : slope < 4294967296) (hi : i ≤ 129) (hv : v < 2 ^ 55) :
    deviation slope i v < 2 ^ 55 := by
  have h := Nat.mul_le_mul (show slope ≤ 4294967295 by omega) hi
  unfold deviation
  split <;> omega

theorem findBestSlope_slope_lt (els : List (Nat × Nat)) : (findBestSlope els).1 < 4294967296 := by
  show _ % 4294967296 < _
  exact Nat.mod_lt _ (by decide)

theorem maxDeviation_lt (slope : Nat) (els : List (Nat × Nat)) (hs : slope < 4294967296)
    (h : ∀ e ∈ els, e.1 ≤ 129 ∧ e.2 < 2 ^ 55) : maxDeviation slope els < 2 ^ 56 := by
  show (els.map (fun e => deviation slope e.1 e.2)).foldl max 0 < 2 ^ 56
  rcases foldl_max_attained (els.map (fun e => deviation slope e.1 e.2)) 0 with h0 | hmem
  · rw [h0]; decide
  · obtain ⟨e, he, hev⟩ := List.mem_map.mp hmem
    rw [← hev]
    have := deviation_lt slope e.1 e.2 hs (h e he).1 (h e he).2
    omega

theorem mem_zipIdx_bound {α} (l : List α) (k : Nat) (p : α × Nat) (h : p ∈ l.zipIdx k) :
    p.1 ∈ l ∧ k ≤ p.2 ∧ p.2 < k + l.length := by
  induction l generalizing k with
  | nil => simp at h
  | cons a r ih =>
    rw [List.zipIdx_cons] at h
    rcases List.mem_cons.mp h with rfl | h'
    · simp
    · obtain ⟨h1, h2, h3⟩ := ih (k + 1) h'
      refine ⟨List.mem_cons_of_mem _ h1, by omega, ?_⟩
      simp only [List.length_cons]; omega

/-- in a chain of non-negative ranges the starts never go down -/
theorem chain_start_le (a : BlockAddr) (r : List BlockAddr) (hch : Chained (a :: r))
    (hle : ∀ x ∈ a :: r, x.start ≤ x.stop) : ∀ b ∈ r, a.start ≤ b.start := by
  induction r generalizing a with
  | nil => intro b hb; simp at hb
  | cons c r' ih =>
    intro b hb
    have hac : a.start ≤ c.start := by
      have := hle a (by simp)
      rw [hch.1] at this; exact this
    rcases List.mem_cons.mp hb with rfl | hb'
    · exact hac
    · have := ih c hch.2 (fun x hx => hle x (List.mem_cons_of_mem _ hx)) b hb'
      omega

theorem getLast?_getD_mem (ref : BlockAddr) (more : List BlockAddr) :
    more.getLast?.getD ref ∈ ref :: more := by
  cases h : more.getLast? with
  | none => simp
  | some x =>
    simp only [Option.getD_some]
    exact List.mem_cons_of_mem _ (List.mem_of_getLast? h)

/-- a flushed chunk with offsets and ordinals below 2^55 meets every condition of the store block -/
theorem chunk_group_ok (ref : BlockAddr) (more : List BlockAddr)
    (hch : Chained (ref :: more)) (hlen : more.length + 1 ≤ 128)
    (hle : ∀ x ∈ ref :: more, x.start ≤ x.stop)
    (hsmall : ∀ x ∈ ref :: more, x.stop < 2 ^ 55 ∧ x.firstOrd < 2 ^ 55)
    (hmono : ((ref :: more).map (·.firstOrd)).Pairwise (· ≤ ·)) :
    WriterGroupOk ref more (more.getLast?.getD ref).stop := by
  have hstarts := chain_start_le ref more hch hle
  have hlastmem := getLast?_getD_mem ref more
  have hlast_ge : ref.start ≤ (more.getLast?.getD ref).stop := by
    have h1 := hle _ hlastmem
    rcases List.mem_cons.mp hlastmem with e | hm
    · rw [e] at h1 ⊢; exact h1
    · have := hstarts _ hm; omega
  refine ⟨?_, ?_, ?_, ?_⟩
  · intro j _
    unfold startAt
    cases hj : more[j]? with
    | none => exact hlast_ge
    | some a => exact hstarts a (List.mem_of_getElem? hj)
  · intro a ha
    simp only [List.map_cons, List.pairwise_cons] at hmono
    exact hmono.1 _ (List.mem_map.mpr ⟨a, ha, rfl⟩)
  · apply numBits_le_56
    apply maxDeviation_lt _ _ (findBestSlope_slope_lt _)
    intro e he
    unfold rangeEls at he
    rcases List.mem_append.mp he with h1 | h1
    · obtain ⟨p, hp, rfl⟩ := List.mem_map.mp h1
      obtain ⟨hm, _, hb⟩ := mem_zipIdx_bound more 1 p hp
      have := (hsmall p.1 (List.mem_cons_of_mem _ hm)).1
      have := hle p.1 (List.mem_cons_of_mem _ hm)
      exact ⟨by simp only; omega, by simp only; omega⟩
    · simp only [List.mem_singleton] at h1
      subst h1
      have := (hsmall _ hlastmem).1
      exact ⟨by simp only; omega, by simp only; omega⟩
  · apply numBits_le_56
    apply maxDeviation_lt _ _ (findBestSlope_slope_lt _)
    intro e he
    unfold ordEls at he
    obtain ⟨p, hp, rfl⟩ := List.mem_map.mp he
    obtain ⟨hm, _, hb⟩ := mem_zipIdx_bound more 1 p hp
    have := (hsmall p.1 (List.mem_cons_of_mem _ hm)).2
    exact ⟨by simp only; omega, by simp only; omega⟩

theorem chunksOf_sublist (n fuel : Nat) (l : List BlockAddr) :
    ∀ c ∈ chunksOf n fuel l, c.Sublist l := by
  induction fuel generalizing l with
  | zero => intro c hc; simp [chunksOf] at hc
  | succ f ih =>
    cases l with
    | nil => intro c hc; simp [chunksOf] at hc
    | cons a r =>
      intro c hc
      have hck : chunksOf n (f + 1) (a :: r) = (a :: r).take n :: chunksOf n f ((a :: r).drop n) := rfl
      rw [hck] at hc
      rcases List.mem_cons.mp hc with rfl | hc'
      · exact List.take_sublist _ _
      · exact (ih _ c hc').trans (List.drop_sublist _ _)

/-- the conditions of the written store follow from plain size bounds: offsets and ordinals below
2^55, non-negative ranges, non-decreasing ordinals, and the store itself below 2^64 bytes -/
theorem writerStoreOk_of_small (addrs : List BlockAddr) (hch : Chained addrs)
    (hle : ∀ a ∈ addrs, a.start ≤ a.stop)
    (hsmall : ∀ a ∈ addrs, a.stop < 2 ^ 55 ∧ a.firstOrd < 2 ^ 55)
    (hmono : (addrs.map (·.firstOrd)).Pairwise (· ≤ ·))
    (hsize : META_SIZE * (writerStore addrs).length < 2 ^ 64)
    (hoff : ∀ k, offsetOf (writerStore addrs) k < 2 ^ 64) : WriterStoreOk addrs := by
  obtain ⟨_, h2, _, _, h5⟩ := chunksOf_spec Gen.STORE_BLOCK_LEN (by decide) addrs.length addrs (Nat.le_refl _)
  have hsub := chunksOf_sublist Gen.STORE_BLOCK_LEN addrs.length addrs
  -- every group is the group of a chunk with the good properties
  have hgrp : ∀ g ∈ writerStore addrs, WriterGroupOk g.ref g.more g.lastStop ∧ g.more.length + 1 ≤ 128 := by
    intro g hg
    unfold writerStore at hg
    obtain ⟨c, hc, rfl⟩ := List.mem_map.mp hg
    have hcs := hsub c hc
    cases c with
    | nil => exact absurd rfl (h2 [] hc).1
    | cons ref more =>
      have hl : more.length + 1 ≤ 128 := by
        have := (h2 _ hc).2
        have hB : Gen.STORE_BLOCK_LEN = 128 := rfl
        simp only [List.length_cons, hB] at this
        exact this
      refine ⟨?_, hl⟩
      exact chunk_group_ok ref more (h5 hch _ hc) hl
        (fun x hx => hle x (hcs.subset hx)) (fun x hx => hsmall x (hcs.subset hx))
        ((hmono.sublist (hcs.map _)))
  refine ⟨hsize, fun g hg => (hgrp g hg).1, ?_⟩
  intro k g hk
  have hg := List.mem_of_getElem? hk
  obtain ⟨hok, hl⟩ := hgrp g hg
  -- g is a `mkGroup` of its own fields
  unfold writerStore at hg
  obtain ⟨c, hc, hgc⟩ := List.mem_map.mp hg
  have hmk : g = mkGroup g.ref g.more g.lastStop := by
    rw [← hgc]; exact groupOfChunk_eq_mkGroup c (h2 c hc).1
  have hrefmem : g.ref ∈ addrs := by
    have hcs := hsub c hc
    cases c with
    | nil => exact absurd rfl (h2 [] hc).1
    | cons ref more => rw [← hgc]; exact hcs.subset (by simp [groupOfChunk, mkGroup])
  have fr := findBestSlope_fits (rangeEls g.ref g.more g.lastStop) hok.range56
  have fo := findBestSlope_fits (ordEls g.ref g.more) hok.ord56
  have h1 := hle _ hrefmem
  have h3 := hsmall _ hrefmem
  refine ⟨hoff k, by omega, by omega, ?_, ?_, ?_, ?_, by omega⟩
  · rw [hmk]; exact findBestSlope_slope_lt _
  · rw [hmk]; exact findBestSlope_slope_lt _
  · rw [hmk]; show (findBestSlope (ordEls g.ref g.more)).2 < 256; omega
  · rw [hmk]; show (findBestSlope (rangeEls g.ref g.more g.lastStop)).2 < 256; omega

end TantivyModel.SSTable
