import TantivyModel.Proofs.SSTable.View
import TantivyModel.Proofs.SSTable.AddrStoreProofs
/-! first ordinals of the built dictionary: the data `binary_search_ord` searches -/
namespace TantivyModel.SSTable
open TantivyModel

theorem mkBlocks_firstOrd_pairwise {V} (o : Nat) (bs : List (Assoc V)) (hne : ∀ b ∈ bs, b ≠ []) :
    ((mkBlocks o bs (sepsOf bs)).map (·.firstOrd)).Pairwise (· < ·) := by
  induction bs generalizing o with
  | nil => simp [mkBlocks]
  | cons b0 rest ih =>
    obtain ⟨s, hs⟩ := mkBlocks_cons o b0 rest
    rw [hs]
    simp only [List.map_cons]
    rw [List.pairwise_cons]
    refine ⟨?_, ih (o + b0.length) (fun b hb => hne b (List.mem_cons_of_mem _ hb))⟩
    intro x hx
    obtain ⟨b, hb, rfl⟩ := List.mem_map.mp hx
    have := mkBlocks_firstOrd_ge (o + b0.length) rest b hb
    have hlen : 0 < b0.length := List.length_pos_iff.mpr (hne b0 (by simp))
    omega

/-- the first ordinals of the blocks of a built dictionary are strictly increasing from 0, and
`Dict.locateOrd` is "number of first ordinals ≤ ord, minus one" over them -/
theorem build_firstOrds {V} (L : Nat) (m : Assoc V) (hs : SortedMap m)
    (hmulti : (build L m).single = false) (ord : Nat) :
    ((build L m).blocks.map (·.firstOrd)).Pairwise (· < ·) ∧
    ((build L m).blocks.map (·.firstOrd)).getD 0 0 = 0 ∧
    (build L m).locateOrd ord =
      (((build L m).blocks.map (·.firstOrd)).filter (fun x => decide (x ≤ ord))).length - 1 := by
  have hg := build_good L m hs
  refine ⟨?_, ?_, ?_⟩
  · rw [build_blocks_eq]; exact mkBlocks_firstOrd_pairwise 0 _ hg.nonempty
  · rw [build_blocks_eq]
    cases hbs : blocksOf (fun e : Key × V => e.1) L m with
    | nil => simp [mkBlocks]
    | cons b0 rest =>
      obtain ⟨s, hs'⟩ := mkBlocks_cons 0 b0 rest
      rw [hs']; simp
  · unfold Dict.locateOrd
    simp only [hmulti, Bool.false_eq_true, if_false]
    rw [List.filter_map, List.length_map]
    rfl

end TantivyModel.SSTable
