import TantivyModel.Proofs.SSTable.Inverse
/-! `term_bounds_to_ord`: key bounds become ordinal bounds selecting the same entries -/
namespace TantivyModel.SSTable
open TantivyModel

/-- in a sorted key list the keys below `k` are exactly those at positions `< rank` -/
theorem lt_iff_index_lt_rank (ks : List Key) (hs : StrictInc ks) (k : Key) (i : Nat) (a : Key)
    (h : ks[i]? = some a) :
    lexLt a k = true ↔ i < (ks.filter (fun x => lexLt x k)).length := by
  induction ks generalizing i with
  | nil => simp at h
  | cons a0 rest ih =>
    by_cases h0 : lexLt a0 k = true
    · simp only [List.filter_cons, h0, if_true, List.length_cons]
      cases i with
      | zero => simp at h; subst h; simp [h0]
      | succ j =>
        simp only [List.getElem?_cons_succ] at h
        rw [ih hs.tail j h]; omega
    · have h0' : lexLt a0 k = false := by simpa using h0
      have hge : ∀ x ∈ rest, lexLt x k = false := by
        intro x hx
        cases hx' : lexLt x k with
        | false => rfl
        | true =>
          have := lexLt_trans (hs.head_lt x hx) hx'
          rw [h0'] at this; cases this
      have hall : ∀ x ∈ a0 :: rest, lexLt x k = false := by
        intro x hx
        rcases List.mem_cons.mp hx with e | hx
        · subst e; exact h0'
        · exact hge x hx
      rw [filter_lt_nil_of_all_ge hall]
      simp [hall a (List.mem_of_getElem? h)]

theorem index_unique (ks : List Key) (hs : StrictInc ks) (k : Key) (i j : Nat)
    (hi : ks[i]? = some k) (hj : ks[j]? = some k) : i = j := by
  have h1 := findIdx?_of_getElem_sorted ks hs i k hi
  have h2 := findIdx?_of_getElem_sorted ks hs j k hj
  rw [h1] at h2; exact Option.some.inj h2

/-- what `term_ord_or_next` tells about every position of the sorted key list -/
theorem specHit_facts (ks : List Key) (hs : StrictInc ks) (k : Key) (i : Nat) (a : Key)
    (h : ks[i]? = some a) :
    (∀ o, specHit ks k = .exact o → ((lexLt a k = true ↔ i < o) ∧ (a = k ↔ i = o))) ∧
    (∀ o, specHit ks k = .next o → ((lexLt a k = true ↔ i < o) ∧ a ≠ k)) := by
  have hr := lt_iff_index_lt_rank ks hs k i a h
  cases hx : ks[(ks.filter fun x => lexLt x k).length]? with
  | none =>
    have hv : specHit ks k = .next (ks.filter fun x => lexLt x k).length := by simp [specHit, hx]
    rw [hv]
    refine ⟨fun o ho => (by cases ho), fun o ho => ?_⟩
    cases ho
    refine ⟨hr, ?_⟩
    intro e; subst e
    have hlt : i < ks.length := (List.getElem?_eq_some_iff.mp h).1
    have hge := List.getElem?_eq_none_iff.mp hx
    have : ¬ i < (ks.filter fun x => lexLt x a).length := by
      rw [← hr, lexLt_irrefl]; simp
    omega
  | some b =>
    by_cases hb : b = k
    · subst hb
      have hv : specHit ks b = .exact (ks.filter fun x => lexLt x b).length := by simp [specHit, hx]
      rw [hv]
      refine ⟨fun o ho => ?_, fun o ho => (by cases ho)⟩
      cases ho
      refine ⟨hr, ?_⟩
      constructor
      · intro e; subst e; exact index_unique ks hs a _ _ h hx
      · intro e; subst e; rw [hx] at h; exact (Option.some.inj h).symm
    · have hv : specHit ks k = .next (ks.filter fun x => lexLt x k).length := by simp [specHit, hx, hb]
      rw [hv]
      refine ⟨fun o ho => (by cases ho), fun o ho => ?_⟩
      cases ho
      refine ⟨hr, ?_⟩
      intro e; subst e
      have : ¬ i < (ks.filter fun x => lexLt x a).length := by
        rw [← hr, lexLt_irrefl]; simp
      have hlt2 := (List.getElem?_eq_some_iff.mp hx).1
      -- position `rank` holds b ≠ a, and a sits at i ≥ rank; b ≥ ... contradiction via order
      have hbk : lexLt b a = false := by
        have := lt_iff_index_lt_rank ks hs a _ b hx
        cases hb' : lexLt b a with
        | false => rfl
        | true => rw [hb'] at this; have := this.mp rfl; omega
      rcases Nat.lt_or_ge (ks.filter fun x => lexLt x a).length i with hlt3 | hge3
      · -- b before a in a sorted list: b < a
        have hp := (strictInc_iff_pairwise ks).mp hs
        have hlti : i < ks.length := (List.getElem?_eq_some_iff.mp h).1
        have := (List.pairwise_iff_getElem.mp hp) _ i hlt2 hlti hlt3
        rw [(List.getElem?_eq_some_iff.mp hx).2, (List.getElem?_eq_some_iff.mp h).2] at this
        rw [hbk] at this; cases this
      · have : i = (ks.filter fun x => lexLt x a).length := by omega
        subst this
        rw [hx] at h
        exact hb (Option.some.inj h)

theorem gt_iff (a k : Key) : lexLt k a = true ↔ (lexLt a k = false ∧ a ≠ k) := by
  constructor
  · intro h
    exact ⟨lexLt_asymm h, fun e => by subst e; rw [lexLt_irrefl] at h; cases h⟩
  · rintro ⟨h1, h2⟩
    rcases lexLt_trichotomy a k with h | h | h
    · rw [h] at h1; cases h1
    · exact absurd h h2
    · exact h

/-- what `term_ord_or_next` of the built dictionary returns: the specification hit, or — for a key
above the last separator of a multi-block dictionary — `Next(u64::MAX)` with every key below -/
theorem orn_cases {V} (L : Nat) (m : Assoc V) (hs : SortedMap m) (k : Key) :
    (build L m).termOrdOrNext k = specHit (keys m) k ∨
    ((build L m).termOrdOrNext k = .next U64_MAX ∧ ∀ e ∈ m, lexLt e.1 k = true) := by
  cases h : ((build L m).locateKey k).bind (build L m).blockAt with
  | none =>
    right
    exact ⟨(refine_orn_none L m hs k h).1, dict_none L m hs k h⟩
  | some b =>
    left
    rw [refine_orn_some L m hs k b h, termOrdOrNext_eq_specHit]

/-- the ordinal bounds select exactly the ordinals whose keys satisfy the key bounds -/
theorem termBoundsToOrd_spec {V} (L : Nat) (m : Assoc V) (hs : SortedMap m) (hn : m.length < U64_MAX)
    (lo hi : Bound) (i : Nat) (e : Key × V) (hi' : m[i]? = some e) :
    ((build L m).termBoundsToOrd lo hi).1.lo i = matchLo lo e.1 ∧
    ((build L m).termBoundsToOrd lo hi).2.hi i = matchHi hi e.1 := by
  have hlt : i < m.length := (List.getElem?_eq_some_iff.mp hi').1
  have hk : (keys m)[i]? = some e.1 := by simp [keys, hi']
  have hmem : e ∈ m := List.mem_of_getElem? hi'
  -- Bool equalities from iffs
  have beq : ∀ (p : Prop) [Decidable p] (b : Bool), (p ↔ b = true) → decide p = b := by
    intro p _ b h
    cases b with
    | true => simp [h.mpr rfl]
    | false => simp; intro hp; have := h.mp hp; cases this
  unfold Dict.termBoundsToOrd
  constructor
  · cases lo with
    | unbounded => rfl
    | incl k =>
      simp only [matchLo, lexLe]
      rcases orn_cases L m hs k with h | ⟨h, hall⟩
      · rw [h]
        obtain ⟨f1, f2⟩ := specHit_facts (keys m) hs k i e.1 hk
        cases hh : specHit (keys m) k with
        | exact o =>
          simp only [OrdBound.lo]
          apply beq
          have := (f1 o hh).1
          cases hl : lexLt e.1 k <;> simp [hl] at this ⊢ <;> omega
        | next o =>
          simp only [OrdBound.lo]
          apply beq
          have := (f2 o hh).1
          cases hl : lexLt e.1 k <;> simp [hl] at this ⊢ <;> omega
      · rw [h]
        simp only [OrdBound.lo, hall e hmem]
        apply beq
        simp; omega
    | excl k =>
      simp only [matchLo]
      rcases orn_cases L m hs k with h | ⟨h, hall⟩
      · rw [h]
        obtain ⟨f1, f2⟩ := specHit_facts (keys m) hs k i e.1 hk
        cases hh : specHit (keys m) k with
        | exact o =>
          simp only [OrdBound.lo]
          apply beq
          obtain ⟨g1, g2⟩ := f1 o hh
          rw [gt_iff]
          constructor
          · intro hoi
            refine ⟨?_, fun e' => by have := g2.mp e'; omega⟩
            cases hl : lexLt e.1 k with
            | false => rfl
            | true => have := g1.mp hl; omega
          · rintro ⟨h1, h2⟩
            have n1 : ¬ i < o := fun hlt' => by rw [g1.mpr hlt'] at h1; cases h1
            have n2 : i ≠ o := fun e' => h2 (g2.mpr e')
            omega
        | next o =>
          simp only [OrdBound.lo]
          apply beq
          obtain ⟨g1, g2⟩ := f2 o hh
          rw [gt_iff]
          constructor
          · intro hoi
            refine ⟨?_, g2⟩
            cases hl : lexLt e.1 k with
            | false => rfl
            | true => have := g1.mp hl; omega
          · rintro ⟨h1, _⟩
            have n1 : ¬ i < o := fun hlt' => by rw [g1.mpr hlt'] at h1; cases h1
            omega
      · rw [h]
        simp only [OrdBound.lo, lexLt_asymm (hall e hmem)]
        apply beq
        simp; omega
  · cases hi with
    | unbounded => rfl
    | incl k =>
      simp only [matchHi, lexLe]
      rcases orn_cases L m hs k with h | ⟨h, hall⟩
      · rw [h]
        obtain ⟨f1, f2⟩ := specHit_facts (keys m) hs k i e.1 hk
        cases hh : specHit (keys m) k with
        | exact o =>
          simp only [OrdBound.hi]
          apply beq
          obtain ⟨g1, g2⟩ := f1 o hh
          constructor
          · intro hio
            cases hg : lexLt k e.1 with
            | false => rfl
            | true =>
              obtain ⟨h1, h2⟩ := (gt_iff e.1 k).mp hg
              have n1 : ¬ i < o := fun hlt' => by rw [g1.mpr hlt'] at h1; cases h1
              have n2 : i ≠ o := fun e' => h2 (g2.mpr e')
              omega
          · intro hg
            have hg' : lexLt k e.1 = false := by simpa using hg
            rcases lexLt_trichotomy e.1 k with h' | h' | h'
            · have := g1.mp h'; omega
            · have := g2.mp h'; omega
            · rw [h'] at hg'; cases hg'
        | next o =>
          simp only [OrdBound.hi]
          apply beq
          obtain ⟨g1, g2⟩ := f2 o hh
          constructor
          · intro hio
            have := g1.mpr hio
            simp [lexLt_asymm this]
          · intro hg
            have hg' : lexLt k e.1 = false := by simpa using hg
            rcases lexLt_trichotomy e.1 k with h' | h' | h'
            · exact g1.mp h'
            · exact absurd h' g2
            · rw [h'] at hg'; cases hg'
      · rw [h]
        simp only [OrdBound.hi, lexLt_asymm (hall e hmem)]
        apply beq
        simp; omega
    | excl k =>
      simp only [matchHi]
      rcases orn_cases L m hs k with h | ⟨h, hall⟩
      · rw [h]
        obtain ⟨f1, f2⟩ := specHit_facts (keys m) hs k i e.1 hk
        cases hh : specHit (keys m) k with
        | exact o =>
          simp only [OrdBound.hi]
          apply beq
          exact ((f1 o hh).1).symm
        | next o =>
          simp only [OrdBound.hi]
          apply beq
          exact ((f2 o hh).1).symm
      · rw [h]
        simp only [OrdBound.hi, hall e hmem]
        apply beq
        simp; omega

end TantivyModel.SSTable
