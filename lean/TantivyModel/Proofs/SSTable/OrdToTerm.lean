import TantivyModel.Proofs.SSTable.Dict
/-! ordinal → block → entry: `ord_to_term`, `term_info_from_ord`, `sorted_ords_to_term_cb` -/
namespace TantivyModel.SSTable
open TantivyModel

theorem mkBlocks_cons {V} (o : Nat) (b0 : Assoc V) (rest : List (Assoc V)) :
    ∃ s, mkBlocks o (b0 :: rest) (sepsOf (b0 :: rest))
      = ⟨s, o, b0⟩ :: mkBlocks (o + b0.length) rest (sepsOf rest) := by
  cases rest with
  | nil => exact ⟨lastKey b0, by simp [sepsOf, mkBlocks]⟩
  | cons b1 r => exact ⟨findShorter (lastKey b0) (firstKey b1), by simp [sepsOf, mkBlocks]⟩

theorem mkBlocks_firstOrd_ge {V} (o : Nat) (bs : List (Assoc V)) :
    ∀ b ∈ mkBlocks o bs (sepsOf bs), o ≤ b.firstOrd := by
  induction bs generalizing o with
  | nil => simp [mkBlocks]
  | cons b0 rest ih =>
    obtain ⟨s, hs⟩ := mkBlocks_cons o b0 rest
    rw [hs]
    intro b hb
    rcases List.mem_cons.mp hb with e | hb
    · subst e; exact Nat.le_refl _
    · have := ih (o + b0.length) b hb; omega

/-- what the block-address store provides: block `i` covers the ordinals
`[firstOrd, firstOrd + len)`, the next block starts right after, the last block has nothing after -/
def Covers {V} (m : Assoc V) (o : Nat) (b : Block V) (next : Option (Block V)) : Prop :=
  ∃ pre post, m = pre ++ b.entries ++ post ∧ b.firstOrd = o + pre.length ∧
    (∀ b', next = some b' → b'.firstOrd = b.firstOrd + b.entries.length) ∧
    (next = none → post = [])

theorem covers_of_index {V} (o : Nat) (bs : List (Assoc V)) (i : Nat) (b : Block V)
    (h : (mkBlocks o bs (sepsOf bs))[i]? = some b) :
    Covers bs.flatten o b (mkBlocks o bs (sepsOf bs))[i + 1]? := by
  induction bs generalizing o i with
  | nil => simp [mkBlocks] at h
  | cons b0 rest ih =>
    obtain ⟨s, hs⟩ := mkBlocks_cons o b0 rest
    rw [hs] at h ⊢
    cases i with
    | zero =>
      simp only [List.getElem?_cons_zero, Option.some.injEq] at h
      subst h
      refine ⟨[], rest.flatten, by simp, by simp, ?_, ?_⟩
      · intro b' hb'
        simp only [List.getElem?_cons_succ] at hb'
        cases rest with
        | nil => simp [mkBlocks] at hb'
        | cons b1 r =>
          obtain ⟨s1, hs1⟩ := mkBlocks_cons (o + b0.length) b1 r
          rw [hs1] at hb'
          simp at hb'
          subst hb'; rfl
      · intro hn
        simp only [List.getElem?_cons_succ] at hn
        cases rest with
        | nil => rfl
        | cons b1 r =>
          obtain ⟨s1, hs1⟩ := mkBlocks_cons (o + b0.length) b1 r
          rw [hs1] at hn
          simp at hn
    | succ j =>
      simp only [List.getElem?_cons_succ] at h ⊢
      obtain ⟨pre, post, ceq, cfirst, cnext, clast⟩ := ih (o + b0.length) j h
      exact ⟨b0 ++ pre, post, by simp [ceq], by rw [cfirst]; simp; omega, cnext, clast⟩

/-- inside the covered range a block-relative index is the global index -/
theorem Covers_getElem {V} {m : Assoc V} {b : Block V} {next : Option (Block V)}
    (c : Covers m 0 b next) (ord : Nat) (h1 : b.firstOrd ≤ ord)
    (h2 : ∀ b', next = some b' → ord < b'.firstOrd) :
    b.entries[ord - b.firstOrd]? = m[ord]? := by
  obtain ⟨pre, post, ceq, cfirst, cnext, clast⟩ := c
  have hf : b.firstOrd = pre.length := by simpa using cfirst
  rw [ceq, List.append_assoc, List.getElem?_append_right (by omega), ← hf]
  by_cases hlt : ord - b.firstOrd < b.entries.length
  · rw [List.getElem?_append_left hlt]
  · cases hn : next with
    | none =>
      rw [clast hn]; simp
    | some b' =>
      have := cnext b' hn
      have := h2 b' hn
      omega

/-- `binary_search_ord`: the last block whose first ordinal is ≤ ord exists and, if there is a
next block, that one starts above `ord` -/
theorem locateOrd_spec {V} (o : Nat) (bs : List (Assoc V)) (hbs : bs ≠ []) (ord : Nat) (ho : o ≤ ord) :
    ∃ b, (mkBlocks o bs (sepsOf bs))[((mkBlocks o bs (sepsOf bs)).filter
        (fun b => decide (b.firstOrd ≤ ord))).length - 1]? = some b ∧ b.firstOrd ≤ ord ∧
      ∀ b', (mkBlocks o bs (sepsOf bs))[((mkBlocks o bs (sepsOf bs)).filter
        (fun b => decide (b.firstOrd ≤ ord))).length - 1 + 1]? = some b' → ord < b'.firstOrd := by
  induction bs generalizing o with
  | nil => exact absurd rfl hbs
  | cons b0 rest ih =>
    obtain ⟨s, hs⟩ := mkBlocks_cons o b0 rest
    rw [hs]
    simp only [List.filter_cons, ho, decide_true, if_true, List.length_cons, Nat.add_sub_cancel]
    cases rest with
    | nil =>
      simp [mkBlocks, ho]
    | cons b1 r =>
      by_cases h1 : o + b0.length ≤ ord
      · obtain ⟨b, hb1, hb2, hb3⟩ := ih (o + b0.length) (by simp) h1
        obtain ⟨s1, hs1⟩ := mkBlocks_cons (o + b0.length) b1 r
        have hpos : 0 < ((mkBlocks (o + b0.length) (b1 :: r) (sepsOf (b1 :: r))).filter
            (fun b => decide (b.firstOrd ≤ ord))).length := by
          rw [hs1]; simp [List.filter_cons, h1]
        refine ⟨b, ?_, hb2, ?_⟩
        · rw [← hb1]
          have : ∀ n, 0 < n → n = (n - 1) + 1 := fun n hn => by omega
          rw [this _ hpos, List.getElem?_cons_succ]; simp
        · intro b' hb'
          apply hb3 b'
          have : ∀ n, 0 < n → n = (n - 1) + 1 := fun n hn => by omega
          rw [← hb']
          conv => rhs; rw [this _ hpos]
          simp
      · have hnone : (mkBlocks (o + b0.length) (b1 :: r) (sepsOf (b1 :: r))).filter
            (fun b => decide (b.firstOrd ≤ ord)) = [] := by
          rw [List.filter_eq_nil_iff]
          intro b hb
          have := mkBlocks_firstOrd_ge (o + b0.length) (b1 :: r) b hb
          simp; omega
        rw [hnone]
        refine ⟨⟨s, o, b0⟩, by simp, ho, ?_⟩
        intro b' hb'
        simp only [List.length_nil, Nat.zero_add, List.getElem?_cons_succ] at hb'
        obtain ⟨s1, hs1⟩ := mkBlocks_cons (o + b0.length) b1 r
        rw [hs1] at hb'
        simp at hb'
        subst hb'
        simp; omega

/-- key fact for every by-ordinal operation: for the block and end bound opened for `ord`,
block-relative lookups agree with the map on `[firstOrd, endBound)` — and `ord` is in it -/
theorem openForOrd_spec {V} (L : Nat) (m : Assoc V) (ord : Nat) :
    ((build L m).openForOrd ord).1.firstOrd ≤ ord ∧
    (∀ o, ((build L m).openForOrd ord).1.firstOrd ≤ o →
      (o < ((build L m).openForOrd ord).2 ∨ ((build L m).blockAt ((build L m).locateOrd ord + 1)) = none) →
      ((build L m).openForOrd ord).1.entries[o - ((build L m).openForOrd ord).1.firstOrd]? = m[o]?) ∧
    (((build L m).blockAt ((build L m).locateOrd ord + 1)).isSome = true → ord < ((build L m).openForOrd ord).2) ∧
    (build L m).blockAt ((build L m).locateOrd ord) = some ((build L m).openForOrd ord).1 := by
  have hfl : (blocksOf (fun e : Key × V => e.1) L m).flatten = m := blocksOf_flatten _ L m
  unfold Dict.openForOrd Dict.locateOrd Dict.blockAt
  by_cases hsingle : (build L m).single = true
  · simp only [hsingle, if_true]
    unfold Dict.single build at hsingle
    simp only [decide_eq_true_eq] at hsingle
    rw [mkBlocks_length] at hsingle
    unfold build
    generalize blocksOf (fun e : Key × V => e.1) L m = bs at *
    match bs, hsingle with
    | [], _ =>
      simp at hfl
      simp [mkBlocks, sepsOf, ← hfl]
    | [b0], _ =>
      simp at hfl
      simp [mkBlocks, sepsOf, ← hfl]
  · simp only [hsingle, Bool.false_eq_true, if_false]
    have hne : blocksOf (fun e : Key × V => e.1) L m ≠ [] := by
      intro h
      unfold Dict.single build at hsingle
      rw [h] at hsingle
      simp [mkBlocks, sepsOf] at hsingle
    unfold build
    simp only
    obtain ⟨b, hb1, hb2, hb3⟩ := locateOrd_spec 0 _ hne ord (Nat.zero_le _)
    have c := covers_of_index 0 _ _ b hb1
    rw [hfl] at c
    simp only [hb1, Option.getD_some]
    refine ⟨hb2, ?_, ?_, trivial⟩
    · intro o ho hor
      apply Covers_getElem c o ho
      intro b' hb'
      rcases hor with h | h
      · simpa [hb'] using h
      · rw [hb'] at h; cases h
    · intro hs
      cases hn : (mkBlocks 0 (blocksOf (fun e : Key × V => e.1) L m)
          (sepsOf (blocksOf (fun e : Key × V => e.1) L m)))[((mkBlocks 0 (blocksOf (fun e : Key × V => e.1) L m)
          (sepsOf (blocksOf (fun e : Key × V => e.1) L m))).filter (fun b => decide (b.firstOrd ≤ ord))).length - 1 + 1]? with
      | none => simp [hn] at hs
      | some b' => simpa using hb3 b' hn

end TantivyModel.SSTable

namespace TantivyModel.SSTable
open TantivyModel

theorem openForOrd_lookup {V} (L : Nat) (m : Assoc V) (ord : Nat) :
    ((build L m).openForOrd ord).1.entries[ord - ((build L m).openForOrd ord).1.firstOrd]? = m[ord]? := by
  obtain ⟨h1, h2, h3, _⟩ := openForOrd_spec L m ord
  apply h2 ord h1
  cases hn : (build L m).blockAt ((build L m).locateOrd ord + 1) with
  | none => exact Or.inr rfl
  | some b' => exact Or.inl (h3 (by simp [hn]))

theorem refine_ordToTerm {V} (L : Nat) (m : Assoc V) (ord : Nat) :
    (build L m).ordToTerm ord = ordToTerm m ord ∧ (build L m).valueAtOrd ord = valueAtOrd m ord := by
  obtain ⟨_, _, _, h4⟩ := openForOrd_spec L m ord
  unfold Dict.ordToTerm Dict.valueAtOrd ordToTerm valueAtOrd
  rw [h4]
  simp [openForOrd_lookup]

/-- block-relative lookups agree with the map on `[firstOrd, endBound)` -/
def GoInv {V} (m : Assoc V) (b : Block V) (endBound : Nat) : Prop :=
  ∀ o, b.firstOrd ≤ o → o < endBound → b.entries[o - b.firstOrd]? = m[o]?

theorem openForOrd_inv {V} (L : Nat) (m : Assoc V) (ord : Nat) :
    GoInv m ((build L m).openForOrd ord).1 ((build L m).openForOrd ord).2 := by
  obtain ⟨_, h2, _, _⟩ := openForOrd_spec L m ord
  intro o ho hlt
  exact h2 o ho (Or.inl hlt)

theorem sortedOrdsGo_spec {V} (L : Nat) (m : Assoc V) (b : Block V) (endBound prevOrd : Nat)
    (cur : Key) (ords : List Nat) (hinv : GoInv m b endBound) (hf : b.firstOrd ≤ prevOrd)
    (hcur : ∃ e, m[prevOrd]? = some e ∧ e.1 = cur) (hs : ∀ o ∈ ords, prevOrd ≤ o)
    (hsorted : ords.Pairwise (· ≤ ·)) :
    (build L m).sortedOrdsGo b endBound prevOrd cur ords = sortedOrdsSpec m ords := by
  induction ords generalizing b endBound prevOrd cur with
  | nil => rfl
  | cons o rest ih =>
    have ⟨hhead, htail⟩ := List.pairwise_cons.mp hsorted
    simp only [Dict.sortedOrdsGo, sortedOrdsSpec]
    by_cases he : o = prevOrd
    · subst he
      obtain ⟨e, he1, he2⟩ := hcur
      simp only [if_true, he1]
      rw [ih b endBound o cur hinv hf ⟨e, he1, he2⟩ (fun x hx => hhead x hx) htail, he2]
    · simp only [he, if_false]
      have hpo : prevOrd ≤ o := hs o (by simp)
      by_cases hge : o ≥ endBound
      · simp only [hge, if_true, openForOrd_lookup]
        cases hm : m[o]? with
        | none => rfl
        | some e =>
          simp only
          rw [ih _ _ o e.1 (openForOrd_inv L m o) (openForOrd_spec L m o).1 ⟨e, hm, rfl⟩
            (fun x hx => hhead x hx) htail]
      · simp only [hge, if_false]
        rw [hinv o (by omega) (by omega)]
        cases hm : m[o]? with
        | none => rfl
        | some e =>
          simp only
          rw [ih b endBound o e.1 hinv (by omega) ⟨e, hm, rfl⟩ (fun x hx => hhead x hx) htail]

theorem refine_sortedOrds {V} (L : Nat) (m : Assoc V) (ords : List Nat)
    (hsorted : ords.Pairwise (· ≤ ·)) :
    (build L m).sortedOrdsToTerm ords = sortedOrdsSpec m ords := by
  cases ords with
  | nil => rfl
  | cons o rest =>
    have ⟨hhead, htail⟩ := List.pairwise_cons.mp hsorted
    simp only [Dict.sortedOrdsToTerm, sortedOrdsSpec, openForOrd_lookup]
    cases hm : m[o]? with
    | none => rfl
    | some e =>
      simp only
      rw [sortedOrdsGo_spec L m _ _ o e.1 rest (openForOrd_inv L m o) (openForOrd_spec L m o).1
        ⟨e, hm, rfl⟩ (fun x hx => hhead x hx) htail]

end TantivyModel.SSTable
