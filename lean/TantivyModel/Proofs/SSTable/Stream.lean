import TantivyModel.Proofs.SSTable.Routing
import TantivyModel.Model.SSTable.Search
/-! the streamer's scan (lower bound skipped once, stop at the upper bound, automaton filter)
over a sorted run of entries = filter, with ordinals -/
namespace TantivyModel.SSTable
open TantivyModel

theorem matchLo_mono {lo : Bound} {a b : Key} (h : matchLo lo a = true) (hab : lexLt a b = true) :
    matchLo lo b = true := by
  cases lo with
  | unbounded => rfl
  | incl k => exact lexLe_of_lt (lexLt_of_le_of_lt h hab)
  | excl k => exact lexLt_trans h hab

theorem matchHi_anti {hi : Bound} {a b : Key} (h : matchHi hi a = false) (hab : lexLt a b = true) :
    matchHi hi b = false := by
  cases hi with
  | unbounded => simp [matchHi] at h
  | incl k =>
    simp only [matchHi, lexLe] at h ⊢
    have h1 : lexLt k a = true := by simpa using h
    simp [lexLt_trans h1 hab]
  | excl k =>
    simp only [matchHi] at h ⊢
    have : lexLe k a = true := lexLt_false_iff_le.mp h
    exact lexLt_asymm (lexLt_of_le_of_lt this hab)

variable {σ V : Type}

def streamSpec (A : Automaton σ) (lo hi : Bound) (ord : Nat) (xs : Assoc V) : List (Nat × Key × V) :=
  ((xs.zipIdx ord).filter (fun p => matchLo lo p.1.1 && matchHi hi p.1.1 && A.accepts p.1.1)).map
    (fun p => (p.2, p.1.1, p.1.2))

theorem streamSpec_cons (A : Automaton σ) (lo hi : Bound) (ord : Nat) (e : Key × V) (xs : Assoc V) :
    streamSpec A lo hi ord (e :: xs) =
      (if matchLo lo e.1 && matchHi hi e.1 && A.accepts e.1 then [(ord, e.1, e.2)] else [])
        ++ streamSpec A lo hi (ord + 1) xs := by
  unfold streamSpec
  simp only [List.zipIdx_cons, List.filter_cons]
  split <;> simp

theorem streamSpec_nil_of_hi (A : Automaton σ) (lo hi : Bound) (ord : Nat) (xs : Assoc V)
    (h : ∀ e ∈ xs, matchHi hi e.1 = false) : streamSpec A lo hi ord xs = [] := by
  induction xs generalizing ord with
  | nil => rfl
  | cons e rest ih =>
    rw [streamSpec_cons, ih (ord + 1) (fun x hx => h x (List.mem_cons_of_mem _ hx))]
    simp [h e (by simp)]

/-- after the lower bound matched once -/
theorem scanSearch_passed (A : Automaton σ) (lo hi : Bound) (ord : Nat) (xs : Assoc V)
    (hs : StrictInc (keys xs)) (hlo : ∀ e ∈ xs, matchLo lo e.1 = true) :
    scanSearch A lo hi true ord xs = streamSpec A lo hi ord xs := by
  induction xs generalizing ord with
  | nil => rfl
  | cons e rest ih =>
    have hs' : StrictInc (keys rest) := by simpa [keys] using StrictInc.tail (by simpa [keys] using hs)
    have hrest := ih (ord + 1) hs' (fun x hx => hlo x (List.mem_cons_of_mem _ hx))
    rw [streamSpec_cons]
    simp only [scanSearch, Bool.not_true, Bool.false_and, Bool.false_eq_true, if_false]
    by_cases hh : matchHi hi e.1 = true
    · simp only [hh, Bool.not_true, Bool.false_eq_true, if_false, hlo e (by simp), Bool.true_and]
      by_cases ha : A.accepts e.1 = true
      · simp [ha, hrest]
      · simp [ha, hrest]
    · have hh' : matchHi hi e.1 = false := by simpa using hh
      have hall : ∀ x ∈ rest, matchHi hi x.1 = false := fun x hx =>
        matchHi_anti hh' (StrictInc.head_lt (a := e.1) (ks := keys rest) (by simpa [keys] using hs) _ (mem_keys_of_mem hx))
      simp [hh', streamSpec_nil_of_hi A lo hi (ord + 1) rest hall]

/-- the whole scan over a sorted run = filter by lower bound, upper bound and automaton, each
entry carrying `ord + its index` -/
theorem scanSearch_filter (A : Automaton σ) (lo hi : Bound) (ord : Nat) (xs : Assoc V)
    (hs : StrictInc (keys xs)) :
    scanSearch A lo hi false ord xs = streamSpec A lo hi ord xs := by
  induction xs generalizing ord with
  | nil => rfl
  | cons e rest ih =>
    have hs' : StrictInc (keys rest) := by simpa [keys] using StrictInc.tail (by simpa [keys] using hs)
    by_cases hl : matchLo lo e.1 = true
    · -- from here on the lower bound holds for every key
      have hall : ∀ x ∈ rest, matchLo lo x.1 = true := fun x hx =>
        matchLo_mono hl (StrictInc.head_lt (a := e.1) (ks := keys rest) (by simpa [keys] using hs) _ (mem_keys_of_mem hx))
      have hp := scanSearch_passed A lo hi ord (e :: rest) hs
        (fun x hx => by rcases List.mem_cons.mp hx with h | h; · subst h; exact hl
                        · exact hall x h)
      rw [← hp]
      simp [scanSearch, hl]
    · have hl' : matchLo lo e.1 = false := by simpa using hl
      rw [streamSpec_cons]
      simp [scanSearch, hl', ih (ord + 1) hs']

/-- `AlwaysMatch` streams are the special case of an automaton accepting everything -/
theorem scanStream_eq_scanSearch (A : Automaton σ) (hA : ∀ k, A.accepts k = true) (lo hi : Bound)
    (p : Bool) (ord : Nat) (xs : Assoc V) :
    scanStream lo hi p ord xs = scanSearch A lo hi p ord xs := by
  induction xs generalizing p ord with
  | nil => rfl
  | cons e rest ih =>
    simp only [scanStream, scanSearch, hA, if_true]
    split
    · exact ih _ _
    · split
      · rfl
      · rw [ih]

end TantivyModel.SSTable

namespace TantivyModel.SSTable
open TantivyModel
variable {σ V : Type}

def passes (A : Automaton σ) (lo hi : Bound) (k : Key) : Bool :=
  matchLo lo k && matchHi hi k && A.accepts k

theorem streamSpec_map_snd (A : Automaton σ) (lo hi : Bound) (ord : Nat) (xs : Assoc V) :
    (streamSpec A lo hi ord xs).map (fun p => (p.2.1, p.2.2)) = xs.filter (fun e => passes A lo hi e.1) := by
  induction xs generalizing ord with
  | nil => rfl
  | cons e rest ih =>
    rw [streamSpec_cons, List.map_append, ih (ord + 1), List.filter_cons]
    unfold passes
    split <;> simp

theorem filter_flatten_pruned (p : Key × V → Bool) (keep : Assoc V → Bool) (bs : List (Assoc V))
    (h : ∀ b ∈ bs, keep b = false → ∀ e ∈ b, p e = false) :
    (bs.filter keep).flatten.filter p = bs.flatten.filter p := by
  induction bs with
  | nil => rfl
  | cons b rest ih =>
    have ih' := ih (fun x hx => h x (List.mem_cons_of_mem _ hx))
    rw [List.filter_cons]
    by_cases hk : keep b = true
    · simp [hk, List.filter_append, ih']
    · have hk' : keep b = false := by simpa using hk
      have hb : b.filter p = [] := by
        rw [List.filter_eq_nil_iff]; intro e he; simp [h b (by simp) hk' e he]
      simp [hk', List.filter_append, ih', hb]

theorem flatten_filter_sublist (keep : Assoc V → Bool) (bs : List (Assoc V)) :
    ((bs.filter keep).flatten).Sublist bs.flatten := by
  induction bs with
  | nil => simp
  | cons b rest ih =>
    rw [List.filter_cons]
    split
    · simpa using List.Sublist.append (List.Sublist.refl b) ih
    · simpa using List.Sublist.trans ih (List.sublist_append_right b rest.flatten)

/-- streaming over the blocks that survive any sound pruning yields exactly the entries of the
whole map that pass the bounds and the automaton, in order -/
theorem pruned_search (A : Automaton σ) (lo hi : Bound) (bs : List (Assoc V)) (keep : Assoc V → Bool)
    (hs : StrictInc (keys bs.flatten))
    (hsound : ∀ b ∈ bs, keep b = false → ∀ e ∈ b, passes A lo hi e.1 = false) (ord : Nat) :
    (scanSearch A lo hi false ord (bs.filter keep).flatten).map (fun p => (p.2.1, p.2.2))
      = bs.flatten.filter (fun e => passes A lo hi e.1) := by
  have hsub := flatten_filter_sublist keep bs
  have hs' : StrictInc (keys (bs.filter keep).flatten) :=
    StrictInc.sublist (by simpa [keys] using hsub.map (fun e : Key × V => e.1)) hs
  rw [scanSearch_filter A lo hi ord _ hs', streamSpec_map_snd]
  exact filter_flatten_pruned _ keep bs hsound

end TantivyModel.SSTable
