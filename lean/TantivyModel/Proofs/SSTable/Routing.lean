import TantivyModel.Proofs.SSTable.Delta
/-! separator keys and routing of a key to its block -/
namespace TantivyModel.SSTable
open TantivyModel

theorem u8_succ_toNat {b : UInt8} (h : b ≠ 255) : (b + 1).toNat = b.toNat + 1 := by
  have h1 : b.toNat ≠ 255 := fun h' => h (UInt8.toNat_inj.mp h')
  have h2 := b.toNat_lt
  rw [UInt8.toNat_add]; simp; omega

theorem bumpSuffix_gt {l s : Key} (h : bumpSuffix l = some s) : lexLt l s = true := by
  induction l generalizing s with
  | nil => simp [bumpSuffix] at h
  | cons b rest ih =>
    simp only [bumpSuffix] at h
    split at h
    · rename_i hb
      cases h
      simp [lexLt, u8_succ_toNat hb]
    · cases hr : bumpSuffix rest with
      | none => simp [hr] at h
      | some s' =>
        simp only [hr, Option.map_some, Option.some.injEq] at h
        subst h
        simp [lexLt, ih hr]

/-- `left ≤ findShorter left right < right` whenever `left < right` -/
theorem findShorter_bounds {left right : Key} (h : lexLt left right = true) :
    lexLe left (findShorter left right) = true ∧ lexLt (findShorter left right) right = true := by
  unfold findShorter
  by_cases hc : left.length = cpl left right
  · simp only [hc, if_true]
    exact ⟨lexLe_refl _, h⟩
  · simp only [hc, if_false]
    cases hb : bumpSuffix (left.drop (cpl left right + 1)) with
    | none => exact ⟨lexLe_refl _, h⟩
    | some s =>
      simp only
      have hl := cpl_le_left left right
      rcases (lexLt_iff_cpl left right).mp h with ⟨h1, _⟩ | ⟨ha, hb', hlt⟩
      · omega
      · constructor
        · -- left = take (c+1) ++ drop (c+1) ≤ take (c+1) ++ s
          apply lexLe_of_lt
          have : left = left.take (cpl left right + 1) ++ left.drop (cpl left right + 1) := by simp
          conv => lhs; arg 1; rw [this]
          rw [lexLt_append_left]
          exact bumpSuffix_gt hb
        · have e1 : left.take (cpl left right + 1) = left.take (cpl left right) ++ [left[cpl left right]] := by
            rw [List.take_succ_eq_append_getElem ha]
          have e2 : right = left.take (cpl left right) ++ right[cpl left right] :: right.drop (cpl left right + 1) := by
            rw [cpl_take]; simp
          rw [e1, List.append_assoc]
          conv => lhs; arg 2; rw [e2]
          rw [lexLt_append_left]
          simp only [List.singleton_append, lexLt, hlt, if_true]

/-! ### keys of a sorted association list -/

theorem keys_append {V} (a b : Assoc V) : keys (a ++ b) = keys a ++ keys b := by simp [keys]

theorem mem_keys_of_mem {V} {m : Assoc V} {e : Key × V} (h : e ∈ m) : e.1 ∈ keys m :=
  List.mem_map_of_mem h

theorem lastKey_mem {V} (b : Assoc V) (h : b ≠ []) : lastKey b ∈ keys b := by
  unfold lastKey
  cases hl : b.getLast? with
  | none => simp [List.getLast?_eq_none_iff] at hl; exact absurd hl h
  | some e => exact mem_keys_of_mem (List.mem_of_getLast? hl)

theorem firstKey_mem {V} (b : Assoc V) (h : b ≠ []) : firstKey b ∈ keys b := by
  cases b with
  | nil => exact absurd rfl h
  | cons e r => simp [firstKey, keys]

/-- every key of a sorted block is ≤ its last key -/
theorem le_lastKey {V} (b : Assoc V) (hs : StrictInc (keys b)) : ∀ e ∈ b, lexLe e.1 (lastKey b) = true := by
  induction b with
  | nil => simp
  | cons x rest ih =>
    intro e he
    cases rest with
    | nil =>
      simp at he; subst he
      simp [lastKey, lexLe_refl]
    | cons y r =>
      have hlast : lastKey (x :: y :: r) = lastKey (y :: r) := by
        simp [lastKey, List.getLast?_cons_cons]
      rw [hlast]
      have hs' : StrictInc (keys (y :: r)) := by simpa [keys] using StrictInc.tail (by simpa [keys] using hs)
      rcases List.mem_cons.mp he with e1 | e1
      · subst e1
        have hm : lastKey (y :: r) ∈ keys (y :: r) := lastKey_mem _ (by simp)
        have : lexLt e.1 (lastKey (y :: r)) = true :=
          StrictInc.head_lt (a := e.1) (ks := keys (y :: r)) (by simpa [keys] using hs) _ hm
        exact lexLe_of_lt this
      · exact ih hs' e e1

/-- every key of a sorted block is ≥ its first key -/
theorem firstKey_le {V} (b : Assoc V) (hs : StrictInc (keys b)) : ∀ e ∈ b, lexLe (firstKey b) e.1 = true := by
  cases b with
  | nil => simp
  | cons x rest =>
    intro e he
    rcases List.mem_cons.mp he with e1 | e1
    · subst e1; simp [firstKey, lexLe_refl]
    · have : lexLt x.1 e.1 = true :=
        StrictInc.head_lt (a := x.1) (ks := keys rest) (by simpa [keys] using hs) _ (mem_keys_of_mem e1)
      simpa [firstKey] using lexLe_of_lt this

theorem sorted_append_lt {V} {a b : Assoc V} (h : StrictInc (keys (a ++ b))) :
    StrictInc (keys a) ∧ StrictInc (keys b) ∧ ∀ x ∈ a, ∀ y ∈ b, lexLt x.1 y.1 = true := by
  rw [keys_append, StrictInc.append_iff] at h
  exact ⟨h.1, h.2.1, fun x hx y hy => h.2.2 _ (mem_keys_of_mem hx) _ (mem_keys_of_mem hy)⟩

/-! ### the separator list -/

/-- what the index knows about a block list: blocks non-empty, keys strictly increasing overall -/
structure GoodBlocks {V} (bs : List (Assoc V)) : Prop where
  nonempty : ∀ b ∈ bs, b ≠ []
  sorted : StrictInc (keys bs.flatten)

theorem GoodBlocks.tail {V} {b : Assoc V} {bs : List (Assoc V)} (h : GoodBlocks (b :: bs)) :
    GoodBlocks bs :=
  ⟨fun x hx => h.nonempty x (List.mem_cons_of_mem _ hx),
   (sorted_append_lt (by simpa using h.sorted)).2.1⟩

theorem sepsOf_length {V} (bs : List (Assoc V)) : (sepsOf bs).length = bs.length := by
  induction bs with
  | nil => rfl
  | cons b rest ih =>
    cases rest with
    | nil => rfl
    | cons b' r => simp [sepsOf, ih]

/-- head separator: ≥ every key of its block, < every key of all later blocks -/
theorem sepsOf_head {V} (b : Assoc V) (rest : List (Assoc V)) (h : GoodBlocks (b :: rest)) :
    ∃ s ss, sepsOf (b :: rest) = s :: ss ∧ ss = sepsOf rest ∧
      (∀ e ∈ b, lexLe e.1 s = true) ∧ (∀ e ∈ rest.flatten, lexLt s e.1 = true) := by
  have hb : b ≠ [] := h.nonempty b (by simp)
  have hsplit := sorted_append_lt (a := b) (b := rest.flatten) (by simpa using h.sorted)
  cases rest with
  | nil =>
    exact ⟨lastKey b, [], rfl, rfl, le_lastKey b hsplit.1, by simp⟩
  | cons b' r =>
    have hb' : b' ≠ [] := h.nonempty b' (by simp)
    refine ⟨findShorter (lastKey b) (firstKey b'), sepsOf (b' :: r), rfl, rfl, ?_, ?_⟩
    · obtain ⟨el, hel, hk⟩ := List.mem_map.mp (lastKey_mem b hb)
      obtain ⟨ef, hef, hkf⟩ := List.mem_map.mp (firstKey_mem b' hb')
      have hlt : lexLt (lastKey b) (firstKey b') = true := by
        rw [← hk, ← hkf]; exact hsplit.2.2 el hel ef (by simp [hef])
      intro e he
      exact lexLe_trans (le_lastKey b hsplit.1 e he) (findShorter_bounds hlt).1
    · obtain ⟨el, hel, hk⟩ := List.mem_map.mp (lastKey_mem b hb)
      obtain ⟨ef, hef, hkf⟩ := List.mem_map.mp (firstKey_mem b' hb')
      have hlt : lexLt (lastKey b) (firstKey b') = true := by
        rw [← hk, ← hkf]; exact hsplit.2.2 el hel ef (by simp [hef])
      intro e he
      have hs2 : StrictInc (keys ((b' :: r).flatten)) := hsplit.2.1
      have hfirst : lexLe (firstKey b') e.1 = true := by
        simp only [List.flatten_cons, List.mem_append] at he
        rcases he with he | he
        · exact firstKey_le b' (sorted_append_lt (by simpa using hs2)).1 e he
        · have := (sorted_append_lt (a := b') (b := r.flatten) (by simpa using hs2)).2.2 ef hef e he
          rw [← hkf]; exact lexLe_of_lt this
      exact lexLt_of_lt_of_le (findShorter_bounds hlt).2 hfirst

/-- the central routing fact: the first block whose separator is ≥ k splits the whole map into
entries below k, the block, and entries above k -/
theorem locate_split {V} (bs : List (Assoc V)) (ord : Nat) (k : Key) (h : GoodBlocks bs)
    (i : Nat) (blk : Block V)
    (hi : (mkBlocks ord bs (sepsOf bs)).findIdx? (fun b => lexLe k b.sep) = some i)
    (hb : (mkBlocks ord bs (sepsOf bs))[i]? = some blk) :
    ∃ pre post, bs.flatten = pre ++ blk.entries ++ post ∧ blk.firstOrd = ord + pre.length ∧
      (∀ e ∈ pre, lexLt e.1 k = true) ∧ (∀ e ∈ post, lexLt k e.1 = true) ∧ lexLe k blk.sep = true := by
  induction bs generalizing ord i with
  | nil => simp [mkBlocks] at hi
  | cons b rest ih =>
    obtain ⟨s, ss, hs, hss, hle, hgt⟩ := sepsOf_head b rest h
    rw [hs] at hi hb
    simp only [mkBlocks] at hi hb
    rw [List.findIdx?_cons] at hi
    by_cases hk : lexLe k s = true
    · simp only [hk, if_true, Option.some.injEq] at hi
      subst hi
      simp only [List.getElem?_cons_zero, Option.some.injEq] at hb
      subst hb
      refine ⟨[], rest.flatten, by simp, by simp, by simp, ?_, hk⟩
      intro e he
      exact lexLt_of_le_of_lt hk (hgt e he)
    · simp only [hk, Bool.false_eq_true, if_false] at hi
      cases hrec : (mkBlocks (ord + b.length) rest ss).findIdx? (fun b => lexLe k b.sep) with
      | none => simp [hrec] at hi
      | some j =>
        simp only [hrec, Option.map_some, Option.some.injEq] at hi
        subst hi
        simp only [List.getElem?_cons_succ] at hb
        subst hss
        obtain ⟨pre, post, h1, h2, h3, h4, h5⟩ := ih (ord + b.length) h.tail j hrec hb
        refine ⟨b ++ pre, post, by simp [h1], by simp [h2]; omega, ?_, h4, h5⟩
        intro e he
        rcases List.mem_append.mp he with he | he
        · have hks : lexLt s k = true := by simpa [lexLe] using hk
          exact lexLt_of_le_of_lt (hle e he) hks
        · exact h3 e he

/-- no separator is ≥ k: every key of the map is below k -/
theorem locate_none {V} (bs : List (Assoc V)) (ord : Nat) (k : Key) (h : GoodBlocks bs)
    (hi : (mkBlocks ord bs (sepsOf bs)).findIdx? (fun b => lexLe k b.sep) = none) :
    ∀ e ∈ bs.flatten, lexLt e.1 k = true := by
  induction bs generalizing ord with
  | nil => simp
  | cons b rest ih =>
    obtain ⟨s, ss, hs, hss, hle, hgt⟩ := sepsOf_head b rest h
    rw [hs] at hi
    simp only [mkBlocks] at hi
    rw [List.findIdx?_cons] at hi
    by_cases hk : lexLe k s = true
    · simp [hk] at hi
    · simp only [hk, Bool.false_eq_true, if_false, Option.map_eq_none_iff] at hi
      subst hss
      intro e he
      simp only [List.flatten_cons, List.mem_append] at he
      rcases he with he | he
      · have hks : lexLt s k = true := by simpa [lexLe] using hk
        exact lexLt_of_le_of_lt (hle e he) hks
      · exact ih (ord + b.length) h.tail hi e he

theorem mkBlocks_entries {V} (bs : List (Assoc V)) (ord : Nat) :
    (mkBlocks ord bs (sepsOf bs)).map (·.entries) = bs := by
  induction bs generalizing ord with
  | nil => rfl
  | cons b rest ih =>
    cases rest with
    | nil => simp [sepsOf, mkBlocks]
    | cons b' r =>
      simp only [sepsOf, mkBlocks, List.map_cons]
      rw [ih]

end TantivyModel.SSTable
