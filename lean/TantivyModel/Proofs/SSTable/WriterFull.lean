import TantivyModel.Proofs.SSTable.Writer
/-! the exact set of insertion sequences the writer accepts -/
namespace TantivyModel.SSTable
open TantivyModel

/-- acceptance of `ks` after `cnt` keys, the last of which was `last`: every key is above its
predecessor, or both are empty and the run of empty keys has not yet closed a block -/
def AdjFrom (L : Nat) : Option Key → Nat → List Key → Prop
  | _, _, [] => True
  | last, cnt, k :: rest =>
    (last = none ∨ ∃ l, last = some l ∧ (lexLt l k = true ∨ (l = [] ∧ k = [] ∧ cnt ≤ L))) ∧
      AdjFrom L (some k) (cnt + 1) rest

theorem entryBytes_empty : (entryBytes [] []).length = 1 := by decide

/-- invariant of the writer state strong enough for runs of empty keys -/
structure WInv2 (L : Nat) (s : WState) (last : Option Key) (cnt : Nat) : Prop where
  base : WInv s last
  fresh : last = none → s.blockBytes = 0 ∧ cnt = 0
  run : last = some [] →
    (cnt ≤ L → s.blockStart = false ∧ s.blockBytes = cnt ∧ s.prev = []) ∧ (L < cnt → s.blockStart = true)

theorem WInv2_init (L : Nat) : WInv2 L {} none 0 :=
  ⟨WInv_init, fun _ => ⟨rfl, rfl⟩, fun h => (by cases h)⟩

theorem lexLt_nil_false (l : Key) : lexLt l [] = false := lexLt_nil_right l

theorem insert_accepts_iff2 (L : Nat) (s : WState) (last : Option Key) (cnt : Nat) (k : Key)
    (h : WInv2 L s last cnt) :
    (s.insert L k).isSome = true ↔
      (last = none ∨ ∃ l, last = some l ∧ (lexLt l k = true ∨ (l = [] ∧ k = [] ∧ cnt ≤ L))) := by
  rw [insert_accepts_iff L s last k h.base]
  constructor
  · rintro (h1 | ⟨l, h1, h2⟩ | ⟨h1, h2, h3⟩)
    · exact Or.inl h1
    · exact Or.inr ⟨l, h1, Or.inl h2⟩
    · refine Or.inr ⟨[], h2, Or.inr ⟨rfl, h3, ?_⟩⟩
      obtain ⟨_, hr2⟩ := h.run h2
      apply Nat.le_of_not_lt
      intro hlt
      rw [hr2 hlt] at h1; cases h1
  · rintro (h1 | ⟨l, h1, h2 | ⟨h2, h3, h4⟩⟩)
    · exact Or.inl h1
    · exact Or.inr (Or.inl ⟨l, h1, h2⟩)
    · subst h2
      exact Or.inr (Or.inr ⟨((h.run h1).1 h4).1, h1, h3⟩)

theorem insert_preserves2 (L : Nat) (s s' : WState) (last : Option Key) (cnt : Nat) (k : Key)
    (h : WInv2 L s last cnt) (hs : s.insert L k = some s') : WInv2 L s' (some k) (cnt + 1) := by
  have hacc := (insert_accepts_iff2 L s last cnt k h).mp (by simp [hs])
  refine ⟨insert_preserves L s s' last k h.base hs, fun h' => (by cases h'), ?_⟩
  intro hk
  have hk' : k = [] := (Option.some.inj hk)
  subst hk'
  -- the state before: either nothing inserted yet, or a run of `cnt ≤ L` empty keys
  have hstate : s.blockBytes = cnt ∧ s.prev = [] := by
    rcases hacc with h1 | ⟨l, h1, h2 | ⟨h2, _, h4⟩⟩
    · subst h1
      obtain ⟨hb, hc⟩ := h.fresh rfl
      have hw := h.base
      unfold WInv at hw
      by_cases hbs : s.blockStart = true
      · simp only [hbs, if_true] at hw
        exact ⟨by omega, hw.1⟩
      · simp [hbs] at hw
    · rw [lexLt_nil_false] at h2; cases h2
    · subst h2
      obtain ⟨_, hb, hp⟩ := (h.run h1).1 h4
      exact ⟨hb, hp⟩
  unfold WState.insert at hs
  split at hs
  · cases hs
    unfold WState.next
    rw [hstate.2, entryBytes_empty, hstate.1]
    constructor
    · intro hle
      have : ¬ (cnt + 1 > L) := by omega
      simp [this]
    · intro hlt
      have : cnt + 1 > L := by omega
      simp [this]
  · cases hs

theorem accepted_iff_adjFrom (L : Nat) (s : WState) (last : Option Key) (cnt : Nat) (ks : List Key)
    (i : Nat) (h : WInv2 L s last cnt) :
    firstRejected L s ks i = none ↔ AdjFrom L last cnt ks := by
  induction ks generalizing s last cnt i with
  | nil => simp [firstRejected, AdjFrom]
  | cons k rest ih =>
    simp only [firstRejected, AdjFrom]
    have hacc := insert_accepts_iff2 L s last cnt k h
    cases hs : s.insert L k with
    | none =>
      simp only [hs, Option.isSome_none, Bool.false_eq_true, false_iff] at hacc
      simp only [reduceCtorEq, false_iff, not_and]
      intro h1; exact absurd h1 hacc
    | some s' =>
      simp only [hs, Option.isSome_some, true_iff] at hacc
      simp only
      rw [ih s' (some k) (cnt + 1) (i + 1) (insert_preserves2 L s s' last cnt k h hs)]
      constructor
      · intro h2; exact ⟨hacc, h2⟩
      · intro h2; exact h2.2

/-- the pairs of a sequence: every key above its predecessor, except that the `i+1`-th key may
repeat an empty `i`-th key while `i + 1 ≤ blockLen` (the run of empty keys still fits the block) -/
def AdjOK (L : Nat) : Nat → List Key → Prop
  | _, [] => True
  | _, [_] => True
  | i, a :: b :: rest => (lexLt a b = true ∨ (a = [] ∧ b = [] ∧ i + 1 ≤ L)) ∧ AdjOK L (i + 1) (b :: rest)

theorem adjFrom_some_iff (L : Nat) (a : Key) (cnt : Nat) (ks : List Key) :
    AdjFrom L (some a) (cnt + 1) ks ↔ AdjOK L cnt (a :: ks) := by
  induction ks generalizing a cnt with
  | nil => simp [AdjFrom, AdjOK]
  | cons b rest ih =>
    simp only [AdjFrom, AdjOK, reduceCtorEq, false_or, Option.some.injEq, exists_eq_left']
    rw [ih b (cnt + 1)]

theorem adjFrom_none_iff (L : Nat) (ks : List Key) : AdjFrom L none 0 ks ↔ AdjOK L 0 ks := by
  cases ks with
  | nil => simp [AdjFrom, AdjOK]
  | cons a rest =>
    simp only [AdjFrom, true_or, true_and]
    exact adjFrom_some_iff L a 0 rest

end TantivyModel.SSTable
