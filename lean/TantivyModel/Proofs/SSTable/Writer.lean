import TantivyModel.Proofs.SSTable.Order
/-! the writer's order check: what `Writer::insert_key` accepts -/
namespace TantivyModel.SSTable
open TantivyModel

theorem increasingKeys_nil (k : Key) : increasingKeys [] k = some true := by
  unfold increasingKeys
  simp [cpl]

/-- with a non-empty previous key the `increasing_keys` expression is exactly `prev < key`
(index panics counted as rejection) -/
theorem increasingKeys_iff (prev k : Key) (hp : prev ≠ []) :
    increasingKeys prev k = some true ↔ lexLt prev k = true := by
  unfold increasingKeys
  have hl := cpl_le_left prev k
  have hr := cpl_le_right prev k
  rw [lexLt_iff_cpl]
  by_cases h1 : k.length - cpl prev k > 0 ∧ prev.length = cpl prev k
  · rw [if_pos h1]
    simp only [true_iff]
    exact Or.inl ⟨h1.2.symm, by omega⟩
  · have hne : prev.isEmpty = false := by cases prev <;> simp at hp ⊢
    simp only [h1, if_false, hne, Bool.false_eq_true]
    by_cases ha : cpl prev k < prev.length
    · by_cases hb : cpl prev k < k.length
      · simp only [List.getElem?_eq_getElem ha, List.getElem?_eq_getElem hb, Option.some.injEq,
          decide_eq_true_eq]
        constructor
        · intro h; exact Or.inr ⟨ha, hb, h⟩
        · rintro (⟨h, _⟩ | ⟨_, _, h⟩)
          · omega
          · exact h
      · have : k[cpl prev k]? = none := List.getElem?_eq_none (by omega)
        simp only [this]
        constructor
        · intro h; simp at h
        · rintro (⟨h, _⟩ | ⟨_, hb', _⟩) <;> omega
    · have : prev[cpl prev k]? = none := List.getElem?_eq_none (by omega)
      simp only [this]
      constructor
      · intro h; simp at h
      · rintro (⟨h, h'⟩ | ⟨ha', _, _⟩)
        · exfalso; apply h1; exact ⟨by omega, h.symm⟩
        · omega

/-- `last` = the key inserted last (`none` before the first insertion) -/
def WInv (s : WState) (last : Option Key) : Prop :=
  if s.blockStart then s.prev = [] ∧ s.lastBlockKey = last else last = some s.prev

theorem WInv_init : WInv {} none := by simp [WInv]

/-- exact acceptance condition of one insertion -/
theorem insert_accepts_iff (L : Nat) (s : WState) (last : Option Key) (k : Key) (h : WInv s last) :
    (s.insert L k).isSome = true ↔
      (last = none ∨ (∃ l, last = some l ∧ lexLt l k = true) ∨
        (s.blockStart = false ∧ last = some [] ∧ k = [])) := by
  have hsg : separatorGuard = true := by decide
  have hig : increasingGuard = true := by decide
  have hinc : incOk s.prev k = true ↔ increasingKeys s.prev k = some true := by
    unfold incOk; simp [hig]
  have hins : (s.insert L k).isSome = true ↔ (s.sepOk k = true ∧ increasingKeys s.prev k = some true) := by
    rw [← hinc]
    unfold WState.insert; split <;> simp_all
  rw [hins]
  unfold WInv at h
  unfold WState.sepOk
  rw [hsg, Bool.and_true]
  by_cases hb : s.blockStart = true
  · simp only [hb, if_true] at h ⊢
    obtain ⟨hp, hl⟩ := h
    rw [hp, increasingKeys_nil, hl]
    cases last with
    | none => simp
    | some l => simp
  · have hb' : s.blockStart = false := by simpa using hb
    simp only [hb', Bool.false_eq_true, if_false] at h ⊢
    subst h
    by_cases hp : s.prev = []
    · rw [hp, increasingKeys_nil]
      cases k with
      | nil => simp
      | cons x xs => simp [lexLt]
    · have hi := increasingKeys_iff s.prev k hp
      rw [hi]
      simp [hp]

theorem insert_preserves (L : Nat) (s s' : WState) (last : Option Key) (k : Key) (_h : WInv s last)
    (hs : s.insert L k = some s') : WInv s' (some k) := by
  unfold WState.insert at hs
  split at hs
  · cases hs
    unfold WState.next
    split <;> simp [WInv]
  · cases hs

/-- no two consecutive empty keys (counting the key inserted before the sequence) -/
def NoEmptyDup : Option Key → List Key → Prop
  | _, [] => True
  | last, k :: ks => ¬ (last = some [] ∧ k = []) ∧ NoEmptyDup (some k) ks

theorem accepted_strictInc (L : Nat) (s : WState) (last : Option Key) (ks : List Key) (i : Nat)
    (hinv : WInv s last) (hacc : firstRejected L s ks i = none) (hne : NoEmptyDup last ks) :
    StrictInc (last.toList ++ ks) := by
  induction ks generalizing s last i with
  | nil => cases last <;> simp [StrictInc]
  | cons k rest ih =>
    simp only [firstRejected] at hacc
    cases hs : s.insert L k with
    | none => simp [hs] at hacc
    | some s' =>
      simp only [hs] at hacc
      have hacc1 := (insert_accepts_iff L s last k hinv).mp (by simp [hs])
      have ih' := ih s' (some k) (i + 1) (insert_preserves L s s' last k hinv hs) hacc hne.2
      cases last with
      | none => simpa using ih'
      | some l =>
        have hlt : lexLt l k = true := by
          rcases hacc1 with h | ⟨l', h1, h2⟩ | ⟨_, h1, h2⟩
          · cases h
          · cases h1; exact h2
          · exfalso; exact hne.1 ⟨h1, h2⟩
        simp only [Option.toList_some, List.singleton_append] at ih' ⊢
        exact ⟨hlt, ih'⟩

theorem strictInc_accepted (L : Nat) (s : WState) (last : Option Key) (ks : List Key) (i : Nat)
    (hinv : WInv s last) (h : StrictInc (last.toList ++ ks)) : firstRejected L s ks i = none := by
  induction ks generalizing s last i with
  | nil => rfl
  | cons k rest ih =>
    simp only [firstRejected]
    have hacc : (s.insert L k).isSome = true := by
      apply (insert_accepts_iff L s last k hinv).mpr
      cases last with
      | none => exact Or.inl rfl
      | some l => exact Or.inr (Or.inl ⟨l, rfl, by simpa using h.1⟩)
    cases hs : s.insert L k with
    | none => simp [hs] at hacc
    | some s' =>
      simp only
      apply ih s' (some k) (i + 1) (insert_preserves L s s' last k hinv hs)
      cases last with
      | none => simpa using h
      | some l => simpa using h.2

end TantivyModel.SSTable
