import TantivyModel.Proofs.SSTable.Routing
/-! dictionary operations on the block model refine the sorted-map specification -/
namespace TantivyModel.SSTable
open TantivyModel

/-- position of the first key ≥ k in a key list, exact if equal (spec form of `termOrdOrNext`) -/
def specHit (ks : List Key) (k : Key) : Hit :=
  let r := (ks.filter (fun a => lexLt a k)).length
  match ks[r]? with
  | some a => if a = k then .exact r else .next r
  | none => .next r

theorem Hit.shift_shift (h : Hit) (a b : Nat) : (h.shift a).shift b = h.shift (a + b) := by
  cases h <;> simp [Hit.shift, Nat.add_assoc]

theorem Hit.shift_zero (h : Hit) : h.shift 0 = h := by cases h <;> simp [Hit.shift]

theorem filter_lt_nil_of_all_ge {ks : List Key} {k : Key} (h : ∀ a ∈ ks, lexLt a k = false) :
    ks.filter (fun a => lexLt a k) = [] := by
  simp [List.filter_eq_nil_iff]; intro a ha; simp [h a ha]

theorem specHit_cons_lt {a k : Key} (ks : List Key) (h : lexLt a k = true) :
    specHit (a :: ks) k = (specHit ks k).shift 1 := by
  unfold specHit
  simp only [List.filter_cons, h, if_true, List.length_cons, List.getElem?_cons_succ]
  cases ks[(ks.filter fun a => lexLt a k).length]? with
  | none => simp [Hit.shift]
  | some b => simp only; split <;> simp [Hit.shift]

/-- the linear scan of a sorted block computes `specHit` -/
theorem scanOrNext_spec (ks : List Key) (k : Key) (i : Nat) (hs : StrictInc ks) :
    scanOrNext ks k i = (specHit ks k).shift i := by
  induction ks generalizing i with
  | nil => simp [scanOrNext, specHit, Hit.shift]
  | cons a rest ih =>
    simp only [scanOrNext]
    by_cases e : a = k
    · subst e
      have hge : ∀ x ∈ rest, lexLt x a = false := fun x hx => lexLt_asymm (hs.head_lt x hx)
      simp [specHit, List.filter_cons, lexLt_irrefl, filter_lt_nil_of_all_ge hge, Hit.shift]
    · simp only [e, if_false]
      by_cases hk : lexLt k a = true
      · have hge : ∀ x ∈ rest, lexLt x k = false :=
          fun x hx => lexLt_asymm (lexLt_trans hk (hs.head_lt x hx))
        simp [hk, specHit, List.filter_cons, lexLt_asymm hk, filter_lt_nil_of_all_ge hge, e, Hit.shift]
      · simp only [hk, Bool.false_eq_true, if_false]
        have hak : lexLt a k = true := by
          rcases lexLt_trichotomy a k with h | h | h
          · exact h
          · exact absurd h e
          · exact absurd h hk
        rw [ih (i + 1) hs.tail, specHit_cons_lt rest hak, Hit.shift_shift, Nat.add_comm]

/-- exact hits of a sorted list are `findIdx?` -/
theorem specHit_exact (ks : List Key) (k : Key) (hs : StrictInc ks) :
    (specHit ks k).exact? = ks.findIdx? (fun a => a == k) := by
  induction ks with
  | nil => simp [specHit, Hit.exact?]
  | cons a rest ih =>
    rw [List.findIdx?_cons]
    by_cases e : a = k
    · subst e
      have hge : ∀ x ∈ rest, lexLt x a = false := fun x hx => lexLt_asymm (hs.head_lt x hx)
      simp [specHit, List.filter_cons, lexLt_irrefl, filter_lt_nil_of_all_ge hge, Hit.exact?]
    · have hne : (a == k) = false := by simpa using e
      simp only [hne, Bool.false_eq_true, if_false]
      by_cases hk : lexLt k a = true
      · have hge : ∀ x ∈ rest, lexLt x k = false :=
          fun x hx => lexLt_asymm (lexLt_trans hk (hs.head_lt x hx))
        have hnone : rest.findIdx? (fun a => a == k) = none := by
          rw [List.findIdx?_eq_none_iff]
          intro x hx
          have := lexLt_ne (lexLt_trans hk (hs.head_lt x hx))
          simpa using fun h => this h.symm
        simp [specHit, List.filter_cons, lexLt_asymm hk, filter_lt_nil_of_all_ge hge, e, Hit.exact?, hnone]
      · have hak : lexLt a k = true := by
          rcases lexLt_trichotomy a k with h | h | h
          · exact h
          · exact absurd h e
          · exact absurd h hk
        rw [specHit_cons_lt rest hak, ← ih hs.tail]
        cases specHit rest k <;> simp [Hit.shift, Hit.exact?]

theorem termOrdOrNext_eq_specHit {V} (m : Assoc V) (k : Key) :
    termOrdOrNext m k = specHit (keys m) k := by
  unfold termOrdOrNext specHit rank keys
  have h1 : (m.filter (fun e => lexLt e.1 k)).length = ((m.map (·.1)).filter (fun a => lexLt a k)).length := by
    rw [List.filter_map]; simp [Function.comp_def]
  simp only [← h1, List.getElem?_map]
  cases m[(m.filter fun e => lexLt e.1 k).length]? <;> simp

theorem termOrd_eq_keys {V} (m : Assoc V) (k : Key) :
    termOrd m k = (keys m).findIdx? (fun a => a == k) := by
  unfold termOrd keys
  rw [List.findIdx?_map]; rfl

/-! ### lifting from a block to the whole map -/

/-- `m = pre ++ B ++ post`, every key of `pre` below `k`, every key of `post` above -/
structure Around {V} (m pre B post : Assoc V) (k : Key) : Prop where
  eq : m = pre ++ B ++ post
  below : ∀ e ∈ pre, lexLt e.1 k = true
  above : ∀ e ∈ post, lexLt k e.1 = true

theorem Around.filter_lt {V} {m pre B post : Assoc V} {k : Key} (h : Around m pre B post k) :
    (keys m).filter (fun a => lexLt a k) = keys pre ++ (keys B).filter (fun a => lexLt a k) := by
  rw [h.eq, keys_append, keys_append, List.filter_append, List.filter_append]
  have h1 : (keys pre).filter (fun a => lexLt a k) = keys pre := by
    rw [List.filter_eq_self]; intro a ha
    obtain ⟨e, he, rfl⟩ := List.mem_map.mp ha
    exact h.below e he
  have h2 : (keys post).filter (fun a => lexLt a k) = [] := by
    apply filter_lt_nil_of_all_ge; intro a ha
    obtain ⟨e, he, rfl⟩ := List.mem_map.mp ha
    exact lexLt_asymm (h.above e he)
  rw [h1, h2]; simp

theorem Around.specHit {V} {m pre B post : Assoc V} {k : Key} (h : Around m pre B post k) :
    specHit (keys m) k = (specHit (keys B) k).shift pre.length := by
  unfold SSTable.specHit
  rw [h.filter_lt]
  simp only [List.length_append]
  have hlen : (keys pre).length = pre.length := by simp [keys]
  rw [hlen]
  have hidx : (keys m)[pre.length + ((keys B).filter fun a => lexLt a k).length]?
      = (keys B ++ keys post)[((keys B).filter fun a => lexLt a k).length]? := by
    rw [h.eq, keys_append, keys_append, List.append_assoc, List.getElem?_append_right (by simp [keys])]
    simp [keys]
  rw [hidx]
  have hr : ((keys B).filter fun a => lexLt a k).length ≤ (keys B).length := List.length_filter_le _ _
  by_cases hlt : ((keys B).filter fun a => lexLt a k).length < (keys B).length
  · rw [List.getElem?_append_left hlt]
    cases (keys B)[((keys B).filter fun a => lexLt a k).length]? with
    | none => simp [Hit.shift, Nat.add_comm]
    | some a => simp only; split <;> simp [Hit.shift, Nat.add_comm]
  · have heq : ((keys B).filter fun a => lexLt a k).length = (keys B).length := by omega
    rw [heq, List.getElem?_append_right (Nat.le_refl _)]
    simp only [Nat.sub_self, List.getElem?_eq_none (Nat.le_refl _)]
    cases hp : (keys post)[0]? with
    | none => simp [Hit.shift, Nat.add_comm]
    | some a =>
      have hm : a ∈ keys post := List.mem_of_getElem? hp
      obtain ⟨e, he, rfl⟩ := List.mem_map.mp hm
      have : e.1 ≠ k := fun e' => by
        have := h.above e he; rw [e'] at this; rw [lexLt_irrefl] at this; cases this
      simp [this, Hit.shift, Nat.add_comm]

theorem Around.sortedB {V} {m pre B post : Assoc V} {k : Key} (h : Around m pre B post k)
    (hs : SortedMap m) : StrictInc (keys B) := by
  unfold SortedMap at hs
  rw [h.eq, List.append_assoc] at hs
  exact (sorted_append_lt (sorted_append_lt hs).2.1).1

/-- value lookup: `get` is the value at the exact ordinal -/
theorem get_eq_of_termOrd {V} (m : Assoc V) (k : Key) :
    get m k = (termOrd m k).bind (fun i => (m[i]?).map (·.2)) := by
  unfold get termOrd
  induction m with
  | nil => simp
  | cons e rest ih =>
    rw [List.find?_cons, List.findIdx?_cons]
    by_cases h : (e.1 == k) = true
    · simp [h]
    · simp only [h, Bool.false_eq_true, if_false]
      rw [ih]
      cases rest.findIdx? (fun e => e.1 == k) <;> simp

theorem Around.getElem {V} {m pre B post : Assoc V} {k : Key} (h : Around m pre B post k)
    (i : Nat) (hi : i < B.length) : m[pre.length + i]? = B[i]? := by
  rw [h.eq, List.append_assoc, List.getElem?_append_right (by omega)]
  simp [List.getElem?_append_left hi]

end TantivyModel.SSTable
