import TantivyModel.Proofs.SSTable.Ops
import TantivyModel.Model.SSTable.Merge
/-! k-way merge = sorted union with merged values and monotone ordinal tables -/
namespace TantivyModel.SSTable
open TantivyModel

/-! ### sorted union of keys -/

theorem mem_insertKey (k x : Key) (l : List Key) : x ∈ insertKey k l ↔ x = k ∨ x ∈ l := by
  induction l with
  | nil => simp [insertKey]
  | cons a rest ih =>
    simp only [insertKey]
    split
    · simp
    · split
      · rename_i h; subst h; simp
      · simp [ih]; constructor
        · rintro (h | h | h)
          · exact Or.inr (Or.inl h)
          · exact Or.inl h
          · exact Or.inr (Or.inr h)
        · rintro (h | h | h)
          · exact Or.inr (Or.inl h)
          · exact Or.inl h
          · exact Or.inr (Or.inr h)

theorem strictInc_cons_iff (a : Key) (l : List Key) :
    StrictInc (a :: l) ↔ (∀ x ∈ l, lexLt a x = true) ∧ StrictInc l := by
  rw [strictInc_iff_pairwise, List.pairwise_cons, ← strictInc_iff_pairwise]

theorem insertKey_sorted (k : Key) (l : List Key) (h : StrictInc l) : StrictInc (insertKey k l) := by
  induction l with
  | nil => simp [insertKey, StrictInc]
  | cons a rest ih =>
    have ⟨h1, h2⟩ := (strictInc_cons_iff a rest).mp h
    simp only [insertKey]
    split
    · rename_i hk
      rw [strictInc_cons_iff]
      refine ⟨?_, h⟩
      intro x hx
      rcases List.mem_cons.mp hx with e | hx
      · subst e; exact hk
      · exact lexLt_trans hk (h1 x hx)
    · split
      · exact h
      · rename_i hk hne
        have hak : lexLt a k = true := by
          rcases lexLt_trichotomy a k with h' | h' | h'
          · exact h'
          · exact absurd h'.symm hne
          · exact absurd h' hk
        rw [strictInc_cons_iff]
        refine ⟨?_, ih h2⟩
        intro x hx
        rcases (mem_insertKey k x rest).mp hx with e | hx
        · subst e; exact hak
        · exact h1 x hx

theorem unionKeys_sorted (ls : List (List Key)) : StrictInc (unionKeys ls) := by
  unfold unionKeys
  induction ls.flatten with
  | nil => simp [StrictInc]
  | cons a rest ih => exact insertKey_sorted a _ ih

theorem mem_unionKeys (ls : List (List Key)) (x : Key) : x ∈ unionKeys ls ↔ ∃ l ∈ ls, x ∈ l := by
  unfold unionKeys
  have : ∀ fl : List Key, x ∈ fl.foldr insertKey [] ↔ x ∈ fl := by
    intro fl
    induction fl with
    | nil => simp
    | cons a rest ih => simp [mem_insertKey, ih]
  rw [this]; simp [List.mem_flatten]

/-- a strictly increasing list is determined by its members -/
theorem strictInc_ext (l1 l2 : List Key) (h1 : StrictInc l1) (h2 : StrictInc l2)
    (hm : ∀ x, x ∈ l1 ↔ x ∈ l2) : l1 = l2 := by
  induction l1 generalizing l2 with
  | nil =>
    cases l2 with
    | nil => rfl
    | cons b r => exact absurd ((hm b).mpr (by simp)) (by simp)
  | cons a r1 ih =>
    cases l2 with
    | nil => exact absurd ((hm a).mp (by simp)) (by simp)
    | cons b r2 =>
      have ⟨ha, hr1⟩ := (strictInc_cons_iff a r1).mp h1
      have ⟨hb, hr2⟩ := (strictInc_cons_iff b r2).mp h2
      have hab : a = b := by
        have h3 : a ∈ b :: r2 := (hm a).mp (by simp)
        have h4 : b ∈ a :: r1 := (hm b).mpr (by simp)
        rcases List.mem_cons.mp h3 with e | h3
        · exact e
        · rcases List.mem_cons.mp h4 with e | h4
          · exact e.symm
          · have := lexLt_trans (hb a h3) (ha b h4)
            rw [lexLt_irrefl] at this; cases this
      subst hab
      congr 1
      apply ih r2 hr1 hr2
      intro x
      constructor
      · intro hx
        have := (hm x).mp (List.mem_cons_of_mem _ hx)
        rcases List.mem_cons.mp this with e | h
        · subst e; have := ha x hx; rw [lexLt_irrefl] at this; cases this
        · exact h
      · intro hx
        have := (hm x).mpr (List.mem_cons_of_mem _ hx)
        rcases List.mem_cons.mp this with e | h
        · subst e; have := hb x hx; rw [lexLt_irrefl] at this; cases this
        · exact h

/-! ### the minimal head -/

theorem minKey_none (l : List Key) : minKey l = none ↔ l = [] := by
  cases l with
  | nil => simp [minKey]
  | cons a r => simp only [minKey]; cases minKey r <;> simp

theorem minKey_spec (l : List Key) (k : Key) (h : minKey l = some k) :
    k ∈ l ∧ ∀ x ∈ l, lexLe k x = true := by
  induction l generalizing k with
  | nil => simp [minKey] at h
  | cons a r ih =>
    simp only [minKey] at h
    cases hr : minKey r with
    | none =>
      simp only [hr, Option.some.injEq] at h
      subst h
      have : r = [] := (minKey_none r).mp hr
      subst this
      simp [lexLe_refl]
    | some m =>
      simp only [hr, Option.some.injEq] at h
      obtain ⟨hm1, hm2⟩ := ih m hr
      by_cases hlt : lexLt a m = true
      · simp only [hlt, if_true] at h
        subst h
        refine ⟨by simp, ?_⟩
        intro x hx
        rcases List.mem_cons.mp hx with e | hx
        · subst e; exact lexLe_refl _
        · exact lexLe_of_lt (lexLt_of_lt_of_le hlt (hm2 x hx))
      · simp only [hlt, Bool.false_eq_true, if_false] at h
        subst h
        refine ⟨List.mem_cons_of_mem _ hm1, ?_⟩
        intro x hx
        rcases List.mem_cons.mp hx with e | hx
        · subst e; exact lexLt_false_iff_le.mp (by simpa using hlt)
        · exact hm2 x hx

/-! ### one round of the merge -/

variable {V : Type}

def AllSorted (S : List (Assoc V)) : Prop := ∀ m ∈ S, SortedMap m

def popOne (k : Key) (m : Assoc V) : Assoc V :=
  match m with | e :: r => if e.1 = k then r else m | [] => []

def headVal (k : Key) (m : Assoc V) : Option V :=
  match m with | e :: _ => if e.1 = k then some e.2 else none | [] => none

theorem popRest_eq (k : Key) (S : List (Assoc V)) : popRest k S = S.map (popOne k) := rfl
theorem popValues_eq (k : Key) (S : List (Assoc V)) : popValues k S = S.filterMap (headVal k) := rfl

theorem all_empty_mergeSpec (comb : List V → V) (S : List (Assoc V)) (h : ∀ m ∈ S, m = []) :
    mergeSpec comb S = [] := by
  unfold mergeSpec unionKeys
  have : (S.map keys).flatten = [] := by
    rw [List.flatten_eq_nil_iff]
    intro l hl
    obtain ⟨m, hm, rfl⟩ := List.mem_map.mp hl
    rw [h m hm]; rfl
  rw [this]; rfl

theorem heads_nil (S : List (Assoc V)) (h : heads S = []) : ∀ m ∈ S, m = [] := by
  intro m hm
  unfold heads at h
  rw [List.filterMap_eq_nil_iff] at h
  have := h m hm
  cases m with
  | nil => rfl
  | cons e r => simp at this

theorem totalLen_zero (S : List (Assoc V)) (h : totalLen S = 0) : ∀ m ∈ S, m = [] := by
  induction S with
  | nil => simp
  | cons a rest ih =>
    simp only [totalLen, List.map_cons, List.sum_cons] at h
    intro m hm
    rcases List.mem_cons.mp hm with e | hm
    · subst e; exact List.eq_nil_of_length_eq_zero (by omega)
    · exact ih (by simp only [totalLen]; omega) m hm

/-- the minimal head is at or below every key of every (sorted) input -/
theorem min_le_all (S : List (Assoc V)) (hs : AllSorted S) (k : Key) (hk : minKey (heads S) = some k) :
    ∀ m ∈ S, ∀ e ∈ m, lexLe k e.1 = true := by
  intro m hm e he
  obtain ⟨_, hmin⟩ := minKey_spec _ k hk
  cases m with
  | nil => simp at he
  | cons h r =>
    have hh : h.1 ∈ heads S := by
      unfold heads
      exact List.mem_filterMap.mpr ⟨h :: r, hm, rfl⟩
    have h1 := hmin _ hh
    rcases List.mem_cons.mp he with e1 | e1
    · subst e1; exact h1
    · have : lexLt h.1 e.1 = true :=
        StrictInc.head_lt (a := h.1) (ks := keys r) (by simpa [keys, SortedMap] using hs _ hm) _
          (List.mem_map_of_mem e1)
      exact lexLe_of_lt (lexLt_of_le_of_lt h1 this)

theorem get_eq_headVal (m : Assoc V) (hs : SortedMap m) (k : Key) (hge : ∀ e ∈ m, lexLe k e.1 = true) :
    get m k = headVal k m := by
  cases m with
  | nil => rfl
  | cons e r =>
    unfold get headVal
    rw [List.find?_cons]
    by_cases h : e.1 = k
    · simp [h]
    · have hne : (e.1 == k) = false := by simpa using h
      simp only [hne, Bool.false_eq_true, if_false, h]
      have hk : lexLt k e.1 = true := by
        rcases lexLe_iff.mp (hge e (by simp)) with h' | h'
        · exact h'
        · exact absurd h'.symm h
      have : r.find? (fun x => x.1 == k) = none := by
        rw [List.find?_eq_none]
        intro x hx
        have : lexLt e.1 x.1 = true :=
          StrictInc.head_lt (a := e.1) (ks := keys r) (by simpa [keys, SortedMap] using hs) _
            (List.mem_map_of_mem hx)
        have := lexLt_ne (lexLt_trans hk this)
        simpa using fun h' => this h'.symm
      simp [this]

theorem get_popOne (m : Assoc V) (k x : Key) (hx : x ≠ k) : get (popOne k m) x = get m x := by
  cases m with
  | nil => rfl
  | cons e r =>
    unfold popOne
    by_cases h : e.1 = k
    · simp only [h, if_true]
      unfold get
      rw [List.find?_cons]
      have : (e.1 == x) = false := by rw [h]; simpa using fun h' => hx h'.symm
      simp [this]
    · simp [h]

theorem popOne_cons (k : Key) (e : Key × V) (r : Assoc V) :
    popOne k (e :: r) = if e.1 = k then r else e :: r := rfl

theorem filterMap_congr' {α β} (f g : α → Option β) (l : List α) (h : ∀ x ∈ l, f x = g x) :
    l.filterMap f = l.filterMap g := by
  induction l with
  | nil => rfl
  | cons a rest ih =>
    simp only [List.filterMap_cons, h a (by simp)]
    rw [ih (fun x hx => h x (List.mem_cons_of_mem _ hx))]

theorem popOne_sorted (m : Assoc V) (k : Key) (hs : SortedMap m) : SortedMap (popOne k m) := by
  cases m with
  | nil => exact hs
  | cons e r =>
    rw [popOne_cons]
    by_cases h : e.1 = k
    · simp only [h, if_true]
      have : StrictInc (keys r) := StrictInc.tail (a := e.1) (by simpa [keys, SortedMap] using hs)
      exact this
    · simp only [h, if_false]; exact hs

theorem popOne_length_le (m : Assoc V) (k : Key) : (popOne k m).length ≤ m.length := by
  cases m with
  | nil => simp [popOne]
  | cons e r => rw [popOne_cons]; by_cases h : e.1 = k <;> simp [h]

/-- keys of a popped input: the same keys except `k` -/
theorem mem_keys_popOne (m : Assoc V) (hs : SortedMap m) (k : Key)
    (hge : ∀ e ∈ m, lexLe k e.1 = true) (x : Key) :
    x ∈ keys (popOne k m) ↔ x ∈ keys m ∧ x ≠ k := by
  cases m with
  | nil => simp [popOne, keys]
  | cons e r =>
    have htail : ∀ y ∈ keys r, lexLt e.1 y = true :=
      StrictInc.head_lt (a := e.1) (ks := keys r) (by simpa [keys, SortedMap] using hs)
    unfold popOne
    by_cases h : e.1 = k
    · simp only [h, if_true]
      constructor
      · intro hx
        refine ⟨by simp [keys] at hx ⊢; exact Or.inr hx, ?_⟩
        intro e'; subst e'
        have := htail x hx; rw [h, lexLt_irrefl] at this; cases this
      · rintro ⟨hx, hne⟩
        simp only [keys, List.map_cons, List.mem_cons] at hx
        rcases hx with e' | hx
        · exact absurd (e'.trans h) hne
        · exact hx
    · simp only [h, if_false]
      constructor
      · intro hx
        refine ⟨hx, ?_⟩
        intro e'; subst e'
        have hk : lexLt x e.1 = true := by
          rcases lexLe_iff.mp (hge e (by simp)) with h' | h'
          · exact h'
          · exact absurd h'.symm h
        simp only [keys, List.map_cons, List.mem_cons] at hx
        rcases hx with e' | hx
        · rw [e', lexLt_irrefl] at hk; cases hk
        · have := lexLt_trans hk (htail x hx); rw [lexLt_irrefl] at this; cases this
      · exact fun h' => h'.1

theorem sum_popOne_le (rest : List (Assoc V)) (k : Key) :
    ((rest.map (popOne k)).map List.length).sum ≤ (rest.map List.length).sum := by
  induction rest with
  | nil => simp
  | cons a r ih =>
    simp only [List.map_cons, List.sum_cons]
    have := popOne_length_le a k
    omega

theorem totalLen_popRest_lt (S : List (Assoc V)) (k : Key) (hk : k ∈ heads S) :
    totalLen (popRest k S) < totalLen S := by
  induction S with
  | nil => simp [heads] at hk
  | cons m rest ih =>
    simp only [totalLen, popRest_eq, List.map_cons, List.sum_cons]
    have hle := sum_popOne_le rest k
    unfold heads at hk
    simp only [List.filterMap_cons] at hk
    cases m with
    | nil =>
      simp only [List.head?_nil, Option.map_none] at hk
      have := ih (by unfold heads; exact hk)
      simp only [totalLen, popRest_eq] at this
      have hnil : popOne k ([] : Assoc V) = [] := rfl
      rw [hnil]; simp only [List.length_nil]; omega
    | cons e r =>
      simp only [List.head?_cons, Option.map_some, List.mem_cons] at hk
      rcases hk with h | h
      · have : popOne k (e :: r) = r := by simp [popOne_cons, h]
        rw [this]; simp only [List.length_cons]; omega
      · have := ih (by unfold heads; exact h)
        simp only [totalLen, popRest_eq] at this
        have := popOne_length_le (e :: r) k
        omega

theorem popRest_sorted (S : List (Assoc V)) (hs : AllSorted S) (k : Key) : AllSorted (popRest k S) := by
  intro m hm
  rw [popRest_eq] at hm
  obtain ⟨m0, hm0, rfl⟩ := List.mem_map.mp hm
  exact popOne_sorted m0 k (hs m0 hm0)

/-- one round: the specification of the state = the emitted entry followed by the specification
of the popped state -/
theorem mergeSpec_round (comb : List V → V) (S : List (Assoc V)) (hs : AllSorted S) (k : Key)
    (hk : minKey (heads S) = some k) :
    mergeSpec comb S = (k, comb (popValues k S)) :: mergeSpec comb (popRest k S) := by
  have hge := min_le_all S hs k hk
  have hkmem : k ∈ heads S := (minKey_spec _ k hk).1
  have hunion : unionKeys (S.map keys) = k :: unionKeys ((popRest k S).map keys) := by
    apply strictInc_ext _ _ (unionKeys_sorted _)
    · rw [strictInc_cons_iff]
      refine ⟨?_, unionKeys_sorted _⟩
      intro x hx
      obtain ⟨l, hl, hxl⟩ := (mem_unionKeys _ x).mp hx
      rw [popRest_eq, List.map_map] at hl
      obtain ⟨m0, hm0, rfl⟩ := List.mem_map.mp hl
      obtain ⟨hx1, hx2⟩ := (mem_keys_popOne m0 (hs m0 hm0) k (hge m0 hm0) x).mp hxl
      obtain ⟨e, he, rfl⟩ := List.mem_map.mp hx1
      rcases lexLe_iff.mp (hge m0 hm0 e he) with h | h
      · exact h
      · exact absurd h.symm hx2
    · intro x
      rw [mem_unionKeys, List.mem_cons, mem_unionKeys]
      constructor
      · rintro ⟨l, hl, hxl⟩
        obtain ⟨m0, hm0, rfl⟩ := List.mem_map.mp hl
        by_cases hxk : x = k
        · exact Or.inl hxk
        · right
          refine ⟨keys (popOne k m0), ?_, (mem_keys_popOne m0 (hs m0 hm0) k (hge m0 hm0) x).mpr ⟨hxl, hxk⟩⟩
          rw [popRest_eq, List.map_map]
          exact List.mem_map.mpr ⟨m0, hm0, rfl⟩
      · rintro (hxk | ⟨l, hl, hxl⟩)
        · subst hxk
          unfold heads at hkmem
          obtain ⟨m0, hm0, hh⟩ := List.mem_filterMap.mp hkmem
          refine ⟨keys m0, List.mem_map_of_mem hm0, ?_⟩
          cases m0 with
          | nil => simp at hh
          | cons e r => simp at hh; subst hh; simp [keys]
        · rw [popRest_eq, List.map_map] at hl
          obtain ⟨m0, hm0, rfl⟩ := List.mem_map.mp hl
          exact ⟨keys m0, List.mem_map_of_mem hm0,
            ((mem_keys_popOne m0 (hs m0 hm0) k (hge m0 hm0) x).mp hxl).1⟩
  unfold mergeSpec
  rw [hunion, List.map_cons]
  congr 1
  · congr 2
    rw [popValues_eq]
    apply filterMap_congr'
    intro m0 hm0
    exact get_eq_headVal m0 (hs m0 hm0) k (hge m0 hm0)
  · apply List.map_congr_left
    intro x hx
    have hxk : x ≠ k := by
      intro e; subst e
      have := (strictInc_cons_iff x _).mp (by rw [← hunion]; exact unionKeys_sorted _)
      have := this.1 x hx
      rw [lexLt_irrefl] at this; cases this
    congr 2
    rw [popRest_eq, List.filterMap_map]
    apply filterMap_congr'
    intro m0 _
    exact (get_popOne m0 k x hxk).symm

/-- the k-way merge computes the specification, for every fuel that covers the input -/
theorem kmerge_eq (comb : List V → V) (fuel : Nat) (S : List (Assoc V)) (hs : AllSorted S)
    (hf : totalLen S ≤ fuel) : kmerge comb fuel S = mergeSpec comb S := by
  induction fuel generalizing S with
  | zero =>
    simp only [kmerge]
    exact (all_empty_mergeSpec comb S (totalLen_zero S (by omega))).symm
  | succ fuel ih =>
    simp only [kmerge]
    cases hk : minKey (heads S) with
    | none =>
      simp only
      exact (all_empty_mergeSpec comb S (heads_nil S ((minKey_none _).mp hk))).symm
    | some k =>
      simp only
      have hlt := totalLen_popRest_lt S k (minKey_spec _ k hk).1
      rw [ih (popRest k S) (popRest_sorted S hs k) (by omega), mergeSpec_round comb S hs k hk]

/-! ### ordinal tables -/

/-- ordinal of a key in a sorted key list = number of keys below it -/
def ordOf (ks : List Key) (k : Key) : Nat := (ks.filter (fun a => lexLt a k)).length

theorem findIdx_ordOf (ks : List Key) (k : Key) (hs : StrictInc ks) (hk : k ∈ ks) :
    ks.findIdx? (fun a => a == k) = some (ordOf ks k) ∧ ks[ordOf ks k]? = some k := by
  induction ks with
  | nil => simp at hk
  | cons a rest ih =>
    have ⟨hlt, hrest⟩ := (strictInc_cons_iff a rest).mp hs
    rw [List.findIdx?_cons]
    by_cases e : a = k
    · subst e
      have hge : ∀ x ∈ rest, lexLt x a = false := fun x hx => lexLt_asymm (hlt x hx)
      simp [ordOf, List.filter_cons, lexLt_irrefl, filter_lt_nil_of_all_ge hge]
    · have hkr : k ∈ rest := by
        rcases List.mem_cons.mp hk with h | h
        · exact absurd h.symm e
        · exact h
      have hak : lexLt a k = true := hlt k hkr
      have hne : (a == k) = false := by simpa using e
      obtain ⟨h1, h2⟩ := ih hrest hkr
      have hord : ordOf (a :: rest) k = ordOf rest k + 1 := by
        simp [ordOf, List.filter_cons, hak]
      simp only [hne, Bool.false_eq_true, if_false, h1, Option.map_some, hord, List.getElem?_cons_succ]
      exact ⟨trivial, h2⟩

theorem filter_length_lt {α} (p q : α → Bool) (l : List α) (hpq : ∀ x ∈ l, p x = true → q x = true)
    (a : α) (ha : a ∈ l) (hqa : q a = true) (hpa : p a = false) :
    (l.filter p).length < (l.filter q).length := by
  induction l with
  | nil => simp at ha
  | cons x rest ih =>
    have hle : (rest.filter p).length ≤ (rest.filter q).length := by
      clear ih ha
      induction rest with
      | nil => simp
      | cons y r ih' =>
        have hy := hpq y (by simp)
        have := ih' (fun z hz => hpq z (by
          rcases List.mem_cons.mp hz with h | h
          · subst h; simp
          · simp [h]))
        simp only [List.filter_cons]
        cases hp : p y <;> cases hq : q y <;> simp <;> first | omega | (rw [hp] at hy; simp [hq] at hy)
    rcases List.mem_cons.mp ha with e | ha'
    · subst e
      simp only [List.filter_cons, hqa, hpa, if_true, Bool.false_eq_true, if_false, List.length_cons]
      omega
    · have := ih (fun z hz => hpq z (List.mem_cons_of_mem _ hz)) ha'
      have hx := hpq x (by simp)
      simp only [List.filter_cons]
      cases hp : p x <;> cases hq : q x <;> simp <;> first | omega | (rw [hp] at hx; simp [hq] at hx)

theorem ordOf_lt (ks : List Key) (a b : Key) (ha : a ∈ ks) (hab : lexLt a b = true) :
    ordOf ks a < ordOf ks b :=
  filter_length_lt _ _ ks (fun x _ hx => lexLt_trans hx hab) a ha hab (lexLt_irrefl a)

theorem keys_mergeSpec (comb : List V → V) (S : List (Assoc V)) :
    keys (mergeSpec comb S) = unionKeys (S.map keys) := by
  simp [keys, mergeSpec, List.map_map, Function.comp_def]

/-- the old→new ordinal table of an input: total, key preserving, strictly increasing -/
theorem ordMap_spec (comb : List V → V) (S : List (Assoc V)) (hs : AllSorted S) (m : Assoc V)
    (hm : m ∈ S) :
    ordMap m (mergeSpec comb S) = m.map (fun e => some (ordOf (keys (mergeSpec comb S)) e.1)) ∧
    (∀ e ∈ m, (keys (mergeSpec comb S))[ordOf (keys (mergeSpec comb S)) e.1]? = some e.1) ∧
    (m.map (fun e => ordOf (keys (mergeSpec comb S)) e.1)).Pairwise (· < ·) := by
  have hsorted : StrictInc (keys (mergeSpec comb S)) := by rw [keys_mergeSpec]; exact unionKeys_sorted _
  have hmem : ∀ e ∈ m, e.1 ∈ keys (mergeSpec comb S) := by
    intro e he
    rw [keys_mergeSpec, mem_unionKeys]
    exact ⟨keys m, List.mem_map_of_mem hm, List.mem_map_of_mem he⟩
  refine ⟨?_, fun e he => (findIdx_ordOf _ e.1 hsorted (hmem e he)).2, ?_⟩
  · unfold ordMap
    apply List.map_congr_left
    intro e he
    rw [termOrd_eq_keys]
    exact (findIdx_ordOf _ e.1 hsorted (hmem e he)).1
  · have hpm : m.Pairwise (fun a b => lexLt a.1 b.1 = true) := by
      have := (strictInc_iff_pairwise (keys m)).mp (hs m hm)
      simpa [keys, List.pairwise_map] using this
    rw [List.pairwise_map]
    apply List.Pairwise.imp_of_mem _ hpm
    intro a b ha _ hab
    exact ordOf_lt _ a.1 b.1 (hmem a ha) hab

/-! ### the per-round ordinal tables (columnar `TermMerger`) -/

/-- what one round reports for one input: the position of the key in the remaining input,
offset by what was already consumed -/
def roundRow (k : Key) (pos : List Nat) (S : List (Assoc V)) : List (Option Nat) :=
  (pos.zip S).map (fun p => (termOrd p.2 k).map (· + p.1))

def headIs (k : Key) (m : Assoc V) : Bool :=
  match m with | e :: _ => decide (e.1 = k) | [] => false

theorem popWho_eq (k : Key) (S : List (Assoc V)) : popWho k S = S.map (headIs k) := rfl

theorem termOrd_head (m : Assoc V) (hs : SortedMap m) (k : Key) (hge : ∀ e ∈ m, lexLe k e.1 = true) :
    termOrd m k = if headIs k m then some 0 else none := by
  cases m with
  | nil => rfl
  | cons e r =>
    unfold termOrd headIs
    rw [List.findIdx?_cons]
    by_cases h : e.1 = k
    · simp [h]
    · have hne : (e.1 == k) = false := by simpa using h
      simp only [hne, Bool.false_eq_true, if_false, h, decide_false]
      have hk : lexLt k e.1 = true := by
        rcases lexLe_iff.mp (hge e (by simp)) with h' | h'
        · exact h'
        · exact absurd h'.symm h
      have : r.findIdx? (fun x => x.1 == k) = none := by
        rw [List.findIdx?_eq_none_iff]
        intro x hx
        have : lexLt e.1 x.1 = true :=
          StrictInc.head_lt (a := e.1) (ks := keys r) (by simpa [keys, SortedMap] using hs) _
            (List.mem_map_of_mem hx)
        have := lexLt_ne (lexLt_trans hk this)
        simpa using fun h' => this h'.symm
      simp [this]

theorem termOrd_popOne (m : Assoc V) (k x : Key) (hx : x ≠ k) (p : Nat) :
    (termOrd (popOne k m) x).map (· + (if headIs k m then p + 1 else p)) = (termOrd m x).map (· + p) := by
  cases m with
  | nil => rfl
  | cons e r =>
    rw [popOne_cons]
    unfold headIs
    by_cases h : e.1 = k
    · simp only [h, if_true, decide_true]
      unfold termOrd
      rw [List.findIdx?_cons]
      have : (e.1 == x) = false := by rw [h]; simpa using fun h' => hx h'.symm
      simp only [this, Bool.false_eq_true, if_false]
      cases r.findIdx? (fun e => e.1 == x) with
      | none => rfl
      | some j => simp; omega
    · simp [h]

/-- the row of the current round -/
theorem round_row_now (k : Key) (pos : List Nat) (S : List (Assoc V)) (hlen : pos.length = S.length)
    (hs : AllSorted S) (hge : ∀ m ∈ S, ∀ e ∈ m, lexLe k e.1 = true) :
    (pos.zip (popWho k S)).map (fun p => if p.2 then some p.1 else none) = roundRow k pos S := by
  rw [popWho_eq]
  unfold roundRow
  induction S generalizing pos with
  | nil => simp
  | cons m rest ih =>
    cases pos with
    | nil => simp at hlen
    | cons p ps =>
      simp only [List.map_cons, List.zip_cons_cons]
      congr 1
      · rw [termOrd_head m (hs m (by simp)) k (hge m (by simp))]
        cases headIs k m <;> simp
      · exact ih ps (by simpa using hlen) (fun x hx => hs x (List.mem_cons_of_mem _ hx))
          (fun x hx => hge x (List.mem_cons_of_mem _ hx))

/-- later keys: positions and remaining inputs move together -/
theorem round_row_later (k x : Key) (hx : x ≠ k) (pos : List Nat) (S : List (Assoc V))
    (hlen : pos.length = S.length) :
    roundRow x ((pos.zip (popWho k S)).map (fun p => if p.2 then p.1 + 1 else p.1)) (S.map (popOne k))
      = roundRow x pos S := by
  rw [popWho_eq]
  unfold roundRow
  induction S generalizing pos with
  | nil => simp
  | cons m rest ih =>
    cases pos with
    | nil => simp at hlen
    | cons p ps =>
      simp only [List.map_cons, List.zip_cons_cons]
      congr 1
      · exact termOrd_popOne m k x hx p
      · exact ih ps (by simpa using hlen)

/-- the per-round tables of the heap merge: round `j` reports, for every input, the old ordinal of
the `j`-th merged key in that input (`none` if the input does not hold it) -/
theorem kmergeOrds_eq (comb : List V → V) (fuel : Nat) (pos : List Nat) (S : List (Assoc V))
    (hs : AllSorted S) (hf : totalLen S ≤ fuel) (hlen : pos.length = S.length) :
    kmergeOrds fuel pos S = (keys (mergeSpec comb S)).map (fun k => roundRow k pos S) := by
  induction fuel generalizing pos S with
  | zero =>
    simp only [kmergeOrds]
    rw [all_empty_mergeSpec comb S (totalLen_zero S (by omega))]; rfl
  | succ fuel ih =>
    simp only [kmergeOrds]
    cases hk : minKey (heads S) with
    | none =>
      simp only
      rw [all_empty_mergeSpec comb S (heads_nil S ((minKey_none _).mp hk))]; rfl
    | some k =>
      simp only
      have hge := min_le_all S hs k hk
      have hlt := totalLen_popRest_lt S k (minKey_spec _ k hk).1
      have hsorted : StrictInc (keys (mergeSpec comb S)) := by
        rw [keys_mergeSpec]; exact unionKeys_sorted _
      rw [mergeSpec_round comb S hs k hk] at hsorted ⊢
      have hcons : keys ((k, comb (popValues k S)) :: mergeSpec comb (popRest k S))
          = k :: keys (mergeSpec comb (popRest k S)) := by simp [keys]
      rw [hcons] at hsorted ⊢
      rw [List.map_cons]
      have hpos' : ((pos.zip (popWho k S)).map (fun p => if p.2 then p.1 + 1 else p.1)).length
          = (popRest k S).length := by
        simp [popWho_eq, popRest_eq, hlen]
      rw [ih _ (popRest k S) (popRest_sorted S hs k) (by omega) hpos', round_row_now k pos S hlen hs hge]
      congr 1
      apply List.map_congr_left
      intro x hx
      have hxk : x ≠ k := by
        intro e; subst e
        have := ((strictInc_cons_iff x _).mp hsorted).1 x hx
        rw [lexLt_irrefl] at this; cases this
      rw [popRest_eq]
      exact round_row_later k x hxk pos S hlen

end TantivyModel.SSTable
