import TantivyModel.Proofs.SSTable.Prune
import TantivyModel.Proofs.SSTable.RangeDict
/-! automaton streams of the dictionary: index walk with pruning + block-id range filter +
streamer = filter accepts -/
namespace TantivyModel.SSTable
open TantivyModel

variable {σ V : Type}

/-- `ks` is `as` with some blocks removed, each removed block holding no entry satisfying `p` -/
inductive Pruned (p : Key × V → Bool) : List (Assoc V) → List (Assoc V) → Prop
  | nil : Pruned p [] []
  | keep (b : Assoc V) {ks as : List (Assoc V)} : Pruned p ks as → Pruned p (b :: ks) (b :: as)
  | drop (b : Assoc V) {ks as : List (Assoc V)} : (∀ e ∈ b, p e = false) → Pruned p ks as → Pruned p ks (b :: as)

theorem Pruned.filter_eq {p : Key × V → Bool} {ks as : List (Assoc V)} (h : Pruned p ks as) :
    ks.flatten.filter p = as.flatten.filter p := by
  induction h with
  | nil => rfl
  | keep b _ ih => simp [List.filter_append, ih]
  | drop b hb _ ih =>
    have : b.filter p = [] := by
      rw [List.filter_eq_nil_iff]; intro e he; simp [hb e he]
    simp [List.filter_append, ih, this]

theorem Pruned.sublist {p : Key × V → Bool} {ks as : List (Assoc V)} (h : Pruned p ks as) :
    ks.flatten.Sublist as.flatten := by
  induction h with
  | nil => simp
  | keep b _ ih => simpa using List.Sublist.append (List.Sublist.refl b) ih
  | drop b _ _ ih => simpa using List.Sublist.trans ih (List.sublist_append_right b _)

theorem Pruned.refl (p : Key × V → Bool) (as : List (Assoc V)) : Pruned p as as := by
  induction as with
  | nil => exact .nil
  | cons b rest ih => exact .keep b ih

/-- streaming over what survives a sound pruning: keys and values are the filter of the whole
map; the ordinals are `ord + position among the entries read` -/
theorem pruned_stream (A : Automaton σ) (lo hi : Bound) (kept all : List (Assoc V))
    (hp : Pruned (fun e => passes A lo hi e.1) kept all) (hs : StrictInc (keys all.flatten)) (ord : Nat) :
    scanSearch A lo hi false ord kept.flatten = streamSpec A lo hi ord kept.flatten ∧
    (scanSearch A lo hi false ord kept.flatten).map (fun p => (p.2.1, p.2.2))
      = all.flatten.filter (fun e => passes A lo hi e.1) := by
  have hs' : StrictInc (keys kept.flatten) :=
    StrictInc.sublist (by simpa [keys] using hp.sublist.map (fun e : Key × V => e.1)) hs
  have h1 := scanSearch_filter A lo hi ord _ hs'
  refine ⟨h1, ?_⟩
  rw [h1, streamSpec_map_snd]
  exact hp.filter_eq

/-! ### the index walk -/

/-- every entry of a block lies above the previous separator and at or below its own -/
def SepChain : Option Key → List (Block V) → Prop
  | _, [] => True
  | prev, b :: rest =>
    (∀ e ∈ b.entries, (∀ s, prev = some s → lexLt s e.1 = true) ∧ lexLe e.1 b.sep = true) ∧
      SepChain (some b.sep) rest

theorem sepChain_mk (o : Nat) (bs : List (Assoc V)) (prev : Option Key) (h : GoodBlocks bs)
    (hp : ∀ s, prev = some s → ∀ e ∈ bs.flatten, lexLt s e.1 = true) :
    SepChain prev (mkBlocks o bs (sepsOf bs)) := by
  induction bs generalizing o prev with
  | nil => simp [mkBlocks, SepChain]
  | cons b rest ih =>
    obtain ⟨s, ss, hs, hss, hle, hgt⟩ := sepsOf_head b rest h
    rw [hs]
    simp only [mkBlocks, SepChain]
    subst hss
    refine ⟨fun e he => ⟨fun s' hs' => hp s' hs' e (by simp [he]), hle e he⟩, ?_⟩
    apply ih (o + b.length) (some s) h.tail
    intro s' hs' e he
    cases hs'
    exact hgt e he

/-- walking the separators with `canBlockMatch`, then filtering by block id, only removes blocks
without a passing entry -/
theorem keptBlocks_pruned (A : Automaton σ) (hA : A.CanMatchSound) (lo hi : Bound)
    (rp : Nat × Block V → Bool) (prev : Option Key) (i : Nat) (bl : List (Block V))
    (hchain : SepChain prev bl)
    (hrp : ∀ j b, bl[j]? = some b → rp (i + j, b) = false → ∀ e ∈ b.entries, passes A lo hi e.1 = false) :
    Pruned (fun e => passes A lo hi e.1)
      ((((keptBlocks A prev i bl).filter rp).map (·.2)).map (·.entries)) (bl.map (·.entries)) := by
  induction bl generalizing prev i with
  | nil => exact .nil
  | cons b rest ih =>
    obtain ⟨hb, hrest⟩ := hchain
    have ih' := ih (some b.sep) (i + 1) hrest (fun j b' hj hr => by
      apply hrp (j + 1) b' (by simpa using hj)
      rw [← hr]; congr 2; omega)
    have hdrop_prune : canBlockMatch A prev b.sep = false → ∀ e ∈ b.entries, passes A lo hi e.1 = false := by
      intro hc e he
      cases hacc : A.accepts e.1 with
      | false => simp [passes, hacc]
      | true =>
        have := canBlockMatch_sound A hA prev b.sep e.1 (hb e he).1 (hb e he).2 hacc
        rw [hc] at this; cases this
    simp only [keptBlocks, List.map_cons]
    by_cases hc : canBlockMatch A prev b.sep = true
    · simp only [hc, if_true, List.filter_cons]
      by_cases hr : rp (i, b) = true
      · simp only [hr, if_true, List.map_cons]
        exact .keep b.entries ih'
      · simp only [hr, Bool.false_eq_true, if_false]
        exact .drop b.entries (hrp 0 b (by simp) (by simpa using hr)) ih'
    · simp only [hc, Bool.false_eq_true, if_false]
      exact .drop b.entries (hdrop_prune (by simpa using hc)) ih'

/-- the blocks an automaton search reads are a sound pruning of all blocks; with the lower bound
key above every separator nothing is read and nothing passes -/
theorem searchBlocks_pruned (A : Automaton σ) (hA : A.CanMatchSound) (L : Nat) (m : Assoc V)
    (hs : SortedMap m) (lo hi : Bound) :
    Pruned (fun e => passes A lo hi e.1)
      (((build L m).searchBlocks A lo hi).map (·.entries)) ((build L m).blockList.map (·.entries)) ∨
    (((build L m).searchBlocks A lo hi) = [] ∧ ∀ e ∈ m, passes A lo hi e.1 = false) := by
  have v := build_view L m hs
  unfold Dict.searchBlocks
  cases hlower : (build L m).lowerBlock lo with
  | none =>
    right
    refine ⟨rfl, ?_⟩
    unfold Dict.lowerBlock at hlower
    cases hk : lo.key? with
    | none => simp [hk] at hlower
    | some k =>
      simp only [hk] at hlower
      intro e he
      simp [passes, matchLo_false_of_lt hk (v.noneBelow k hlower e he)]
  | some l =>
    left
    simp only
    have hlo_fail : ∀ j b, (build L m).blockList[j]? = some b → j < l →
        ∀ e ∈ b.entries, passes A lo hi e.1 = false := by
      intro j b hb hjl e he
      unfold Dict.lowerBlock at hlower
      cases hk : lo.key? with
      | none => simp [hk] at hlower; omega
      | some k =>
        simp only [hk] at hlower
        have := v.below k l hlower e (mem_flatE_take_of_index hb hjl he)
        simp [passes, matchLo_false_of_lt hk this]
    have hhi_fail : ∀ j b u, (build L m).blockList[j]? = some b →
        (build L m).lastKeyBlock hi = some u → u < j →
        ∀ e ∈ b.entries, passes A lo hi e.1 = false := by
      intro j b u hb hu huj e he
      unfold Dict.lastKeyBlock at hu
      cases hk : hi.key? with
      | none => simp [hk] at hu
      | some k =>
        simp only [hk, Option.bind_some] at hu
        have := v.above k u hu e (mem_flatE_drop_of_index hb (by omega) he)
        simp [passes, matchHi_false_of_gt hk this]
    by_cases hsingle : (build L m).single = true
    · have hBL : (build L m).blockList = [(build L m).blocks.headD ⟨[], 0, []⟩] := by
        simp [Dict.blockList, hsingle]
      have hl0 : l = 0 := by
        unfold Dict.lowerBlock at hlower
        cases hk : lo.key? with
        | none => simp [hk] at hlower; omega
        | some k => simp [hk, Dict.locateKey, hsingle] at hlower; omega
      have hup : ∀ u, (build L m).lastKeyBlock hi = some u → u = 0 := by
        intro u hu
        unfold Dict.lastKeyBlock at hu
        cases hk : hi.key? with
        | none => simp [hk] at hu
        | some k => simp [hk, Dict.locateKey, hsingle] at hu; omega
      subst hl0
      have hin : inBlockRange 0 ((build L m).lastKeyBlock hi) (0, (build L m).blocks.headD ⟨[], 0, []⟩) = true := by
        unfold inBlockRange
        cases hupper : (build L m).lastKeyBlock hi with
        | none => simp
        | some u => have := hup u hupper; subst this; simp
      simp only [Dict.candidates, hsingle, if_true, hBL, List.filter_cons, hin, List.filter_nil,
        List.map_cons, List.map_nil]
      exact Pruned.refl _ _
    · have hsingle' : (build L m).single = false := by simpa using hsingle
      have hBL : (build L m).blockList = (build L m).blocks := by simp [Dict.blockList, hsingle']
      simp only [Dict.candidates, hsingle', Bool.false_eq_true, if_false]
      rw [hBL] at hlo_fail hhi_fail ⊢
      have hchain : SepChain none (build L m).blocks := by
        rw [build_blocks_eq]
        exact sepChain_mk 0 _ none (build_good L m hs) (fun s hs' => by cases hs')
      exact keptBlocks_pruned A hA lo hi (inBlockRange l ((build L m).lastKeyBlock hi))
        none 0 (build L m).blocks hchain (by
          intro j b hb hr e he
          simp only [inBlockRange, Nat.zero_add, Bool.and_eq_false_iff, decide_eq_false_iff_not] at hr
          rcases hr with h | h
          · exact hlo_fail j b hb (by omega) e he
          · cases hupper : (build L m).lastKeyBlock hi with
            | none => simp [hupper] at h
            | some u =>
              simp only [hupper, decide_eq_false_iff_not] at h
              exact hhi_fail j b u hb hupper (by omega) e he)

end TantivyModel.SSTable
