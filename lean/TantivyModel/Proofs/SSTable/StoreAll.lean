import TantivyModel.Proofs.SSTable.StoreLocate
/-! every address of the serialised block-address store, by block id -/
namespace TantivyModel.SSTable
open TantivyModel

/-- the addresses a store block denotes: block `i` ends where block `i + 1` starts, the last one
at the recorded final end -/
def GroupSpec.addrs (g : GroupSpec) : List BlockAddr :=
  List.zipWith (fun a s => ⟨a.firstOrd, a.start, s⟩) (g.ref :: g.more) (g.more.map (·.start) ++ [g.lastStop])

/-- all block addresses, in block-id order -/
def allAddrs (gs : List GroupSpec) : List BlockAddr := (gs.map (·.addrs)).flatten

theorem addrs_length (g : GroupSpec) : g.addrs.length = g.more.length + 1 := by
  simp [GroupSpec.addrs]

theorem stops_getElem? (more : List BlockAddr) (ls i : Nat) (h : i ≤ more.length) :
    (more.map (·.start) ++ [ls])[i]? = some (startAt more ls i) := by
  unfold startAt
  rcases Nat.lt_or_ge i more.length with hlt | hge
  · rw [List.getElem?_append_left (by simpa using hlt), List.getElem?_map, List.getElem?_eq_getElem hlt]
    rfl
  · have : i = more.length := by omega
    subst this
    rw [List.getElem?_append_right (by simp)]
    simp

theorem addrs_getD (g : GroupSpec) (i : Nat) (d : BlockAddr) (h : i ≤ g.more.length) :
    g.addrs.getD i d = ⟨((g.ref :: g.more).getD i g.ref).firstOrd, ((g.ref :: g.more).getD i g.ref).start,
      startAt g.more g.lastStop i⟩ := by
  unfold GroupSpec.addrs
  have hlt : i < (g.ref :: g.more).length := by simp; omega
  rw [List.getD_eq_getElem?_getD, List.getElem?_zipWith, stops_getElem? _ _ _ h,
    List.getElem?_eq_getElem hlt]
  simp [List.getD_eq_getElem?_getD, List.getElem?_eq_getElem hlt]

/-- `BlockAddrStore::get` on the serialised store returns, for every block id below the number of
blocks, the address the store denotes -/
theorem store_get_full (gs : List GroupSpec) (hg : GoodStore gs) (id : Nat) (hid : id < (allAddrs gs).length) :
    (openStore (storeBytes gs)).get id = some ((allAddrs gs).getD id ⟨0, 0, 0⟩) := by
  have hG := hg.nonempty
  have hgetk : ∀ k, k < gs.length → gs[k]? = some (gs.getD k emptyGroup) := by
    intro k hk
    simp [List.getD_eq_getElem?_getD, List.getElem?_eq_getElem hk]
  have hfull : ∀ g, g + 1 < gs.length → (gs.getD g emptyGroup).more.length + 1 = Gen.STORE_BLOCK_LEN :=
    fun g hgl => hg.full g _ (hgetk g (by omega)) hgl
  have hlast : (gs.getD (gs.length - 1) emptyGroup).more.length + 1 ≤ Gen.STORE_BLOCK_LEN :=
    hg.last _ _ (hgetk _ (by omega))
  have hchunk : ∀ k, k < gs.length → (gs.map (·.addrs))[k]? = some (gs.getD k emptyGroup).addrs := by
    intro k hk
    rw [List.getElem?_map, hgetk k hk]; rfl
  have hn : (allAddrs gs).length
      = (gs.length - 1) * Gen.STORE_BLOCK_LEN + (gs.getD (gs.length - 1) emptyGroup).more.length + 1 := by
    obtain ⟨c, hc, hl⟩ := flatten_chunk_length (gs.map (·.addrs)) Gen.STORE_BLOCK_LEN (by simpa using hG)
      (by
        intro j c' hj hlt
        simp only [List.length_map] at hlt
        rw [hchunk j (by omega)] at hj
        cases hj
        rw [addrs_length]; exact hfull j hlt)
    simp only [List.length_map] at hc hl
    rw [hchunk _ (by omega)] at hc
    cases hc
    unfold allAddrs
    rw [hl, addrs_length]; omega
  have hB : 0 < Gen.STORE_BLOCK_LEN := by decide
  have hk : id / Gen.STORE_BLOCK_LEN < gs.length := by
    apply Nat.div_lt_of_lt_mul
    have : (gs.length - 1) * Gen.STORE_BLOCK_LEN + Gen.STORE_BLOCK_LEN = Gen.STORE_BLOCK_LEN * gs.length := by
      rw [← Nat.succ_mul, Nat.mul_comm]; congr 1; omega
    omega
  have hdecomp : id = id / Gen.STORE_BLOCK_LEN * Gen.STORE_BLOCK_LEN + id % Gen.STORE_BLOCK_LEN := by
    rw [Nat.mul_comm]; exact (Nat.div_add_mod id _).symm
  have hi : id % Gen.STORE_BLOCK_LEN ≤ (gs.getD (id / Gen.STORE_BLOCK_LEN) emptyGroup).more.length := by
    by_cases hl : id / Gen.STORE_BLOCK_LEN + 1 < gs.length
    · have := hfull _ hl
      have := Nat.mod_lt id hB
      omega
    · have hke : id / Gen.STORE_BLOCK_LEN = gs.length - 1 := by omega
      rw [hke] at hdecomp ⊢
      omega
  have hget := store_get gs (id / Gen.STORE_BLOCK_LEN) (id % Gen.STORE_BLOCK_LEN) _ (hgetk _ hk) hg.size
    (hg.fits _ _ (hgetk _ hk)).1 (hg.fits _ _ (hgetk _ hk)).2 hi (Nat.mod_lt id hB)
  rw [← hdecomp] at hget
  rw [hget]
  have hflat := flatten_chunk_getD (gs.map (·.addrs)) Gen.STORE_BLOCK_LEN (id / Gen.STORE_BLOCK_LEN)
    (id % Gen.STORE_BLOCK_LEN) _ ⟨0, 0, 0⟩ (hchunk _ hk)
    (by
      intro j c' hj hlt
      rw [hchunk j (by omega)] at hj
      cases hj
      rw [addrs_length]; exact hfull j (by omega))
    (by rw [addrs_length]; omega)
  rw [← hdecomp] at hflat
  unfold allAddrs
  rw [hflat, addrs_getD _ _ _ hi]

theorem allAddrs_length (gs : List GroupSpec) : (allAddrs gs).length = (allOrds gs).length := by
  unfold allAddrs allOrds
  induction gs with
  | nil => rfl
  | cons g rest ih =>
    simp only [List.map_cons, List.flatten_cons, List.length_append, ih, addrs_length]
    simp [GroupSpec.ords]

end TantivyModel.SSTable
