import TantivyModel.Proofs.SSTable.Dict
/-! get / term_ord / term_ord_or_next of the block model = specification -/
namespace TantivyModel.SSTable
open TantivyModel

theorem specHit_exact_lt (ks : List Key) (k : Key) (i : Nat) (h : specHit ks k = .exact i) :
    i < ks.length := by
  unfold specHit at h
  cases hr : ks[(ks.filter fun a => lexLt a k).length]? with
  | none => simp [hr] at h
  | some a =>
    simp only [hr] at h
    split at h
    · cases h
      exact (List.getElem?_eq_some_iff.mp hr).1
    · cases h

theorem refine_orn_some {V} (L : Nat) (m : Assoc V) (hs : SortedMap m) (k : Key) (b : Block V)
    (h : ((build L m).locateKey k).bind (build L m).blockAt = some b) :
    (build L m).termOrdOrNext k = termOrdOrNext m k := by
  obtain ⟨pre, post, ha, hfo⟩ := dict_split L m hs k b h
  unfold Dict.termOrdOrNext
  rw [h]
  simp only
  rw [scanOrNext_spec _ k 0 (ha.sortedB hs), Hit.shift_zero, termOrdOrNext_eq_specHit, ha.specHit, hfo]

theorem refine_orn_none {V} (L : Nat) (m : Assoc V) (hs : SortedMap m) (k : Key)
    (h : ((build L m).locateKey k).bind (build L m).blockAt = none) :
    (build L m).termOrdOrNext k = .next U64_MAX ∧ termOrdOrNext m k = .next m.length := by
  constructor
  · unfold Dict.termOrdOrNext; rw [h]
  · rw [termOrdOrNext_eq_specHit, specHit_all_below]
    · simp [keys]
    · intro a ha
      obtain ⟨e, he, rfl⟩ := List.mem_map.mp ha
      exact dict_none L m hs k h e he

theorem refine_termOrd {V} (L : Nat) (m : Assoc V) (hs : SortedMap m) (k : Key) :
    (build L m).termOrd k = termOrd m k := by
  rw [termOrd_eq_keys, ← specHit_exact (keys m) k hs]
  unfold Dict.termOrd
  cases h : ((build L m).locateKey k).bind (build L m).blockAt with
  | none =>
    have := (refine_orn_none L m hs k h).2
    rw [termOrdOrNext_eq_specHit] at this
    simp [this, Hit.exact?]
  | some b =>
    obtain ⟨pre, post, ha, hfo⟩ := dict_split L m hs k b h
    simp only
    rw [scanOrNext_spec _ k 0 (ha.sortedB hs), Hit.shift_zero, ha.specHit, hfo]

theorem refine_get {V} (L : Nat) (m : Assoc V) (hs : SortedMap m) (k : Key) :
    (build L m).get k = get m k := by
  rw [get_eq_of_termOrd, termOrd_eq_keys, ← specHit_exact (keys m) k hs]
  unfold Dict.get
  cases h : ((build L m).locateKey k).bind (build L m).blockAt with
  | none =>
    have := (refine_orn_none L m hs k h).2
    rw [termOrdOrNext_eq_specHit] at this
    simp [this, Hit.exact?]
  | some b =>
    obtain ⟨pre, post, ha, hfo⟩ := dict_split L m hs k b h
    simp only
    rw [scanOrNext_spec _ k 0 (ha.sortedB hs), Hit.shift_zero, ha.specHit]
    cases hh : specHit (keys b.entries) k with
    | next o => simp [Hit.shift, Hit.exact?]
    | exact i =>
      have hi : i < b.entries.length := by simpa [keys] using specHit_exact_lt _ _ _ hh
      simp only [Hit.shift, Hit.exact?, Option.bind_some]
      rw [Nat.add_comm, ha.getElem i hi]

end TantivyModel.SSTable
