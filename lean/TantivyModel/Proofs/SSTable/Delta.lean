import TantivyModel.Proofs.SSTable.Order
/-! front coding: VInt and keep/add byte round trips, block round trip -/
namespace TantivyModel.SSTable
open TantivyModel

theorem consts_ok :
    Gen.VINT_CONTINUE_BIT = 128 ∧ Gen.VINT_MODE = 1 ∧ Gen.FOUR_BIT_LIMITS ≤ 16 ∧
    Gen.KEEP_ADD_PACK_SHIFT = 4 ∧ Gen.KEEP_MASK = 15 ∧ Gen.ADD_UNPACK_SHIFT = 4 := by decide

theorem u8_ofNat_toNat {n : Nat} (h : n < 256) : (UInt8.ofNat n).toNat = n := by
  simp [UInt8.toNat_ofNat', Nat.mod_eq_of_lt h]

/-- `deserialize_read ∘ serialize = id`, whatever follows in the buffer -/
theorem vint_roundtrip (n : Nat) (rest : List UInt8) :
    vintDe (vintSer n ++ rest) = ((vintSer n).length, n) := by
  induction n using Nat.strongRecOn with
  | _ n ih =>
    have hc : Gen.VINT_CONTINUE_BIT = 128 := rfl
    rw [vintSer]
    by_cases h : n < Gen.VINT_CONTINUE_BIT
    · have h' : n < 128 := by omega
      simp only [h, if_true, List.cons_append, List.nil_append, vintDe, List.length_singleton]
      have : (UInt8.ofNat n).toNat = n := u8_ofNat_toNat (by omega)
      simp [this, hc, h', Nat.mod_eq_of_lt h']
    · have h' : ¬ n < 128 := by omega
      simp only [h, if_false, List.cons_append, vintDe, List.length_cons]
      have hb : (UInt8.ofNat (n % 128 + Gen.VINT_CONTINUE_BIT)).toNat = n % 128 + 128 := by
        rw [hc]; exact u8_ofNat_toNat (by omega)
      have hlt : n / 128 < n := by omega
      rw [hb, ih (n / 128) hlt]
      have : ¬ (n % 128 + 128 < Gen.VINT_CONTINUE_BIT) := by omega
      simp only [this, if_false]
      congr 1
      omega

theorem vintSer_length_pos (n : Nat) : 0 < (vintSer n).length := by
  rw [vintSer]; split <;> simp

/-- nibble packing on the 256 possible pairs -/
theorem nibble_pack : ∀ keep < 16, ∀ add < 16,
    (keep ||| (add <<< 4)) < 256 ∧ (keep ||| (add <<< 4)) &&& 15 = keep ∧
    (keep ||| (add <<< 4)) >>> 4 = add ∧ ((keep ||| (add <<< 4)) = 1 ↔ (keep = 1 ∧ add = 0)) := by
  decide

/-- reading back one keep/add header, provided it is not the ambiguous pair `(1, 0)` -/
theorem readKeepAdd_encode (keep add : Nat) (rest : List UInt8) (h : ¬ (keep = 1 ∧ add = 0)) :
    readKeepAdd (encodeKeepAdd keep add ++ rest) = some (keep, add, rest) := by
  obtain ⟨hc, hv, hl, hs, hm, hu⟩ := consts_ok
  unfold encodeKeepAdd
  by_cases hk : keep < Gen.FOUR_BIT_LIMITS ∧ add < Gen.FOUR_BIT_LIMITS
  · simp only [hk, and_self, if_true, List.cons_append, List.nil_append, readKeepAdd]
    have hk16 : keep < 16 := by omega
    have ha16 : add < 16 := by omega
    obtain ⟨p1, p2, p3, p4⟩ := nibble_pack keep hk16 add ha16
    rw [hs, hm, hu, hv]
    have hb : (UInt8.ofNat (keep ||| add <<< 4)).toNat = keep ||| add <<< 4 := u8_ofNat_toNat p1
    rw [hb]
    have : ¬ (keep ||| add <<< 4) = 1 := fun e => h (p4.mp e)
    simp [this, p2, p3]
  · simp only [hk, if_false, List.cons_append, readKeepAdd]
    have hb : (UInt8.ofNat Gen.VINT_MODE).toNat = Gen.VINT_MODE := by rw [hv]; rfl
    simp only [hb, if_true, List.append_assoc]
    rw [vint_roundtrip keep (vintSer add ++ rest)]
    simp only [List.drop_left']
    rw [vint_roundtrip add rest]
    simp

/-- keep/add of an entry after a strictly smaller previous key is never `(1, 0)`:
`add = 0` would make the key a prefix of its predecessor -/
theorem keep_add_ne_one_zero {prev k : Key} (h : prev = [] ∨ lexLt prev k = true) :
    ¬ (cpl prev k = 1 ∧ k.length - cpl prev k = 0) := by
  rintro ⟨h1, h2⟩
  rcases h with h | h
  · subst h; simp [cpl] at h1
  · have hk : cpl prev k ≤ k.length := cpl_le_right prev k
    have hkl : k.length = cpl prev k := by omega
    rcases (lexLt_iff_cpl prev k).mp h with ⟨_, h4⟩ | ⟨_, hb, _⟩
    · have := cpl_le_left prev k; omega
    · omega

/-- chain condition under which a block decodes: no entry is the ambiguous pair -/
def NoAmbig : Key → List Key → Prop
  | _, [] => True
  | prev, k :: ks => ¬ (cpl prev k = 1 ∧ k.length - cpl prev k = 0) ∧ NoAmbig k ks

theorem noAmbig_of_strictInc (prev : Key) (ks : List Key)
    (h0 : ∀ k, ks.head? = some k → prev = [] ∨ lexLt prev k = true) (h : StrictInc ks) :
    NoAmbig prev ks := by
  induction ks generalizing prev with
  | nil => trivial
  | cons k rest ih =>
    refine ⟨keep_add_ne_one_zero (h0 k rfl), ih k ?_ h.tail⟩
    intro k' hk'
    cases rest with
    | nil => simp at hk'
    | cons b r => simp at hk'; subst hk'; exact Or.inr h.1

theorem encodeEntries_length_ge (prev : Key) (ks : List Key) :
    ks.length ≤ (encodeEntries prev ks).length := by
  induction ks generalizing prev with
  | nil => simp [encodeEntries]
  | cons k rest ih =>
    simp only [encodeEntries, entryBytes, List.length_append, List.length_cons]
    have := ih k
    have h1 : 0 < (encodeKeepAdd (cpl prev k) (k.length - cpl prev k)).length := by
      unfold encodeKeepAdd; split <;> simp
    omega

theorem take_cpl_append_drop (prev k : Key) : prev.take (cpl prev k) ++ k.drop (cpl prev k) = k := by
  rw [cpl_take]; exact List.take_append_drop _ _

theorem decodeEntries_encode (prev : Key) (ks : List Key) (fuel : Nat)
    (hf : ks.length ≤ fuel) (h : NoAmbig prev ks) :
    decodeEntries fuel prev (encodeEntries prev ks) = ks := by
  induction ks generalizing prev fuel with
  | nil =>
    cases fuel <;> simp [decodeEntries, encodeEntries, readKeepAdd]
  | cons k rest ih =>
    cases fuel with
    | zero => simp at hf
    | succ fuel =>
      simp only [encodeEntries, entryBytes, List.append_assoc, decodeEntries]
      rw [readKeepAdd_encode _ _ _ h.1]
      have hk : cpl prev k ≤ k.length := cpl_le_right prev k
      have hlen : (k.drop (cpl prev k)).length = k.length - cpl prev k := by simp
      simp only [List.take_left' hlen, List.drop_left' hlen, take_cpl_append_drop]
      rw [ih k fuel (by simp at hf; omega) h.2]

/-- one block decodes to its keys -/
theorem decodeBlockKeys_encode (ks : List Key) (h : StrictInc ks) :
    decodeBlockKeys (encodeBlockKeys ks) = ks := by
  unfold decodeBlockKeys encodeBlockKeys
  have hn : NoAmbig [] ks := noAmbig_of_strictInc [] ks (fun _ _ => Or.inl rfl) h
  exact decodeEntries_encode [] ks (encodeEntries [] ks).length (encodeEntries_length_ge [] ks) hn

/-! ### block cutting -/

theorem cutBlocks_flatten {α} (key : α → Key) (L : Nat) (cur : List α) (n : Nat) (prev : Key)
    (xs : List α) : (cutBlocks key L cur n prev xs).flatten = cur ++ xs := by
  induction xs generalizing cur n prev with
  | nil =>
    simp only [cutBlocks]
    cases cur <;> simp
  | cons x xs ih =>
    simp only [cutBlocks]
    split
    · simp [ih]
    · rw [ih]; simp

theorem cutBlocks_nonempty {α} (key : α → Key) (L : Nat) (cur : List α) (n : Nat) (prev : Key)
    (xs : List α) : ∀ b ∈ cutBlocks key L cur n prev xs, b ≠ [] := by
  induction xs generalizing cur n prev with
  | nil =>
    simp only [cutBlocks]
    cases cur <;> simp
  | cons x xs ih =>
    simp only [cutBlocks]
    split
    · intro b hb
      rcases List.mem_cons.mp hb with e | hb
      · subst e; simp
      · exact ih _ _ _ b hb
    · exact ih _ _ _

theorem blocksOf_flatten {α} (key : α → Key) (L : Nat) (xs : List α) :
    (blocksOf key L xs).flatten = xs := by
  simp [blocksOf, cutBlocks_flatten]

theorem blocksOf_map {α} (key : α → Key) (L : Nat) (cur : List α) (n : Nat) (prev : Key)
    (xs : List α) :
    (cutBlocks key L cur n prev xs).map (List.map key)
      = cutBlocks id L (cur.map key) n prev (xs.map key) := by
  induction xs generalizing cur n prev with
  | nil =>
    simp only [cutBlocks, List.map_nil]
    cases cur <;> simp
  | cons x xs ih =>
    simp only [cutBlocks, List.map_cons, id]
    split
    · simp [ih]
    · rw [ih]; simp

theorem strictInc_of_mem_flatten {bs : List (List Key)} (h : StrictInc bs.flatten) :
    ∀ b ∈ bs, StrictInc b := by
  intro b hb
  exact StrictInc.sublist (List.sublist_flatten_of_mem hb) h

end TantivyModel.SSTable
