import TantivyModel.Proofs.SSTable.Prune
/-! `Dictionary::prefix_range`: the bounds `[p, succ p)` select exactly the keys starting with `p` -/
namespace TantivyModel.SSTable
open TantivyModel

theorem prefixUpper_cons (b : UInt8) (rest : Key) :
    prefixUpper (b :: rest) =
      (match prefixUpper rest with
       | [] => if b = 255 then [] else [b + 1]
       | u => b :: u) := rfl

theorem prefix_iff (p k : Key) :
    isPrefixOf p k = true ↔
      lexLe p k = true ∧ (prefixUpper p = [] ∨ lexLt k (prefixUpper p) = true) := by
  induction p generalizing k with
  | nil => simp [isPrefixOf, lexLe, lexLt_nil_right, prefixUpper]
  | cons b rest ih =>
    cases k with
    | nil => simp [isPrefixOf, lexLe, lexLt]
    | cons c ks =>
      simp only [isPrefixOf, Bool.and_eq_true, beq_iff_eq]
      rw [lexLe_cons_iff, prefixUpper_cons]
      have hc := c.toNat_lt
      have hb := b.toNat_lt
      cases hU : prefixUpper rest with
      | nil =>
        have ih' := ih ks
        rw [hU] at ih'
        simp only [true_or, and_true] at ih'
        by_cases hbc : b = c
        · subst hbc
          simp only [true_and, Nat.lt_irrefl, false_or, ih']
          by_cases h255 : b = 255
          · simp [h255]
          · simp only [h255, if_false]
            constructor
            · intro h
              refine ⟨h, Or.inr ?_⟩
              rw [lexLt_cons_iff]
              exact Or.inl (by rw [u8_succ_toNat h255]; omega)
            · exact fun h => h.1
        · simp only [hbc, false_and, false_iff, not_and, not_or]
          intro hlt
          have hlt' : b.toNat < c.toNat := by simpa [hbc] using hlt
          by_cases h255 : b = 255
          · subst h255
            have : (255 : UInt8).toNat = 255 := rfl
            omega
          · simp only [h255, if_false]
            refine ⟨by simp, ?_⟩
            rw [lexLt_cons_iff, u8_succ_toNat h255]
            intro h
            rcases h with h | ⟨h, h'⟩
            · omega
            · rw [lexLt_nil_right] at h'; cases h'
      | cons u0 us =>
        have ih' := ih ks
        rw [hU] at ih'
        simp only [List.cons_ne_nil, false_or, reduceCtorEq] at ih' ⊢
        rw [lexLt_cons_iff]
        by_cases hbc : b = c
        · subst hbc
          simp only [true_and, Nat.lt_irrefl, false_or, ih']
        · simp only [hbc, false_and, false_iff, not_and]
          intro hlt h
          have hlt' : b.toNat < c.toNat := by simpa [hbc] using hlt
          rcases h with h | ⟨h, _⟩
          · omega
          · exact hbc h.symm

/-- `prefix_range(p)` = `range().ge(p).lt(succ p)` (no upper bound when `p` is all 0xFF) selects
exactly the keys that start with `p` -/
theorem prefix_range_iff (p k : Key) :
    isPrefixOf p k = true ↔
      (matchLo (prefixBounds p).1 k = true ∧ matchHi (prefixBounds p).2 k = true) := by
  rw [prefix_iff]
  unfold prefixBounds
  simp only [matchLo]
  cases hU : prefixUpper p with
  | nil => simp [matchHi]
  | cons u0 us => simp [matchHi]

end TantivyModel.SSTable
