import TantivyModel.Model.SSTable.Index
/-! lexicographic order of byte strings, common prefixes, strictly increasing lists -/
namespace TantivyModel.SSTable

theorem u8_eq_of_toNat {a b : UInt8} (h : a.toNat = b.toNat) : a = b := UInt8.toNat_inj.mp h

theorem lexLt_irrefl (a : Key) : lexLt a a = false := by
  induction a with
  | nil => rfl
  | cons x xs ih => simp [lexLt, ih]

theorem lexLt_nil_right (a : Key) : lexLt a [] = false := by
  cases a <;> rfl

theorem lexLt_trans {a b c : Key} (h1 : lexLt a b = true) (h2 : lexLt b c = true) :
    lexLt a c = true := by
  induction a generalizing b c with
  | nil =>
    cases c with
    | nil => cases b <;> simp [lexLt] at h2
    | cons z zs => rfl
  | cons x xs ih =>
    cases b with
    | nil => simp [lexLt] at h1
    | cons y ys =>
      cases c with
      | nil => simp [lexLt] at h2
      | cons z zs =>
        simp only [lexLt] at h1 h2 ⊢
        by_cases hxy : x.toNat < y.toNat
        · by_cases hyz : y.toNat < z.toNat
          · have : x.toNat < z.toNat := by omega
            simp [this]
          · simp only [hyz, if_false] at h2
            by_cases e : y = z
            · subst e; simp [hxy]
            · simp [e] at h2
        · simp only [hxy, if_false] at h1
          by_cases e : x = y
          · subst e
            simp only [if_true] at h1
            by_cases hyz : x.toNat < z.toNat
            · simp [hyz]
            · simp only [hyz, if_false] at h2 ⊢
              by_cases e2 : x = z
              · subst e2; simp only [if_true] at h2 ⊢; exact ih h1 h2
              · simp [e2] at h2
          · simp [e] at h1

theorem lexLt_asymm {a b : Key} (h : lexLt a b = true) : lexLt b a = false := by
  cases hb : lexLt b a with
  | false => rfl
  | true => have := lexLt_trans h hb; rw [lexLt_irrefl] at this; cases this

theorem lexLt_trichotomy (a b : Key) : lexLt a b = true ∨ a = b ∨ lexLt b a = true := by
  induction a generalizing b with
  | nil => cases b <;> simp [lexLt]
  | cons x xs ih =>
    cases b with
    | nil => simp [lexLt]
    | cons y ys =>
      simp only [lexLt]
      by_cases hxy : x.toNat < y.toNat
      · simp [hxy]
      · by_cases hyx : y.toNat < x.toNat
        · simp [hyx]
        · have e : x = y := u8_eq_of_toNat (by omega)
          subst e
          simp only [hxy, if_false, if_true]
          rcases ih ys with h | h | h
          · exact Or.inl h
          · exact Or.inr (Or.inl (by rw [h]))
          · exact Or.inr (Or.inr h)

theorem lexLe_refl (a : Key) : lexLe a a = true := by simp [lexLe, lexLt_irrefl]

theorem lexLe_of_lt {a b : Key} (h : lexLt a b = true) : lexLe a b = true := by
  simp [lexLe, lexLt_asymm h]

theorem lexLe_iff {a b : Key} : lexLe a b = true ↔ lexLt a b = true ∨ a = b := by
  constructor
  · intro h
    rcases lexLt_trichotomy a b with h1 | h1 | h1
    · exact Or.inl h1
    · exact Or.inr h1
    · simp [lexLe, h1] at h
  · rintro (h | h)
    · exact lexLe_of_lt h
    · subst h; exact lexLe_refl a

theorem lexLt_of_lt_of_le {a b c : Key} (h1 : lexLt a b = true) (h2 : lexLe b c = true) :
    lexLt a c = true := by
  rcases lexLe_iff.mp h2 with h | h
  · exact lexLt_trans h1 h
  · subst h; exact h1

theorem lexLt_of_le_of_lt {a b c : Key} (h1 : lexLe a b = true) (h2 : lexLt b c = true) :
    lexLt a c = true := by
  rcases lexLe_iff.mp h1 with h | h
  · exact lexLt_trans h h2
  · subst h; exact h2

theorem lexLe_trans {a b c : Key} (h1 : lexLe a b = true) (h2 : lexLe b c = true) :
    lexLe a c = true := by
  rcases lexLe_iff.mp h1 with h | h
  · exact lexLe_of_lt (lexLt_of_lt_of_le h h2)
  · subst h; exact h2

theorem lexLe_antisymm {a b : Key} (h1 : lexLe a b = true) (h2 : lexLe b a = true) : a = b := by
  rcases lexLe_iff.mp h1 with h | h
  · simp [lexLe, h] at h2
  · exact h

theorem lexLt_false_iff_le {a b : Key} : lexLt a b = false ↔ lexLe b a = true := by
  simp [lexLe]

theorem lexLt_ne {a b : Key} (h : lexLt a b = true) : a ≠ b := by
  intro e; subst e; rw [lexLt_irrefl] at h; cases h

theorem lexLt_append_left (p a b : Key) : lexLt (p ++ a) (p ++ b) = lexLt a b := by
  induction p with
  | nil => rfl
  | cons x xs ih => simp [lexLt, ih]

theorem lexLt_nil_iff (b : Key) : lexLt [] b = true ↔ b ≠ [] := by
  cases b <;> simp [lexLt]

/-! ### common prefix -/

theorem cpl_le_left (a b : Key) : cpl a b ≤ a.length := by
  induction a generalizing b with
  | nil => simp [cpl]
  | cons x xs ih =>
    cases b with
    | nil => simp [cpl]
    | cons y ys =>
      simp only [cpl]; split
      · have := ih ys; simp; omega
      · simp

theorem cpl_le_right (a b : Key) : cpl a b ≤ b.length := by
  induction a generalizing b with
  | nil => simp [cpl]
  | cons x xs ih =>
    cases b with
    | nil => simp [cpl]
    | cons y ys =>
      simp only [cpl]; split
      · have := ih ys; simp; omega
      · simp

theorem cpl_take (a b : Key) : a.take (cpl a b) = b.take (cpl a b) := by
  induction a generalizing b with
  | nil => simp [cpl]
  | cons x xs ih =>
    cases b with
    | nil => simp [cpl]
    | cons y ys =>
      simp only [cpl]; split
      · rename_i h; subst h; simp [ih ys]
      · simp

theorem cpl_nil_left (b : Key) : cpl [] b = 0 := by simp [cpl]

theorem cpl_self (a : Key) : cpl a a = a.length := by
  induction a with
  | nil => rfl
  | cons x xs ih => simp [cpl, ih]

/-- the bytes after the common prefix differ (when both exist) -/
theorem cpl_maximal (a b : Key) (ha : cpl a b < a.length) (hb : cpl a b < b.length) :
    a[cpl a b]'ha ≠ b[cpl a b]'hb := by
  induction a generalizing b with
  | nil => simp at ha
  | cons x xs ih =>
    cases b with
    | nil => simp at hb
    | cons y ys =>
      by_cases e : x = y
      · subst e
        have hc : cpl (x :: xs) (x :: ys) = cpl xs ys + 1 := by simp [cpl]
        simp only [hc, List.getElem_cons_succ]
        apply ih
      · have hc : cpl (x :: xs) (y :: ys) = 0 := by simp [cpl, e]
        simp only [hc, List.getElem_cons_zero]
        exact e

/-- decomposition: `a = p ++ a'`, `b = p ++ b'` with `p` the common prefix -/
theorem cpl_split (a b : Key) :
    a = a.take (cpl a b) ++ a.drop (cpl a b) ∧ b = a.take (cpl a b) ++ b.drop (cpl a b) := by
  constructor
  · simp
  · rw [cpl_take]; simp

/-- order through the common prefix: what the writer's `increasing_keys` test looks at -/
theorem lexLt_iff_cpl (a b : Key) :
    lexLt a b = true ↔
      (cpl a b = a.length ∧ a.length < b.length) ∨
      (∃ (ha : cpl a b < a.length) (hb : cpl a b < b.length),
        (a[cpl a b]'ha).toNat < (b[cpl a b]'hb).toNat) := by
  induction a generalizing b with
  | nil => cases b <;> simp [lexLt, cpl]
  | cons x xs ih =>
    cases b with
    | nil => simp [lexLt, cpl]
    | cons y ys =>
      by_cases e : x = y
      · subst e
        have hc : cpl (x :: xs) (x :: ys) = cpl xs ys + 1 := by simp [cpl]
        simp only [lexLt, Nat.lt_irrefl, if_false, if_true, hc, List.length_cons,
          Nat.add_lt_add_iff_right, Nat.add_right_cancel_iff, List.getElem_cons_succ]
        exact ih ys
      · have hc : cpl (x :: xs) (y :: ys) = 0 := by simp [cpl, e]
        simp only [lexLt, e, if_false, hc, List.length_cons, List.getElem_cons_zero]
        constructor
        · intro h
          by_cases hxy : x.toNat < y.toNat
          · exact Or.inr ⟨by omega, by omega, hxy⟩
          · simp [hxy] at h
        · rintro (⟨h, _⟩ | ⟨_, _, h⟩)
          · omega
          · simp [h]

/-! ### strictly increasing lists -/

theorem strictIncB_iff (ks : List Key) : strictIncB ks = true ↔ StrictInc ks := by
  induction ks with
  | nil => simp [strictIncB, StrictInc]
  | cons a rest ih =>
    cases rest with
    | nil => simp [strictIncB, StrictInc]
    | cons b rest => simp [strictIncB, StrictInc, ih]

theorem StrictInc.tail {a : Key} {ks : List Key} (h : StrictInc (a :: ks)) : StrictInc ks := by
  cases ks with
  | nil => trivial
  | cons b rest => exact h.2

theorem StrictInc.head_lt {a : Key} {ks : List Key} (h : StrictInc (a :: ks)) :
    ∀ k ∈ ks, lexLt a k = true := by
  induction ks generalizing a with
  | nil => simp
  | cons b rest ih =>
    intro k hk
    rcases List.mem_cons.mp hk with e | hk
    · subst e; exact h.1
    · exact lexLt_trans h.1 (ih h.2 k hk)

theorem strictInc_iff_pairwise (ks : List Key) :
    StrictInc ks ↔ ks.Pairwise (fun a b => lexLt a b = true) := by
  induction ks with
  | nil => simp [StrictInc]
  | cons a rest ih =>
    constructor
    · intro h
      exact List.pairwise_cons.mpr ⟨h.head_lt, ih.mp h.tail⟩
    · intro h
      have ⟨h1, h2⟩ := List.pairwise_cons.mp h
      cases rest with
      | nil => trivial
      | cons b rest => exact ⟨h1 b (by simp), ih.mpr h2⟩

theorem StrictInc.sublist {l1 l2 : List Key} (hs : l1.Sublist l2) (h : StrictInc l2) :
    StrictInc l1 :=
  (strictInc_iff_pairwise l1).mpr (((strictInc_iff_pairwise l2).mp h).sublist hs)

theorem StrictInc.append_iff {l1 l2 : List Key} :
    StrictInc (l1 ++ l2) ↔ StrictInc l1 ∧ StrictInc l2 ∧ ∀ a ∈ l1, ∀ b ∈ l2, lexLt a b = true := by
  simp only [strictInc_iff_pairwise, List.pairwise_append]

end TantivyModel.SSTable
