import TantivyModel.Proofs.SSTable.StoreFile
import TantivyModel.Proofs.SSTable.LocateOrd
/-! `binary_search_ord` on the serialised store = the abstract ordinal search -/
namespace TantivyModel.SSTable
open TantivyModel

theorem binSearch_range (c : Nat → Ordering) (fuel l r : Nat) (hlr : l ≤ r) :
    match binSearch c fuel l r with
    | .inl m => l ≤ m ∧ m < r
    | .inr p => l ≤ p ∧ p ≤ r := by
  induction fuel generalizing l r with
  | zero => simp only [binSearch]; exact ⟨Nat.le_refl _, hlr⟩
  | succ fuel ih =>
    simp only [binSearch]
    by_cases hlt : l < r
    · simp only [hlt, if_true]
      have h1 : l ≤ l + (r - l) / 2 := by omega
      have h2 : l + (r - l) / 2 < r := by omega
      cases c (l + (r - l) / 2) with
      | lt =>
        simp only
        have := ih (l + (r - l) / 2 + 1) r (by omega)
        cases hb : binSearch c fuel (l + (r - l) / 2 + 1) r with
        | inl m => rw [hb] at this; simp only at this ⊢; omega
        | inr p => rw [hb] at this; simp only at this ⊢; omega
      | gt =>
        simp only
        have := ih l (l + (r - l) / 2) h1
        cases hb : binSearch c fuel l (l + (r - l) / 2) with
        | inl m => rw [hb] at this; simp only at this ⊢; omega
        | inr p => rw [hb] at this; simp only at this ⊢; omega
      | eq => simp only; exact ⟨h1, h2⟩
    · simp only [hlt, if_false]; exact ⟨Nat.le_refl _, hlr⟩

theorem binSearch_congr (c1 c2 : Nat → Ordering) (fuel l r : Nat)
    (h : ∀ x, l ≤ x → x < r → c1 x = c2 x) : binSearch c1 fuel l r = binSearch c2 fuel l r := by
  induction fuel generalizing l r with
  | zero => rfl
  | succ fuel ih =>
    simp only [binSearch]
    by_cases hlt : l < r
    · simp only [hlt, if_true]
      have h1 : l ≤ l + (r - l) / 2 := by omega
      have h2 : l + (r - l) / 2 < r := by omega
      rw [h _ h1 h2]
      cases c2 (l + (r - l) / 2) with
      | lt => exact ih _ _ (fun x hx1 hx2 => h x (by omega) hx2)
      | gt => exact ih _ _ (fun x hx1 hx2 => h x hx1 (by omega))
      | eq => rfl
    · simp only [hlt, if_false]

/-- the search only looks at first ordinals of existing blocks and at the lengths of existing
store blocks -/
theorem locateOrdGen_congr (B G : Nat) (bl bl' : Nat → Nat) (f f' : Nat → Nat) (ord n : Nat)
    (hG : 0 < G) (hfull : ∀ g, g + 1 < G → bl g + 1 = B) (hlast : bl (G - 1) + 1 ≤ B)
    (hn : n = (G - 1) * B + bl (G - 1) + 1)
    (hf : ∀ id, id < n → f id = f' id) (hbl : ∀ g, g < G → bl g = bl' g) :
    locateOrdGen B G bl f ord = locateOrdGen B G bl' f' ord := by
  have hgB : ∀ g, g < G → g * B ≤ (G - 1) * B := fun g hg => Nat.mul_le_mul_right B (by omega)
  have hsucc : ∀ g, (g + 1) * B = g * B + B := fun g => Nat.succ_mul g B
  have hgn : ∀ g, g < G → g * B + bl g < n := by
    intro g hg
    by_cases hl : g + 1 < G
    · have h1 := hfull g hl
      have h2 := hgB (g + 1) hl
      have h3 := hsucc g
      omega
    · have : g = G - 1 := by omega
      subst this; omega
  unfold locateOrdGen
  have houter : binSearch (fun g => compare (f (g * B)) ord) (G + 1) 0 G
      = binSearch (fun g => compare (f' (g * B)) ord) (G + 1) 0 G := by
    apply binSearch_congr
    intro x _ hx
    rw [hf (x * B) (by have := hgn x hx; omega)]
  rw [houter]
  have hrange := binSearch_range (fun g => compare (f' (g * B)) ord) (G + 1) 0 G (Nat.zero_le _)
  cases ho : binSearch (fun g => compare (f' (g * B)) ord) (G + 1) 0 G with
  | inl g => rfl
  | inr p =>
    rw [ho] at hrange
    simp only at hrange ⊢
    have hp : p - 1 < G := by omega
    rw [← hbl (p - 1) hp]
    have hinner : binSearch (fun i => compare (f ((p - 1) * B + i + 1)) ord) (bl (p - 1) + 1) 0 (bl (p - 1))
        = binSearch (fun i => compare (f' ((p - 1) * B + i + 1)) ord) (bl (p - 1) + 1) 0 (bl (p - 1)) := by
      apply binSearch_congr
      intro x _ hx
      rw [hf _ (by have := hgn (p - 1) hp; omega)]
    rw [hinner]

/-- first ordinals of one store block -/
def GroupSpec.ords (g : GroupSpec) : List Nat := g.ref.firstOrd :: g.more.map (·.firstOrd)

/-- first ordinals of all blocks, in block-id order -/
def allOrds (gs : List GroupSpec) : List Nat := (gs.map (·.ords)).flatten

def emptyGroup : GroupSpec := ⟨0, 0, 0, 0, ⟨0, 0, 0⟩, [], 0⟩

/-- a store as the writer produces it: every store block but the last holds `STORE_BLOCK_LEN`
addresses, everything fits its field -/
structure GoodStore (gs : List GroupSpec) : Prop where
  nonempty : 0 < gs.length
  size : META_SIZE * gs.length < 2 ^ 64
  full : ∀ (k : Nat) (g : GroupSpec), gs[k]? = some g → k + 1 < gs.length → g.more.length + 1 = Gen.STORE_BLOCK_LEN
  last : ∀ (k : Nat) (g : GroupSpec), gs[k]? = some g → g.more.length + 1 ≤ Gen.STORE_BLOCK_LEN
  fits : ∀ (k : Nat) (g : GroupSpec), gs[k]? = some g → GroupFits g.rs g.rb g.os g.ob g.ref g.more g.lastStop ∧ MetaFits g (offsetOf gs k)

theorem flatten_chunk_getD {α} (chunks : List (List α)) (B k i : Nat) (c : List α) (d : α)
    (hk : chunks[k]? = some c) (hfull : ∀ j c', chunks[j]? = some c' → j < k → c'.length = B)
    (hi : i < c.length) : chunks.flatten.getD (k * B + i) d = c.getD i d := by
  induction chunks generalizing k with
  | nil => simp at hk
  | cons c0 rest ih =>
    cases k with
    | zero =>
      simp at hk; subst hk
      simp only [List.flatten_cons, Nat.zero_mul, Nat.zero_add]
      rw [List.getD_eq_getElem?_getD, List.getD_eq_getElem?_getD, List.getElem?_append_left hi]
    | succ j =>
      simp only [List.getElem?_cons_succ] at hk
      have hc0 : c0.length = B := hfull 0 c0 (by simp) (by omega)
      have := ih j hk (fun j' c' hj' hlt => hfull (j' + 1) c' (by simpa using hj') (by omega))
      simp only [List.flatten_cons]
      rw [List.getD_eq_getElem?_getD, List.getElem?_append_right (by rw [hc0, Nat.succ_mul]; omega)]
      rw [← List.getD_eq_getElem?_getD, ← this]
      congr 1
      rw [hc0, Nat.succ_mul]; omega

theorem flatten_chunk_length {α} (chunks : List (List α)) (B : Nat) (hne : 0 < chunks.length)
    (hfull : ∀ j c', chunks[j]? = some c' → j + 1 < chunks.length → c'.length = B) :
    ∃ c, chunks[chunks.length - 1]? = some c ∧ chunks.flatten.length = (chunks.length - 1) * B + c.length := by
  induction chunks with
  | nil => simp at hne
  | cons c0 rest ih =>
    cases rest with
    | nil => exact ⟨c0, by simp, by simp⟩
    | cons c1 r =>
      obtain ⟨c, hc, hl⟩ := ih (by simp) (fun j c' hj hlt => hfull (j + 1) c' (by simpa using hj) (by simp at hlt ⊢; omega))
      have hc0 : c0.length = B := hfull 0 c0 (by simp) (by simp)
      refine ⟨c, by simpa using hc, ?_⟩
      simp only [List.flatten_cons, List.length_append, List.length_cons] at hl ⊢
      rw [hl, hc0]
      simp only [Nat.add_sub_cancel]
      rw [Nat.succ_mul]; omega

theorem getD_map_firstOrd (l : List BlockAddr) (i : Nat) (d : BlockAddr) (h : i < l.length) :
    (l.map (·.firstOrd)).getD i 0 = (l.getD i d).firstOrd := by
  simp [List.getD_eq_getElem?_getD, List.getElem?_eq_getElem h, List.getElem?_map]

theorem ords_getD (g : GroupSpec) (i : Nat) (h : i ≤ g.more.length) :
    g.ords.getD i 0 = ((g.ref :: g.more).getD i g.ref).firstOrd := by
  unfold GroupSpec.ords
  have : g.ref.firstOrd :: g.more.map (·.firstOrd) = (g.ref :: g.more).map (·.firstOrd) := rfl
  rw [this]
  exact getD_map_firstOrd _ i g.ref (by simp; omega)

/-- `BlockAddrStore::binary_search_ord` on the serialised store — the real accessors: store-block
count from the metadata length, `block_len` parsed from each record, first ordinals through `get` —
equals the abstract search over the list of first ordinals -/
theorem store_locate_ord (gs : List GroupSpec) (hg : GoodStore gs) (ord : Nat)
    (hs : (allOrds gs).Pairwise (· < ·)) (h0 : (allOrds gs).getD 0 0 ≤ ord) :
    (openStore (storeBytes gs)).locateOrd ord
      = ((allOrds gs).filter (fun x => decide (x ≤ ord))).length - 1 := by
  have hopen := openStore_storeBytes gs hg.size
  have hG := hg.nonempty
  have hgetk : ∀ k, k < gs.length → gs[k]? = some (gs.getD k emptyGroup) := by
    intro k hk
    simp [List.getD_eq_getElem?_getD, List.getElem?_eq_getElem hk]
  -- geometry in terms of the group list
  have hfull : ∀ g, g + 1 < gs.length → (gs.getD g emptyGroup).more.length + 1 = Gen.STORE_BLOCK_LEN :=
    fun g hgl => hg.full g _ (hgetk g (by omega)) hgl
  have hlast : (gs.getD (gs.length - 1) emptyGroup).more.length + 1 ≤ Gen.STORE_BLOCK_LEN :=
    hg.last _ _ (hgetk _ (by omega))
  have hchunk : ∀ k, k < gs.length → (gs.map (·.ords))[k]? = some (gs.getD k emptyGroup).ords := by
    intro k hk
    rw [List.getElem?_map, hgetk k hk]; rfl
  have hordsLen : ∀ g : GroupSpec, g.ords.length = g.more.length + 1 := by
    intro g; simp [GroupSpec.ords]
  have hn : (allOrds gs).length
      = (gs.length - 1) * Gen.STORE_BLOCK_LEN + (gs.getD (gs.length - 1) emptyGroup).more.length + 1 := by
    obtain ⟨c, hc, hl⟩ := flatten_chunk_length (gs.map (·.ords)) Gen.STORE_BLOCK_LEN (by simpa using hG)
      (by
        intro j c' hj hlt
        simp only [List.length_map] at hlt
        rw [hchunk j (by omega)] at hj
        cases hj
        rw [hordsLen]; exact hfull j hlt)
    simp only [List.length_map] at hc hl
    rw [hchunk _ (by omega)] at hc
    cases hc
    unfold allOrds
    rw [hl, hordsLen]; omega
  -- the real accessors agree with the lists on everything the search looks at
  unfold Store.locateOrd
  rw [hopen]
  have hnum : (⟨storeMetas 0 gs, storeData gs⟩ : Store).numGroups = gs.length := by
    unfold Store.numGroups
    simp only [storeMetas_length]
    rw [Nat.mul_comm, Nat.mul_div_cancel _ (by decide : 0 < META_SIZE)]
  rw [hnum]
  rw [locateOrdGen_congr Gen.STORE_BLOCK_LEN gs.length _ (fun g => (gs.getD g emptyGroup).more.length) _
    (fun id => (allOrds gs).getD id 0) ord (allOrds gs).length hG ?_ ?_ ?_ ?_ ?_]
  · -- now the abstract search
    have hmono : ∀ a b, a < b → b < (allOrds gs).length → (allOrds gs).getD a 0 < (allOrds gs).getD b 0 := by
      intro a b hab hb
      have ha : a < (allOrds gs).length := by omega
      have := (List.pairwise_iff_getElem.mp hs) a b ha hb hab
      simpa [List.getD_eq_getElem?_getD, List.getElem?_eq_getElem ha, List.getElem?_eq_getElem hb] using this
    obtain ⟨h1, h2, h3⟩ := locateOrdGen_spec Gen.STORE_BLOCK_LEN gs.length
      (fun g => (gs.getD g emptyGroup).more.length) (fun id => (allOrds gs).getD id 0) ord
      (allOrds gs).length hG hfull hlast hn hmono h0
    have := filter_le_length (allOrds gs) ord _ hs h1 h2 h3
    omega
  · -- full store blocks (as parsed)
    intro g hgl
    obtain ⟨r, hr⟩ := storeMetas_drop 0 gs g _ (hgetk g (by omega))
    rw [Nat.zero_add] at hr
    simp only
    rw [hr, parseMeta_metaBytes _ _ r (hg.fits g _ (hgetk g (by omega))).2]
    exact hfull g hgl
  · obtain ⟨r, hr⟩ := storeMetas_drop 0 gs (gs.length - 1) _ (hgetk _ (by omega))
    rw [Nat.zero_add] at hr
    simp only
    rw [hr, parseMeta_metaBytes _ _ r (hg.fits _ _ (hgetk _ (by omega))).2]
    exact hlast
  · obtain ⟨r, hr⟩ := storeMetas_drop 0 gs (gs.length - 1) _ (hgetk _ (by omega))
    rw [Nat.zero_add] at hr
    simp only
    rw [hr, parseMeta_metaBytes _ _ r (hg.fits _ _ (hgetk _ (by omega))).2]
    exact hn
  · -- first ordinals through `get`
    intro id hid
    have hB : 0 < Gen.STORE_BLOCK_LEN := by decide
    have hk : id / Gen.STORE_BLOCK_LEN < gs.length := by
      apply Nat.div_lt_of_lt_mul
      have : (gs.length - 1) * Gen.STORE_BLOCK_LEN + Gen.STORE_BLOCK_LEN = Gen.STORE_BLOCK_LEN * gs.length := by
        rw [← Nat.succ_mul, Nat.mul_comm]; congr 1; omega
      omega
    have hdecomp : id = id / Gen.STORE_BLOCK_LEN * Gen.STORE_BLOCK_LEN + id % Gen.STORE_BLOCK_LEN := by
      rw [Nat.mul_comm]; exact (Nat.div_add_mod id _).symm
    have hi : id % Gen.STORE_BLOCK_LEN ≤ (gs.getD (id / Gen.STORE_BLOCK_LEN) emptyGroup).more.length := by
      by_cases hl : id / Gen.STORE_BLOCK_LEN + 1 < gs.length
      · have := hfull _ hl
        have := Nat.mod_lt id hB
        omega
      · have hke : id / Gen.STORE_BLOCK_LEN = gs.length - 1 := by omega
        rw [hke] at hdecomp ⊢
        omega
    have hget := store_get gs (id / Gen.STORE_BLOCK_LEN) (id % Gen.STORE_BLOCK_LEN) _ (hgetk _ hk) hg.size
      (hg.fits _ _ (hgetk _ hk)).1 (hg.fits _ _ (hgetk _ hk)).2 hi (Nat.mod_lt id hB)
    rw [hopen, ← hdecomp] at hget
    simp only [hget]
    have hflat := flatten_chunk_getD (gs.map (·.ords)) Gen.STORE_BLOCK_LEN (id / Gen.STORE_BLOCK_LEN)
      (id % Gen.STORE_BLOCK_LEN) _ 0 (hchunk _ hk)
      (by
        intro j c' hj hlt
        rw [hchunk j (by omega)] at hj
        cases hj
        rw [hordsLen]; exact hfull j (by omega))
      (by rw [hordsLen]; omega)
    rw [← hdecomp] at hflat
    unfold allOrds
    rw [hflat, ords_getD _ _ hi]
  · intro g hgl
    obtain ⟨r, hr⟩ := storeMetas_drop 0 gs g _ (hgetk g hgl)
    rw [Nat.zero_add] at hr
    simp only
    rw [hr, parseMeta_metaBytes _ _ r (hg.fits g _ (hgetk g hgl)).2]

/-- (position form) `BlockAddrStore::binary_search_ord` on the serialised store — the real accessors: store-block
count from the metadata length, `block_len` parsed from each record, first ordinals through `get` —
equals the abstract search over the list of first ordinals -/
theorem store_locate_spec (gs : List GroupSpec) (hg : GoodStore gs) (ord : Nat)
    (hs : (allOrds gs).Pairwise (· < ·)) (h0 : (allOrds gs).getD 0 0 ≤ ord) :
    (openStore (storeBytes gs)).locateOrd ord < (allOrds gs).length ∧
    (allOrds gs).getD ((openStore (storeBytes gs)).locateOrd ord) 0 ≤ ord ∧
    ((openStore (storeBytes gs)).locateOrd ord + 1 < (allOrds gs).length →
      ord < (allOrds gs).getD ((openStore (storeBytes gs)).locateOrd ord + 1) 0) := by
  have hopen := openStore_storeBytes gs hg.size
  have hG := hg.nonempty
  have hgetk : ∀ k, k < gs.length → gs[k]? = some (gs.getD k emptyGroup) := by
    intro k hk
    simp [List.getD_eq_getElem?_getD, List.getElem?_eq_getElem hk]
  -- geometry in terms of the group list
  have hfull : ∀ g, g + 1 < gs.length → (gs.getD g emptyGroup).more.length + 1 = Gen.STORE_BLOCK_LEN :=
    fun g hgl => hg.full g _ (hgetk g (by omega)) hgl
  have hlast : (gs.getD (gs.length - 1) emptyGroup).more.length + 1 ≤ Gen.STORE_BLOCK_LEN :=
    hg.last _ _ (hgetk _ (by omega))
  have hchunk : ∀ k, k < gs.length → (gs.map (·.ords))[k]? = some (gs.getD k emptyGroup).ords := by
    intro k hk
    rw [List.getElem?_map, hgetk k hk]; rfl
  have hordsLen : ∀ g : GroupSpec, g.ords.length = g.more.length + 1 := by
    intro g; simp [GroupSpec.ords]
  have hn : (allOrds gs).length
      = (gs.length - 1) * Gen.STORE_BLOCK_LEN + (gs.getD (gs.length - 1) emptyGroup).more.length + 1 := by
    obtain ⟨c, hc, hl⟩ := flatten_chunk_length (gs.map (·.ords)) Gen.STORE_BLOCK_LEN (by simpa using hG)
      (by
        intro j c' hj hlt
        simp only [List.length_map] at hlt
        rw [hchunk j (by omega)] at hj
        cases hj
        rw [hordsLen]; exact hfull j hlt)
    simp only [List.length_map] at hc hl
    rw [hchunk _ (by omega)] at hc
    cases hc
    unfold allOrds
    rw [hl, hordsLen]; omega
  -- the real accessors agree with the lists on everything the search looks at
  unfold Store.locateOrd
  rw [hopen]
  have hnum : (⟨storeMetas 0 gs, storeData gs⟩ : Store).numGroups = gs.length := by
    unfold Store.numGroups
    simp only [storeMetas_length]
    rw [Nat.mul_comm, Nat.mul_div_cancel _ (by decide : 0 < META_SIZE)]
  rw [hnum]
  rw [locateOrdGen_congr Gen.STORE_BLOCK_LEN gs.length _ (fun g => (gs.getD g emptyGroup).more.length) _
    (fun id => (allOrds gs).getD id 0) ord (allOrds gs).length hG ?_ ?_ ?_ ?_ ?_]
  · -- now the abstract search
    have hmono : ∀ a b, a < b → b < (allOrds gs).length → (allOrds gs).getD a 0 < (allOrds gs).getD b 0 := by
      intro a b hab hb
      have ha : a < (allOrds gs).length := by omega
      have := (List.pairwise_iff_getElem.mp hs) a b ha hb hab
      simpa [List.getD_eq_getElem?_getD, List.getElem?_eq_getElem ha, List.getElem?_eq_getElem hb] using this
    obtain ⟨h1, h2, h3⟩ := locateOrdGen_spec Gen.STORE_BLOCK_LEN gs.length
      (fun g => (gs.getD g emptyGroup).more.length) (fun id => (allOrds gs).getD id 0) ord
      (allOrds gs).length hG hfull hlast hn hmono h0
    exact ⟨h1, h2, h3⟩
  · -- full store blocks (as parsed)
    intro g hgl
    obtain ⟨r, hr⟩ := storeMetas_drop 0 gs g _ (hgetk g (by omega))
    rw [Nat.zero_add] at hr
    simp only
    rw [hr, parseMeta_metaBytes _ _ r (hg.fits g _ (hgetk g (by omega))).2]
    exact hfull g hgl
  · obtain ⟨r, hr⟩ := storeMetas_drop 0 gs (gs.length - 1) _ (hgetk _ (by omega))
    rw [Nat.zero_add] at hr
    simp only
    rw [hr, parseMeta_metaBytes _ _ r (hg.fits _ _ (hgetk _ (by omega))).2]
    exact hlast
  · obtain ⟨r, hr⟩ := storeMetas_drop 0 gs (gs.length - 1) _ (hgetk _ (by omega))
    rw [Nat.zero_add] at hr
    simp only
    rw [hr, parseMeta_metaBytes _ _ r (hg.fits _ _ (hgetk _ (by omega))).2]
    exact hn
  · -- first ordinals through `get`
    intro id hid
    have hB : 0 < Gen.STORE_BLOCK_LEN := by decide
    have hk : id / Gen.STORE_BLOCK_LEN < gs.length := by
      apply Nat.div_lt_of_lt_mul
      have : (gs.length - 1) * Gen.STORE_BLOCK_LEN + Gen.STORE_BLOCK_LEN = Gen.STORE_BLOCK_LEN * gs.length := by
        rw [← Nat.succ_mul, Nat.mul_comm]; congr 1; omega
      omega
    have hdecomp : id = id / Gen.STORE_BLOCK_LEN * Gen.STORE_BLOCK_LEN + id % Gen.STORE_BLOCK_LEN := by
      rw [Nat.mul_comm]; exact (Nat.div_add_mod id _).symm
    have hi : id % Gen.STORE_BLOCK_LEN ≤ (gs.getD (id / Gen.STORE_BLOCK_LEN) emptyGroup).more.length := by
      by_cases hl : id / Gen.STORE_BLOCK_LEN + 1 < gs.length
      · have := hfull _ hl
        have := Nat.mod_lt id hB
        omega
      · have hke : id / Gen.STORE_BLOCK_LEN = gs.length - 1 := by omega
        rw [hke] at hdecomp ⊢
        omega
    have hget := store_get gs (id / Gen.STORE_BLOCK_LEN) (id % Gen.STORE_BLOCK_LEN) _ (hgetk _ hk) hg.size
      (hg.fits _ _ (hgetk _ hk)).1 (hg.fits _ _ (hgetk _ hk)).2 hi (Nat.mod_lt id hB)
    rw [hopen, ← hdecomp] at hget
    simp only [hget]
    have hflat := flatten_chunk_getD (gs.map (·.ords)) Gen.STORE_BLOCK_LEN (id / Gen.STORE_BLOCK_LEN)
      (id % Gen.STORE_BLOCK_LEN) _ 0 (hchunk _ hk)
      (by
        intro j c' hj hlt
        rw [hchunk j (by omega)] at hj
        cases hj
        rw [hordsLen]; exact hfull j (by omega))
      (by rw [hordsLen]; omega)
    rw [← hdecomp] at hflat
    unfold allOrds
    rw [hflat, ords_getD _ _ hi]
  · intro g hgl
    obtain ⟨r, hr⟩ := storeMetas_drop 0 gs g _ (hgetk g hgl)
    rw [Nat.zero_add] at hr
    simp only
    rw [hr, parseMeta_metaBytes _ _ r (hg.fits g _ (hgetk g hgl)).2]

/-- every block id below the number of blocks reads back, with the first ordinal of that block -/
theorem store_get_valid (gs : List GroupSpec) (hg : GoodStore gs) (id : Nat) (hid : id < (allOrds gs).length) :
    ∃ a, (openStore (storeBytes gs)).get id = some a ∧ a.firstOrd = (allOrds gs).getD id 0 := by
  have hG := hg.nonempty
  have hgetk : ∀ k, k < gs.length → gs[k]? = some (gs.getD k emptyGroup) := by
    intro k hk
    simp [List.getD_eq_getElem?_getD, List.getElem?_eq_getElem hk]
  have hfull : ∀ g, g + 1 < gs.length → (gs.getD g emptyGroup).more.length + 1 = Gen.STORE_BLOCK_LEN :=
    fun g hgl => hg.full g _ (hgetk g (by omega)) hgl
  have hlast : (gs.getD (gs.length - 1) emptyGroup).more.length + 1 ≤ Gen.STORE_BLOCK_LEN :=
    hg.last _ _ (hgetk _ (by omega))
  have hchunk : ∀ k, k < gs.length → (gs.map (·.ords))[k]? = some (gs.getD k emptyGroup).ords := by
    intro k hk
    rw [List.getElem?_map, hgetk k hk]; rfl
  have hordsLen : ∀ g : GroupSpec, g.ords.length = g.more.length + 1 := by
    intro g; simp [GroupSpec.ords]
  have hn : (allOrds gs).length
      = (gs.length - 1) * Gen.STORE_BLOCK_LEN + (gs.getD (gs.length - 1) emptyGroup).more.length + 1 := by
    obtain ⟨c, hc, hl⟩ := flatten_chunk_length (gs.map (·.ords)) Gen.STORE_BLOCK_LEN (by simpa using hG)
      (by
        intro j c' hj hlt
        simp only [List.length_map] at hlt
        rw [hchunk j (by omega)] at hj
        cases hj
        rw [hordsLen]; exact hfull j hlt)
    simp only [List.length_map] at hc hl
    rw [hchunk _ (by omega)] at hc
    cases hc
    unfold allOrds
    rw [hl, hordsLen]; omega
  have hB : 0 < Gen.STORE_BLOCK_LEN := by decide
  have hk : id / Gen.STORE_BLOCK_LEN < gs.length := by
    apply Nat.div_lt_of_lt_mul
    have : (gs.length - 1) * Gen.STORE_BLOCK_LEN + Gen.STORE_BLOCK_LEN = Gen.STORE_BLOCK_LEN * gs.length := by
      rw [← Nat.succ_mul, Nat.mul_comm]; congr 1; omega
    omega
  have hdecomp : id = id / Gen.STORE_BLOCK_LEN * Gen.STORE_BLOCK_LEN + id % Gen.STORE_BLOCK_LEN := by
    rw [Nat.mul_comm]; exact (Nat.div_add_mod id _).symm
  have hi : id % Gen.STORE_BLOCK_LEN ≤ (gs.getD (id / Gen.STORE_BLOCK_LEN) emptyGroup).more.length := by
    by_cases hl : id / Gen.STORE_BLOCK_LEN + 1 < gs.length
    · have := hfull _ hl
      have := Nat.mod_lt id hB
      omega
    · have hke : id / Gen.STORE_BLOCK_LEN = gs.length - 1 := by omega
      rw [hke] at hdecomp ⊢
      omega
  have hget := store_get gs (id / Gen.STORE_BLOCK_LEN) (id % Gen.STORE_BLOCK_LEN) _ (hgetk _ hk) hg.size
    (hg.fits _ _ (hgetk _ hk)).1 (hg.fits _ _ (hgetk _ hk)).2 hi (Nat.mod_lt id hB)
  rw [← hdecomp] at hget
  refine ⟨_, hget, ?_⟩
  have hflat := flatten_chunk_getD (gs.map (·.ords)) Gen.STORE_BLOCK_LEN (id / Gen.STORE_BLOCK_LEN)
    (id % Gen.STORE_BLOCK_LEN) _ 0 (hchunk _ hk)
    (by
      intro j c' hj hlt
      rw [hchunk j (by omega)] at hj
      cases hj
      rw [hordsLen]; exact hfull j (by omega))
    (by rw [hordsLen]; omega)
  rw [← hdecomp] at hflat
  unfold allOrds
  rw [hflat, ords_getD _ _ hi]

end TantivyModel.SSTable
