import TantivyModel.Proofs.SSTable.FileOrd
import TantivyModel.Proofs.SSTable.WriterStore
/-! `ord_to_term` on the bytes of a file whose index store is the one the writer lays out -/
namespace TantivyModel.SSTable
open TantivyModel

/-- the addresses `Writer::flush_block` hands to the index builder: first ordinal and byte range
of every frame -/
def frameAddrs (blocks : List (List Key)) (ps : List (List UInt8)) : List BlockAddr :=
  (List.range blocks.length).map (fun i => ⟨ordStart blocks i, frameStart ps i, frameStart ps (i + 1)⟩)

theorem chained_map_range' (f : Nat → BlockAddr) (hf : ∀ i, (f i).stop = (f (i + 1)).start) (s n : Nat) :
    Chained ((List.range' s n).map f) := by
  induction n generalizing s with
  | zero => simp [Chained]
  | succ m ih =>
    cases m with
    | zero => simp [Chained]
    | succ k =>
      have := ih (s + 1)
      simp only [List.range'_succ, List.map_cons] at this ⊢
      exact ⟨hf s, this⟩

theorem frameAddrs_chained (blocks : List (List Key)) (ps : List (List UInt8)) :
    Chained (frameAddrs blocks ps) := by
  unfold frameAddrs
  rw [List.range_eq_range']
  exact chained_map_range' _ (fun _ => rfl) 0 _

theorem frameAddrs_length (blocks : List (List Key)) (ps : List (List UInt8)) :
    (frameAddrs blocks ps).length = blocks.length := by simp [frameAddrs]

/-- `Dictionary::open` + `ord_to_term` on the bytes of a whole file whose block-address store is
the one `BlockAddrStoreWriter` lays out for the frame addresses: no hypothesis on what `get`
returns is left -/
theorem written_file_ord_to_term (skip : List UInt8 → List UInt8) (blocks : List (List Key))
    (ps : List (List UInt8)) (fst : List UInt8) (numTerms version ord : Nat)
    (hinc : ∀ b ∈ blocks, StrictInc b) (hne : ∀ b ∈ blocks, b ≠ []) (hbne : blocks ≠ [])
    (hskip : ∀ (i : Nat) p b, ps[i]? = some p → blocks[i]? = some b → skip p = encodeBlockKeys b)
    (hlen : ps.length = blocks.length)
    (hpsz : ∀ p ∈ ps, p ≠ [] ∧ p.length + 1 < 4294967296)
    (hok : WriterStoreOk (frameAddrs blocks ps))
    (hfst0 : fst.length ≠ 0) (hfst : fst.length < 18446744073709551616)
    (hdata : (frameBlocks ps).length < 18446744073709551616)
    (hn : numTerms < 18446744073709551616) (hv : version < 4294967296) :
    fileOrdToTerm skip (finishFile (frameBlocks ps)
        (fst ++ storeBytes (writerStore (frameAddrs blocks ps)) ++ u64enc fst.length) numTerms version) ord
      = some (blocks.flatten[ord]?) := by
  have hch := frameAddrs_chained blocks ps
  have hane : frameAddrs blocks ps ≠ [] := by
    intro e
    have := frameAddrs_length blocks ps
    rw [e] at this
    exact hbne (List.eq_nil_of_length_eq_zero this.symm)
  have hg := writerStore_good _ hane hok
  have hcount : (allOrds (writerStore (frameAddrs blocks ps))).length = blocks.length := by
    rw [allOrds_eq_map, List.length_map, writerStore_addrs _ hch, frameAddrs_length]
  apply file_ord_to_term' skip blocks ps _ fst numTerms version ord hinc hne hskip hlen hpsz hg hcount
    ?_ hfst0 hfst hdata hn hv
  intro id a hlt hget
  rw [writer_store_get _ hch hok id (by rw [frameAddrs_length]; exact hlt)] at hget
  unfold frameAddrs at hget
  rw [List.getElem?_map, List.getElem?_range hlt] at hget
  simp only [Option.map_some, Option.some.injEq] at hget
  subst hget
  exact ⟨rfl, rfl, rfl⟩

end TantivyModel.SSTable
