import TantivyModel.Proofs.SSTable.FileOrd
import TantivyModel.Proofs.SSTable.WriterStore
/-! `ord_to_term` on the bytes of a file whose index store is the one the writer lays out -/
namespace TantivyModel.SSTable
open TantivyModel

/-- the addresses `Writer::flush_block` hands to the index builder: first ordinal and byte range
of every frame -/
def frameAddrs (blocks : List (List Key)) (ps : List (List UInt8)) : List BlockAddr :=
  (List.range blocks.length).map (fun i => ⟨ordStart blocks i, frameStart ps i, frameStart ps (i + 1)⟩)

theorem chained_map_range' (f : Nat → BlockAddr) (hf : ∀ i, (f i).stop = (f (i + 1)).start) (s n : Nat) :
    Chained ((List.range' s n).map f) := by
  induction n generalizing s with
  | zero => simp [Chained]
  | succ m ih =>
    cases m with
    | zero => simp [Chained]
    | succ k =>
      have := ih (s + 1)
      simp only [List.range'_succ, List.map_cons] at this ⊢
      exact ⟨hf s, this⟩

theorem frameAddrs_chained (blocks : List (List Key)) (ps : List (List UInt8)) :
    Chained (frameAddrs blocks ps) := by
  unfold frameAddrs
  rw [List.range_eq_range']
  exact chained_map_range' _ (fun _ => rfl) 0 _

theorem frameAddrs_length (blocks : List (List Key)) (ps : List (List UInt8)) :
    (frameAddrs blocks ps).length = blocks.length := by simp [frameAddrs]

/-- `Dictionary::open` + `ord_to_term` on the bytes of a whole file whose block-address store is
the one `BlockAddrStoreWriter` lays out for the frame addresses: no hypothesis on what `get`
returns is left -/
theorem written_file_ord_to_term (skip : List UInt8 → List UInt8) (blocks : List (List Key))
    (ps : List (List UInt8)) (fst : List UInt8) (numTerms version ord : Nat)
    (hinc : ∀ b ∈ blocks, StrictInc b) (hne : ∀ b ∈ blocks, b ≠ []) (hbne : blocks ≠ [])
    (hskip : ∀ (i : Nat) p b, ps[i]? = some p → blocks[i]? = some b → skip p = encodeBlockKeys b)
    (hlen : ps.length = blocks.length)
    (hpsz : ∀ p ∈ ps, p ≠ [] ∧ p.length + 1 < 4294967296)
    (hok : WriterStoreOk (frameAddrs blocks ps))
    (hfst0 : fst.length ≠ 0) (hfst : fst.length < 18446744073709551616)
    (hdata : (frameBlocks ps).length < 18446744073709551616)
    (hn : numTerms < 18446744073709551616) (hv : version < 4294967296) :
    fileOrdToTerm skip (finishFile (frameBlocks ps)
        (fst ++ storeBytes (writerStore (frameAddrs blocks ps)) ++ u64enc fst.length) numTerms version) ord
      = some (blocks.flatten[ord]?) := by
  have hch := frameAddrs_chained blocks ps
  have hane : frameAddrs blocks ps ≠ [] := by
    intro e
    have := frameAddrs_length blocks ps
    rw [e] at this
    exact hbne (List.eq_nil_of_length_eq_zero this.symm)
  have hg := writerStore_good _ hane hok
  have hcount : (allOrds (writerStore (frameAddrs blocks ps))).length = blocks.length := by
    rw [allOrds_eq_map, List.length_map, writerStore_addrs _ hch, frameAddrs_length]
  apply file_ord_to_term' skip blocks ps _ fst numTerms version ord hinc hne hskip hlen hpsz hg hcount
    ?_ hfst0 hfst hdata hn hv
  intro id a hlt hget
  rw [writer_store_get _ hch hok id (by rw [frameAddrs_length]; exact hlt)] at hget
  unfold frameAddrs at hget
  rw [List.getElem?_map, List.getElem?_range hlt] at hget
  simp only [Option.map_some, Option.some.injEq] at hget
  subst hget
  exact ⟨rfl, rfl, rfl⟩

/-- `read_block` on one frame followed by anything -/
theorem readBlocks_one_tail (p tail : List UInt8) (hp1 : p ≠ []) (hp2 : p.length + 1 < 4294967296) :
    readBlocks 1 (frameBlock p ++ tail) = some [RawBlock.plain p] := by
  have hfr : frameBlock p ++ tail = u32enc (p.length + 1) ++ (0 :: (p ++ tail)) := by
    simp [frameBlock, List.append_assoc]
  rw [hfr]
  simp only [readBlocks]
  have hlen : (u32enc (p.length + 1) ++ (0 :: (p ++ tail))).length = 4 + (1 + (p.length + tail.length)) := by
    simp [u32enc_length]; omega
  have hle := u32le_enc (p.length + 1) (0 :: (p ++ tail)) hp2
  have hplen : 0 < p.length := List.length_pos_iff.mpr hp1
  have hdrop : (u32enc (p.length + 1) ++ (0 :: (p ++ tail))).drop 4 = 0 :: (p ++ tail) := by
    rw [List.drop_left' (u32enc_length _)]
  rw [hle, hdrop]
  have h1 : ¬ (4 + (1 + (p.length + tail.length)) = 0) := by omega
  have h2 : ¬ (4 + (1 + (p.length + tail.length)) < 4) := by omega
  have h3 : ¬ (p.length + 1 ≤ 1) := by omega
  simp only [hlen, h1, h2, h3, if_false, Nat.add_sub_cancel]
  have h4 : ¬ ((p ++ tail).length < p.length) := by simp
  simp only [h4, if_false, List.take_left]
  simp

/-- a file with at most one block carries no index (`fst_len = 0`, `SSTableIndexV3Empty`: one
pseudo-block covering the data region): `ord_to_term` reads that block -/
theorem single_block_file_ord_to_term (skip : List UInt8 → List UInt8) (b : List Key) (p : List UInt8)
    (numTerms version ord : Nat) (hinc : StrictInc b) (hskip : skip p = encodeBlockKeys b)
    (hp1 : p ≠ []) (hp2 : p.length + 1 < 4294967296)
    (hn : numTerms < 18446744073709551616) (hv : version < 4294967296) :
    fileOrdToTerm skip (finishFile (frameBlocks [p]) (u64enc 0) numTerms version) ord = some b[ord]? := by
  unfold fileOrdToTerm
  have hdl : (frameBlocks [p]).length < 18446744073709551616 := by
    simp [frameBlocks, frameBlock, u32enc_length]; omega
  rw [openFile_finish _ _ _ _ hdl hn hv]
  have hblock : fileBlockForOrd ⟨frameBlocks [p], u64enc 0, numTerms, version⟩ ord
      = some ⟨0, 0, (frameBlocks [p]).length⟩ := by
    unfold fileBlockForOrd
    have : u64le (List.drop ((u64enc 0).length - 8) (u64enc 0)) = 0 := by decide
    simp only [this, if_true]
  unfold openedOrdToTerm
  rw [hblock]
  simp only [List.take_length, List.drop_zero]
  have hfb : frameBlocks [p] = frameBlock p ++ u32enc 0 := by simp [frameBlocks]
  rw [hfb, readBlocks_one_tail p _ hp1 hp2]
  simp only [hskip, decodeBlockKeys_encode b hinc, Nat.sub_zero]

/-- the empty dictionary: no block, no index; every ordinal is past the end -/
theorem empty_file_ord_to_term (skip : List UInt8 → List UInt8) (numTerms version ord : Nat)
    (hn : numTerms < 18446744073709551616) (hv : version < 4294967296) :
    fileOrdToTerm skip (finishFile (frameBlocks []) (u64enc 0) numTerms version) ord = some none := by
  unfold fileOrdToTerm
  rw [openFile_finish _ _ _ _ (by decide) hn hv]
  rfl

end TantivyModel.SSTable
