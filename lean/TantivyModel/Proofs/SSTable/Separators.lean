import TantivyModel.Proofs.SSTable.View
/-! the separator keys handed to the FST builder are strictly increasing; the FST as a contract -/
namespace TantivyModel.SSTable
open TantivyModel

theorem sepsOf_strictInc {V} (bs : List (Assoc V)) (h : GoodBlocks bs) : StrictInc (sepsOf bs) := by
  induction bs with
  | nil => simp [sepsOf, StrictInc]
  | cons b rest ih =>
    obtain ⟨s, ss, hs, hss, _, hgt⟩ := sepsOf_head b rest h
    rw [hs]
    subst hss
    cases rest with
    | nil => simp [sepsOf, StrictInc]
    | cons b' r =>
      obtain ⟨s', ss', hs', _, hle', _⟩ := sepsOf_head b' r h.tail
      rw [hs']
      have hb' : b' ≠ [] := h.nonempty b' (by simp)
      obtain ⟨e, he⟩ := List.exists_mem_of_ne_nil _ hb'
      have h1 : lexLt s e.1 = true := hgt e (by simp [he])
      have h2 : lexLe e.1 s' = true := hle' e he
      have := ih h.tail
      rw [hs'] at this
      exact ⟨lexLt_of_lt_of_le h1 h2, this⟩

theorem mkBlocks_seps_gen {V} (o : Nat) (bs : List (Assoc V)) (ss : List Key) (h : ss.length = bs.length) :
    (mkBlocks o bs ss).map (·.sep) = ss := by
  induction bs generalizing o ss with
  | nil =>
    have : ss = [] := List.eq_nil_of_length_eq_zero (by simpa using h)
    subst this; rfl
  | cons b rest ih =>
    cases ss with
    | nil => simp at h
    | cons s ss' =>
      simp only [mkBlocks, List.map_cons]
      rw [ih (o + b.length) ss' (by simpa using h)]

theorem mkBlocks_seps {V} (o : Nat) (bs : List (Assoc V)) :
    (mkBlocks o bs (sepsOf bs)).map (·.sep) = sepsOf bs :=
  mkBlocks_seps_gen o bs _ (sepsOf_length bs)

/-- the keys `SSTableIndexBuilder::serialize` inserts into `tantivy_fst::MapBuilder`, in order:
strictly increasing (the builder rejects anything else) -/
theorem build_seps_strictInc {V} (L : Nat) (m : Assoc V) (hs : SortedMap m) :
    StrictInc ((build L m).blocks.map (·.sep)) := by
  rw [build_blocks_eq, mkBlocks_seps]
  exact sepsOf_strictInc _ (build_good L m hs)

/-- what the sstable index uses of tantivy-fst: a map from the inserted keys to their insertion
index whose `range().ge(k).into_stream().next()` is the first entry with key ≥ k -/
structure FstIndex where
  keys : List Key
  geFirst : Key → Option Nat

/-- the stated contract of tantivy-fst (external, not verified) -/
def FstContract (f : FstIndex) : Prop :=
  StrictInc f.keys ∧ ∀ k, f.geFirst k = f.keys.findIdx? (fun s => lexLe k s)

/-- `SSTableIndexV3::locate_with_key` through any FST that meets the contract and was built from
the dictionary's separators = the routing the theorems are about -/
theorem fst_locate {V} (L : Nat) (m : Assoc V) (f : FstIndex) (hf : FstContract f)
    (hkeys : f.keys = (build L m).blocks.map (·.sep)) (hmulti : (build L m).single = false) (k : Key) :
    f.geFirst k = (build L m).locateKey k := by
  rw [hf.2 k, hkeys]
  unfold Dict.locateKey
  simp only [hmulti, Bool.false_eq_true, if_false]
  rw [List.findIdx?_map]
  rfl

end TantivyModel.SSTable
