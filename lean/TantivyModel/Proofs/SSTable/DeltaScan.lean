import TantivyModel.Proofs.SSTable.Ops
/-! `decode_up_to_or_next` on the front-coded entries (`ok_bytes` bookkeeping) = the plain scan -/
namespace TantivyModel.SSTable
open TantivyModel

/-! ### common prefixes -/

theorem cpl_comm (a b : Key) : cpl a b = cpl b a := by
  induction a generalizing b with
  | nil => cases b <;> simp [cpl]
  | cons x xs ih =>
    cases b with
    | nil => simp [cpl]
    | cons y ys =>
      simp only [cpl]
      by_cases e : x = y
      · subst e; simp [ih ys]
      · have : ¬ y = x := fun h => e h.symm
        simp [e, this]

theorem cpl_append (p x y : Key) : cpl (p ++ x) (p ++ y) = p.length + cpl x y := by
  induction p with
  | nil => simp
  | cons a rest ih => simp [cpl, ih]; omega

theorem getElem?_eq_of_lt_cpl (x y : Key) (c : Nat) (h : c < cpl x y) : x[c]? = y[c]? := by
  induction x generalizing y c with
  | nil => simp [cpl] at h
  | cons a xs ih =>
    cases y with
    | nil => simp [cpl] at h
    | cons b ys =>
      simp only [cpl] at h
      split at h
      · rename_i e; subst e
        cases c with
        | zero => simp
        | succ c' => simp only [List.getElem?_cons_succ]; exact ih ys c' (by omega)
      · omega

theorem take_eq_of_le_cpl (x y : Key) (c : Nat) (h : c ≤ cpl x y) : x.take c = y.take c := by
  have := congrArg (List.take c) (cpl_take x y)
  simpa [List.take_take, Nat.min_eq_left h] using this

/-- two keys that agree on `c` bytes and differ at byte `c` -/
theorem lexLt_of_common (x y : Key) (c : Nat) (ht : x.take c = y.take c) (hx : c < x.length)
    (hy : c < y.length) (hlt : (x[c]).toNat < (y[c]).toNat) : lexLt x y = true := by
  have ex : x = x.take c ++ x[c] :: x.drop (c + 1) := by simp
  have ey : y = x.take c ++ y[c] :: y.drop (c + 1) := by rw [ht]; simp
  rw [ex, ey, lexLt_append_left]
  simp [lexLt, hlt]

theorem cpl_eq_of_common (x y : Key) (c : Nat) (ht : x.take c = y.take c) (hx : c < x.length)
    (hy : c < y.length) (hne : x[c] ≠ y[c]) : cpl x y = c := by
  have ex : x = x.take c ++ x[c] :: x.drop (c + 1) := by simp
  have ey : y = x.take c ++ y[c] :: y.drop (c + 1) := by rw [ht]; simp
  rw [ex, ey, cpl_append]
  simp [cpl, hne]; omega

/-! ### the byte comparison of one suffix -/

/-- `matchSuffix` on the remaining key bytes `x = k[ok..]` -/
def ms : Key → Key → Nat × Option Bool
  | _, [] => (0, none)
  | [], _ :: _ => (0, none)
  | kb :: xs, s :: ss =>
    if s.toNat < kb.toNat then (0, some false)
    else if s = kb then ((ms xs ss).1 + 1, (ms xs ss).2)
    else (0, some true)

theorem matchSuffix_eq_ms (k : Key) (ok : Nat) (s : Key) :
    matchSuffix k ok s = ((ms (k.drop ok) s).1 + ok, (ms (k.drop ok) s).2) := by
  induction s generalizing ok with
  | nil => cases h : k.drop ok <;> simp [matchSuffix, ms]
  | cons b ss ih =>
    simp only [matchSuffix]
    cases hk : k[ok]? with
    | none =>
      have : k.drop ok = [] := by
        rw [List.drop_eq_nil_iff]; exact List.getElem?_eq_none_iff.mp hk
      simp [this, ms]
    | some kb =>
      have hlt : ok < k.length := (List.getElem?_eq_some_iff.mp hk).1
      have hkb : k[ok] = kb := (List.getElem?_eq_some_iff.mp hk).2
      have hd : k.drop ok = kb :: k.drop (ok + 1) := by rw [List.drop_eq_getElem_cons hlt, hkb]
      simp only [hd, ms]
      by_cases h1 : b.toNat < kb.toNat
      · simp [h1]
      · simp only [h1, if_false]
        by_cases h2 : b = kb
        · simp only [h2, if_true]
          rw [ih (ok + 1)]
          simp; omega
        · simp [h2]

theorem ms_fst (x s : Key) : (ms x s).1 = cpl x s := by
  induction x generalizing s with
  | nil => cases s <;> simp [ms, cpl]
  | cons kb xs ih =>
    cases s with
    | nil => simp [ms, cpl]
    | cons b ss =>
      simp only [ms, cpl]
      by_cases h1 : b.toNat < kb.toNat
      · have : ¬ kb = b := fun e => by subst e; omega
        simp [h1, this]
      · simp only [h1, if_false]
        by_cases h2 : b = kb
        · subst h2; simp [ih ss]
        · have : ¬ kb = b := fun e => h2 e.symm
          simp [h2, this]

theorem ms_true (x s : Key) (h : (ms x s).2 = some true) : lexLt x s = true := by
  induction x generalizing s with
  | nil => cases s <;> simp [ms] at h
  | cons kb xs ih =>
    cases s with
    | nil => simp [ms] at h
    | cons b ss =>
      simp only [ms] at h
      by_cases h1 : b.toNat < kb.toNat
      · simp [h1] at h
      · simp only [h1, if_false] at h
        by_cases h2 : b = kb
        · subst h2
          simp only [if_true] at h
          simp [lexLt, ih ss h]
        · have hne : b.toNat ≠ kb.toNat := fun e => h2 (u8_eq_of_toNat e)
          have : kb.toNat < b.toNat := by omega
          simp [lexLt, this]

theorem ms_prefix (x s : Key) (h : (ms x s).2 ≠ some true) (hc : cpl x s = x.length) :
    ∃ t, s = x ++ t := by
  induction x generalizing s with
  | nil => exact ⟨s, by simp⟩
  | cons kb xs ih =>
    cases s with
    | nil => simp [cpl] at hc
    | cons b ss =>
      simp only [cpl] at hc
      split at hc
      · rename_i e; subst e
        simp only [ms, Nat.lt_irrefl, if_false, if_true] at h
        obtain ⟨t, ht⟩ := ih ss h (by simpa using hc)
        exact ⟨t, by simp [ht]⟩
      · simp at hc

theorem ms_less (x s : Key) (h : (ms x s).2 ≠ some true) (hc : cpl x s ≠ x.length) :
    lexLt s x = true := by
  induction x generalizing s with
  | nil => simp [cpl] at hc
  | cons kb xs ih =>
    cases s with
    | nil => rfl
    | cons b ss =>
      simp only [ms] at h
      by_cases h1 : b.toNat < kb.toNat
      · simp [lexLt, h1]
      · simp only [h1, if_false] at h
        by_cases h2 : b = kb
        · subst h2
          simp only [if_true] at h
          have hc' : cpl xs ss ≠ xs.length := by
            intro e; apply hc; simp [cpl, e]
          simp [lexLt, ih ss h hc']
        · simp [h2] at h

/-! ### the scan -/

theorem deltaScan_spec (k : Key) (ks : List Key) (prev : Key) (ok ord : Nat)
    (hok : ok = cpl k prev) (hpk : prev = [] ∨ lexLt prev k = true)
    (hs : StrictInc ks) (hch : prev = [] ∨ ∀ a, ks.head? = some a → lexLt prev a = true) :
    deltaScan k (deltaEntries prev ks) ok ord = scanOrNext ks k ord := by
  induction ks generalizing prev ok ord with
  | nil => simp [deltaEntries, deltaScan, scanOrNext]
  | cons a rest ih =>
    have hrest : ∀ b, rest.head? = some b → lexLt a b = true := by
      intro b hb
      cases rest with
      | nil => simp at hb
      | cons c r => simp at hb; subst hb; exact hs.1
    simp only [deltaEntries, deltaScan, scanOrNext]
    have hkl := cpl_le_left k prev
    have hkr := cpl_le_right k prev
    have hal := cpl_le_left prev a
    have har := cpl_le_right prev a
    by_cases h1 : cpl prev a < ok
    · -- popped bytes that already matched: the entry is above the key
      simp only [h1, if_true]
      have hpne : prev ≠ [] := by
        intro e; subst e
        rw [cpl_comm, cpl_nil_left] at hok
        simp [cpl] at h1; omega
      have hpa : lexLt prev a = true := by
        rcases hch with e | h
        · exact absurd e hpne
        · exact h a rfl
      have hlt : cpl prev a < prev.length := by omega
      rcases (lexLt_iff_cpl prev a).mp hpa with ⟨e, _⟩ | ⟨_, ha, hbyte⟩
      · omega
      · have hkeq : k[cpl prev a]? = prev[cpl prev a]? := getElem?_eq_of_lt_cpl k prev _ (by omega)
        have hklt : cpl prev a < k.length := by omega
        have hkb : k[cpl prev a] = prev[cpl prev a] := by
          have := hkeq
          rw [List.getElem?_eq_getElem hklt, List.getElem?_eq_getElem hlt] at this
          exact Option.some.inj this
        have htake : k.take (cpl prev a) = a.take (cpl prev a) := by
          rw [take_eq_of_le_cpl k prev _ (by omega), cpl_take]
        have hka : lexLt k a = true := lexLt_of_common k a _ htake hklt ha (by rw [hkb]; exact hbyte)
        have hne : ¬ a = k := fun e => by rw [e, lexLt_irrefl] at hka; cases hka
        simp [hne, hka]
    · simp only [h1, if_false]
      by_cases h2 : cpl prev a > ok
      · -- shares more with the previous entry than the key does: still below the key
        simp only [h2, if_true]
        have hpne : prev ≠ [] := by intro e; subst e; simp [cpl] at h2
        have hpk' : lexLt prev k = true := by
          rcases hpk with e | h
          · exact absurd e hpne
          · exact h
        have hok' : ok = cpl prev k := by rw [hok, cpl_comm]
        rcases (lexLt_iff_cpl prev k).mp hpk' with ⟨e, _⟩ | ⟨hp, hkk, hbyte⟩
        · omega
        · have hp' : ok < prev.length := by omega
          have hkk' : ok < k.length := by omega
          have hbyte' : (prev[ok]).toNat < (k[ok]).toNat := by simpa only [hok'] using hbyte
          clear hbyte
          have hp := hp'
          have hkk := hkk'
          have hbyte := hbyte'
          have haeq : a[ok]? = prev[ok]? := by
            rw [cpl_comm] at h2; exact getElem?_eq_of_lt_cpl a prev ok h2
          have halt : ok < a.length := by omega
          have hab : a[ok] = prev[ok] := by
            rw [List.getElem?_eq_getElem halt, List.getElem?_eq_getElem hp] at haeq
            exact Option.some.inj haeq
          have htake : a.take ok = k.take ok := by
            rw [cpl_comm] at h2
            rw [take_eq_of_le_cpl a prev ok (by omega), hok']
            exact cpl_take prev k
          have hak : lexLt a k = true := lexLt_of_common a k ok htake halt hkk (by rw [hab]; exact hbyte)
          have hne : ¬ a = k := fun e => by rw [e, lexLt_irrefl] at hak; cases hak
          have hka : lexLt k a = false := lexLt_asymm hak
          simp only [hne, hka, if_false, Bool.false_eq_true]
          apply ih a ok (ord + 1) ?_ (Or.inr hak) hs.tail (Or.inr hrest)
          have hbne : k[ok] ≠ a[ok] := by
            intro e
            rw [hab] at e
            rw [e] at hbyte; omega
          exact (cpl_eq_of_common k a ok htake.symm hkk halt hbne).symm
      · -- same common prefix: compare the suffix with the rest of the key
        simp only [h2, if_false]
        have hkeep : cpl prev a = ok := by omega
        rw [matchSuffix_eq_ms]
        have htake : k.take ok = a.take ok := by
          rw [take_eq_of_le_cpl k prev ok (by omega), ← hkeep, cpl_take]
        have hk_split : k = k.take ok ++ k.drop ok := by simp
        have ha_split : a = k.take ok ++ a.drop ok := by rw [htake]; simp
        have hoklen : (k.take ok).length = ok := by simp; omega
        have hcpl : cpl k a = ok + cpl (k.drop ok) (a.drop ok) := by
          conv => lhs; rw [hk_split, ha_split, cpl_append, hoklen]
        have hlt_ka : lexLt k a = lexLt (k.drop ok) (a.drop ok) := by
          conv => lhs; rw [hk_split, ha_split, lexLt_append_left]
        have hlt_ak : lexLt a k = lexLt (a.drop ok) (k.drop ok) := by
          conv => lhs; rw [hk_split, ha_split, lexLt_append_left]
        rw [hkeep]
        by_cases hv : (ms (k.drop ok) (a.drop ok)).2 = some true
        · have hka : lexLt k a = true := by rw [hlt_ka]; exact ms_true _ _ hv
          have hne : ¬ a = k := fun e => by rw [e, lexLt_irrefl] at hka; cases hka
          simp [hv, hne, hka]
        · simp only [hv, if_false, ms_fst]
          by_cases hfull : cpl (k.drop ok) (a.drop ok) + ok = k.length
          · simp only [hfull, if_true]
            have hcx : cpl (k.drop ok) (a.drop ok) = (k.drop ok).length := by simp; omega
            obtain ⟨t, ht⟩ := ms_prefix _ _ hv hcx
            by_cases hlen : ok + (a.drop ok).length = k.length
            · -- the key itself
              have htnil : t = [] := by
                have hl := congrArg List.length ht
                simp only [List.length_append, List.length_drop] at hl hlen
                cases t with
                | nil => rfl
                | cons _ _ => simp only [List.length_cons] at hl; omega
              have hak : a = k := by
                rw [ha_split, ht, htnil]; simp
              simp only [List.length_drop] at hlen
              simp [hak]
              omega
            · have htne : t ≠ [] := by
                intro e; apply hlen
                rw [ht, e]; simp; omega
              have hka : lexLt k a = true := by
                rw [hlt_ka, ht]
                have : lexLt (k.drop ok ++ []) (k.drop ok ++ t) = lexLt [] t := lexLt_append_left _ _ _
                simp only [List.append_nil] at this
                rw [this]
                exact (lexLt_nil_iff t).mpr htne
              have hne : ¬ a = k := fun e => by rw [e, lexLt_irrefl] at hka; cases hka
              simp only [List.length_drop] at hlen
              simp [hne, hka]
              omega
          · simp only [hfull, if_false]
            have hcx : cpl (k.drop ok) (a.drop ok) ≠ (k.drop ok).length := by
              intro e; apply hfull; simp at e; omega
            have hak : lexLt a k = true := by rw [hlt_ak]; exact ms_less _ _ hv hcx
            have hne : ¬ a = k := fun e => by rw [e, lexLt_irrefl] at hak; cases hak
            have hka : lexLt k a = false := lexLt_asymm hak
            simp only [hne, hka, if_false, Bool.false_eq_true]
            apply ih a _ (ord + 1) ?_ (Or.inr hak) hs.tail (Or.inr hrest)
            rw [hcpl]; omega

end TantivyModel.SSTable
