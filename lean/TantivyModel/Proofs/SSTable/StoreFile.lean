import TantivyModel.Proofs.SSTable.StoreGroup
/-! the whole block-address store: serialised by the writer model, every address read back -/
namespace TantivyModel.SSTable
open TantivyModel

theorem u8ofNat (k : Nat) (hk : k < 256) : (UInt8.ofNat k).toNat = k := by
  simp [UInt8.toNat_ofNat', Nat.mod_eq_of_lt hk]

theorem leNat8_le8 (x : Nat) (r : List UInt8) (h : x < 2 ^ 64) : leNat 8 (le8 x ++ r) = x := by
  rw [leNat_eq, List.take_left' (le8_length x), streamNat_le8 x h]

theorem leNat4_le4 (x : Nat) (r : List UInt8) (h : x < 4294967296) : leNat 4 (le4 x ++ r) = x := by
  unfold leNat le4
  simp only [List.cons_append, List.nil_append, List.take_succ_cons, List.take_zero, List.foldr_cons,
    List.foldr_nil]
  rw [u8ofNat _ (Nat.mod_lt _ (by decide)), u8ofNat _ (Nat.mod_lt _ (by decide)),
    u8ofNat _ (Nat.mod_lt _ (by decide)), u8ofNat _ (Nat.mod_lt _ (by decide))]
  omega

theorem leNat2_le2 (x : Nat) (r : List UInt8) (h : x < 65536) : leNat 2 (le2 x ++ r) = x := by
  unfold leNat le2
  simp only [List.cons_append, List.nil_append, List.take_succ_cons, List.take_zero, List.foldr_cons,
    List.foldr_nil]
  rw [u8ofNat _ (Nat.mod_lt _ (by decide)), u8ofNat _ (Nat.mod_lt _ (by decide))]
  omega

theorem leNat1_cons (b : Nat) (r : List UInt8) (h : b < 256) : leNat 1 (UInt8.ofNat b :: r) = b := by
  unfold leNat
  simp [u8ofNat b h]

/-- sizes that fit the fields of the 36-byte metadata record -/
structure MetaFits (g : GroupSpec) (offset : Nat) : Prop where
  off : offset < 2 ^ 64
  start : g.ref.start < 2 ^ 64
  ord : g.ref.firstOrd < 2 ^ 64
  rs : g.rs < 4294967296
  os : g.os < 4294967296
  ob : g.ob < 256
  rb : g.rb < 256
  len : g.more.length < 65536

theorem metaBytes_length (g : GroupSpec) (offset : Nat) : (metaBytes g offset).length = META_SIZE := by
  simp [metaBytes, le8_length, le4, le2, META_SIZE]

/-- `BlockAddrBlockMetadata::deserialize ∘ serialize` -/
theorem parseMeta_metaBytes (g : GroupSpec) (offset : Nat) (r : List UInt8) (h : MetaFits g offset) :
    parseMeta (metaBytes g offset ++ r)
      = { offset := offset, refStart := g.ref.start, refOrd := g.ref.firstOrd, rangeSlope := g.rs,
          ordSlope := g.os, ordBits := g.ob, rangeBits := g.rb, blockLen := g.more.length } := by
  unfold parseMeta metaBytes
  have d8 : ∀ (x : Nat) (t : List UInt8), (le8 x ++ t).drop 8 = t := fun x t => List.drop_left' (le8_length x)
  have e8 : ∀ (a b t : List UInt8), a.length = 8 → (a ++ t).drop (8 + b.length) = t.drop b.length := by
    intro a b t ha; rw [← List.drop_drop, List.drop_left' ha]
  simp only [List.append_assoc]
  have h1 := leNat8_le8 offset (le8 g.ref.start ++ (le8 g.ref.firstOrd ++ (le4 g.rs ++ (le4 g.os ++
    (UInt8.ofNat g.ob :: UInt8.ofNat g.rb :: (le2 g.more.length ++ r)))))) h.off
  have hd8 : ∀ t : List UInt8, (le8 offset ++ t).drop 8 = t := fun t => d8 offset t
  have hd16 : ∀ t : List UInt8, (le8 offset ++ (le8 g.ref.start ++ t)).drop 16 = t := by
    intro t
    have : (16 : Nat) = 8 + 8 := rfl
    rw [this, ← List.drop_drop, d8, d8]
  have hd24 : ∀ t : List UInt8, (le8 offset ++ (le8 g.ref.start ++ (le8 g.ref.firstOrd ++ t))).drop 24 = t := by
    intro t
    have : (24 : Nat) = 16 + 8 := rfl
    rw [this, ← List.drop_drop, hd16, d8]
  have d4 : ∀ (x : Nat) (t : List UInt8), (le4 x ++ t).drop 4 = t := fun x t => List.drop_left' rfl
  have hd28 : ∀ t : List UInt8,
      (le8 offset ++ (le8 g.ref.start ++ (le8 g.ref.firstOrd ++ (le4 g.rs ++ t)))).drop 28 = t := by
    intro t
    have : (28 : Nat) = 24 + 4 := rfl
    rw [this, ← List.drop_drop, hd24, d4]
  have hd32 : ∀ t : List UInt8,
      (le8 offset ++ (le8 g.ref.start ++ (le8 g.ref.firstOrd ++ (le4 g.rs ++ (le4 g.os ++ t))))).drop 32 = t := by
    intro t
    have : (32 : Nat) = 28 + 4 := rfl
    rw [this, ← List.drop_drop, hd28, d4]
  have hd33 : ∀ (x : UInt8) (t : List UInt8),
      (le8 offset ++ (le8 g.ref.start ++ (le8 g.ref.firstOrd ++ (le4 g.rs ++ (le4 g.os ++ (x :: t)))))).drop 33 = t := by
    intro x t
    have : (33 : Nat) = 32 + 1 := rfl
    rw [this, ← List.drop_drop, hd32]; rfl
  have hd34 : ∀ (x y : UInt8) (t : List UInt8),
      (le8 offset ++ (le8 g.ref.start ++ (le8 g.ref.firstOrd ++ (le4 g.rs ++ (le4 g.os ++ (x :: y :: t)))))).drop 34 = t := by
    intro x y t
    have : (34 : Nat) = 33 + 1 := rfl
    rw [this, ← List.drop_drop, hd33]; rfl
  simp only [List.cons_append]
  rw [h1, hd8, hd16, hd24, hd28, hd32, hd33, hd34]
  rw [leNat8_le8 _ _ h.start, leNat8_le8 _ _ h.ord, leNat4_le4 _ _ h.rs, leNat4_le4 _ _ h.os,
    leNat1_cons _ _ h.ob, leNat1_cons _ _ h.rb, leNat2_le2 _ _ h.len]

/-- offset of store block `k` in the packed data -/
def offsetOf (gs : List GroupSpec) (k : Nat) : Nat := ((gs.take k).map (fun g => g.bytes.length)).sum

theorem storeMetas_length (off : Nat) (gs : List GroupSpec) : (storeMetas off gs).length = META_SIZE * gs.length := by
  induction gs generalizing off with
  | nil => rfl
  | cons g rest ih =>
    simp only [storeMetas, List.length_append, metaBytes_length, ih, List.length_cons]
    rw [Nat.mul_succ]; omega

theorem storeMetas_drop (off : Nat) (gs : List GroupSpec) (k : Nat) (g : GroupSpec) (h : gs[k]? = some g) :
    ∃ r, (storeMetas off gs).drop (k * META_SIZE) = metaBytes g (off + offsetOf gs k) ++ r := by
  induction gs generalizing off k with
  | nil => simp at h
  | cons g0 rest ih =>
    cases k with
    | zero =>
      simp at h; subst h
      exact ⟨storeMetas (off + g0.bytes.length) rest, by simp [storeMetas, offsetOf]⟩
    | succ j =>
      simp only [List.getElem?_cons_succ] at h
      obtain ⟨r, hr⟩ := ih (off + g0.bytes.length) j h
      refine ⟨r, ?_⟩
      have e : (j + 1) * META_SIZE = META_SIZE + j * META_SIZE := by rw [Nat.succ_mul]; omega
      simp only [storeMetas]
      rw [e, ← List.drop_drop, List.drop_left' (metaBytes_length g0 off), hr]
      simp [offsetOf, Nat.add_assoc]

theorem storeData_drop (gs : List GroupSpec) (k : Nat) (g : GroupSpec) (h : gs[k]? = some g) :
    ∃ r, (storeData gs).drop (offsetOf gs k) = g.bytes ++ r := by
  induction gs generalizing k with
  | nil => simp at h
  | cons g0 rest ih =>
    cases k with
    | zero =>
      simp at h; subst h
      exact ⟨storeData rest, by simp [storeData, offsetOf]⟩
    | succ j =>
      simp only [List.getElem?_cons_succ] at h
      obtain ⟨r, hr⟩ := ih j h
      refine ⟨r, ?_⟩
      have e : offsetOf (g0 :: rest) (j + 1) = g0.bytes.length + offsetOf rest j := by
        simp [offsetOf]
      have hd : storeData (g0 :: rest) = g0.bytes ++ storeData rest := by simp [storeData]
      rw [e, hd, ← List.drop_drop, List.drop_left' rfl, hr]

theorem openStore_storeBytes (gs : List GroupSpec) (h : META_SIZE * gs.length < 2 ^ 64) :
    openStore (storeBytes gs) = ⟨storeMetas 0 gs, storeData gs⟩ := by
  unfold openStore storeBytes
  rw [leNat8_le8 _ _ h]
  simp only [List.drop_left' (le8_length _)]
  rw [List.take_left' (storeMetas_length 0 gs), List.drop_left' (storeMetas_length 0 gs)]

theorem get_ignores_offset (m : StoreMeta) (o : Nat) (data : List UInt8) (i : Nat) :
    ({ m with offset := o } : StoreMeta).get data i = m.get data i := rfl

/-- every store block of the serialised store gives its addresses back through `BlockAddrStore::get` -/
theorem store_get (gs : List GroupSpec) (k i : Nat) (g : GroupSpec) (hk : gs[k]? = some g)
    (hsize : META_SIZE * gs.length < 2 ^ 64)
    (hfit : GroupFits g.rs g.rb g.os g.ob g.ref g.more g.lastStop)
    (hmeta : MetaFits g (offsetOf gs k)) (hi : i ≤ g.more.length) (hB : i < Gen.STORE_BLOCK_LEN) :
    (openStore (storeBytes gs)).get (k * Gen.STORE_BLOCK_LEN + i)
      = some ⟨((g.ref :: g.more).getD i g.ref).firstOrd, ((g.ref :: g.more).getD i g.ref).start,
              startAt g.more g.lastStop i⟩ := by
  rw [openStore_storeBytes gs hsize]
  unfold Store.get
  have hdiv : (k * Gen.STORE_BLOCK_LEN + i) / Gen.STORE_BLOCK_LEN = k := by
    rw [Nat.add_comm, Nat.add_mul_div_right _ _ (by decide), Nat.div_eq_of_lt hB, Nat.zero_add]
  have hmod : (k * Gen.STORE_BLOCK_LEN + i) % Gen.STORE_BLOCK_LEN = i := by
    rw [Nat.add_comm, Nat.add_mul_mod_self_right, Nat.mod_eq_of_lt hB]
  simp only [hdiv, hmod]
  obtain ⟨r, hr⟩ := storeMetas_drop 0 gs k g hk
  rw [Nat.zero_add] at hr
  rw [hr]
  have hlen : ¬ ((metaBytes g (offsetOf gs k) ++ r).length < META_SIZE) := by
    rw [List.length_append, metaBytes_length]; omega
  simp only [hlen, if_false]
  rw [parseMeta_metaBytes g _ r hmeta]
  simp only
  obtain ⟨r2, hr2⟩ := storeData_drop gs k g hk
  rw [hr2]
  have := group_get_tail g.rs g.rb g.os g.ob g.ref g.more g.lastStop hfit r2 i hi
  unfold GroupSpec.bytes
  rw [← this]
  rfl

end TantivyModel.SSTable
