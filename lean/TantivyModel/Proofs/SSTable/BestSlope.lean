import TantivyModel.Proofs.SSTable.StoreFile
/-! the parameters `find_best_slope` picks always fit: store blocks as the writer really
parametrises them round-trip without further hypotheses on slopes and widths -/
namespace TantivyModel.SSTable
open TantivyModel

/-- whatever slope the heuristic picks, the width it returns covers every deviation (as long as
the largest deviation stays below the 56-bit cut-off of `compute_num_bits`) -/
theorem findBestSlope_fits (els : List (Nat × Nat))
    (h56 : numBits (maxDeviation (findBestSlope els).1 els) ≤ 56) :
    (findBestSlope els).2 = slopeBits (findBestSlope els).1 els ∧
    1 ≤ (findBestSlope els).2 ∧ (findBestSlope els).2 ≤ 57 ∧
    ∀ e ∈ els, deviation (findBestSlope els).1 e.1 e.2 < 2 ^ ((findBestSlope els).2 - 1) := by
  have hdef : (findBestSlope els).2 = computeNumBits (maxDeviation (findBestSlope els).1 els) + 1 := rfl
  have hc : computeNumBits (maxDeviation (findBestSlope els).1 els)
      = numBits (maxDeviation (findBestSlope els).1 els) := by
    unfold computeNumBits; simp [h56]
  have heq : (findBestSlope els).2 = slopeBits (findBestSlope els).1 els := by
    rw [hdef, hc]; rfl
  refine ⟨heq, by rw [hdef]; omega, by rw [hdef, hc]; omega, ?_⟩
  intro e he
  rw [heq]
  exact slopeBits_fits _ els e he

theorem mem_zipIdx_of_getElem {α} (l : List α) (k j : Nat) (a : α) (h : l[j]? = some a) :
    (a, k + j) ∈ l.zipIdx k := by
  induction l generalizing k j with
  | nil => simp at h
  | cons x rest ih =>
    rw [List.zipIdx_cons]
    cases j with
    | zero => simp at h; subst h; simp
    | succ i =>
      simp only [List.getElem?_cons_succ] at h
      have := ih (k + 1) i h
      have e : k + 1 + i = k + (i + 1) := by omega
      rw [e] at this
      exact List.mem_cons_of_mem _ this

/-- monotone data and deviations below the cut-off are all a store block needs -/
structure WriterGroupOk (ref : BlockAddr) (more : List BlockAddr) (lastStop : Nat) : Prop where
  startsGe : ∀ j, j ≤ more.length → ref.start ≤ startAt more lastStop j
  ordsGe : ∀ a ∈ more, ref.firstOrd ≤ a.firstOrd
  range56 : numBits (maxDeviation (findBestSlope (rangeEls ref more lastStop)).1 (rangeEls ref more lastStop)) ≤ 56
  ord56 : numBits (maxDeviation (findBestSlope (ordEls ref more)).1 (ordEls ref more)) ≤ 56

/-- the store block as `flush_block` parametrises it (slopes and widths from `find_best_slope`)
satisfies every fitting condition of `C15_store_block_get` -/
theorem mkGroup_fits (ref : BlockAddr) (more : List BlockAddr) (lastStop : Nat)
    (h : WriterGroupOk ref more lastStop) :
    GroupFits (mkGroup ref more lastStop).rs (mkGroup ref more lastStop).rb (mkGroup ref more lastStop).os
      (mkGroup ref more lastStop).ob ref more lastStop := by
  obtain ⟨_, r1, r57, rfit⟩ := findBestSlope_fits (rangeEls ref more lastStop) h.range56
  obtain ⟨_, o1, o57, ofit⟩ := findBestSlope_fits (ordEls ref more) h.ord56
  refine ⟨r1, r57, o1, o57, h.startsGe, h.ordsGe, ?_, ?_⟩
  · intro j hj
    apply rfit (1 + j, startAt more lastStop j - ref.start)
    unfold rangeEls
    rcases Nat.lt_or_ge j more.length with hlt | hge
    · apply List.mem_append_left
      have hget : more[j]? = some more[j] := List.getElem?_eq_getElem hlt
      have hm := mem_zipIdx_of_getElem more 1 j _ hget
      refine List.mem_map.mpr ⟨_, hm, ?_⟩
      simp [startAt, hget]
    · have hj' : j = more.length := by omega
      subst hj'
      apply List.mem_append_right
      simp [startAt_len, Nat.add_comm]
  · intro j hj
    apply ofit (1 + j, (more.getD j ref).firstOrd - ref.firstOrd)
    unfold ordEls
    have hget : more[j]? = some more[j] := List.getElem?_eq_getElem hj
    have hm := mem_zipIdx_of_getElem more 1 j _ hget
    refine List.mem_map.mpr ⟨_, hm, ?_⟩
    simp [List.getD_eq_getElem?_getD, hget]

theorem numBits_lower (n : Nat) (h : 0 < n) : 2 ^ (numBits n - 1) ≤ n := by
  induction n using Nat.strongRecOn with
  | _ n ih =>
    cases n with
    | zero => omega
    | succ m =>
      rw [numBits]
      simp only [Nat.add_sub_cancel]
      by_cases hm : (m + 1) / 2 = 0
      · rw [hm]; simp [numBits]
      · have hpos : 0 < (m + 1) / 2 := Nat.pos_of_ne_zero hm
        have := ih ((m + 1) / 2) (by omega) hpos
        have hnb : 1 ≤ numBits ((m + 1) / 2) := by
          cases hq : (m + 1) / 2 with
          | zero => omega
          | succ q => rw [numBits]; omega
        have e : numBits ((m + 1) / 2) = (numBits ((m + 1) / 2) - 1) + 1 := by omega
        rw [e, Nat.pow_succ]
        omega

theorem foldl_max_attained (l : List Nat) (a : Nat) : l.foldl max a = a ∨ l.foldl max a ∈ l := by
  induction l generalizing a with
  | nil => exact Or.inl rfl
  | cons x rest ih =>
    simp only [List.foldl_cons]
    rcases ih (max a x) with h | h
    · rw [h]
      rcases Nat.le_total a x with hax | hxa
      · rw [Nat.max_eq_right hax]; exact Or.inr (by simp)
      · rw [Nat.max_eq_left hxa]; exact Or.inl rfl
    · exact Or.inr (List.mem_cons_of_mem _ h)

/-- the width is not only sufficient but the smallest one for the chosen slope: with one bit less
some deviation would not fit -/
theorem findBestSlope_width_minimal (els : List (Nat × Nat))
    (h56 : numBits (maxDeviation (findBestSlope els).1 els) ≤ 56)
    (hpos : 0 < maxDeviation (findBestSlope els).1 els) :
    ∃ e ∈ els, 2 ^ ((findBestSlope els).2 - 2) ≤ deviation (findBestSlope els).1 e.1 e.2 := by
  have hdef : (findBestSlope els).2 = computeNumBits (maxDeviation (findBestSlope els).1 els) + 1 := rfl
  have hc : computeNumBits (maxDeviation (findBestSlope els).1 els)
      = numBits (maxDeviation (findBestSlope els).1 els) := by
    unfold computeNumBits; simp [h56]
  have hlow := numBits_lower _ hpos
  have hatt := foldl_max_attained (els.map (fun e => deviation (findBestSlope els).1 e.1 e.2)) 0
  have hmd : maxDeviation (findBestSlope els).1 els
      = (els.map (fun e => deviation (findBestSlope els).1 e.1 e.2)).foldl max 0 := rfl
  rcases hatt with h0 | hmem
  · rw [hmd, h0] at hpos; omega
  · obtain ⟨e, he, hev⟩ := List.mem_map.mp hmem
    refine ⟨e, he, ?_⟩
    rw [hev, ← hmd, hdef, hc]
    have : numBits (maxDeviation (findBestSlope els).1 els) + 1 - 2
        = numBits (maxDeviation (findBestSlope els).1 els) - 1 := by omega
    rw [this]; exact hlow

theorem numBits_le_56 (n : Nat) (h : n < 2 ^ 56) : numBits n ≤ 56 := by
  apply Nat.le_of_not_lt
  intro hgt
  have hpos : 0 < n := by
    apply Nat.pos_of_ne_zero
    intro e
    rw [e] at hgt
    simp [numBits] at hgt
  have h1 := numBits_lower n hpos
  have h2 : 2 ^ 56 ≤ 2 ^ (numBits n - 1) := Nat.pow_le_pow_right (by decide) (by omega)
  omega

end TantivyModel.SSTable
