import TantivyModel.Proofs.SSTable.Values
/-! file framing: what `DeltaWriter::flush_block` + `Writer::finish` write, `BlockReader::read_block` reads -/
namespace TantivyModel.SSTable
open TantivyModel

/-- `(n as u32).to_le_bytes()` -/
def u32enc (n : Nat) : List UInt8 :=
  [UInt8.ofNat (n % 256), UInt8.ofNat (n / 256 % 256), UInt8.ofNat (n / 65536 % 256),
   UInt8.ofNat (n / 16777216 % 256)]

theorem u32le_enc (n : Nat) (rest : List UInt8) (h : n < 4294967296) : u32le (u32enc n ++ rest) = n := by
  unfold u32le u32enc
  simp only [List.cons_append, List.nil_append, List.take_succ_cons, List.take_zero, List.foldr_cons,
    List.foldr_nil]
  have e : ∀ k, k < 256 → (UInt8.ofNat k).toNat = k := fun k hk => u8_ofNat_toNat hk
  rw [e _ (Nat.mod_lt _ (by decide)), e _ (Nat.mod_lt _ (by decide)), e _ (Nat.mod_lt _ (by decide)),
    e _ (Nat.mod_lt _ (by decide))]
  omega

theorem u32enc_length (n : Nat) : (u32enc n).length = 4 := rfl

/-- mirrors: DeltaWriter::flush_block (uncompressed branch): `u32 (len + 1) | 0 | payload` -/
def frameBlock (payload : List UInt8) : List UInt8 := u32enc (payload.length + 1) ++ (0 :: payload)

/-- mirrors: the data part of a file: the framed blocks, then the end marker `0u32` -/
def frameBlocks (ps : List (List UInt8)) : List UInt8 := (ps.map frameBlock).flatten ++ u32enc 0

def isPlain : RawBlock → Option (List UInt8)
  | .plain p => some p
  | .compressed _ => none

/-- reading back what was framed: every payload, in order, all uncompressed; whatever follows the
end marker (index, footer) is not touched -/
theorem readBlocks_frame (ps : List (List UInt8)) (tail : List UInt8) (fuel : Nat)
    (hf : ps.length < fuel) (hne : ∀ p ∈ ps, p ≠ [] ∧ p.length + 1 < 4294967296) :
    (readBlocks fuel (frameBlocks ps ++ tail)).map (List.map isPlain) = some (ps.map some) := by
  induction ps generalizing fuel with
  | nil =>
    cases fuel with
    | zero => simp at hf
    | succ f =>
      simp only [frameBlocks, List.map_nil, List.flatten_nil, List.nil_append, readBlocks]
      have hlen : (u32enc 0 ++ tail).length = 4 + tail.length := by simp [u32enc_length]
      have h0 : u32le (u32enc 0 ++ tail) = 0 := u32le_enc 0 tail (by decide)
      simp [hlen, h0]
  | cons p rest ih =>
    cases fuel with
    | zero => simp at hf
    | succ f =>
      obtain ⟨hp1, hp2⟩ := hne p (by simp)
      have hfr : frameBlocks (p :: rest) ++ tail
          = u32enc (p.length + 1) ++ (0 :: (p ++ (frameBlocks rest ++ tail))) := by
        simp [frameBlocks, frameBlock, List.append_assoc]
      rw [hfr]
      simp only [readBlocks]
      have hlen : (u32enc (p.length + 1) ++ (0 :: (p ++ (frameBlocks rest ++ tail)))).length
          = 4 + (1 + (p.length + (frameBlocks rest ++ tail).length)) := by
        simp [u32enc_length]; omega
      have hle := u32le_enc (p.length + 1) (0 :: (p ++ (frameBlocks rest ++ tail))) hp2
      have hplen : 0 < p.length := List.length_pos_iff.mpr hp1
      have hdrop : (u32enc (p.length + 1) ++ (0 :: (p ++ (frameBlocks rest ++ tail)))).drop 4
          = 0 :: (p ++ (frameBlocks rest ++ tail)) := by
        rw [List.drop_left' (u32enc_length _)]
      rw [hle, hdrop]
      have h1 : ¬ (4 + (1 + (p.length + (frameBlocks rest ++ tail).length)) = 0) := by omega
      have h2 : ¬ (4 + (1 + (p.length + (frameBlocks rest ++ tail).length)) < 4) := by omega
      have h3 : ¬ (p.length + 1 ≤ 1) := by omega
      simp only [hlen, h1, h2, h3, if_false, Nat.add_sub_cancel]
      have h4 : ¬ ((p ++ (frameBlocks rest ++ tail)).length < p.length) := by simp
      simp only [h4, if_false, List.drop_left, List.take_left]
      have := ih f (by simp at hf; omega) (fun q hq => hne q (List.mem_cons_of_mem _ hq))
      cases hr : readBlocks f (frameBlocks rest ++ tail) with
      | none => rw [hr] at this; simp at this
      | some bs =>
        rw [hr] at this
        simp only [Option.map_some, Option.some.injEq] at this
        have hz : (0 : UInt8).toNat ≠ 1 := by decide
        simp [hz, isPlain, this]

end TantivyModel.SSTable
