import TantivyModel.Proofs.SSTable.Values
/-! file framing: what `DeltaWriter::flush_block` + `Writer::finish` write, `BlockReader::read_block` reads -/
namespace TantivyModel.SSTable
open TantivyModel

/-- `(n as u32).to_le_bytes()` -/
def u32enc (n : Nat) : List UInt8 :=
  [UInt8.ofNat (n % 256), UInt8.ofNat (n / 256 % 256), UInt8.ofNat (n / 65536 % 256),
   UInt8.ofNat (n / 16777216 % 256)]

theorem u32le_enc (n : Nat) (rest : List UInt8) (h : n < 4294967296) : u32le (u32enc n ++ rest) = n := by
  unfold u32le u32enc
  simp only [List.cons_append, List.nil_append, List.take_succ_cons, List.take_zero, List.foldr_cons,
    List.foldr_nil]
  have e : ∀ k, k < 256 → (UInt8.ofNat k).toNat = k := fun k hk => u8_ofNat_toNat hk
  rw [e _ (Nat.mod_lt _ (by decide)), e _ (Nat.mod_lt _ (by decide)), e _ (Nat.mod_lt _ (by decide)),
    e _ (Nat.mod_lt _ (by decide))]
  omega

theorem u32enc_length (n : Nat) : (u32enc n).length = 4 := rfl

/-- mirrors: DeltaWriter::flush_block (uncompressed branch): `u32 (len + 1) | 0 | payload` -/
def frameBlock (payload : List UInt8) : List UInt8 := u32enc (payload.length + 1) ++ (0 :: payload)

/-- mirrors: the data part of a file: the framed blocks, then the end marker `0u32` -/
def frameBlocks (ps : List (List UInt8)) : List UInt8 := (ps.map frameBlock).flatten ++ u32enc 0

def isPlain : RawBlock → Option (List UInt8)
  | .plain p => some p
  | .compressed _ => none

/-- reading back what was framed: every payload, in order, all uncompressed; whatever follows the
end marker (index, footer) is not touched -/
theorem readBlocks_frame (ps : List (List UInt8)) (tail : List UInt8) (fuel : Nat)
    (hf : ps.length < fuel) (hne : ∀ p ∈ ps, p ≠ [] ∧ p.length + 1 < 4294967296) :
    (readBlocks fuel (frameBlocks ps ++ tail)).map (List.map isPlain) = some (ps.map some) := by
  induction ps generalizing fuel with
  | nil =>
    cases fuel with
    | zero => simp at hf
    | succ f =>
      simp only [frameBlocks, List.map_nil, List.flatten_nil, List.nil_append, readBlocks]
      have hlen : (u32enc 0 ++ tail).length = 4 + tail.length := by simp [u32enc_length]
      have h0 : u32le (u32enc 0 ++ tail) = 0 := u32le_enc 0 tail (by decide)
      simp [hlen, h0]
  | cons p rest ih =>
    cases fuel with
    | zero => simp at hf
    | succ f =>
      obtain ⟨hp1, hp2⟩ := hne p (by simp)
      have hfr : frameBlocks (p :: rest) ++ tail
          = u32enc (p.length + 1) ++ (0 :: (p ++ (frameBlocks rest ++ tail))) := by
        simp [frameBlocks, frameBlock, List.append_assoc]
      rw [hfr]
      simp only [readBlocks]
      have hlen : (u32enc (p.length + 1) ++ (0 :: (p ++ (frameBlocks rest ++ tail)))).length
          = 4 + (1 + (p.length + (frameBlocks rest ++ tail).length)) := by
        simp [u32enc_length]; omega
      have hle := u32le_enc (p.length + 1) (0 :: (p ++ (frameBlocks rest ++ tail))) hp2
      have hplen : 0 < p.length := List.length_pos_iff.mpr hp1
      have hdrop : (u32enc (p.length + 1) ++ (0 :: (p ++ (frameBlocks rest ++ tail)))).drop 4
          = 0 :: (p ++ (frameBlocks rest ++ tail)) := by
        rw [List.drop_left' (u32enc_length _)]
      rw [hle, hdrop]
      have h1 : ¬ (4 + (1 + (p.length + (frameBlocks rest ++ tail).length)) = 0) := by omega
      have h2 : ¬ (4 + (1 + (p.length + (frameBlocks rest ++ tail).length)) < 4) := by omega
      have h3 : ¬ (p.length + 1 ≤ 1) := by omega
      simp only [hlen, h1, h2, h3, if_false, Nat.add_sub_cancel]
      have h4 : ¬ ((p ++ (frameBlocks rest ++ tail)).length < p.length) := by simp
      simp only [h4, if_false, List.drop_left, List.take_left]
      have := ih f (by simp at hf; omega) (fun q hq => hne q (List.mem_cons_of_mem _ hq))
      cases hr : readBlocks f (frameBlocks rest ++ tail) with
      | none => rw [hr] at this; simp at this
      | some bs =>
        rw [hr] at this
        simp only [Option.map_some, Option.some.injEq] at this
        have hz : (0 : UInt8).toNat ≠ 1 := by decide
        simp [hz, isPlain, this]

/-- `(n as u64).to_le_bytes()` -/
def u64enc (n : Nat) : List UInt8 :=
  [UInt8.ofNat (n % 256), UInt8.ofNat (n / 256 % 256), UInt8.ofNat (n / 65536 % 256),
   UInt8.ofNat (n / 16777216 % 256), UInt8.ofNat (n / 4294967296 % 256),
   UInt8.ofNat (n / 1099511627776 % 256), UInt8.ofNat (n / 281474976710656 % 256),
   UInt8.ofNat (n / 72057594037927936 % 256)]

theorem u64le_enc (n : Nat) (rest : List UInt8) (h : n < 18446744073709551616) :
    u64le (u64enc n ++ rest) = n := by
  unfold u64le u64enc
  simp only [List.cons_append, List.nil_append, List.take_succ_cons, List.take_zero, List.foldr_cons,
    List.foldr_nil]
  have e : ∀ k, k < 256 → (UInt8.ofNat k).toNat = k := fun k hk => u8_ofNat_toNat hk
  rw [e _ (Nat.mod_lt _ (by decide)), e _ (Nat.mod_lt _ (by decide)), e _ (Nat.mod_lt _ (by decide)),
    e _ (Nat.mod_lt _ (by decide)), e _ (Nat.mod_lt _ (by decide)), e _ (Nat.mod_lt _ (by decide)),
    e _ (Nat.mod_lt _ (by decide)), e _ (Nat.mod_lt _ (by decide))]
  omega

theorem u64enc_length (n : Nat) : (u64enc n).length = 8 := rfl

/-- mirrors: Writer::finish — data blocks with end marker, the index region (which ends with its
own `fst_len u64`), then `index_offset u64 | num_terms u64 | version u32` -/
def finishFile (data index : List UInt8) (numTerms version : Nat) : List UInt8 :=
  data ++ index ++ (u64enc data.length ++ u64enc numTerms ++ u32enc version)

/-- `Dictionary::open ∘ Writer::finish`: the reader recovers the data region, the index region,
the number of terms and the version -/
theorem openFile_finish (data index : List UInt8) (numTerms version : Nat)
    (h1 : data.length < 18446744073709551616) (h2 : numTerms < 18446744073709551616)
    (h3 : version < 4294967296) :
    openFile (finishFile data index numTerms version) = ⟨data, index, numTerms, version⟩ := by
  have hfl : Gen.SSTABLE_FOOTER_LEN = 20 := rfl
  unfold openFile finishFile
  have hlen : (data ++ index ++ (u64enc data.length ++ u64enc numTerms ++ u32enc version)).length
      = (data ++ index).length + 20 := by
    simp [u64enc_length, u32enc_length]; omega
  rw [hlen, hfl, Nat.add_sub_cancel]
  rw [List.drop_left' rfl, List.take_left' rfl]
  have e1 : u64le (u64enc data.length ++ u64enc numTerms ++ u32enc version) = data.length := by
    rw [List.append_assoc]; exact u64le_enc _ _ h1
  have e2 : (u64enc data.length ++ u64enc numTerms ++ u32enc version).drop 8
      = u64enc numTerms ++ u32enc version := by
    rw [List.append_assoc, List.drop_left' (u64enc_length _)]
  have e3 : (u64enc data.length ++ u64enc numTerms ++ u32enc version).drop 16 = u32enc version := by
    have : (u64enc data.length ++ u64enc numTerms).length = 16 := by simp [u64enc_length]
    rw [List.drop_left' this]
  simp only [e1, e2, e3, u64le_enc _ _ h2]
  have e4 : u32le (u32enc version) = version := by
    have := u32le_enc version [] h3
    simpa using this
  simp [e4]

end TantivyModel.SSTable
