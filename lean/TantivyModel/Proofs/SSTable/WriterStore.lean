import TantivyModel.Proofs.SSTable.StoreAll
import TantivyModel.Proofs.SSTable.BestSlope
/-! the whole block-address store as the writer lays it out, read back by `get` -/
namespace TantivyModel.SSTable
open TantivyModel

/-- every address ends where the next one starts -/
def Chained : List BlockAddr → Prop
  | [] => True
  | [_] => True
  | a :: b :: rest => a.stop = b.start ∧ Chained (b :: rest)

theorem chained_take (n : Nat) (l : List BlockAddr) (h : Chained l) : Chained (l.take n) := by
  induction l generalizing n with
  | nil => simp [Chained]
  | cons a r ih =>
    cases n with
    | zero => simp [Chained]
    | succ m =>
      cases r with
      | nil => simp [Chained]
      | cons b r' =>
        cases m with
        | zero => simp [Chained]
        | succ k =>
          have := ih (k + 1) h.2
          simp only [List.take_succ_cons] at this ⊢
          exact ⟨h.1, this⟩

theorem chained_tail (a : BlockAddr) (r : List BlockAddr) (h : Chained (a :: r)) : Chained r := by
  cases r with
  | nil => trivial
  | cons b r' => exact h.2

theorem chained_drop (n : Nat) (l : List BlockAddr) (h : Chained l) : Chained (l.drop n) := by
  induction n generalizing l with
  | zero => simpa using h
  | succ m ih =>
    cases l with
    | nil => simp [Chained]
    | cons a r => simpa using ih r (chained_tail a r h)

/-- the chunks partition the list; all but the last hold `n` elements; none is empty; chains stay chains -/
theorem chunksOf_spec (n : Nat) (hn : 0 < n) (fuel : Nat) (l : List BlockAddr) (hf : l.length ≤ fuel) :
    (chunksOf n fuel l).flatten = l ∧
    (∀ c ∈ chunksOf n fuel l, c ≠ [] ∧ c.length ≤ n) ∧
    (∀ (k : Nat) c, (chunksOf n fuel l)[k]? = some c → k + 1 < (chunksOf n fuel l).length → c.length = n) ∧
    (l ≠ [] → chunksOf n fuel l ≠ []) ∧
    (Chained l → ∀ c ∈ chunksOf n fuel l, Chained c) := by
  induction fuel generalizing l with
  | zero =>
    have : l = [] := List.eq_nil_of_length_eq_zero (by omega)
    subst this
    simp [chunksOf]
  | succ f ih =>
    cases l with
    | nil => simp [chunksOf]
    | cons a r =>
      have hdl : ((a :: r).drop n).length ≤ f := by
        simp only [List.length_drop, List.length_cons] at hf ⊢
        omega
      obtain ⟨i1, i2, i3, i4, i5⟩ := ih ((a :: r).drop n) hdl
      have hck : chunksOf n (f + 1) (a :: r) = (a :: r).take n :: chunksOf n f ((a :: r).drop n) := rfl
      rw [hck]
      refine ⟨?_, ?_, ?_, by simp, ?_⟩
      · rw [List.flatten_cons, i1, List.take_append_drop]
      · intro c hc
        rcases List.mem_cons.mp hc with rfl | hc'
        · constructor
          · cases n with
            | zero => omega
            | succ m => simp
          · simp [List.length_take]; omega
        · exact i2 c hc'
      · intro k c hk hlt
        cases k with
        | zero =>
          simp only [List.getElem?_cons_zero, Option.some.injEq] at hk
          subst hk
          -- there is a further chunk, so the rest is not empty
          have hrest : chunksOf n f ((a :: r).drop n) ≠ [] := by
            intro e; rw [e] at hlt; simp at hlt
          have hdne : (a :: r).drop n ≠ [] := by
            intro e; rw [e] at hrest
            cases f <;> simp [chunksOf] at hrest
          have : n < (a :: r).length := by
            apply Nat.lt_of_not_le
            intro hle
            exact hdne (List.drop_of_length_le hle)
          rw [List.length_take]
          exact Nat.min_eq_left (Nat.le_of_lt this)
        | succ j =>
          simp only [List.getElem?_cons_succ] at hk
          exact i3 j c hk (by simp at hlt; omega)
      · intro hch c hc
        rcases List.mem_cons.mp hc with rfl | hc'
        · exact chained_take n _ hch
        · exact i5 (chained_drop n _ hch) c hc'

/-- a chained store block denotes exactly the addresses it was flushed from -/
theorem addrs_of_chained (ref : BlockAddr) (more : List BlockAddr) (rs rb os ob : Nat)
    (h : Chained (ref :: more)) :
    (GroupSpec.addrs ⟨rs, rb, os, ob, ref, more, (more.getLast?.getD ref).stop⟩) = ref :: more := by
  unfold GroupSpec.addrs
  simp only
  induction more generalizing ref with
  | nil => simp
  | cons b r ih =>
    have hb := ih b h.2
    simp only [List.map_cons, List.cons_append, List.zipWith_cons_cons]
    have e : ((b :: r).getLast?.getD ref).stop = (r.getLast?.getD b).stop := by
      cases r with
      | nil => simp
      | cons c r' =>
        rw [List.getLast?_cons_cons]
        cases hl : (c :: r').getLast? with
        | none => simp at hl
        | some x => simp
    rw [e, hb, ← h.1]

theorem groupOfChunk_addrs (c : List BlockAddr) (hne : c ≠ []) (h : Chained c) :
    (groupOfChunk c).addrs = c := by
  cases c with
  | nil => exact absurd rfl hne
  | cons ref more => exact addrs_of_chained ref more _ _ _ _ h

/-- the store the writer lays out denotes exactly the addresses it was given -/
theorem writerStore_addrs (addrs : List BlockAddr) (h : Chained addrs) :
    allAddrs (writerStore addrs) = addrs := by
  obtain ⟨h1, h2, _, _, h5⟩ := chunksOf_spec Gen.STORE_BLOCK_LEN (by decide) addrs.length addrs (Nat.le_refl _)
  unfold allAddrs writerStore
  rw [List.map_map]
  have : (chunksOf Gen.STORE_BLOCK_LEN addrs.length addrs).map ((·.addrs) ∘ groupOfChunk)
      = chunksOf Gen.STORE_BLOCK_LEN addrs.length addrs := by
    rw [List.map_congr_left (g := id)]
    · simp
    · intro c hc
      exact groupOfChunk_addrs c (h2 c hc).1 (h5 h c hc)
  rw [this, h1]

theorem groupOfChunk_more_length (c : List BlockAddr) (hne : c ≠ []) :
    (groupOfChunk c).more.length + 1 = c.length := by
  cases c with
  | nil => exact absurd rfl hne
  | cons ref more => simp [groupOfChunk, mkGroup]

theorem groupOfChunk_eq_mkGroup (c : List BlockAddr) (hne : c ≠ []) :
    groupOfChunk c = mkGroup (groupOfChunk c).ref (groupOfChunk c).more (groupOfChunk c).lastStop := by
  cases c with
  | nil => exact absurd rfl hne
  | cons ref more => rfl

/-- what the fields of the written store must be able to hold: deviations below the 56-bit cut-off
of `compute_num_bits`, monotone data, sizes within the metadata fields -/
structure WriterStoreOk (addrs : List BlockAddr) : Prop where
  size : META_SIZE * (writerStore addrs).length < 2 ^ 64
  groups : ∀ g ∈ writerStore addrs, WriterGroupOk g.ref g.more g.lastStop
  metas : ∀ (k : Nat) g, (writerStore addrs)[k]? = some g → MetaFits g (offsetOf (writerStore addrs) k)

theorem writerStore_good (addrs : List BlockAddr) (hne : addrs ≠ []) (h : WriterStoreOk addrs) :
    GoodStore (writerStore addrs) := by
  obtain ⟨_, h2, h3, h4, _⟩ := chunksOf_spec Gen.STORE_BLOCK_LEN (by decide) addrs.length addrs (Nat.le_refl _)
  have hchunk : ∀ (k : Nat) g, (writerStore addrs)[k]? = some g →
      ∃ c, (chunksOf Gen.STORE_BLOCK_LEN addrs.length addrs)[k]? = some c ∧ g = groupOfChunk c := by
    intro k g hk
    unfold writerStore at hk
    rw [List.getElem?_map] at hk
    cases hc : (chunksOf Gen.STORE_BLOCK_LEN addrs.length addrs)[k]? with
    | none => rw [hc] at hk; simp at hk
    | some c =>
      rw [hc] at hk
      simp only [Option.map_some, Option.some.injEq] at hk
      exact ⟨c, rfl, hk.symm⟩
  have hlen : (writerStore addrs).length = (chunksOf Gen.STORE_BLOCK_LEN addrs.length addrs).length := by
    simp [writerStore]
  refine ⟨?_, h.size, ?_, ?_, ?_⟩
  · rw [hlen]
    exact List.length_pos_iff.mpr (h4 hne)
  · intro k g hk hlt
    obtain ⟨c, hc, rfl⟩ := hchunk k g hk
    rw [groupOfChunk_more_length c (h2 c (List.mem_of_getElem? hc)).1]
    exact h3 k c hc (by rw [← hlen]; exact hlt)
  · intro k g hk
    obtain ⟨c, hc, rfl⟩ := hchunk k g hk
    rw [groupOfChunk_more_length c (h2 c (List.mem_of_getElem? hc)).1]
    exact (h2 c (List.mem_of_getElem? hc)).2
  · intro k g hk
    refine ⟨?_, h.metas k g hk⟩
    obtain ⟨c, hc, hgc⟩ := hchunk k g hk
    have hok := h.groups g (List.mem_of_getElem? hk)
    have hmk : g = mkGroup g.ref g.more g.lastStop := by
      rw [hgc]; exact groupOfChunk_eq_mkGroup c (h2 c (List.mem_of_getElem? hc)).1
    have := mkGroup_fits g.ref g.more g.lastStop hok
    rw [← hmk] at this
    exact this

/-- `BlockAddrStoreWriter` then `BlockAddrStore::open` + `get`: every address comes back, by block
id, from the store the writer lays out (chunks of `STORE_BLOCK_LEN`, `find_best_slope` parameters,
bit-packed fields, metadata records with running offsets) -/
theorem writer_store_get (addrs : List BlockAddr) (hch : Chained addrs) (hok : WriterStoreOk addrs)
    (id : Nat) (hid : id < addrs.length) :
    (openStore (storeBytes (writerStore addrs))).get id = addrs[id]? := by
  have hne : addrs ≠ [] := by intro e; rw [e] at hid; simp at hid
  have hg := writerStore_good addrs hne hok
  have ha := writerStore_addrs addrs hch
  rw [store_get_full _ hg id (by rw [ha]; exact hid), ha, List.getD_eq_getElem?_getD,
    List.getElem?_eq_getElem hid]
  rfl

theorem map_firstOrd_zipWith (l1 : List BlockAddr) (l2 : List Nat) (h : l1.length = l2.length) :
    (List.zipWith (fun (a : BlockAddr) (s : Nat) => (⟨a.firstOrd, a.start, s⟩ : BlockAddr)) l1 l2).map (·.firstOrd)
      = l1.map (·.firstOrd) := by
  induction l1 generalizing l2 with
  | nil => simp
  | cons a r ih =>
    cases l2 with
    | nil => simp at h
    | cons s t =>
      simp only [List.zipWith_cons_cons, List.map_cons]
      rw [ih t (by simpa using h)]

theorem allOrds_eq_map (gs : List GroupSpec) : allOrds gs = (allAddrs gs).map (·.firstOrd) := by
  unfold allOrds allAddrs
  induction gs with
  | nil => rfl
  | cons g rest ih =>
    simp only [List.map_cons, List.flatten_cons, List.map_append, ih]
    congr 1
    unfold GroupSpec.addrs GroupSpec.ords
    rw [map_firstOrd_zipWith _ _ (by simp)]
    rfl

end TantivyModel.SSTable
