import TantivyModel.Proofs.SSTable.SearchDict
import TantivyModel.Proofs.SSTable.MergeProofs
import TantivyModel.Proofs.SSTable.Bounds
/-! the ordinals an automaton search reports are never above the true ordinals -/
namespace TantivyModel.SSTable
open TantivyModel

variable {σ V : Type}

theorem sublist_flatten {α} {l1 l2 : List (List α)} (h : l1.Sublist l2) : l1.flatten.Sublist l2.flatten := by
  induction h with
  | slnil => simp
  | cons a _ ih => simpa using List.Sublist.trans ih (List.sublist_append_right a _)
  | cons_cons a _ ih => simpa using List.Sublist.append (List.Sublist.refl a) ih

/-- the blocks kept by the separator walk and the block-id filter all lie at or after block `l` -/
theorem kept_sublist_drop (A : Automaton σ) (l : Nat) (u : Option Nat) (prev : Option Key) (i : Nat)
    (bl : List (Block V)) :
    (((keptBlocks A prev i bl).filter (inBlockRange l u)).map (·.2)).Sublist (bl.drop (l - i)) := by
  induction bl generalizing prev i with
  | nil => simp [keptBlocks]
  | cons b rest ih =>
    have hrec := ih (some b.sep) (i + 1)
    by_cases hil : l ≤ i
    · have e0 : l - i = 0 := by omega
      have e1 : l - (i + 1) = 0 := by omega
      rw [e0, List.drop_zero]
      rw [e1, List.drop_zero] at hrec
      simp only [keptBlocks]
      split
      · simp only [List.filter_cons]
        split
        · simp only [List.map_cons]; exact List.Sublist.cons_cons b hrec
        · exact List.Sublist.cons b hrec
      · exact List.Sublist.cons b hrec
    · have e : l - i = (l - (i + 1)) + 1 := by omega
      rw [e, List.drop_succ_cons]
      simp only [keptBlocks]
      split
      · simp only [List.filter_cons]
        have hout : inBlockRange l u (i, b) = false := by
          unfold inBlockRange; simp; intro h; omega
        simp only [hout, Bool.false_eq_true, if_false]
        exact hrec
      · exact hrec

/-- index of a key in a sorted association list = number of keys below it -/
theorem index_eq_ordOf (xs : Assoc V) (hs : StrictInc (keys xs)) (idx : Nat) (e : Key × V)
    (h : xs[idx]? = some e) : idx = ordOf (keys xs) e.1 := by
  have hk : (keys xs)[idx]? = some e.1 := by simp [keys, h]
  have hmem : e.1 ∈ keys xs := List.mem_of_getElem? hk
  exact index_unique (keys xs) hs e.1 idx _ hk (findIdx_ordOf _ _ hs hmem).2

theorem ordOf_sublist (l1 l2 : List Key) (h : l1.Sublist l2) (k : Key) : ordOf l1 k ≤ ordOf l2 k := by
  unfold ordOf
  exact (h.filter _).length_le

theorem ordOf_append_below (t d : List Key) (k : Key) (h : ∀ a ∈ t, lexLt a k = true) :
    ordOf (t ++ d) k = t.length + ordOf d k := by
  unfold ordOf
  rw [List.filter_append, List.length_append]
  congr 1
  rw [List.filter_eq_self.mpr h]

theorem mem_zipIdx_getElem {α} (l : List α) (k : Nat) (x : α) (i : Nat) (h : (x, i) ∈ l.zipIdx k) :
    ∃ j, l[j]? = some x ∧ i = k + j := by
  induction l generalizing k with
  | nil => simp at h
  | cons a rest ih =>
    rw [List.zipIdx_cons] at h
    rcases List.mem_cons.mp h with e | h
    · cases e; exact ⟨0, by simp, by simp⟩
    · obtain ⟨j, hj, hi⟩ := ih (k + 1) h
      exact ⟨j + 1, by simpa using hj, by omega⟩

theorem matchLo_below {lo : Bound} {k a t : Key} (hk : lo.key? = some k) (ht : lexLt t k = true)
    (ha : matchLo lo a = true) : lexLt t a = true := by
  cases lo with
  | unbounded => simp [Bound.key?] at hk
  | incl b => simp [Bound.key?] at hk; subst hk; exact lexLt_of_lt_of_le ht ha
  | excl b => simp [Bound.key?] at hk; subst hk; exact lexLt_trans ht ha

/-- every ordinal an automaton search reports is at most the true ordinal of its key -/
theorem search_ord_le (A : Automaton σ) (hA : A.CanMatchSound) (L : Nat) (m : Assoc V)
    (hs : SortedMap m) (lo hi : Bound) :
    ∀ p ∈ (build L m).search A lo hi, p.1 ≤ ordOf (keys m) p.2.1 := by
  have v := build_view L m hs
  intro p hp
  unfold Dict.search at hp
  by_cases hnil : (build L m).searchBlocks A lo hi = []
  · rw [hnil] at hp; simp [scanSearch] at hp
  have hpr : Pruned (fun e => passes A lo hi e.1)
      (((build L m).searchBlocks A lo hi).map (·.entries)) ((build L m).blockList.map (·.entries)) := by
    rcases searchBlocks_pruned A hA L m hs lo hi with h | ⟨h, _⟩
    · exact h
    · exact absurd h hnil
  have hflat : ((build L m).blockList.map (·.entries)).flatten = m := v.flat
  have hst := (pruned_stream A lo hi _ _ hpr (by rw [hflat]; exact hs) ((build L m).firstTerm lo)).1
  rw [hst] at hp
  -- the emitted entry sits at some index of what was read
  unfold streamSpec at hp
  obtain ⟨q, hq, rfl⟩ := List.mem_map.mp hp
  obtain ⟨hqz, hqpass⟩ := List.mem_filter.mp hq
  obtain ⟨e, i⟩ := q
  obtain ⟨idx, hidx, hi'⟩ := mem_zipIdx_getElem _ _ e i hqz
  simp only at hqpass ⊢
  subst hi'
  -- what was read is a sorted sublist of the blocks from the lower block on
  have hsubm : ((((build L m).searchBlocks A lo hi).map (·.entries)).flatten).Sublist m := by
    have := hpr.sublist
    rwa [hflat] at this
  have hsortedK : StrictInc (keys (((build L m).searchBlocks A lo hi).map (·.entries)).flatten) :=
    StrictInc.sublist (by simpa [keys] using hsubm.map (fun e : Key × V => e.1)) hs
  have hidxeq := index_eq_ordOf _ hsortedK idx e hidx
  have hlo : matchLo lo e.1 = true := by
    simp only [Bool.and_eq_true] at hqpass; exact hqpass.1.1
  -- the lower block
  unfold Dict.searchBlocks at hsubm hsortedK hidxeq hidx
  cases hl : (build L m).lowerBlock lo with
  | none => rw [hl] at hidx; simp at hidx
  | some l =>
    rw [hl] at hsubm hsortedK hidxeq hidx
    simp only at hsubm hsortedK hidxeq hidx
    have hkeptD : ((((build L m).candidates A).filter (inBlockRange l ((build L m).lastKeyBlock hi))).map (·.2)).Sublist
        ((build L m).blockList.drop l) := by
      unfold Dict.candidates Dict.blockList
      by_cases hsingle : (build L m).single = true
      · simp only [hsingle, if_true]
        have hl0 : l = 0 := by
          unfold Dict.lowerBlock at hl
          cases hk : lo.key? with
          | none => simp [hk] at hl; omega
          | some k => simp [hk, Dict.locateKey, hsingle] at hl; omega
        subst hl0
        simp only [List.drop_zero, List.filter_cons, List.filter_nil]
        split <;> simp
      · have hsingle' : (build L m).single = false := by simpa using hsingle
        simp only [hsingle', Bool.false_eq_true, if_false]
        have := kept_sublist_drop A l ((build L m).lastKeyBlock hi) none 0 (build L m).blocks
        simpa using this
    have hflatD : (((((build L m).candidates A).filter (inBlockRange l ((build L m).lastKeyBlock hi))).map (·.2)).map
        (·.entries)).flatten.Sublist (flatE ((build L m).blockList.drop l)) :=
      sublist_flatten (hkeptD.map _)
    have hm : m = flatE ((build L m).blockList.take l) ++ flatE ((build L m).blockList.drop l) := by
      have hv := v.flat
      rw [← List.take_append_drop l (build L m).blockList, flatE_append] at hv
      exact hv.symm
    -- first_term = number of entries before the lower block, all of them below the emitted key
    have hfirst : (build L m).firstTerm lo = (flatE ((build L m).blockList.take l)).length ∧
        ∀ t ∈ flatE ((build L m).blockList.take l), lexLt t.1 e.1 = true := by
      unfold Dict.lowerBlock at hl
      cases hk : lo.key? with
      | none =>
        simp only [hk, Option.some.injEq] at hl
        subst hl
        refine ⟨by simp [Dict.firstTerm, hk, flatE], ?_⟩
        intro t ht
        simp [flatE] at ht
      | some k =>
        simp only [hk] at hl
        have hlt := v.locLt k l hl
        have hlt' : l < (build L m).blockList.length := by rw [← v.nbLen]; exact hlt
        have hb : (build L m).blockList[l]? = some (build L m).blockList[l] := List.getElem?_eq_getElem hlt'
        constructor
        · simp only [Dict.firstTerm, hk, hl, Option.bind_some, v.at_, hb]
          exact v.firstOrd l _ hb
        · intro t ht
          exact matchLo_below hk (v.below k l hl t ht) hlo
    have h1 : ordOf (keys (((((build L m).candidates A).filter (inBlockRange l ((build L m).lastKeyBlock hi))).map (·.2)).map
          (·.entries)).flatten) e.1 ≤ ordOf (keys (flatE ((build L m).blockList.drop l))) e.1 := by
      unfold keys
      exact ordOf_sublist _ _ (hflatD.map (fun e : Key × V => e.1)) e.1
    have h2 : ordOf (keys m) e.1 = (flatE ((build L m).blockList.take l)).length
        + ordOf (keys (flatE ((build L m).blockList.drop l))) e.1 := by
      conv => lhs; rw [hm, keys_append]
      rw [ordOf_append_below]
      · simp [keys]
      · intro a ha
        obtain ⟨t, ht, rfl⟩ := List.mem_map.mp ha
        exact hfirst.2 t ht
    rw [hfirst.1, h2, hidxeq]
    exact Nat.add_le_add_left h1 _

end TantivyModel.SSTable
