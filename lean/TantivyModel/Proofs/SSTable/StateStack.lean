import TantivyModel.Proofs.SSTable.SearchDict
/-! the streamer's incremental state stack over front-coded entries = running the automaton on
the whole key -/
namespace TantivyModel.SSTable
open TantivyModel

variable {σ V : Type}

/-- the full stack for a key: `states[i]` = state after the first `i` bytes -/
def statesOf (A : Automaton σ) (s : σ) (key : Key) : List σ := s :: pushStates A s key

theorem pushStates_append (A : Automaton σ) (s : σ) (p w : Key) :
    pushStates A s (p ++ w) = pushStates A s p ++ pushStates A (A.run s p) w := by
  induction p generalizing s with
  | nil => simp [pushStates, Automaton.run]
  | cons b rest ih =>
    simp only [List.cons_append, pushStates, ih (A.step s b)]
    simp [Automaton.run]

theorem statesOf_append (A : Automaton σ) (s : σ) (p w : Key) :
    statesOf A s (p ++ w) = statesOf A s p ++ pushStates A (A.run s p) w := by
  simp [statesOf, pushStates_append]

theorem statesOf_getLast (A : Automaton σ) (s : σ) (key : Key) (d : σ) :
    (statesOf A s key).getLastD d = A.run s key := by
  induction key generalizing s d with
  | nil => simp [statesOf, pushStates, Automaton.run]
  | cons b rest ih =>
    have h := ih (A.step s b) s
    simp only [statesOf] at h
    simp only [statesOf, pushStates, List.getLastD_cons]
    rw [List.getLastD_cons] at h
    rw [h]
    simp [Automaton.run]

theorem pushStates_take (A : Automaton σ) (s : σ) (key : Key) (n : Nat) :
    (pushStates A s key).take n = pushStates A s (key.take n) := by
  induction key generalizing s n with
  | nil => simp [pushStates]
  | cons b rest ih =>
    cases n with
    | zero => simp [pushStates]
    | succ m => simp [pushStates, ih (A.step s b) m]

theorem statesOf_take (A : Automaton σ) (s : σ) (key : Key) (n : Nat) (_h : n ≤ key.length) :
    (statesOf A s key).take (n + 1) = statesOf A s (key.take n) := by
  simp [statesOf, pushStates_take]

/-- one entry: from the stack of the current key to the stack of the next key -/
theorem stack_step (A : Automaton σ) (cur : Key) (keep : Nat) (suffix : Key) (h : keep ≤ cur.length) :
    ((statesOf A A.start cur).take (keep + 1)) ++
        pushStates A (((statesOf A A.start cur).take (keep + 1)).getLastD A.start) suffix
      = statesOf A A.start (cur.take keep ++ suffix) := by
  rw [statesOf_take A A.start cur keep h, statesOf_getLast, statesOf_append]

/-- `ts` are front-coded entries that decode, starting from the current key `cur`, to `xs` -/
def Encodes : Key → List (Nat × Key × V) → Assoc V → Prop
  | _, [], [] => True
  | cur, t :: ts, e :: xs =>
    t.1 ≤ cur.length ∧ cur.take t.1 ++ t.2.1 = e.1 ∧ t.2.2 = e.2 ∧ Encodes e.1 ts xs
  | _, _, _ => False

/-- the streamer over front-coded entries with its state stack = the streamer over the decoded
entries with the automaton run from scratch on every key -/
theorem scanSearchDelta_eq (A : Automaton σ) (lo hi : Bound) (ts : List (Nat × Key × V)) (xs : Assoc V)
    (cur : Key) (passed : Bool) (ord : Nat) (h : Encodes cur ts xs) :
    scanSearchDelta A lo hi passed ord cur (statesOf A A.start cur) ts
      = scanSearch A lo hi passed ord xs := by
  induction ts generalizing xs cur passed ord with
  | nil =>
    cases xs with
    | nil => rfl
    | cons e r => simp [Encodes] at h
  | cons t ts ih =>
    cases xs with
    | nil => simp [Encodes] at h
    | cons e r =>
      obtain ⟨hk, hkey, hv, hrest⟩ := h
      obtain ⟨keep, suffix, v⟩ := t
      simp only at hk hkey hv
      simp only [scanSearchDelta, scanSearch]
      rw [stack_step A cur keep suffix hk, hkey, statesOf_getLast, hv]
      have hacc : A.accept (A.run A.start e.1) = A.accepts e.1 := rfl
      rw [hacc]
      rw [ih r e.1 false (ord + 1) hrest, ih r e.1 true (ord + 1) hrest]

theorem encodes_block (b : Assoc V) (prev cur : Key) (h : prev = [] ∨ cur = prev)
    (ts' : List (Nat × Key × V)) (xs' : Assoc V) (hrest : ∀ cur', Encodes cur' ts' xs') :
    Encodes cur (deltaTriples prev b ++ ts') (b ++ xs') := by
  induction b generalizing prev cur with
  | nil => exact hrest cur
  | cons e r ih =>
    simp only [deltaTriples, List.cons_append, Encodes]
    refine ⟨?_, ?_, trivial, ih e.1 e.1 (Or.inr rfl)⟩
    · rcases h with h | h
      · subst h; simp [cpl]
      · subst h; exact cpl_le_left cur e.1
    · rcases h with h | h
      · subst h; simp [cpl]
      · subst h; exact take_cpl_append_drop cur e.1

theorem encodes_file (bs : List (Assoc V)) : ∀ cur, Encodes cur (fileTriples bs) bs.flatten := by
  induction bs with
  | nil => intro cur; simp [fileTriples, Encodes]
  | cons b rest ih =>
    intro cur
    have : fileTriples (b :: rest) = deltaTriples [] b ++ fileTriples rest := by simp [fileTriples]
    rw [this, List.flatten_cons]
    exact encodes_block b [] cur (Or.inl rfl) _ _ ih

/-- the automaton search through front-coded entries and the state stack = the block-model search -/
theorem searchDelta_eq (d : Dict V) (A : Automaton σ) (lo hi : Bound) :
    d.searchDelta A lo hi = d.search A lo hi := by
  unfold Dict.searchDelta Dict.search
  have h0 : [A.start] = statesOf A A.start [] := by simp [statesOf, pushStates]
  rw [h0]
  exact scanSearchDelta_eq A lo hi _ _ [] false _ (encodes_file _ [])

end TantivyModel.SSTable
