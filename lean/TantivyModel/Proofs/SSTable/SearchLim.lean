import TantivyModel.Proofs.SSTable.SearchOrd
/-! streams with bounds, limit and automaton together -/
namespace TantivyModel.SSTable
open TantivyModel

variable {σ V : Type}

theorem searchLim_wam (d : Dict V) (A : Automaton σ) (hacc : ∀ k, A.accepts k = true) (lo hi : Bound)
    (limit : Option Nat) : d.searchLim A true lo hi limit = d.stream lo hi limit := by
  unfold Dict.searchLim Dict.stream
  simp only [if_true]
  cases d.sliceFor lo hi limit with
  | panic => rfl
  | blocks f bs => simp only; rw [scanStream_eq_scanSearch A hacc]

theorem search_all_eq_range (A : Automaton σ) (hacc : ∀ k, A.accepts k = true) (m : Assoc V) (lo hi : Bound) :
    search A m lo hi = range m lo hi := by
  unfold search
  rw [List.filter_eq_self]
  intro e _; exact hacc e.1

end TantivyModel.SSTable
