import TantivyModel.Proofs.SSTable.FileWritten
import TantivyModel.Proofs.SSTable.Separators
/-! `get_block_with_key` on the bytes of a written file, tantivy-fst as a stated contract -/
namespace TantivyModel.SSTable
open TantivyModel

/-- `SSTableIndex::get_block_with_key` on the bytes of a file whose index region is
`fst | written store | fst_len`: for every FST that meets the stated contract on the dictionary's
separators, the address returned is the recorded address of the block the separator routing of
the model selects (`none` past the last separator) -/
theorem file_block_for_key {V} (L : Nat) (m : Assoc V) (f : FstIndex) (hf : FstContract f)
    (hkeys : f.keys = (build L m).blocks.map (·.sep)) (hmulti : (build L m).single = false)
    (addrs : List BlockAddr) (hch : Chained addrs) (hok : WriterStoreOk addrs)
    (hcount : addrs.length = (build L m).blocks.length)
    (data fst : List UInt8) (numTerms version : Nat)
    (hfst0 : fst.length ≠ 0) (hfst : fst.length < 18446744073709551616)
    (hdata : data.length < 18446744073709551616)
    (hn : numTerms < 18446744073709551616) (hv : version < 4294967296) (k : Key) :
    fileBlockForKey f.geFirst
        (openFile (finishFile data (fst ++ storeBytes (writerStore addrs) ++ u64enc fst.length) numTerms version)) k
      = ((build L m).locateKey k).bind (fun id => addrs[id]?) := by
  rw [openFile_finish _ _ _ _ hdata hn hv]
  have hil : (fst ++ storeBytes (writerStore addrs) ++ u64enc fst.length).length - 8
      = (fst ++ storeBytes (writerStore addrs)).length := by
    simp [u64enc_length]; omega
  unfold fileBlockForKey
  simp only [hil]
  rw [List.take_left' rfl, List.drop_left' rfl]
  have h8 : u64le (u64enc fst.length) = fst.length := by
    have := u64le_enc fst.length [] hfst
    simpa using this
  rw [h8, if_neg hfst0, List.drop_left' rfl, fst_locate L m f hf hkeys hmulti k]
  cases hl : (build L m).locateKey k with
  | none => rfl
  | some id =>
    have hlt : id < addrs.length := by
      rw [hcount]
      unfold Dict.locateKey at hl
      simp only [hmulti, Bool.false_eq_true, if_false] at hl
      exact findIdx?_lt _ _ _ hl
    simp only [Option.bind_some]
    exact writer_store_get addrs hch hok id hlt

/-- the key lists of the blocks of a dictionary -/
def keyBlocks {V} (d : Dict V) : List (List Key) := d.blocks.map (fun b => keys b.entries)

theorem keyBlocks_flatten {V} (L : Nat) (m : Assoc V) : (keyBlocks (build L m)).flatten = keys m := by
  have hent := mkBlocks_entries (blocksOf (fun e : Key × V => e.1) L m) 0
  have hfl : (blocksOf (fun e : Key × V => e.1) L m).flatten = m := blocksOf_flatten _ L m
  have : keyBlocks (build L m) = ((build L m).blocks.map (·.entries)).map keys := by
    simp [keyBlocks, List.map_map, Function.comp]
  rw [this, build_blocks_eq, hent]
  unfold keys
  rw [← List.map_flatten, hfl]

theorem build_firstOrd_ordStart {V} (L : Nat) (m : Assoc V) (i : Nat) (b : Block V)
    (h : (build L m).blocks[i]? = some b) : b.firstOrd = ordStart (keyBlocks (build L m)) i := by
  have h' := h
  rw [build_blocks_eq] at h'
  rw [mkBlocks_firstOrd_take 0 _ i b h', ← build_blocks_eq]
  simp only [flatE, ordStart, keyBlocks, List.length_flatten, List.map_take, keys, List.map_map,
    Nat.zero_add]
  congr 2
  apply List.map_congr_left
  intro x _
  simp [Function.comp]

/-- `Dictionary::term_ord_or_next` on the bytes of a whole written file (several blocks), for
every FST meeting the stated contract: equals the operation of the block model -/
theorem file_term_ord_or_next {V} (L : Nat) (m : Assoc V) (hs : SortedMap m) (f : FstIndex)
    (hf : FstContract f) (hkeys : f.keys = (build L m).blocks.map (·.sep))
    (hmulti : (build L m).single = false)
    (skip : List UInt8 → List UInt8) (ps : List (List UInt8))
    (hlen : ps.length = (build L m).blocks.length)
    (hskip : ∀ (i : Nat) p b, ps[i]? = some p → (build L m).blocks[i]? = some b →
      skip p = encodeBlockKeys (keys b.entries))
    (hpsz : ∀ p ∈ ps, p ≠ [] ∧ p.length + 1 < 4294967296)
    (hok : WriterStoreOk (frameAddrs (keyBlocks (build L m)) ps))
    (fst : List UInt8) (numTerms version : Nat)
    (hfst0 : fst.length ≠ 0) (hfst : fst.length < 18446744073709551616)
    (hdata : (frameBlocks ps).length < 18446744073709551616)
    (hn : numTerms < 18446744073709551616) (hv : version < 4294967296) (k : Key) :
    fileTermOrdOrNext f.geFirst skip
        (openFile (finishFile (frameBlocks ps)
          (fst ++ storeBytes (writerStore (frameAddrs (keyBlocks (build L m)) ps)) ++ u64enc fst.length)
          numTerms version)) k
      = some ((build L m).termOrdOrNext k) := by
  have hcount : (frameAddrs (keyBlocks (build L m)) ps).length = (build L m).blocks.length := by
    rw [frameAddrs_length]; simp [keyBlocks]
  have hblk := file_block_for_key L m f hf hkeys hmulti (frameAddrs (keyBlocks (build L m)) ps)
    (frameAddrs_chained _ _) hok hcount (frameBlocks ps) fst numTerms version hfst0 hfst hdata hn hv k
  have hopen := openFile_finish (frameBlocks ps)
    (fst ++ storeBytes (writerStore (frameAddrs (keyBlocks (build L m)) ps)) ++ u64enc fst.length)
    numTerms version hdata hn hv
  rw [hopen] at hblk ⊢
  unfold fileTermOrdOrNext
  rw [hblk]
  unfold Dict.termOrdOrNext
  cases hl : (build L m).locateKey k with
  | none => simp
  | some id =>
    have hid : id < (build L m).blocks.length := by
      unfold Dict.locateKey at hl
      simp only [hmulti, Bool.false_eq_true, if_false] at hl
      exact findIdx?_lt _ _ _ hl
    have hbget : (build L m).blocks[id]? = some (build L m).blocks[id] := List.getElem?_eq_getElem hid
    have hat : (build L m).blockAt id = some (build L m).blocks[id] := by
      unfold Dict.blockAt
      simp [hmulti, hbget]
    have hkl : (keyBlocks (build L m)).length = (build L m).blocks.length := by simp [keyBlocks]
    have haddr : (frameAddrs (keyBlocks (build L m)) ps)[id]?
        = some ⟨ordStart (keyBlocks (build L m)) id, frameStart ps id, frameStart ps (id + 1)⟩ := by
      unfold frameAddrs
      rw [List.getElem?_map, List.getElem?_range (by rw [hkl]; exact hid)]
      rfl
    have hpget : ps[id]? = some ps[id] := List.getElem?_eq_getElem (by rw [hlen]; exact hid)
    obtain ⟨hp1, hp2⟩ := hpsz _ (List.mem_of_getElem? hpget)
    have hinc : StrictInc (keys (build L m).blocks[id].entries) := by
      have hall : ∀ b ∈ keyBlocks (build L m), StrictInc b :=
        strictInc_of_mem_flatten (by rw [keyBlocks_flatten]; exact hs)
      apply hall
      unfold keyBlocks
      exact List.mem_map.mpr ⟨_, List.getElem_mem hid, rfl⟩
    simp only [Option.bind_some, haddr, hat, frame_slice ps id _ hpget, readBlocks_one _ hp1 hp2]
    rw [hskip id _ _ hpget hbget, decodeBlockKeys_encode _ hinc, build_firstOrd_ordStart L m id _ hbget]

/-- `Dictionary::get` on the bytes of a whole written file (several blocks), for every FST meeting
the stated contract and every value codec (`vals` decodes the value block of a payload): equals
the operation of the block model -/
theorem file_get {V} (L : Nat) (m : Assoc V) (hs : SortedMap m) (f : FstIndex)
    (hf : FstContract f) (hkeys : f.keys = (build L m).blocks.map (·.sep))
    (hmulti : (build L m).single = false)
    (skip : List UInt8 → List UInt8) (vals : List UInt8 → List V) (ps : List (List UInt8))
    (hlen : ps.length = (build L m).blocks.length)
    (hskip : ∀ (i : Nat) p b, ps[i]? = some p → (build L m).blocks[i]? = some b →
      skip p = encodeBlockKeys (keys b.entries) ∧ vals p = b.entries.map (·.2))
    (hpsz : ∀ p ∈ ps, p ≠ [] ∧ p.length + 1 < 4294967296)
    (hok : WriterStoreOk (frameAddrs (keyBlocks (build L m)) ps))
    (fst : List UInt8) (numTerms version : Nat)
    (hfst0 : fst.length ≠ 0) (hfst : fst.length < 18446744073709551616)
    (hdata : (frameBlocks ps).length < 18446744073709551616)
    (hn : numTerms < 18446744073709551616) (hv : version < 4294967296) (k : Key) :
    fileGet f.geFirst skip vals
        (openFile (finishFile (frameBlocks ps)
          (fst ++ storeBytes (writerStore (frameAddrs (keyBlocks (build L m)) ps)) ++ u64enc fst.length)
          numTerms version)) k
      = some ((build L m).get k) := by
  have hcount : (frameAddrs (keyBlocks (build L m)) ps).length = (build L m).blocks.length := by
    rw [frameAddrs_length]; simp [keyBlocks]
  have hblk := file_block_for_key L m f hf hkeys hmulti (frameAddrs (keyBlocks (build L m)) ps)
    (frameAddrs_chained _ _) hok hcount (frameBlocks ps) fst numTerms version hfst0 hfst hdata hn hv k
  have hopen := openFile_finish (frameBlocks ps)
    (fst ++ storeBytes (writerStore (frameAddrs (keyBlocks (build L m)) ps)) ++ u64enc fst.length)
    numTerms version hdata hn hv
  rw [hopen] at hblk ⊢
  unfold fileGet
  rw [hblk]
  unfold Dict.get
  cases hl : (build L m).locateKey k with
  | none => simp
  | some id =>
    have hid : id < (build L m).blocks.length := by
      unfold Dict.locateKey at hl
      simp only [hmulti, Bool.false_eq_true, if_false] at hl
      exact findIdx?_lt _ _ _ hl
    have hbget : (build L m).blocks[id]? = some (build L m).blocks[id] := List.getElem?_eq_getElem hid
    have hat : (build L m).blockAt id = some (build L m).blocks[id] := by
      unfold Dict.blockAt
      simp [hmulti, hbget]
    have hkl : (keyBlocks (build L m)).length = (build L m).blocks.length := by simp [keyBlocks]
    have haddr : (frameAddrs (keyBlocks (build L m)) ps)[id]?
        = some ⟨ordStart (keyBlocks (build L m)) id, frameStart ps id, frameStart ps (id + 1)⟩ := by
      unfold frameAddrs
      rw [List.getElem?_map, List.getElem?_range (by rw [hkl]; exact hid)]
      rfl
    have hpget : ps[id]? = some ps[id] := List.getElem?_eq_getElem (by rw [hlen]; exact hid)
    obtain ⟨hp1, hp2⟩ := hpsz _ (List.mem_of_getElem? hpget)
    have hinc : StrictInc (keys (build L m).blocks[id].entries) := by
      have hall : ∀ b ∈ keyBlocks (build L m), StrictInc b :=
        strictInc_of_mem_flatten (by rw [keyBlocks_flatten]; exact hs)
      apply hall
      unfold keyBlocks
      exact List.mem_map.mpr ⟨_, List.getElem_mem hid, rfl⟩
    simp only [Option.bind_some, haddr, hat, frame_slice ps id _ hpget, readBlocks_one _ hp1 hp2]
    rw [(hskip id _ _ hpget hbget).1, (hskip id _ _ hpget hbget).2, decodeBlockKeys_encode _ hinc]
    congr 1
    cases scanOrNext (keys (build L m).blocks[id].entries) k 0 with
    | exact i => simp [List.getElem?_map]
    | next _ => rfl

/-- files with at most one block carry no index (`fst_len = 0`): `get_block_with_key` is the one
pseudo-block whatever the FST would say, and `term_ord_or_next` / `get` on the bytes equal the
operations of the (single-block or empty) block model -/
theorem small_file_key_ops {V} (L : Nat) (m : Assoc V) (hs : SortedMap m)
    (hsingle : (build L m).single = true)
    (geFirst : Key → Option Nat) (skip : List UInt8 → List UInt8) (vals : List UInt8 → List V)
    (ps : List (List UInt8))
    (hlen : ps.length = (build L m).blocks.length)
    (hskip : ∀ (i : Nat) p b, ps[i]? = some p → (build L m).blocks[i]? = some b →
      skip p = encodeBlockKeys (keys b.entries) ∧ vals p = b.entries.map (·.2))
    (hpsz : ∀ p ∈ ps, p ≠ [] ∧ p.length + 1 < 4294967296)
    (numTerms version : Nat)
    (hn : numTerms < 18446744073709551616) (hv : version < 4294967296) (k : Key) :
    fileTermOrdOrNext geFirst skip (openFile (finishFile (frameBlocks ps) (u64enc 0) numTerms version)) k
      = some ((build L m).termOrdOrNext k) ∧
    fileGet geFirst skip vals (openFile (finishFile (frameBlocks ps) (u64enc 0) numTerms version)) k
      = some ((build L m).get k) := by
  have hblkfn : ∀ data : List UInt8, fileBlockForKey geFirst ⟨data, u64enc 0, numTerms, version⟩ k
      = some ⟨0, 0, data.length⟩ := by
    intro data
    unfold fileBlockForKey
    have : u64le (List.drop ((u64enc 0).length - 8) (u64enc 0)) = 0 := by decide
    simp only [this, if_true]
  have hloc : ((build L m).locateKey k).bind (build L m).blockAt
      = some ((build L m).blocks.headD ⟨[], 0, []⟩) := by
    unfold Dict.locateKey Dict.blockAt
    simp [hsingle]
  have hsl : (build L m).blocks.length ≤ 1 := by
    unfold Dict.single at hsingle
    simpa using hsingle
  cases hb : (build L m).blocks with
  | nil =>
    have hps : ps = [] := List.eq_nil_of_length_eq_zero (by rw [hlen, hb]; rfl)
    subst hps
    rw [openFile_finish _ _ _ _ (by decide) hn hv]
    unfold fileTermOrdOrNext fileGet Dict.termOrdOrNext Dict.get
    rw [hblkfn, hloc, hb]
    constructor <;> rfl
  | cons b rest =>
    have hrest : rest = [] := by
      rw [hb] at hsl
      simp only [List.length_cons] at hsl
      exact List.eq_nil_of_length_eq_zero (by omega)
    subst hrest
    have hpl : ps.length = 1 := by rw [hlen, hb]; rfl
    obtain ⟨p, hp⟩ : ∃ p, ps = [p] := by
      cases ps with
      | nil => simp at hpl
      | cons p r =>
        cases r with
        | nil => exact ⟨p, rfl⟩
        | cons q r' => simp at hpl
    subst hp
    obtain ⟨hp1, hp2⟩ := hpsz p (by simp)
    obtain ⟨hsk, hvl⟩ := hskip 0 p b (by simp) (by rw [hb]; simp)
    have hfo : b.firstOrd = 0 := by
      have := build_firstOrd_ordStart L m 0 b (by rw [hb]; simp)
      rw [this]; simp [ordStart]
    have hinc : StrictInc (keys b.entries) := by
      have hall : ∀ x ∈ keyBlocks (build L m), StrictInc x :=
        strictInc_of_mem_flatten (by rw [keyBlocks_flatten]; exact hs)
      apply hall
      unfold keyBlocks
      rw [hb]; simp
    have hdl : (frameBlocks [p]).length < 18446744073709551616 := by
      simp [frameBlocks, frameBlock, u32enc_length]; omega
    rw [openFile_finish _ _ _ _ hdl hn hv]
    unfold fileTermOrdOrNext fileGet Dict.termOrdOrNext Dict.get
    rw [hblkfn, hloc, hb]
    have hfb : frameBlocks [p] = frameBlock p ++ u32enc 0 := by simp [frameBlocks]
    simp only [List.take_length, List.drop_zero, List.headD_cons]
    rw [hfb, readBlocks_one_tail p _ hp1 hp2]
    simp only [hsk, hvl, decodeBlockKeys_encode _ hinc, hfo]
    refine ⟨?_, ?_⟩
    · cases scanOrNext (keys b.entries) k 0 <;> first | rfl | trivial
    · congr 1
      cases scanOrNext (keys b.entries) k 0 with
      | exact i => simp [List.getElem?_map]
      | next _ => rfl

end TantivyModel.SSTable
