import TantivyModel.Proofs.SSTable.FileWritten
import TantivyModel.Proofs.SSTable.Separators
/-! `get_block_with_key` on the bytes of a written file, tantivy-fst as a stated contract -/
namespace TantivyModel.SSTable
open TantivyModel

/-- `SSTableIndex::get_block_with_key` on the bytes of a file whose index region is
`fst | written store | fst_len`: for every FST that meets the stated contract on the dictionary's
separators, the address returned is the recorded address of the block the separator routing of
the model selects (`none` past the last separator) -/
theorem file_block_for_key {V} (L : Nat) (m : Assoc V) (f : FstIndex) (hf : FstContract f)
    (hkeys : f.keys = (build L m).blocks.map (·.sep)) (hmulti : (build L m).single = false)
    (addrs : List BlockAddr) (hch : Chained addrs) (hok : WriterStoreOk addrs)
    (hcount : addrs.length = (build L m).blocks.length)
    (data fst : List UInt8) (numTerms version : Nat)
    (hfst0 : fst.length ≠ 0) (hfst : fst.length < 18446744073709551616)
    (hdata : data.length < 18446744073709551616)
    (hn : numTerms < 18446744073709551616) (hv : version < 4294967296) (k : Key) :
    fileBlockForKey f.geFirst
        (openFile (finishFile data (fst ++ storeBytes (writerStore addrs) ++ u64enc fst.length) numTerms version)) k
      = ((build L m).locateKey k).bind (fun id => addrs[id]?) := by
  rw [openFile_finish _ _ _ _ hdata hn hv]
  have hil : (fst ++ storeBytes (writerStore addrs) ++ u64enc fst.length).length - 8
      = (fst ++ storeBytes (writerStore addrs)).length := by
    simp [u64enc_length]; omega
  unfold fileBlockForKey
  simp only [hil]
  rw [List.take_left' rfl, List.drop_left' rfl]
  have h8 : u64le (u64enc fst.length) = fst.length := by
    have := u64le_enc fst.length [] hfst
    simpa using this
  rw [h8, if_neg hfst0, List.drop_left' rfl, fst_locate L m f hf hkeys hmulti k]
  cases hl : (build L m).locateKey k with
  | none => rfl
  | some id =>
    have hlt : id < addrs.length := by
      rw [hcount]
      unfold Dict.locateKey at hl
      simp only [hmulti, Bool.false_eq_true, if_false] at hl
      exact findIdx?_lt _ _ _ hl
    simp only [Option.bind_some]
    exact writer_store_get addrs hch hok id hlt

end TantivyModel.SSTable
