import TantivyModel.Proofs.SSTable.BitPacker
/-! a store block of the block-address store: what the writer packs, the reader's `get` returns -/
namespace TantivyModel.SSTable
open TantivyModel

theorem bitPack_length (fs : List (Nat × Nat)) (hfit : ∀ f ∈ fs, f.1 < 2 ^ f.2 ∧ f.2 ≤ 64) :
    (bitPack fs).length = ((fs.map (·.2)).sum + 7) / 8 := by
  have h0 : PackInv ({} : BitPackerSt) 0 0 := ⟨by decide, by decide, rfl, rfl⟩
  have hi := fold_inv fs {} 0 0 h0 hfit
  unfold bitPack BitPackerSt.flush
  obtain ⟨hlt, _, hbits, _⟩ := hi
  simp only [Nat.zero_add] at hbits
  split
  · simp only [List.length_append, List.length_take, le8_length]
    omega
  · omega

/-- start offsets seen by the reader: block `j + 1` of the store block, or the final end -/
def startAt (more : List BlockAddr) (lastStop : Nat) (j : Nat) : Nat :=
  match more[j]? with | some a => a.start | none => lastStop

theorem aux_fields (rs rb os ob : Nat) (ref : BlockAddr) (i : Nat) (more : List BlockAddr)
    (tail : List (Nat × Nat)) (j : Nat) :
    (j < more.length →
      (groupFieldsAux rs rb os ob ref i more ++ tail)[2 * j]?
        = some (packVal rs rb (i + j) ((more.getD j ref).start - ref.start), rb) ∧
      (groupFieldsAux rs rb os ob ref i more ++ tail)[2 * j + 1]?
        = some (packVal os ob (i + j) ((more.getD j ref).firstOrd - ref.firstOrd), ob)) ∧
    (j = more.length → (groupFieldsAux rs rb os ob ref i more ++ tail)[2 * j]? = tail[0]?) ∧
    (j ≤ more.length → bitPos (groupFieldsAux rs rb os ob ref i more ++ tail) (2 * j) = j * (rb + ob)) ∧
    (j < more.length → bitPos (groupFieldsAux rs rb os ob ref i more ++ tail) (2 * j + 1) = j * (rb + ob) + rb) := by
  induction more generalizing i j with
  | nil =>
    refine ⟨fun h => by simp at h, fun h => by subst h; simp [groupFieldsAux], fun h => ?_, fun h => by simp at h⟩
    have : j = 0 := by simpa using h
    subst this; simp [bitPos]
  | cons a rest ih =>
    cases j with
    | zero =>
      refine ⟨fun _ => ?_, fun h => by simp at h, fun _ => by simp [bitPos], fun _ => ?_⟩
      · simp [groupFieldsAux]
      · simp [groupFieldsAux, bitPos]
    | succ k =>
      obtain ⟨h1, h2, h3, h4⟩ := ih (i + 1) k
      have e2 : 2 * (k + 1) = 2 * k + 2 := by omega
      have e3 : 2 * (k + 1) + 1 = 2 * k + 1 + 2 := by omega
      refine ⟨fun h => ?_, fun h => ?_, fun h => ?_, fun h => ?_⟩
      · have hk : k < rest.length := by simpa using h
        obtain ⟨g1, g2⟩ := h1 hk
        have ei : i + (k + 1) = i + 1 + k := by omega
        constructor
        · rw [e2]; simp only [groupFieldsAux, List.cons_append, List.getElem?_cons_succ, List.getD_cons_succ]
          rw [ei]; exact g1
        · rw [e3]; simp only [groupFieldsAux, List.cons_append, List.getElem?_cons_succ, List.getD_cons_succ]
          rw [ei]; exact g2
      · have hk : k = rest.length := by simpa using h
        rw [e2]; simp only [groupFieldsAux, List.cons_append, List.getElem?_cons_succ]
        exact h2 hk
      · have hk : k ≤ rest.length := by simpa using h
        have := h3 hk
        rw [e2]
        simp only [groupFieldsAux, List.cons_append, bitPos, List.take_succ_cons, List.map_cons,
          List.sum_cons] at this ⊢
        rw [this, Nat.succ_mul]; omega
      · have hk : k < rest.length := by simpa using h
        have := h4 hk
        rw [e3]
        simp only [groupFieldsAux, List.cons_append, bitPos, List.take_succ_cons, List.map_cons,
          List.sum_cons] at this ⊢
        rw [this, Nat.succ_mul]; omega

/-- every deviation of the store block fits its width -/
structure GroupFits (rs rb os ob : Nat) (ref : BlockAddr) (more : List BlockAddr) (lastStop : Nat) : Prop where
  rb1 : 1 ≤ rb
  rb57 : rb ≤ 57
  ob1 : 1 ≤ ob
  ob57 : ob ≤ 57
  startsGe : ∀ j, j ≤ more.length → ref.start ≤ startAt more lastStop j
  ordsGe : ∀ a ∈ more, ref.firstOrd ≤ a.firstOrd
  startFit : ∀ j, j ≤ more.length → deviation rs (1 + j) (startAt more lastStop j - ref.start) < 2 ^ (rb - 1)
  ordFit : ∀ j, j < more.length → deviation os (1 + j) ((more.getD j ref).firstOrd - ref.firstOrd) < 2 ^ (ob - 1)

theorem startAt_lt (more : List BlockAddr) (lastStop j : Nat) (h : j < more.length) :
    startAt more lastStop j = (more.getD j ref).start := by
  unfold startAt
  simp [List.getD_eq_getElem?_getD, List.getElem?_eq_getElem h]

theorem startAt_len (more : List BlockAddr) (lastStop : Nat) : startAt more lastStop more.length = lastStop := by
  unfold startAt; simp

/-- the field holding the start of block `j + 1` (or the final end for `j = more.length`) -/
theorem start_field (rs rb os ob : Nat) (ref : BlockAddr) (more : List BlockAddr) (lastStop j : Nat)
    (hj : j ≤ more.length) :
    (groupFields rs rb os ob ref more lastStop)[2 * j]?
      = some (packVal rs rb (1 + j) (startAt more lastStop j - ref.start), rb) ∧
    bitPos (groupFields rs rb os ob ref more lastStop) (2 * j) = j * (rb + ob) := by
  unfold groupFields
  obtain ⟨h1, h2, h3, _⟩ := aux_fields rs rb os ob ref 1 more
    [(packVal rs rb (more.length + 1) (lastStop - ref.start), rb)] j
  refine ⟨?_, h3 hj⟩
  rcases Nat.lt_or_ge j more.length with hlt | hge
  · rw [(h1 hlt).1, startAt_lt (ref := ref) more lastStop j hlt]
  · have : j = more.length := by omega
    rw [h2 this]; subst this
    rw [startAt_len]; simp [Nat.add_comm]

theorem ord_field (rs rb os ob : Nat) (ref : BlockAddr) (more : List BlockAddr) (lastStop j : Nat)
    (hj : j < more.length) :
    (groupFields rs rb os ob ref more lastStop)[2 * j + 1]?
      = some (packVal os ob (1 + j) ((more.getD j ref).firstOrd - ref.firstOrd), ob) ∧
    bitPos (groupFields rs rb os ob ref more lastStop) (2 * j + 1) = j * (rb + ob) + rb := by
  unfold groupFields
  obtain ⟨h1, _, _, h4⟩ := aux_fields rs rb os ob ref 1 more
    [(packVal rs rb (more.length + 1) (lastStop - ref.start), rb)] j
  exact ⟨(h1 hj).2, h4 hj⟩

theorem aux_fit (rs rb os ob : Nat) (ref : BlockAddr) (i : Nat) (more : List BlockAddr)
    (hrb : 1 ≤ rb ∧ rb ≤ 57) (hob : 1 ≤ ob ∧ ob ≤ 57)
    (hs : ∀ j, j < more.length → deviation rs (i + j) ((more.getD j ref).start - ref.start) < 2 ^ (rb - 1))
    (ho : ∀ j, j < more.length → deviation os (i + j) ((more.getD j ref).firstOrd - ref.firstOrd) < 2 ^ (ob - 1)) :
    ∀ f ∈ groupFieldsAux rs rb os ob ref i more, f.1 < 2 ^ f.2 ∧ f.2 ≤ 64 := by
  induction more generalizing i with
  | nil => simp [groupFieldsAux]
  | cons a rest ih =>
    intro f hf
    simp only [groupFieldsAux, List.mem_cons] at hf
    rcases hf with e | e | hf
    · subst e
      have := hs 0 (by simp)
      simp only [Nat.add_zero, List.getD_cons_zero] at this
      exact ⟨(pack_unpack rs rb i _ hrb.1 this).1, by simp only; omega⟩
    · subst e
      have := ho 0 (by simp)
      simp only [Nat.add_zero, List.getD_cons_zero] at this
      exact ⟨(pack_unpack os ob i _ hob.1 this).1, by simp only; omega⟩
    · apply ih (i + 1) ?_ ?_ f hf
      · intro j hj
        have := hs (j + 1) (by simpa using hj)
        simp only [List.getD_cons_succ] at this
        have e : i + (j + 1) = i + 1 + j := by omega
        rw [e] at this; exact this
      · intro j hj
        have := ho (j + 1) (by simpa using hj)
        simp only [List.getD_cons_succ] at this
        have e : i + (j + 1) = i + 1 + j := by omega
        rw [e] at this; exact this

theorem group_fit (rs rb os ob : Nat) (ref : BlockAddr) (more : List BlockAddr) (lastStop : Nat)
    (g : GroupFits rs rb os ob ref more lastStop) :
    ∀ f ∈ groupFields rs rb os ob ref more lastStop, f.1 < 2 ^ f.2 ∧ f.2 ≤ 64 := by
  intro f hf
  unfold groupFields at hf
  rcases List.mem_append.mp hf with hf | hf
  · apply aux_fit rs rb os ob ref 1 more ⟨g.rb1, g.rb57⟩ ⟨g.ob1, g.ob57⟩ ?_ g.ordFit f hf
    intro j hj
    have := g.startFit j (by omega)
    rw [startAt_lt (ref := ref) more lastStop j hj] at this
    exact this
  · simp only [List.mem_singleton] at hf
    subst hf
    have := g.startFit more.length (Nat.le_refl _)
    rw [startAt_len, Nat.add_comm] at this
    have h57 := g.rb57
    exact ⟨(pack_unpack rs rb _ _ g.rb1 this).1, by simp only; omega⟩

theorem group_widths (rs rb os ob : Nat) (ref : BlockAddr) (more : List BlockAddr) (lastStop : Nat) :
    ((groupFields rs rb os ob ref more lastStop).map (·.2)).sum = more.length * (rb + ob) + rb := by
  have h := (start_field rs rb os ob ref more lastStop more.length (Nat.le_refl _)).2
  have hl : (groupFields rs rb os ob ref more lastStop).length = 2 * more.length + 1 := by
    unfold groupFields
    have : ∀ i (l : List BlockAddr), (groupFieldsAux rs rb os ob ref i l).length = 2 * l.length := by
      intro i l
      induction l generalizing i with
      | nil => rfl
      | cons a r ih => simp [groupFieldsAux, ih]; omega
    simp [this]
  -- all widths = widths of the first 2·len fields + the last field's width
  have hsplit : groupFields rs rb os ob ref more lastStop
      = (groupFields rs rb os ob ref more lastStop).take (2 * more.length)
        ++ [(packVal rs rb (more.length + 1) (lastStop - ref.start), rb)] := by
    unfold groupFields
    have : (groupFieldsAux rs rb os ob ref 1 more).length = 2 * more.length := by
      have : ∀ i (l : List BlockAddr), (groupFieldsAux rs rb os ob ref i l).length = 2 * l.length := by
        intro i l
        induction l generalizing i with
        | nil => rfl
        | cons a r ih => simp [groupFieldsAux, ih]; omega
      exact this 1 more
    rw [List.take_left' this]
  unfold bitPos at h
  conv => lhs; rw [hsplit]
  rw [List.map_append, List.sum_append, h]
  simp

/-- reading one packed field back through `extract_bits` -/
theorem group_extract (rs rb os ob : Nat) (ref : BlockAddr) (more : List BlockAddr) (lastStop : Nat)
    (g : GroupFits rs rb os ob ref more lastStop) (idx : Nat) (f : Nat × Nat)
    (hf : (groupFields rs rb os ob ref more lastStop)[idx]? = some f) (hw : f.2 ≤ 57) :
    extractBits (bitPack (groupFields rs rb os ob ref more lastStop))
      (bitPos (groupFields rs rb os ob ref more lastStop) idx) f.2 = f.1 := by
  have hfit := group_fit rs rb os ob ref more lastStop g
  have hv := bitPack_val _ hfit
  rw [extractBits_spec _ _ _ hw, hv]
  have := packNat_field _ (fun x hx => (hfit x hx).1) idx f hf 0
  simpa using this

/-- unpacking a start / ordinal field gives the relative value back, in the reader's order of
operations (`reference + extracted + slope * i - shift`) -/
theorem read_back (base slope nbits i v : Nat) (hn : 1 ≤ nbits) (hdev : deviation slope i v < 2 ^ (nbits - 1)) :
    base + packVal slope nbits i v + slope * i - 2 ^ (nbits - 1) = base + v := by
  unfold packVal
  unfold deviation at hdev
  generalize slope * i = pred at *
  generalize 2 ^ (nbits - 1) = S at *
  split at hdev <;> omega

/-- `BlockAddrStore::get` on a store block as `flush_block` writes it: block `i` of the store
block comes back with its first ordinal, its start offset and, as end, the start of the next block
(the final end for the last block) -/
theorem group_get (rs rb os ob : Nat) (ref : BlockAddr) (more : List BlockAddr) (lastStop : Nat)
    (g : GroupFits rs rb os ob ref more lastStop) (i : Nat) (hi : i ≤ more.length) :
    (groupMeta rs rb os ob ref more).get (bitPack (groupFields rs rb os ob ref more lastStop)) i
      = some ⟨((ref :: more).getD i ref).firstOrd, ((ref :: more).getD i ref).start,
              startAt more lastStop i⟩ := by
  have hfit := group_fit rs rb os ob ref more lastStop g
  unfold StoreMeta.get
  cases i with
  | zero =>
    simp only [if_true, groupMeta, StoreMeta.rangeShift, List.getD_cons_zero]
    obtain ⟨hf, hp⟩ := start_field rs rb os ob ref more lastStop 0 (Nat.zero_le _)
    have he := group_extract rs rb os ob ref more lastStop g 0 _ hf g.rb57
    simp only [Nat.mul_zero] at hp he
    rw [hp] at he
    simp only [Nat.zero_mul, Nat.add_zero] at he
    rw [he]
    have hrb := read_back ref.start rs rb 1 (startAt more lastStop 0 - ref.start) g.rb1
      (by simpa using g.startFit 0 (Nat.zero_le _))
    have hge := g.startsGe 0 (Nat.zero_le _)
    simp only [Nat.add_zero, Nat.mul_one] at hrb
    congr 2
    rw [hrb]; omega
  | succ j =>
    have hj : j < more.length := by omega
    simp only [Nat.succ_ne_zero, if_false, Nat.add_sub_cancel, groupMeta, StoreMeta.rangeShift,
      StoreMeta.ordShift]
    have hnot : ¬ (j ≥ more.length) := by omega
    simp only [hnot, if_false]
    -- the three fields
    obtain ⟨hfs, hps⟩ := start_field rs rb os ob ref more lastStop j (by omega)
    obtain ⟨hfo, hpo⟩ := ord_field rs rb os ob ref more lastStop j hj
    obtain ⟨hfe, hpe⟩ := start_field rs rb os ob ref more lastStop (j + 1) (by omega)
    have es := group_extract rs rb os ob ref more lastStop g _ _ hfs g.rb57
    have eo := group_extract rs rb os ob ref more lastStop g _ _ hfo g.ob57
    have ee := group_extract rs rb os ob ref more lastStop g _ _ hfe g.rb57
    rw [hps] at es; rw [hpo] at eo; rw [hpe] at ee
    try simp only at es eo ee
    have a1 : (ob + rb) * j = j * (rb + ob) := by rw [Nat.mul_comm, Nat.add_comm]
    have a3 : j * (rb + ob) + (ob + rb) = (j + 1) * (rb + ob) := by
      rw [Nat.succ_mul, Nat.add_comm ob rb]
    rw [a1, a3, es, eo, ee]
    -- the bounds check of the reader
    have hlen := bitPack_length _ hfit
    rw [group_widths] at hlen
    have hbound : ¬ (((j + 1) * (rb + ob) + rb + 7) / 8 > (bitPack (groupFields rs rb os ob ref more lastStop)).length) := by
      rw [hlen]
      have : (j + 1) * (rb + ob) ≤ more.length * (rb + ob) := Nat.mul_le_mul_right _ (by omega)
      have h2 : ((j + 1) * (rb + ob) + rb + 7) / 8 ≤ (more.length * (rb + ob) + rb + 7) / 8 :=
        Nat.div_le_div_right (by omega)
      omega
    simp only [hbound, if_false]
    have hrs := read_back ref.start rs rb (j + 1) (startAt more lastStop j - ref.start) g.rb1
      (by have := g.startFit j (by omega); rwa [Nat.add_comm] at this)
    have hro := read_back ref.firstOrd os ob (j + 1) ((more.getD j ref).firstOrd - ref.firstOrd) g.ob1
      (by have := g.ordFit j hj; rwa [Nat.add_comm] at this)
    have hre := read_back ref.start rs rb (j + 2) (startAt more lastStop (j + 1) - ref.start) g.rb1
      (by have := g.startFit (j + 1) (by omega); rwa [Nat.add_comm] at this)
    have e1 : (1 : Nat) + j = j + 1 := Nat.add_comm _ _
    have e2 : (1 : Nat) + (j + 1) = j + 2 := by omega
    rw [e1, e2]
    rw [hro, hrs, hre]
    have hge1 := g.startsGe j (by omega)
    have hge2 := g.startsGe (j + 1) (by omega)
    have hmem : more.getD j ref ∈ more := by
      rw [List.getD_eq_getElem?_getD, List.getElem?_eq_getElem hj]; simp
    have hge3 := g.ordsGe _ hmem
    rw [startAt_lt (ref := ref) more lastStop j hj] at hge1 ⊢
    simp only [List.getD_cons_succ]
    congr 2 <;> omega

/-- the same with arbitrary bytes following the store block (the next store blocks of the file):
the 8-byte window of `extract_bits` may reach into them, the mask cuts them off -/
theorem group_extract_tail (rs rb os ob : Nat) (ref : BlockAddr) (more : List BlockAddr) (lastStop : Nat)
    (g : GroupFits rs rb os ob ref more lastStop) (rest : List UInt8) (idx : Nat) (f : Nat × Nat)
    (hf : (groupFields rs rb os ob ref more lastStop)[idx]? = some f) (hw : f.2 ≤ 57) :
    extractBits (bitPack (groupFields rs rb os ob ref more lastStop) ++ rest)
      (bitPos (groupFields rs rb os ob ref more lastStop) idx) f.2 = f.1 := by
  have hfit := group_fit rs rb os ob ref more lastStop g
  have hv := bitPack_val _ hfit
  have hlen := bitPack_length _ hfit
  rw [extractBits_spec _ _ _ hw, streamNat_append, hv, pow256, hlen]
  have htot : bitPos (groupFields rs rb os ob ref more lastStop) (groupFields rs rb os ob ref more lastStop).length
      = ((groupFields rs rb os ob ref more lastStop).map (·.2)).sum := by
    unfold bitPos; rw [List.take_length]
  generalize hT : ((groupFields rs rb os ob ref more lastStop).map (·.2)).sum = T at *
  have hpad : 8 * ((T + 7) / 8) = T + (8 * ((T + 7) / 8) - T) := by omega
  rw [hpad, Nat.pow_add, Nat.mul_assoc]
  have := packNat_field _ (fun x hx => (hfit x hx).1) idx f hf
    (2 ^ (8 * ((T + 7) / 8) - T) * streamNat rest)
  rw [htot] at this
  exact this

theorem group_get_tail (rs rb os ob : Nat) (ref : BlockAddr) (more : List BlockAddr) (lastStop : Nat)
    (g : GroupFits rs rb os ob ref more lastStop) (rest : List UInt8) (i : Nat) (hi : i ≤ more.length) :
    (groupMeta rs rb os ob ref more).get (bitPack (groupFields rs rb os ob ref more lastStop) ++ rest) i
      = some ⟨((ref :: more).getD i ref).firstOrd, ((ref :: more).getD i ref).start,
              startAt more lastStop i⟩ := by
  have hfit := group_fit rs rb os ob ref more lastStop g
  unfold StoreMeta.get
  cases i with
  | zero =>
    simp only [if_true, groupMeta, StoreMeta.rangeShift, List.getD_cons_zero]
    obtain ⟨hf, hp⟩ := start_field rs rb os ob ref more lastStop 0 (Nat.zero_le _)
    have he := group_extract_tail rs rb os ob ref more lastStop g rest 0 _ hf g.rb57
    simp only [Nat.mul_zero] at hp he
    rw [hp] at he
    simp only [Nat.zero_mul, Nat.add_zero] at he
    rw [he]
    have hrb := read_back ref.start rs rb 1 (startAt more lastStop 0 - ref.start) g.rb1
      (by simpa using g.startFit 0 (Nat.zero_le _))
    have hge := g.startsGe 0 (Nat.zero_le _)
    simp only [Nat.add_zero, Nat.mul_one] at hrb
    congr 2
    rw [hrb]; omega
  | succ j =>
    have hj : j < more.length := by omega
    simp only [Nat.succ_ne_zero, if_false, Nat.add_sub_cancel, groupMeta, StoreMeta.rangeShift,
      StoreMeta.ordShift]
    have hnot : ¬ (j ≥ more.length) := by omega
    simp only [hnot, if_false]
    obtain ⟨hfs, hps⟩ := start_field rs rb os ob ref more lastStop j (by omega)
    obtain ⟨hfo, hpo⟩ := ord_field rs rb os ob ref more lastStop j hj
    obtain ⟨hfe, hpe⟩ := start_field rs rb os ob ref more lastStop (j + 1) (by omega)
    have es := group_extract_tail rs rb os ob ref more lastStop g rest _ _ hfs g.rb57
    have eo := group_extract_tail rs rb os ob ref more lastStop g rest _ _ hfo g.ob57
    have ee := group_extract_tail rs rb os ob ref more lastStop g rest _ _ hfe g.rb57
    rw [hps] at es; rw [hpo] at eo; rw [hpe] at ee
    try simp only at es eo ee
    have a1 : (ob + rb) * j = j * (rb + ob) := by rw [Nat.mul_comm, Nat.add_comm]
    have a3 : j * (rb + ob) + (ob + rb) = (j + 1) * (rb + ob) := by
      rw [Nat.succ_mul, Nat.add_comm ob rb]
    rw [a1, a3, es, eo, ee]
    have hlen := bitPack_length _ hfit
    rw [group_widths] at hlen
    have hbound : ¬ (((j + 1) * (rb + ob) + rb + 7) / 8
        > (bitPack (groupFields rs rb os ob ref more lastStop) ++ rest).length) := by
      rw [List.length_append, hlen]
      have : (j + 1) * (rb + ob) ≤ more.length * (rb + ob) := Nat.mul_le_mul_right _ (by omega)
      have h2 : ((j + 1) * (rb + ob) + rb + 7) / 8 ≤ (more.length * (rb + ob) + rb + 7) / 8 :=
        Nat.div_le_div_right (by omega)
      omega
    simp only [hbound, if_false]
    have hrs := read_back ref.start rs rb (j + 1) (startAt more lastStop j - ref.start) g.rb1
      (by have := g.startFit j (by omega); rwa [Nat.add_comm] at this)
    have hro := read_back ref.firstOrd os ob (j + 1) ((more.getD j ref).firstOrd - ref.firstOrd) g.ob1
      (by have := g.ordFit j hj; rwa [Nat.add_comm] at this)
    have hre := read_back ref.start rs rb (j + 2) (startAt more lastStop (j + 1) - ref.start) g.rb1
      (by have := g.startFit (j + 1) (by omega); rwa [Nat.add_comm] at this)
    have e1 : (1 : Nat) + j = j + 1 := Nat.add_comm _ _
    have e2 : (1 : Nat) + (j + 1) = j + 2 := by omega
    rw [e1, e2]
    rw [hro, hrs, hre]
    have hge1 := g.startsGe j (by omega)
    have hge2 := g.startsGe (j + 1) (by omega)
    have hmem : more.getD j ref ∈ more := by
      rw [List.getD_eq_getElem?_getD, List.getElem?_eq_getElem hj]; simp
    have hge3 := g.ordsGe _ hmem
    rw [startAt_lt (ref := ref) more lastStop j hj] at hge1 ⊢
    simp only [List.getD_cons_succ]
    congr 2 <;> omega

end TantivyModel.SSTable
