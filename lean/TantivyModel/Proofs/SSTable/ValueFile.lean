import TantivyModel.Proofs.SSTable.Framing
/-! a whole data region with monotonic-u64 values: written, framed, read, decoded -/
namespace TantivyModel.SSTable
open TantivyModel

theorem monoFrom_of_pairwise (p : Nat) (l : List Nat) (hp : l.Pairwise (· ≤ ·)) (hge : ∀ x ∈ l, p ≤ x) :
    MonoFrom p l := by
  induction l generalizing p with
  | nil => trivial
  | cons a rest ih =>
    have ⟨h1, h2⟩ := List.pairwise_cons.mp hp
    exact ⟨hge a (by simp), ih a h2 h1⟩

theorem pairwise_of_monoFrom (p : Nat) (l : List Nat) (h : MonoFrom p l) :
    l.Pairwise (· ≤ ·) ∧ ∀ x ∈ l, p ≤ x := by
  induction l generalizing p with
  | nil => simp
  | cons a rest ih =>
    obtain ⟨h1, h2⟩ := h
    obtain ⟨i1, i2⟩ := ih a h2
    refine ⟨List.pairwise_cons.mpr ⟨i2, i1⟩, ?_⟩
    intro x hx
    rcases List.mem_cons.mp hx with e | hx
    · subst e; exact h1
    · exact Nat.le_trans h1 (i2 x hx)

theorem zip_fst_snd {α β} (l : List (α × β)) : (l.map (·.1)).zip (l.map (·.2)) = l := by
  induction l with
  | nil => rfl
  | cons a r ih => simp [ih]

/-- payload of one block with monotonic-u64 values. mirrors: DeltaWriter::flush_block
(value block, then key entries) -/
def payloadU64 (b : Assoc Nat) : List UInt8 := serU64Mono (b.map (·.2)) ++ encodeBlockKeys (keys b)

/-- mirrors: DeltaReader::advance on a fresh block: load the values, then decode the keys -/
def decodePayloadU64 (p : List UInt8) : Assoc Nat :=
  (decodeBlockKeys (loadU64Mono p).2).zip (loadU64Mono p).1

theorem decodePayloadU64_payload (b : Assoc Nat) (hk : StrictInc (keys b)) (hv : (b.map (·.2)).Pairwise (· ≤ ·)) :
    decodePayloadU64 (payloadU64 b) = b := by
  unfold decodePayloadU64 payloadU64
  rw [loadU64Mono_ser _ _ (monoFrom_of_pairwise 0 _ hv (fun _ _ => Nat.zero_le _))]
  simp only
  rw [decodeBlockKeys_encode _ hk]
  exact zip_fst_snd b

theorem payloadU64_ne_nil (b : Assoc Nat) : payloadU64 b ≠ [] := by
  unfold payloadU64 serU64Mono
  have hpos := vintSer_length_pos (b.map (·.2)).length
  cases hv : vintSer (b.map (·.2)).length with
  | nil => rw [hv] at hpos; simp at hpos
  | cons x xs => simp

/-- a whole data region of a `MonotonicU64SSTable`: entries cut into blocks at any block length,
each block written as value block + front-coded keys, framed, end marker; read by `read_block` and
decoded block by block gives back the entries -/
theorem u64_file_roundtrip (L : Nat) (m : Assoc Nat) (tail : List UInt8) (hs : SortedMap m)
    (hv : (m.map (·.2)).Pairwise (· ≤ ·))
    (hsize : ∀ b ∈ blocksOf (fun e : Key × Nat => e.1) L m, (payloadU64 b).length + 1 < 4294967296) :
    (readBlocks ((blocksOf (fun e : Key × Nat => e.1) L m).length + 1)
        (frameBlocks ((blocksOf (fun e : Key × Nat => e.1) L m).map payloadU64) ++ tail)).map
      (fun bs => ((bs.filterMap isPlain).map decodePayloadU64).flatten) = some m := by
  have hfl := blocksOf_flatten (fun e : Key × Nat => e.1) L m
  have hne : ∀ p ∈ (blocksOf (fun e : Key × Nat => e.1) L m).map payloadU64, p ≠ [] ∧ p.length + 1 < 4294967296 := by
    intro p hp
    obtain ⟨b, hb, rfl⟩ := List.mem_map.mp hp
    exact ⟨payloadU64_ne_nil b, hsize b hb⟩
  have h := readBlocks_frame _ tail ((blocksOf (fun e : Key × Nat => e.1) L m).length + 1)
    (by simp) hne
  try simp only [List.length_map] at h
  cases hr : readBlocks ((blocksOf (fun e : Key × Nat => e.1) L m).length + 1)
      (frameBlocks ((blocksOf (fun e : Key × Nat => e.1) L m).map payloadU64) ++ tail) with
  | none => rw [hr] at h; simp at h
  | some bs =>
    rw [hr] at h
    simp only [Option.map_some, Option.some.injEq] at h ⊢
    have hfm : ∀ (l : List RawBlock) (ps : List (List UInt8)), l.map isPlain = ps.map some → l.filterMap isPlain = ps := by
      intro l
      induction l with
      | nil => intro ps h; cases ps <;> simp_all
      | cons a r ih =>
        intro ps h
        cases ps with
        | nil => simp at h
        | cons p ps' =>
          simp only [List.map_cons, List.cons.injEq] at h
          simp [List.filterMap_cons, h.1, ih ps' h.2]
    rw [hfm bs _ h, List.map_map]
    have hblocks : (blocksOf (fun e : Key × Nat => e.1) L m).map (decodePayloadU64 ∘ payloadU64)
        = blocksOf (fun e : Key × Nat => e.1) L m := by
      rw [List.map_congr_left (g := id)]
      · simp
      · intro b hb
        have hsub : b.Sublist m := by rw [← hfl]; exact List.sublist_flatten_of_mem hb
        apply decodePayloadU64_payload b
        · exact StrictInc.sublist (by simpa [keys] using hsub.map (fun e : Key × Nat => e.1)) hs
        · exact List.Pairwise.sublist (hsub.map (fun e : Key × Nat => e.2)) hv
    rw [hblocks, hfl]

end TantivyModel.SSTable
