import TantivyModel.Model.SSTable.AddrStore
/-! the linear-prediction codec of the block-address store loses nothing -/
namespace TantivyModel.SSTable
open TantivyModel

theorem numBits_spec (n : Nat) : n < 2 ^ numBits n := by
  induction n using Nat.strongRecOn with
  | _ n ih =>
    cases n with
    | zero => simp [numBits]
    | succ m =>
      rw [numBits]
      have h := ih ((m + 1) / 2) (by omega)
      rw [Nat.pow_succ]
      omega

theorem le_foldl_max (l : List Nat) (a : Nat) : a ≤ l.foldl max a ∧ ∀ x ∈ l, x ≤ l.foldl max a := by
  induction l generalizing a with
  | nil => simp
  | cons y rest ih =>
    simp only [List.foldl_cons]
    obtain ⟨h1, h2⟩ := ih (max a y)
    refine ⟨by omega, ?_⟩
    intro x hx
    rcases List.mem_cons.mp hx with e | hx
    · subst e; omega
    · exact h2 x hx

/-- the bit width chosen by `find_best_slope` covers the deviation of every element -/
theorem slopeBits_fits (slope : Nat) (els : List (Nat × Nat)) :
    ∀ e ∈ els, deviation slope e.1 e.2 < 2 ^ (slopeBits slope els - 1) := by
  intro e he
  unfold slopeBits
  simp only [Nat.add_sub_cancel]
  have hmem : deviation slope e.1 e.2 ∈ els.map (fun e => deviation slope e.1 e.2) :=
    List.mem_map_of_mem he
  have hle := (le_foldl_max (els.map (fun e => deviation slope e.1 e.2)) 0).2 _ hmem
  exact Nat.lt_of_le_of_lt hle (numBits_spec _)

/-- what is written fits the bit width and reads back as the value -/
theorem pack_unpack (slope nbits i v : Nat) (hn : 1 ≤ nbits)
    (hdev : deviation slope i v < 2 ^ (nbits - 1)) :
    packVal slope nbits i v < 2 ^ nbits ∧ unpackVal slope nbits i (packVal slope nbits i v) = v := by
  unfold packVal unpackVal
  unfold deviation at hdev
  have hpow : 2 ^ nbits = 2 * 2 ^ (nbits - 1) := by
    have : nbits = (nbits - 1) + 1 := by omega
    conv => lhs; rw [this, Nat.pow_succ]
    omega
  generalize slope * i = pred at *
  generalize 2 ^ (nbits - 1) = S at *
  split at hdev <;> omega

/-- `binary_search` of v3.rs over a non-decreasing `f`: an exact hit, or the insertion point with
everything before it below the target and everything from it on above -/
theorem binSearch_spec (f : Nat → Nat) (t n : Nat) (hmono : ∀ a b, a ≤ b → b < n → f a ≤ f b)
    (fuel left right : Nat) (hr : right ≤ n) (hlr : left ≤ right) (hfuel : right - left < fuel)
    (hL : ∀ g, g < left → f g < t) (hR : ∀ g, right ≤ g → g < n → t < f g) :
    match binSearch (fun g => compare (f g) t) fuel left right with
    | .inl m => m < n ∧ f m = t
    | .inr p => p ≤ n ∧ (∀ g, g < p → f g < t) ∧ (∀ g, p ≤ g → g < n → t < f g) := by
  induction fuel generalizing left right with
  | zero => omega
  | succ fuel ih =>
    simp only [binSearch]
    by_cases hlt : left < right
    · simp only [hlt, if_true]
      have hmid1 : left ≤ left + (right - left) / 2 := by omega
      have hmid2 : left + (right - left) / 2 < right := by omega
      cases hc : compare (f (left + (right - left) / 2)) t with
      | lt =>
        simp only
        have hfl : f (left + (right - left) / 2) < t := Nat.compare_eq_lt.mp hc
        apply ih (left + (right - left) / 2 + 1) right hr (by omega) (by omega)
        · intro g hg
          have := hmono g (left + (right - left) / 2) (by omega) (by omega)
          omega
        · exact hR
      | gt =>
        simp only
        have hfg : t < f (left + (right - left) / 2) := Nat.compare_eq_gt.mp hc
        apply ih left (left + (right - left) / 2) (by omega) hmid1 (by omega) hL
        intro g hg hgn
        have := hmono (left + (right - left) / 2) g hg hgn
        omega
      | eq =>
        simp only
        exact ⟨by omega, Nat.compare_eq_eq.mp hc⟩
    · simp only [hlt, if_false]
      have : left = right := by omega
      subst this
      exact ⟨hr, hL, hR⟩

/-- the two-level ordinal → block search of `binary_search_ord` (store blocks of `B` addresses, the
fast path when `ord` is the first ordinal of a store block, `bisect_for_ord` inside the store
block) returns THE block holding `ord`: its first ordinal is ≤ ord and the next block, if any,
starts above `ord`. `f id` = first ordinal of block `id` (strictly increasing), `bl g + 1` = number
of addresses in store block `g` (all store blocks but the last are full). -/
theorem locateOrdGen_spec (B G : Nat) (bl : Nat → Nat) (f : Nat → Nat) (ord n : Nat)
    (hG : 0 < G) (hfull : ∀ g, g + 1 < G → bl g + 1 = B) (hlast : bl (G - 1) + 1 ≤ B)
    (hn : n = (G - 1) * B + bl (G - 1) + 1)
    (hmono : ∀ a b, a < b → b < n → f a < f b) (h0 : f 0 ≤ ord) :
    locateOrdGen B G bl f ord < n ∧ f (locateOrdGen B G bl f ord) ≤ ord ∧
      (locateOrdGen B G bl f ord + 1 < n → ord < f (locateOrdGen B G bl f ord + 1)) := by
  have hmono' : ∀ a b, a ≤ b → b < n → f a ≤ f b := by
    intro a b hab hb
    rcases Nat.lt_or_ge a b with h | h
    · exact Nat.le_of_lt (hmono a b h hb)
    · have : a = b := by omega
      subst this; exact Nat.le_refl _
  -- geometry of the store blocks
  have hgB : ∀ g, g < G → g * B ≤ (G - 1) * B := fun g hg => Nat.mul_le_mul_right B (by omega)
  have hsucc : ∀ g, (g + 1) * B = g * B + B := fun g => Nat.succ_mul g B
  have hgn : ∀ g, g < G → g * B + bl g < n := by
    intro g hg
    by_cases hl : g + 1 < G
    · have h1 := hfull g hl
      have h2 := hgB (g + 1) hl
      have h3 := hsucc g
      omega
    · have : g = G - 1 := by omega
      subst this; omega
  have houter := binSearch_spec (fun g => f (g * B)) ord G
    (fun a b hab hb => hmono' _ _ (Nat.mul_le_mul_right B hab) (by have := hgn b hb; omega))
    (G + 1) 0 G (Nat.le_refl _) (Nat.zero_le _) (by omega)
    (fun g hg => absurd hg (Nat.not_lt_zero g)) (fun g hg hgn' => absurd hgn' (by omega))
  unfold locateOrdGen
  cases ho : binSearch (fun g => compare (f (g * B)) ord) (G + 1) 0 G with
  | inl g =>
    rw [ho] at houter
    obtain ⟨hg, hfg⟩ := houter
    have hlt := hgn g hg
    simp only
    refine ⟨by omega, by omega, ?_⟩
    intro hnext
    have := hmono (g * B) (g * B + 1) (by omega) hnext
    omega
  | inr p =>
    rw [ho] at houter
    obtain ⟨hpG, hbelow, habove⟩ := houter
    have hp0 : p ≠ 0 := by
      intro e; subst e
      have := habove 0 (Nat.le_refl _) hG
      simp only [Nat.zero_mul] at this
      omega
    simp only
    have hg : p - 1 < G := by omega
    have hlt := hgn (p - 1) hg
    have hinner := binSearch_spec (fun i => f ((p - 1) * B + i + 1)) ord (bl (p - 1))
      (fun a b hab hb => hmono' _ _ (by omega) (by omega))
      (bl (p - 1) + 1) 0 (bl (p - 1)) (Nat.le_refl _) (Nat.zero_le _) (by omega)
      (fun g hg => absurd hg (Nat.not_lt_zero g)) (fun g hg hgn' => absurd hgn' (by omega))
    cases hi : binSearch (fun i => compare (f ((p - 1) * B + i + 1)) ord) (bl (p - 1) + 1) 0 (bl (p - 1)) with
    | inl i =>
      rw [hi] at hinner
      obtain ⟨hib, hfi⟩ := hinner
      simp only at hfi ⊢
      refine ⟨by omega, by omega, ?_⟩
      intro hnext
      have := hmono ((p - 1) * B + i + 1) ((p - 1) * B + i + 1 + 1) (by omega) hnext
      omega
    | inr q =>
      rw [hi] at hinner
      obtain ⟨hqb, hqbelow, hqabove⟩ := hinner
      simp only at hqbelow hqabove ⊢
      refine ⟨by omega, ?_, ?_⟩
      · by_cases hq0 : q = 0
        · subst hq0
          have := hbelow (p - 1) (by omega)
          simp only [Nat.add_zero] at this ⊢
          omega
        · have := hqbelow (q - 1) (by omega)
          have e : (p - 1) * B + (q - 1) + 1 = (p - 1) * B + q := by omega
          rw [e] at this
          omega
      · intro hnext
        by_cases hq : q < bl (p - 1)
        · exact hqabove q (Nat.le_refl _) hq
        · have hqe : q = bl (p - 1) := by omega
          by_cases hl : (p - 1) + 1 < G
          · have h1 := hfull (p - 1) hl
            have h3 := hsucc (p - 1)
            have h4 := habove ((p - 1) + 1) (by omega) hl
            have e : (p - 1) * B + q + 1 = ((p - 1) + 1) * B := by omega
            rw [e]; exact h4
          · have : p - 1 = G - 1 := by omega
            rw [this] at hnext hqe
            omega

theorem filter_le_nil_of_head_gt (l : List Nat) (ord : Nat) (hs : l.Pairwise (· < ·))
    (h : ∀ a, l.head? = some a → ord < a) : l.filter (fun x => decide (x ≤ ord)) = [] := by
  cases l with
  | nil => rfl
  | cons a rest =>
    have ha := h a rfl
    have ⟨h1, _⟩ := List.pairwise_cons.mp hs
    rw [List.filter_eq_nil_iff]
    intro x hx
    rcases List.mem_cons.mp hx with e | hx
    · subst e; simp; omega
    · have := h1 x hx; simp; omega

/-- in a strictly increasing list the elements `≤ ord` are exactly the first `r + 1` ones, where
`r` is the position with `l[r] ≤ ord < l[r+1]` -/
theorem filter_le_length (l : List Nat) (ord r : Nat) (hs : l.Pairwise (· < ·))
    (hr : r < l.length) (h1 : l.getD r 0 ≤ ord) (h2 : r + 1 < l.length → ord < l.getD (r + 1) 0) :
    (l.filter (fun x => decide (x ≤ ord))).length = r + 1 := by
  induction l generalizing r with
  | nil => simp at hr
  | cons a rest ih =>
    have ⟨hlt, hrest⟩ := List.pairwise_cons.mp hs
    cases r with
    | zero =>
      simp only [List.getD_cons_zero] at h1
      have hnil : rest.filter (fun x => decide (x ≤ ord)) = [] := by
        apply filter_le_nil_of_head_gt rest ord hrest
        intro b hb
        cases rest with
        | nil => simp at hb
        | cons c r' =>
          simp at hb; subst hb
          have := h2 (by simp)
          simpa using this
      simp [List.filter_cons, h1, hnil]
    | succ r' =>
      simp only [List.length_cons] at hr h2
      have hmem : rest.getD r' 0 ∈ rest := by
        rw [List.getD_eq_getElem?_getD, List.getElem?_eq_getElem (by omega)]
        simp
      have ha : a ≤ ord := by
        have := hlt _ hmem
        simp only [List.getD_cons_succ] at h1
        omega
      have := ih r' hrest (by omega) (by simpa using h1) (by
        intro h; have := h2 (by omega); simpa using this)
      simp [List.filter_cons, ha, this]

end TantivyModel.SSTable
