import TantivyModel.Model.SSTable.AddrStore
/-! the linear-prediction codec of the block-address store loses nothing -/
namespace TantivyModel.SSTable
open TantivyModel

theorem numBits_spec (n : Nat) : n < 2 ^ numBits n := by
  induction n using Nat.strongRecOn with
  | _ n ih =>
    cases n with
    | zero => simp [numBits]
    | succ m =>
      rw [numBits]
      have h := ih ((m + 1) / 2) (by omega)
      rw [Nat.pow_succ]
      omega

theorem le_foldl_max (l : List Nat) (a : Nat) : a ≤ l.foldl max a ∧ ∀ x ∈ l, x ≤ l.foldl max a := by
  induction l generalizing a with
  | nil => simp
  | cons y rest ih =>
    simp only [List.foldl_cons]
    obtain ⟨h1, h2⟩ := ih (max a y)
    refine ⟨by omega, ?_⟩
    intro x hx
    rcases List.mem_cons.mp hx with e | hx
    · subst e; omega
    · exact h2 x hx

/-- the bit width chosen by `find_best_slope` covers the deviation of every element -/
theorem slopeBits_fits (slope : Nat) (els : List (Nat × Nat)) :
    ∀ e ∈ els, deviation slope e.1 e.2 < 2 ^ (slopeBits slope els - 1) := by
  intro e he
  unfold slopeBits
  simp only [Nat.add_sub_cancel]
  have hmem : deviation slope e.1 e.2 ∈ els.map (fun e => deviation slope e.1 e.2) :=
    List.mem_map_of_mem he
  have hle := (le_foldl_max (els.map (fun e => deviation slope e.1 e.2)) 0).2 _ hmem
  exact Nat.lt_of_le_of_lt hle (numBits_spec _)

/-- what is written fits the bit width and reads back as the value -/
theorem pack_unpack (slope nbits i v : Nat) (hn : 1 ≤ nbits)
    (hdev : deviation slope i v < 2 ^ (nbits - 1)) :
    packVal slope nbits i v < 2 ^ nbits ∧ unpackVal slope nbits i (packVal slope nbits i v) = v := by
  unfold packVal unpackVal
  unfold deviation at hdev
  have hpow : 2 ^ nbits = 2 * 2 ^ (nbits - 1) := by
    have : nbits = (nbits - 1) + 1 := by omega
    conv => lhs; rw [this, Nat.pow_succ]
    omega
  generalize slope * i = pred at *
  generalize 2 ^ (nbits - 1) = S at *
  split at hdev <;> omega

/-- `binary_search` of v3.rs over a non-decreasing `f`: an exact hit, or the insertion point with
everything before it below the target and everything from it on above -/
theorem binSearch_spec (f : Nat → Nat) (t n : Nat) (hmono : ∀ a b, a ≤ b → b < n → f a ≤ f b)
    (fuel left right : Nat) (hr : right ≤ n) (hlr : left ≤ right) (hfuel : right - left < fuel)
    (hL : ∀ g, g < left → f g < t) (hR : ∀ g, right ≤ g → g < n → t < f g) :
    match binSearch (fun g => compare (f g) t) fuel left right with
    | .inl m => m < n ∧ f m = t
    | .inr p => p ≤ n ∧ (∀ g, g < p → f g < t) ∧ (∀ g, p ≤ g → g < n → t < f g) := by
  induction fuel generalizing left right with
  | zero => omega
  | succ fuel ih =>
    simp only [binSearch]
    by_cases hlt : left < right
    · simp only [hlt, if_true]
      have hmid1 : left ≤ left + (right - left) / 2 := by omega
      have hmid2 : left + (right - left) / 2 < right := by omega
      cases hc : compare (f (left + (right - left) / 2)) t with
      | lt =>
        simp only
        have hfl : f (left + (right - left) / 2) < t := Nat.compare_eq_lt.mp hc
        apply ih (left + (right - left) / 2 + 1) right hr (by omega) (by omega)
        · intro g hg
          have := hmono g (left + (right - left) / 2) (by omega) (by omega)
          omega
        · exact hR
      | gt =>
        simp only
        have hfg : t < f (left + (right - left) / 2) := Nat.compare_eq_gt.mp hc
        apply ih left (left + (right - left) / 2) (by omega) hmid1 (by omega) hL
        intro g hg hgn
        have := hmono (left + (right - left) / 2) g hg hgn
        omega
      | eq =>
        simp only
        exact ⟨by omega, Nat.compare_eq_eq.mp hc⟩
    · simp only [hlt, if_false]
      have : left = right := by omega
      subst this
      exact ⟨hr, hL, hR⟩

end TantivyModel.SSTable
