import TantivyModel.Proofs.SSTable.Writer
import TantivyModel.Proofs.SSTable.Delta
/-! the writer's order-check state and the block cutting agree -/
namespace TantivyModel.SSTable
open TantivyModel

/-- the state machine that performs the order checks closes its blocks exactly where `cutBlocks`
(used by `build`) does, and remembers the last key of each closed block -/
theorem writerBlocks_eq (L : Nat) (s : WState) (cur : List Key) (ks : List Key) :
    writerBlocks L s cur ks = cutBlocks id L cur s.blockBytes s.prev ks := by
  induction ks generalizing s cur with
  | nil => rfl
  | cons k rest ih =>
    simp only [writerBlocks, cutBlocks, id]
    unfold WState.next
    by_cases h : s.blockBytes + (entryBytes s.prev k).length > L
    · simp only [h, if_true]
      rw [ih]
    · simp only [h, if_false, Bool.false_eq_true]
      rw [ih]

theorem next_lastBlockKey (L : Nat) (s : WState) (k : Key) (h : (s.next L k).blockStart = true) :
    (s.next L k).lastBlockKey = some k ∧ (s.next L k).prev = [] := by
  unfold WState.next at h ⊢
  split
  · exact ⟨rfl, rfl⟩
  · rename_i hn; simp [hn] at h

end TantivyModel.SSTable
