import TantivyModel.Model.SSTable.FileOps
import TantivyModel.Proofs.SSTable.StoreLocate
import TantivyModel.Proofs.SSTable.Framing
/-! `ord_to_term` on the bytes of a whole written file -/
namespace TantivyModel.SSTable
open TantivyModel

/-- first ordinal of block `i` -/
def ordStart (blocks : List (List Key)) (i : Nat) : Nat := ((blocks.take i).map List.length).sum

/-- byte offset of the frame of payload `i` in the data region (`u32 | compress byte | payload`) -/
def frameStart (ps : List (List UInt8)) (i : Nat) : Nat := ((ps.take i).map (fun p => p.length + 5)).sum

theorem frameBlock_length (p : List UInt8) : (frameBlock p).length = p.length + 5 := by
  simp [frameBlock, u32enc_length]; omega

theorem frameBlocks_cons (p : List UInt8) (rest : List (List UInt8)) :
    frameBlocks (p :: rest) = frameBlock p ++ frameBlocks rest := by
  simp [frameBlocks, List.append_assoc]

theorem slice_append_right {α} (l1 l2 : List α) (s e : Nat) :
    ((l1 ++ l2).take (l1.length + e)).drop (l1.length + s) = (l2.take e).drop s := by
  rw [List.take_append, List.drop_append]
  have h1 : List.take (l1.length + e) l1 = l1 := List.take_of_length_le (by omega)
  rw [h1, List.drop_of_length_le (by omega)]
  simp

/-- the byte range recorded for block `i` holds exactly its frame -/
theorem frame_slice (ps : List (List UInt8)) (i : Nat) (p : List UInt8) (h : ps[i]? = some p) :
    ((frameBlocks ps).take (frameStart ps (i + 1))).drop (frameStart ps i) = frameBlock p := by
  induction ps generalizing i with
  | nil => simp at h
  | cons q rest ih =>
    rw [frameBlocks_cons]
    cases i with
    | zero =>
      simp at h; subst h
      have e1 : frameStart (q :: rest) (0 + 1) = (frameBlock q).length := by
        simp [frameStart, frameBlock_length]
      have e0 : frameStart (q :: rest) 0 = 0 := by simp [frameStart]
      rw [e1, e0, List.take_left' rfl, List.drop_zero]
    | succ j =>
      simp only [List.getElem?_cons_succ] at h
      have e1 : frameStart (q :: rest) (j + 1 + 1) = (frameBlock q).length + frameStart rest (j + 1) := by
        simp [frameStart, frameBlock_length]
      have e0 : frameStart (q :: rest) (j + 1) = (frameBlock q).length + frameStart rest j := by
        simp [frameStart, frameBlock_length]
      rw [e1, e0, slice_append_right]
      exact ih j h

/-- `read_block` on exactly one frame -/
theorem readBlocks_one (p : List UInt8) (hp1 : p ≠ []) (hp2 : p.length + 1 < 4294967296) :
    readBlocks 1 (frameBlock p) = some [RawBlock.plain p] := by
  unfold frameBlock
  simp only [readBlocks]
  have hlen : (u32enc (p.length + 1) ++ (0 :: p)).length = 4 + (1 + p.length) := by
    simp [u32enc_length]; omega
  have hle := u32le_enc (p.length + 1) (0 :: p) hp2
  have hplen : 0 < p.length := List.length_pos_iff.mpr hp1
  have hdrop : (u32enc (p.length + 1) ++ (0 :: p)).drop 4 = 0 :: p := by
    rw [List.drop_left' (u32enc_length _)]
  rw [hle, hdrop]
  have h1 : ¬ (4 + (1 + p.length) = 0) := by omega
  have h2 : ¬ (4 + (1 + p.length) < 4) := by omega
  have h3 : ¬ (p.length + 1 ≤ 1) := by omega
  simp only [hlen, h1, h2, h3, if_false, Nat.add_sub_cancel]
  simp

/-- the block whose ordinal range holds `ord` holds the `ord`-th element of the concatenation -/
theorem flatten_at_block {α} (blocks : List (List α)) (i ord : Nat) (b : List α)
    (hb : blocks[i]? = some b)
    (hlo : ((blocks.take i).map List.length).sum ≤ ord)
    (hhi : i + 1 < blocks.length → ord < ((blocks.take (i + 1)).map List.length).sum) :
    blocks.flatten[ord]? = b[ord - ((blocks.take i).map List.length).sum]? := by
  induction blocks generalizing i ord with
  | nil => simp at hb
  | cons c rest ih =>
    cases i with
    | zero =>
      simp at hb; subst hb
      simp only [List.take_zero, List.map_nil, List.sum_nil, Nat.sub_zero, List.flatten_cons]
      rcases Nat.lt_or_ge ord c.length with hlt | hge
      · rw [List.getElem?_append_left hlt]
      · rw [List.getElem?_append_right hge, List.getElem?_eq_none hge]
        cases rest with
        | nil => simp
        | cons d rest' =>
          have := hhi (by simp)
          simp at this
          omega
    | succ j =>
      simp only [List.getElem?_cons_succ] at hb
      simp only [List.take_succ_cons, List.map_cons, List.sum_cons] at hlo hhi ⊢
      simp only [List.flatten_cons]
      rw [List.getElem?_append_right (by omega)]
      have := ih j (ord - c.length) hb (by omega) (by
        intro hlt
        have := hhi (by simp; omega)
        omega)
      rw [this]
      congr 1
      omega

theorem allOrds_length_pos (gs : List GroupSpec) (h : 0 < gs.length) : 0 < (allOrds gs).length := by
  cases gs with
  | nil => simp at h
  | cons g rest => simp [allOrds, GroupSpec.ords]

/-- `Dictionary::ord_to_term` on the bytes of a whole version-3 file: data region of framed
payloads, index region `fst | store | fst_len`, footer. For EVERY well-formed block-address store
whose addresses are the ordinal and byte ranges of the frames, every FST byte string, every value
codec whose value block `skip` drops: the reader returns the `ord`-th key of the concatenated
blocks, `Ok(false)` past the end. -/
theorem file_ord_to_term (skip : List UInt8 → List UInt8) (blocks : List (List Key)) (ps : List (List UInt8))
    (gs : List GroupSpec) (fst : List UInt8) (numTerms version ord : Nat)
    (hinc : ∀ b ∈ blocks, StrictInc b)
    (hskip : ∀ (i : Nat) p b, ps[i]? = some p → blocks[i]? = some b → skip p = encodeBlockKeys b)
    (hlen : ps.length = blocks.length)
    (hpsz : ∀ p ∈ ps, p ≠ [] ∧ p.length + 1 < 4294967296)
    (hg : GoodStore gs) (hs : (allOrds gs).Pairwise (· < ·))
    (hcount : (allOrds gs).length = blocks.length)
    (hAddr : ∀ (id : Nat) a, id < blocks.length → (openStore (storeBytes gs)).get id = some a →
      a.firstOrd = ordStart blocks id ∧ a.start = frameStart ps id ∧ a.stop = frameStart ps (id + 1))
    (hfst0 : fst.length ≠ 0) (hfst : fst.length < 18446744073709551616)
    (hdata : (frameBlocks ps).length < 18446744073709551616)
    (hn : numTerms < 18446744073709551616) (hv : version < 4294967296) :
    fileOrdToTerm skip (finishFile (frameBlocks ps) (fst ++ storeBytes gs ++ u64enc fst.length) numTerms version) ord
      = some (blocks.flatten[ord]?) := by
  unfold fileOrdToTerm
  rw [openFile_finish _ _ _ _ hdata hn hv]
  -- the index region splits into FST, store, FST length
  have hil : (fst ++ storeBytes gs ++ u64enc fst.length).length - 8 = (fst ++ storeBytes gs).length := by
    simp [u64enc_length]; omega
  have hblock : fileBlockForOrd ⟨frameBlocks ps, fst ++ storeBytes gs ++ u64enc fst.length, numTerms, version⟩ ord
      = (openStore (storeBytes gs)).get ((openStore (storeBytes gs)).locateOrd ord) := by
    unfold fileBlockForOrd
    simp only [hil]
    rw [List.take_left' rfl, List.drop_left' rfl]
    have h8 : u64le (u64enc fst.length) = fst.length := by
      have := u64le_enc fst.length [] hfst
      simpa using this
    rw [h8, if_neg hfst0, List.drop_left' rfl]
  -- locate, then get
  have hpos := allOrds_length_pos gs hg.nonempty
  obtain ⟨a0, ha0, ha0o⟩ := store_get_valid gs hg 0 hpos
  have h0 : (allOrds gs).getD 0 0 ≤ ord := by
    rw [← ha0o, (hAddr 0 a0 (by rw [← hcount]; exact hpos) ha0).1]
    simp [ordStart]
  obtain ⟨h1, h2, h3⟩ := store_locate_spec gs hg ord hs h0
  obtain ⟨a, ha, hao⟩ := store_get_valid gs hg _ h1
  have hid : (openStore (storeBytes gs)).locateOrd ord < blocks.length := by rw [← hcount]; exact h1
  obtain ⟨haF, haS, haE⟩ := hAddr _ a hid ha
  have hhi : (openStore (storeBytes gs)).locateOrd ord + 1 < blocks.length →
      ord < ordStart blocks ((openStore (storeBytes gs)).locateOrd ord + 1) := by
    intro hlt
    have hnext : (openStore (storeBytes gs)).locateOrd ord + 1 < (allOrds gs).length := by
      rw [hcount]; exact hlt
    obtain ⟨b, hb, hbo⟩ := store_get_valid gs hg _ hnext
    rw [← (hAddr _ b hlt hb).1, hbo]
    exact h3 hnext
  have hlo : ordStart blocks ((openStore (storeBytes gs)).locateOrd ord) ≤ ord := by
    rw [← haF, hao]; exact h2
  -- the block and its payload
  have hbget : blocks[(openStore (storeBytes gs)).locateOrd ord]? = some blocks[(openStore (storeBytes gs)).locateOrd ord] :=
    List.getElem?_eq_getElem hid
  have hpget : ps[(openStore (storeBytes gs)).locateOrd ord]? = some ps[(openStore (storeBytes gs)).locateOrd ord] :=
    List.getElem?_eq_getElem (by rw [hlen]; exact hid)
  have hflat := flatten_at_block blocks _ ord _ hbget hlo hhi
  have hslice := frame_slice ps _ _ hpget
  obtain ⟨hp1, hp2⟩ := hpsz _ (List.mem_of_getElem? hpget)
  unfold openedOrdToTerm
  rw [hblock, ha]
  simp only [haS, haE, hslice, readBlocks_one _ hp1 hp2]
  rw [hskip _ _ _ hpget hbget, decodeBlockKeys_encode _ (hinc _ (List.mem_of_getElem? hbget)), haF, hflat]
  rfl

theorem ordStart_succ (blocks : List (List Key)) (i : Nat) (h : i < blocks.length) :
    ordStart blocks (i + 1) = ordStart blocks i + blocks[i].length := by
  unfold ordStart
  have e : blocks.take (i + 1) = blocks.take i ++ [blocks[i]] := by
    rw [List.take_succ, List.getElem?_eq_getElem h]; rfl
  rw [e, List.map_append, List.sum_append]
  simp

theorem ordStart_strict (blocks : List (List Key)) (hne : ∀ b ∈ blocks, b ≠ []) (i j : Nat)
    (hij : i < j) (hj : j ≤ blocks.length) : ordStart blocks i < ordStart blocks j := by
  induction j with
  | zero => omega
  | succ k ih =>
    have hk : k < blocks.length := by omega
    have hpos : 0 < blocks[k].length := List.length_pos_iff.mpr (hne _ (List.getElem_mem hk))
    rw [ordStart_succ blocks k hk]
    rcases Nat.lt_or_ge i k with hlt | hge
    · have := ih hlt (by omega); omega
    · have : i = k := by omega
      subst this; omega

/-- a store that lists the first ordinals of non-empty blocks has strictly increasing ordinals -/
theorem allOrds_pairwise_of_addr (gs : List GroupSpec) (hg : GoodStore gs) (blocks : List (List Key))
    (hne : ∀ b ∈ blocks, b ≠ []) (hcount : (allOrds gs).length = blocks.length)
    (hOrd : ∀ (id : Nat) a, id < blocks.length → (openStore (storeBytes gs)).get id = some a → a.firstOrd = ordStart blocks id) :
    (allOrds gs).Pairwise (· < ·) := by
  have hval : ∀ i (hi : i < (allOrds gs).length), (allOrds gs)[i] = ordStart blocks i := by
    intro i hi
    obtain ⟨a, ha, hao⟩ := store_get_valid gs hg i hi
    rw [← hOrd i a (by rw [← hcount]; exact hi) ha, hao, List.getD_eq_getElem?_getD, List.getElem?_eq_getElem hi]
    rfl
  rw [List.pairwise_iff_getElem]
  intro i j hi hj hij
  rw [hval i hi, hval j hj]
  exact ordStart_strict blocks hne i j hij (by omega)

/-- `file_ord_to_term` without the ordering hypothesis on the store -/
theorem file_ord_to_term' (skip : List UInt8 → List UInt8) (blocks : List (List Key)) (ps : List (List UInt8))
    (gs : List GroupSpec) (fst : List UInt8) (numTerms version ord : Nat)
    (hinc : ∀ b ∈ blocks, StrictInc b) (hne : ∀ b ∈ blocks, b ≠ [])
    (hskip : ∀ (i : Nat) p b, ps[i]? = some p → blocks[i]? = some b → skip p = encodeBlockKeys b)
    (hlen : ps.length = blocks.length)
    (hpsz : ∀ p ∈ ps, p ≠ [] ∧ p.length + 1 < 4294967296)
    (hg : GoodStore gs)
    (hcount : (allOrds gs).length = blocks.length)
    (hAddr : ∀ (id : Nat) a, id < blocks.length → (openStore (storeBytes gs)).get id = some a →
      a.firstOrd = ordStart blocks id ∧ a.start = frameStart ps id ∧ a.stop = frameStart ps (id + 1))
    (hfst0 : fst.length ≠ 0) (hfst : fst.length < 18446744073709551616)
    (hdata : (frameBlocks ps).length < 18446744073709551616)
    (hn : numTerms < 18446744073709551616) (hv : version < 4294967296) :
    fileOrdToTerm skip (finishFile (frameBlocks ps) (fst ++ storeBytes gs ++ u64enc fst.length) numTerms version) ord
      = some (blocks.flatten[ord]?) :=
  file_ord_to_term skip blocks ps gs fst numTerms version ord hinc hskip hlen hpsz hg
    (allOrds_pairwise_of_addr gs hg blocks hne hcount (fun id a hlt h => (hAddr id a hlt h).1))
    hcount hAddr hfst0 hfst hdata hn hv

end TantivyModel.SSTable
