import TantivyModel.Proofs.SSTable.BitStream
/-! `BitPacker::write` / `flush` produce the little-endian packing of the fields -/
namespace TantivyModel.SSTable
open TantivyModel

theorem streamNat_append (a b : List UInt8) :
    streamNat (a ++ b) = streamNat a + 256 ^ a.length * streamNat b := by
  have := streamNat_split (a ++ b) a.length
  simpa using this

theorem streamNat_le8 (x : Nat) (h : x < 2 ^ 64) : streamNat (le8 x) = x := by
  unfold le8 streamNat
  simp only [List.foldr_cons, List.foldr_nil]
  have e : ∀ k, k < 256 → (UInt8.ofNat k).toNat = k := fun k hk => by
    simp [UInt8.toNat_ofNat', Nat.mod_eq_of_lt hk]
  rw [e _ (Nat.mod_lt _ (by decide)), e _ (Nat.mod_lt _ (by decide)), e _ (Nat.mod_lt _ (by decide)),
    e _ (Nat.mod_lt _ (by decide)), e _ (Nat.mod_lt _ (by decide)), e _ (Nat.mod_lt _ (by decide)),
    e _ (Nat.mod_lt _ (by decide)), e _ (Nat.mod_lt _ (by decide))]
  have : (2 : Nat) ^ 64 = 18446744073709551616 := by decide
  omega

theorem le8_length (x : Nat) : (le8 x).length = 8 := rfl

/-- what the packer has written so far denotes `N`; `T` bits in total -/
structure PackInv (s : BitPackerSt) (N T : Nat) : Prop where
  lt : s.written < 64
  buf : s.buf < 2 ^ s.written
  bits : T = 8 * s.out.length + s.written
  val : N = streamNat s.out + 256 ^ s.out.length * s.buf

theorem pow256 (k : Nat) : (256 : Nat) ^ k = 2 ^ (8 * k) := by
  rw [Nat.pow_mul]

/-- one `write` appends the field at the running bit position -/
theorem write_inv (s : BitPackerSt) (N T v n : Nat) (h : PackInv s N T) (hv : v < 2 ^ n) (hn : n ≤ 64) :
    PackInv (s.write v n) (N + 2 ^ T * v) (T + n) := by
  obtain ⟨hlt, hbuf, hbits, hval⟩ := h
  have hT : (2 : Nat) ^ T = 256 ^ s.out.length * 2 ^ s.written := by
    rw [hbits, Nat.pow_add, pow256]
  unfold BitPackerSt.write
  by_cases h1 : s.written + n > 64
  · -- the value is split across the 64-bit buffer
    simp only [h1, if_true]
    have hw : 64 - s.written + s.written = 64 := by omega
    have hsplit : v = v % 2 ^ (64 - s.written) + 2 ^ (64 - s.written) * (v / 2 ^ (64 - s.written)) :=
      (Nat.mod_add_div v _).symm
    have hpow : (2 : Nat) ^ (64 - s.written) * 2 ^ s.written = 2 ^ 64 := by
      rw [← Nat.pow_add, hw]
    have hlow : s.buf + v % 2 ^ (64 - s.written) * 2 ^ s.written < 2 ^ 64 := by
      have h2 : v % 2 ^ (64 - s.written) < 2 ^ (64 - s.written) := Nat.mod_lt _ (Nat.pos_of_neZero _)
      have h3 : (v % 2 ^ (64 - s.written) + 1) * 2 ^ s.written ≤ 2 ^ (64 - s.written) * 2 ^ s.written :=
        Nat.mul_le_mul_right _ h2
      rw [hpow, Nat.add_mul, Nat.one_mul] at h3
      omega
    have hsum : s.buf + v * 2 ^ s.written
        = (s.buf + v % 2 ^ (64 - s.written) * 2 ^ s.written) + 2 ^ 64 * (v / 2 ^ (64 - s.written)) := by
      conv => lhs; rw [hsplit]
      rw [Nat.add_mul, Nat.mul_right_comm, hpow, Nat.add_assoc]
    have hfull : (s.buf + v * 2 ^ s.written) % 2 ^ 64
        = s.buf + v % 2 ^ (64 - s.written) * 2 ^ s.written := by
      rw [hsum, Nat.add_mul_mod_self_left, Nat.mod_eq_of_lt hlow]
    refine ⟨by simp only; omega, ?_, ?_, ?_⟩
    · simp only
      apply Nat.div_lt_of_lt_mul
      have : n = (64 - s.written) + (s.written + n - 64) := by omega
      rw [← Nat.pow_add, ← this]; exact hv
    · simp only [List.length_append, le8_length]; omega
    · simp only [List.length_append, le8_length]
      rw [streamNat_append, streamNat_le8 _ (Nat.mod_lt _ (Nat.pos_of_neZero _)), hfull, hval, hT]
      have e8 : (256 : Nat) ^ (s.out.length + 8) = 256 ^ s.out.length * 2 ^ 64 := by
        rw [Nat.pow_add]
      rw [e8]
      have : 256 ^ s.out.length * 2 ^ s.written * v = 256 ^ s.out.length * (v * 2 ^ s.written) := by
        rw [Nat.mul_assoc, Nat.mul_comm (2 ^ s.written)]
      rw [this]
      have hsum' : v * 2 ^ s.written = v % 2 ^ (64 - s.written) * 2 ^ s.written
          + 2 ^ 64 * (v / 2 ^ (64 - s.written)) := by omega
      rw [hsum', Nat.mul_add, Nat.mul_add, Nat.mul_assoc]
      omega
  · simp only [h1, if_false]
    have hfit : s.buf + v * 2 ^ s.written < 2 ^ (s.written + n) := by
      have h3 : (v + 1) * 2 ^ s.written ≤ 2 ^ n * 2 ^ s.written := Nat.mul_le_mul_right _ hv
      rw [Nat.add_mul, Nat.one_mul, ← Nat.pow_add, Nat.add_comm n] at h3
      omega
    have hvalN : N + 2 ^ T * v = streamNat s.out + 256 ^ s.out.length * (s.buf + v * 2 ^ s.written) := by
      rw [hval, hT, Nat.mul_add, Nat.mul_assoc, Nat.mul_comm (2 ^ s.written), Nat.add_assoc]
    by_cases h2 : s.written + n = 64
    · simp only [h2, if_true]
      rw [h2] at hfit
      refine ⟨by simp, by simp, ?_, ?_⟩
      · simp only [List.length_append, le8_length]; omega
      · simp only [List.length_append, le8_length]
        rw [streamNat_append, streamNat_le8 _ hfit, hvalN]; simp
    · simp only [h2, if_false]
      exact ⟨by simp only; omega, hfit, by simp only; omega, hvalN⟩

theorem fold_inv (fs : List (Nat × Nat)) (s : BitPackerSt) (N T : Nat) (h : PackInv s N T)
    (hfit : ∀ f ∈ fs, f.1 < 2 ^ f.2 ∧ f.2 ≤ 64) :
    PackInv (fs.foldl (fun (s : BitPackerSt) f => s.write f.1 f.2) s) (N + 2 ^ T * packNat fs)
      (T + (fs.map (·.2)).sum) := by
  induction fs generalizing s N T with
  | nil => simpa [packNat] using h
  | cons f rest ih =>
    obtain ⟨hf1, hf2⟩ := hfit f (by simp)
    have hstep := write_inv s N T f.1 f.2 h hf1 hf2
    have := ih (s.write f.1 f.2) _ _ hstep (fun g hg => hfit g (List.mem_cons_of_mem _ hg))
    simp only [List.foldl_cons, packNat, List.map_cons, List.sum_cons]
    have e1 : N + 2 ^ T * f.1 + 2 ^ (T + f.2) * packNat rest = N + 2 ^ T * (f.1 + 2 ^ f.2 * packNat rest) := by
      rw [Nat.pow_add, Nat.mul_add, Nat.mul_assoc, Nat.add_assoc]
    rw [e1, Nat.add_assoc] at this
    exact this

theorem streamNat_take_small (l : List UInt8) (k : Nat) (hk : k ≤ l.length) (h : streamNat l < 256 ^ k) :
    streamNat (l.take k) = streamNat l := by
  have hs := streamNat_split l k
  have hl : (l.take k).length = k := by simp [hk]
  rw [hl] at hs
  have hlt := streamNat_lt (l.take k)
  rw [hl] at hlt
  have hz : streamNat (l.drop k) = 0 := by
    cases hd : streamNat (l.drop k) with
    | zero => rfl
    | succ d =>
      rw [hd] at hs
      have : 256 ^ k * (d + 1) ≥ 256 ^ k := Nat.le_mul_of_pos_right _ (by omega)
      omega
  rw [hs, hz]; simp

theorem flush_val (s : BitPackerSt) (N T : Nat) (h : PackInv s N T) : streamNat s.flush = N := by
  obtain ⟨hlt, hbuf, _, hval⟩ := h
  unfold BitPackerSt.flush
  by_cases hw : s.written > 0
  · simp only [hw, if_true]
    rw [streamNat_append, hval]
    congr 1
    congr 1
    have h64 : s.buf < 2 ^ 64 :=
      Nat.lt_of_lt_of_le hbuf (Nat.pow_le_pow_right (by decide) (by omega))
    have hk : (s.written + 7) / 8 ≤ (le8 s.buf).length := by rw [le8_length]; omega
    rw [streamNat_take_small _ _ hk, streamNat_le8 _ h64]
    rw [streamNat_le8 _ h64, pow256]
    exact Nat.lt_of_lt_of_le hbuf (Nat.pow_le_pow_right (by decide) (by omega))
  · simp only [hw, if_false]
    have : s.written = 0 := by omega
    rw [this] at hbuf
    have hb0 : s.buf = 0 := by simpa using hbuf
    rw [hval, hb0]; simp

/-- `BitPacker::write`* then `flush`: the bytes denote exactly the fields packed from bit 0 upwards -/
theorem bitPack_val (fs : List (Nat × Nat)) (hfit : ∀ f ∈ fs, f.1 < 2 ^ f.2 ∧ f.2 ≤ 64) :
    streamNat (bitPack fs) = packNat fs := by
  unfold bitPack
  have h0 : PackInv ({} : BitPackerSt) 0 0 := ⟨by decide, by decide, rfl, rfl⟩
  have := flush_val _ _ _ (fold_inv fs {} 0 0 h0 hfit)
  simpa using this

end TantivyModel.SSTable
