import TantivyModel.Proofs.SSTable.OrdToTerm
import TantivyModel.Proofs.SSTable.Refine
/-! `ord_to_term` and `term_ord` are inverse to each other -/
namespace TantivyModel.SSTable
open TantivyModel

theorem findIdx?_getElem {α} (p : α → Bool) (l : List α) (i : Nat) (h : l.findIdx? p = some i) :
    ∃ x, l[i]? = some x ∧ p x = true := by
  induction l generalizing i with
  | nil => simp at h
  | cons a rest ih =>
    rw [List.findIdx?_cons] at h
    by_cases hp : p a = true
    · simp only [hp, if_true, Option.some.injEq] at h
      subst h; exact ⟨a, by simp, hp⟩
    · simp only [hp, Bool.false_eq_true, if_false] at h
      cases hr : rest.findIdx? p with
      | none => simp [hr] at h
      | some j =>
        simp only [hr, Option.map_some, Option.some.injEq] at h
        subst h
        obtain ⟨x, hx, hpx⟩ := ih j hr
        exact ⟨x, by simpa using hx, hpx⟩

theorem findIdx?_of_getElem_sorted (ks : List Key) (hs : StrictInc ks) (i : Nat) (k : Key)
    (h : ks[i]? = some k) : ks.findIdx? (fun a => a == k) = some i := by
  induction ks generalizing i with
  | nil => simp at h
  | cons a rest ih =>
    rw [List.findIdx?_cons]
    cases i with
    | zero => simp at h; subst h; simp
    | succ j =>
      simp only [List.getElem?_cons_succ] at h
      have hmem : k ∈ rest := List.mem_of_getElem? h
      have hne : (a == k) = false := by
        have := lexLt_ne (hs.head_lt k hmem)
        simpa using this
      simp only [hne, Bool.false_eq_true, if_false, ih hs.tail j h, Option.map_some]

/-- specification level: in a sorted map the ordinal of a key and the key of an ordinal are inverse -/
theorem spec_ord_inverse {V} (m : Assoc V) (hs : SortedMap m) (k : Key) (i : Nat) :
    termOrd m k = some i ↔ ordToTerm m i = some k := by
  constructor
  · intro h
    unfold termOrd at h
    obtain ⟨e, he, hp⟩ := findIdx?_getElem _ m i h
    unfold ordToTerm
    rw [he]
    simpa using hp
  · intro h
    unfold ordToTerm at h
    rw [termOrd_eq_keys]
    apply findIdx?_of_getElem_sorted (keys m) hs i k
    unfold keys
    rw [List.getElem?_map]
    exact h

end TantivyModel.SSTable
