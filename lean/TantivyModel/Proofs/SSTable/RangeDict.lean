import TantivyModel.Proofs.SSTable.Range
/-! range streams of the dictionary: file_slice_for_range + Streamer = specification range -/
namespace TantivyModel.SSTable
open TantivyModel

variable {V : Type}

theorem mem_flatE_drop_of_take {bl : List (Block V)} {n c : Nat} {e : Key × V}
    (h : e ∈ flatE ((bl.drop n).take c)) : e ∈ flatE (bl.drop n) := by
  have : bl.drop n = (bl.drop n).take c ++ (bl.drop n).drop c := (List.take_append_drop c _).symm
  rw [this, flatE_append]; exact List.mem_append_left _ h

theorem mem_flatE_drop_mono {bl : List (Block V)} {i j : Nat} {e : Key × V} (hij : i ≤ j)
    (h : e ∈ flatE (bl.drop j)) : e ∈ flatE (bl.drop i) := by
  have : bl.drop i = (bl.drop i).take (j - i) ++ bl.drop j := by
    conv => lhs; rw [← List.take_append_drop (j - i) (bl.drop i)]
    rw [List.drop_drop]; congr 2; omega
  rw [this, flatE_append]; exact List.mem_append_right _ h

theorem flatE_seg_length (bl : List (Block V)) (i j : Nat) (h : i ≤ j) :
    (flatE (bl.take i)).length + (flatE ((bl.drop i).take (j - i))).length = (flatE (bl.take j)).length := by
  have : bl.take j = bl.take i ++ (bl.drop i).take (j - i) := by
    rw [← List.take_add]; congr 1; omega
  rw [this, flatE_append, List.length_append]

theorem seg_split (bl : List (Block V)) (f s l : Nat) (h1 : f ≤ s) (h2 : s ≤ l) :
    (bl.drop f).take (l - f) = (bl.drop f).take (s - f) ++ (bl.drop s).take (l - s) := by
  have e : l - f = (s - f) + (l - s) := by omega
  rw [e, List.take_add, List.drop_drop]
  congr 3; omega

/-- nothing is cut off behind block `last` -/
def CutOK (d : Dict V) (hi : Bound) (last : Nat) : Prop :=
  ∀ e ∈ flatE (d.blockList.drop (last + 1)), matchHi hi e.1 = false

theorem firstBlock_some {d : Dict V} {lo : Bound} {firstId : Option Nat}
    (h : d.firstBlock lo = some firstId) :
    (lo.key? = none ∧ firstId = none) ∨
      (∃ k f, lo.key? = some k ∧ d.locateKey k = some f ∧ firstId = some f) := by
  unfold Dict.firstBlock at h
  cases hk : lo.key? with
  | none => simp [hk] at h; exact Or.inl ⟨rfl, h.symm⟩
  | some k =>
    simp only [hk] at h
    cases hl : d.locateKey k with
    | none => simp [hl] at h
    | some f =>
      simp only [hl] at h
      split at h
      · cases h; exact Or.inr ⟨k, f, rfl, hl, rfl⟩
      · cases h

theorem firstBlock_none {d : Dict V} {m : Assoc V} (v : BlockView d m) {lo : Bound}
    (h : d.firstBlock lo = none) : ∃ k, lo.key? = some k ∧ d.locateKey k = none := by
  unfold Dict.firstBlock at h
  cases hk : lo.key? with
  | none => simp [hk] at h
  | some k =>
    simp only [hk] at h
    cases hl : d.locateKey k with
    | none => exact ⟨k, rfl, hl⟩
    | some f =>
      simp only [hl] at h
      have hlt := v.locLt k f hl
      rw [v.nbLen] at hlt
      have : (d.blockAt f).isSome = true := by
        rw [v.at_, List.getElem?_eq_getElem hlt]; rfl
      simp [this] at h

theorem first_facts {d : Dict V} {m : Assoc V} (v : BlockView d m) {lo : Bound} {firstId : Option Nat}
    (h : d.firstBlock lo = some firstId) :
    (∀ e ∈ flatE (d.blockList.take (firstId.getD 0)), matchLo lo e.1 = false) ∧
    d.firstTerm lo = (flatE (d.blockList.take (firstId.getD 0))).length ∧
    firstId.getD 0 < d.nb ∧ firstId.getD 0 ≤ secondOf firstId ∧
    (∀ e ∈ flatE (d.blockList.drop (secondOf firstId)), matchLo lo e.1 = true) := by
  rcases firstBlock_some h with ⟨hk, hf⟩ | ⟨k, f, hk, hl, hf⟩
  · subst hf
    refine ⟨by simp [flatE], by simp [Dict.firstTerm, hk, flatE], by simpa using v.nbPos, by simp [secondOf], ?_⟩
    intro e _; exact matchLo_unbounded hk e.1
  · subst hf
    have hlt := v.locLt k f hl
    have hlt' : f < d.blockList.length := by rw [← v.nbLen]; exact hlt
    refine ⟨?_, ?_, by simpa using hlt, by simp [secondOf], ?_⟩
    · intro e he
      exact matchLo_false_of_lt hk (v.below k f hl e (by simpa using he))
    · have hb : d.blockList[f]? = some d.blockList[f] := List.getElem?_eq_getElem hlt'
      simp only [Dict.firstTerm, hk, hl, Option.bind_some, v.at_, hb, Option.getD_some]
      exact v.firstOrd f _ hb
    · intro e he
      exact matchLo_true_of_gt hk (v.above k f hl e (by simpa [secondOf] using he))

theorem cutOK_lastKey {d : Dict V} {m : Assoc V} (v : BlockView d m) (hi : Bound) :
    CutOK d hi (d.lastIncl (d.lastKeyBlock hi)) := by
  unfold CutOK Dict.lastIncl Dict.lastKeyBlock
  cases hk : hi.key? with
  | none =>
    simp only [Option.bind_none]
    rw [flatE_drop_len _ _ (by rw [← v.nbLen]; have := v.nbPos; omega)]
    simp
  | some kh =>
    simp only [Option.bind_some]
    cases hl : d.locateKey kh with
    | none =>
      simp only
      rw [flatE_drop_len _ _ (by rw [← v.nbLen]; have := v.nbPos; omega)]
      simp
    | some x =>
      simp only [v.locLt kh x hl, if_true]
      intro e he
      exact matchHi_false_of_gt hk (v.above kh x hl e he)

/-- the two ways the last loaded block is determined -/
theorem last_cases {d : Dict V} {m : Assoc V} (v : BlockView d m) (firstId : Option Nat) (hi : Bound)
    (limit : Option Nat) (last : Nat)
    (hlast : last = d.lastIncl (d.limitBlock firstId (d.lastKeyBlock hi) limit)) :
    last < d.nb ∧
    ((last = d.lastIncl (d.lastKeyBlock hi)) ∨
     (∃ l bsec bn, limit = some l ∧ d.blockList[secondOf firstId]? = some bsec ∧
        secondOf firstId ≤ last ∧ d.blockList[last + 1]? = some bn ∧
        bsec.firstOrd + l < bn.firstOrd) ∨
     (d.blockList.length ≤ last + 1 ∧ secondOf firstId ≤ last + 1)) := by
  have hnb := v.nbPos
  have hlastlt : ∀ o : Option Nat, d.lastIncl o < d.nb := by
    intro o; unfold Dict.lastIncl
    cases o with
    | none => simp; omega
    | some x => simp only; split <;> omega
  refine ⟨by rw [hlast]; exact hlastlt _, ?_⟩
  cases limit with
  | none => left; rw [hlast]; rfl
  | some l =>
    cases hb : d.blockList[secondOf firstId]? with
    | none =>
      left; rw [hlast]; simp [Dict.limitBlock, v.at_, hb]
    | some bsec =>
      obtain ⟨hlimlt, hlimle, hlimnext⟩ := v.locOrd (bsec.firstOrd + l)
      have hsecle : secondOf firstId ≤ d.locateOrd (bsec.firstOrd + l) := by
        apply Nat.le_of_not_lt
        intro hlt
        have hex : d.locateOrd (bsec.firstOrd + l) + 1 < d.blockList.length := by
          have := (List.getElem?_eq_some_iff.mp hb).1; omega
        have hbn := List.getElem?_eq_getElem hex
        have h1 := hlimnext _ hbn
        have h2 := v.firstOrd _ _ hbn
        have h3 := v.firstOrd _ _ hb
        have h4 := flatE_take_mono d.blockList (d.locateOrd (bsec.firstOrd + l) + 1) (secondOf firstId) (by omega)
        omega
      have hlimcase : d.lastIncl (some (d.locateOrd (bsec.firstOrd + l))) = d.locateOrd (bsec.firstOrd + l) := by
        simp [Dict.lastIncl, hlimlt]
      -- what holds when the limit block is the last block
      have limAlt : last = d.locateOrd (bsec.firstOrd + l) →
          (∃ l' bsec' bn, some l = some l' ∧ some bsec = some bsec' ∧
            secondOf firstId ≤ last ∧ d.blockList[last + 1]? = some bn ∧ bsec'.firstOrd + l' < bn.firstOrd) ∨
          (d.blockList.length ≤ last + 1 ∧ secondOf firstId ≤ last + 1) := by
        intro hl
        rw [hl]
        cases hn : d.blockList[d.locateOrd (bsec.firstOrd + l) + 1]? with
        | none =>
          right
          exact ⟨List.getElem?_eq_none_iff.mp hn, by omega⟩
        | some bn =>
          left
          exact ⟨l, bsec, bn, rfl, rfl, hsecle, rfl, hlimnext bn hn⟩
      have hlb : d.limitBlock firstId (d.lastKeyBlock hi) (some l) =
          (match d.lastKeyBlock hi with
           | some x => some (min x (d.locateOrd (bsec.firstOrd + l)))
           | none => some (d.locateOrd (bsec.firstOrd + l))) := by
        simp only [Dict.limitBlock, v.at_, hb]
        cases d.lastKeyBlock hi <;> rfl
      rw [hlb] at hlast
      cases hkb : d.lastKeyBlock hi with
      | none =>
        rw [hkb] at hlast
        simp only at hlast
        rw [hlimcase] at hlast
        exact Or.inr (limAlt hlast)
      | some x =>
        rw [hkb] at hlast
        simp only at hlast
        by_cases hx : x ≤ d.locateOrd (bsec.firstOrd + l)
        · left
          rw [Nat.min_eq_left hx] at hlast
          exact hlast
        · rw [Nat.min_eq_right (by omega), hlimcase] at hlast
          exact Or.inr (limAlt hlast)

theorem mem_flatE_take_of_index {bl : List (Block V)} {i f : Nat} {b : Block V} {e : Key × V}
    (hb : bl[i]? = some b) (hi : i < f) (he : e ∈ b.entries) : e ∈ flatE (bl.take f) := by
  have : (bl.take f)[i]? = some b := by rw [List.getElem?_take]; simp [hi, hb]
  have hm : b ∈ bl.take f := List.mem_of_getElem? this
  unfold flatE
  exact List.mem_flatten.mpr ⟨b.entries, List.mem_map_of_mem hm, he⟩

theorem mem_flatE_drop_of_index {bl : List (Block V)} {i j : Nat} {b : Block V} {e : Key × V}
    (hb : bl[i]? = some b) (hij : j ≤ i) (he : e ∈ b.entries) : e ∈ flatE (bl.drop j) := by
  have : (bl.drop j)[i - j]? = some b := by rw [List.getElem?_drop]; rw [← hb]; congr 1; omega
  have hm : b ∈ bl.drop j := List.mem_of_getElem? this
  unfold flatE
  exact List.mem_flatten.mpr ⟨b.entries, List.mem_map_of_mem hm, he⟩

/-- first block two or more blocks after the last block: the bounds are inverted and the
specification range is empty -/
theorem inverted_facts {d : Dict V} {m : Assoc V} (v : BlockView d m) {lo hi : Bound}
    {firstId : Option Nat} {limit : Option Nat} (hfb : d.firstBlock lo = some firstId)
    (hinv : firstId.getD 0 > d.lastIncl (d.limitBlock firstId (d.lastKeyBlock hi) limit) + 1) :
    fullStream m lo hi = [] ∧ ∃ a b, lo.key? = some a ∧ hi.key? = some b ∧ lexLt b a = true := by
  obtain ⟨hAlo, _, hflt, hfsec, _⟩ := first_facts v hfb
  obtain ⟨hlastlt, hcases⟩ := last_cases v firstId hi limit _ rfl
  have hcut := cutOK_lastKey v hi
  rcases hcases with h1 | ⟨_, _, _, _, _, h, _, _⟩ | ⟨_, h⟩
  · rw [h1] at hinv
    -- the last block comes from the upper bound key
    rcases firstBlock_some hfb with ⟨_, hf⟩ | ⟨k, f, hk, hl, hf⟩
    · subst hf; simp at hinv
    · subst hf
      simp only [Option.getD_some] at hinv hflt hAlo
      unfold Dict.lastIncl Dict.lastKeyBlock at hinv
      cases hkh : hi.key? with
      | none => simp [hkh] at hinv; omega
      | some kh =>
        simp only [hkh, Option.bind_some] at hinv
        cases hx : d.locateKey kh with
        | none => simp [hx] at hinv; omega
        | some x =>
          have hxlt := v.locLt kh x hx
          simp only [hx, hxlt, if_true] at hinv
          have hlen : x + 1 < d.blockList.length := by rw [← v.nbLen]; omega
          have hbx := List.getElem?_eq_getElem hlen
          have hmulti : d.single = false := by
            cases hsg : d.single with
            | false => rfl
            | true => simp [Dict.nb, hsg] at hflt; omega
          have hne := v.nonempty hmulti _ (List.mem_of_getElem? hbx)
          obtain ⟨e, he⟩ := List.exists_mem_of_ne_nil _ hne
          have h1' : lexLt e.1 k = true :=
            v.below k f hl e (mem_flatE_take_of_index hbx (by omega) he)
          have h2' : lexLt kh e.1 = true :=
            v.above kh x hx e (mem_flatE_drop_of_index hbx (Nat.le_refl _) he)
          refine ⟨?_, k, kh, hk, rfl, lexLt_trans h2' h1'⟩
          have hm : m = flatE (d.blockList.take f) ++ flatE (d.blockList.drop f) := by
            rw [← v.flat, ← flatE_append, List.take_append_drop]
          unfold fullStream
          rw [hm, streamSpec_append, streamSpec_nil_of_lo allAut lo hi 0 _ hAlo]
          rw [streamSpec_nil_of_hi]
          · rfl
          · intro c hc
            exact matchHi_false_of_gt hkh
              (v.above kh x hx c (mem_flatE_drop_mono (by omega) hc))
  · omega
  · omega

/-- `Dictionary::range().{ge,gt,le,lt}.limit().into_stream()` against the specification:
the streamed entries (with their ordinals) are a prefix of the specification range; without a
limit they are the whole range; with a limit `l` either nothing is missing or at least `l` entries
were produced. The call fails only without the guard, for inverted bounds, where the
specification range is empty. -/
theorem stream_refine {d : Dict V} {m : Assoc V} (v : BlockView d m) (hs : SortedMap m)
    (lo hi : Bound) (limit : Option Nat) :
    match d.stream lo hi limit with
    | some out => ∃ rest, fullStream m lo hi = out ++ rest ∧ (limit = none → rest = []) ∧
        (∀ l, limit = some l → rest = [] ∨ l ≤ out.length)
    | none => Gen.RANGE_INVERTED_GUARD ≠ 1 ∧ fullStream m lo hi = [] ∧
        ∃ a b, lo.key? = some a ∧ hi.key? = some b ∧ lexLt b a = true := by
  unfold Dict.stream Dict.sliceFor
  cases hfb : d.firstBlock lo with
  | none =>
    obtain ⟨k, hk, hl⟩ := firstBlock_none v hfb
    have hfull : fullStream m lo hi = [] := by
      unfold fullStream
      apply streamSpec_nil_of_lo
      intro e he
      exact matchLo_false_of_lt hk (v.noneBelow k hl e he)
    simp only [List.map_nil, List.flatten_nil, scanStream]
    exact ⟨[], by simp [hfull], fun _ => rfl, fun _ _ => Or.inl rfl⟩
  | some firstId =>
    simp only
    by_cases hinv : firstId.getD 0 > d.lastIncl (d.limitBlock firstId (d.lastKeyBlock hi) limit) + 1
    · obtain ⟨hfull, hab⟩ := inverted_facts v hfb hinv
      simp only [hinv, if_true]
      by_cases hg : Gen.RANGE_INVERTED_GUARD = 1
      · simp only [hg, if_true, List.map_nil, List.flatten_nil, scanStream]
        exact ⟨[], by simp [hfull], fun _ => rfl, fun _ _ => Or.inl rfl⟩
      · simp only [hg, if_false]
        exact ⟨hg, hfull, hab⟩
    · simp only [hinv, if_false]
      obtain ⟨hAlo, hft, hflt, hfsec, hS2lo⟩ := first_facts v hfb
      obtain ⟨hlastlt, hcases⟩ := last_cases v firstId hi limit _ rfl
      generalize hlast : d.lastIncl (d.limitBlock firstId (d.lastKeyBlock hi) limit) = last at *
      generalize hf : firstId.getD 0 = f at *
      have hfl : f ≤ last + 1 := by omega
      have hm : m = flatE (d.blockList.take f) ++ flatE ((d.blockList.drop f).take (last + 1 - f))
          ++ flatE (d.blockList.drop (last + 1)) := by
        rw [← v.flat]
        have := flatE_take_drop d.blockList f (last + 1 - f)
        rw [this]; congr 3; omega
      have hsorted : StrictInc (keys (flatE (d.blockList.take f) ++ flatE ((d.blockList.drop f).take (last + 1 - f))
          ++ flatE (d.blockList.drop (last + 1)))) := by rw [← hm]; exact hs
      have hcore := range_core lo hi _ _ _ hsorted hAlo
      rw [← hm] at hcore
      rw [hft]
      show ∃ rest, fullStream m lo hi = scanStream lo hi false (flatE (d.blockList.take f)).length
          (flatE ((d.blockList.drop f).take (last + 1 - f))) ++ rest ∧ _
      refine ⟨_, hcore, ?_, ?_⟩
      · intro hnone
        subst hnone
        apply streamSpec_nil_of_hi
        have := cutOK_lastKey v hi
        have hl' : last = d.lastIncl (d.lastKeyBlock hi) := by rw [← hlast]; rfl
        rw [hl']; exact this
      · intro l hl
        rcases hcases with h1 | ⟨l', bsec, bn, hl', hbsec, hsecle, hbn, hlt⟩ | ⟨hlen, _⟩
        · left
          apply streamSpec_nil_of_hi
          have := cutOK_lastKey v hi
          rw [h1]; exact this
        · rw [hl] at hl'; cases hl'
          have hsplit := seg_split d.blockList f (secondOf firstId) (last + 1) hfsec (by omega)
          have hS : flatE ((d.blockList.drop f).take (last + 1 - f))
              = flatE ((d.blockList.drop f).take (secondOf firstId - f))
                ++ flatE ((d.blockList.drop (secondOf firstId)).take (last + 1 - secondOf firstId)) := by
            rw [hsplit, flatE_append]
          have hlen2 : l ≤ (flatE ((d.blockList.drop (secondOf firstId)).take (last + 1 - secondOf firstId))).length := by
            have h1 := flatE_seg_length d.blockList (secondOf firstId) (last + 1) (by omega)
            have h2 := v.firstOrd _ _ hbsec
            have h3 := v.firstOrd _ _ hbn
            omega
          have hs2 : StrictInc (keys (flatE (d.blockList.take f)
              ++ (flatE ((d.blockList.drop f).take (secondOf firstId - f))
                ++ flatE ((d.blockList.drop (secondOf firstId)).take (last + 1 - secondOf firstId)))
              ++ flatE (d.blockList.drop (last + 1)))) := by rw [← hS]; exact hsorted
          have := range_enough lo hi _ _ _ _ l hs2
            (fun e he => hS2lo e (mem_flatE_drop_of_take he)) hlen2
          rw [← hS] at this
          exact this
        · left
          rw [flatE_drop_len _ _ hlen]
          rfl

end TantivyModel.SSTable
