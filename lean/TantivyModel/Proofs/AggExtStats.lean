import Mathlib.Tactic.Linarith
import Mathlib.Tactic.Positivity
import Mathlib.Tactic.FieldSimp
import Mathlib.Tactic.NormNum
import Mathlib.Tactic.Ring
import TantivyModel.Model.AggExtStats
import TantivyModel.Proofs.AggAlgebra
/-!
C14 helper lemmas: the extended_stats accumulator over `ℚ` — Welford's update and Chan's merge
keep `mean = Σv / n` and `M2 = Σv² − (Σv)²/n`; sigma travels unchanged.
-/
namespace TantivyModel.Agg

/-- the accumulator describes `n` values with sum `S` and sum of squares `Q` -/
structure ExtS.Describes (a : ExtS) (n : Nat) (S Q : ℚ) : Prop where
  count : a.count = n
  sum : a.sum = S
  q : a.q = Q
  mean : a.mean = if n = 0 then 0 else S / (n : ℚ)
  m2 : a.m2 = if n = 0 then 0 else Q - S * S / (n : ℚ)
  zero : n = 0 → S = 0 ∧ Q = 0

theorem ExtS.describes_withSigma (σ : ℚ) : (ExtS.withSigma σ).Describes 0 0 0 :=
  ⟨rfl, rfl, rfl, rfl, rfl, fun _ => ⟨rfl, rfl⟩⟩

theorem ExtS.describes_empty : ExtS.empty.Describes 0 0 0 :=
  ⟨rfl, rfl, rfl, rfl, rfl, fun _ => ⟨rfl, rfl⟩⟩

/-- Welford's step -/
theorem ExtS.describes_collect {a : ExtS} {n : Nat} {S Q : ℚ} (h : a.Describes n S Q) (v : ℚ) :
    (a.collect v).Describes (n + 1) (S + v) (Q + v * v) := by
  obtain ⟨hc, hs, hq, hm, hm2, hz⟩ := h
  refine ⟨by simp [ExtS.collect, hc], by simp [ExtS.collect, hs], by simp [ExtS.collect, hq], ?_, ?_,
    fun h => absurd h (Nat.succ_ne_zero n)⟩
  · simp only [ExtS.collect, hc, hs, Nat.add_one_ne_zero, if_false]
  · simp only [ExtS.collect, hc, hs, hq, hm, hm2, Nat.add_one_ne_zero, if_false]
    by_cases h0 : n = 0
    · obtain ⟨hS, hQ⟩ := hz h0
      subst h0; subst hS; subst hQ
      simp
    · have hn : (n : ℚ) ≠ 0 := by exact_mod_cast h0
      have hn1 : ((n : ℚ) + 1) ≠ 0 := by positivity
      simp only [h0, if_false]
      push_cast
      field_simp
      ring

/-- Chan's merge -/
theorem ExtS.describes_merge {a b : ExtS} {na nb : Nat} {Sa Sb Qa Qb : ℚ}
    (ha : a.Describes na Sa Qa) (hb : b.Describes nb Sb Qb) :
    (ExtS.merge a b).Describes (na + nb) (Sa + Sb) (Qa + Qb) := by
  unfold ExtS.merge
  by_cases hb0 : b.count = 0
  · have hnb : nb = 0 := by rw [← hb.count]; exact hb0
    obtain ⟨hS, hQ⟩ := hb.zero hnb
    subst hnb; subst hS; subst hQ
    simp only [hb0, if_true, Nat.add_zero, add_zero]
    exact ha
  · by_cases ha0 : a.count = 0
    · have hna : na = 0 := by rw [← ha.count]; exact ha0
      obtain ⟨hS, hQ⟩ := ha.zero hna
      subst hna; subst hS; subst hQ
      simp only [hb0, ha0, if_false, if_true, Nat.zero_add, zero_add]
      exact hb
    · obtain ⟨hca, hsa, hqa, hma, hm2a, _⟩ := ha
      obtain ⟨hcb, hsb, hqb, hmb, hm2b, _⟩ := hb
      have hna : na ≠ 0 := by rw [← hca]; exact ha0
      have hnb : nb ≠ 0 := by rw [← hcb]; exact hb0
      have hnaq : (na : ℚ) ≠ 0 := by exact_mod_cast hna
      have hnbq : (nb : ℚ) ≠ 0 := by exact_mod_cast hnb
      have hsum : ((na : ℚ) + (nb : ℚ)) ≠ 0 := by positivity
      have hnn : na + nb ≠ 0 := by omega
      simp only [hb0, ha0, if_false]
      refine ⟨by simp [hca, hcb], by simp [hsa, hsb], by simp [hqa, hqb], ?_, ?_, fun h => absurd h hnn⟩
      · simp only [hca, hcb, hsa, hsb, hnn, if_false]
      · simp only [hca, hcb, hsa, hsb, hqa, hqb, hma, hmb, hm2a, hm2b, hna, hnb, hnn, if_false]
        push_cast
        field_simp
        ring

/-! ### a whole segment, a whole merge schedule -/

def sumSq (xs : List ℚ) : ℚ := (xs.map (fun v => v * v)).sum

theorem ExtS.describes_foldl (xs : List ℚ) : ∀ {a : ExtS} {n : Nat} {S Q : ℚ}, a.Describes n S Q →
    (xs.foldl ExtS.collect a).Describes (n + xs.length) (S + xs.sum) (Q + sumSq xs) := by
  induction xs with
  | nil => intro a n S Q h; simpa [sumSq] using h
  | cons v vs ih =>
    intro a n S Q h
    have h2 := ih (ExtS.describes_collect h v)
    have e1 : n + (v :: vs).length = n + 1 + vs.length := by simp only [List.length_cons]; omega
    have e2 : S + (v :: vs).sum = S + v + vs.sum := by simp only [List.sum_cons]; ring
    have e3 : Q + sumSq (v :: vs) = Q + v * v + sumSq vs := by simp only [sumSq, List.map_cons, List.sum_cons]; ring
    rw [List.foldl_cons, e1, e2, e3]
    exact h2

/-- one segment: the accumulator describes exactly its values -/
theorem ExtS.describes_ofList (σ : ℚ) (xs : List ℚ) :
    (ExtS.ofList σ xs).Describes xs.length xs.sum (sumSq xs) := by
  have h := ExtS.describes_foldl xs (ExtS.describes_withSigma σ)
  simpa [ExtS.ofList] using h

/-- sigma is only ever copied -/
theorem ExtS.sigma_foldl (xs : List ℚ) (a : ExtS) : (xs.foldl ExtS.collect a).sigma = a.sigma := by
  induction xs generalizing a with
  | nil => rfl
  | cons v vs ih => simp only [List.foldl_cons]; rw [ih]; rfl

theorem ExtS.sigma_ofList (σ : ℚ) (xs : List ℚ) : (ExtS.ofList σ xs).sigma = σ := by
  unfold ExtS.ofList; rw [ExtS.sigma_foldl]; rfl

/-- "a non-empty accumulator carries the request's sigma" -/
def ExtS.Good (σ : ℚ) (a : ExtS) : Prop := a.count ≠ 0 → a.sigma = σ

theorem ExtS.good_merge {σ : ℚ} {a b : ExtS} (ha : a.Good σ) (hb : b.Good σ) : (ExtS.merge a b).Good σ := by
  unfold ExtS.merge
  by_cases hb0 : b.count = 0
  · simp only [hb0, if_true]; exact ha
  · by_cases ha0 : a.count = 0
    · simp only [hb0, ha0, if_false, if_true]; exact hb
    · simp only [hb0, ha0, if_false]
      intro _
      exact ha ha0

/-- the result of a merge schedule over per-segment value lists: `nil` = no fruit at all
(`empty_from_req`, default sigma), `leaf xs` = the fruit of a segment / a zero-count placeholder
when `xs = []`, `node` = one `merge_fruits` call (left operand = accumulator) -/
def extTree (σ : ℚ) : MTree (List ℚ) → ExtS
  | .nil => ExtS.empty
  | .leaf xs => ExtS.ofList σ xs
  | .node l r => ExtS.merge (extTree σ l) (extTree σ r)

/-- like `extTree`, but placeholders (leaves without values) and `nil` carry the DEFAULT sigma, as
`empty_from_req` builds them -/
def extTreePlaceholders (σ : ℚ) : MTree (List ℚ) → ExtS
  | .nil => ExtS.empty
  | .leaf [] => ExtS.empty
  | .leaf (x :: xs) => ExtS.ofList σ (x :: xs)
  | .node l r => ExtS.merge (extTreePlaceholders σ l) (extTreePlaceholders σ r)

theorem extTree_describes (σ : ℚ) : ∀ t : MTree (List ℚ),
    (extTree σ t).Describes t.leaves.flatten.length t.leaves.flatten.sum (sumSq t.leaves.flatten)
  | .nil => by simpa [extTree, MTree.leaves, sumSq] using ExtS.describes_empty
  | .leaf xs => by simpa [extTree, MTree.leaves] using ExtS.describes_ofList σ xs
  | .node l r => by
    have h := ExtS.describes_merge (extTree_describes σ l) (extTree_describes σ r)
    simpa [extTree, MTree.leaves, sumSq, List.flatten_append, List.length_append, List.sum_append,
      List.map_append] using h

theorem extTreePlaceholders_describes (σ : ℚ) : ∀ t : MTree (List ℚ),
    (extTreePlaceholders σ t).Describes t.leaves.flatten.length t.leaves.flatten.sum (sumSq t.leaves.flatten)
  | .nil => by simpa [extTreePlaceholders, MTree.leaves, sumSq] using ExtS.describes_empty
  | .leaf [] => by simpa [extTreePlaceholders, MTree.leaves, sumSq] using ExtS.describes_empty
  | .leaf (x :: xs) => by simpa [extTreePlaceholders, MTree.leaves] using ExtS.describes_ofList σ (x :: xs)
  | .node l r => by
    have h := ExtS.describes_merge (extTreePlaceholders_describes σ l) (extTreePlaceholders_describes σ r)
    simpa [extTreePlaceholders, MTree.leaves, sumSq, List.flatten_append, List.length_append, List.sum_append,
      List.map_append] using h

theorem extTreePlaceholders_good (σ : ℚ) : ∀ t : MTree (List ℚ), (extTreePlaceholders σ t).Good σ
  | .nil => fun h => absurd rfl h
  | .leaf [] => fun h => absurd rfl h
  | .leaf (x :: xs) => fun _ => ExtS.sigma_ofList σ (x :: xs)
  | .node l r => ExtS.good_merge (extTreePlaceholders_good σ l) (extTreePlaceholders_good σ r)

/-- two accumulators describing the same values agree on every numeric field -/
theorem ExtS.Describes.numeric_eq {a b : ExtS} {n : Nat} {S Q : ℚ} (ha : a.Describes n S Q)
    (hb : b.Describes n S Q) :
    a.count = b.count ∧ a.sum = b.sum ∧ a.q = b.q ∧ a.mean = b.mean ∧ a.m2 = b.m2 :=
  ⟨ha.count.trans hb.count.symm, ha.sum.trans hb.sum.symm, ha.q.trans hb.q.symm,
   ha.mean.trans hb.mean.symm, ha.m2.trans hb.m2.symm⟩

end TantivyModel.Agg
