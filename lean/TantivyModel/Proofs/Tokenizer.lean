import TantivyModel.Model.Tokenizer.Filters
import TantivyModel.Model.Tokenizer.Ngram
/-! helper lemmas for C19: boundaries, slices, the scanning tokenizers, regex, facet, filters -/
namespace TantivyModel.Tok

theorem utf8Len_pos (c : Nat) : 0 < utf8Len c := by
  unfold utf8Len; repeat (first | omega | split)

theorem utf8Len_le (c : Nat) : utf8Len c ≤ 4 := by
  unfold utf8Len; repeat (first | omega | split)

theorem Cp.w_pos (c : Cp) : 0 < c.w := utf8Len_pos _

/-! ### boundaries -/

theorem boundaries_head (o : Nat) (s : Text) : o ∈ boundariesFrom o s := by
  cases s <;> simp [boundariesFrom]

theorem boundaries_ge {o b : Nat} {s : Text} (h : b ∈ boundariesFrom o s) : o ≤ b := by
  induction s generalizing o with
  | nil => simp [boundariesFrom] at h; omega
  | cons c s ih =>
    simp only [boundariesFrom, List.mem_cons] at h
    rcases h with h | h
    · omega
    · have := ih h; omega

theorem boundaries_le {o b : Nat} {s : Text} (h : b ∈ boundariesFrom o s) : b ≤ o + byteLen s := by
  induction s generalizing o with
  | nil => simp [boundariesFrom] at h; simp [byteLen]; omega
  | cons c s ih =>
    simp only [boundariesFrom, List.mem_cons] at h
    simp only [byteLen]
    rcases h with h | h
    · omega
    · have := ih h; omega

theorem boundaries_end (o : Nat) (s : Text) : o + byteLen s ∈ boundariesFrom o s := by
  induction s generalizing o with
  | nil => simp [boundariesFrom, byteLen]
  | cons c s ih =>
    simp only [boundariesFrom, byteLen, List.mem_cons]
    right
    have := ih (o + c.w)
    rwa [Nat.add_assoc] at this

theorem boundaries_tail {o b : Nat} {c : Cp} {s : Text} (h : b ∈ boundariesFrom (o + c.w) s) :
    b ∈ boundariesFrom o (c :: s) := by
  simp [boundariesFrom, h]

theorem isBoundary_zero (s : Text) : IsBoundary s 0 := boundaries_head 0 s

theorem isBoundary_len (s : Text) : IsBoundary s (byteLen s) := by
  have := boundaries_end 0 s; simpa [IsBoundary] using this

theorem isBoundary_le {s : Text} {b : Nat} (h : IsBoundary s b) : b ≤ byteLen s := by
  have := boundaries_le h; omega

/-! ### slices -/

theorem sliceFrom_empty_of_le {o : Nat} {s : Text} {a b : Nat} (h : b ≤ o) :
    sliceFrom o s a b = [] := by
  induction s generalizing o with
  | nil => rfl
  | cons c s ih =>
    simp only [sliceFrom]
    have h1 : ¬ (a ≤ o ∧ o < b) := by omega
    simp only [h1, if_false, List.nil_append]
    exact ih (by omega)

/-- consecutive slices concatenate -/
theorem sliceFrom_append {o : Nat} {s : Text} {a b c : Nat} (hab : a ≤ b) (hbc : b ≤ c) :
    sliceFrom o s a b ++ sliceFrom o s b c = sliceFrom o s a c := by
  induction s generalizing o with
  | nil => rfl
  | cons x s ih =>
    simp only [sliceFrom]
    by_cases h1 : a ≤ o ∧ o < b
    · have h2 : ¬ (b ≤ o ∧ o < c) := by omega
      have h3 : a ≤ o ∧ o < c := by omega
      rw [if_pos h1, if_neg h2, if_pos h3]
      simp only [List.nil_append, List.singleton_append, List.cons_append]
      rw [ih]
    · by_cases h2 : b ≤ o ∧ o < c
      · have h3 : a ≤ o ∧ o < c := by omega
        have h4 : sliceFrom (o + x.w) s a b = [] := sliceFrom_empty_of_le (by omega)
        rw [if_neg h1, if_pos h2, if_pos h3, h4]
        simp only [List.nil_append]
        have := @ih (o + x.w)
        rw [h4, List.nil_append] at this
        rw [this]
      · have h3 : ¬ (a ≤ o ∧ o < c) := by omega
        rw [if_neg h1, if_neg h2, if_neg h3]
        simp only [List.nil_append]
        exact ih

/-- the slice over the whole range is the text -/
theorem sliceFrom_all {o : Nat} {s : Text} {a b : Nat} (ha : a ≤ o) (hb : o + byteLen s ≤ b) :
    sliceFrom o s a b = s := by
  induction s generalizing o with
  | nil => rfl
  | cons x s ih =>
    simp only [sliceFrom, byteLen] at *
    have := x.w_pos
    have h1 : a ≤ o ∧ o < b := by omega
    simp only [h1, and_self, if_true, List.singleton_append, List.cons.injEq, true_and]
    exact ih (by omega) (by omega)

/-- inside the slice: boundaries of the text are boundaries of the slice, shifted -/
theorem boundaries_slice_inside {o a b x : Nat} {s : Text} (hao : a ≤ o)
    (hx : x ∈ boundariesFrom o s) (hxb : x ≤ b) :
    x - a ∈ boundariesFrom (o - a) (sliceFrom o s a b) := by
  induction s generalizing o with
  | nil =>
    simp only [boundariesFrom, List.mem_singleton] at hx
    simp [sliceFrom, boundariesFrom, hx]
  | cons c s ih =>
    simp only [boundariesFrom, List.mem_cons] at hx
    by_cases hxo : x = o
    · subst hxo; exact boundaries_head _ _
    · have hx' : x ∈ boundariesFrom (o + c.w) s := by
        rcases hx with h | h
        · exact absurd h hxo
        · exact h
      have hge := boundaries_ge hx'
      have hw := c.w_pos
      simp only [sliceFrom]
      have h1 : a ≤ o ∧ o < b := by omega
      simp only [h1, and_self, if_true, List.singleton_append, boundariesFrom, List.mem_cons]
      right
      have := ih (o := o + c.w) (by omega) hx'
      have e : o + c.w - a = o - a + c.w := by omega
      rwa [e] at this

theorem boundaries_slice {o a b x : Nat} {s : Text} (hoa : o ≤ a)
    (ha : a ∈ boundariesFrom o s) (hx : x ∈ boundariesFrom o s) (hax : a ≤ x) (hxb : x ≤ b) :
    x - a ∈ boundariesFrom 0 (sliceFrom o s a b) := by
  induction s generalizing o with
  | nil =>
    simp only [boundariesFrom, List.mem_singleton] at ha hx
    simp [sliceFrom, boundariesFrom]; omega
  | cons c s ih =>
    by_cases hoa' : o = a
    · subst hoa'
      have := boundaries_slice_inside (a := o) (b := b) (Nat.le_refl o) hx hxb
      simpa using this
    · simp only [boundariesFrom, List.mem_cons] at ha hx
      have ha' : a ∈ boundariesFrom (o + c.w) s := by
        rcases ha with h | h
        · exact absurd h.symm hoa'
        · exact h
      have hge := boundaries_ge ha'
      have hx' : x ∈ boundariesFrom (o + c.w) s := by
        rcases hx with h | h
        · omega
        · exact h
      simp only [sliceFrom]
      have h1 : ¬ (a ≤ o ∧ o < b) := by omega
      simp only [h1, if_false, List.nil_append]
      exact ih hge ha' hx'

/-- `str::is_char_boundary` of the fragment string `&text[a..b]` at a relative offset -/
theorem isBoundary_slice {s : Text} {a b x : Nat} (ha : IsBoundary s a) (hx : IsBoundary s x)
    (hax : a ≤ x) (hxb : x ≤ b) : IsBoundary (sliceFrom 0 s a b) (x - a) :=
  boundaries_slice (Nat.zero_le a) ha hx hax hxb

/-- the lower bound of a slice does not matter once the text starts after it -/
theorem sliceFrom_lower {s : Text} {o a a' b : Nat} (h1 : a ≤ o) (h2 : a' ≤ o) :
    sliceFrom o s a b = sliceFrom o s a' b := by
  induction s generalizing o with
  | nil => rfl
  | cons y s ih =>
    simp only [sliceFrom]
    have e : (a ≤ o ∧ o < b) ↔ (a' ≤ o ∧ o < b) := by omega
    simp only [e]
    rw [ih (by omega) (by omega)]

/-- byte length of a slice between two boundaries -/
theorem byteLen_slice {o a b : Nat} {s : Text} (hoa : o ≤ a) (ha : a ∈ boundariesFrom o s)
    (hb : b ∈ boundariesFrom o s) (hab : a ≤ b) : byteLen (sliceFrom o s a b) = b - a := by
  induction s generalizing o a with
  | nil =>
    simp only [boundariesFrom, List.mem_singleton] at ha hb
    simp [sliceFrom, byteLen]; omega
  | cons c s ih =>
    simp only [boundariesFrom, List.mem_cons] at ha hb
    have hw := c.w_pos
    simp only [sliceFrom]
    by_cases hbo : b = o
    · have h1 : ¬ (a ≤ o ∧ o < b) := by omega
      simp only [h1, if_false, List.nil_append]
      have hz : b - a = 0 := by omega
      rw [sliceFrom_empty_of_le (by omega), hz]; rfl
    · have hb' : b ∈ boundariesFrom (o + c.w) s := by
        rcases hb with h | h
        · exact absurd h hbo
        · exact h
      have hbge := boundaries_ge hb'
      by_cases hao : a = o
      · have h1 : a ≤ o ∧ o < b := by omega
        simp only [h1, and_self, if_true, List.singleton_append, byteLen]
        -- the rest of the slice: from the next boundary
        have hrest : sliceFrom (o + c.w) s a b = sliceFrom (o + c.w) s (o + c.w) b :=
          sliceFrom_lower (by omega) (Nat.le_refl _)
        rw [hrest, ih (o := o + c.w) (a := o + c.w) (Nat.le_refl _) (boundaries_head _ _) hb' hbge]
        omega
      · have ha' : a ∈ boundariesFrom (o + c.w) s := by
          rcases ha with h | h
          · exact absurd h hao
          · exact h
        have hage := boundaries_ge ha'
        have h1 : ¬ (a ≤ o ∧ o < b) := by omega
        simp only [h1, if_false, List.nil_append]
        exact ih hage ha' hb' hab

/-! ### the scanning tokenizers -/

theorem scanAux_spec (p : Cp → Bool) (s : Text) : ∀ (cur : Option Nat) (o pos : Nat),
    (∀ st, cur = some st → st ≤ o) →
    ∀ x ∈ scanAux p cur o pos s,
      (x.1 ∈ boundariesFrom o s ∨ cur = some x.1) ∧ x.2.1 ∈ boundariesFrom o s ∧ x.1 ≤ x.2.1
        ∧ pos ≤ x.2.2 ∧ (cur = none → o ≤ x.1) := by
  induction s with
  | nil =>
    intro cur o pos hcur x hx
    cases cur with
    | none => simp [scanAux] at hx
    | some st =>
      simp only [scanAux, List.mem_singleton] at hx
      subst hx
      have := hcur st rfl
      simp [boundariesFrom]; omega
  | cons c s ih =>
    intro cur o pos hcur x hx
    cases cur with
    | none =>
      simp only [scanAux] at hx
      split at hx
      · have h := ih (some o) (o + c.w) pos (by intro st h; cases h; omega) x hx
        obtain ⟨h1, h2, h3, h4, _⟩ := h
        refine ⟨?_, boundaries_tail h2, h3, h4, ?_⟩
        · rcases h1 with h1 | h1
          · left; exact boundaries_tail h1
          · cases h1; left; exact boundaries_head _ _
        · intro _
          rcases h1 with h1 | h1
          · have := boundaries_ge h1; omega
          · cases h1; omega
      · have h := ih none (o + c.w) pos (by intro st h; cases h) x hx
        obtain ⟨h1, h2, h3, h4, h5⟩ := h
        refine ⟨?_, boundaries_tail h2, h3, h4, ?_⟩
        · rcases h1 with h1 | h1
          · left; exact boundaries_tail h1
          · cases h1
        · intro _; have := h5 rfl; omega
    | some st =>
      have hst := hcur st rfl
      simp only [scanAux] at hx
      split at hx
      · have h := ih (some st) (o + c.w) pos (by intro st' h; cases h; omega) x hx
        obtain ⟨h1, h2, h3, h4, _⟩ := h
        refine ⟨?_, boundaries_tail h2, h3, h4, by intro h; cases h⟩
        rcases h1 with h1 | h1
        · left; exact boundaries_tail h1
        · right; exact h1
      · simp only [List.mem_cons] at hx
        rcases hx with hx | hx
        · subst hx
          exact ⟨Or.inr rfl, boundaries_head _ _, hst, Nat.le_refl _, by intro h; cases h⟩
        · have h := ih none (o + c.w) (pos + 1) (by intro st' h; cases h) x hx
          obtain ⟨h1, h2, h3, h4, _⟩ := h
          refine ⟨?_, boundaries_tail h2, h3, by omega, by intro h; cases h⟩
          rcases h1 with h1 | h1
          · left; exact boundaries_tail h1
          · cases h1

theorem scanAux_pairwise (p : Cp → Bool) (s : Text) : ∀ (cur : Option Nat) (o pos : Nat),
    (∀ st, cur = some st → st ≤ o) →
    (scanAux p cur o pos s).Pairwise (fun a b => a.2.1 ≤ b.1 ∧ a.2.2 < b.2.2) := by
  induction s with
  | nil =>
    intro cur o pos _
    cases cur <;> simp [scanAux]
  | cons c s ih =>
    intro cur o pos hcur
    cases cur with
    | none =>
      simp only [scanAux]
      split
      · exact ih _ _ _ (by intro st h; cases h; omega)
      · exact ih _ _ _ (by intro st h; cases h)
    | some st =>
      have hst := hcur st rfl
      simp only [scanAux]
      split
      · exact ih _ _ _ (by intro st' h; cases h; omega)
      · rw [List.pairwise_cons]
        refine ⟨?_, ih _ _ _ (by intro st' h; cases h)⟩
        intro b hb
        have h := scanAux_spec p s none (o + c.w) (pos + 1) (by intro st' h; cases h) b hb
        obtain ⟨_, _, _, h4, h5⟩ := h
        have := h5 rfl
        have := c.w_pos
        constructor <;> simp only <;> omega

/-- contract + slice property of any scanning tokenizer -/
theorem scanTokens_contract (p : Cp → Bool) (s : Text) :
    Contract s (scanTokens p s) ∧ (∀ t ∈ scanTokens p s, TextIsSlice s t) ∧
    (scanTokens p s).Pairwise (fun a b => a.to ≤ b.from_ ∧ a.pos < b.pos) := by
  have hcur : ∀ st, (none : Option Nat) = some st → st ≤ 0 := by intro st h; cases h
  refine ⟨⟨?_, ?_⟩, ?_, ?_⟩
  · intro t ht
    simp only [scanTokens, List.mem_map] at ht
    obtain ⟨x, hx, rfl⟩ := ht
    obtain ⟨h1, h2, h3, _, _⟩ := scanAux_spec p s none 0 0 hcur x hx
    have h1' : x.1 ∈ boundariesFrom 0 s := by
      rcases h1 with h | h
      · exact h
      · cases h
    have := boundaries_le h2
    exact ⟨h3, by simpa [mkToken] using this, h1', h2⟩
  · have := scanAux_pairwise p s none 0 0 hcur
    simp only [scanTokens, List.pairwise_map]
    refine this.imp_of_mem ?_
    intro a b ha _ hab
    obtain ⟨_, _, h3, _, _⟩ := scanAux_spec p s none 0 0 hcur a ha
    simp only [mkToken]
    omega
  · intro t ht
    simp only [scanTokens, List.mem_map] at ht
    obtain ⟨x, _, rfl⟩ := ht
    rfl
  · have := scanAux_pairwise p s none 0 0 hcur
    simp only [scanTokens, List.pairwise_map]
    exact this.imp (fun h => by simpa [mkToken] using h)

/-! ### regex -/

/-- contract on the matcher (`regex` crate on `&str`): every reported match lies in the remaining
text, is ordered, and on character boundaries of the whole text once shifted by the cursor -/
def RegexOk (s : Text) : Nat → List (Nat × Nat) → Prop
  | _, [] => True
  | cursor, (a, b) :: ms =>
    a ≤ b ∧ IsBoundary s (cursor + a) ∧ IsBoundary s (cursor + b) ∧ (a < b → RegexOk s (cursor + b) ms)

theorem regexAux_spec (s : Text) : ∀ (ms : List (Nat × Nat)) (cursor pos : Nat),
    RegexOk s cursor ms →
    (∀ x ∈ regexAux cursor pos ms, x.1 ≤ x.2.1 ∧ IsBoundary s x.1 ∧ IsBoundary s x.2.1
      ∧ cursor ≤ x.1 ∧ pos ≤ x.2.2) ∧
    (regexAux cursor pos ms).Pairwise (fun a b => a.2.1 ≤ b.1 ∧ a.2.2 < b.2.2) := by
  intro ms
  induction ms with
  | nil => intro cursor pos _; simp [regexAux]
  | cons m ms ih =>
    intro cursor pos hok
    obtain ⟨a, b⟩ := m
    simp only [RegexOk] at hok
    obtain ⟨hab, hba, hbb, hrest⟩ := hok
    simp only [regexAux]
    split
    · simp
    · have hlt : a < b := by omega
      obtain ⟨ih1, ih2⟩ := ih (cursor + b) (pos + 1) (hrest hlt)
      constructor
      · intro x hx
        simp only [List.mem_cons] at hx
        rcases hx with hx | hx
        · subst hx; exact ⟨by simp; omega, hba, hbb, by simp, by simp⟩
        · obtain ⟨h1, h2, h3, h4, h5⟩ := ih1 x hx
          exact ⟨h1, h2, h3, by omega, by omega⟩
      · rw [List.pairwise_cons]
        refine ⟨?_, ih2⟩
        intro x hx
        obtain ⟨_, _, _, h4, h5⟩ := ih1 x hx
        constructor <;> simp only <;> omega

/-! ### facet -/

theorem facetCuts_boundary (sep : Nat) (s : Text) : ∀ (first : Bool) (o : Nat),
    ∀ p ∈ facetCuts sep first o s, p ∈ boundariesFrom o s := by
  induction s with
  | nil => intro first o p hp; simpa [facetCuts, boundariesFrom] using hp
  | cons c s ih =>
    intro first o p hp
    simp only [facetCuts, List.mem_append] at hp
    rcases hp with hp | hp
    · split at hp
      · simp only [List.mem_singleton] at hp; subst hp; exact boundaries_head _ _
      · simp at hp
    · exact boundaries_tail (ih false (o + c.w) p hp)

/-! ### filters -/

theorem onToken_offsets (f : Filter) (t : Token) :
    ∀ t' ∈ f.onToken t, t'.from_ = t.from_ ∧ t'.to = t.to ∧ t'.pos = t.pos := by
  intro t' h
  cases f with
  | lower g => simp only [Filter.onToken, List.mem_singleton] at h; subst h; simp
  | fold g => simp only [Filter.onToken, List.mem_singleton] at h; subst h; simp
  | removeLong l =>
    simp only [Filter.onToken] at h
    split at h
    · simp only [List.mem_singleton] at h; subst h; simp
    · simp at h
  | alnumOnly =>
    simp only [Filter.onToken] at h
    split at h
    · simp only [List.mem_singleton] at h; subst h; simp
    · simp at h
  | stop ws =>
    simp only [Filter.onToken] at h
    split at h
    · simp at h
    · simp only [List.mem_singleton] at h; subst h; simp
  | stem g => simp only [Filter.onToken, List.mem_singleton] at h; subst h; simp
  | split g =>
    simp only [Filter.onToken] at h
    split at h
    · simp only [List.mem_map] at h
      obtain ⟨q, _, rfl⟩ := h
      simp
    · simp only [List.mem_singleton] at h; subst h; simp

theorem pairwise_of_forall_mem {α : Type} {R : α → α → Prop} :
    ∀ l : List α, (∀ x ∈ l, ∀ y ∈ l, R x y) → l.Pairwise R := by
  intro l
  induction l with
  | nil => intro _; exact List.Pairwise.nil
  | cons a l ih =>
    intro h
    rw [List.pairwise_cons]
    exact ⟨fun y hy => h a (List.mem_cons_self) y (List.mem_cons_of_mem _ hy),
      ih (fun x hx y hy => h x (List.mem_cons_of_mem _ hx) y (List.mem_cons_of_mem _ hy))⟩

/-- dropping, rewriting or repeating tokens keeps `offset_from` and `position` non-decreasing -/
theorem apply_mono (f : Filter) : ∀ ts : List Token,
    ts.Pairwise (fun a b => a.from_ ≤ b.from_ ∧ a.pos ≤ b.pos) →
    (f.apply ts).Pairwise (fun a b => a.from_ ≤ b.from_ ∧ a.pos ≤ b.pos) := by
  intro ts
  induction ts with
  | nil => intro _; simp [Filter.apply]
  | cons a l ih =>
    intro h
    rw [List.pairwise_cons] at h
    obtain ⟨h1, h2⟩ := h
    simp only [Filter.apply, List.flatMap_cons]
    rw [List.pairwise_append]
    refine ⟨?_, ih h2, ?_⟩
    · apply pairwise_of_forall_mem
      intro x hx y hy
      obtain ⟨e1, _, e3⟩ := onToken_offsets f a x hx
      obtain ⟨e1', _, e3'⟩ := onToken_offsets f a y hy
      omega
    · intro x hx y hy
      simp only [List.mem_flatMap] at hy
      obtain ⟨b, hb, hy⟩ := hy
      obtain ⟨e1, _, e3⟩ := onToken_offsets f a x hx
      obtain ⟨e1', _, e3'⟩ := onToken_offsets f b y hy
      have := h1 b hb
      omega

theorem apply_contract (f : Filter) (s : Text) (ts : List Token) (h : Contract s ts) :
    Contract s (f.apply ts) := by
  refine ⟨?_, apply_mono f ts h.mono⟩
  intro t' ht'
  simp only [Filter.apply, List.mem_flatMap] at ht'
  obtain ⟨t, ht, ht'⟩ := ht'
  obtain ⟨e1, e2, _⟩ := onToken_offsets f t t' ht'
  rw [e1, e2]
  exact h.inb t ht

end TantivyModel.Tok

namespace TantivyModel.Tok

/-! ### FacetTokenizer: the threaded-buffer model with no filters is the plain tokenizer -/

theorem facetCuts_ge (sep : Nat) (s : Text) (first : Bool) (o : Nat) :
    ∀ p ∈ facetCuts sep first o s, o ≤ p :=
  fun p hp => boundaries_ge (facetCuts_boundary sep s first o p hp)

theorem facetCuts_sorted (sep : Nat) (s : Text) : ∀ (first : Bool) (o : Nat),
    (facetCuts sep first o s).Pairwise (· ≤ ·) := by
  induction s with
  | nil => intro first o; simp [facetCuts]
  | cons c s ih =>
    intro first o
    simp only [facetCuts]
    rw [List.pairwise_append]
    refine ⟨by split <;> simp, ih false (o + c.w), ?_⟩
    intro a ha b hb
    split at ha
    · simp only [List.mem_singleton] at ha; subst ha
      have := facetCuts_ge sep s false (a + c.w) b hb; omega
    · simp at ha

/-- appending the segments between consecutive cuts rebuilds the prefixes -/
theorem facetChainAux_nil (s : Text) : ∀ (cs : List Nat) (a : Nat),
    (∀ c ∈ cs, a ≤ c) → cs.Pairwise (· ≤ ·) →
    facetChainAux [] ((sliceFrom 0 s 0 a).map Cp.code) (facetPiecesAux s a cs)
      = cs.map (fun p => (sliceFrom 0 s 0 p).map Cp.code) := by
  intro cs
  induction cs with
  | nil => intro a _ _; rfl
  | cons c cs ih =>
    intro a ha hp
    rw [List.pairwise_cons] at hp
    have hac := ha c List.mem_cons_self
    have e : (sliceFrom 0 s 0 a).map Cp.code ++ (sliceFrom 0 s a c).map Cp.code
        = (sliceFrom 0 s 0 c).map Cp.code := by
      rw [← List.map_append, sliceFrom_append (Nat.zero_le a) hac]
    simp only [facetPiecesAux, facetChainAux, facetThrough, e, List.map_cons, List.singleton_append]
    rw [ih c hp.1 hp.2]

/-- `FacetTokenizer` under the empty filter chain (the threaded-buffer model `facetChain`) is the
plain `facetTokens` -/
theorem facetChain_nil (sep : Nat) (s : Text) : facetChain sep [] s = facetTokens sep s := by
  unfold facetChain facetTokens facetPieces
  by_cases hs : s.isEmpty
  · simp [hs, facetChainAux, facetThrough]
  · simp only [hs, Bool.false_eq_true, if_false, facetChainAux, facetThrough, List.append_nil,
      List.nil_append, List.map_cons, List.singleton_append]
    congr 1
    have h0 : ([] : List Nat) = (sliceFrom 0 s 0 0).map Cp.code := by
      rw [sliceFrom_empty_of_le (Nat.le_refl 0)]; rfl
    rw [h0, facetChainAux_nil s _ 0 (fun c _ => Nat.zero_le c) (facetCuts_sorted sep s true 0),
      List.map_map]
    rfl

end TantivyModel.Tok
