import TantivyModel.Proofs.ReaderPub
/-!
The reload mutex: mutual exclusion of the mutex + the local shape of `reload()` (take the guard,
load, publish, drop the guard) give the global hypothesis `sequential ρ` of the monotonicity
theorem.
-/
namespace TantivyModel.Reader

/-- a published reload stays published under every event the storage discipline allows -/
theorem published_stable (s : St) (e : Ev) (r : Rid) (hp : (s.rs r).phase = .published)
    (hok : ok full s e = true) : ((step s e).rs r).phase = .published := by
  cases e with
  | acquire r' =>
    have hne : r ≠ r' := by
      intro h; subst h
      simp only [ok, Bool.and_eq_true, decide_eq_true_eq] at hok
      rw [hp] at hok; exact absurd hok.2 (by decide)
    simp [step, upd, hne, hp]
  | loadMeta r' =>
    have hne : r ≠ r' := by
      intro h; subst h
      simp [ok, full, hp] at hok
    simp [step, upd, hne, hp]
  | openFile r' p =>
    have hne : r ≠ r' := by
      intro h; subst h
      simp [ok, hp] at hok
    simp only [step]
    split <;> simp [upd, hne, hp]
  | release r' =>
    have hne : r ≠ r' := by
      intro h; subst h
      simp [ok, full, hp] at hok
    simp [step, upd, hne, hp]
  | warm r' =>
    by_cases hne : r = r'
    · subst hne; simp [step, upd, hp]
    · simp [step, upd, hne, hp]
  | publish r' =>
    simp only [step]
    split
    · by_cases hne : r = r'
      · subst hne; simp [upd]
      · simp [upd, hne, hp]
    · exact hp
  | create p b => exact hp
  | saveMeta f => exact hp
  | gcAcquire => exact hp
  | gcList l => exact hp
  | gcRelease => exact hp
  | gcDelete p => exact hp
  | mLock r' => exact hp
  | mUnlock r' => exact hp

/-- membership in `started` changes only by `acquire` -/
theorem started_step (s : St) (e : Ev) (x : Rid) (h : x ∈ (step s e).started) :
    x ∈ s.started ∨ e = .acquire x := by
  cases e with
  | acquire r =>
    simp only [step, List.mem_cons] at h
    rcases h with h | h
    · right; rw [h]
    · left; exact h
  | openFile r p => left; simp only [step] at h; split at h <;> exact h
  | publish r => left; simp only [step] at h; split at h <;> exact h
  | loadMeta r => left; exact h
  | release r => left; exact h
  | warm r => left; exact h
  | create p b => left; exact h
  | saveMeta f => left; exact h
  | gcAcquire => left; exact h
  | gcList l => left; exact h
  | gcRelease => left; exact h
  | gcDelete p => left; exact h
  | mLock r => left; exact h
  | mUnlock r => left; exact h

/-- the mutex of reader `ρ` changes only by `mLock` / `mUnlock` of a reload of `ρ` -/
theorem mutex_step (ρ : Nat) (s : St) (e : Ev) :
    (step s e).mutex ρ = s.mutex ρ ∨
    (∃ r, e = .mLock r ∧ r.1 = ρ ∧ (step s e).mutex ρ = some r) ∨
    (∃ r, e = .mUnlock r ∧ r.1 = ρ ∧ (step s e).mutex ρ = none) := by
  cases e with
  | mLock r =>
    by_cases h : ρ = r.1
    · right; left; exact ⟨r, rfl, h.symm, by simp [step, h]⟩
    · left; simp [step, h]
  | mUnlock r =>
    by_cases h : ρ = r.1
    · right; right; exact ⟨r, rfl, h.symm, by simp [step, h]⟩
    · left; simp [step, h]
  | openFile r p => left; simp only [step]; split <;> rfl
  | publish r => left; simp only [step]; split <;> rfl
  | acquire r => left; rfl
  | loadMeta r => left; rfl
  | release r => left; rfl
  | warm r => left; rfl
  | create p b => left; rfl
  | saveMeta f => left; rfl
  | gcAcquire => left; rfl
  | gcList l => left; rfl
  | gcRelease => left; rfl
  | gcDelete p => left; rfl

/-- a reload never returns to `idle` -/
theorem not_idle_step (s : St) (e : Ev) (x : Rid) (hp : (s.rs x).phase ≠ .idle)
    (hok : ok full s e = true) : ((step s e).rs x).phase ≠ .idle := by
  cases e with
  | acquire r =>
    have hne : x ≠ r := by
      intro h; subst h
      simp only [ok, Bool.and_eq_true, decide_eq_true_eq] at hok
      exact hp hok.2
    simp [step, upd, hne, hp]
  | loadMeta r => by_cases h : x = r <;> simp [step, upd, h, hp]
  | openFile r p =>
    simp only [step]
    split <;> (by_cases h : x = r <;> simp [upd, h, hp] <;> (subst h; exact hp))
  | release r => by_cases h : x = r <;> simp [step, upd, h, hp]
  | warm r => by_cases h : x = r <;> simp [step, upd, h, hp] <;> (subst h; exact hp)
  | publish r =>
    simp only [step]
    split
    · by_cases h : x = r <;> simp [upd, h, hp]
    · exact hp
  | create p b => exact hp
  | saveMeta f => exact hp
  | gcAcquire => exact hp
  | gcList l => exact hp
  | gcRelease => exact hp
  | gcDelete p => exact hp
  | mLock r => exact hp
  | mUnlock r => exact hp

structure MutexInv (ρ : Nat) (s : St) : Prop where
  /-- every started reload of `ρ` other than the holder of `ρ`'s mutex has published -/
  others : ∀ r', r' ∈ s.started → r'.1 = ρ → s.mutex ρ ≠ some r' → (s.rs r').phase = .published
  notIdle : ∀ r, r ∈ s.started → (s.rs r).phase ≠ .idle

theorem mutexInv_init (ρ : Nat) : MutexInv ρ init := by
  constructor <;> (intro r h; simp [init] at h)

/-- the step-wise content: under the mutex discipline `acquire` satisfies `seqOk` -/
theorem seqOk_of_mutex (ρ : Nat) (s : St) (e : Ev) (hM : MutexInv ρ s)
    (hok : ok full s e = true) (hq : mutexOk ρ s e = true) : seqOk ρ s e = true := by
  cases e with
  | acquire r =>
    simp only [seqOk, Bool.or_eq_true, bne_iff_ne, ne_eq, List.all_eq_true, decide_eq_true_eq]
    by_cases hr : r.1 = ρ
    · right
      intro r' hm
      by_cases hr' : r'.1 = ρ
      · right
        simp only [mutexOk, Bool.or_eq_true, bne_iff_ne, ne_eq, decide_eq_true_eq] at hq
        have hmx : s.mutex ρ = some r := by
          rcases hq with hq | hq
          · exact absurd hr hq
          · exact hq
        apply hM.others r' hm hr'
        rw [hmx]
        intro h
        have h' : r = r' := Option.some.inj h
        subst h'
        simp only [ok, Bool.and_eq_true, decide_eq_true_eq] at hok
        exact hM.notIdle r hm hok.2
      · left; exact hr'
    · left; exact hr
  | loadMeta r => rfl
  | openFile r p => rfl
  | release r => rfl
  | warm r => rfl
  | publish r => rfl
  | create p b => rfl
  | saveMeta f => rfl
  | gcAcquire => rfl
  | gcList l => rfl
  | gcRelease => rfl
  | gcDelete p => rfl
  | mLock r => rfl
  | mUnlock r => rfl

theorem rs_mutex_events (s : St) (e : Ev) (h : (∃ r, e = .mLock r) ∨ (∃ r, e = .mUnlock r)) :
    (step s e).rs = s.rs := by
  rcases h with ⟨r, h⟩ | ⟨r, h⟩ <;> subst h <;> rfl

theorem mutexInv_step (ρ : Nat) (s : St) (e : Ev) (hM : MutexInv ρ s)
    (hok : ok full s e = true) (hq : mutexOk ρ s e = true) : MutexInv ρ (step s e) := by
  refine ⟨?_, ?_⟩
  · intro r' hst hr' hmx
    rcases started_step s e r' hst with hold | hacq
    · rcases mutex_step ρ s e with hsame | ⟨r, he, hr, hnew⟩ | ⟨r, he, hr, hnew⟩
      · rw [hsame] at hmx
        exact published_stable s e r' (hM.others r' hold hr' hmx) hok
      · subst he
        simp only [mutexOk, Bool.or_eq_true, bne_iff_ne, ne_eq, Bool.and_eq_true,
          decide_eq_true_eq] at hq
        have hnone : s.mutex ρ = none := by
          rcases hq with hq | hq
          · exact absurd hr hq
          · exact hq.1
        have := hM.others r' hold hr' (by rw [hnone]; simp)
        exact this
      · subst he
        simp only [mutexOk, Bool.or_eq_true, bne_iff_ne, ne_eq, Bool.and_eq_true,
          decide_eq_true_eq] at hq
        have hh : s.mutex ρ = some r ∧ (s.rs r).phase = .published := by
          rcases hq with hq | hq
          · exact absurd hr hq
          · exact hq
        by_cases hrr : r' = r
        · subst hrr; exact hh.2
        · have := hM.others r' hold hr' (by rw [hh.1]; intro h; exact hrr (Option.some.inj h).symm)
          exact this
    · subst hacq
      exfalso
      simp only [mutexOk, Bool.or_eq_true, bne_iff_ne, ne_eq, decide_eq_true_eq] at hq
      have hmx0 : s.mutex ρ = some r' := by
        rcases hq with hq | hq
        · exact absurd hr' hq
        · exact hq
      exact hmx hmx0
  · intro r hst
    rcases started_step s e r hst with hold | hacq
    · exact not_idle_step s e r (hM.notIdle r hold) hok
    · subst hacq; simp [step, upd]

theorem seq_of_mutex_run (ρ : Nat) (s : St) (t : List Ev) (hM : MutexInv ρ s)
    (hv : validFrom full s t = true) (hq : check (mutexOk ρ) s t = true) :
    check (seqOk ρ) s t = true := by
  induction t generalizing s with
  | nil => rfl
  | cons e t ih =>
    simp only [validFrom, check, Bool.and_eq_true] at hv hq ⊢
    exact ⟨seqOk_of_mutex ρ s e hM hv.1 hq.1,
      ih (step s e) (mutexInv_step ρ s e hM hv.1 hq.1) hv.2 hq.2⟩

/-- mutual exclusion of the reload mutex + the shape of `reload()` ⟹ the reloads of the reader
do not overlap -/
theorem sequential_of_mutex (ρ : Nat) (t : List Ev) (hv : valid full t = true)
    (hq : mutexDisciplined ρ t = true) : sequential ρ t = true :=
  seq_of_mutex_run ρ init t (mutexInv_init ρ) hv hq

end TantivyModel.Reader
