import TantivyModel.Model.Snippet
import TantivyModel.Proofs.Tokenizer
/-! helper lemmas for C19: collapse_overlapped_ranges, search_fragments, to_html -/
namespace TantivyModel.Snip
open TantivyModel.Tok

/-- `x` lies in the half-open range `r` -/
def In (r : Nat × Nat) (x : Nat) : Prop := r.1 ≤ x ∧ x < r.2

/-- covered by one of the ranges -/
def Covered (l : List (Nat × Nat)) (x : Nat) : Prop := ∃ r ∈ l, In r x

/-! ### sort + dedup -/

def RLe (a b : Nat × Nat) : Prop := a.1 < b.1 ∨ (a.1 = b.1 ∧ a.2 ≤ b.2)

theorem rle_iff (a b : Nat × Nat) : rle a b = true ↔ RLe a b := by
  simp [rle, RLe]

theorem mem_insertR (x y : Nat × Nat) (l : List (Nat × Nat)) : y ∈ insertR x l ↔ y = x ∨ y ∈ l := by
  induction l with
  | nil => simp [insertR]
  | cons z zs ih =>
    simp only [insertR]
    split
    · simp
    · simp only [List.mem_cons, ih]
      constructor
      · rintro (h | h | h) <;> simp [h]
      · rintro (h | h | h) <;> simp [h]

theorem mem_sortR (y : Nat × Nat) (l : List (Nat × Nat)) : y ∈ sortR l ↔ y ∈ l := by
  induction l with
  | nil => simp [sortR]
  | cons z zs ih =>
    have : sortR (z :: zs) = insertR z (sortR zs) := rfl
    rw [this, mem_insertR, ih]; simp

theorem insertR_sorted (x : Nat × Nat) (l : List (Nat × Nat)) (h : l.Pairwise RLe) :
    (insertR x l).Pairwise RLe := by
  induction l with
  | nil => simp [insertR]
  | cons y ys ih =>
    rw [List.pairwise_cons] at h
    obtain ⟨h1, h2⟩ := h
    simp only [insertR]
    split
    · rename_i hxy
      rw [rle_iff] at hxy
      rw [List.pairwise_cons]
      refine ⟨?_, List.pairwise_cons.mpr ⟨h1, h2⟩⟩
      intro z hz
      simp only [List.mem_cons] at hz
      rcases hz with hz | hz
      · subst hz; exact hxy
      · have := h1 z hz
        unfold RLe at *; omega
    · rename_i hxy
      rw [rle_iff] at hxy
      rw [List.pairwise_cons]
      refine ⟨?_, ih h2⟩
      intro z hz
      rw [mem_insertR] at hz
      rcases hz with hz | hz
      · subst hz; unfold RLe at *; omega
      · exact h1 z hz

theorem sortR_sorted (l : List (Nat × Nat)) : (sortR l).Pairwise RLe := by
  induction l with
  | nil => simp [sortR]
  | cons z zs ih => exact insertR_sorted z _ ih

theorem dedupR_sublist : ∀ l : List (Nat × Nat), (dedupR l).Sublist l
  | [] => by simp [dedupR]
  | [x] => by simp [dedupR]
  | x :: y :: r => by
    simp only [dedupR]
    split
    · exact (dedupR_sublist (y :: r)).cons x
    · exact (dedupR_sublist (y :: r)).cons₂ x

theorem mem_dedupR : ∀ (l : List (Nat × Nat)) (z : Nat × Nat), z ∈ dedupR l ↔ z ∈ l
  | [], z => by simp [dedupR]
  | [x], z => by simp [dedupR]
  | x :: y :: r, z => by
    simp only [dedupR]
    split
    · rename_i h
      subst h
      rw [mem_dedupR (x :: r) z]; simp
    · simp only [List.mem_cons, mem_dedupR (y :: r) z]

/-! ### merge -/

theorem mergeAux_cover : ∀ (rs : List (Nat × Nat)) (cur : Nat × Nat),
    (∀ r ∈ rs, cur.1 ≤ r.1) → rs.Pairwise (fun a b => a.1 ≤ b.1) →
    ∀ x, Covered (mergeAux cur rs) x ↔ (In cur x ∨ Covered rs x) := by
  intro rs
  induction rs with
  | nil => intro cur _ _ x; simp [mergeAux, Covered]
  | cons r rs ih =>
    intro cur hcur hs x
    rw [List.pairwise_cons] at hs
    obtain ⟨hs1, hs2⟩ := hs
    have hcr := hcur r List.mem_cons_self
    simp only [mergeAux]
    split
    · rename_i hov
      rw [ih (cur.1, max cur.2 r.2) (fun r' hr' => hcur r' (List.mem_cons_of_mem _ hr')) hs2 x]
      simp only [Covered, List.mem_cons, exists_eq_or_imp, In]
      constructor
      · rintro (h | h)
        · by_cases hx : x < cur.2
          · left; omega
          · right; left; omega
        · right; right; exact h
      · rintro (h | h | h)
        · left; omega
        · left; omega
        · right; exact h
    · have := ih r hs1 hs2 x
      simp only [Covered, List.mem_cons, exists_eq_or_imp] at *
      rw [this]

theorem mergeAux_disjoint : ∀ (rs : List (Nat × Nat)) (cur : Nat × Nat),
    cur.1 ≤ cur.2 → (∀ r ∈ rs, r.1 ≤ r.2 ∧ cur.1 ≤ r.1) → rs.Pairwise (fun a b => a.1 ≤ b.1) →
    (∀ o ∈ mergeAux cur rs, o.1 ≤ o.2 ∧ cur.1 ≤ o.1) ∧
    (mergeAux cur rs).Pairwise (fun a b => a.2 ≤ b.1) := by
  intro rs
  induction rs with
  | nil => intro cur h _ _; simp [mergeAux]; omega
  | cons r rs ih =>
    intro cur hc hcur hs
    rw [List.pairwise_cons] at hs
    obtain ⟨hs1, hs2⟩ := hs
    obtain ⟨hr, hcr⟩ := hcur r List.mem_cons_self
    simp only [mergeAux]
    split
    · have := ih (cur.1, max cur.2 r.2) (by simp only; omega)
        (fun r' hr' => by have := hcur r' (List.mem_cons_of_mem _ hr'); simpa using this) hs2
      simpa using this
    · rename_i hno
      obtain ⟨i1, i2⟩ := ih r hr (fun r' hr' => ⟨(hcur r' (List.mem_cons_of_mem _ hr')).1, hs1 r' hr'⟩) hs2
      constructor
      · intro o ho
        simp only [List.mem_cons] at ho
        rcases ho with ho | ho
        · subst ho; omega
        · have := i1 o ho; omega
      · rw [List.pairwise_cons]
        refine ⟨?_, i2⟩
        intro o ho
        have := i1 o ho; omega

/-- every endpoint of a merged range is an endpoint of an input range -/
theorem mergeAux_endpoints : ∀ (rs : List (Nat × Nat)) (cur : Nat × Nat),
    ∀ o ∈ mergeAux cur rs, (∃ r ∈ cur :: rs, o.1 = r.1) ∧ (∃ r ∈ cur :: rs, o.2 = r.2) := by
  intro rs
  induction rs with
  | nil => intro cur o ho; simp [mergeAux] at ho; subst ho; simp
  | cons r rs ih =>
    intro cur o ho
    simp only [mergeAux] at ho
    split at ho
    · obtain ⟨⟨a, ha, ea⟩, ⟨b, hb, eb⟩⟩ := ih _ o ho
      constructor
      · simp only [List.mem_cons] at ha
        rcases ha with ha | ha
        · subst ha; exact ⟨cur, by simp, ea⟩
        · exact ⟨a, by simp [ha], ea⟩
      · simp only [List.mem_cons] at hb
        rcases hb with hb | hb
        · subst hb
          simp only at eb
          by_cases hm : cur.2 ≤ r.2
          · exact ⟨r, by simp, by rw [eb]; omega⟩
          · exact ⟨cur, by simp, by rw [eb]; omega⟩
        · exact ⟨b, by simp [hb], eb⟩
    · simp only [List.mem_cons] at ho
      rcases ho with ho | ho
      · subst ho; exact ⟨⟨o, by simp, rfl⟩, ⟨o, by simp, rfl⟩⟩
      · obtain ⟨⟨a, ha, ea⟩, ⟨b, hb, eb⟩⟩ := ih _ o ho
        exact ⟨⟨a, List.mem_cons_of_mem _ ha, ea⟩, ⟨b, List.mem_cons_of_mem _ hb, eb⟩⟩

theorem prepared_sorted (l : List (Nat × Nat)) :
    (dedupR (sortR l)).Pairwise (fun a b => a.1 ≤ b.1) := by
  have h := (sortR_sorted l).sublist (dedupR_sublist (sortR l))
  exact h.imp (fun h => by unfold RLe at h; omega)

theorem mem_prepared (l : List (Nat × Nat)) (z : Nat × Nat) : z ∈ dedupR (sortR l) ↔ z ∈ l := by
  rw [mem_dedupR, mem_sortR]

theorem collapse_cover (l : List (Nat × Nat)) (x : Nat) : Covered (collapse l) x ↔ Covered l x := by
  unfold collapse
  have hs := prepared_sorted l
  have hm := mem_prepared l
  generalize dedupR (sortR l) = p at *
  have hc : Covered p x ↔ Covered l x := by
    simp only [Covered]; constructor
    · rintro ⟨r, hr, h⟩; exact ⟨r, (hm r).mp hr, h⟩
    · rintro ⟨r, hr, h⟩; exact ⟨r, (hm r).mpr hr, h⟩
  rw [← hc]
  cases p with
  | nil => simp [mergeOverlapping]
  | cons r rs =>
    rw [List.pairwise_cons] at hs
    simp only [mergeOverlapping]
    rw [mergeAux_cover rs r hs.1 hs.2 x]
    simp [Covered]

theorem collapse_disjoint (l : List (Nat × Nat)) (hwf : ∀ r ∈ l, r.1 ≤ r.2) :
    (∀ o ∈ collapse l, o.1 ≤ o.2) ∧ (collapse l).Pairwise (fun a b => a.2 ≤ b.1) := by
  unfold collapse
  have hs := prepared_sorted l
  have hm := mem_prepared l
  generalize dedupR (sortR l) = p at *
  cases p with
  | nil => simp [mergeOverlapping]
  | cons r rs =>
    rw [List.pairwise_cons] at hs
    simp only [mergeOverlapping]
    have hr := hwf r ((hm r).mp List.mem_cons_self)
    obtain ⟨h1, h2⟩ := mergeAux_disjoint rs r hr
      (fun r' hr' => ⟨hwf r' ((hm r').mp (List.mem_cons_of_mem _ hr')), hs.1 r' hr'⟩) hs.2
    exact ⟨fun o ho => (h1 o ho).1, h2⟩

theorem collapse_endpoints (l : List (Nat × Nat)) :
    ∀ o ∈ collapse l, (∃ r ∈ l, o.1 = r.1) ∧ (∃ r ∈ l, o.2 = r.2) := by
  unfold collapse
  have hm := mem_prepared l
  generalize dedupR (sortR l) = p at *
  cases p with
  | nil => simp [mergeOverlapping]
  | cons r rs =>
    intro o ho
    simp only [mergeOverlapping] at ho
    obtain ⟨⟨a, ha, ea⟩, ⟨b, hb, eb⟩⟩ := mergeAux_endpoints rs r o ho
    exact ⟨⟨a, (hm a).mp ha, ea⟩, ⟨b, (hm b).mp hb, eb⟩⟩

/-! ### search_fragments: a generic invariant rule -/

theorem searchAux_inv (mode M : Nat) (P : Frag → List STok → Prop)
    (hsafe : ∀ f t ts, P f (t :: ts) → ¬ t.to < f.start)
    (hadd : ∀ f t ts, P f (t :: ts) → ¬ (t.to - f.start > M) → P (f.add mode t) ts)
    (hcut : ∀ f t ts, P f (t :: ts) → t.to - f.start > M → P ((Frag.new t.from_).add mode t) ts) :
    ∀ ts f, P f ts → ∃ frags, searchAux mode M f ts = some frags ∧ ∀ g ∈ frags, ∃ rest, P g rest := by
  intro ts
  induction ts with
  | nil =>
    intro f hP
    refine ⟨emit f, rfl, ?_⟩
    intro g hg
    unfold emit at hg
    split at hg
    · simp only [List.mem_singleton] at hg; subst hg; exact ⟨[], hP⟩
    · simp at hg
  | cons t ts ih =>
    intro f hP
    simp only [searchAux]
    rw [if_neg (hsafe f t ts hP)]
    split
    · rename_i hc
      obtain ⟨frags, e, h⟩ := ih _ (hcut f t ts hP hc)
      refine ⟨emit f ++ frags, by rw [e]; rfl, ?_⟩
      intro g hg
      rw [List.mem_append] at hg
      rcases hg with hg | hg
      · unfold emit at hg
        split at hg
        · simp only [List.mem_singleton] at hg; subst hg; exact ⟨_, hP⟩
        · simp at hg
      · exact h g hg
    · rename_i hc
      exact ih _ (hadd f t ts hP hc)

/-- the same rule, remembering *why* each fragment was closed: end of the stream, or a token
that did not fit -/
theorem searchAux_inv' (mode M : Nat) (P : Frag → List STok → Prop)
    (hsafe : ∀ f t ts, P f (t :: ts) → ¬ t.to < f.start)
    (hadd : ∀ f t ts, P f (t :: ts) → ¬ (t.to - f.start > M) → P (f.add mode t) ts)
    (hcut : ∀ f t ts, P f (t :: ts) → t.to - f.start > M → P ((Frag.new t.from_).add mode t) ts) :
    ∀ ts f, P f ts → ∃ frags, searchAux mode M f ts = some frags ∧
      ∀ g ∈ frags, P g [] ∨ ∃ t rest, P g (t :: rest) ∧ t.to - g.start > M := by
  intro ts
  induction ts with
  | nil =>
    intro f hP
    refine ⟨emit f, rfl, ?_⟩
    intro g hg
    unfold emit at hg
    split at hg
    · simp only [List.mem_singleton] at hg; subst hg; exact Or.inl hP
    · simp at hg
  | cons t ts ih =>
    intro f hP
    simp only [searchAux]
    rw [if_neg (hsafe f t ts hP)]
    split
    · rename_i hc
      obtain ⟨frags, e, h⟩ := ih _ (hcut f t ts hP hc)
      refine ⟨emit f ++ frags, by rw [e]; rfl, ?_⟩
      intro g hg
      rw [List.mem_append] at hg
      rcases hg with hg | hg
      · unfold emit at hg
        split at hg
        · simp only [List.mem_singleton] at hg; subst hg; exact Or.inr ⟨t, ts, hP, hc⟩
        · simp at hg
      · exact h g hg
    · rename_i hc
      exact ih _ (hadd f t ts hP hc)

theorem selectBest_mem : ∀ (frags : List Frag) (f : Frag), selectBest frags = some f → f ∈ frags := by
  intro frags f h
  cases frags with
  | nil => simp [selectBest] at h
  | cons g gs =>
    simp only [selectBest, Option.some.injEq] at h
    subst h
    have : ∀ (l : List Frag) (x : Frag),
        l.foldl (fun x y => if better x y then x else y) x ∈ x :: l := by
      intro l
      induction l with
      | nil => intro x; simp
      | cons y ys ih =>
        intro x
        simp only [List.foldl_cons]
        by_cases hb : better x y = true
        · rw [if_pos hb]
          have := ih x
          simp only [List.mem_cons] at this ⊢
          rcases this with h | h
          · left; exact h
          · right; right; exact h
        · rw [if_neg hb]
          have := ih y
          simp only [List.mem_cons] at this ⊢
          rcases this with h | h
          · right; left; exact h
          · right; right; exact h
    exact this gs g

/-! ### to_html -/

theorem strip_append (a b : List Html) : strip (a ++ b) = strip a ++ strip b := by
  induction a with
  | nil => rfl
  | cons h t ih => cases h <;> simp [strip, ih]

theorem strip_escape (t : Text) : strip (escape t) = t.map Cp.code := by
  induction t with
  | nil => rfl
  | cons c t ih =>
    simp only [escape, List.map_cons] at *
    split <;> simp [strip, ih]

theorem raw_escape (t : Text) (c : Nat) (h : Html.raw c ∈ escape t) : isSpecial c = false := by
  simp only [escape, List.mem_map] at h
  obtain ⟨x, _, hx⟩ := h
  split at hx
  · cases hx
  · cases hx; simpa using ‹¬ isSpecial x.code = true›

theorem sliceB_some {s : Text} {a b : Nat} {t : Text} (h : sliceB s a b = some t) :
    a ≤ b ∧ IsBoundary s a ∧ IsBoundary s b ∧ t = sliceFrom 0 s a b := by
  unfold sliceB at h
  split at h
  · rename_i hc; cases h; exact ⟨hc.1, hc.2.1, hc.2.2, rfl⟩
  · cases h

theorem toHtmlAux_spec (frag : Text) : ∀ (hl : List (Nat × Nat)) (st : Nat) (out : List Html),
    toHtmlAux frag st hl = some out →
    strip out = (sliceFrom 0 frag st (byteLen frag)).map Cp.code ∧
    (∀ c, Html.raw c ∈ out → isSpecial c = false) := by
  intro hl
  induction hl with
  | nil =>
    intro st out h
    simp only [toHtmlAux, Option.map_eq_some_iff] at h
    obtain ⟨t, ht, rfl⟩ := h
    obtain ⟨_, _, _, rfl⟩ := sliceB_some ht
    exact ⟨strip_escape _, raw_escape _⟩
  | cons r rest ih =>
    intro st out h
    obtain ⟨a, b⟩ := r
    simp only [toHtmlAux] at h
    split at h
    · rename_i x y z hx hy hz
      cases h
      obtain ⟨h1, _, _, rfl⟩ := sliceB_some hx
      obtain ⟨h2, _, hb, rfl⟩ := sliceB_some hy
      obtain ⟨i1, i2⟩ := ih b z hz
      have hble := isBoundary_le hb
      constructor
      · simp only [strip_append, strip_escape, i1, strip, List.nil_append, List.append_nil]
        rw [← List.map_append, ← List.map_append, sliceFrom_append h1 h2,
          sliceFrom_append (by omega) hble]
      · intro c hc
        rw [List.mem_append, List.mem_append, List.mem_append, List.mem_append] at hc
        rcases hc with (((hc | hc) | hc) | hc) | hc
        · exact raw_escape _ c hc
        · simp at hc
        · exact raw_escape _ c hc
        · simp at hc
        · exact i2 c hc
    · cases h

/-- no slice of `to_html` panics when the ranges are ordered, disjoint and on boundaries -/
theorem toHtmlAux_some (frag : Text) : ∀ (hl : List (Nat × Nat)) (st : Nat),
    IsBoundary frag st →
    (∀ h ∈ hl, st ≤ h.1 ∧ h.1 ≤ h.2 ∧ IsBoundary frag h.1 ∧ IsBoundary frag h.2) →
    hl.Pairwise (fun a b => a.2 ≤ b.1) →
    ∃ out, toHtmlAux frag st hl = some out := by
  intro hl
  induction hl with
  | nil =>
    intro st hst _ _
    have hle := isBoundary_le hst
    simp [toHtmlAux, sliceB, hst, hle, isBoundary_len]
  | cons r rest ih =>
    intro st hst hall hp
    obtain ⟨a, b⟩ := r
    rw [List.pairwise_cons] at hp
    obtain ⟨h1, h2, h3, h4⟩ := hall (a, b) List.mem_cons_self
    simp only at h1 h2 h3 h4
    obtain ⟨z, hz⟩ := ih b h4 (fun h hh => by
      obtain ⟨_, q2, q3, q4⟩ := hall h (List.mem_cons_of_mem _ hh)
      exact ⟨hp.1 h hh, q2, q3, q4⟩) hp.2
    simp [toHtmlAux, sliceB, hst, h1, h2, h3, h4, hz]

end TantivyModel.Snip
