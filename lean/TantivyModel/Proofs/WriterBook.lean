import TantivyModel.Model.WriterBook
import TantivyModel.Proofs.WriterRefine2
import TantivyModel.Proofs.WriterMergeEndD
/-
The machine with the bookkeeping of `advance_deletes` (`Model/WriterBook.lean`) against the core
machine: as long as the stamper never goes below `meta.opstamp` every recorded `delete_opstamp` is
at most `meta.opstamp`, which the stamper has passed unless the delete queue is still empty; so the
early return can only fire for a merge of committed segments at the last commit or on an empty
queue, where the core `advance` is the identity.
-/
namespace TantivyModel.Writer
open TantivyModel.WriterSpec

variable {α : Type} [DecidableEq α]

theorem advB_eq_of_ne (B : Book) (log : List (DelOp α)) (t : Nat) (sg : Seg α) (h : B.delOp sg.id ≠ some t) :
    advB B log t sg = advance log t sg := by
  have h' : ¬ ((withBook B sg).delOp = some t) := h
  unfold advB advanceDeletes
  simp only [if_neg h']
  split <;> rfl

theorem advB_eq_of_fixed (B : Book) (log : List (DelOp α)) (t : Nat) (sg : Seg α) (h : advance log t sg = sg) :
    advB B log t sg = advance log t sg := by
  by_cases hb : B.delOp sg.id = some t
  · have h' : (withBook B sg).delOp = some t := hb
    unfold advB advanceDeletes
    simp only [if_pos h']
    rw [h]
    rfl
  · exact advB_eq_of_ne B log t sg hb

theorem bookAfter_delOp (B : Book) (log : List (DelOp α)) (t : Nat) (sg : Seg α) (i u : Nat)
    (h : (bookAfter B log t sg).delOp i = some u) : u = t ∨ B.delOp i = some u := by
  unfold bookAfter at h
  simp only at h
  split at h
  · rename_i hi
    subst hi
    unfold advanceDeletes at h
    split at h
    · exact Or.inr h
    · dsimp only at h
      split at h
      · simp only [Option.some.injEq] at h
        exact Or.inl h.symm
      · exact Or.inr h
  · exact Or.inr h

theorem bookAfter_delOp_other (B : Book) (log : List (DelOp α)) (t : Nat) (sg : Seg α) (i : Nat) (hi : i ≠ sg.id) :
    (bookAfter B log t sg).delOp i = B.delOp i := by
  unfold bookAfter
  simp only [if_neg hi]

theorem foldl_bookAfter_delOp (log : List (DelOp α)) (t : Nat) (segs : List (Seg α)) (B : Book) (i u : Nat)
    (h : (segs.foldl (fun B sg => bookAfter B log t sg) B).delOp i = some u) : u = t ∨ B.delOp i = some u := by
  induction segs generalizing B with
  | nil => exact Or.inr h
  | cons sg segs ih =>
    rcases ih (bookAfter B log t sg) h with h1 | h1
    · exact Or.inl h1
    · exact bookAfter_delOp B log t sg i u h1

theorem foldl_bookAfter_delOp_other (log : List (DelOp α)) (t : Nat) (segs : List (Seg α)) (B : Book) (i : Nat)
    (hi : ∀ sg ∈ segs, i ≠ sg.id) : (segs.foldl (fun B sg => bookAfter B log t sg) B).delOp i = B.delOp i := by
  induction segs generalizing B with
  | nil => rfl
  | cons sg segs ih =>
    simp only [List.foldl_cons]
    rw [ih (bookAfter B log t sg) (fun x hx => hi x (List.mem_cons_of_mem _ hx))]
    exact bookAfter_delOp_other B log t sg i (hi sg (List.mem_cons_self ..))

theorem mergeSegsB_eq (B : Book) (log : List (DelOp α)) (t newId : Nat) (srcs : List (Seg α))
    (h : ∀ sg ∈ srcs, advB B log t sg = advance log t sg) : mergeSegsB B log t newId srcs = mergeSegs log t newId srcs := by
  unfold mergeSegsB mergeSegs
  rw [List.map_congr_left h]
  rfl

theorem mergeSegs_id (log : List (DelOp α)) (t newId : Nat) (srcs : List (Seg α)) (M : Seg α)
    (h : mergeSegs log t newId srcs = some M) : M.id = newId := by
  unfold mergeSegs at h
  simp only at h
  split at h
  · cases h
  · split at h
    · cases h
    · simp only [Option.some.injEq] at h
      rw [← h]

theorem catchUpB_eq (B : Book) (log : List (DelOp α)) (c : Nat) (sg : Seg α) (h : B.delOp sg.id ≠ some c) :
    catchUpB B log c sg = catchUp log c sg := by
  unfold catchUpB catchUp
  rw [advB_eq_of_ne B log c sg h]
  rfl

theorem catchUpBook_delOp (B : Book) (log : List (DelOp α)) (c : Nat) (sg : Seg α) (i u : Nat)
    (h : (catchUpBook B log c sg).delOp i = some u) : (u = c ∧ 0 < c) ∨ B.delOp i = some u := by
  unfold catchUpBook at h
  split at h
  · rename_i del hd
    split at h
    · rename_i hg
      rcases bookAfter_delOp B log c sg i u h with h1 | h1
      · have : del.op < c := by simpa using hg
        exact Or.inl ⟨h1, by omega⟩
      · exact Or.inr h1
    · exact Or.inr h
  · exact Or.inr h

theorem catchUpBook_delOp_other (B : Book) (log : List (DelOp α)) (c : Nat) (sg : Seg α) (i : Nat) (hi : i ≠ sg.id) :
    (catchUpBook B log c sg).delOp i = B.delOp i := by
  unfold catchUpBook
  split
  · split
    · exact bookAfter_delOp_other B log c sg i hi
    · rfl
  · rfl

/-- the state-level hypothesis under which the stamper never goes below `meta.opstamp`:
`delete_all_documents` only while `committed_opstamp` (stale after a commit, F1) is not below it -
i.e. on a writer that has not committed since it was created; sub-steps excluded -/
def bookOkS (s : WState α) : Event α → Prop
  | .deleteAll => s.metas.opstamp ≤ s.committedOpstamp
  | .stamp _ => False
  | .publish _ => False
  | _ => True

def bookRun (s : WState α) : List (Event α) → Prop
  | [] => True
  | e :: es => bookOkS s e ∧ ∀ s' r, step s e = some (s', r) → bookRun s' es

/-- sufficient: no `delete_all_documents` at all (rollbacks, reopen allowed) -/
def bookOk : Event α → Bool
  | .deleteAll => false
  | .stamp _ => false
  | .publish _ => false
  | _ => true

theorem bookRun_of_all (s : WState α) (es : List (Event α)) (h : es.all bookOk = true) : bookRun s es := by
  induction es generalizing s with
  | nil => trivial
  | cons e es ih =>
    simp only [List.all_cons, Bool.and_eq_true] at h
    refine ⟨?_, fun s' _ _ => ih s' h.2⟩
    cases e <;> first | trivial | simp [bookOk] at h

/-- the events that never call `advance_deletes` and keep the stamper -/
def plainD : Event α → Bool
  | .add _ => true
  | .del _ => true
  | .batch _ => true
  | .prepare => true
  | .recv _ => true
  | .cut _ => true
  | .register => true
  | .tick => true
  | .flush => true
  | _ => false

theorem step_frame (s s' : WState α) (e : Event α) (r : Nat) (h : step s e = some (s', r)) (hp : plainD e = true) :
    s.stamper ≤ s'.stamper ∧ s'.merges = s.merges ∧ s'.metas = s.metas
      ∧ (s.stamper < s'.stamper ∨ s'.log = s.log) ∧ s'.committedOpstamp = s.committedOpstamp := by
  cases e with
  | add d =>
    simp only [step, Option.some.injEq, Prod.mk.injEq] at h; obtain ⟨rfl, _⟩ := h
    exact ⟨Nat.le_succ _, rfl, rfl, Or.inl (Nat.lt_succ_self _), rfl⟩
  | del q =>
    simp only [step, Option.some.injEq, Prod.mk.injEq] at h; obtain ⟨rfl, _⟩ := h
    exact ⟨Nat.le_succ _, rfl, rfl, Or.inl (Nat.lt_succ_self _), rfl⟩
  | batch items =>
    simp only [step, batch_fold, List.nil_append, Option.some.injEq, Prod.mk.injEq] at h
    obtain ⟨rfl, _⟩ := h
    refine ⟨?_, rfl, rfl, Or.inl ?_, rfl⟩
    · show s.stamper ≤ s.stamper + items.length + 1
      omega
    · show s.stamper < s.stamper + items.length + 1
      omega
  | prepare =>
    simp only [step] at h
    split at h
    · simp only [Option.some.injEq, Prod.mk.injEq] at h; obtain ⟨rfl, _⟩ := h
      exact ⟨Nat.le_succ _, rfl, rfl, Or.inl (Nat.lt_succ_self _), rfl⟩
    · cases h
  | recv w =>
    simp only [step] at h
    split at h
    · split at h
      · split at h
        · cases h
        · simp only [Option.some.injEq, Prod.mk.injEq] at h; obtain ⟨rfl, _⟩ := h
          exact ⟨Nat.le_refl _, rfl, rfl, Or.inr rfl, rfl⟩
      · simp only [Option.some.injEq, Prod.mk.injEq] at h; obtain ⟨rfl, _⟩ := h
        exact ⟨Nat.le_refl _, rfl, rfl, Or.inr rfl, rfl⟩
    · cases h
  | cut w =>
    simp only [step] at h
    split at h
    · split at h
      · simp only [Option.some.injEq, Prod.mk.injEq] at h; obtain ⟨rfl, _⟩ := h
        exact ⟨Nat.le_refl _, rfl, rfl, Or.inr rfl, rfl⟩
      · cases h
    · cases h
  | register =>
    simp only [step] at h
    split at h
    · simp only [Option.some.injEq, Prod.mk.injEq] at h; obtain ⟨rfl, _⟩ := h
      exact ⟨Nat.le_refl _, rfl, rfl, Or.inr rfl, rfl⟩
    · cases h
  | tick =>
    simp only [step, Option.some.injEq, Prod.mk.injEq] at h; obtain ⟨rfl, _⟩ := h
    exact ⟨Nat.le_succ _, rfl, rfl, Or.inl (Nat.lt_succ_self _), rfl⟩
  | flush =>
    simp only [step, Option.some.injEq, Prod.mk.injEq] at h; obtain ⟨rfl, _⟩ := h
    exact ⟨Nat.le_refl _, rfl, rfl, Or.inr rfl, rfl⟩
  | deleteAll => simp [plainD] at hp
  | rollback => simp [plainD] at hp
  | commit p => simp [plainD] at hp
  | mergeStart ids policy => simp [plainD] at hp
  | mergeEnd k => simp [plainD] at hp
  | stamp op => simp [plainD] at hp
  | publish k => simp [plainD] at hp

/-- the opstamp of `meta.json` and `committed_opstamp` change at `commit` and `rollback` only -/
theorem step_commit_stamps (s s' : WState α) (e : Event α) (r : Nat) (h : step s e = some (s', r))
    (he : plainD e = true ∨ e = .deleteAll ∨ (∃ ids policy, e = .mergeStart ids policy) ∨ (∃ k, e = .mergeEnd k)) :
    s'.metas.opstamp = s.metas.opstamp ∧ s'.committedOpstamp = s.committedOpstamp := by
  rcases he with hp | rfl | ⟨ids, policy, rfl⟩ | ⟨k, rfl⟩
  · obtain ⟨_, _, f3, _, f5⟩ := step_frame s s' e r h hp
    exact ⟨by rw [f3], f5⟩
  · simp only [step, Option.some.injEq, Prod.mk.injEq] at h
    obtain ⟨rfl, _⟩ := h
    exact ⟨rfl, rfl⟩
  · simp only [step] at h
    split at h
    · cases h
    · split at h
      · simp only [Option.some.injEq, Prod.mk.injEq] at h; obtain ⟨rfl, _⟩ := h; exact ⟨rfl, rfl⟩
      · split at h
        · simp only [Option.some.injEq, Prod.mk.injEq] at h; obtain ⟨rfl, _⟩ := h; exact ⟨rfl, rfl⟩
        · cases h
  · simp only [step] at h
    split at h
    · cases h
    · split at h
      · simp only [Option.some.injEq, Prod.mk.injEq] at h; obtain ⟨rfl, _⟩ := h; exact ⟨rfl, rfl⟩
      · split at h
        · simp only [Option.some.injEq, Prod.mk.injEq] at h; obtain ⟨rfl, _⟩ := h; exact ⟨rfl, rfl⟩
        · simp only [Option.some.injEq, Prod.mk.injEq] at h; obtain ⟨rfl, _⟩ := h; exact ⟨rfl, rfl⟩

theorem bookRun_of_hist (s : WState α) (c : Bool) (es : List (Event α))
    (hc : c = false → s.metas.opstamp ≤ s.committedOpstamp) (h : bookHist c es = true) : bookRun s es := by
  induction es generalizing s c with
  | nil => trivial
  | cons e es ih =>
    simp only [bookHist, Bool.and_eq_true] at h
    obtain ⟨h1, h2⟩ := h
    refine ⟨?_, fun s' r hs => ih s' (sessStep c e) ?_ h2⟩
    · cases e with
      | deleteAll =>
        have : c = false := by simpa using h1
        exact hc this
      | stamp op => simp at h1
      | publish k => simp at h1
      | _ => trivial
    · intro hcf
      cases e with
      | commit p => simp [sessStep] at hcf
      | rollback =>
        have : step s .rollback = some (rollbackState s, s.metas.opstamp) := rfl
        rw [this] at hs
        simp only [Option.some.injEq, Prod.mk.injEq] at hs
        obtain ⟨rfl, _⟩ := hs
        exact Nat.le_refl _
      | stamp op => simp at h1
      | publish k => simp at h1
      | add d => obtain ⟨a, b⟩ := step_commit_stamps s s' _ r hs (Or.inl rfl); rw [a, b]; exact hc hcf
      | del q => obtain ⟨a, b⟩ := step_commit_stamps s s' _ r hs (Or.inl rfl); rw [a, b]; exact hc hcf
      | batch items => obtain ⟨a, b⟩ := step_commit_stamps s s' _ r hs (Or.inl rfl); rw [a, b]; exact hc hcf
      | prepare => obtain ⟨a, b⟩ := step_commit_stamps s s' _ r hs (Or.inl rfl); rw [a, b]; exact hc hcf
      | recv w => obtain ⟨a, b⟩ := step_commit_stamps s s' _ r hs (Or.inl rfl); rw [a, b]; exact hc hcf
      | cut w => obtain ⟨a, b⟩ := step_commit_stamps s s' _ r hs (Or.inl rfl); rw [a, b]; exact hc hcf
      | register => obtain ⟨a, b⟩ := step_commit_stamps s s' _ r hs (Or.inl rfl); rw [a, b]; exact hc hcf
      | tick => obtain ⟨a, b⟩ := step_commit_stamps s s' _ r hs (Or.inl rfl); rw [a, b]; exact hc hcf
      | flush => obtain ⟨a, b⟩ := step_commit_stamps s s' _ r hs (Or.inl rfl); rw [a, b]; exact hc hcf
      | deleteAll => obtain ⟨a, b⟩ := step_commit_stamps s s' _ r hs (Or.inr (Or.inl rfl)); rw [a, b]; exact hc hcf
      | mergeStart ids policy =>
        obtain ⟨a, b⟩ := step_commit_stamps s s' _ r hs (Or.inr (Or.inr (Or.inl ⟨ids, policy, rfl⟩))); rw [a, b]; exact hc hcf
      | mergeEnd k =>
        obtain ⟨a, b⟩ := step_commit_stamps s s' _ r hs (Or.inr (Or.inr (Or.inr ⟨k, rfl⟩))); rw [a, b]; exact hc hcf

/-- what is known of the book in a run whose stamper never went below `meta.opstamp` -/
structure BInv (s : WState α) (B : Book) : Prop where
  le : ∀ i t, B.delOp i = some t → t ≤ s.metas.opstamp
  mle' : ∀ i t, B.metaDelOp i = some t → t ≤ s.metas.opstamp
  res : ∀ m ∈ s.merges, ∀ M, m.result = some M → B.delOp M.id = none
  mle : s.metas.opstamp ≤ s.stamper
  strict : s.metas.opstamp < s.stamper ∨ s.log = []

theorem binv_init (n : Nat) : BInv (WState.init n : WState α) Book.init :=
  ⟨fun i t h => by simp [Book.init] at h, fun i t h => by simp [Book.init] at h,
   fun m hm => by simp [WState.init] at hm, Nat.le_refl _, Or.inr rfl⟩

theorem advance_nil (t : Nat) (sg : Seg α) : advance ([] : List (DelOp α)) t sg = sg := by
  unfold advance
  simp [consume]

/-- at the current stamper the early return is harmless -/
theorem advB_at_stamper (s : WState α) (B : Book) (hb : BInv s B) (sg : Seg α) :
    advB B s.log s.stamper sg = advance s.log s.stamper sg := by
  by_cases hc : B.delOp sg.id = some s.stamper
  · have h1 := hb.le _ _ hc
    rcases hb.strict with h2 | h2
    · omega
    · apply advB_eq_of_fixed
      rw [h2]
      exact advance_nil _ _
  · exact advB_eq_of_ne B s.log s.stamper sg hc

theorem result_id_not_reg (s : WState α) (hm : MInv s) (m : Merge α) (hmem : m ∈ s.merges) (M : Seg α)
    (hM : m.result = some M) : ∀ sg ∈ s.uncommitted ++ s.committed, M.id ≠ sg.id := by
  intro sg hsg heq
  have h1 : M.id ∈ pipeIds s := by
    simp only [pipeIds, List.mem_append]
    exact Or.inr (List.mem_flatMap.mpr ⟨m, hmem, by simp [mergeResultId, hM]⟩)
  have h2 : sg.id ∈ segIds (regs s) := List.mem_map.mpr ⟨sg, hsg, rfl⟩
  exact (List.nodup_append.mp hm.nodup).2.2 M.id h1 sg.id h2 heq

theorem plainD_stepD (s : WState α) (B : Book) (e : Event α) (hp : plainD e = true) :
    stepD (s, B) e = (step s e).map (fun p => ((p.1, B), p.2)) := by
  cases e <;> first | rfl | simp [plainD] at hp

/-- one step of the machine with bookkeeping is the step of the core machine -/
theorem stepD_step (s : WState α) (B : Book) (e : Event α) (sb' : WState α × Book) (r : Nat)
    (hm : MInv s) (hb : BInv s B) (hok : okEvent2 s e) (hk : bookOkS s e) (h : stepD (s, B) e = some (sb', r)) :
    step s e = some (sb'.1, r) ∧ BInv sb'.1 sb'.2 := by
  by_cases hp : plainD e = true
  · rw [plainD_stepD s B e hp] at h
    cases hs : step s e with
    | none => rw [hs] at h; cases h
    | some p =>
      obtain ⟨s', r'⟩ := p
      rw [hs] at h
      simp only [Option.map_some, Option.some.injEq, Prod.mk.injEq] at h
      obtain ⟨rfl, rfl⟩ := h
      obtain ⟨f1, f2, f3, f4, _⟩ := step_frame s s' e r' hs hp
      refine ⟨rfl, ⟨?_, ?_, ?_, ?_, ?_⟩⟩
      · show ∀ i t, B.delOp i = some t → t ≤ s'.metas.opstamp
        rw [f3]; exact hb.le
      · show ∀ i t, B.metaDelOp i = some t → t ≤ s'.metas.opstamp
        rw [f3]; exact hb.mle'
      · show ∀ m ∈ s'.merges, _
        rw [f2]; exact hb.res
      · show s'.metas.opstamp ≤ s'.stamper
        rw [f3]; exact Nat.le_trans hb.mle f1
      · show s'.metas.opstamp < s'.stamper ∨ s'.log = []
        rw [f3]
        rcases f4 with h1 | h1
        · exact Or.inl (Nat.lt_of_le_of_lt hb.mle h1)
        · rcases hb.strict with h2 | h2
          · exact Or.inl (Nat.lt_of_lt_of_le h2 f1)
          · exact Or.inr (by rw [h1]; exact h2)
  · cases e with
    | add d => simp [plainD] at hp
    | del q => simp [plainD] at hp
    | batch items => simp [plainD] at hp
    | prepare => simp [plainD] at hp
    | recv w => simp [plainD] at hp
    | cut w => simp [plainD] at hp
    | register => simp [plainD] at hp
    | tick => simp [plainD] at hp
    | flush => simp [plainD] at hp
    | stamp op => exact hk.elim
    | publish k => exact hk.elim
    | deleteAll =>
      have hs : step s .deleteAll = some (deleteAllState s, s.committedOpstamp) := rfl
      have hd : stepD (s, B) .deleteAll = (step s .deleteAll).map (fun p => ((p.1, B), p.2)) := rfl
      rw [hd, hs] at h
      simp only [Option.map_some, Option.some.injEq, Prod.mk.injEq] at h
      obtain ⟨rfl, rfl⟩ := h
      have hlog : s.log = [] := hok.1
      exact ⟨hs, ⟨hb.le, hb.mle', hb.res, hk, Or.inr hlog⟩⟩
    | rollback =>
      have hs : step s .rollback = some (rollbackState s, s.metas.opstamp) := rfl
      have hd : stepD (s, B) .rollback = (step s .rollback).map (fun p =>
          ((p.1, { delOp := B.metaDelOp, dead := fun _ => 0, metaDelOp := B.metaDelOp }), p.2)) := rfl
      rw [hd, hs] at h
      simp only [Option.map_some, Option.some.injEq, Prod.mk.injEq] at h
      obtain ⟨rfl, rfl⟩ := h
      exact ⟨hs, ⟨hb.mle', hb.mle', (fun m hmem => by cases hmem), Nat.le_refl _, Or.inr rfl⟩⟩
    | commit p =>
      simp only [stepD] at h
      split at h
      · rename_i hq
        simp only [Option.some.injEq, Prod.mk.injEq] at h
        obtain ⟨rfl, rfl⟩ := h
        have hmap : (s.uncommitted ++ s.committed).map (advB B s.log s.stamper)
            = (s.uncommitted ++ s.committed).map (advance s.log s.stamper) :=
          List.map_congr_left (fun sg _ => advB_at_stamper s B hb sg)
        have hle : ∀ i t, (List.foldl (fun B sg => bookAfter B s.log s.stamper sg) B (s.uncommitted ++ s.committed)).delOp i = some t
            → t ≤ s.stamper := by
          intro i t hi
          rcases foldl_bookAfter_delOp s.log s.stamper _ B i t hi with h1 | h1
          · omega
          · exact Nat.le_trans (hb.le i t h1) hb.mle
        refine ⟨?_, ?_⟩
        · simp only [step, if_pos hq, hmap]
        · refine ⟨hle, hle, ?_, Nat.le_succ _, Or.inl (Nat.lt_succ_self _)⟩
          intro m hmem M hM
          have hmem' : m ∈ s.merges := hmem
          show (List.foldl (fun B sg => bookAfter B s.log s.stamper sg) B (s.uncommitted ++ s.committed)).delOp M.id = none
          rw [foldl_bookAfter_delOp_other s.log s.stamper _ B M.id (result_id_not_reg s hm m hmem' M hM)]
          exact hb.res m hmem' M hM
      · cases h
    | mergeStart ids policy =>
      simp only [stepD] at h
      split at h
      · cases h
      · rename_i hg
        have hle : ∀ i t, (if i = s.nextId then none else B.delOp i) = some t → t ≤ s.metas.opstamp := by
          intro i t hi
          split at hi
          · cases hi
          · exact hb.le i t hi
        split at h
        · rename_i hu
          simp only [Option.some.injEq, Prod.mk.injEq] at h
          obtain ⟨rfl, rfl⟩ := h
          have heq : mergeSegsB B s.log s.stamper s.nextId (ids.filterMap (lookup s.uncommitted))
              = mergeSegs s.log s.stamper s.nextId (ids.filterMap (lookup s.uncommitted)) :=
            mergeSegsB_eq B s.log s.stamper s.nextId _ (fun sg _ => advB_at_stamper s B hb sg)
          refine ⟨?_, ?_⟩
          · simp only [step, if_neg hg, if_pos hu, heq]
          · refine ⟨hle, hb.mle', ?_, Nat.le_succ_of_le hb.mle, Or.inl (Nat.lt_succ_of_le hb.mle)⟩
            intro m hmem M hM
            have hmem' : m ∈ s.merges ++ [{ ids := ids, result := mergeSegsB B s.log s.stamper s.nextId (ids.filterMap (lookup s.uncommitted)) }] := hmem
            show (if M.id = s.nextId then none else B.delOp M.id) = none
            split
            · rfl
            · rename_i hne
              rcases List.mem_append.mp hmem' with h1 | h1
              · exact hb.res m h1 M hM
              · simp only [List.mem_singleton] at h1
                subst h1
                simp only at hM
                rw [heq] at hM
                exact absurd (mergeSegs_id _ _ _ _ M hM) hne
        · rename_i hu
          split at h
          · rename_i hc
            simp only [Option.some.injEq, Prod.mk.injEq] at h
            obtain ⟨rfl, rfl⟩ := h
            have heq : mergeSegsB B s.log s.metas.opstamp s.nextId (ids.filterMap (lookup s.committed))
                = mergeSegs s.log s.metas.opstamp s.nextId (ids.filterMap (lookup s.committed)) := by
              apply mergeSegsB_eq
              intro sg hsg
              apply advB_eq_of_fixed
              exact advance_committedAt s.log s.metas.opstamp sg (hm.cis sg (filterMap_lookup_mem ids s.committed sg hsg))
            refine ⟨?_, ?_⟩
            · simp only [step, if_neg hg, if_neg hu, if_pos hc, heq]
            · refine ⟨hle, hb.mle', ?_, hb.mle, hb.strict⟩
              intro m hmem M hM
              have hmem' : m ∈ s.merges ++ [{ ids := ids, result := mergeSegsB B s.log s.metas.opstamp s.nextId (ids.filterMap (lookup s.committed)) }] := hmem
              show (if M.id = s.nextId then none else B.delOp M.id) = none
              split
              · rfl
              · rename_i hne
                rcases List.mem_append.mp hmem' with h1 | h1
                · exact hb.res m h1 M hM
                · simp only [List.mem_singleton] at h1
                  subst h1
                  simp only at hM
                  rw [heq] at hM
                  exact absurd (mergeSegs_id _ _ _ _ M hM) hne
          · cases h
    | mergeEnd k =>
      simp only [stepD] at h
      split at h
      · cases h
      · rename_i m hk'
        have hmem : m ∈ s.merges := List.mem_of_getElem? hk'
        have hres : m.result.map (catchUpB B s.log s.metas.opstamp) = m.result.map (catchUp s.log s.metas.opstamp) := by
          cases hM : m.result with
          | none => rfl
          | some M =>
            simp only [Option.map_some, Option.some.injEq]
            apply catchUpB_eq
            rw [hb.res m hmem M hM]
            exact fun hc => by cases hc
        -- the book after the catch-up
        have hle : ∀ i t, (match m.result with
              | some M => catchUpBook B s.log s.metas.opstamp M
              | none => B).delOp i = some t → t ≤ s.metas.opstamp := by
          intro i t hi
          cases hM : m.result with
          | none => rw [hM] at hi; exact hb.le i t hi
          | some M =>
            rw [hM] at hi
            rcases catchUpBook_delOp B s.log s.metas.opstamp M i t hi with ⟨h1, _⟩ | h1
            · omega
            · exact hb.le i t h1
        have hmle' : ∀ i t, (match m.result with
              | some M => catchUpBook B s.log s.metas.opstamp M
              | none => B).metaDelOp i = some t → t ≤ s.metas.opstamp := by
          intro i t hi
          have : (match m.result with
              | some M => catchUpBook B s.log s.metas.opstamp M
              | none => B).metaDelOp = B.metaDelOp := by
            cases m.result with
            | none => rfl
            | some M =>
              simp only [catchUpBook]
              split
              · split <;> rfl
              · rfl
          rw [this] at hi
          exact hb.mle' i t hi
        have hrs : ∀ m' ∈ s.merges.eraseIdx k, ∀ M', m'.result = some M' → (match m.result with
              | some M => catchUpBook B s.log s.metas.opstamp M
              | none => B).delOp M'.id = none := by
          intro m' hm' M' hM'
          have hm'0 : m' ∈ s.merges := mem_of_mem_eraseIdx _ k m' hm'
          cases hM : m.result with
          | none => exact hb.res m' hm'0 M' hM'
          | some M =>
            simp only
            rw [catchUpBook_delOp_other B s.log s.metas.opstamp M M'.id ?_]
            · exact hb.res m' hm'0 M' hM'
            · intro heq
              have hnd : (resultIds s.merges).Nodup :=
                ((List.nodup_append.mp ((List.nodup_append.mp hm.nodup).1)).2.1)
              have c1 := count_resultIds_eraseIdx s.merges k m hk' M.id
              have c2 : (mergeResultId m).count M.id = 1 := by simp [mergeResultId, hM]
              have c3 : 1 ≤ (resultIds (s.merges.eraseIdx k)).count M.id := by
                apply List.count_pos_iff.mpr
                exact List.mem_flatMap.mpr ⟨m', hm', by simp [mergeResultId, hM', heq]⟩
              have c4 := List.nodup_iff_count.mp hnd M.id
              omega
        split at h
        · rename_i hu
          simp only [Option.some.injEq, Prod.mk.injEq] at h
          obtain ⟨rfl, rfl⟩ := h
          refine ⟨?_, ⟨hle, hmle', hrs, hb.mle, hb.strict⟩⟩
          simp only [step, hk', if_pos hu, hres]
        · rename_i hu
          split at h
          · rename_i hc
            simp only [Option.some.injEq, Prod.mk.injEq] at h
            obtain ⟨rfl, rfl⟩ := h
            refine ⟨?_, ⟨hle, hle, hrs, hb.mle, hb.strict⟩⟩
            simp only [step, hk', if_neg hu, if_pos hc, hres]
          · rename_i hc
            simp only [Option.some.injEq, Prod.mk.injEq] at h
            obtain ⟨rfl, rfl⟩ := h
            refine ⟨?_, ⟨hle, hmle', hrs, hb.mle, hb.strict⟩⟩
            simp only [step, hk', if_neg hu, if_neg hc]

/-- **the machine with bookkeeping refines the core machine** along every run in which the
stamper never goes below `meta.opstamp` -/
theorem runD_run (s : WState α) (B : Book) (t : SpecState α) (es : List (Event α)) (sb' : WState α × Book)
    (hw : WInv s t.pending t.committed) (hm : MInv s) (hb : BInv s B) (hok : okRun2 s es)
    (hk : bookRun s es) (h : runD (s, B) es = some sb') : run s es = some sb'.1 := by
  induction es generalizing s B t with
  | nil =>
    simp only [runD, Option.some.injEq] at h
    subst h
    rfl
  | cons e es ih =>
    simp only [runD] at h
    split at h
    · rename_i sb1 r hs
      obtain ⟨hstep, hb1⟩ := stepD_step s B e sb1 r hm hb hok.1 hk.1 hs
      obtain ⟨hw1, hm1⟩ := inv_step2 s sb1.1 t e r hw hm hok.1 hstep
      simp only [run, hstep]
      exact ih sb1.1 sb1.2 (specAfter t e) hw1 hm1 hb1 (hok.2 sb1.1 r hstep) (hk.2 sb1.1 r hstep) h
    · cases h

end TantivyModel.Writer
