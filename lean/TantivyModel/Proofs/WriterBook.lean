import TantivyModel.Model.WriterBook
import TantivyModel.Proofs.WriterRefine2
import TantivyModel.Proofs.WriterMergeEndD
/-
The machine with the bookkeeping of `advance_deletes` (`Model/WriterBook.lean`) against the core
machine: as long as the stamper never goes back (no `delete_all_documents`, no `rollback`) every
recorded `delete_opstamp` is below the stamper, so the early return can only fire for a merge of
committed segments at the last commit, where the core `advance` is the identity.
-/
namespace TantivyModel.Writer
open TantivyModel.WriterSpec

variable {α : Type} [DecidableEq α]

theorem advB_eq_of_ne (B : Book) (log : List (DelOp α)) (t : Nat) (sg : Seg α) (h : B.delOp sg.id ≠ some t) :
    advB B log t sg = advance log t sg := by
  have h' : ¬ ((withBook B sg).delOp = some t) := h
  unfold advB advanceDeletes
  simp only [if_neg h']
  split <;> rfl

theorem advB_eq_of_fixed (B : Book) (log : List (DelOp α)) (t : Nat) (sg : Seg α) (h : advance log t sg = sg) :
    advB B log t sg = advance log t sg := by
  by_cases hb : B.delOp sg.id = some t
  · have h' : (withBook B sg).delOp = some t := hb
    unfold advB advanceDeletes
    simp only [if_pos h']
    rw [h]
    rfl
  · exact advB_eq_of_ne B log t sg hb

theorem bookAfter_delOp (B : Book) (log : List (DelOp α)) (t : Nat) (sg : Seg α) (i u : Nat)
    (h : (bookAfter B log t sg).delOp i = some u) : u = t ∨ B.delOp i = some u := by
  unfold bookAfter at h
  simp only at h
  split at h
  · rename_i hi
    subst hi
    unfold advanceDeletes at h
    split at h
    · exact Or.inr h
    · dsimp only at h
      split at h
      · simp only [Option.some.injEq] at h
        exact Or.inl h.symm
      · exact Or.inr h
  · exact Or.inr h

theorem bookAfter_delOp_other (B : Book) (log : List (DelOp α)) (t : Nat) (sg : Seg α) (i : Nat) (hi : i ≠ sg.id) :
    (bookAfter B log t sg).delOp i = B.delOp i := by
  unfold bookAfter
  simp only [if_neg hi]

theorem foldl_bookAfter_delOp (log : List (DelOp α)) (t : Nat) (segs : List (Seg α)) (B : Book) (i u : Nat)
    (h : (segs.foldl (fun B sg => bookAfter B log t sg) B).delOp i = some u) : u = t ∨ B.delOp i = some u := by
  induction segs generalizing B with
  | nil => exact Or.inr h
  | cons sg segs ih =>
    rcases ih (bookAfter B log t sg) h with h1 | h1
    · exact Or.inl h1
    · exact bookAfter_delOp B log t sg i u h1

theorem foldl_bookAfter_delOp_other (log : List (DelOp α)) (t : Nat) (segs : List (Seg α)) (B : Book) (i : Nat)
    (hi : ∀ sg ∈ segs, i ≠ sg.id) : (segs.foldl (fun B sg => bookAfter B log t sg) B).delOp i = B.delOp i := by
  induction segs generalizing B with
  | nil => rfl
  | cons sg segs ih =>
    simp only [List.foldl_cons]
    rw [ih (bookAfter B log t sg) (fun x hx => hi x (List.mem_cons_of_mem _ hx))]
    exact bookAfter_delOp_other B log t sg i (hi sg (List.mem_cons_self ..))

theorem mergeSegsB_eq (B : Book) (log : List (DelOp α)) (t newId : Nat) (srcs : List (Seg α))
    (h : ∀ sg ∈ srcs, advB B log t sg = advance log t sg) : mergeSegsB B log t newId srcs = mergeSegs log t newId srcs := by
  unfold mergeSegsB mergeSegs
  rw [List.map_congr_left h]
  rfl

theorem mergeSegs_id (log : List (DelOp α)) (t newId : Nat) (srcs : List (Seg α)) (M : Seg α)
    (h : mergeSegs log t newId srcs = some M) : M.id = newId := by
  unfold mergeSegs at h
  simp only at h
  split at h
  · cases h
  · split at h
    · cases h
    · simp only [Option.some.injEq] at h
      rw [← h]

theorem catchUpB_eq (B : Book) (log : List (DelOp α)) (c : Nat) (sg : Seg α) (h : B.delOp sg.id ≠ some c) :
    catchUpB B log c sg = catchUp log c sg := by
  unfold catchUpB catchUp
  rw [advB_eq_of_ne B log c sg h]
  rfl

theorem catchUpBook_delOp (B : Book) (log : List (DelOp α)) (c : Nat) (sg : Seg α) (i u : Nat)
    (h : (catchUpBook B log c sg).delOp i = some u) : (u = c ∧ 0 < c) ∨ B.delOp i = some u := by
  unfold catchUpBook at h
  split at h
  · rename_i del hd
    split at h
    · rename_i hg
      rcases bookAfter_delOp B log c sg i u h with h1 | h1
      · have : del.op < c := by simpa using hg
        exact Or.inl ⟨h1, by omega⟩
      · exact Or.inr h1
    · exact Or.inr h
  · exact Or.inr h

theorem catchUpBook_delOp_other (B : Book) (log : List (DelOp α)) (c : Nat) (sg : Seg α) (i : Nat) (hi : i ≠ sg.id) :
    (catchUpBook B log c sg).delOp i = B.delOp i := by
  unfold catchUpBook
  split
  · split
    · exact bookAfter_delOp_other B log c sg i hi
    · rfl
  · rfl

/-- events under which the stamper does not go back, sub-steps excluded -/
def bookOk : Event α → Bool
  | .deleteAll => false
  | .rollback => false
  | .stamp _ => false
  | .publish _ => false
  | _ => true

/-- the events that never call `advance_deletes` -/
def plainD : Event α → Bool
  | .add _ => true
  | .del _ => true
  | .batch _ => true
  | .prepare => true
  | .recv _ => true
  | .cut _ => true
  | .register => true
  | .tick => true
  | .flush => true
  | _ => false

theorem step_frame (s s' : WState α) (e : Event α) (r : Nat) (h : step s e = some (s', r)) (hp : plainD e = true) :
    s.stamper ≤ s'.stamper ∧ s'.merges = s.merges ∧ s'.metas = s.metas := by
  cases e with
  | add d =>
    simp only [step, Option.some.injEq, Prod.mk.injEq] at h; obtain ⟨rfl, _⟩ := h
    exact ⟨Nat.le_succ _, rfl, rfl⟩
  | del q =>
    simp only [step, Option.some.injEq, Prod.mk.injEq] at h; obtain ⟨rfl, _⟩ := h
    exact ⟨Nat.le_succ _, rfl, rfl⟩
  | batch items =>
    simp only [step, batch_fold, List.nil_append, Option.some.injEq, Prod.mk.injEq] at h
    obtain ⟨rfl, _⟩ := h
    refine ⟨?_, rfl, rfl⟩
    show s.stamper ≤ s.stamper + items.length + 1
    omega
  | prepare =>
    simp only [step] at h
    split at h
    · simp only [Option.some.injEq, Prod.mk.injEq] at h; obtain ⟨rfl, _⟩ := h
      exact ⟨Nat.le_succ _, rfl, rfl⟩
    · cases h
  | recv w =>
    simp only [step] at h
    split at h
    · split at h
      · split at h
        · cases h
        · simp only [Option.some.injEq, Prod.mk.injEq] at h; obtain ⟨rfl, _⟩ := h
          exact ⟨Nat.le_refl _, rfl, rfl⟩
      · simp only [Option.some.injEq, Prod.mk.injEq] at h; obtain ⟨rfl, _⟩ := h
        exact ⟨Nat.le_refl _, rfl, rfl⟩
    · cases h
  | cut w =>
    simp only [step] at h
    split at h
    · split at h
      · simp only [Option.some.injEq, Prod.mk.injEq] at h; obtain ⟨rfl, _⟩ := h
        exact ⟨Nat.le_refl _, rfl, rfl⟩
      · cases h
    · cases h
  | register =>
    simp only [step] at h
    split at h
    · simp only [Option.some.injEq, Prod.mk.injEq] at h; obtain ⟨rfl, _⟩ := h
      exact ⟨Nat.le_refl _, rfl, rfl⟩
    · cases h
  | tick =>
    simp only [step, Option.some.injEq, Prod.mk.injEq] at h; obtain ⟨rfl, _⟩ := h
    exact ⟨Nat.le_succ _, rfl, rfl⟩
  | flush =>
    simp only [step, Option.some.injEq, Prod.mk.injEq] at h; obtain ⟨rfl, _⟩ := h
    exact ⟨Nat.le_refl _, rfl, rfl⟩
  | deleteAll => simp [plainD] at hp
  | rollback => simp [plainD] at hp
  | commit p => simp [plainD] at hp
  | mergeStart ids policy => simp [plainD] at hp
  | mergeEnd k => simp [plainD] at hp
  | stamp op => simp [plainD] at hp
  | publish k => simp [plainD] at hp

/-- what is known of the book in a run whose stamper never went back -/
structure BInv (s : WState α) (B : Book) : Prop where
  lt : ∀ i t, B.delOp i = some t → t < s.stamper
  res : ∀ m ∈ s.merges, ∀ M, m.result = some M → B.delOp M.id = none
  mlt : s.metas.opstamp < s.stamper ∨ s.metas.opstamp = 0

theorem binv_init (n : Nat) : BInv (WState.init n : WState α) Book.init :=
  ⟨fun i t h => by simp [Book.init] at h, fun m hm => by simp [WState.init] at hm, Or.inr rfl⟩

theorem result_id_not_reg (s : WState α) (hm : MInv s) (m : Merge α) (hmem : m ∈ s.merges) (M : Seg α)
    (hM : m.result = some M) : ∀ sg ∈ s.uncommitted ++ s.committed, M.id ≠ sg.id := by
  intro sg hsg heq
  have h1 : M.id ∈ pipeIds s := by
    simp only [pipeIds, List.mem_append]
    exact Or.inr (List.mem_flatMap.mpr ⟨m, hmem, by simp [mergeResultId, hM]⟩)
  have h2 : sg.id ∈ segIds (regs s) := List.mem_map.mpr ⟨sg, hsg, rfl⟩
  exact (List.nodup_append.mp hm.nodup).2.2 M.id h1 sg.id h2 heq

theorem plainD_stepD (s : WState α) (B : Book) (e : Event α) (hp : plainD e = true) :
    stepD (s, B) e = (step s e).map (fun p => ((p.1, B), p.2)) := by
  cases e <;> first | rfl | simp [plainD] at hp

/-- one step of the machine with bookkeeping is the step of the core machine -/
theorem stepD_step (s : WState α) (B : Book) (e : Event α) (sb' : WState α × Book) (r : Nat)
    (hm : MInv s) (hb : BInv s B) (hk : bookOk e = true) (h : stepD (s, B) e = some (sb', r)) :
    step s e = some (sb'.1, r) ∧ BInv sb'.1 sb'.2 := by
  by_cases hp : plainD e = true
  · rw [plainD_stepD s B e hp] at h
    cases hs : step s e with
    | none => rw [hs] at h; cases h
    | some p =>
      obtain ⟨s', r'⟩ := p
      rw [hs] at h
      simp only [Option.map_some, Option.some.injEq, Prod.mk.injEq] at h
      obtain ⟨rfl, rfl⟩ := h
      obtain ⟨f1, f2, f3⟩ := step_frame s s' e r' hs hp
      refine ⟨rfl, ⟨fun i t hi => Nat.lt_of_lt_of_le (hb.lt i t hi) f1, ?_, ?_⟩⟩
      · show ∀ m ∈ s'.merges, _
        rw [f2]; exact hb.res
      · show s'.metas.opstamp < s'.stamper ∨ s'.metas.opstamp = 0
        rw [f3]
        rcases hb.mlt with h1 | h1
        · exact Or.inl (Nat.lt_of_lt_of_le h1 f1)
        · exact Or.inr h1
  · cases e with
    | add d => simp [plainD] at hp
    | del q => simp [plainD] at hp
    | batch items => simp [plainD] at hp
    | prepare => simp [plainD] at hp
    | recv w => simp [plainD] at hp
    | cut w => simp [plainD] at hp
    | register => simp [plainD] at hp
    | tick => simp [plainD] at hp
    | flush => simp [plainD] at hp
    | deleteAll => simp [bookOk] at hk
    | rollback => simp [bookOk] at hk
    | stamp op => simp [bookOk] at hk
    | publish k => simp [bookOk] at hk
    | commit p =>
      simp only [stepD] at h
      split at h
      · rename_i hq
        simp only [Option.some.injEq, Prod.mk.injEq] at h
        obtain ⟨rfl, rfl⟩ := h
        have hmap : (s.uncommitted ++ s.committed).map (advB B s.log s.stamper)
            = (s.uncommitted ++ s.committed).map (advance s.log s.stamper) := by
          apply List.map_congr_left
          intro sg _
          apply advB_eq_of_ne
          intro hc
          exact Nat.lt_irrefl _ (hb.lt _ _ hc)
        refine ⟨?_, ?_⟩
        · simp only [step, if_pos hq, hmap]
        · refine ⟨?_, ?_, ?_⟩
          · intro i t hi
            show t < s.stamper + 1
            rcases foldl_bookAfter_delOp s.log s.stamper _ B i t hi with h1 | h1
            · omega
            · have := hb.lt i t h1; omega
          · intro m hmem M hM
            have hmem' : m ∈ s.merges := hmem
            show (List.foldl (fun B sg => bookAfter B s.log s.stamper sg) B (s.uncommitted ++ s.committed)).delOp M.id = none
            rw [foldl_bookAfter_delOp_other s.log s.stamper _ B M.id (result_id_not_reg s hm m hmem' M hM)]
            exact hb.res m hmem' M hM
          · exact Or.inl (Nat.lt_succ_self _)
      · cases h
    | mergeStart ids policy =>
      simp only [stepD] at h
      split at h
      · cases h
      · rename_i hg
        split at h
        · rename_i hu
          simp only [Option.some.injEq, Prod.mk.injEq] at h
          obtain ⟨rfl, rfl⟩ := h
          have heq : mergeSegsB B s.log s.stamper s.nextId (ids.filterMap (lookup s.uncommitted))
              = mergeSegs s.log s.stamper s.nextId (ids.filterMap (lookup s.uncommitted)) := by
            apply mergeSegsB_eq
            intro sg _
            apply advB_eq_of_ne
            intro hc
            exact Nat.lt_irrefl _ (hb.lt _ _ hc)
          refine ⟨?_, ?_⟩
          · simp only [step, if_neg hg, if_pos hu, heq]
          · refine ⟨?_, ?_, ?_⟩
            · intro i t hi
              show t < s.stamper + 1
              simp only at hi
              split at hi
              · cases hi
              · have := hb.lt i t hi; omega
            · intro m hmem M hM
              have hmem' : m ∈ s.merges ++ [{ ids := ids, result := mergeSegsB B s.log s.stamper s.nextId (ids.filterMap (lookup s.uncommitted)) }] := hmem
              show (if M.id = s.nextId then none else B.delOp M.id) = none
              split
              · rfl
              · rename_i hne
                rcases List.mem_append.mp hmem' with h1 | h1
                · exact hb.res m h1 M hM
                · simp only [List.mem_singleton] at h1
                  subst h1
                  simp only at hM
                  rw [heq] at hM
                  exact absurd (mergeSegs_id _ _ _ _ M hM) hne
            · show s.metas.opstamp < s.stamper + 1 ∨ s.metas.opstamp = 0
              rcases hb.mlt with h1 | h1
              · exact Or.inl (by omega)
              · exact Or.inr h1
        · rename_i hu
          split at h
          · rename_i hc
            simp only [Option.some.injEq, Prod.mk.injEq] at h
            obtain ⟨rfl, rfl⟩ := h
            have heq : mergeSegsB B s.log s.metas.opstamp s.nextId (ids.filterMap (lookup s.committed))
                = mergeSegs s.log s.metas.opstamp s.nextId (ids.filterMap (lookup s.committed)) := by
              apply mergeSegsB_eq
              intro sg hsg
              apply advB_eq_of_fixed
              exact advance_committedAt s.log s.metas.opstamp sg (hm.cis sg (filterMap_lookup_mem ids s.committed sg hsg))
            refine ⟨?_, ?_⟩
            · simp only [step, if_neg hg, if_neg hu, if_pos hc, heq]
            · refine ⟨?_, ?_, ?_⟩
              · intro i t hi
                show t < s.stamper
                simp only at hi
                split at hi
                · cases hi
                · exact hb.lt i t hi
              · intro m hmem M hM
                have hmem' : m ∈ s.merges ++ [{ ids := ids, result := mergeSegsB B s.log s.metas.opstamp s.nextId (ids.filterMap (lookup s.committed)) }] := hmem
                show (if M.id = s.nextId then none else B.delOp M.id) = none
                split
                · rfl
                · rename_i hne
                  rcases List.mem_append.mp hmem' with h1 | h1
                  · exact hb.res m h1 M hM
                  · simp only [List.mem_singleton] at h1
                    subst h1
                    simp only at hM
                    rw [heq] at hM
                    exact absurd (mergeSegs_id _ _ _ _ M hM) hne
              · exact hb.mlt
          · cases h
    | mergeEnd k =>
      simp only [stepD] at h
      split at h
      · cases h
      · rename_i m hk'
        have hmem : m ∈ s.merges := List.mem_of_getElem? hk'
        have hres : m.result.map (catchUpB B s.log s.metas.opstamp) = m.result.map (catchUp s.log s.metas.opstamp) := by
          cases hM : m.result with
          | none => rfl
          | some M =>
            simp only [Option.map_some, Option.some.injEq]
            apply catchUpB_eq
            rw [hb.res m hmem M hM]
            exact fun hc => by cases hc
        -- the book after the catch-up
        have hlt : ∀ i t, (match m.result with
              | some M => catchUpBook B s.log s.metas.opstamp M
              | none => B).delOp i = some t → t < s.stamper := by
          intro i t hi
          cases hM : m.result with
          | none => rw [hM] at hi; exact hb.lt i t hi
          | some M =>
            rw [hM] at hi
            rcases catchUpBook_delOp B s.log s.metas.opstamp M i t hi with ⟨h1, h2⟩ | h1
            · rcases hb.mlt with h3 | h3
              · omega
              · omega
            · exact hb.lt i t h1
        have hrs : ∀ m' ∈ s.merges.eraseIdx k, ∀ M', m'.result = some M' → (match m.result with
              | some M => catchUpBook B s.log s.metas.opstamp M
              | none => B).delOp M'.id = none := by
          intro m' hm' M' hM'
          have hm'0 : m' ∈ s.merges := mem_of_mem_eraseIdx _ k m' hm'
          cases hM : m.result with
          | none => exact hb.res m' hm'0 M' hM'
          | some M =>
            simp only
            rw [catchUpBook_delOp_other B s.log s.metas.opstamp M M'.id ?_]
            · exact hb.res m' hm'0 M' hM'
            · intro heq
              have hnd : (resultIds s.merges).Nodup :=
                ((List.nodup_append.mp ((List.nodup_append.mp hm.nodup).1)).2.1)
              have c1 := count_resultIds_eraseIdx s.merges k m hk' M.id
              have c2 : (mergeResultId m).count M.id = 1 := by simp [mergeResultId, hM]
              have c3 : 1 ≤ (resultIds (s.merges.eraseIdx k)).count M.id := by
                apply List.count_pos_iff.mpr
                exact List.mem_flatMap.mpr ⟨m', hm', by simp [mergeResultId, hM', heq]⟩
              have c4 := List.nodup_iff_count.mp hnd M.id
              omega
        split at h
        · rename_i hu
          simp only [Option.some.injEq, Prod.mk.injEq] at h
          obtain ⟨rfl, rfl⟩ := h
          refine ⟨?_, ⟨hlt, hrs, hb.mlt⟩⟩
          simp only [step, hk', if_pos hu, hres]
        · rename_i hu
          split at h
          · rename_i hc
            simp only [Option.some.injEq, Prod.mk.injEq] at h
            obtain ⟨rfl, rfl⟩ := h
            refine ⟨?_, ⟨hlt, hrs, hb.mlt⟩⟩
            simp only [step, hk', if_neg hu, if_pos hc, hres]
          · rename_i hc
            simp only [Option.some.injEq, Prod.mk.injEq] at h
            obtain ⟨rfl, rfl⟩ := h
            refine ⟨?_, ⟨hlt, hrs, hb.mlt⟩⟩
            simp only [step, hk', if_neg hu, if_neg hc]

/-- **the machine with bookkeeping refines the core machine** along every run in which the
stamper never goes back -/
theorem runD_run (s : WState α) (B : Book) (t : SpecState α) (es : List (Event α)) (sb' : WState α × Book)
    (hw : WInv s t.pending t.committed) (hm : MInv s) (hb : BInv s B) (hok : okRun2 s es)
    (hk : es.all bookOk = true) (h : runD (s, B) es = some sb') : run s es = some sb'.1 := by
  induction es generalizing s B t with
  | nil =>
    simp only [runD, Option.some.injEq] at h
    subst h
    rfl
  | cons e es ih =>
    simp only [List.all_cons, Bool.and_eq_true] at hk
    simp only [runD] at h
    split at h
    · rename_i sb1 r hs
      obtain ⟨hstep, hb1⟩ := stepD_step s B e sb1 r hm hb hk.1 hs
      obtain ⟨hw1, hm1⟩ := inv_step2 s sb1.1 t e r hw hm hok.1 hstep
      simp only [run, hstep]
      exact ih sb1.1 sb1.2 (specAfter t e) hw1 hm1 hb1 (hok.2 sb1.1 r hstep) hk.2 h
    · cases h

end TantivyModel.Writer
