import TantivyModel.Proofs.PhraseSlop
/-
Facts about `intersection_count_with_carrying_slop` (the ≥ 3-term slop algorithm) that do hold:
it never reports a match, and never keeps a position, when no occurrence pair of the two lists is
within the slop — whatever slops were carried in.
-/
set_option linter.unusedSimpArgs false
set_option linter.unusedVariables false
namespace TantivyModel.PhraseSlop
open TantivyModel.QuerySem

/-- no pair of positions within `s` -/
def Far (L R : List Nat) (s : Nat) : Prop := ∀ a ∈ L, ∀ b ∈ R, s < dist a b

theorem getD_mem {l : List Nat} {i : Nat} (h : i < l.length) : l.getD i 0 ∈ l := by
  rw [List.getD_eq_getElem?_getD, List.getElem?_eq_getElem h]
  exact List.getElem_mem h

theorem getLastD_mem {l : List Nat} (h : l ≠ []) : l.getLastD 0 ∈ l := by
  induction l with
  | nil => exact absurd rfl h
  | cons x r ih =>
    cases r with
    | nil => simp [List.getLastD]
    | cons y r' =>
      have := ih (by simp)
      simp only [List.getLastD] at this ⊢
      exact List.mem_cons_of_mem _ this

theorem foldl_guard_unchanged {α β : Type} (xs : List α) (f : β → α → β) (g : β → α → β)
    (c : β → α → Bool) (init : β) (hf : ∀ o x, f o x = if c o x then g o x else o)
    (hc : ∀ o, ∀ x ∈ xs, c o x = false) : xs.foldl f init = init := by
  induction xs generalizing init with
  | nil => rfl
  | cons x xs ih =>
    simp only [List.foldl_cons]
    rw [hf, hc init x (by simp)]
    simp only [Bool.false_eq_true, if_false]
    exact ih init (fun o y hy => hc o y (by simp [hy]))

theorem finishRest_far (L S R : List Nat) (s : Nat) (hL : L ≠ []) (hR : R ≠ []) (hfar : Far L R s)
    (st : CarryState) : (finishRest L S R s st).count = st.count ∧ (finishRest L S R s st).out = st.out := by
  unfold finishRest
  split
  · refine ⟨rfl, ?_⟩
    simp only
    apply foldl_guard_unchanged _ _ (fun out rv => addVal out (dist (L.getLastD 0) rv + S.getLastD 0) rv)
      (fun _ rv => decide (dist (L.getLastD 0) rv + S.getLastD 0 ≤ s))
    · intro o x; by_cases h : dist (L.getLastD 0) x + S.getLastD 0 ≤ s <;> simp [h]
    · intro o x hx
      have := hfar _ (getLastD_mem hL) x (List.mem_of_mem_drop hx)
      simp only [decide_eq_false_iff_not]; omega
  · rename_i hli
    refine ⟨rfl, ?_⟩
    simp only
    apply foldl_guard_unchanged _ _
      (fun out k => addVal out (dist (L.getD (st.li + k) 0) (R.getLastD 0) + S.getD (st.li + k) 0) (L.getD (st.li + k) 0))
      (fun _ k => decide (dist (L.getD (st.li + k) 0) (R.getLastD 0) + S.getD (st.li + k) 0 ≤ s))
    · intro o k
      by_cases h : dist (L.getD (st.li + k) 0) (R.getLastD 0) + S.getD (st.li + k) 0 ≤ s <;> simp [h]
    · intro o k hk
      have hk' : st.li + k < L.length := by
        have := List.mem_range.mp hk; omega
      have := hfar _ (getD_mem hk') _ (getLastD_mem hR)
      simp only [decide_eq_false_iff_not]; omega

theorem carryStep_hit (L S R : List Nat) (s : Nat) (st : CarryState)
    (h : S.getD st.li 0 + dist (L.getD st.li 0) (R.getD st.ri 0) ≤ s) :
    (carryStep L S R s st).count = st.count + 1 ∧ (carryStep L S R s st).li = st.li + 1
      ∧ (carryStep L S R s st).ri = st.ri + 1 := by
  unfold carryStep
  simp only [h, if_true]
  exact ⟨trivial, trivial, trivial⟩

theorem carryStep_miss_lt (L S R : List Nat) (s : Nat) (st : CarryState)
    (h : ¬ S.getD st.li 0 + dist (L.getD st.li 0) (R.getD st.ri 0) ≤ s)
    (hlt : L.getD st.li 0 < R.getD st.ri 0) :
    carryStep L S R s st = { st with li := st.li + 1 } := by
  unfold carryStep
  simp only [h, hlt, if_true, if_false]

theorem carryStep_miss_ge (L S R : List Nat) (s : Nat) (st : CarryState)
    (h : ¬ S.getD st.li 0 + dist (L.getD st.li 0) (R.getD st.ri 0) ≤ s)
    (hlt : ¬ L.getD st.li 0 < R.getD st.ri 0) :
    carryStep L S R s st = { st with ri := st.ri + 1 } := by
  unfold carryStep
  simp only [h, hlt, if_false]

theorem carryLoop_far (L S R : List Nat) (s : Nat) (hL : L ≠ []) (hR : R ≠ []) (hfar : Far L R s) :
    ∀ (fuel : Nat) (st : CarryState), st.li < L.length → st.ri < R.length →
      (carryLoop L S R s fuel st).count = st.count ∧ (carryLoop L S R s fuel st).out = st.out := by
  intro fuel
  induction fuel with
  | zero => intro st _ _; exact ⟨rfl, rfl⟩
  | succ fuel ih =>
    intro st hli hri
    have hd : ¬ (S.getD st.li 0 + dist (L.getD st.li 0) (R.getD st.ri 0) ≤ s) := by
      have := hfar _ (getD_mem hli) _ (getD_mem hri)
      omega
    simp only [carryLoop]
    by_cases hlt : L.getD st.li 0 < R.getD st.ri 0
    · rw [carryStep_miss_lt L S R s st hd hlt]
      split
      · exact finishRest_far L S R s hL hR hfar _
      · rename_i hcont
        simp only [not_or, Nat.not_le] at hcont
        exact ih { st with li := st.li + 1 } hcont.1 hcont.2
    · rw [carryStep_miss_ge L S R s st hd hlt]
      split
      · exact finishRest_far L S R s hL hR hfar _
      · rename_i hcont
        simp only [not_or, Nat.not_le] at hcont
        exact ih { st with ri := st.ri + 1 } hcont.1 hcont.2

/-- no pair within the slop ⇒ the carrying intersection reports nothing and keeps nothing -/
theorem carrying_far (L S R : List Nat) (s : Nat) (hfar : Far L R s) : carrying L S R s = (0, [], []) := by
  unfold carrying
  by_cases he : L.isEmpty ∨ R.isEmpty
  · rw [if_pos he]
  · rw [if_neg he]
    have hL : L ≠ [] := by intro h; apply he; left; simp [h]
    have hR : R ≠ [] := by intro h; apply he; right; simp [h]
    have h0 : (0 : Nat) < L.length := List.length_pos_iff.mpr hL
    have h1 : (0 : Nat) < R.length := List.length_pos_iff.mpr hR
    have := carryLoop_far L S R s hL hR hfar (L.length + R.length + 1) ⟨0, 0, 0, []⟩ h0 h1
    simp only [this.1, this.2, List.reverse_nil, List.map_nil]

/-- a sloppy phrase of ≥ 3 terms matches on neither path when the first two processed terms have
no occurrence pair within the slop -/
theorem phrase3_far (a b : List Nat) (rest : List (List Nat)) (hrest : rest ≠ []) (s : Nat)
    (hfar : Far a b s) : phraseOff (a :: b :: rest) s = false ∧ phraseOn (a :: b :: rest) s = false := by
  have hc := carrying_far a [] b s hfar
  have hfold : phraseFold s (b :: rest) a [] = ([], [], []) := by
    cases rest with
    | nil => exact absurd rfl hrest
    | cons c r => simp [phraseFold, hc]
  constructor
  · simp [phraseOff, hfold, existsWithSlop, existsWithSlopF]
  · simp only [phraseOn, hfold]
    have hlen : 2 < (a :: b :: rest).length := by
      cases rest with
      | nil => exact absurd rfl hrest
      | cons c r => simp
    rw [if_pos hlen]
    simp [carrying]

/-! ### first step (no slops carried in): the count is positive exactly when a pair is within slop -/

theorem finishRest_count (L S R : List Nat) (s : Nat) (st : CarryState) :
    (finishRest L S R s st).count = st.count := by
  unfold finishRest; split <;> rfl

theorem carryStep_count_le (L S R : List Nat) (s : Nat) (st : CarryState) :
    st.count ≤ (carryStep L S R s st).count := by
  by_cases h : S.getD st.li 0 + dist (L.getD st.li 0) (R.getD st.ri 0) ≤ s
  · rw [(carryStep_hit L S R s st h).1]; omega
  · by_cases hlt : L.getD st.li 0 < R.getD st.ri 0
    · rw [carryStep_miss_lt L S R s st h hlt]; exact Nat.le_refl _
    · rw [carryStep_miss_ge L S R s st h hlt]; exact Nat.le_refl _

theorem carryLoop_count_mono (L S R : List Nat) (s : Nat) : ∀ (fuel : Nat) (st : CarryState),
    st.count ≤ (carryLoop L S R s fuel st).count := by
  intro fuel
  induction fuel with
  | zero => intro st; exact Nat.le_refl _
  | succ fuel ih =>
    intro st
    simp only [carryLoop]
    split
    · rw [finishRest_count]; exact carryStep_count_le L S R s st
    · exact Nat.le_trans (carryStep_count_le L S R s st) (ih _)

theorem drop_cons_getD (l : List Nat) (i : Nat) (h : i < l.length) : l.drop i = l.getD i 0 :: l.drop (i + 1) := by
  rw [List.getD_eq_getElem?_getD, List.getElem?_eq_getElem h]
  exact List.drop_eq_getElem_cons h

/-- with no carried slops the loop moves exactly like `intersection_exists_with_slop` until the
first hit -/
theorem carryLoop_first_hit (L R : List Nat) (s : Nat) : ∀ (fuel : Nat) (st : CarryState),
    st.li < L.length → st.ri < R.length → (L.length - st.li) + (R.length - st.ri) ≤ fuel →
    (st.count < (carryLoop L [] R s fuel st).count ↔
      existsWithSlopF s fuel (L.drop st.li) (R.drop st.ri) = true) := by
  intro fuel
  induction fuel with
  | zero => intro st h1 h2 h3; omega
  | succ fuel ih =>
    intro st hli hri hfuel
    rw [drop_cons_getD L st.li hli, drop_cons_getD R st.ri hri]
    simp only [carryLoop, existsWithSlopF]
    have hS : ([] : List Nat).getD st.li 0 = 0 := by simp
    by_cases hd : dist (L.getD st.li 0) (R.getD st.ri 0) ≤ s
    · have hd' : ([] : List Nat).getD st.li 0 + dist (L.getD st.li 0) (R.getD st.ri 0) ≤ s := by rw [hS]; omega
      have hstep := carryStep_hit L [] R s st hd'
      simp only [hd, if_true, iff_true]
      split
      · rw [finishRest_count, hstep.1]; omega
      · exact Nat.lt_of_lt_of_le (by rw [hstep.1]; omega) (carryLoop_count_mono L [] R s fuel _)
    · have hd' : ¬ ([] : List Nat).getD st.li 0 + dist (L.getD st.li 0) (R.getD st.ri 0) ≤ s := by rw [hS]; omega
      simp only [hd, if_false]
      by_cases hlt : L.getD st.li 0 < R.getD st.ri 0
      · rw [carryStep_miss_lt L [] R s st hd' hlt]
        simp only [hlt, if_true]
        split
        · rename_i hend
          rw [finishRest_count]
          have hl : L.length ≤ st.li + 1 := by
            rcases hend with h | h
            · exact h
            · omega
          have : L.drop (st.li + 1) = [] := List.drop_eq_nil_of_le hl
          rw [this]
          cases fuel <;> simp [existsWithSlopF]
        · rename_i hcont
          simp only [not_or, Nat.not_le] at hcont
          have := ih { st with li := st.li + 1 } hcont.1 hcont.2 (by simp only; omega)
          simp only at this
          rw [this, ← drop_cons_getD R st.ri hri]
      · rw [carryStep_miss_ge L [] R s st hd' hlt]
        simp only [hlt, if_false]
        split
        · rename_i hend
          rw [finishRest_count]
          have hl : R.length ≤ st.ri + 1 := by
            rcases hend with h | h
            · omega
            · exact h
          have : R.drop (st.ri + 1) = [] := List.drop_eq_nil_of_le hl
          rw [this]
          cases fuel <;> simp [existsWithSlopF]
        · rename_i hcont
          simp only [not_or, Nat.not_le] at hcont
          have := ih { st with ri := st.ri + 1 } hcont.1 hcont.2 (by simp only; omega)
          simp only at this
          rw [this, ← drop_cons_getD L st.li hli]

/-- `intersection_count_with_carrying_slop` on two increasing lists, no slops carried in: it
counts at least one match iff some occurrence pair is within the slop -/
theorem carrying_first_step (L R : List Nat) (s : Nat) (hl : L.Pairwise (· ≤ ·)) (hr : R.Pairwise (· ≤ ·)) :
    0 < (carrying L [] R s).1 ↔ PairWithin L R s := by
  unfold carrying
  by_cases he : L.isEmpty ∨ R.isEmpty
  · rw [if_pos he]
    simp only [Nat.lt_irrefl, false_iff]
    rintro ⟨a, ha, b, hb, _⟩
    rcases he with h | h
    · rw [List.isEmpty_iff.mp h] at ha; cases ha
    · rw [List.isEmpty_iff.mp h] at hb; cases hb
  · rw [if_neg he]
    have hL : L ≠ [] := by intro h; apply he; left; simp [h]
    have hR : R ≠ [] := by intro h; apply he; right; simp [h]
    have h0 : (0 : Nat) < L.length := List.length_pos_iff.mpr hL
    have h1 : (0 : Nat) < R.length := List.length_pos_iff.mpr hR
    have h := carryLoop_first_hit L R s (L.length + R.length + 1) ⟨0, 0, 0, []⟩ h0 h1 (by simp)
    simp only [List.drop_zero] at h
    simp only
    rw [h, existsWithSlopF_iff s _ L R (by omega) hl hr]

end TantivyModel.PhraseSlop
