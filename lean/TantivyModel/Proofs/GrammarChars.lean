import TantivyModel.Model.Grammar.Chars
namespace TantivyModel.Grammar.Chars
open TantivyModel.Grammar

theorem R.bind_ne_panic {α β : Type} (r : R α) (f : α → Str → R β)
    (hr : r ≠ .panic) (hf : ∀ a rest, f a rest ≠ .panic) : r.bind f ≠ .panic := by
  cases r with
  | ok a rest => exact hf a rest
  | fail => simp [R.bind]
  | panic => exact absurd rfl hr

theorem R.orElse_ne_panic {α : Type} (r : R α) (o : Unit → R α)
    (hr : r ≠ .panic) (ho : o () ≠ .panic) : r.orElse o ≠ .panic := by
  cases r with
  | ok a rest => simp [R.orElse]
  | fail => exact ho
  | panic => exact absurd rfl hr

theorem R.map_ne_panic {α β : Type} (r : R α) (f : α → β) (hr : r ≠ .panic) : r.map f ≠ .panic := by
  cases r with
  | ok a rest => simp [R.map]
  | fail => simp [R.map]
  | panic => exact absurd rfl hr

theorem plainLiteral_guarded (s : Str) : plainLiteral true s ≠ .panic := by
  unfold plainLiteral
  simp only
  split
  · simp
  · split <;> simp

/-- with the guard in `literal`, no part of the strict grammar panics -/
theorem noPanic (fuel : Nat) :
    (∀ s, pAst true fuel s ≠ .panic) ∧ (∀ s, pOperands true fuel s ≠ .panic)
    ∧ (∀ s, pOccurLeaf true fuel s ≠ .panic) ∧ (∀ s, pLeaf true fuel s ≠ .panic) := by
  induction fuel with
  | zero => simp [pAst, pOperands, pOccurLeaf, pLeaf]
  | succ f ih =>
    obtain ⟨hA, hO, hOL, hL⟩ := ih
    refine ⟨?_, ?_, ?_, ?_⟩
    · intro s
      unfold pAst
      apply R.bind_ne_panic _ _ (hOL _)
      intro first rest
      simp only
      split
      · simp
      · rename_i r1 _
        have := hO r1
        split
        · rename_i h; exact absurd h this
        · simp
        · simp
        · split <;> simp
    · intro s
      unfold pOperands
      simp only
      have h1 := hOL (skip0 (binaryOperand s).2)
      split
      · rename_i h; exact absurd h h1
      · simp
      · rename_i occ a r _
        have h2 := hO (skip0 r)
        split
        · rename_i h; exact absurd h h2
        · simp
        · simp
    · intro s
      unfold pOccurLeaf
      simp only
      apply R.bind_ne_panic _ _ (hL _)
      intro a r
      simp
    · intro s
      unfold pLeaf
      simp only
      apply R.orElse_ne_panic
      · split
        · apply R.bind_ne_panic _ _ (hA _)
          intro a r1
          split <;> simp
        · simp
      · apply R.orElse_ne_panic
        · split
          · split <;> simp
          · simp
        · apply R.orElse_ne_panic
          · split
            · split
              · exact R.map_ne_panic _ _ (hL _)
              · simp
            · simp
          · apply R.orElse_ne_panic
            · exact plainLiteral_guarded s
            · split
              · split
                · apply R.bind_ne_panic _ _ (hA _)
                  intro a r2
                  split <;> simp
                · simp
              · simp

theorem parseStrictWith_guarded_ne_panic (s : Str) : parseStrictWith true s ≠ .panic := by
  unfold parseStrictWith
  simp only
  have := (noPanic (8 * s.length + 16)).1 (skip0 s)
  split
  · rename_i h; exact absurd h this
  · simp
  · simp
  · split <;> simp

end TantivyModel.Grammar.Chars
