import TantivyModel.Model.Writer
/-!
Helper lemmas for C02: what `compute_deleted_bitset` / `skip_to` compute, the stamps of a batch.
-/
namespace TantivyModel.Writer
open TantivyModel.WriterSpec

variable {α : Type}

/-! ### the extracted comparisons

The model evaluates the four opstamp comparisons of the delete machinery with the operators the
extractor finds in the source (`Gen/WriterGuards.lean`).  The proofs are made for these
operators: if the source changes one of them, the executable model follows the source, and the
equations below - hence every theorem of `Props/C02.lean` that rests on them - no longer check. -/
@[simp] theorem isDeletedGuard_eq (a b : Nat) : isDeletedGuard a b = decide (a < b) := rfl
@[simp] theorem breakGuard_eq (a b : Nat) : breakGuard a b = decide (a > b) := rfl
@[simp] theorem behindGuard_eq (a b : Nat) : behindGuard a b = decide (a < b) := rfl
@[simp] theorem catchUpGuard_eq (a b : Nat) : catchUpGuard a b = decide (a < b) := rfl

/-- the delete operations a `compute_deleted_bitset(.., target)` run consumes -/
def processed (target : Nat) (rest : List (DelOp α)) : List (DelOp α) :=
  rest.takeWhile (fun del => decide (del.op ≤ target))

/-- is `d` removed by one of `dels` (`withMap`: per-document opstamps are consulted) -/
def hit (withMap : Bool) (dels : List (DelOp α)) (d : SDoc α) : Bool :=
  dels.any (fun del => del.q d.doc && isDeleted withMap d.op del.op)

theorem kill_eq (withMap : Bool) (del : DelOp α) (docs : List (SDoc α)) :
    kill withMap del docs
      = docs.map (fun d => { d with alive := d.alive && !(del.q d.doc && isDeleted withMap d.op del.op) }) := by
  unfold kill
  apply List.map_congr_left
  intro d _
  by_cases h : (del.q d.doc && isDeleted withMap d.op del.op) = true
  · simp [h]
  · have h' : (del.q d.doc && isDeleted withMap d.op del.op) = false := by simpa using h
    simp only [h', Bool.false_eq_true, if_false, Bool.not_false, Bool.and_true]

/-- `compute_deleted_bitset`: exactly the operations up to `target` are applied, each to the
documents it matches (and, with per-document opstamps, only to older documents); the cursor
moves past exactly those operations -/
theorem consume_spec (withMap : Bool) (target : Nat) (rest : List (DelOp α)) (docs : List (SDoc α))
    (c : Nat) :
    consume withMap target rest docs c
      = (docs.map (fun d => { d with alive := d.alive && !hit withMap (processed target rest) d }),
         c + (processed target rest).length) := by
  induction rest generalizing docs c with
  | nil => simp [consume, processed, hit]
  | cons del rest ih =>
    unfold consume
    by_cases h : del.op > target
    · have : ¬ del.op ≤ target := by omega
      simp [h, processed, this, hit]
    · have h2 : del.op ≤ target := by omega
      simp only [breakGuard_eq, decide_eq_true_eq, h, if_false]
      rw [ih, kill_eq]
      have hp : processed target (del :: rest) = del :: processed target rest := by
        simp [processed, h2]
      rw [hp]
      refine Prod.ext ?_ ?_
      · simp only [List.map_map]
        apply List.map_congr_left
        intro d _
        simp [hit, Bool.and_assoc, Bool.not_or]
      · simp; omega

/-- `skip_to`: the cursor moves past exactly the leading operations older than `target` -/
theorem skipTo_spec (target : Nat) (rest : List (DelOp α)) (c : Nat) :
    skipTo target rest c = c + (rest.takeWhile (fun del => decide (del.op < target))).length := by
  induction rest generalizing c with
  | nil => simp [skipTo]
  | cons del rest ih =>
    unfold skipTo
    by_cases h : del.op < target
    · simp [h, ih]; omega
    · simp [h]

theorem mem_takeWhile_prop {β : Type} {p : β → Bool} {l : List β} {x : β} (h : x ∈ l.takeWhile p) :
    p x = true := by
  induction l with
  | nil => simp at h
  | cons a l ih =>
    rw [List.takeWhile_cons] at h
    split at h
    · rename_i hp
      rcases List.mem_cons.mp h with rfl | h'
      · exact hp
      · exact ih h'
    · simp at h

theorem flatMap_congr' {β γ : Type} (l : List β) (f g : β → List γ) (h : ∀ x ∈ l, f x = g x) :
    l.flatMap f = l.flatMap g := by
  induction l with
  | nil => rfl
  | cons a l ih =>
    simp only [List.flatMap_cons]
    rw [h a (by simp), ih (fun x hx => h x (by simp [hx]))]

/-! ### stamps of a batch -/

/-- the items of a batch with the stamps `start, start+1, …` -/
def stampItems (start : Nat) : List (Item α) → List (Item α × Nat)
  | [] => []
  | it :: rest => (it, start) :: stampItems (start + 1) rest

def batchDels (l : List (Item α × Nat)) : List (DelOp α) :=
  l.filterMap (fun p => match p.1 with | .del q => some { op := p.2, q := q } | .add _ => none)

def batchAdds (l : List (Item α × Nat)) : List (α × Nat) :=
  l.filterMap (fun p => match p.1 with | .add d => some (d, p.2) | .del _ => none)

theorem batch_fold (items : List (Item α)) (st : Nat) (log : List (DelOp α)) (adds : List (α × Nat)) :
    items.foldl batchItem (st, log, adds)
      = (st + items.length, log ++ batchDels (stampItems st items), adds ++ batchAdds (stampItems st items)) := by
  induction items generalizing st log adds with
  | nil => simp [stampItems, batchDels, batchAdds]
  | cons it rest ih =>
    cases it with
    | add d =>
      simp only [List.foldl_cons, batchItem, ih, stampItems, batchDels, batchAdds, List.filterMap_cons,
        List.length_cons, List.append_assoc]
      simp; omega
    | del q =>
      simp only [List.foldl_cons, batchItem, ih, stampItems, batchDels, batchAdds, List.filterMap_cons,
        List.length_cons, List.append_assoc]
      simp; omega

theorem stampItems_stamps (start : Nat) (items : List (Item α)) :
    (stampItems start items).map (·.2) = List.range' start items.length := by
  induction items generalizing start with
  | nil => simp [stampItems]
  | cons it rest ih => simp [stampItems, ih, List.range'_succ]

theorem stampItems_items (start : Nat) (items : List (Item α)) :
    (stampItems start items).map (·.1) = items := by
  induction items generalizing start with
  | nil => simp [stampItems]
  | cons it rest ih => simp [stampItems, ih]

end TantivyModel.Writer
