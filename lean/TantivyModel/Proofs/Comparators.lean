import TantivyModel.Proofs.LazyKey
/-!
The comparators of `order.rs` on optional keys are strict weak orders whenever the value
comparison is: the hypothesis `StrictWeak gt` of the collector theorems is DERIVED for every
comparator `TopDocs` can be given (`Order::Asc/Desc`, the four `ComparatorEnum` variants, tuples of
them) over value types whose own comparison is a strict weak order.
-/
namespace TantivyModel.TopN

variable {τ : Type}

/-- the flipped comparison of a strict weak order is a strict weak order -/
theorem StrictWeak.flip {gt : τ → τ → Bool} (h : StrictWeak gt) : StrictWeak (fun a b => gt b a) where
  asymm a b hab := h.asymm b a hab
  negTrans a b c hab hbc := h.negTrans c b a hbc hab

theorem natOpt_strictWeak {c : τ → τ → Ordering} (h : StrictWeak (gtOf c)) : StrictWeak (gtOf (natOpt c)) where
  asymm a b hab := by
    cases a <;> cases b <;> simp_all [gtOf, natOpt]
    have hh := h.asymm _ _ (by simpa [gtOf] using hab)
    simpa [gtOf] using hh
  negTrans a b d hab hbd := by
    cases a <;> cases b <;> cases d <;> simp_all [gtOf, natOpt]
    have hh := h.negTrans _ _ _ (by simpa [gtOf] using hab) (by simpa [gtOf] using hbd)
    simpa [gtOf] using hh

theorem revOpt_strictWeak {c : τ → τ → Ordering} (h : StrictWeak (gtOf c)) : StrictWeak (gtOf (revOpt c)) :=
  (natOpt_strictWeak h).flip

theorem revNoneLower_strictWeak {c : τ → τ → Ordering} (h : StrictWeak (gtOf c)) :
    StrictWeak (gtOf (revNoneLower c)) where
  asymm a b hab := by
    cases a <;> cases b <;> simp_all [gtOf, revNoneLower]
    have hh := h.asymm _ _ (by simpa [gtOf] using hab)
    simpa [gtOf] using hh
  negTrans a b d hab hbd := by
    cases a <;> cases b <;> cases d <;> simp_all [gtOf, revNoneLower]
    have hh := h.negTrans _ _ _ (by simpa [gtOf] using hbd) (by simpa [gtOf] using hab)
    simpa [gtOf] using hh

theorem natNoneHigher_strictWeak {c : τ → τ → Ordering} (h : StrictWeak (gtOf c)) :
    StrictWeak (gtOf (natNoneHigher c)) where
  asymm a b hab := by
    cases a <;> cases b <;> simp_all [gtOf, natNoneHigher]
    have hh := h.asymm _ _ (by simpa [gtOf] using hab)
    simpa [gtOf] using hh
  negTrans a b d hab hbd := by
    cases a <;> cases b <;> cases d <;> simp_all [gtOf, natNoneHigher]
    have hh := h.negTrans _ _ _ (by simpa [gtOf] using hab) (by simpa [gtOf] using hbd)
    simpa [gtOf] using hh

theorem ofOrder_strictWeak {c : τ → τ → Ordering} (h : StrictWeak (gtOf c)) (asc : Bool) :
    StrictWeak (gtOf (ofOrder asc c)) := by
  unfold ofOrder
  cases asc
  · exact natOpt_strictWeak h
  · exact revNoneLower_strictWeak h

/-- the value comparison of `u64` / `i64` / dates (a linear order): `compare` -/
theorem natCompare_strictWeak : StrictWeak (gtOf (fun a b : Nat => compare a b)) where
  asymm a b hab := by
    simp only [gtOf, beq_iff_eq, Nat.compare_eq_gt] at hab
    simp only [gtOf, beq_eq_false_iff_ne, ne_eq, Nat.compare_eq_gt]; omega
  negTrans a b d hab hbd := by
    simp only [gtOf, beq_eq_false_iff_ne, ne_eq, Nat.compare_eq_gt] at *; omega

theorem intCompare_strictWeak : StrictWeak (gtOf (fun a b : Int => compare a b)) where
  asymm a b hab := by
    simp only [gtOf, beq_iff_eq, Int.compare_eq_gt] at hab
    simp only [gtOf, beq_eq_false_iff_ne, ne_eq, Int.compare_eq_gt]; omega
  negTrans a b d hab hbd := by
    simp only [gtOf, beq_eq_false_iff_ne, ne_eq, Int.compare_eq_gt] at *; omega

/-- the head swap law (needed by `gtOf_lexCmp`) for the optional-key comparators over `Nat` -/
theorem ofOrder_nat_swap (asc : Bool) (a b : Option Nat) :
    ofOrder asc (fun a b : Nat => compare a b) b a = .gt ↔ ofOrder asc (fun a b : Nat => compare a b) a b = .lt := by
  unfold ofOrder
  cases asc <;> cases a <;> cases b <;> simp [natOpt, revNoneLower, Nat.compare_eq_gt, Nat.compare_eq_lt]

end TantivyModel.TopN
