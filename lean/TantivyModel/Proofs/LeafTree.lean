import TantivyModel.Proofs.QueryLists
import TantivyModel.Proofs.PhraseSlop
import TantivyModel.Proofs.PhraseExact
/-
The leaf classifier of the pinned code (`leafTree`) produces, for every leaf that satisfies
`leafOk`, exactly the documents of the segment that satisfy the leaf.
-/
set_option linter.unusedSimpArgs false
set_option linter.unusedVariables false
namespace TantivyModel.BoolCompile
open TantivyModel.QuerySem TantivyModel.PhraseSlop

/-- positions of every posting are increasing (what the indexer produces) -/
def DocsWf (docs : List ADoc) : Prop :=
  ∀ doc ∈ docs, ∀ p ∈ doc.postings, p.positions.Pairwise (· ≤ ·)

theorem docsWhere_nil (docs : List ADoc) (p : ADoc → Bool) (h : (docsWhere docs p).isEmpty = true)
    (d : Nat) (hd : d < docs.length) : p docs[d] = false := by
  have := contains_docsWhere docs p d hd
  rw [List.isEmpty_iff.mp h] at this
  simpa using this.symm

theorem docsWhere_full (docs : List ADoc) (p : ADoc → Bool)
    (h : (docsWhere docs p).length = docs.length) (d : Nat) (hd : d < docs.length) :
    p docs[d] = true := by
  unfold docsWhere at h
  rw [List.length_map] at h
  have hz : (docs.zipIdx).length = docs.length := by simp
  rw [← hz] at h
  have := List.length_filter_eq_length_iff.mp h (docs[d], d)
    (List.mem_zipIdx_iff_getElem?.mpr (by simp [List.getElem?_eq_getElem hd]))
  simpa using this

theorem positionsOf_nil {d : ADoc} {f : Nat} {t : Bytes} (h : hasTerm d f t = false) :
    positionsOf d f t = [] := by
  unfold positionsOf
  unfold hasTerm at h
  have : d.postings.find? (fun p => p.field == f && p.term == t) = none := by
    rw [List.find?_eq_none]
    intro x hx
    have := List.any_eq_false.mp h x hx
    exact this
  rw [this]

theorem positionsOf_sorted {docs : List ADoc} (hw : DocsWf docs) {d : ADoc} (hd : d ∈ docs) (f : Nat) (t : Bytes) :
    (positionsOf d f t).Pairwise (· ≤ ·) := by
  unfold positionsOf
  cases h : d.postings.find? (fun p => p.field == f && p.term == t) with
  | none => simp
  | some p => exact hw d hd p (List.mem_of_find?_eq_some h)

theorem slopChain_nil_mem (rest : List (List Nat)) (h : [] ∈ rest) : ∀ prev budget,
    slopChain prev budget rest = false := by
  induction rest with
  | nil => simp at h
  | cons a rest ih =>
    intro prev budget
    simp only [slopChain]
    rcases List.mem_cons.mp h with h | h
    · subst h; simp
    · rw [List.any_eq_false]
      intro p _
      simp [ih h]

theorem phraseSlop_nil_mem (adjs : List (List Nat)) (s : Nat) (h : [] ∈ adjs) : phraseSlop adjs s = false := by
  cases adjs with
  | nil => simp at h
  | cons a rest =>
    simp only [phraseSlop]
    rcases List.mem_cons.mp h with h | h
    · subst h; simp
    · rw [List.any_eq_false]
      intro p _
      simp [slopChain_nil_mem rest h]

theorem phraseExact_nil_mem (adjs : List (List Nat)) (h : [] ∈ adjs) : phraseExact adjs = false := by
  cases adjs with
  | nil => simp at h
  | cons a rest =>
    simp only [phraseExact]
    rcases List.mem_cons.mp h with h | h
    · subst h; simp
    · rw [List.any_eq_false]
      intro p _
      simp only [Bool.not_eq_true]
      rw [List.all_eq_false]
      exact ⟨[], h, by simp⟩

theorem semPhrase_false_of_missing (d : ADoc) (f : Nat) (terms : List (Nat × Bytes)) (slop : Nat)
    (h : ∃ ot ∈ terms, hasTerm d f ot.2 = false) : semPhrase d f terms slop = false := by
  obtain ⟨ot, hot, hm⟩ := h
  have hmem : [] ∈ adjusted d f (maxOff terms) terms := by
    unfold adjusted
    rw [List.mem_map]
    refine ⟨ot, hot, ?_⟩
    obtain ⟨o, t⟩ := ot
    simp [positionsOf_nil hm]
  unfold semPhrase
  simp only
  split
  · exact phraseExact_nil_mem _ hmem
  · exact phraseSlop_nil_mem _ _ hmem

theorem docFreq_zero {docs : List ADoc} {f : Nat} {t : Bytes} (h : docFreq docs f t = 0)
    (d : ADoc) (hd : d ∈ docs) : hasTerm d f t = false := by
  unfold docFreq at h
  have := List.filter_eq_nil_iff.mp (List.eq_nil_of_length_eq_zero h) d hd
  simpa using this

theorem insertByKey_perm (x : Nat × List Nat) (l : List (Nat × List Nat)) : (insertByKey x l).Perm (x :: l) := by
  induction l with
  | nil => simp [insertByKey]
  | cons y r ih =>
    simp only [insertByKey]
    split
    · exact List.Perm.refl _
    · exact ((List.Perm.cons y ih).trans (List.Perm.swap x y r))

theorem foldl_insertByKey_perm (xs acc : List (Nat × List Nat)) :
    (xs.foldl (fun acc x => insertByKey x acc) acc).Perm (xs ++ acc) := by
  induction xs generalizing acc with
  | nil => simp
  | cons x xs ih =>
    simp only [List.foldl_cons, List.cons_append]
    refine (ih (insertByKey x acc)).trans ?_
    refine (List.Perm.append_left xs (insertByKey_perm x acc)).trans ?_
    exact List.perm_middle

/-- the processing order is a permutation of the adjusted position lists -/
theorem costOrder_perm (docs : List ADoc) (d : ADoc) (f : Nat) (terms : List (Nat × Bytes)) :
    (costOrder docs d f terms).Perm (adjusted d f (maxOff terms) terms) := by
  unfold costOrder
  simp only
  have h := foldl_insertByKey_perm ((terms.map (fun (x : Nat × Bytes) => docFreq docs f x.2)).zip
    (adjusted d f (maxOff terms) terms)) []
  have h2 := h.map (·.2)
  have e : (fun (x : Nat × Bytes) => match x with | (_, t) => docFreq docs f t)
      = (fun (x : Nat × Bytes) => docFreq docs f x.2) := by
    funext x; obtain ⟨o, t⟩ := x; rfl
  rw [e]
  refine h2.trans ?_
  rw [List.append_nil, List.map_snd_zip]
  · simp [adjusted]

theorem adjusted_sorted {docs : List ADoc} (hw : DocsWf docs) {d : ADoc} (hd : d ∈ docs) (f mx : Nat)
    (terms : List (Nat × Bytes)) : ∀ l ∈ adjusted d f mx terms, l.Pairwise (· ≤ ·) := by
  intro l hl
  unfold adjusted at hl
  obtain ⟨ot, _, rfl⟩ := List.mem_map.mp hl
  obtain ⟨o, t⟩ := ot
  exact (positionsOf_sorted hw hd f t).map _ (fun a b h => by omega)

theorem implPhrase_eq (scoring : Bool) (docs : List ADoc) (hw : DocsWf docs) (f : Nat)
    (terms : List (Nat × Bytes)) (slop : Nat) (hok : leafOk (.phrase f terms slop) = true)
    (d : ADoc) (hd : d ∈ docs) :
    implPhrase scoring docs f terms slop d = semPhrase d f terms slop := by
  unfold implPhrase
  by_cases hs : slop = 0
  · subst hs
    simp only [if_true]
    split
    · rename_i hc
      have hlen : 2 ≤ terms.length := by
        simp only [Bool.and_eq_true, decide_eq_true_eq] at hc; exact hc.1
      have hperm := costOrder_perm docs d f terms
      have hsorted : ∀ l ∈ costOrder docs d f terms, l.Pairwise (· ≤ ·) :=
        fun l hl => adjusted_sorted hw hd f _ terms l (hperm.mem_iff.mp hl)
      have hl2 : 2 ≤ (costOrder docs d f terms).length := by
        rw [hperm.length_eq]; simp [adjusted]; exact hlen
      have himpl := exact_impl_eq_spec (costOrder docs d f terms) hl2 hsorted
      have hne : costOrder docs d f terms ≠ [] := by
        intro h; rw [h] at hl2; simp at hl2
      have hpe := phraseExact_perm _ _ hne hperm
      have hsem : semPhrase d f terms 0 = phraseExact (adjusted d f (maxOff terms) terms) := by
        simp [semPhrase]
      rw [hsem, ← hpe]
      cases scoring
      · simpa using himpl.1
      · simpa using himpl.2
    · rfl
  · simp only [hs, if_false]
    by_cases hall : terms.all (fun x => hasTerm d f x.2) = true
    · have hlen : terms.length = 2 := by
        simp only [leafOk, Bool.or_eq_true, beq_iff_eq] at hok
        rcases hok with h | h
        · exact absurd h hs
        · exact h
      match terms, hlen with
      | [(o1, t1), (o2, t2)], _ =>
        have hall' : (List.all [(o1, t1), (o2, t2)] fun x => match x with | (_, t) => hasTerm d f t) = true := by
          simpa using hall
        simp only [hall', if_true]
        have s1 : ((positionsOf d f t1).map (· + (maxOff [(o1, t1), (o2, t2)] - o1))).Pairwise (· ≤ ·) :=
          (positionsOf_sorted hw hd f t1).map _ (fun a b h => by omega)
        have s2 : ((positionsOf d f t2).map (· + (maxOff [(o1, t1), (o2, t2)] - o2))).Pairwise (· ≤ ·) :=
          (positionsOf_sorted hw hd f t2).map _ (fun a b h => by omega)
        have two := phrase_two_terms _ _ slop s1 s2
        have hsem : semPhrase d f [(o1, t1), (o2, t2)] slop
            = phraseSlop [(positionsOf d f t1).map (· + (maxOff [(o1, t1), (o2, t2)] - o1)),
                (positionsOf d f t2).map (· + (maxOff [(o1, t1), (o2, t2)] - o2))] slop := by
          simp [semPhrase, hs, adjusted]
        rw [hsem]
        have hco : costOrder docs d f [(o1, t1), (o2, t2)]
              = [(positionsOf d f t1).map (· + (maxOff [(o1, t1), (o2, t2)] - o1)),
                  (positionsOf d f t2).map (· + (maxOff [(o1, t1), (o2, t2)] - o2))]
            ∨ costOrder docs d f [(o1, t1), (o2, t2)]
              = [(positionsOf d f t2).map (· + (maxOff [(o1, t1), (o2, t2)] - o2)),
                  (positionsOf d f t1).map (· + (maxOff [(o1, t1), (o2, t2)] - o1))] := by
          simp only [costOrder, adjusted, List.map_cons, List.map_nil, List.zip_cons_cons, List.zip_nil_right,
            List.foldl_cons, List.foldl_nil, insertByKey]
          split <;> simp
        rcases hco with h | h <;> rw [h] <;> cases scoring <;> simp [two.1, two.2.1, two.2.2.1, two.2.2.2]
    · have hall' : (List.all terms fun x => match x with | (_, t) => hasTerm d f t) = false := by
        have : (fun (x : Nat × Bytes) => match x with | (_, t) => hasTerm d f t) = (fun x => hasTerm d f x.2) := by
          funext x; obtain ⟨o, t⟩ := x; rfl
        rw [this]; simpa using hall
      simp only [hall', Bool.false_eq_true, if_false]
      symm
      apply semPhrase_false_of_missing
      have := List.all_eq_false.mp (by simpa using hall : terms.all (fun x => hasTerm d f x.2) = false)
      obtain ⟨ot, hot, hn⟩ := this
      exact ⟨ot, hot, by simpa using hn⟩

theorem getElem_mem' (docs : List ADoc) (d : Nat) (hd : d < docs.length) : docs[d] ∈ docs :=
  List.getElem_mem hd

/-- the classifier the driver executes is sound on well-formed segments -/
theorem leafTree_soundOn (docs : List ADoc) (hw : DocsWf docs) :
    ∀ (scoring b : Bool) (l : Leaf) (d : Nat) (h : d < docs.length),
      leafOk l = true → mem docs.length (leafTree scoring b l docs) d = semLeaf l docs[d] := by
  intro scoring b l d hd hok
  have hc := contains_docsWhere docs (semLeaf l) d hd
  cases l with
  | all => cases b <;> simp [leafTree, mem, semLeaf, hd]
  | empty => simp [leafTree, mem, semLeaf]
  | term f t =>
    simp only [leafTree]
    split
    · rename_i h
      simp only [mem]
      exact (docsWhere_nil docs _ h d hd).symm
    · split
      · rename_i h1 h2
        simp only [mem, hd, decide_true]
        have hl : (docsWhere docs (semLeaf (.term f t))).length = docs.length := by
          simp only [Bool.and_eq_true, beq_iff_eq] at h2; exact h2.2
        exact (docsWhere_full docs _ hl d hd).symm
      · simp only [mem]; exact hc
  | phrase f terms slop =>
    simp only [leafTree]
    split
    · rename_i h
      simp only [mem, semLeaf]
      symm
      apply semPhrase_false_of_missing
      obtain ⟨ot, hot, hz⟩ := List.any_eq_true.mp h
      refine ⟨ot, hot, ?_⟩
      obtain ⟨o, t⟩ := ot
      exact docFreq_zero (by simpa using hz) _ (List.getElem_mem hd)
    · simp only [mem, semLeaf]
      rw [contains_docsWhere docs _ d hd]
      exact implPhrase_eq scoring docs hw f terms slop hok _ (List.getElem_mem hd)
  | phrasePrefix f terms poff pre =>
    simp only [leafTree]
    split
    · rename_i h
      simp only [mem]
      exact (docsWhere_nil docs _ h d hd).symm
    · simp only [mem]; exact hc
  | exists_ f =>
    simp only [leafTree]
    split
    · rename_i h
      simp only [mem]
      exact (docsWhere_nil docs _ h d hd).symm
    · split
      · rename_i h1 h2
        have hl : (docsWhere docs (semLeaf (.exists_ f))).length = docs.length := by
          simpa using h2
        have := docsWhere_full docs _ hl d hd
        cases b <;> simp [mem, hd, this]
      · simp only [mem]; exact hc
  | rangeTerm f lo hi => simp only [leafTree, mem]; exact hc
  | rangeFast f lo hi => simp only [leafTree, mem]; exact hc
  | termSet ts => simp only [leafTree, mem]; exact hc
  | fuzzy f t dm tr pre =>
    have hp : pre = false := by simpa [leafOk] using hok
    subst hp
    simp only [leafTree, mem]
    rw [contains_docsWhere docs _ d hd]
    simp [semLeaf, implFuzzyMatch]
  | regex f lang => simp only [leafTree, mem]; exact hc

theorem sortedB_sound : ∀ (l : List Nat), sortedB l = true → l.Pairwise (· ≤ ·) := by
  intro l
  induction l with
  | nil => intro _; simp
  | cons a r ih =>
    cases r with
    | nil => intro _; simp
    | cons b r' =>
      intro h
      simp only [sortedB, Bool.and_eq_true, decide_eq_true_eq] at h
      have hr := ih h.2
      rw [List.pairwise_cons]
      refine ⟨?_, hr⟩
      intro x hx
      rcases List.mem_cons.mp hx with rfl | hx
      · exact h.1
      · exact Nat.le_trans h.1 ((List.pairwise_cons.mp hr).1 x hx)

theorem docsWfB_sound (docs : List ADoc) (h : docsWfB docs = true) : DocsWf docs := by
  intro d hd p hp
  have h1 := List.all_eq_true.mp h d hd
  have h2 := List.all_eq_true.mp h1 p hp
  exact sortedB_sound _ h2

end TantivyModel.BoolCompile
