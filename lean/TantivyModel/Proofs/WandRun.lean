import TantivyModel.Proofs.WandMachine
/-!
The pruning machine stated on *total-score functions* (independent of how the scorers are stored,
permuted or removed): a run is a sequence of

* dead moves — the totals only decrease, and only at documents that were dead (not above the
  current threshold);
* evaluations of a document `d` such that everything before `d` is dead: the callback is offered
  `d` iff its total is above the threshold; afterwards only the totals up to `d` may change;
* a stop when everything left is dead.

Every such run computes the exhaustive result (`run_sound`). The mirrored loops of `block_wand`
and `block_wand_intersection` are shown to be such runs.
-/
namespace TantivyModel.Wand
open List

variable {σ : Type}

/-- runs of the machine from documents `lo..B`, threshold state `(s, θ)`, totals `tot`, ending in `out` -/
inductive Run (cb : σ → Nat → Nat → σ × Nat) (B : Nat) :
    (Nat → Nat) → Nat → σ × Nat → σ × Nat → Prop
  | stop {tot lo s θ} : (∀ d, lo ≤ d → d < B → tot d ≤ θ) → Run cb B tot lo (s, θ) (s, θ)
  | dead {tot tot' lo s θ out} :
      (∀ d, lo ≤ d → d < B → tot' d ≤ tot d ∧ (tot' d ≠ tot d → tot d ≤ θ)) →
      Run cb B tot' lo (s, θ) out → Run cb B tot lo (s, θ) out
  | eval {tot tot' lo s θ out} (d : Nat) :
      lo ≤ d → d < B → (∀ e, lo ≤ e → e < d → tot e ≤ θ) →
      (∀ e, d < e → e < B → tot' e = tot e) →
      Run cb B tot' (d + 1) (if θ < tot d then cb s d (tot d) else (s, θ)) out →
      Run cb B tot lo (s, θ) out

theorem run_sound {cb : σ → Nat → Nat → σ × Nat} {R : σ → Nat → Prop} (hcb : MonoCb cb R) {B : Nat}
    {tot : Nat → Nat} {lo : Nat} {st out : σ × Nat} (h : Run cb B tot lo st out)
    (hR : R st.1 st.2) (hlo : lo ≤ B) : out = exhRange cb tot lo (B - lo) st := by
  induction h with
  | @stop tot lo s θ hd =>
    exact (exhRange_dead tot (B - lo) lo s θ fun d h1 h2 => hd d h1 (by omega)).symm
  | @dead tot tot' lo s θ out hmove _ ih =>
    rw [ih hR hlo]
    apply exhRange_congr hcb _ _ _ _ _ _ hR
    intro d h1 h2 hor
    have hm := hmove d h1 (by omega)
    by_cases hne : tot' d = tot d
    · exact hne
    · have := hm.2 hne
      rcases hor with h' | h' <;> omega
  | @eval tot tot' lo s θ out d hlod hdB hbefore hafter _ ih =>
    have hsplit : B - lo = (d - lo) + (1 + (B - (d + 1))) := by omega
    rw [hsplit, exhRange_split, exhRange_split]
    have hzero : exhRange cb tot lo (d - lo) (s, θ) = (s, θ) :=
      exhRange_dead tot (d - lo) lo s θ fun e h1 h2 => hbefore e h1 (by omega)
    rw [hzero]
    have hlod' : lo + (d - lo) = d := by omega
    rw [hlod']
    have hone : exhRange cb tot d 1 (s, θ) = (if θ < tot d then cb s d (tot d) else (s, θ)) := by
      simp [exhRange]
    rw [hone]
    have hR' : R (if θ < tot d then cb s d (tot d) else (s, θ)).1
        (if θ < tot d then cb s d (tot d) else (s, θ)).2 := by
      by_cases h1 : θ < tot d
      · rw [if_pos h1]; exact (hcb.step s θ d (tot d) hR h1).1
      · rw [if_neg h1]; exact hR
    rw [ih hR' (by omega)]
    generalize (if θ < tot d then cb s d (tot d) else (s, θ)) = st' at hR' ⊢
    obtain ⟨s', θ'⟩ := st'
    apply exhRange_congr hcb _ _ _ _ _ _ hR'
    intro e he he' _
    exact hafter e (by omega) (by omega)

end TantivyModel.Wand
