import TantivyModel.Proofs.DocSet.BufferedUnionSeek
import TantivyModel.Proofs.DocSet.IntersectionCount
/-! `BufferedUnionScorer::seek_danger` and the danger zones it leaves -/
namespace TantivyModel.DocSet.BUnion
open TantivyModel.DocSet

variable {σ : Type} {C : DS σ} {VC : σ → List Nat → Prop} {WC : σ → Nat → List Nat → Prop}

theorem isUnion_seek {U : List Nat} {ls : List (List Nat)} (hU : SimpleUnion.IsUnion U ls)
    (hss : ∀ li ∈ ls, Sorted li) (t : Nat) :
    SimpleUnion.IsUnion (Spec.seek t U) (ls.map (Spec.seek t)) := by
  refine ⟨hU.1.seek t, fun x => ?_⟩
  rw [Spec.mem_seek hU.1, hU.2 x]
  constructor
  · rintro ⟨⟨li, hli, hx⟩, hge⟩
    exact ⟨Spec.seek t li, List.mem_map_of_mem hli, (Spec.mem_seek (hss li hli) x).mpr ⟨hx, hge⟩⟩
  · rintro ⟨li', hli', hx⟩
    obtain ⟨li, hli, rfl⟩ := List.mem_map.mp hli'
    have := (Spec.mem_seek (hss li hli) x).mp hx
    exact ⟨⟨li, hli, this.1⟩, this.2⟩

/-- the tail of the far branch of `seek`: drop exhausted children, refill, pop -/
theorem far_law (hC : Lawful C VC WC) (hscore : ∀ {c l}, VC c l → VC (C.score c).2 l)
    {H : Nat} (hH : 64 ∣ H) (hH0 : 0 < H) (s : State σ) (sc : Array Nat) {ds1 : List σ}
    {lsT : List (List Nat)} {UT : List Nat} (h1 : All2 VC ds1 lsT) (hU : SimpleUnion.IsUnion UT lsT) :
    V VC H (match refill C H ({ s with window := [], scores := sc, docsets := ds1.filter (fun c => C.doc c != TERMINATED) } : State σ) with
      | none => { ({ s with window := [], scores := sc, docsets := ds1.filter (fun c => C.doc c != TERMINATED) } : State σ) with doc := TERMINATED }
      | some s2 => advance C H s2) UT := by
  obtain ⟨ls', i1, i2, i3⟩ := filter_nonempty hC h1
  have hU' : SimpleUnion.IsUnion UT ls' := ⟨hU.1, fun x => by rw [hU.2 x, i3 x]⟩
  have key := refill_pop_law' hC hscore hH hH0
    (s' := ({ s with window := [], scores := sc, docsets := ds1.filter (fun c => C.doc c != TERMINATED) } : State σ))
    rfl i1 i2 hU'
  revert key
  generalize refill C H ({ s with window := [], scores := sc, docsets := ds1.filter (fun c => C.doc c != TERMINATED) } : State σ) = r
  cases r with
  | none =>
    intro hnil
    simp only at hnil ⊢
    subst hnil
    rw [isUnion_nil hU']
    exact ⟨[], [], i1, by simp, ⟨Sorted.nil, by simp⟩, List.Pairwise.nil, by simp, by simp, Sorted.nil,
      Or.inl ⟨rfl, rfl, rfl, rfl⟩⟩
  | some s2 =>
    rintro ⟨s3, f1, hV3⟩
    simp only [advance, f1]
    exact hV3

/-- children that are valid or in a danger zone of a target `≤ t'` are re-validated by
`seek(max(doc, t'))` -/
theorem revalidate_dst (hC : Lawful C VC WC) {t t' : Nat} (htt : t ≤ t') (ht : t' ≤ TERMINATED)
    {cs : List σ} {ls : List (List Nat)} (h : All2 (Inter.DSt VC WC t) cs ls) :
    All2 VC (cs.map (fun c => C.seek (max (C.doc c) t') c)) (ls.map (Spec.seek t')) := by
  induction h with
  | nil => exact All2.nil
  | @cons c li cs lis h1 _ ih =>
    refine All2.cons ?_ ih
    have hs := h1.sorted hC
    have hdle := h1.doc_le hC
    have hdT : C.doc c ≤ TERMINATED := Nat.le_trans hdle (Spec.doc_le hs)
    have hmT : max (C.doc c) t' ≤ TERMINATED := Nat.max_le.mpr ⟨hdT, ht⟩
    have hV : VC (C.seek (max (C.doc c) t') c) (Spec.seek (max (C.doc c) t') li) := by
      rcases h1 with h1 | ⟨t0, h0, hW⟩
      · exact hC.seek h1 (Nat.le_max_left _ _) hmT
      · exact hC.wseek hW (Nat.le_trans h0 (Nat.le_trans htt (Nat.le_max_right _ _))) (Nat.le_max_left _ _) hmT
    have e : Spec.seek (max (C.doc c) t') li = Spec.seek t' li := by
      by_cases hlt : C.doc c ≤ t'
      · rw [Nat.max_eq_right hlt]
      · have hgt : t' ≤ C.doc c := by omega
        rw [Nat.max_eq_left hgt, Spec.seek_of_le hdle hs, Spec.seek_of_le (Nat.le_trans hgt hdle) hs]
    show VC (C.seek (max (C.doc c) t') c) (Spec.seek t' li)
    rw [← e]; exact hV

theorem all2_dst_sorted (hC : Lawful C VC WC) {t : Nat} {cs : List σ} {ls : List (List Nat)}
    (h : All2 (Inter.DSt VC WC t) cs ls) : ∀ li ∈ ls, Sorted li := Inter.all2_DSt_sorted hC h

/-- `seek(t')` from a state whose buffered part lies entirely below `t'` and whose children are
valid or in danger zones of targets `≤ t'` (the state `seek_danger` leaves on its far path) -/
theorem seek_far_dst (hC : Lawful C VC WC) (hscore : ∀ {c l}, VC c l → VC (C.score c).2 l)
    {H : Nat} (hH : 64 ∣ H) (hH0 : 0 < H) (fx : Fix) {s : State σ} {t t' : Nat} {ls : List (List Nat)}
    {U : List Nat} (htt : t ≤ t') (ht : t' ≤ TERMINATED) (hdoc : s.doc < t') (hfar : s.ws + H ≤ t')
    (h2 : All2 (Inter.DSt VC WC t) s.docsets ls) (hU : SimpleUnion.IsUnion U ls) :
    V VC H (seek fx C H t' s) (Spec.seek t' U) := by
  unfold seek
  have hge : ¬ s.doc ≥ t' := by omega
  have hgap : ¬ t' - s.ws < H := by omega
  simp only [hge, if_false, inHorizonGap_eq, hgap, decide_false, Bool.false_eq_true, revalidate_guard, Bool.or_true, if_true]
  exact far_law hC hscore hH hH0 s _ (revalidate_dst hC htt ht h2) (isUnion_seek hU (all2_dst_sorted hC h2) t')

theorem DSt.sd (hC : Lawful C VC WC) {t : Nat} {c : σ} {li : List Nat} (h : Inter.DSt VC WC t c li)
    (ht : t ≤ TERMINATED) : SDPost VC WC li t True (C.seekDanger t c) := by
  rcases h with h1 | ⟨t0, h0, hW⟩
  · exact hC.sdV h1 ht
  · exact hC.sdW hW h0 ht

/-- the loop of `seek_danger` over the children (it stops at the first hit) -/
theorem dangerChildren_law (hC : Lawful C VC WC) {t : Nat} (ht : t ≤ TERMINATED) :
    ∀ {cs : List σ} {ls : List (List Nat)}, All2 (Inter.DSt VC WC t) cs ls → ∀ (m : Nat),
      ∃ ls', All2 (Inter.DSt VC WC t) (dangerChildren C t cs m).2 ls' ∧ Exclude.Agree t ls ls'
        ∧ ((dangerChildren C t cs m).1.1 = true → ∃ li ∈ ls, t ∈ li)
        ∧ ((dangerChildren C t cs m).1.1 = false →
            (∀ li ∈ ls, t ∉ li) ∧ (dangerChildren C t cs m).1.2 ≤ m
            ∧ ((t < m ∨ m = TERMINATED) → (t < (dangerChildren C t cs m).1.2 ∨ (dangerChildren C t cs m).1.2 = TERMINATED))
            ∧ ((∀ li ∈ ls, (dangerChildren C t cs m).1.2 ≤ Spec.doc (Spec.seek t li)))) := by
  intro cs ls h
  induction h with
  | nil =>
    intro m
    exact ⟨[], All2.nil, All2.nil, by simp [dangerChildren], by simp [dangerChildren]⟩
  | @cons c li cs lis h1 h2 ih =>
    intro m
    have hs := h1.sorted hC
    have key := DSt.sd hC h1 ht
    have hagree : ∀ x, t ≤ x → (x ∈ Spec.seek t li ↔ x ∈ li) := fun x hx => Inter.seek_agree hs t x hx
    simp only [dangerChildren]
    revert key
    generalize C.seekDanger t c = r
    rcases r with ⟨r1, c'⟩
    cases r1 with
    | found =>
      simp only [SDPost]
      rintro ⟨hm, hV⟩
      refine ⟨Spec.seek t li :: lis, All2.cons (Or.inl hV) h2, All2.cons hagree (Exclude.Agree.refl t lis),
        fun _ => ⟨li, by simp, hm⟩, fun h => by simp at h⟩
    | lower b =>
      simp only [SDPost]
      rintro ⟨hm, hW, hb1, hb2, hb3⟩
      obtain ⟨ls', i1, i2, i3, i4⟩ := ih (min m b)
      refine ⟨Spec.seek t li :: ls', All2.cons (Or.inr ⟨t, Nat.le_refl _, hW⟩) i1, All2.cons hagree i2, ?_, ?_⟩
      · intro hhit
        obtain ⟨lj, hlj, hx⟩ := i3 hhit
        exact ⟨lj, List.mem_cons_of_mem _ hlj, hx⟩
      · intro hmiss
        obtain ⟨j1, j2, j3, j4⟩ := i4 hmiss
        refine ⟨?_, by omega, ?_, ?_⟩
        · intro lj hlj
          rcases List.mem_cons.mp hlj with rfl | h'
          · exact hm
          · exact j1 lj h'
        · intro hm0
          apply j3
          rcases hm0 with h | h <;> rcases hb1 with h' | h' <;> omega
        · intro lj hlj
          rcases List.mem_cons.mp hlj with rfl | h'
          · have := hb3 trivial; omega
          · exact j4 lj h'

/-- the danger zones of the union (final form): the far path keeps reference lists `ls` (with union
`U`) with which the children's actual lists agree above `t` -/
def W (VC : σ → List Nat → Prop) (WC : σ → Nat → List Nat → Prop) (H : Nat) (s : State σ) (t : Nat)
    (l : List Nat) : Prop :=
  (∃ l0, V VC H s l0 ∧ t ∉ l0 ∧ l = Spec.seek t l0)
  ∨ (∃ ls ls' U, All2 (Inter.DSt VC WC t) s.docsets ls' ∧ Exclude.Agree t ls ls' ∧ (∀ li ∈ ls, Sorted li)
      ∧ SimpleUnion.IsUnion U ls ∧ s.doc < t ∧ s.ws + H ≤ t ∧ t ≤ TERMINATED
      ∧ (∀ x ∈ Spec.seek t U, t < x) ∧ l = Spec.seek t U)

theorem agree_union {t : Nat} {ls ls' : List (List Nat)} (h : Exclude.Agree t ls ls') {x : Nat} (hx : t ≤ x) :
    (∃ li ∈ ls', x ∈ li) ↔ ∃ li ∈ ls, x ∈ li := by
  induction h with
  | nil => simp
  | cons h1 _ ih =>
    simp only [List.mem_cons, exists_eq_or_imp]
    rw [h1 x hx, ih]

theorem buffered_guard : decide (Gen.UNION_SEEK_DANGER_BELOW_WINDOW_BUFFERED = 1) = true := by decide

/-- `seek` without the `doc ≤ target` precondition (a target at or below `doc` does not move) -/
theorem seek_any (hC : Lawful C VC WC) (hscore : ∀ {c l}, VC c l → VC (C.score c).2 l)
    {H : Nat} (hH : 64 ∣ H) (hH0 : 0 < H) (fx : Fix) {s : State σ} {l : List Nat} {t : Nat}
    (hV : V VC H s l) (ht : t ≤ TERMINATED) : V VC H (seek fx C H t s) (Spec.seek t l) := by
  by_cases hd : s.doc ≤ t
  · exact seek_law hC hscore hH hH0 fx hV hd ht
  · have hcore := core0 hC hscore hH hH0
    have hge : s.doc ≥ t := by omega
    unfold seek
    simp only [hge, if_true]
    rw [Spec.seek_of_le (by rw [← hcore.doc_eq hV]; exact hge) (hcore.sorted hV)]
    exact hV

/-- the miss / hit analysis of a seek that re-validates (buffered path of `seek_danger`) -/
theorem sd_buffered (hC : Lawful C VC WC) (hscore : ∀ {c l}, VC c l → VC (C.score c).2 l)
    {H : Nat} (hH : 64 ∣ H) (hH0 : 0 < H) {s' : State σ} {l : List Nat} {t : Nat}
    (hs : Sorted l) (htlt : t < TERMINATED) (hV' : V VC H s' (Spec.seek t l)) :
    SDPost (V VC H) (W VC WC H) l t True (if s'.doc = t then (SD.found, s') else (SD.lower s'.doc, s')) := by
  have hcore := core0 hC hscore hH hH0
  have hd' := hcore.doc_eq hV'
  have ht : t ≤ TERMINATED := Nat.le_of_lt htlt
  have hge : t ≤ Spec.doc (Spec.seek t l) := Spec.seek_head_ge ht
  by_cases hf : s'.doc = t
  · simp only [hf, if_true, SDPost]
    have : Spec.doc (Spec.seek t l) ∈ Spec.seek t l := Spec.doc_mem (by rw [← hd', hf]; exact htlt)
    rw [← hd', hf] at this
    exact ⟨Spec.seek_ge t l t this, hV'⟩
  · simp only [hf, if_false, SDPost]
    have hnm : t ∉ l := by
      intro h; exact hf (by rw [hd', Spec.doc_seek_of_mem hs h])
    refine ⟨hnm, Or.inl ⟨Spec.seek t l, hV', ?_, (Spec.seek_seek (Nat.le_refl t)).symm⟩, Or.inl ?_, ?_, fun _ => ?_⟩
    · intro h; exact hnm (Spec.seek_ge t l t h)
    · have : s'.doc ≠ t := hf
      rw [hd'] at this ⊢; omega
    · rw [hd']; exact Spec.doc_le (hs.seek t)
    · rw [hd']; exact Nat.le_refl _


theorem Agree.mono {c c' : Nat} {ls ls' : List (List Nat)} (h : Exclude.Agree c ls ls') (hc : c ≤ c') :
    Exclude.Agree c' ls ls' := by
  induction h with
  | nil => exact All2.nil
  | cons h1 _ ih => exact All2.cons (fun x hx => h1 x (Nat.le_trans hc hx)) ih

theorem Agree.trans {c : Nat} : ∀ {l1 l2 l3 : List (List Nat)}, Exclude.Agree c l1 l2 → Exclude.Agree c l2 l3 →
    Exclude.Agree c l1 l3
  | [], [], [], _, _ => All2.nil
  | _ :: _, _ :: _, _ :: _, h1, h2 => by
    cases h1 with
    | cons a1 b1 =>
      cases h2 with
      | cons a2 b2 => exact All2.cons (fun x hx => (a2 x hx).trans (a1 x hx)) (Agree.trans b1 b2)
  | [], [], _ :: _, _, h2 => by cases h2
  | [], _ :: _, _, h1, _ => by cases h1
  | _ :: _, [], _, h1, _ => by cases h1
  | _ :: _, _ :: _, [], _, h2 => by cases h2

theorem all2_dst_mono {t t' : Nat} {cs : List σ} {ls : List (List Nat)}
    (h : All2 (Inter.DSt VC WC t) cs ls) (htt : t ≤ t') : All2 (Inter.DSt VC WC t') cs ls :=
  Inter.all2_DSt_mono h htt

/-- `seek_far_dst` with the children's lists only known to agree (above `t`) with reference lists -/
theorem seek_far_agree (hC : Lawful C VC WC) (hscore : ∀ {c l}, VC c l → VC (C.score c).2 l)
    {H : Nat} (hH : 64 ∣ H) (hH0 : 0 < H) (fx : Fix) {s : State σ} {t t' : Nat}
    {ls ls' : List (List Nat)} {U : List Nat} (htt : t ≤ t') (ht : t' ≤ TERMINATED)
    (hdoc : s.doc < t') (hfar : s.ws + H ≤ t') (h2 : All2 (Inter.DSt VC WC t) s.docsets ls')
    (hag : Exclude.Agree t ls ls') (hss : ∀ li ∈ ls, Sorted li) (hU : SimpleUnion.IsUnion U ls) :
    V VC H (seek fx C H t' s) (Spec.seek t' U) := by
  unfold seek
  have hge : ¬ s.doc ≥ t' := by omega
  have hgap : ¬ t' - s.ws < H := by omega
  simp only [hge, if_false, inHorizonGap_eq, hgap, decide_false, Bool.false_eq_true, revalidate_guard, Bool.or_true, if_true]
  have h3 := revalidate_dst hC htt ht h2
  rw [Inter.agree_map_seek hag htt hss (all2_dst_sorted hC h2)] at h3
  exact far_law hC hscore hH hH0 s _ h3 (isUnion_seek hU hss t')

/-- the far path of `seek_danger` from a state whose buffered part lies below `t` -/
theorem sd_far (hC : Lawful C VC WC) (hscore : ∀ {c l}, VC c l → VC (C.score c).2 l)
    {H : Nat} (hH : 64 ∣ H) (hH0 : 0 < H) (fx : Fix) {s : State σ} {t t0 : Nat}
    {ls ls' : List (List Nat)} {U l : List Nat} (ht0 : t0 ≤ t) (htlt : t < TERMINATED)
    (hdoc : s.doc < t) (hfar : s.ws + H ≤ t) (h2 : All2 (Inter.DSt VC WC t0) s.docsets ls')
    (hag : Exclude.Agree t0 ls ls') (hss : ∀ li ∈ ls, Sorted li) (hU : SimpleUnion.IsUnion U ls)
    (hmem : t ∈ l ↔ t ∈ U) (hseek : Spec.seek t l = Spec.seek t U) :
    SDPost (V VC H) (W VC WC H) l t True
      (if (dangerChildren C t s.docsets TERMINATED).1.1 then
          (SD.found, seek fx C H t { s with docsets := (dangerChildren C t s.docsets TERMINATED).2 })
        else (SD.lower (dangerChildren C t s.docsets TERMINATED).1.2,
          { s with docsets := (dangerChildren C t s.docsets TERMINATED).2 })) := by
  have ht : t ≤ TERMINATED := Nat.le_of_lt htlt
  obtain ⟨ls'', i1, i2, i3, i4⟩ := dangerChildren_law hC ht (all2_dst_mono h2 ht0) TERMINATED
  have hag' : Exclude.Agree t ls ls'' := Agree.trans (Agree.mono hag ht0) i2
  have hss' := all2_dst_sorted hC h2
  by_cases hhit : (dangerChildren C t s.docsets TERMINATED).1.1 = true
  · simp only [hhit, if_true, SDPost]
    obtain ⟨li', hli', hx⟩ := i3 hhit
    have hinU : t ∈ U := by
      obtain ⟨li, hli, hx'⟩ := (agree_union (Agree.mono hag ht0) (Nat.le_refl t)).mp ⟨li', hli', hx⟩
      exact (hU.2 t).mpr ⟨li, hli, hx'⟩
    refine ⟨hmem.mpr hinU, ?_⟩
    rw [hseek]
    exact seek_far_agree hC hscore hH hH0 fx (s := { s with docsets := (dangerChildren C t s.docsets TERMINATED).2 })
      (Nat.le_refl t) ht hdoc hfar i1 hag' hss hU
  · have hmiss : (dangerChildren C t s.docsets TERMINATED).1.1 = false := by simpa using hhit
    simp only [hmiss, Bool.false_eq_true, if_false, SDPost]
    obtain ⟨j1, j2, j3, j4⟩ := i4 hmiss
    have hnotU : t ∉ U := by
      intro h
      obtain ⟨li, hli, hx⟩ := (hU.2 t).mp h
      obtain ⟨li', hli', hx'⟩ := (agree_union (Agree.mono hag ht0) (Nat.le_refl t)).mpr ⟨li, hli, hx⟩
      exact j1 li' hli' hx'
    have hgt : ∀ x ∈ Spec.seek t U, t < x := by
      intro x hx
      have := (Spec.mem_seek hU.1 x).mp hx
      have : x ≠ t := by rintro rfl; exact hnotU this.1
      omega
    refine ⟨fun h => hnotU (hmem.mp h), Or.inr ⟨ls, ls'', U, i1, hag', hss, hU, hdoc, hfar, ht, hgt, hseek⟩,
      j3 (Or.inr rfl), by omega, fun _ => ?_⟩
    rw [hseek]
    apply Spec.doc_ge_of_all _ (by omega)
    intro x hx
    have hxm := (Spec.mem_seek hU.1 x).mp hx
    obtain ⟨li, hli, hxl⟩ := (hU.2 x).mp hxm.1
    obtain ⟨li', hli', hxl'⟩ := (agree_union (Agree.mono hag ht0) hxm.2).mpr ⟨li, hli, hxl⟩
    exact Nat.le_trans (j4 li' hli') (Inter.ge_next (hss' li' hli') hxl' hxm.2)


theorem all2_V_dst {t : Nat} {cs : List σ} {ls : List (List Nat)} (h : All2 VC cs ls) :
    All2 (Inter.DSt VC WC t) cs ls := by
  induction h with
  | nil => exact All2.nil
  | cons a _ ih => exact All2.cons (Or.inl a) ih

theorem dangerBuffered_eq (fx : Fix) (H : Nat) (s : State σ) (t : Nat) :
    dangerBuffered fx H s t = (decide (t < s.ws) || (decide (s.ws ≤ t) && decide (t - s.ws < H))) := by
  unfold dangerBuffered isInHorizon
  simp [buffered_guard]

theorem seek_nil_term {l : List Nat} (hs : Sorted l) : Spec.seek TERMINATED l = [] :=
  Inter.seek_nil_of_term hs (Nat.le_refl _)

/-- `seek_danger` from a valid state -/
theorem sdV_law (hC : Lawful C VC WC) (hscore : ∀ {c l}, VC c l → VC (C.score c).2 l)
    {H : Nat} (hH : 64 ∣ H) (hH0 : 0 < H) (fx : Fix) {s : State σ} {l : List Nat} {t : Nat}
    (hV : V VC H s l) (ht : t ≤ TERMINATED) :
    SDPost (V VC H) (W VC WC H) l t True (seekDanger fx C H t s) := by
  have hcore := core0 hC hscore hH hH0
  have hsl := hcore.sorted hV
  unfold seekDanger
  by_cases hT : t ≥ TERMINATED
  · have hte : t = TERMINATED := by omega
    simp only [hT, if_true, SDPost]
    have hnm : t ∉ l := by intro h; have := hsl.2 t h; omega
    exact ⟨hnm, Or.inl ⟨l, hV, hnm, rfl⟩, (by first | exact Or.inr rfl | exact Or.inr trivial), Nat.le_refl _, fun _ => by rw [← hte]; exact Spec.seek_head_ge ht⟩
  · simp only [hT, if_false]
    have htlt : t < TERMINATED := by omega
    rw [dangerBuffered_eq]
    by_cases hb : (decide (t < s.ws) || (decide (s.ws ≤ t) && decide (t - s.ws < H))) = true
    · simp only [hb, if_true]
      exact sd_buffered hC hscore hH hH0 hsl htlt (seek_any hC hscore hH hH0 fx hV ht)
    · simp only [hb, Bool.false_eq_true, if_false]
      have hfar : s.ws + H ≤ t := by
        simp only [Bool.or_eq_true, Bool.and_eq_true, decide_eq_true_eq, not_or, not_and] at hb
        omega
      obtain ⟨ls, U, h2, hne, hU, hwp, hwb, hUh, _, hcase⟩ := hV
      rcases hcase with ⟨hdT, hw0, hls, rfl⟩ | ⟨hws, hdH, hlt, rfl⟩
      · -- the union is exhausted: no children
        subst hls
        have hd0 : s.docsets = [] := all2_nil_right h2
        simp only [hd0, dangerChildren, Bool.false_eq_true, if_false, SDPost]
        have hV0 : V VC H { s with docsets := [] } [] :=
          ⟨[], U, All2.nil, by simp, hU, hwp, hwb, hUh, Sorted.nil, Or.inl ⟨hdT, hw0, rfl, rfl⟩⟩
        exact ⟨by simp, Or.inl ⟨[], hV0, by simp, rfl⟩, (by first | exact Or.inr rfl | exact Or.inr trivial), Nat.le_refl _, fun _ => by simp [Spec.seek, Spec.doc]⟩
      · have hss := SimpleUnion.all2_sorted hC h2
        have h2d : All2 (Inter.DSt VC WC t) s.docsets ls := all2_V_dst h2
        have hmem : t ∈ s.doc :: (s.window.map (s.ws + ·) ++ U) ↔ t ∈ U := by
          simp only [List.mem_cons, List.mem_append, List.mem_map]
          constructor
          · rintro (h | ⟨δ, hδ, h⟩ | h)
            · omega
            · have := (hwb δ hδ).1; omega
            · exact h
          · intro h; exact Or.inr (Or.inr h)
        have hseek : Spec.seek t (s.doc :: (s.window.map (s.ws + ·) ++ U)) = Spec.seek t U := by
          apply Sorted.ext (hsl.seek t) (hU.1.seek t)
          intro x
          rw [Spec.mem_seek hsl, Spec.mem_seek hU.1]
          simp only [List.mem_cons, List.mem_append, List.mem_map]
          constructor
          · rintro ⟨(h | ⟨δ, hδ, rfl⟩ | h), hx⟩
            · omega
            · have := (hwb δ hδ).1; omega
            · exact ⟨h, hx⟩
          · rintro ⟨h, hx⟩; exact ⟨Or.inr (Or.inr h), hx⟩
        exact sd_far hC hscore hH hH0 fx (Nat.le_refl t) htlt (by omega) hfar h2d (Exclude.Agree.refl t ls) hss hU hmem hseek

theorem SDPost.congr_list {V' : State σ → List Nat → Prop} {W'' : State σ → Nat → List Nat → Prop}
    {l l' : List Nat} {t : Nat} {r : SD × State σ} (h : SDPost V' W'' l t True r)
    (hmem : t ∈ l' ↔ t ∈ l) (hseek : Spec.seek t l' = Spec.seek t l) : SDPost V' W'' l' t True r := by
  rcases r with ⟨r1, s'⟩
  cases r1 with
  | found => exact ⟨hmem.mpr h.1, by rw [hseek]; exact h.2⟩
  | lower b =>
    refine ⟨fun x => h.1 (hmem.mp x), by rw [hseek]; exact h.2.1, h.2.2.1, h.2.2.2.1, fun x => ?_⟩
    rw [hseek]; exact h.2.2.2.2 x

/-- `seek_danger` from a danger zone -/
theorem sdW_law (hC : Lawful C VC WC) (hscore : ∀ {c l}, VC c l → VC (C.score c).2 l)
    {H : Nat} (hH : 64 ∣ H) (hH0 : 0 < H) (fx : Fix) {s : State σ} {l : List Nat} {t0 t : Nat}
    (hW : W VC WC H s t0 l) (h0 : t0 ≤ t) (ht : t ≤ TERMINATED) :
    SDPost (V VC H) (W VC WC H) l t True (seekDanger fx C H t s) := by
  rcases hW with ⟨l0, hV, hn, rfl⟩ | ⟨ls, ls', U, h2, hag, hss, hU, hdoc, hfar, ht0, hgt, rfl⟩
  · have hs := (core0 hC hscore hH hH0).sorted hV
    refine SDPost.congr_list (sdV_law hC hscore hH hH0 fx hV ht) ?_ (Spec.seek_seek h0)
    rw [Spec.mem_seek hs]
    exact ⟨fun h => h.1, fun h => ⟨h, h0⟩⟩
  · have hUs := hU.1
    unfold seekDanger
    by_cases hT : t ≥ TERMINATED
    · have hte : t = TERMINATED := by omega
      simp only [hT, if_true, SDPost]
      have hnm : t ∉ Spec.seek t0 U := by
        intro h; have := (hUs.seek t0).2 t h; omega
      refine ⟨hnm, Or.inr ⟨ls, ls', U, all2_dst_mono h2 h0, Agree.mono hag h0, hss, hU, by omega, by omega, ht, ?_,
        Spec.seek_seek h0⟩, (by first | exact Or.inr rfl | exact Or.inr trivial), Nat.le_refl _, fun _ => by rw [← hte]; exact Spec.seek_head_ge ht⟩
      intro x hx
      have := (Spec.mem_seek hUs x).mp hx
      have := hUs.2 x this.1
      omega
    · simp only [hT, if_false]
      have htlt : t < TERMINATED := by omega
      rw [dangerBuffered_eq]
      have hb : (decide (t < s.ws) || (decide (s.ws ≤ t) && decide (t - s.ws < H))) = false := by
        simp only [Bool.or_eq_false_iff, Bool.and_eq_false_iff, decide_eq_false_iff_not]
        constructor
        · omega
        · right; omega
      simp only [hb, Bool.false_eq_true, if_false]
      refine sd_far hC hscore hH hH0 fx h0 htlt (by omega) (by omega) h2 hag hss hU ?_ (Spec.seek_seek h0)
      rw [Spec.mem_seek hUs]
      exact ⟨fun h => h.1, fun h => ⟨h, h0⟩⟩

theorem wsorted_law (hC : Lawful C VC WC) (hscore : ∀ {c l}, VC c l → VC (C.score c).2 l)
    {H : Nat} (hH : 64 ∣ H) (hH0 : 0 < H) {s : State σ} {l : List Nat} {t0 : Nat}
    (hW : W VC WC H s t0 l) : Sorted l ∧ ∀ x ∈ l, t0 < x := by
  rcases hW with ⟨l0, hV, hn, rfl⟩ | ⟨ls, ls', U, _, _, _, hU, _, _, _, hgt, rfl⟩
  · have hs := (core0 hC hscore hH hH0).sorted hV
    refine ⟨hs.seek t0, fun x hx => ?_⟩
    have := (Spec.mem_seek hs x).mp hx
    have hne : x ≠ t0 := by rintro rfl; exact hn this.1
    omega
  · exact ⟨hU.1.seek t0, hgt⟩

theorem wdoc_law (hC : Lawful C VC WC) (hscore : ∀ {c l}, VC c l → VC (C.score c).2 l)
    {H : Nat} (hH : 64 ∣ H) (hH0 : 0 < H) {s : State σ} {l : List Nat} {t0 : Nat}
    (hW : W VC WC H s t0 l) : s.doc ≤ Spec.doc l := by
  rcases hW with ⟨l0, hV, hn, rfl⟩ | ⟨ls, ls', U, _, _, _, hU, hdoc, _, ht0, hgt, rfl⟩
  · have hcore := core0 hC hscore hH hH0
    rw [hcore.doc_eq hV]
    exact Spec.doc_le_doc_seek (hcore.sorted hV) t0
  · apply Spec.doc_ge_of_all _ (by omega)
    intro x hx
    have := hgt x hx; omega

theorem wseek_law (hC : Lawful C VC WC) (hscore : ∀ {c l}, VC c l → VC (C.score c).2 l)
    {H : Nat} (hH : 64 ∣ H) (hH0 : 0 < H) (fx : Fix) {s : State σ} {l : List Nat} {t0 t : Nat}
    (hW : W VC WC H s t0 l) (h0 : t0 ≤ t) (hd : s.doc ≤ t) (ht : t ≤ TERMINATED) :
    V VC H (seek fx C H t s) (Spec.seek t l) := by
  rcases hW with ⟨l0, hV, hn, rfl⟩ | ⟨ls, ls', U, h2, hag, hss, hU, hdoc, hfar, ht0, hgt, rfl⟩
  · rw [Spec.seek_seek h0]
    exact seek_law hC hscore hH hH0 fx hV hd ht
  · rw [Spec.seek_seek h0]
    exact seek_far_agree hC hscore hH hH0 fx h0 ht (by omega) (by omega) h2 hag hss hU


/-- the buffered union with the trait's default `fill_buffer` in place of its own (every other method
is the real one) -/
def dsNF (C : DS σ) (H : Nat) (fx : Fix) : DS (State σ) :=
  { ds C H fx with fillBuffer := defaultFillBuffer (fun s : State σ => s.doc) (advance C H) }

theorem lawful_nf (hC : Lawful C VC WC) (hscore : ∀ {c l}, VC c l → VC (C.score c).2 l)
    {H : Nat} (hH : 64 ∣ H) (hH0 : 0 < H) (fx : Fix) :
    Lawful (dsNF C H fx) (V VC H) (W VC WC H) where
  sorted := (core hC hscore hH hH0 fx).sorted
  doc_eq := (core hC hscore hH hH0 fx).doc_eq
  advance := (core hC hscore hH hH0 fx).advance
  seek := (core hC hscore hH hH0 fx).seek
  fillBuffer := fun h => defaultFillBuffer_law (core0 hC hscore hH hH0) h
  fillBitset := fun h hd hm => defaultFillBitset_law (core hC hscore hH hH0 fx) h hd hm
  count := fun h => count_law hC hscore hH hH0 fx h
  wsorted := fun h => wsorted_law hC hscore hH hH0 h
  wdoc := fun h => wdoc_law hC hscore hH hH0 h
  wseek := fun h h0 hd ht => wseek_law hC hscore hH hH0 fx h h0 hd ht
  sdV := fun h ht => sdV_law hC hscore hH hH0 fx h ht
  sdW := fun h h0 ht => sdW_law hC hscore hH hH0 fx h h0 ht


end TantivyModel.DocSet.BUnion
